import OvniModel.Lemmas.Task
/-! Helper lemmas for C07, event level: frame properties, the nesting invariant,
    the thread view invariant of `update_task`. -/
namespace Ovni.Task
open Spec

/-- What a task record keeps for ever. -/
def Task.same (T T' : Task) : Prop := T'.id = T.id ∧ T'.gid = T.gid ∧ T'.flags = T.flags ∧ T'.typeId = T.typeId

theorem bodyExecute_frame {σ σ' : Sys} {s t b : Nat} {B : Body} (h : bodyExecute σ s t b B = .ok σ') :
    σ'.tasks = σ.tasks ∧ σ'.types = σ.types := by
  obtain ⟨B1, _, _, _, _, rfl⟩ := bodyExecute_ok.1 h
  exact ⟨rfl, rfl⟩

theorem bodyPause_frame {σ σ' : Sys} {s t b : Nat} {B : Body} (h : bodyPause σ s t b B = .ok σ') :
    σ'.tasks = σ.tasks ∧ σ'.types = σ.types := by
  unfold bodyPause at h
  split at h
  · cases h
  · split at h
    · cases h
    · split at h
      · cases h
      · cases h; exact ⟨rfl, rfl⟩

theorem bodyResume_frame {σ σ' : Sys} {s t b : Nat} {B : Body} (h : bodyResume σ s t b B = .ok σ') :
    σ'.tasks = σ.tasks ∧ σ'.types = σ.types := by
  unfold bodyResume at h
  split at h
  · cases h
  · split at h
    · cases h
    · cases h; exact ⟨rfl, rfl⟩

theorem bodyEnd_frame {σ σ' : Sys} {s t b : Nat} {B : Body} (h : bodyEnd σ s t b B = .ok σ') :
    σ'.tasks = σ.tasks ∧ σ'.types = σ.types := by
  unfold bodyEnd at h
  split at h
  · cases h
  · split at h
    · cases h
    · cases h; exact ⟨rfl, rfl⟩

/-- Every operation keeps the known tasks, with their id, type and flags, and the known types. -/
theorem step_frame {σ σ' : Sys} {op : Op} (inv : Inv σ) (h : step σ op = .ok σ') :
    (∀ i T, σ.tasks i = some T → ∃ T', σ'.tasks i = some T' ∧ T.same T') ∧
    (∀ ty g, σ.types ty = some g → σ'.types ty = some g) := by
  have triv : ∀ {σ' : Sys}, σ'.tasks = σ.tasks ∧ σ'.types = σ.types →
      (∀ i T, σ.tasks i = some T → ∃ T', σ'.tasks i = some T' ∧ T.same T') ∧
      (∀ ty g, σ.types ty = some g → σ'.types ty = some g) := by
    intro σ' ⟨h1, h2⟩
    rw [h1, h2]
    exact ⟨fun i T hT => ⟨T, hT, rfl, rfl, rfl, rfl⟩, fun _ _ h => h⟩
  cases op with
  | typeCreate ty gid =>
    simp only [step, taskTypeCreate] at h
    split at h
    · cases h
    · split at h
      · cases h
      · split at h
        · cases h
        · rename_i hne _ _
          cases h
          refine ⟨fun i T hT => ⟨T, hT, rfl, rfl, rfl, rfl⟩, ?_⟩
          intro ty' g hg
          simp only [Sys.setType]
          split
          · subst_vars; rw [hg] at hne; simp at hne
          · exact hg
  | create ty t f =>
    simp only [step, taskCreate] at h
    split at h
    · cases h
    · rename_i hne
      split at h
      · cases h
      · cases h
        refine ⟨?_, fun _ _ h => h⟩
        intro i T hT
        refine ⟨T, ?_, rfl, rfl, rfl, rfl⟩
        simp only [Sys.setTask]
        split
        · subst_vars; rw [hT] at hne; simp at hne
        · exact hT
  | exec s t b =>
    simp only [step, taskExecute] at h
    split at h
    · cases h
    · rename_i T hT
      split at h
      · exact triv (bodyExecute_frame h)
      · split at h
        · cases h
        · rename_i σ1 B1 hc
          obtain ⟨h1, h2⟩ := bodyExecute_frame h
          rw [h1, h2]
          unfold createBody at hc
          split at hc
          · cases hc
          · split at hc
            · cases hc
            · cases hc
              refine ⟨?_, fun _ _ h => h⟩
              intro i Ti hTi
              simp only [Sys.setTask, Sys.setBody]
              split
              · rename_i hi
                have := inv.taskId t T hT
                subst hi
                rw [this] at hTi; rw [hT] at hTi; cases hTi
                exact ⟨_, rfl, rfl, rfl, rfl, rfl⟩
              · exact ⟨Ti, hTi, rfl, rfl, rfl, rfl⟩
  | pause s t b =>
    simp only [step, taskPause] at h
    split at h
    · cases h
    · split at h
      · cases h
      · exact triv (bodyPause_frame h)
  | resume s t b =>
    simp only [step, taskResume] at h
    split at h
    · cases h
    · split at h
      · cases h
      · exact triv (bodyResume_frame h)
  | end_ s t b =>
    simp only [step, taskEnd] at h
    split at h
    · cases h
    · split at h
      · cases h
      · exact triv (bodyEnd_frame h)

/-- Structural facts about reachable specification states (consequences of `Inv`). -/
structure AInv (a : Abs) : Prop where
  nodup : ∀ s, (a.stack s).Nodup
  memPhase : ∀ s t b, (t, b) ∈ a.stack s → a.phase t b = some .running ∨ a.phase t b = some .paused
  unique : ∀ s s' t b, (t, b) ∈ a.stack s → (t, b) ∈ a.stack s' → s = s'
  phaseFlags : ∀ t b p, a.phase t b = some p → ∃ f, a.flags t = some f

theorem ainv_of_inv {σ : Sys} (inv : Inv σ) : AInv (abs σ) := by
  constructor
  · exact inv.nodup
  · intro s t b hm
    obtain ⟨B, hB, hs⟩ := (inv.onStack t b s).1 hm
    have := (inv.stackState t b B hB).1 (by rw [hs]; simp)
    rw [abs_phase hB]
    rcases this with h | h <;> rw [h]
    · exact .inl rfl
    · exact .inr rfl
  · intro s s' t b h1 h2
    obtain ⟨B, hB, hs⟩ := (inv.onStack t b s).1 h1
    obtain ⟨B', hB', hs'⟩ := (inv.onStack t b s').1 h2
    rw [hB] at hB'; cases hB'; rw [hs] at hs'; cases hs'; rfl
  · intro t b p hp
    obtain ⟨B, hB, _⟩ := bodyOfPhase hp
    obtain ⟨_, _, T, hT, _⟩ := inv.body t b B hB
    exact ⟨T.flags, abs_flags.2 ⟨T, hT, rfl⟩⟩

/-- Nesting only over a paused body unless relaxed, as a state invariant: every
    body below another one in a thread's stack is paused, or its task relaxes
    the nesting rule. -/
def Below (a : Abs) : Prop :=
  ∀ s r rest, a.stack s = r :: rest → ∀ x ∈ rest,
    a.phase x.1 x.2 = some .paused ∨ ∃ f, a.flags x.1 = some f ∧ f.relax = true

theorem below_init : Below Abs.init := by
  intro s r rest h; simp [Abs.init] at h

theorem below_exec {a : Abs} {s t b : Nat} (ai : AInv a) (hb : Below a)
    (hnot : ∀ s', (t, b) ∉ a.stack s') (hcan : a.canStart s) :
    Below ((a.setPhase t b .running).setStack s ((t, b) :: a.stack s)) := by
  intro s0 r rest hst x hx
  have hxne : x ∈ a.stack s0 → x ≠ (t, b) := fun hm he => hnot s0 (he ▸ hm)
  simp only [Abs.setStack, Abs.setPhase] at hst ⊢
  by_cases hs : s0 = s
  · subst hs
    simp only [if_true, List.cons.injEq] at hst
    obtain ⟨rfl, rfl⟩ := hst
    have hne : ¬(x.1 = t ∧ x.2 = b) := fun h => hxne hx (Prod.ext h.1 h.2)
    rw [if_neg hne]
    cases hl : a.stack s0 with
    | nil => rw [hl] at hx; cases hx
    | cons x0 rest0 =>
      rw [hl] at hx
      rcases List.mem_cons.1 hx with rfl | hx'
      · have hm : (x.1, x.2) ∈ a.stack s0 := by rw [hl]; exact List.mem_cons_self
        rcases ai.memPhase s0 x.1 x.2 hm with hr | hp
        · right; exact hcan x.1 x.2 (by unfold Abs.isTop; rw [hl]; rfl) hr
        · left; exact hp
      · exact hb s0 x0 rest0 hl x hx'
  · rw [if_neg hs] at hst
    have hm : x ∈ a.stack s0 := by rw [hst]; exact List.mem_cons_of_mem _ hx
    have hne : ¬(x.1 = t ∧ x.2 = b) := fun h => hxne hm (Prod.ext h.1 h.2)
    rw [if_neg hne]
    exact hb s0 r rest hst x hx

theorem below_step {a a' : Abs} {op : Op} (ai : AInv a) (hb : Below a) (h : Step a op a') : Below a' := by
  cases h with
  | typeCreate _ _ => exact hb
  | @create ty t f hfl _ =>
    intro s r rest hst x hx
    rcases hb s r rest hst x hx with h | ⟨f0, hf0, hr⟩
    · exact .inl h
    · right
      refine ⟨f0, ?_, hr⟩
      simp only [Abs.addTask]
      split
      · rename_i he; rw [he, hfl] at hf0; cases hf0
      · exact hf0
  | execFirst _ _ hph _ hcan =>
    apply below_exec ai hb _ hcan
    intro s' hm
    rcases ai.memPhase s' _ _ hm with h | h <;> rw [hph] at h <;> cases h
  | execAgain _ hph _ hcan =>
    apply below_exec ai hb _ hcan
    intro s' hm
    rcases ai.memPhase s' _ _ hm with h | h <;> rw [hph] at h <;> cases h
  | @pause s t b f _ _ _ htop =>
    intro s0 r rest hst x hx
    simp only [Abs.setPhase] at hst ⊢
    split
    · exact .inl rfl
    · exact hb s0 r rest hst x hx
  | @resume s t b _ htop =>
    intro s0 r rest hst x hx
    simp only [Abs.setPhase] at hst ⊢
    have hne : ¬(x.1 = t ∧ x.2 = b) := by
      intro he
      have hx' : (t, b) ∈ rest := by rw [← he.1, ← he.2]; exact hx
      have hm0 : (t, b) ∈ a.stack s0 := by rw [hst]; exact List.mem_cons_of_mem _ hx'
      have hm : (t, b) ∈ a.stack s := List.mem_of_mem_head? (by unfold Abs.isTop at htop; rw [htop]; rfl)
      have := ai.unique s0 s t b hm0 hm
      subst this
      unfold Abs.isTop at htop
      rw [hst] at htop
      simp only [List.head?_cons, Option.some.injEq] at htop
      have nd := ai.nodup s0
      rw [hst, htop] at nd
      exact (List.nodup_cons.1 nd).1 hx'
    rw [if_neg hne]
    exact hb s0 r rest hst x hx
  | @end_ s t b _ htop =>
    intro s0 r rest hst x hx
    simp only [Abs.setPhase, Abs.setStack] at hst ⊢
    have hm : (t, b) ∈ a.stack s := List.mem_of_mem_head? (by unfold Abs.isTop at htop; rw [htop]; rfl)
    by_cases hs : s0 = s
    · subst hs
      rw [if_pos rfl] at hst
      cases hl : a.stack s0 with
      | nil => rw [hl] at hst; cases hst
      | cons y tl =>
        rw [hl] at hst
        simp only [List.tail_cons] at hst
        unfold Abs.isTop at htop
        rw [hl] at htop
        simp only [List.head?_cons, Option.some.injEq] at htop
        subst htop
        have nd := ai.nodup s0
        rw [hl, hst] at nd
        have hne : ¬(x.1 = t ∧ x.2 = b) := by
          intro he
          have hx' : (t, b) ∈ r :: rest := by rw [← he.1, ← he.2]; exact List.mem_cons_of_mem _ hx
          exact (List.nodup_cons.1 nd).1 hx'
        rw [if_neg hne]
        exact hb s0 (t, b) (r :: rest) (by rw [hl, hst]) x (List.mem_cons_of_mem _ hx)
    · rw [if_neg hs] at hst
      have hne : ¬(x.1 = t ∧ x.2 = b) := by
        intro he
        have hx' : (t, b) ∈ rest := by rw [← he.1, ← he.2]; exact hx
        have hm0 : (t, b) ∈ a.stack s0 := by rw [hst]; exact List.mem_cons_of_mem _ hx'
        exact hs (ai.unique s0 s t b hm0 hm)
      rw [if_neg hne]
      exact hb s0 r rest hst x hx
/-- `proc->rank + 1`, or null without rank -/
def rankVal (P : ProcInfo) : Option Int := if P.rank ≥ 0 then some (P.rank + 1) else none

/-- What a thread's task channels must show for a given running body. -/
def showVals (m : Model) (P : ProcInfo) (t gid b : Nat) : Chans :=
  match m with
  | .nosv => ⟨some t, some gid, some b, some P.appid, rankVal P⟩
  | .nanos6 => ⟨some t, some gid, none, none, rankVal P⟩

def viewOf (m : Model) (P : ProcInfo) : Option (Task × Body) → Chans
  | none => Chans.null
  | some (T, B) => showVals m P T.id T.gid B.id

theorem nanos6_dups : Cfg.nanos6.dupType = true ∧ Cfg.nanos6.dupRank = true := by decide

theorem nosv_body : Cfg.nosv.stTaskBody = Ovni.Generated.Nosv.stTaskBody ∧
    Cfg.nanos6.stTaskBody = Ovni.Generated.Nanos6.stTaskBody := ⟨rfl, rfl⟩

theorem chanSet_ok {dup : Bool} {cur v : Option Int} (h : dup = true ∨ cur ≠ v) :
    chanSet dup cur v = .ok v := by
  unfold chanSet
  rcases h with h | h
  · simp [h]
  · simp [h]

theorem chanShow_null (m : Model) (P : ProcInfo) (T : Task) (B : Body) :
    chanShow m P Chans.null T B = .ok (viewOf m P (some (T, B))) := by
  cases m <;>
  · simp only [chanShow, Chans.null, viewOf, showVals, rankVal]
    by_cases hr : P.rank ≥ 0 <;>
      simp [hr, chanSet_ok, bind, Except.bind, pure, Except.pure]

theorem chanStopped_view (m : Model) (P : ProcInfo) (T : Task) (B : Body) :
    chanStopped m P (viewOf m P (some (T, B))) = .ok Chans.null := by
  cases m <;>
  · simp only [chanStopped, Chans.null, viewOf, showVals, rankVal]
    by_cases hr : P.rank ≥ 0 <;>
      simp [hr, chanSet_ok, bind, Except.bind, pure, Except.pure]

theorem chanShow_switch6 (P : ProcInfo) (Tp T : Task) (Bp B : Body) (hne : Tp.id ≠ T.id) :
    chanShow .nanos6 P (viewOf .nanos6 P (some (Tp, Bp))) T B = .ok (viewOf .nanos6 P (some (T, B))) := by
  have hd := nanos6_dups
  have h1 : chanSet Cfg.nanos6.dupTaskid (some (Tp.id : Int)) (some (T.id : Int)) = .ok (some (T.id : Int)) :=
    chanSet_ok (.inr (by simp; omega))
  simp only [chanShow, viewOf, showVals, rankVal, Model.cfg]
  by_cases hr : P.rank ≥ 0 <;>
    simp [hr, h1, chanSet_ok, hd.1, hd.2, bind, Except.bind, pure, Except.pure]

/-- The running body of a thread in terms of keys. -/
theorem runningT_some {σ : Sys} (inv : Inv σ) {s : Nat} {T : Task} {B : Body} :
    σ.runningT s = some (T, B) ↔
      ∃ t b, (σ.stacks s).head? = some (t, b) ∧ σ.bodies t b = some B ∧ B.state = .running ∧
        σ.tasks t = some T := by
  unfold Sys.runningT Sys.running
  cases hh : (σ.stacks s).head? with
  | none => simp
  | some r =>
    obtain ⟨t, b⟩ := r
    cases hB : σ.bodies t b with
    | none => simp [hB]
    | some B0 =>
      by_cases hr : B0.state = .running
      · cases hT : σ.tasks t with
        | none =>
          obtain ⟨_, _, T0, hT0, _⟩ := inv.body t b B0 hB
          rw [hT] at hT0; cases hT0
        | some T0 =>
          simp only [hB, hr, if_true, hT, Option.some.injEq, Prod.mk.injEq]
          constructor
          · rintro ⟨rfl, rfl⟩; exact ⟨t, b, ⟨rfl, rfl⟩, hB, hr, hT⟩
          · rintro ⟨t', b', ⟨rfl, rfl⟩, hB', _, hT'⟩
            rw [hB] at hB'; cases hB'; rw [hT] at hT'; cases hT'; exact ⟨rfl, rfl⟩
      · simp only [hB, if_neg hr, reduceCtorEq, false_iff, not_exists, not_and]
        rintro t' b' he hB' hr'
        cases he; rw [hB] at hB'; cases hB'; exact absurd hr' hr

theorem runningT_none {σ : Sys} (inv : Inv σ) {s : Nat} :
    σ.runningT s = none ↔
      ∀ t b, (σ.stacks s).head? = some (t, b) → (abs σ).phase t b ≠ some .running := by
  constructor
  · intro h t b hh hph
    obtain ⟨B, hB, hst⟩ := bodyOfPhase hph
    obtain ⟨_, _, T, hT, _⟩ := inv.body t b B hB
    have := (runningT_some inv (s := s) (T := T) (B := B)).2 ⟨t, b, hh, hB, phaseOf_running.1 hst, hT⟩
    rw [h] at this; cases this
  · intro h
    cases hr : σ.runningT s with
    | none => rfl
    | some p =>
      obtain ⟨T, B⟩ := p
      obtain ⟨t, b, hh, hB, hst, _⟩ := (runningT_some inv).1 hr
      exact absurd (by rw [abs_phase hB, hst]; rfl) (h t b hh)

/-- The view of a thread only depends on the top key, its phase and its task's gid. -/
theorem view_char {σ : Sys} (inv : Inv σ) (m : Model) (P : ProcInfo) (s : Nat) :
    viewOf m P (σ.runningT s) =
      match (σ.stacks s).head? with
      | none => Chans.null
      | some (t, b) =>
        if (abs σ).phase t b = some .running then
          match σ.tasks t with
          | some T => showVals m P t T.gid b
          | none => Chans.null
        else Chans.null := by
  cases hr : σ.runningT s with
  | some p =>
    obtain ⟨T, B⟩ := p
    obtain ⟨t, b, hh, hB, hst, hT⟩ := (runningT_some inv).1 hr
    simp only [hh, abs_phase hB, hst, phaseOf, if_true, hT, viewOf]
    rw [inv.taskId t T hT, inv.bodyId t b B hB]
  | none =>
    have h := (runningT_none inv).1 hr
    cases hh : (σ.stacks s).head? with
    | none => rfl
    | some r =>
      obtain ⟨t, b⟩ := r
      simp only [viewOf, if_neg (h t b hh)]

/-- Invariant of the event-level state. -/
structure EInv (m : Model) (P : ProcInfo) (ε : Emu) : Prop where
  inv : Inv ε.sys
  below : Below (abs ε.sys)
  flags : ∀ t T, ε.sys.tasks t = some T → ∃ par, T.flags = createFlags m par
  gid : ∀ t T, ε.sys.tasks t = some T → T.gid ≠ 0
  typeGid : ∀ ty g, ε.sys.types ty = some g → g ≠ 0
  noZero : ∀ b, ε.sys.bodies 0 b = none
  one : m = .nanos6 → ∀ t b B, ε.sys.bodies t b = some B → b = 1
  view : ∀ th, ε.ch th = viewOf m P (ε.sys.runningT th)

def eabs (ε : Emu) : EAbs := ⟨abs ε.sys, ε.ss⟩

/-- The task.h call made by a state event. -/
def opOf (v : TaskEv) (th t b : Nat) : Op :=
  match v with
  | .x => .exec th t b
  | .e => .end_ th t b
  | .p => .pause th t b
  | .r => .resume th t b

theorem no_relax_nosv {par : Bool} : (createFlags .nosv par).relax = false := by
  cases par <;> rfl

theorem stacks_of_abs {σ' : Sys} {a : Abs} (h : abs σ' = a) : σ'.stacks = a.stack := by
  rw [← h]; rfl

/-- Channel update of an execute event. -/
theorem chan_exec {m : Model} {P : ProcInfo} {ε : Emu} {σ' : Sys} {th t b : Nat}
    (hP : 0 < P.appid) (ei : EInv m P ε) (hb1 : m = .nanos6 → b = 1)
    (hs : step ε.sys (.exec th t b) = .ok σ') (ht : t ≠ 0) :
    ∃ T' B', σ'.runningT th = some (T', B') ∧ B'.state = .running ∧
      updateChannels m P (ε.ch th) (expand .x (ε.sys.runningT th).isSome true)
        (ε.sys.runningT th) (some (T', B')) = .ok (viewOf m P (some (T', B'))) := by
  obtain ⟨inv', st⟩ := step_sound ei.inv hs
  have ai := ainv_of_inv ei.inv
  generalize ha' : abs σ' = a' at st
  -- common facts of both execute rules
  have key : ∀ f, (abs ε.sys).flags t = some f →
      (∀ s', (t, b) ∉ ε.sys.stacks s') → (abs ε.sys).canStart th →
      a' = ((abs ε.sys).setPhase t b .running).setStack th ((t, b) :: (abs ε.sys).stack th) →
      ∃ T' B', σ'.runningT th = some (T', B') ∧ B'.state = .running ∧
        updateChannels m P (ε.ch th) (expand .x (ε.sys.runningT th).isSome true)
          (ε.sys.runningT th) (some (T', B')) = .ok (viewOf m P (some (T', B'))) := by
    intro f hf hnot hcan hEq
    subst hEq
    obtain ⟨T, hT, rfl⟩ := abs_flags.1 hf
    have hst' : σ'.stacks th = (t, b) :: ε.sys.stacks th := by
      rw [stacks_of_abs ha']; simp [Abs.setStack, Abs.setPhase, abs]
    have hph' : (abs σ').phase t b = some .running := by
      rw [ha']; simp [Abs.setStack, Abs.setPhase]
    obtain ⟨B', hB', hrun⟩ := bodyOfPhase hph'
    rw [phaseOf_running] at hrun
    obtain ⟨T', hT', hsame⟩ := (step_frame ei.inv hs).1 t T hT
    have hnext : σ'.runningT th = some (T', B') :=
      (runningT_some inv').2 ⟨t, b, by rw [hst']; rfl, hB', hrun, hT'⟩
    have hid' : T'.id = t := inv'.taskId t T' hT'
    have hgid' : T'.gid ≠ 0 := by rw [hsame.2.1]; exact ei.gid t T hT
    refine ⟨T', B', hnext, hrun, ?_⟩
    cases hprev : ε.sys.runningT th with
    | none =>
      simp only [Option.isSome_none, expand, Bool.false_eq_true, if_false, updateChannels, chanRunning]
      rw [if_neg (by omega), if_neg hgid', if_neg (by omega)]
      rw [ei.view th, hprev]
      exact chanShow_null m P T' B'
    | some p =>
      obtain ⟨Tp, Bp⟩ := p
      obtain ⟨tp, bp, hh, hBp, hrp, hTp⟩ := (runningT_some ei.inv).1 hprev
      have hrel := hcan tp bp hh (by rw [abs_phase hBp, hrp]; rfl)
      obtain ⟨fp, hfp, hrelax⟩ := hrel
      obtain ⟨Tp2, hTp2, rfl⟩ := abs_flags.1 hfp
      rw [hTp] at hTp2; cases hTp2
      obtain ⟨par, hpar⟩ := ei.flags tp Tp hTp
      cases m with
      | nosv => rw [hpar, no_relax_nosv] at hrelax; cases hrelax
      | nanos6 =>
        have hb : b = 1 := hb1 rfl
        have hbp : bp = 1 := ei.one rfl tp bp Bp hBp
        have hmem : (tp, bp) ∈ ε.sys.stacks th := List.mem_of_mem_head? (by rw [hh]; rfl)
        have hne : Tp.id ≠ T'.id := by
          rw [ei.inv.taskId tp Tp hTp, hid']
          intro he
          subst he hb hbp
          exact hnot th hmem
        have h1 : samePtr .nanos6 Tp Bp T' B' = false := by simp [samePtr, hne]
        have h2 : ¬ T'.id = 0 := by omega
        simp only [Option.isSome_some, expand, if_true, updateChannels, chanSwitch, h1,
          Bool.false_eq_true, if_false, h2, hgid']
        rw [ei.view th, hprev]
        exact chanShow_switch6 P Tp T' Bp B' hne
  cases st with
  | execFirst hf _ hph _ hcan =>
    apply key _ hf _ hcan rfl
    intro s' hm
    rcases ai.memPhase s' _ _ hm with h | h <;> rw [hph] at h <;> cases h
  | execAgain hf hph _ hcan =>
    apply key _ hf _ hcan rfl
    intro s' hm
    rcases ai.memPhase s' _ _ hm with h | h <;> rw [hph] at h <;> cases h

theorem phase_of_abs {σ' : Sys} {a : Abs} (h : abs σ' = a) (i j : Nat) :
    (abs σ').phase i j = a.phase i j := by rw [h]

/-- Channel update of an end event. -/
theorem chan_end {m : Model} {P : ProcInfo} {ε : Emu} {σ' : Sys} {th t b : Nat}
    (ei : EInv m P ε) (hs : step ε.sys (.end_ th t b) = .ok σ') (w : Bool) :
    updateChannels m P (ε.ch th) (expand .e w (σ'.runningT th).isSome)
      (ε.sys.runningT th) (σ'.runningT th) = .ok (viewOf m P (σ'.runningT th)) := by
  obtain ⟨inv', st⟩ := step_sound ei.inv hs
  have ai := ainv_of_inv ei.inv
  generalize ha' : abs σ' = a' at st
  cases st with
  | end_ hph htop =>
    obtain ⟨B, hB, hrun⟩ := bodyOfPhase hph
    rw [phaseOf_running] at hrun
    obtain ⟨_, _, T, hT, _⟩ := ei.inv.body t b B hB
    have hprev : ε.sys.runningT th = some (T, B) := (runningT_some ei.inv).2 ⟨t, b, htop, hB, hrun, hT⟩
    have hst' : σ'.stacks th = (ε.sys.stacks th).tail := by
      rw [stacks_of_abs ha']; simp [Abs.setStack, Abs.setPhase, abs]
    cases hnext : σ'.runningT th with
    | none =>
      simp only [Option.isSome_none, expand, Bool.false_eq_true, if_false, updateChannels]
      rw [ei.view th, hprev]
      exact chanStopped_view m P T B
    | some p =>
      obtain ⟨Tn, Bn⟩ := p
      obtain ⟨tn, bn, hh, hBn, hrn, hTn⟩ := (runningT_some inv').1 hnext
      -- the old stack is (t,b) :: (tn,bn) :: _
      have htop' : (ε.sys.stacks th).head? = some (t, b) := htop
      cases hl : ε.sys.stacks th with
      | nil => rw [hl] at htop'; cases htop'
      | cons x0 tl =>
        rw [hl] at htop'
        simp only [List.head?_cons, Option.some.injEq] at htop'
        subst htop'
        rw [hst', hl, List.tail_cons] at hh
        cases htl : tl with
        | nil => rw [htl] at hh; cases hh
        | cons x1 tl2 =>
          rw [htl] at hh
          simp only [List.head?_cons, Option.some.injEq] at hh
          subst hh
          have nd := ei.inv.nodup th
          rw [hl, htl] at nd
          have hne : ¬(tn = t ∧ bn = b) := by
            rintro ⟨rfl, rfl⟩
            exact (List.nodup_cons.1 nd).1 List.mem_cons_self
          have hphn : (abs ε.sys).phase tn bn = some .running := by
            have := phase_of_abs ha' tn bn
            simp only [Abs.setStack, Abs.setPhase, if_neg hne] at this
            rw [← this, abs_phase hBn, hrn]; rfl
          have hbel := ei.below th (t, b) ((tn, bn) :: tl2) (by rw [← htl]; exact hl) (tn, bn) List.mem_cons_self
          rcases hbel with hp | ⟨fn, hfn, hrelax⟩
          · rw [hphn] at hp; cases hp
          · obtain ⟨Tn0, hTn0, rfl⟩ := abs_flags.1 hfn
            obtain ⟨par, hpar⟩ := ei.flags tn Tn0 hTn0
            cases m with
            | nosv => rw [hpar, no_relax_nosv] at hrelax; cases hrelax
            | nanos6 =>
              obtain ⟨Bn0, hBn0, _⟩ := bodyOfPhase hphn
              have hbn : bn = 1 := ei.one rfl tn bn Bn0 hBn0
              have hb : b = 1 := ei.one rfl t b B hB
              have htn0 : tn ≠ 0 := by
                intro h0; subst h0; rw [ei.noZero bn] at hBn0; cases hBn0
              obtain ⟨Tn2, hTn2, hsame⟩ := (step_frame ei.inv hs).1 tn Tn0 hTn0
              rw [hTn] at hTn2; cases hTn2
              have hidn : Tn.id = tn := inv'.taskId tn Tn hTn
              have hid : T.id = t := ei.inv.taskId t T hT
              have hne' : T.id ≠ Tn.id := by
                rw [hid, hidn]; intro he; subst he hbn hb; exact hne ⟨rfl, rfl⟩
              have h1 : samePtr .nanos6 T B Tn Bn = false := by simp [samePtr, hne']
              have h2 : ¬ Tn.id = 0 := by omega
              have h3 : ¬ Tn.gid = 0 := by rw [hsame.2.1]; exact ei.gid tn Tn0 hTn0
              simp only [Option.isSome_some, expand, if_true, updateChannels, hprev, chanSwitch, h1,
                Bool.false_eq_true, if_false, h2, h3]
              rw [ei.view th, hprev]
              exact chanShow_switch6 P T Tn B Bn hne'

/-- Channel update of a pause event. -/
theorem chan_pause {m : Model} {P : ProcInfo} {ε : Emu} {σ' : Sys} {th t b : Nat}
    (ei : EInv m P ε) (hs : step ε.sys (.pause th t b) = .ok σ') (w w' : Bool) :
    σ'.runningT th = none ∧
    updateChannels m P (ε.ch th) (expand .p w w')
      (ε.sys.runningT th) (σ'.runningT th) = .ok (viewOf m P (σ'.runningT th)) := by
  obtain ⟨inv', st⟩ := step_sound ei.inv hs
  generalize ha' : abs σ' = a' at st
  cases st with
  | pause hf hp hph htop =>
    obtain ⟨B, hB, hrun⟩ := bodyOfPhase hph
    rw [phaseOf_running] at hrun
    obtain ⟨_, _, T, hT, _⟩ := ei.inv.body t b B hB
    have hprev : ε.sys.runningT th = some (T, B) := (runningT_some ei.inv).2 ⟨t, b, htop, hB, hrun, hT⟩
    have hst' : σ'.stacks th = ε.sys.stacks th := by
      rw [stacks_of_abs ha']; simp [Abs.setPhase, abs]
    have hnext : σ'.runningT th = none := by
      apply (runningT_none inv').2
      intro t' b' hh
      rw [hst'] at hh
      have : (ε.sys.stacks th).head? = some (t, b) := htop
      rw [this] at hh; cases hh
      rw [phase_of_abs ha']; simp [Abs.setPhase]
    refine ⟨hnext, ?_⟩
    rw [hnext]
    simp only [expand, updateChannels]
    rw [ei.view th, hprev]
    exact chanStopped_view m P T B

/-- Channel update of a resume event. -/
theorem chan_resume {m : Model} {P : ProcInfo} {ε : Emu} {σ' : Sys} {th t b : Nat}
    (hP : 0 < P.appid) (ei : EInv m P ε) (hs : step ε.sys (.resume th t b) = .ok σ') (w w' : Bool) :
    updateChannels m P (ε.ch th) (expand .r w w')
      (ε.sys.runningT th) (σ'.runningT th) = .ok (viewOf m P (σ'.runningT th)) := by
  obtain ⟨inv', st⟩ := step_sound ei.inv hs
  generalize ha' : abs σ' = a' at st
  cases st with
  | resume hph htop =>
    obtain ⟨B, hB, hpau⟩ := bodyOfPhase hph
    rw [phaseOf_paused] at hpau
    obtain ⟨_, _, T, hT, _⟩ := ei.inv.body t b B hB
    have hprev : ε.sys.runningT th = none := by
      apply (runningT_none ei.inv).2
      intro t' b' hh
      have : (ε.sys.stacks th).head? = some (t, b) := htop
      rw [this] at hh; cases hh
      rw [hph]; simp
    have hst' : σ'.stacks th = ε.sys.stacks th := by
      rw [stacks_of_abs ha']; simp [Abs.setPhase, abs]
    have hph' : (abs σ').phase t b = some .running := by
      rw [ha']; simp [Abs.setPhase]
    obtain ⟨B', hB', hrun⟩ := bodyOfPhase hph'
    rw [phaseOf_running] at hrun
    obtain ⟨T', hT', hsame⟩ := (step_frame ei.inv hs).1 t T hT
    have hnext : σ'.runningT th = some (T', B') :=
      (runningT_some inv').2 ⟨t, b, by rw [hst']; exact htop, hB', hrun, hT'⟩
    have ht0 : t ≠ 0 := by intro h0; subst h0; rw [ei.noZero b] at hB; cases hB
    have hid' : T'.id = t := inv'.taskId t T' hT'
    have h2 : ¬ T'.id = 0 := by omega
    have h3 : ¬ T'.gid = 0 := by rw [hsame.2.1]; exact ei.gid t T hT
    have h4 : ¬ (m = .nosv ∧ P.appid ≤ 0) := by omega
    rw [hnext]
    simp only [expand, updateChannels, chanRunning, h2, h3, h4, if_false]
    rw [ei.view th, hprev]
    exact chanShow_null m P T' B'

/-- What a state operation on body `(t,b)` of thread `th` leaves alone. -/
theorem step_shape {a a' : Abs} {v : TaskEv} {th t b : Nat} (ai : AInv a)
    (h : Step a (opOf v th t b) a') :
    (∃ p, ∀ i j, a'.phase i j = if i = t ∧ j = b then some p else a.phase i j) ∧
    (∀ i, i ≠ th → a'.stack i = a.stack i) ∧ a'.flags = a.flags ∧
    (∀ s, s ≠ th → (t, b) ∉ a.stack s) ∧ a'.types = a.types := by
  have top_mem : a.isTop th t b → ∀ s, s ≠ th → (t, b) ∉ a.stack s := by
    intro htop s hs hm
    have : (t, b) ∈ a.stack th := List.mem_of_mem_head? (by unfold Abs.isTop at htop; rw [htop]; rfl)
    exact hs (ai.unique s th t b hm this)
  have not_mem : (a.phase t b = none ∨ a.phase t b = some .dead) → ∀ s, s ≠ th → (t, b) ∉ a.stack s := by
    intro hph s _ hm
    rcases ai.memPhase s t b hm with h | h <;> rcases hph with h' | h' <;> rw [h'] at h <;> cases h
  cases v with
  | x =>
    cases h with
    | execFirst _ _ hph _ _ =>
      exact ⟨⟨.running, fun i j => rfl⟩, fun i hi => by simp [Abs.setStack, Abs.setPhase, hi], rfl,
        not_mem (.inl hph), rfl⟩
    | execAgain _ hph _ _ =>
      exact ⟨⟨.running, fun i j => rfl⟩, fun i hi => by simp [Abs.setStack, Abs.setPhase, hi], rfl,
        not_mem (.inr hph), rfl⟩
  | e =>
    cases h with
    | end_ _ htop =>
      exact ⟨⟨.dead, fun i j => rfl⟩, fun i hi => by simp [Abs.setStack, Abs.setPhase, hi], rfl,
        top_mem htop, rfl⟩
  | p =>
    cases h with
    | pause _ _ _ htop => exact ⟨⟨.paused, fun i j => rfl⟩, fun i hi => rfl, rfl, top_mem htop, rfl⟩
  | r =>
    cases h with
    | resume _ htop => exact ⟨⟨.running, fun i j => rfl⟩, fun i hi => rfl, rfl, top_mem htop, rfl⟩

/-- The other threads' views are untouched by a state event of thread `th`. -/
theorem view_other {m : Model} {P : ProcInfo} {ε : Emu} {σ' : Sys} {v : TaskEv} {th t b th' : Nat}
    (ei : EInv m P ε) (hs : step ε.sys (opOf v th t b) = .ok σ') (hne : th' ≠ th) :
    viewOf m P (σ'.runningT th') = viewOf m P (ε.sys.runningT th') := by
  obtain ⟨inv', st⟩ := step_sound ei.inv hs
  have ai := ainv_of_inv ei.inv
  obtain ⟨⟨p, hph⟩, hstk, hfl, hnot, _⟩ := step_shape ai st
  rw [view_char inv', view_char ei.inv]
  have hs' : σ'.stacks th' = ε.sys.stacks th' := hstk th' hne
  rw [hs']
  cases hh : (ε.sys.stacks th').head? with
  | none => rfl
  | some r =>
    obtain ⟨t', b'⟩ := r
    have hm : (t', b') ∈ ε.sys.stacks th' := List.mem_of_mem_head? (by rw [hh]; rfl)
    have hne' : ¬(t' = t ∧ b' = b) := by
      rintro ⟨rfl, rfl⟩; exact hnot th' hne hm
    have h1 : (abs σ').phase t' b' = (abs ε.sys).phase t' b' := by rw [hph, if_neg hne']
    simp only [h1]
    split
    · obtain ⟨B, hB, _⟩ := (ei.inv.onStack t' b' th').1 hm
      obtain ⟨_, _, T, hT, _⟩ := ei.inv.body t' b' B hB
      obtain ⟨T', hT', hsame⟩ := (step_frame ei.inv hs).1 t' T hT
      simp only [hT, hT', hsame.2.1]
    · rfl

theorem bodyIdRule_named {m : Model} {T : Task} {bp b : Nat} :
    bodyIdRule m T bp = .ok b ↔ namedBody m T.flags bp = some b := by
  cases m
  · simp only [bodyIdRule, namedBody]
    by_cases hp : T.flags.parallel = true <;> by_cases h0 : bp = 0 <;> simp [hp, h0]
  · simp [bodyIdRule, namedBody]

theorem updateTaskState_ok {m : Model} {σ σ' : Sys} {th : Nat} {v : TaskEv} {t bp : Nat} :
    updateTaskState m σ th v t bp = .ok σ' ↔
      ∃ T b, σ.tasks t = some T ∧ namedBody m T.flags bp = some b ∧
        step σ (opOf v th t b) = .ok σ' := by
  unfold updateTaskState
  cases hT : σ.tasks t with
  | none => simp
  | some T =>
    cases hb : bodyIdRule m T bp with
    | error e =>
      simp only [hb, reduceCtorEq, Option.some.injEq, exists_and_left, exists_eq_left', false_iff,
        not_exists, not_and]
      intro b hn
      rw [← bodyIdRule_named, hb] at hn; cases hn
    | ok b =>
      have hn := bodyIdRule_named.1 hb
      simp only [hb, Option.some.injEq, exists_and_left, exists_eq_left']
      constructor
      · intro h
        refine ⟨b, hn, ?_⟩
        cases v <;> simpa [opOf, step, hT] using h
      · rintro ⟨b', hn', h⟩
        rw [hn] at hn'; cases hn'
        cases v <;> simpa [opOf, step, hT] using h

theorem updateTask_ok {m : Model} {P : ProcInfo} {ε ε' : Emu} {th : Nat} {v : TaskEv} {t bp : Nat} :
    updateTask m P ε th v t bp = .ok ε' ↔
      ∃ σ' ss' ch', updateTaskState m ε.sys th v t bp = .ok σ' ∧ updateSs m (ε.ss th) v = .ok ss' ∧
        updateChannels m P (ε.ch th)
          (expand v (ε.sys.runningT th).isSome (σ'.runningT th).isSome)
          (ε.sys.runningT th) (σ'.runningT th) = .ok ch' ∧
        enforceRules m (expand v (ε.sys.runningT th).isSome (σ'.runningT th).isSome)
          (σ'.runningT th) ss' = .ok () ∧
        ε' = { sys := σ', ch := updFn ε.ch th ch', ss := updFn ε.ss th ss' } := by
  unfold updateTask
  cases h1 : updateTaskState m ε.sys th v t bp with
  | error e => simp [bind, Except.bind]
  | ok σ' =>
    cases h2 : updateSs m (ε.ss th) v with
    | error e => simp [bind, Except.bind]
    | ok ss' =>
      cases h3 : updateChannels m P (ε.ch th)
          (expand v (ε.sys.runningT th).isSome (σ'.runningT th).isSome)
          (ε.sys.runningT th) (σ'.runningT th) with
      | error e => simp [bind, Except.bind, h3]
      | ok ch' =>
        cases h4 : enforceRules m (expand v (ε.sys.runningT th).isSome (σ'.runningT th).isSome)
            (σ'.runningT th) ss' with
        | error e => simp [bind, Except.bind, h3, h4]
        | ok u => simp [bind, Except.bind, h3, h4, pure, Except.pure, eq_comm]

theorem enforce_nonexec {m : Model} {v : TaskEv} {w w' : Bool} {next : Option (Task × Body)}
    {st : List Int} (hv : v ≠ .x) : enforceRules m (expand v w w') next st = .ok () := by
  cases v <;> cases w <;> cases w' <;> simp_all [enforceRules, expand]

theorem enforce_exec {m : Model} {w : Bool} {T : Task} {B : Body} {st : List Int}
    (hB : B.state = .running) :
    enforceRules m (expand .x w true) (some (T, B)) (m.cfg.stTaskBody :: st) = .ok () := by
  cases w <;> simp [enforceRules, expand, hB]

theorem ssPush_ok {m : Model} {st st' : List Int} {v : Int} :
    ssPush m.cfg.dupSs st v = .ok st' ↔ pushOk m st v ∧ st' = v :: st := by
  unfold ssPush pushOk
  by_cases h1 : m.cfg.dupSs = true
  · by_cases h2 : st.length ≥ Ovni.Generated.maxChanStack
    · simp [h1, h2]; omega
    · simp [h1, h2, eq_comm]; omega
  · by_cases h3 : st.head? = some v
    · simp [h1, h3]
    · by_cases h2 : st.length ≥ Ovni.Generated.maxChanStack
      · simp [h1, h2, h3]; omega
      · simp [h1, h2, h3, eq_comm]; omega

theorem ssPop_ok {st st' : List Int} {v : Int} : ssPop st v = .ok st' ↔ st = v :: st' := by
  unfold ssPop
  cases st with
  | nil => simp
  | cons x r =>
    by_cases h : x = v
    · simp [h, eq_comm]
    · simp [h]

theorem updFn_self {α : Type} (f : Nat → α) (i : Nat) : updFn f i (f i) = f := by
  funext j; unfold updFn; split
  · subst_vars; rfl
  · rfl

/-- After a successful execute the new body is the running top of the thread. -/
theorem exec_next {σ σ' : Sys} {th t b : Nat} (inv : Inv σ) (hs : step σ (.exec th t b) = .ok σ') :
    ∃ T' B', σ'.runningT th = some (T', B') ∧ T'.id = t ∧ B'.state = .running := by
  obtain ⟨inv', st⟩ := step_sound inv hs
  generalize ha' : abs σ' = a' at st
  have key : a' = ((abs σ).setPhase t b .running).setStack th ((t, b) :: (abs σ).stack th) →
      ∃ T' B', σ'.runningT th = some (T', B') ∧ T'.id = t ∧ B'.state = .running := by
    intro hEq
    subst hEq
    have hst' : σ'.stacks th = (t, b) :: σ.stacks th := by
      rw [stacks_of_abs ha']; simp [Abs.setStack, Abs.setPhase, abs]
    have hph' : (abs σ').phase t b = some .running := by
      rw [ha']; simp [Abs.setStack, Abs.setPhase]
    obtain ⟨B', hB', hrun⟩ := bodyOfPhase hph'
    rw [phaseOf_running] at hrun
    obtain ⟨_, _, T', hT', _⟩ := inv'.body t b B' hB'
    exact ⟨T', B', (runningT_some inv').2 ⟨t, b, by rw [hst']; rfl, hB', hrun, hT'⟩,
      inv'.taskId t T' hT', hrun⟩
  cases st with
  | execFirst _ _ _ _ _ => exact key rfl
  | execAgain _ _ _ _ => exact key rfl

/-- Task id 0 cannot start running: the channel update refuses it. -/
theorem exec_zero {m : Model} {P : ProcInfo} {c ch' : Chans} {w : Bool} {prev : Option (Task × Body)}
    {T' : Task} {B' : Body}
    (h : updateChannels m P c (expand .x w true) prev (some (T', B')) = .ok ch') : T'.id ≠ 0 := by
  intro h0
  cases w
  · simp [expand, updateChannels, chanRunning, h0] at h
  · simp only [expand, if_true, updateChannels, chanSwitch] at h
    cases prev with
    | none => simp at h
    | some p =>
      obtain ⟨Tp, Bp⟩ := p
      by_cases hs : samePtr m Tp Bp T' B' = true
      · simp [hs] at h
      · simp [hs, h0] at h

/-- The invariant of the event-level state survives a state event. -/
theorem einv_task {m : Model} {P : ProcInfo} {ε : Emu} {σ' : Sys} {v : TaskEv} {th t bp b : Nat}
    {T : Task} {ch' : Chans} {ss' : Nat → List Int}
    (ei : EInv m P ε) (hT : ε.sys.tasks t = some T) (hn : namedBody m T.flags bp = some b)
    (hs : step ε.sys (opOf v th t b) = .ok σ') (ht : v = .x → t ≠ 0)
    (hch : ch' = viewOf m P (σ'.runningT th)) :
    EInv m P { sys := σ', ch := updFn ε.ch th ch', ss := ss' } := by
  obtain ⟨inv', st⟩ := step_sound ei.inv hs
  have ai := ainv_of_inv ei.inv
  obtain ⟨⟨p, hph⟩, hstk, hfl, hnot, hty⟩ := step_shape ai st
  have frame := step_frame ei.inv hs
  -- tasks of σ' are tasks of σ
  have back : ∀ i T', σ'.tasks i = some T' → ∃ T0, ε.sys.tasks i = some T0 ∧ T0.same T' := by
    intro i T' hT'
    have h1 : (abs σ').flags i = some T'.flags := abs_flags.2 ⟨T', hT', rfl⟩
    rw [hfl] at h1
    obtain ⟨T0, hT0, _⟩ := abs_flags.1 h1
    obtain ⟨T2, hT2, hsame⟩ := frame.1 i T0 hT0
    rw [hT'] at hT2; cases hT2
    exact ⟨T0, hT0, hsame⟩
  -- the touched body is not a body of task 0
  have ht0 : t ≠ 0 := by
    cases v with
    | x => exact ht rfl
    | e | p | r =>
      intro h0; subst h0
      generalize ha' : abs σ' = a' at st
      cases st <;> rename_i hph0 _ <;>
        (obtain ⟨B, hB, _⟩ := bodyOfPhase hph0; rw [ei.noZero b] at hB; cases hB)
  constructor
  · exact inv'
  · exact below_step ai ei.below st
  · intro i T' hT'
    obtain ⟨T0, hT0, hsame⟩ := back i T' hT'
    obtain ⟨par, hpar⟩ := ei.flags i T0 hT0
    exact ⟨par, by rw [hsame.2.2.1]; exact hpar⟩
  · intro i T' hT'
    obtain ⟨T0, hT0, hsame⟩ := back i T' hT'
    rw [hsame.2.1]; exact ei.gid i T0 hT0
  · intro ty g hg
    have hg : σ'.types ty = some g := hg
    have h1 : (abs σ').types ty = true := by simp [abs, hg]
    rw [hty] at h1
    obtain ⟨g0, hg0⟩ := Option.isSome_iff_exists.1 (show (ε.sys.types ty).isSome = true from h1)
    have := frame.2 ty g0 hg0
    rw [hg] at this; cases this
    exact ei.typeGid ty g hg0
  · intro j
    apply (abs_phase_none inv').1
    rw [hph, if_neg (fun h => ht0 h.1.symm)]
    exact (abs_phase_none ei.inv).2 (ei.noZero j)
  · intro hm i j B hB
    have hsome : (abs σ').phase i j ≠ none := by
      intro h; rw [(abs_phase_none inv').1 h] at hB; cases hB
    rw [hph] at hsome
    by_cases hij : i = t ∧ j = b
    · obtain ⟨_, rfl⟩ := hij
      subst hm
      simpa [namedBody] using hn.symm
    · rw [if_neg hij] at hsome
      cases hB0 : ε.sys.bodies i j with
      | none => exact absurd ((abs_phase_none ei.inv).2 hB0) hsome
      | some B0 => exact ei.one hm i j B0 hB0
  · intro th'
    show updFn ε.ch th ch' th' = viewOf m P (σ'.runningT th')
    unfold updFn
    split
    · subst_vars; rfl
    · rename_i hne
      rw [ei.view th', view_other ei hs hne]

theorem task_sound {m : Model} {P : ProcInfo} {ε ε' : Emu} {th : Nat} {v : TaskEv} {t bp : Nat}
    (hP : 0 < P.appid) (ei : EInv m P ε) (h : updateTask m P ε th v t bp = .ok ε') :
    EInv m P ε' ∧ EStep m (eabs ε) (.task th v t bp) (eabs ε') := by
  obtain ⟨σ', ss', ch', h1, h2, h3, h4, rfl⟩ := updateTask_ok.1 h
  obtain ⟨T, b, hT, hn, hs⟩ := updateTaskState_ok.1 h1
  obtain ⟨inv', st⟩ := step_sound ei.inv hs
  have hfl : (eabs ε).a.flags t = some T.flags := abs_flags.2 ⟨T, hT, rfl⟩
  have hb1 : m = .nanos6 → b = 1 := by
    intro hm; subst hm; simpa [namedBody] using hn.symm
  cases v with
  | x =>
    obtain ⟨T', B', hnext, hid', hrun⟩ := exec_next ei.inv hs
    rw [hnext] at h3
    have ht : t ≠ 0 := by
      have := exec_zero h3; rwa [hid'] at this
    obtain ⟨T2, B2, hnext2, _, hupd⟩ := chan_exec hP ei hb1 hs ht
    rw [hnext] at hnext2; cases hnext2
    simp only [Option.isSome_some] at h3
    rw [hupd] at h3; cases h3
    obtain ⟨hpush, rfl⟩ := ssPush_ok.1 h2
    refine ⟨einv_task ei hT hn hs (fun _ => ht) (by rw [hnext]), ?_⟩
    exact EStep.exec hfl hn st ht hpush
  | e =>
    have hupd := chan_end ei hs (ε.sys.runningT th).isSome
    rw [hupd] at h3; cases h3
    have hpop := ssPop_ok.1 h2
    refine ⟨einv_task ei hT hn hs (fun h => by cases h) rfl, ?_⟩
    exact EStep.end_ hfl hn st hpop
  | p =>
    obtain ⟨_, hupd⟩ := chan_pause ei hs (ε.sys.runningT th).isSome (σ'.runningT th).isSome
    rw [hupd] at h3; cases h3
    simp only [updateSs, Except.ok.injEq] at h2
    subst h2
    refine ⟨einv_task ei hT hn hs (fun h => by cases h) rfl, ?_⟩
    have : eabs { sys := σ', ch := updFn ε.ch th (viewOf m P (σ'.runningT th)), ss := updFn ε.ss th (ε.ss th) }
        = ⟨abs σ', (eabs ε).ss⟩ := by
      simp only [eabs, updFn_self]
    rw [this]
    exact EStep.pause hfl hn st
  | r =>
    have hupd := chan_resume hP ei hs (ε.sys.runningT th).isSome (σ'.runningT th).isSome
    rw [hupd] at h3; cases h3
    simp only [updateSs, Except.ok.injEq] at h2
    subst h2
    refine ⟨einv_task ei hT hn hs (fun h => by cases h) rfl, ?_⟩
    have : eabs { sys := σ', ch := updFn ε.ch th (viewOf m P (σ'.runningT th)), ss := updFn ε.ss th (ε.ss th) }
        = ⟨abs σ', (eabs ε).ss⟩ := by
      simp only [eabs, updFn_self]
    rw [this]
    exact EStep.resume hfl hn st

theorem task_complete {m : Model} {P : ProcInfo} {ε : Emu} {th : Nat} {v : TaskEv} {t bp : Nat}
    {e' : EAbs} (hP : 0 < P.appid) (ei : EInv m P ε)
    (h : EStep m (eabs ε) (.task th v t bp) e') :
    ∃ ε', updateTask m P ε th v t bp = .ok ε' := by
  generalize he : eabs ε = e0 at h
  have key : ∀ (f : TaskFlags) (b : Nat) (a' : Abs), e0.a.flags t = some f → namedBody m f bp = some b →
      Step e0.a (opOf v th t b) a' →
      (v = .x → t ≠ 0 ∧ pushOk m (e0.ss th) m.cfg.stTaskBody) →
      (v = .e → ∃ rest, e0.ss th = m.cfg.stTaskBody :: rest) →
      ∃ ε', updateTask m P ε th v t bp = .ok ε' := by
    intro f b a' hf hn st hx hend
    subst he
    obtain ⟨T, hT, rfl⟩ := abs_flags.1 hf
    obtain ⟨σ', hs⟩ := step_complete ei.inv st
    have h1 : updateTaskState m ε.sys th v t bp = .ok σ' := updateTaskState_ok.2 ⟨T, b, hT, hn, hs⟩
    have hb1 : m = .nanos6 → b = 1 := by
      intro hm; subst hm; simpa [namedBody] using hn.symm
    cases v with
    | x =>
      obtain ⟨ht, hpush⟩ := hx rfl
      obtain ⟨T', B', hnext, hrun, hupd⟩ := chan_exec hP ei hb1 hs ht
      refine ⟨_, updateTask_ok.2 ⟨σ', _, viewOf m P (some (T', B')), h1, ssPush_ok.2 ⟨hpush, rfl⟩, ?_, ?_, rfl⟩⟩
      · rw [hnext]; exact hupd
      · rw [hnext]; exact enforce_exec hrun
    | e =>
      obtain ⟨rest, hrest⟩ := hend rfl
      exact ⟨_, updateTask_ok.2 ⟨σ', rest, _, h1, ssPop_ok.2 hrest, chan_end ei hs _,
        enforce_nonexec (by decide), rfl⟩⟩
    | p =>
      exact ⟨_, updateTask_ok.2 ⟨σ', _, _, h1, rfl, (chan_pause ei hs _ _).2,
        enforce_nonexec (by decide), rfl⟩⟩
    | r =>
      exact ⟨_, updateTask_ok.2 ⟨σ', _, _, h1, rfl, chan_resume hP ei hs _ _,
        enforce_nonexec (by decide), rfl⟩⟩
  cases h with
  | exec hf hn st ht hpush => exact key _ _ _ hf hn st (fun _ => ⟨ht, hpush⟩) (fun h => by cases h)
  | end_ hf hn st hrest => exact key _ _ _ hf hn st (fun h => by cases h) (fun _ => ⟨_, hrest⟩)
  | pause hf hn st => exact key _ _ _ hf hn st (fun h => by cases h) (fun h => by cases h)
  | resume hf hn st => exact key _ _ _ hf hn st (fun h => by cases h) (fun h => by cases h)

theorem gidOf_ne (h : Nat) : gidOf h ≠ 0 := by
  have key : ∀ g : Nat, (if g < pcfReserved then g + pcfReserved else g) ≠ 0 := by
    intro g; unfold pcfReserved; split <;> omega
  unfold gidOf
  exact key _

theorem type_sound {m : Model} {P : ProcInfo} {ε ε' : Emu} {ty h : Nat} {fits : Bool}
    (ei : EInv m P ε) (hs : Emu.step m P ε (.typeCreate ty h fits) = .ok ε') :
    EInv m P ε' ∧ EStep m (eabs ε) (.typeCreate ty h fits) (eabs ε') := by
  simp only [Emu.step] at hs
  cases h1 : taskTypeCreate ε.sys ty (gidOf h) fits with
  | error e => simp [h1] at hs
  | ok σ' =>
    simp only [h1, Except.ok.injEq] at hs
    subst hs
    have hfits : fits = true := by
      cases fits with
      | true => rfl
      | false =>
        simp only [taskTypeCreate] at h1
        split at h1
        · cases h1
        · split at h1 <;> simp at h1
    subst hfits
    have hstep : step ε.sys (.typeCreate ty (gidOf h)) = .ok σ' := h1
    obtain ⟨inv', st⟩ := step_sound ei.inv hstep
    have hσ : σ' = ε.sys.setType ty (gidOf h) := by
      simp only [taskTypeCreate] at h1
      split at h1
      · cases h1
      · split at h1
        · cases h1
        · simpa using h1.symm
    refine ⟨⟨inv', below_step (ainv_of_inv ei.inv) ei.below st, ?_, ?_, ?_, ?_, ?_, ?_⟩, EStep.typeCreate st⟩
    · subst hσ; exact ei.flags
    · subst hσ; exact ei.gid
    · subst hσ
      intro ty' g hg
      simp only [Sys.setType] at hg
      split at hg
      · have := Option.some.inj hg; rw [← this]; exact gidOf_ne h
      · exact ei.typeGid ty' g hg
    · subst hσ; exact ei.noZero
    · subst hσ; exact ei.one
    · subst hσ; exact ei.view

theorem type_complete {m : Model} {P : ProcInfo} {ε : Emu} {ty h : Nat} {fits : Bool} {e' : EAbs}
    (ei : EInv m P ε) (hs : EStep m (eabs ε) (.typeCreate ty h fits) e') :
    ∃ ε', Emu.step m P ε (.typeCreate ty h fits) = .ok ε' := by
  generalize he : eabs ε = e0 at hs
  cases hs with
  | typeCreate st =>
    subst he
    obtain ⟨σ', h1⟩ := step_complete ei.inv st
    have h1' : taskTypeCreate ε.sys ty (gidOf h) true = .ok σ' := h1
    exact ⟨{ ε with sys := σ' }, by simp only [Emu.step, h1']⟩

theorem taskCreate_ok {σ σ' : Sys} {ty t : Nat} {f : TaskFlags} (h : taskCreate σ ty t f = .ok σ') :
    σ.tasks t = none ∧ ∃ gid, σ.types ty = some gid ∧ σ' = σ.setTask t ⟨t, ty, gid, 0, f⟩ := by
  unfold taskCreate at h
  split at h
  · cases h
  · rename_i hn
    split at h
    · cases h
    · rename_i gid hg
      cases h
      exact ⟨by simpa using hn, gid, hg, rfl⟩

theorem create_ev_sound {m : Model} {P : ProcInfo} {ε ε' : Emu} {par : Bool} {t ty : Nat}
    (ei : EInv m P ε) (hs : Emu.step m P ε (.taskCreate par t ty) = .ok ε') :
    EInv m P ε' ∧ EStep m (eabs ε) (.taskCreate par t ty) (eabs ε') := by
  simp only [Emu.step] at hs
  by_cases hold : m = .nanos6 ∧ par = true
  · rw [if_pos hold] at hs
    cases hs
    obtain ⟨rfl, rfl⟩ := hold
    exact ⟨ei, EStep.oldCreate rfl⟩
  · rw [if_neg hold] at hs
    cases h1 : taskCreate ε.sys ty t (createFlags m par) with
    | error e => simp [h1] at hs
    | ok σ' =>
      simp only [h1, Except.ok.injEq] at hs
      subst hs
      have hstep : step ε.sys (.create ty t (createFlags m par)) = .ok σ' := h1
      obtain ⟨inv', st⟩ := step_sound ei.inv hstep
      obtain ⟨hnone, gid, hg, rfl⟩ := taskCreate_ok h1
      refine ⟨⟨inv', below_step (ainv_of_inv ei.inv) ei.below st, ?_, ?_, ei.typeGid, ei.noZero, ei.one, ?_⟩,
        EStep.taskCreate hold st⟩
      · intro i T hT
        simp only [Sys.setTask] at hT
        split at hT
        · cases hT; exact ⟨par, rfl⟩
        · exact ei.flags i T hT
      · intro i T hT
        simp only [Sys.setTask] at hT
        split at hT
        · cases hT; exact ei.typeGid ty gid hg
        · exact ei.gid i T hT
      · intro th
        show ε.ch th = _
        rw [ei.view th, view_char inv', view_char ei.inv]
        show _ = match (ε.sys.stacks th).head? with
          | none => Chans.null
          | some (t', b) => _
        cases hh : (ε.sys.stacks th).head? with
        | none => rfl
        | some r =>
          obtain ⟨t', b'⟩ := r
          have hm : (t', b') ∈ ε.sys.stacks th := List.mem_of_mem_head? (by rw [hh]; rfl)
          obtain ⟨B, hB, _⟩ := (ei.inv.onStack t' b' th).1 hm
          obtain ⟨_, _, T, hT, _⟩ := ei.inv.body t' b' B hB
          have hne : t' ≠ t := by intro he; subst he; rw [hnone] at hT; cases hT
          have e1 : (ε.sys.setTask t ⟨t, ty, gid, 0, createFlags m par⟩).tasks t' = ε.sys.tasks t' := by
            simp [Sys.setTask, hne]
          have e2 : (abs (ε.sys.setTask t ⟨t, ty, gid, 0, createFlags m par⟩)).phase t' b'
              = (abs ε.sys).phase t' b' := rfl
          simp only [e1, e2]

theorem create_ev_complete {m : Model} {P : ProcInfo} {ε : Emu} {par : Bool} {t ty : Nat} {e' : EAbs}
    (ei : EInv m P ε) (hs : EStep m (eabs ε) (.taskCreate par t ty) e') :
    ∃ ε', Emu.step m P ε (.taskCreate par t ty) = .ok ε' := by
  generalize he : eabs ε = e0 at hs
  cases hs with
  | taskCreate hold st =>
    subst he
    obtain ⟨σ', h1⟩ := step_complete ei.inv st
    have h1' : taskCreate ε.sys ty t (createFlags m par) = .ok σ' := h1
    exact ⟨{ ε with sys := σ' }, by simp only [Emu.step, if_neg hold, h1']⟩
  | oldCreate hm =>
    exact ⟨ε, by simp [Emu.step, hm]⟩

theorem ss_sound {m : Model} {P : ProcInfo} {ε ε' : Emu} {ev : Ev}
    (hev : (∃ th v, ev = .ssPush th v) ∨ (∃ th v, ev = .ssPop th v))
    (ei : EInv m P ε) (hs : Emu.step m P ε ev = .ok ε') :
    EInv m P ε' ∧ EStep m (eabs ε) ev (eabs ε') := by
  rcases hev with ⟨th, v, rfl⟩ | ⟨th, v, rfl⟩
  · simp only [Emu.step] at hs
    cases h1 : ssPush m.cfg.dupSs (ε.ss th) v with
    | error e => simp [h1] at hs
    | ok st =>
      simp only [h1, Except.ok.injEq] at hs
      subst hs
      obtain ⟨hp, rfl⟩ := ssPush_ok.1 h1
      exact ⟨⟨ei.inv, ei.below, ei.flags, ei.gid, ei.typeGid, ei.noZero, ei.one, ei.view⟩, EStep.ssPush hp⟩
  · simp only [Emu.step] at hs
    cases h1 : ssPop (ε.ss th) v with
    | error e => simp [h1] at hs
    | ok st =>
      simp only [h1, Except.ok.injEq] at hs
      subst hs
      have hp := ssPop_ok.1 h1
      exact ⟨⟨ei.inv, ei.below, ei.flags, ei.gid, ei.typeGid, ei.noZero, ei.one, ei.view⟩, EStep.ssPop hp⟩

theorem estep_sound {m : Model} {P : ProcInfo} {ε ε' : Emu} {ev : Ev} (hP : 0 < P.appid)
    (ei : EInv m P ε) (hs : Emu.step m P ε ev = .ok ε') :
    EInv m P ε' ∧ EStep m (eabs ε) ev (eabs ε') := by
  cases ev with
  | typeCreate ty h fits => exact type_sound ei hs
  | taskCreate par t ty => exact create_ev_sound ei hs
  | task th v t bp => exact task_sound hP ei hs
  | ssPush th v => exact ss_sound (.inl ⟨th, v, rfl⟩) ei hs
  | ssPop th v => exact ss_sound (.inr ⟨th, v, rfl⟩) ei hs

theorem estep_complete {m : Model} {P : ProcInfo} {ε : Emu} {ev : Ev} {e' : EAbs} (hP : 0 < P.appid)
    (ei : EInv m P ε) (hs : EStep m (eabs ε) ev e') : ∃ ε', Emu.step m P ε ev = .ok ε' := by
  cases ev with
  | typeCreate ty h fits => exact type_complete ei hs
  | taskCreate par t ty => exact create_ev_complete ei hs
  | task th v t bp => exact task_complete hP ei hs
  | ssPush th v =>
    generalize he : eabs ε = e0 at hs
    cases hs with
    | ssPush hp =>
      subst he
      have h1 : ssPush m.cfg.dupSs (ε.ss th) v = .ok (v :: ε.ss th) := ssPush_ok.2 ⟨hp, rfl⟩
      exact ⟨{ ε with ss := updFn ε.ss th (v :: ε.ss th) }, by simp only [Emu.step, h1]⟩
  | ssPop th v =>
    generalize he : eabs ε = e0 at hs
    cases hs with
    | ssPop hp =>
      subst he
      rename_i rest
      have : ε.ss th = v :: rest := hp
      exact ⟨{ ε with ss := updFn ε.ss th rest }, by simp only [Emu.step, ssPop_ok.2 this]⟩

/-- The event-level specification is deterministic. -/
theorem Spec.EStep.det {m : Model} {e e1 e2 : EAbs} {ev : Ev} (h1 : EStep m e ev e1)
    (h2 : EStep m e ev e2) : e1 = e2 := by
  have same : ∀ {t bp b b' : Nat} {f f' : TaskFlags}, e.a.flags t = some f → e.a.flags t = some f' →
      namedBody m f bp = some b → namedBody m f' bp = some b' → b = b' := by
    intro t bp b b' f f' h h' hn hn'
    rw [h] at h'; cases h'; rw [hn] at hn'; cases hn'; rfl
  cases h1 with
  | typeCreate s1 => cases h2 with | typeCreate s2 => rw [Spec.Step.det s1 s2]
  | taskCreate hold s1 =>
    cases h2 with
    | taskCreate _ s2 => rw [Spec.Step.det s1 s2]
    | oldCreate hm => exact absurd ⟨hm, rfl⟩ hold
  | oldCreate hm =>
    cases h2 with
    | taskCreate hold _ => exact absurd ⟨hm, rfl⟩ hold
    | oldCreate _ => rfl
  | exec hf hn s1 _ _ =>
    cases h2 with
    | exec hf' hn' s2 _ _ => have := same hf hf' hn hn'; subst this; rw [Spec.Step.det s1 s2]
  | end_ hf hn s1 hr =>
    cases h2 with
    | end_ hf' hn' s2 hr' =>
      have := same hf hf' hn hn'; subst this
      rw [hr] at hr'; cases hr'
      rw [Spec.Step.det s1 s2]
  | pause hf hn s1 =>
    cases h2 with
    | pause hf' hn' s2 => have := same hf hf' hn hn'; subst this; rw [Spec.Step.det s1 s2]
  | resume hf hn s1 =>
    cases h2 with
    | resume hf' hn' s2 => have := same hf hf' hn hn'; subst this; rw [Spec.Step.det s1 s2]
  | ssPush _ => cases h2 with | ssPush _ => rfl
  | ssPop hr => cases h2 with | ssPop hr' => rw [hr] at hr'; cases hr'; rfl

theorem einv_init (m : Model) (P : ProcInfo) : EInv m P Emu.init := by
  refine ⟨inv_init, below_init, ?_, ?_, ?_, ?_, ?_, ?_⟩ <;> intros <;> simp_all [Emu.init, Sys.init]
  rfl

theorem erun_ok_iff {m : Model} {P : ProcInfo} {ε : Emu} {evs : List Ev} (hP : 0 < P.appid)
    (ei : EInv m P ε) : (∃ ε', Emu.run m P ε evs = .ok ε') ↔ ELegal m (eabs ε) evs := by
  induction evs generalizing ε with
  | nil => exact ⟨fun _ => ELegal.nil, fun _ => ⟨ε, rfl⟩⟩
  | cons ev evs ih =>
    constructor
    · rintro ⟨ε', h⟩
      simp only [Emu.run] at h
      cases hs : Emu.step m P ε ev with
      | error e => simp [hs] at h
      | ok ε1 =>
        simp only [hs] at h
        obtain ⟨ei1, st⟩ := estep_sound hP ei hs
        exact ELegal.cons st ((ih ei1).1 ⟨ε', h⟩)
    · intro h
      generalize ha : eabs ε = e at h
      cases h with
      | cons st rest =>
        subst ha
        obtain ⟨ε1, hs⟩ := estep_complete hP ei st
        obtain ⟨ei1, st1⟩ := estep_sound hP ei hs
        have := Spec.EStep.det st st1
        subst this
        obtain ⟨ε', h'⟩ := (ih ei1).2 rest
        exact ⟨ε', by simp only [Emu.run, hs]; exact h'⟩

theorem erun_inv {m : Model} {P : ProcInfo} {ε ε' : Emu} {evs : List Ev} (hP : 0 < P.appid)
    (ei : EInv m P ε) (h : Emu.run m P ε evs = .ok ε') : EInv m P ε' := by
  induction evs generalizing ε with
  | nil => simp only [Emu.run, Except.ok.injEq] at h; subst h; exact ei
  | cons ev evs ih =>
    simp only [Emu.run] at h
    cases hs : Emu.step m P ε ev with
    | error e => simp [hs] at h
    | ok ε1 =>
      simp only [hs] at h
      exact ih (estep_sound hP ei hs).1 h

/-- The specification run to its final state. -/
inductive Spec.ERun (m : Model) : EAbs → List Ev → EAbs → Prop
  | nil {e : EAbs} : ERun m e [] e
  | cons {e e' e'' : EAbs} {ev : Ev} {evs : List Ev} :
      EStep m e ev e' → ERun m e' evs e'' → ERun m e (ev :: evs) e''

theorem erun_final {m : Model} {P : ProcInfo} {ε : Emu} {evs : List Ev} (hP : 0 < P.appid)
    (ei : EInv m P ε) (e'' : EAbs) :
    (∃ ε', Emu.run m P ε evs = .ok ε' ∧ eabs ε' = e'') ↔ ERun m (eabs ε) evs e'' := by
  induction evs generalizing ε with
  | nil =>
    constructor
    · rintro ⟨ε', h, rfl⟩
      simp only [Emu.run, Except.ok.injEq] at h; subst h; exact ERun.nil
    · intro h
      generalize ha : eabs ε = e at h
      cases h; exact ⟨ε, rfl, ha⟩
  | cons ev evs ih =>
    constructor
    · rintro ⟨ε', h, rfl⟩
      simp only [Emu.run] at h
      cases hs : Emu.step m P ε ev with
      | error e => simp [hs] at h
      | ok ε1 =>
        simp only [hs] at h
        obtain ⟨ei1, st⟩ := estep_sound hP ei hs
        exact ERun.cons st ((ih ei1).1 ⟨ε', h, rfl⟩)
    · intro h
      generalize ha : eabs ε = e at h
      cases h with
      | cons st rest =>
        subst ha
        obtain ⟨ε1, hs⟩ := estep_complete hP ei st
        obtain ⟨ei1, st1⟩ := estep_sound hP ei hs
        have := Spec.EStep.det st st1
        subst this
        obtain ⟨ε', h', hfin⟩ := (ih ei1).2 rest
        exact ⟨ε', by simp only [Emu.run, hs]; exact h', hfin⟩

/-- An event that is not a table-driven push/pop of the "running body" value itself. -/
def Ev.clean (m : Model) : Ev → Prop
  | .ssPush _ v => v ≠ m.cfg.stTaskBody
  | .ssPop _ v => v ≠ m.cfg.stTaskBody
  | _ => True

/-- Every body on a thread's stack holds one "running body" entry in the thread's subsystem stack. -/
def SsCovers (m : Model) (ε : Emu) : Prop :=
  ∀ th, (ε.sys.stacks th).length ≤ (ε.ss th).count m.cfg.stTaskBody

theorem sscovers_step {m : Model} {P : ProcInfo} {ε ε' : Emu} {ev : Ev} (hP : 0 < P.appid)
    (ei : EInv m P ε) (hc : SsCovers m ε) (hcl : ev.clean m) (hs : Emu.step m P ε ev = .ok ε') :
    SsCovers m ε' := by
  obtain ⟨ei', st⟩ := estep_sound hP ei hs
  have hstk : ∀ th, ε'.sys.stacks th = (eabs ε').a.stack th := fun _ => rfl
  have hstk0 : ∀ th, ε.sys.stacks th = (eabs ε).a.stack th := fun _ => rfl
  have hss : ∀ th, ε'.ss th = (eabs ε').ss th := fun _ => rfl
  have hss0 : ∀ th, ε.ss th = (eabs ε).ss th := fun _ => rfl
  intro th0
  rw [hstk, hss]
  have h0 := hc th0
  rw [hstk0, hss0] at h0
  generalize eabs ε' = e' at st
  generalize eabs ε = e at st h0
  cases st with
  | typeCreate s => cases s; exact h0
  | taskCreate _ s => cases s; exact h0
  | oldCreate _ => exact h0
  | @exec th t bp b f a' _ _ s _ _ =>
    have ha : a'.stack th0 = if th0 = th then (t, b) :: e.a.stack th else e.a.stack th0 := by
      cases s <;> simp [Abs.setStack, Abs.setPhase]
    rw [ha]
    simp only [updFn]
    split
    · subst_vars; simp only [List.length_cons, List.count_cons_self]; omega
    · exact h0
  | @end_ th t bp b f a' rest _ _ s hr =>
    have ha : a'.stack th0 = if th0 = th then (e.a.stack th).tail else e.a.stack th0 := by
      cases s; simp [Abs.setStack, Abs.setPhase]
    have hne : e.a.stack th ≠ [] := by
      cases s with
      | end_ _ htop => intro h; unfold Abs.isTop at htop; rw [h] at htop; cases htop
    rw [ha]
    simp only [updFn]
    split
    · rename_i heq
      subst heq
      rw [hr, List.count_cons_self] at h0
      have : (e.a.stack th0).length ≠ 0 := by simpa using hne
      simp only [List.length_tail]; omega
    · exact h0
  | pause _ _ s => cases s; exact h0
  | resume _ _ s => cases s; exact h0
  | @ssPush th v _ =>
    simp only [updFn]
    split
    · subst_vars
      rw [List.count_cons]
      omega
    · exact h0
  | @ssPop th v rest hr =>
    simp only [updFn]
    split
    · subst_vars
      have hv : v ≠ m.cfg.stTaskBody := hcl
      rw [hr, List.count_cons_of_ne hv] at h0
      exact h0
    · exact h0

theorem sscovers_run {m : Model} {P : ProcInfo} {ε ε' : Emu} {evs : List Ev} (hP : 0 < P.appid)
    (ei : EInv m P ε) (hc : SsCovers m ε) (hcl : ∀ ev ∈ evs, ev.clean m)
    (h : Emu.run m P ε evs = .ok ε') : SsCovers m ε' := by
  induction evs generalizing ε with
  | nil => simp only [Emu.run, Except.ok.injEq] at h; subst h; exact hc
  | cons ev evs ih =>
    simp only [Emu.run] at h
    cases hs : Emu.step m P ε ev with
    | error e => simp [hs] at h
    | ok ε1 =>
      simp only [hs] at h
      exact ih (estep_sound hP ei hs).1
        (sscovers_step hP ei hc (hcl ev List.mem_cons_self) hs)
        (fun ev' hm => hcl ev' (List.mem_cons_of_mem _ hm)) h

end Ovni.Task
