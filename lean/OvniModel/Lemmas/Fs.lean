import OvniModel.Rt.Fs

/-! Helper lemmas for the file-system model (C09 C10): the finite map, the
    per-path effect of a call (`effect`), locality of `run`. -/
namespace Ovni.Rt.Fs

/-! ### finite map -/

@[simp] theorem Fs.get_del_same (fs : Fs) (p : Path) : (fs.del p).get p = none := by
  induction fs with
  | nil => rfl
  | cons e r ih =>
    obtain ⟨q, n⟩ := e
    simp only [Fs.del]
    split
    · exact ih
    · simp only [Fs.get]; rw [if_neg (by assumption)]; exact ih

theorem Fs.get_del_ne (fs : Fs) {p q : Path} (h : q ≠ p) : (fs.del p).get q = fs.get q := by
  induction fs with
  | nil => rfl
  | cons e r ih =>
    obtain ⟨x, n⟩ := e
    simp only [Fs.del, Fs.get]
    by_cases hx : x = p
    · rw [if_pos hx, ih, if_neg (by rw [hx]; exact fun e => h e.symm)]
    · rw [if_neg hx]; simp only [Fs.get]; rw [ih]

@[simp] theorem Fs.get_set_same (fs : Fs) (p : Path) (n : Node) : (fs.set p n).get p = some n := by
  simp [Fs.set, Fs.get]

theorem Fs.get_set_ne (fs : Fs) {p q : Path} (n : Node) (h : q ≠ p) : (fs.set p n).get q = fs.get q := by
  simp only [Fs.set, Fs.get]
  rw [if_neg (fun e => h e.symm)]
  exact Fs.get_del_ne fs h

theorem Fs.get_set (fs : Fs) (p q : Path) (n : Node) :
    (fs.set p n).get q = if q = p then some n else fs.get q := by
  by_cases h : q = p
  · subst h; simp
  · rw [if_neg h]; exact Fs.get_set_ne fs n h

theorem Fs.get_del (fs : Fs) (p q : Path) :
    (fs.del p).get q = if q = p then none else fs.get q := by
  by_cases h : q = p
  · subst h; simp
  · rw [if_neg h]; exact Fs.get_del_ne fs h

/-! ### per-path effect of a call -/

/-- Paths that are never a directory: nothing has them as parent. -/
def Path.isLeaf : Path → Bool
  | .file _ _ _ => true
  | .ghost _ => true
  | _ => false

theorem parent_ne_leaf {q : Path} (h : q.isLeaf = true) (x : Path) : x.parent ≠ some q := by
  cases x <;> cases q <;> simp [Path.parent, Path.isLeaf] at h ⊢

theorem hasChild_leaf (fs : Fs) {q : Path} (h : q.isLeaf = true) : fs.hasChild q = false := by
  simp only [Fs.hasChild, List.any_eq_false]
  intro e _
  simpa using parent_ne_leaf h e.1

def flushedOf : Option Node → List Nat
  | some (.file disk _) => disk
  | _ => []

theorem Fs.flushed_eq (fs : Fs) (t : Nat) : fs.flushed t = flushedOf (fs.get (.ghost t)) := by
  unfold Fs.flushed flushedOf
  split <;> simp_all

def addDisk (d : List Nat) : Option Node → Option Node
  | some (.file a b) => some (.file (a ++ d) b)
  | o => o

def addPend (d : List Nat) : Option Node → Option Node
  | some (.file a b) => some (.file a (b ++ d))
  | o => o

def flushPend : Option Node → Option Node
  | some (.file a b) => some (.file (a ++ b) [])
  | o => o

/-- What a successful call does to the entry of one (leaf) path, as a function
    of that entry alone. -/
def effect (op : FOp) (q : Path) (old : Option Node) : Option Node :=
  match op with
  | .mkdir p => if q = p then (if old.isSome then old else some .dir) else old
  | .openW r t => if q = .file r t .obs then (if old.isSome then old else some (.file [] [])) else old
  | .write r t d =>
    if q = .file r t .obs then addDisk d old
    else if q = .ghost t then some (.file (flushedOf old ++ d) [])
    else old
  | .fopenW p => if q = p then some (.file [] []) else old
  | .fputs p d => if q = p then addPend d old else old
  | .fwrite p d => if q = p then addPend d old else old
  | .fcloseW p => if q = p then flushPend old else old
  | .remove p => if q = p then none else old
  | .rmdir p => if q = p then none else old
  | _ => old

theorem Fs.get_appendDisk (fs : Fs) (p q : Path) (d : List Nat) :
    (fs.appendDisk p d).get q = if q = p then addDisk d (fs.get p) else fs.get q := by
  unfold Fs.appendDisk
  by_cases h : q = p
  · subst h
    rw [if_pos rfl]
    cases hg : fs.get q with
    | none => simp [addDisk, hg]
    | some n => cases n <;> simp [addDisk, hg]
  · rw [if_neg h]
    split
    · exact Fs.get_set_ne fs _ h
    · rfl

theorem Fs.get_appendPend (fs : Fs) (p q : Path) (d : List Nat) :
    (fs.appendPend p d).get q = if q = p then addPend d (fs.get p) else fs.get q := by
  unfold Fs.appendPend
  by_cases h : q = p
  · subst h
    rw [if_pos rfl]
    cases hg : fs.get q with
    | none => simp [addPend, hg]
    | some n => cases n <;> simp [addPend, hg]
  · rw [if_neg h]
    split
    · exact Fs.get_set_ne fs _ h
    · rfl

theorem get_apply (fs : Fs) (op : FOp) {q : Path} (hq : q.isLeaf = true) :
    (apply fs op).get q = effect op q (fs.get q) := by
  cases op with
  | mkdir p =>
    simp only [apply, effect]
    by_cases h : q = p
    · subst h
      cases hg : fs.get q <;> simp [hg]
    · rw [if_neg h]; split
      · rfl
      · exact Fs.get_set_ne fs _ h
  | openW r t =>
    simp only [apply, effect]
    by_cases h : q = .file r t .obs
    · subst h
      cases hg : fs.get (.file r t .obs) <;> simp [hg]
    · rw [if_neg h]; split
      · rfl
      · exact Fs.get_set_ne fs _ h
  | write r t d =>
    simp only [apply, effect, Fs.logFlushed]
    by_cases h1 : q = .file r t .obs
    · subst h1
      rw [if_pos rfl, Fs.get_set_ne _ _ (by simp), Fs.get_appendDisk, if_pos rfl]
    · rw [if_neg h1]
      by_cases h2 : q = .ghost t
      · subst h2
        rw [if_pos rfl, Fs.get_set_same, Fs.flushed_eq, Fs.get_appendDisk, if_neg (by simp)]
      · rw [if_neg h2, Fs.get_set_ne _ _ h2, Fs.get_appendDisk, if_neg h1]
  | fopenW p => simp only [apply, effect]; exact Fs.get_set fs p q _
  | fputs p d =>
    simp only [apply, effect, Fs.get_appendPend]
    by_cases h : q = p
    · subst h; simp
    · simp [h]
  | fwrite p d =>
    simp only [apply, effect, Fs.get_appendPend]
    by_cases h : q = p
    · subst h; simp
    · simp [h]
  | fcloseW p =>
    simp only [apply, effect]
    by_cases h : q = p
    · subst h
      rw [if_pos rfl]
      cases hg : fs.get q with
      | none => simp [flushPend, hg]
      | some n => cases n <;> simp [flushPend, hg]
    · rw [if_neg h]
      split
      · exact Fs.get_set_ne fs _ h
      · rfl
  | remove p => simp only [apply, effect]; exact Fs.get_del fs p q
  | rmdir p =>
    simp only [apply, effect]
    by_cases h : q = p
    · subst h
      rw [hasChild_leaf fs hq]; simp
    · rw [if_neg h]; split
      · rfl
      · exact Fs.get_del_ne fs h
  | stat _ => rfl
  | close _ _ _ => rfl
  | fopenR _ => rfl
  | fread _ _ => rfl
  | fcloseR _ => rfl
  | opendir _ => rfl
  | readdir _ => rfl
  | closedir => rfl

/-- The entry of a leaf path after a list of calls: a fold over that entry. -/
def evolve (q : Path) (old : Option Node) (ops : List FOp) : Option Node :=
  ops.foldl (fun o op => effect op q o) old

theorem get_run (fs : Fs) (ops : List FOp) {q : Path} (hq : q.isLeaf = true) :
    (run fs ops).get q = evolve q (fs.get q) ops := by
  induction ops generalizing fs with
  | nil => rfl
  | cons op r ih =>
    simp only [run, evolve, List.foldl_cons] at ih ⊢
    rw [ih, get_apply fs op hq]

@[simp] theorem evolve_nil (q : Path) (o : Option Node) : evolve q o [] = o := rfl
@[simp] theorem evolve_cons (q : Path) (o : Option Node) (op : FOp) (r : List FOp) :
    evolve q o (op :: r) = evolve q (effect op q o) r := rfl
theorem evolve_append (q : Path) (o : Option Node) (a b : List FOp) :
    evolve q o (a ++ b) = evolve q (evolve q o a) b := by
  simp [evolve, List.foldl_append]

theorem ops_nil : ops [] = [] := rfl
theorem ops_cons (c : Call) (r : List Call) : ops (c :: r) = c.op :: ops r := rfl
theorem ops_append (a b : List Call) : ops (a ++ b) = ops a ++ ops b := by simp [ops]

/-- Paths whose entry a call can change. -/
def touch : FOp → List Path
  | .mkdir p => [p]
  | .openW r t => [.file r t .obs]
  | .write r t _ => [.file r t .obs, .ghost t]
  | .fopenW p => [p]
  | .fputs p _ => [p]
  | .fwrite p _ => [p]
  | .fcloseW p => [p]
  | .remove p => [p]
  | .rmdir p => [p]
  | _ => []

theorem effect_of_not_touch {op : FOp} {q : Path} (h : q ∉ touch op) (o : Option Node) :
    effect op q o = o := by
  cases op <;> simp_all [touch, effect]

theorem evolve_of_not_touch {ops : List FOp} {q : Path} (h : ∀ op ∈ ops, q ∉ touch op) (o : Option Node) :
    evolve q o ops = o := by
  induction ops generalizing o with
  | nil => rfl
  | cons op r ih =>
    rw [evolve_cons, effect_of_not_touch (h op (by simp)), ih (fun x hx => h x (by simp [hx]))]

end Ovni.Rt.Fs
