import OvniModel.Json

/-! `json_object_dotset_value` / `json_object_dotget_value` algebra. -/
namespace Ovni.Json

theorem assoc_setKey_same (k : List Nat) (v : Json) : ∀ ms : Members, assoc k (setKey k v ms) = some v
  | [] => by simp [setKey, assoc]
  | (k', v') :: r => by
    simp only [setKey]
    split
    · rename_i h; simp [assoc, h]
    · rename_i h; simp only [assoc, h, if_false]; exact assoc_setKey_same k v r

theorem assoc_setKey_other {k k' : List Nat} (h : k' ≠ k) (v : Json) : ∀ ms : Members,
    assoc k' (setKey k v ms) = assoc k' ms
  | [] => by simp [setKey, assoc, Ne.symm h]
  | (k2, v2) :: r => by
    simp only [setKey]
    split
    · rename_i h2
      subst h2
      simp [assoc, Ne.symm h]
    · simp only [assoc]
      split
      · rfl
      · exact assoc_setKey_other h v r

theorem assoc_append_new {k : List Nat} (x : Json) : ∀ ms : Members, assoc k ms = none →
    assoc k (ms ++ [(k, x)]) = some x
  | [], _ => by simp [assoc]
  | (k2, v2) :: r, h => by
    simp only [assoc] at h
    split at h
    · cases h
    · rename_i h2
      simp only [List.cons_append, assoc, h2, if_false]
      exact assoc_append_new x r h

theorem assoc_append_other {k k' : List Nat} (h : k' ≠ k) (x : Json) : ∀ ms : Members,
    assoc k' (ms ++ [(k, x)]) = assoc k' ms
  | [] => by simp [assoc, Ne.symm h]
  | (k2, v2) :: r => by
    simp only [List.cons_append, assoc]
    split
    · rfl
    · exact assoc_append_other h x r

theorem splitDots_ne_nil : ∀ p : List Nat, splitDots p ≠ []
  | [] => by simp [splitDots]
  | c :: r => by
    simp only [splitDots]
    split
    · simp
    · split <;> simp

/-- after a successful `dotset`, `dotget` of the same path returns the value -/
theorem dotgetSegs_dotsetSegs_same (v : Json) : ∀ (segs : List (List Nat)) (ms ms' : Members),
    dotsetSegs v segs ms = some ms' → dotgetSegs (.object ms') segs = some v
  | [], _, _, h => by simp [dotsetSegs] at h
  | [k], ms, ms', h => by
    simp only [dotsetSegs, Option.some.injEq] at h
    subst h
    simp [dotgetSegs, Json.get?, assoc_setKey_same]
  | k :: k2 :: rest, ms, ms', h => by
    simp only [dotsetSegs] at h
    split at h
    · rename_i sub hsub
      split at h
      · rename_i sub' hs
        simp only [Option.some.injEq] at h
        subst h
        simp only [dotgetSegs, Json.get?, assoc_setKey_same]
        exact dotgetSegs_dotsetSegs_same v (k2 :: rest) sub sub' hs
      · cases h
    · cases h
    · rename_i hnone
      split at h
      · rename_i sub' hs
        simp only [Option.some.injEq] at h
        subst h
        simp only [dotgetSegs, Json.get?, assoc_append_new _ ms hnone]
        exact dotgetSegs_dotsetSegs_same v (k2 :: rest) [] sub' hs
      · cases h

/-- neither path leads through the other -/
def Indep (a b : List (List Nat)) : Prop := ¬ a <+: b ∧ ¬ b <+: a

theorem indep_cons_same {k : List Nat} {a b : List (List Nat)} (h : Indep (k :: a) (k :: b)) : Indep a b := by
  refine ⟨fun hp => h.1 ?_, fun hp => h.2 ?_⟩
  · obtain ⟨t, rfl⟩ := hp; exact ⟨t, rfl⟩
  · obtain ⟨t, rfl⟩ := hp; exact ⟨t, rfl⟩

theorem indep_ne_nil {a b : List (List Nat)} (h : Indep a b) : a ≠ [] ∧ b ≠ [] :=
  ⟨fun e => h.1 (e ▸ List.nil_prefix), fun e => h.2 (e ▸ List.nil_prefix)⟩

/-- a `dotset` does not change what `dotget` finds along an independent path -/
theorem dotgetSegs_dotsetSegs_other (v : Json) : ∀ (segs segs' : List (List Nat)) (ms ms' : Members),
    Indep segs segs' → dotsetSegs v segs ms = some ms' →
    dotgetSegs (.object ms') segs' = dotgetSegs (.object ms) segs'
  | [], _, _, _, hi, _ => absurd rfl (indep_ne_nil hi).1
  | _ :: _, [], _, _, hi, _ => absurd rfl (indep_ne_nil hi).2
  | [k], k' :: rest', ms, ms', hi, h => by
    simp only [dotsetSegs, Option.some.injEq] at h
    subst h
    have hk : k' ≠ k := by
      intro e; subst e
      exact hi.1 ⟨rest', rfl⟩
    simp only [dotgetSegs, Json.get?, assoc_setKey_other hk]
  | k :: k2 :: rest, k' :: rest', ms, ms', hi, h => by
    simp only [dotsetSegs] at h
    by_cases hk : k' = k
    · subst hk
      have hi' := indep_cons_same hi
      split at h
      · rename_i sub hsub
        split at h
        · rename_i sub' hs
          simp only [Option.some.injEq] at h
          subst h
          simp only [dotgetSegs, Json.get?, assoc_setKey_same, hsub]
          exact dotgetSegs_dotsetSegs_other v (k2 :: rest) rest' sub sub' hi' hs
        · cases h
      · cases h
      · rename_i hnone
        split at h
        · rename_i sub' hs
          simp only [Option.some.injEq] at h
          subst h
          simp only [dotgetSegs, Json.get?, assoc_append_new _ ms hnone, hnone]
          rw [dotgetSegs_dotsetSegs_other v (k2 :: rest) rest' [] sub' hi' hs]
          cases rest' with
          | nil => exact absurd rfl (indep_ne_nil hi').2
          | cons a b => simp [dotgetSegs, Json.get?, assoc]
        · cases h
    · split at h
      · split at h
        · simp only [Option.some.injEq] at h
          subst h
          simp only [dotgetSegs, Json.get?, assoc_setKey_other hk]
        · cases h
      · cases h
      · split at h
        · simp only [Option.some.injEq] at h
          subst h
          simp only [dotgetSegs, Json.get?, assoc_append_other hk]
        · cases h

/-- a sequence of `json_object_dotset_value` calls; `none` = one of them failed -/
def applySets : Json → List (List Nat × Json) → Option Json
  | j, [] => some j
  | j, (p, v) :: rest =>
    match dotset j p v with
    | some j' => applySets j' rest
    | none => none

theorem dotset_object {j j' : Json} {p : List Nat} {v : Json} (h : dotset j p v = some j') :
    ∃ ms ms', j = .object ms ∧ j' = .object ms' ∧ dotsetSegs v (splitDots p) ms = some ms' := by
  unfold dotset at h
  split at h
  · rename_i ms
    split at h
    · rename_i ms' hs
      simp only [Option.some.injEq] at h
      exact ⟨ms, ms', rfl, h.symm, hs⟩
    · cases h
  · cases h

theorem dotget_dotset_same {j j' : Json} {p : List Nat} {v : Json} (h : dotset j p v = some j') :
    dotget j' p = some v := by
  obtain ⟨ms, ms', rfl, rfl, hs⟩ := dotset_object h
  exact dotgetSegs_dotsetSegs_same v _ ms ms' hs

theorem dotget_dotset_other {j j' : Json} {p q : List Nat} {v : Json} (h : dotset j p v = some j')
    (hi : Indep (splitDots p) (splitDots q)) : dotget j' q = dotget j q := by
  obtain ⟨ms, ms', rfl, rfl, hs⟩ := dotset_object h
  exact dotgetSegs_dotsetSegs_other v _ _ ms ms' hi hs

theorem applySets_other : ∀ (sets : List (List Nat × Json)) (j j' : Json) (q : List Nat),
    applySets j sets = some j' → (∀ pv ∈ sets, Indep (splitDots pv.1) (splitDots q)) → dotget j' q = dotget j q
  | [], j, j', q, h, _ => by simp only [applySets, Option.some.injEq] at h; rw [h]
  | (p, v) :: rest, j, j', q, h, hi => by
    simp only [applySets] at h
    split at h
    · rename_i j1 h1
      rw [applySets_other rest j1 j' q h (fun pv hpv => hi pv (List.mem_cons_of_mem _ hpv))]
      exact dotget_dotset_other h1 (hi (p, v) (List.mem_cons_self ..))
    · cases h

/-- The value stored by a `dotset` of a sequence is what `dotget` returns at
    the end, as long as no later `dotset` goes through (or above) that path. -/
theorem applySets_get : ∀ (pre : List (List Nat × Json)) (p : List Nat) (v : Json) (post : List (List Nat × Json))
    (j j' : Json), applySets j (pre ++ (p, v) :: post) = some j' →
    (∀ qv ∈ post, Indep (splitDots qv.1) (splitDots p)) → dotget j' p = some v
  | [], p, v, post, j, j', h, hi => by
    simp only [List.nil_append, applySets] at h
    split at h
    · rename_i j1 h1
      rw [applySets_other post j1 j' p h hi]
      exact dotget_dotset_same h1
    · cases h
  | (p0, v0) :: pre, p, v, post, j, j', h, hi => by
    simp only [List.cons_append, applySets] at h
    split at h
    · rename_i j1 h1
      exact applySets_get pre p v post j1 j' h hi
    · cases h

end Ovni.Json
