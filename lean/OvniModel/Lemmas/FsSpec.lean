import OvniModel.Rt.FsSpec
import OvniModel.Lemmas.FsFault
set_option linter.unusedSimpArgs false

/-! Lemmas connecting the statement-level definitions (`Rt/FsSpec`) to the
    thread-level invariants. -/
namespace Ovni.Rt.Fs


theorem get_isSome_of_mem (fs : Fs) (q : Path) (n : Node) (h : (q, n) ∈ fs) : (fs.get q).isSome = true := by
  induction fs with
  | nil => cases h
  | cons e es ih =>
    obtain ⟨q', n'⟩ := e
    simp only [Fs.get]
    by_cases hq : q' = q
    · simp [hq]
    · rw [if_neg hq]
      simp only [List.mem_cons, Prod.mk.injEq] at h
      rcases h with ⟨h1, _⟩ | h
      · exact absurd h1.symm hq
      · exact ih h

theorem isSome_of_visibleStream (fs : Fs) (r : Root) (tid : Nat) (h : tid ∈ visibleStreams fs r) :
    (fs.get (.file r tid .json)).isSome = true := by
  simp only [visibleStreams, List.mem_filterMap] at h
  obtain ⟨⟨q, n⟩, hmem, heq⟩ := h
  split at heq
  · rename_i r' t' d pn hpair
    split at heq
    · rename_i hr
      simp only [Option.some.injEq] at heq
      simp only [Prod.mk.injEq] at hpair
      obtain ⟨rfl, rfl⟩ := hpair
      subst hr; subst heq
      exact get_isSome_of_mem fs _ _ hmem
    · cases heq
  · cases heq

/-- Every prefix of the run leaves every thread's entries in a state
    satisfying the thread invariant. -/
theorem thread_tinv (C : Codec) (p : Prog) (t : ThreadProg) (k' : Nat) :
    TInv C t (vrun t.tid View.empty ((ops (threadCalls C.ser p t)).take k')) := by
  cases hp : p.tmpMode with
  | false => exact (thread_direct C p t hp _ rfl).1 k'
  | true => exact (thread_tmp C p t hp _ rfl).1 k'

theorem thread_done (C : Codec) (p : Prog) (t : ThreadProg) (hf : t.free = true) :
    vrun t.tid View.empty (ops (threadCalls C.ser p t)) = doneView C t := by
  cases hp : p.tmpMode with
  | false => exact (thread_direct C p t hp _ rfl).2 hf
  | true => exact (thread_tmp C p t hp _ rfl).2 hf

theorem tinv_at_crash (C : Codec) (p : Prog) (hwf : WellFormed p)
    (t : ThreadProg) (ht : t ∈ p.threads) (k : Nat) : TInv C t (viewOf (crashState C p k) t.tid) := by
  obtain ⟨k', hk'⟩ := view_at_crash C.ser p t ht hwf k
  unfold crashState
  rw [hk']
  exact thread_tinv C p t k'

theorem visible_of_view (s : Fs) (cut : Path → Nat) (r : Root) (tid : Nat) :
    s.visible cut (.file r tid .obs) =
      match (viewOf s tid).o r with
      | some (.file d pn) => some (d ++ pn.take (cut (.file r tid .obs)))
      | _ => none := by
  cases r <;> simp only [Fs.visible, viewOf, View.o] <;> split <;> simp_all

theorem copyExists_iff (s : Fs) (tid : Nat) : CopyExists s tid ↔ NoLoss (viewOf s tid) := by
  unfold CopyExists NoLoss
  rw [Fs.flushed_eq]
  constructor
  · rintro (h | ⟨r, d, pn, h1, h2⟩)
    · exact Or.inl h
    · exact Or.inr ⟨r, d, pn, by cases r <;> exact h1, h2⟩
  · rintro (h | ⟨r, d, pn, h1, h2⟩)
    · exact Or.inl h
    · exact Or.inr ⟨r, d, pn, by cases r <;> exact h1, h2⟩

/-- After every prefix of the fault-free run a complete copy exists. -/
theorem copy_at_crash (C : Codec) (p : Prog) (hwf : WellFormed p)
    (t : ThreadProg) (ht : t ∈ p.threads) (k : Nat) : CopyExists (crashState C p k) t.tid := by
  rw [copyExists_iff]
  exact (tinv_at_crash C p hwf t ht k).noLoss

/-- The fault-free run leaves every freed thread complete. -/
theorem complete_at_end (C : Codec) (p : Prog) (hwf : WellFormed p)
    (t : ThreadProg) (ht : t ∈ p.threads) (hf : t.free = true) :
    Complete C t (run p.init (ops (calls C.ser p))) := by
  have hv := view_at_end C.ser p t ht hwf
  rw [thread_done C p t hf] at hv
  have h1 : (run p.init (ops (calls C.ser p))).get (.file .fin t.tid .obs) = F t.obsBytes := congrArg View.ofn hv
  have h2 : (run p.init (ops (calls C.ser p))).get (.file .fin t.tid .json) = F (C.ser ⟨true, t.metaF⟩) :=
    congrArg View.jf hv
  have h3 : (run p.init (ops (calls C.ser p))).get (.ghost t.tid) = F t.obsBytes := congrArg View.g hv
  exact ⟨h1, h2, by rw [Fs.flushed_eq, h3]; rfl⟩

theorem complete_copy {C : Codec} {t : ThreadProg} {s : Fs} (h : Complete C t s) : CopyExists s t.tid :=
  Or.inr ⟨.fin, _, [], h.1, h.2.2.symm⟩

/-- `Complete` only reads the final-tree entries and the ghost log. -/
theorem complete_congr {C : Codec} {t : ThreadProg} {s s' : Fs}
    (h : ∀ q, q.isLeaf = true → (∀ tid n, q ≠ .file .tmp tid n) → s'.get q = s.get q)
    (hc : Complete C t s) : Complete C t s' := by
  refine ⟨?_, ?_, ?_⟩
  · rw [h _ rfl (by simp)]; exact hc.1
  · rw [h _ rfl (by simp)]; exact hc.2.1
  · rw [Fs.flushed_eq, h _ rfl (by simp), ← Fs.flushed_eq]; exact hc.2.2

theorem returned_ok {C : Codec} {p : Prog} {s : Fs} {fl : Option Site}
    (h : ∀ t ∈ p.threads, t.free = true → Complete C t s) : NotSilent C p fl (.returned s) :=
  fun t ht hf => ⟨h t ht hf, complete_copy (h t ht hf)⟩

theorem notSilent_returned {C : Codec} {p : Prog} {o : Outcome} {fl : Option Site} (hr : Outcome.isReturned o = true)
    (h : NotSilent C p fl o) : ∀ t ∈ p.threads, t.free = true → Complete C t o.fs ∧ CopyExists o.fs t.tid := by
  cases o with
  | returned s => exact h
  | die s => cases hr
  | killed s => cases hr

instance (C : Codec) (t : ThreadProg) (s : Fs) : Decidable (Complete C t s) := by
  unfold Complete; infer_instance

def copyExistsB (s : Fs) (tid : Nat) : Bool :=
  s.flushed tid == [] ||
    [Root.tmp, Root.fin].any fun r =>
      match s.get (.file r tid .obs) with
      | some (.file d _) => d == s.flushed tid
      | _ => false

theorem copyExists_iff_B (s : Fs) (tid : Nat) : CopyExists s tid ↔ copyExistsB s tid = true := by
  unfold CopyExists copyExistsB
  simp only [Bool.or_eq_true, beq_iff_eq, List.any_cons, List.any_nil, Bool.or_false]
  constructor
  · rintro (h | ⟨r, d, pn, h1, h2⟩)
    · exact Or.inl h
    · right
      cases r
      · left; rw [h1]; simpa using h2
      · right; rw [h1]; simpa using h2
  · rintro (h | h | h)
    · exact Or.inl h
    · right
      split at h
      · rename_i d pn hg; exact ⟨.tmp, d, pn, hg, by simpa using h⟩
      · cases h
    · right
      split at h
      · rename_i d pn hg; exact ⟨.fin, d, pn, hg, by simpa using h⟩
      · cases h

instance (s : Fs) (tid : Nat) : Decidable (CopyExists s tid) :=
  decidable_of_iff _ (copyExists_iff_B s tid).symm


/-- A copy survives calls that leave the working stream.obs and the ghost log
    alone and at most move pending bytes of the final stream.obs to its disk part. -/
theorem copy_after_die (S0 S' : Fs) (tid : Nat) (hK : Kept (viewOf S0 tid))
    (h_ot : S'.get (.file .tmp tid .obs) = S0.get (.file .tmp tid .obs))
    (h_g : S'.get (.ghost tid) = S0.get (.ghost tid))
    (h_fin : ∀ d pn, S0.get (.file .fin tid .obs) = some (.file d pn) →
      ∃ x pn', x <+: pn ∧ S'.get (.file .fin tid .obs) = some (.file (d ++ x) pn')) :
    CopyExists S' tid := by
  unfold CopyExists
  rw [Fs.flushed_eq, h_g]
  rcases hK with ⟨pn, h⟩ | ⟨_, d, h1, h2⟩ | h
  · exact Or.inr ⟨.tmp, _, pn, by rw [h_ot]; exact h, rfl⟩
  · obtain ⟨x, pn', hx, hS'⟩ := h_fin d [] h1
    have : x = [] := List.prefix_nil.mp hx
    subst this
    exact Or.inr ⟨.fin, _, pn', hS', by rw [List.append_nil]; exact h2.symm⟩
  · exact Or.inl h

theorem copy_after_die_tmp (S0 S' : Fs) (tid : Nat) (hK : KeptTmp (viewOf S0 tid))
    (h_ot : S'.get (.file .tmp tid .obs) = S0.get (.file .tmp tid .obs))
    (h_g : S'.get (.ghost tid) = S0.get (.ghost tid)) : CopyExists S' tid := by
  unfold CopyExists
  rw [Fs.flushed_eq, h_g]
  obtain ⟨pn, h⟩ := hK
  exact Or.inr ⟨.tmp, _, pn, by rw [h_ot]; exact h, rfl⟩

/-- `fwrite` into the final stream.obs of a thread: the working copy is intact. -/
theorem fwrite_obs_at (C : Codec) (p : Prog) (hwf : WellFormed p) (t : ThreadProg) (ht : t ∈ p.threads)
    (i : Nat) (d : List Nat) (hop : (ops (calls C.ser p))[i]? = some (.fwrite (.file .fin t.tid .obs) d)) :
    KeptTmp (viewOf (crashState C p i) t.tid) := by
  obtain ⟨k', hv, hk⟩ := view_and_op_at C.ser p t ht hwf i _ hop (by
    intro h
    exact h (.file .fin t.tid .obs) (by simp [tpaths]) (by simp [touch]))
  unfold crashState
  rw [hv]
  exact thread_fwrite_pre C p t k' _ hk d rfl

end Ovni.Rt.Fs
