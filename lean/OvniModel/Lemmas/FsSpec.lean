import OvniModel.Rt.FsSpec
import OvniModel.Lemmas.FsFault
import OvniModel.Lemmas.FsWitness
set_option linter.unusedSimpArgs false

/-! Lemmas connecting the statement-level definitions (`Rt/FsSpec`) to the
    thread-level invariants. -/
namespace Ovni.Rt.Fs


theorem get_isSome_of_mem (fs : Fs) (q : Path) (n : Node) (h : (q, n) ∈ fs) : (fs.get q).isSome = true := by
  induction fs with
  | nil => cases h
  | cons e es ih =>
    obtain ⟨q', n'⟩ := e
    simp only [Fs.get]
    by_cases hq : q' = q
    · simp [hq]
    · rw [if_neg hq]
      simp only [List.mem_cons, Prod.mk.injEq] at h
      rcases h with ⟨h1, _⟩ | h
      · exact absurd h1.symm hq
      · exact ih h

theorem isSome_of_visibleStream (fs : Fs) (r : Root) (tid : Nat) (h : tid ∈ visibleStreams fs r) :
    (fs.get (.file r tid .json)).isSome = true := by
  simp only [visibleStreams, List.mem_filterMap] at h
  obtain ⟨⟨q, n⟩, hmem, heq⟩ := h
  split at heq
  · rename_i r' t' d pn hpair
    split at heq
    · rename_i hr
      simp only [Option.some.injEq] at heq
      simp only [Prod.mk.injEq] at hpair
      obtain ⟨rfl, rfl⟩ := hpair
      subst hr; subst heq
      exact get_isSome_of_mem fs _ _ hmem
    · cases heq
  · cases heq

/-- Every prefix of the run leaves every thread's entries in a state
    satisfying the thread invariant. -/
theorem tinv_at_crash (C : Codec) (p : Prog) (hwf : WellFormed p) (hm : p.tmpMode = false ∨ ObsFirst p)
    (t : ThreadProg) (ht : t ∈ p.threads) (k : Nat) : TInv C t (viewOf (crashState C p k) t.tid) := by
  obtain ⟨k', hk'⟩ := view_at_crash C.ser p t ht hwf k
  unfold crashState
  rw [hk']
  cases hp : p.tmpMode with
  | false => exact (thread_direct C p t hp _ rfl).1 k'
  | true =>
    rcases hm with hm | hm
    · rw [hp] at hm; cases hm
    · exact (thread_tmp_obs_first C p t hp hm _ rfl).1 k'

theorem visible_of_view (s : Fs) (cut : Path → Nat) (r : Root) (tid : Nat) :
    s.visible cut (.file r tid .obs) =
      match (viewOf s tid).o r with
      | some (.file d pn) => some (d ++ pn.take (cut (.file r tid .obs)))
      | _ => none := by
  cases r <;> simp only [Fs.visible, viewOf, View.o] <;> split <;> simp_all

theorem copyExists_iff (s : Fs) (tid : Nat) : CopyExists s tid ↔ NoLoss (viewOf s tid) := by
  unfold CopyExists NoLoss
  rw [Fs.flushed_eq]
  constructor
  · rintro (h | ⟨r, d, pn, h1, h2⟩)
    · exact Or.inl h
    · exact Or.inr ⟨r, d, pn, by cases r <;> exact h1, h2⟩
  · rintro (h | ⟨r, d, pn, h1, h2⟩)
    · exact Or.inl h
    · exact Or.inr ⟨r, d, pn, by cases r <;> exact h1, h2⟩

/-- After every prefix of the fault-free run a complete copy exists. -/
theorem copy_at_crash (C : Codec) (p : Prog) (hwf : WellFormed p) (hm : p.tmpMode = false ∨ ReaddirOrder p)
    (t : ThreadProg) (ht : t ∈ p.threads) (k : Nat) : CopyExists (crashState C p k) t.tid := by
  rw [copyExists_iff]
  obtain ⟨k', hk'⟩ := view_at_crash C.ser p t ht hwf k
  unfold crashState
  rw [hk']
  cases hp : p.tmpMode with
  | false => exact ((thread_direct C p t hp _ rfl).1 k').noLoss
  | true =>
    rcases hm with hm | hm
    · rw [hp] at hm; cases hm
    · exact (thread_tmp_noloss C p t hp (Witness.streamEntries_of_perm hm) _ rfl).1 k'

/-- The fault-free run leaves every freed thread complete. -/
theorem complete_at_end (C : Codec) (p : Prog) (hwf : WellFormed p) (hm : p.tmpMode = false ∨ ReaddirOrder p)
    (t : ThreadProg) (ht : t ∈ p.threads) (hf : t.free = true) :
    Complete C t (run p.init (ops (calls C.ser p))) := by
  have hv := view_at_end C.ser p t ht hwf
  have hd : vrun t.tid View.empty (ops (threadCalls C.ser p t)) = doneView C t := by
    cases hp : p.tmpMode with
    | false => exact (thread_direct C p t hp _ rfl).2 hf
    | true =>
      rcases hm with hm | hm
      · rw [hp] at hm; cases hm
      · exact (thread_tmp_noloss C p t hp (Witness.streamEntries_of_perm hm) _ rfl).2 hf
  rw [hd] at hv
  have h1 : (run p.init (ops (calls C.ser p))).get (.file .fin t.tid .obs) = F t.obsBytes := congrArg View.ofn hv
  have h2 : (run p.init (ops (calls C.ser p))).get (.file .fin t.tid .json) = F (C.ser ⟨true, t.metaF⟩) :=
    congrArg View.jf hv
  have h3 : (run p.init (ops (calls C.ser p))).get (.ghost t.tid) = F t.obsBytes := congrArg View.g hv
  exact ⟨h1, h2, by rw [Fs.flushed_eq, h3]; rfl⟩

theorem complete_copy {C : Codec} {t : ThreadProg} {s : Fs} (h : Complete C t s) : CopyExists s t.tid :=
  Or.inr ⟨.fin, _, [], h.1, h.2.2.symm⟩

/-- `Complete` only reads the final-tree entries and the ghost log. -/
theorem complete_congr {C : Codec} {t : ThreadProg} {s s' : Fs}
    (h : ∀ q, q.isLeaf = true → (∀ tid n, q ≠ .file .tmp tid n) → s'.get q = s.get q)
    (hc : Complete C t s) : Complete C t s' := by
  refine ⟨?_, ?_, ?_⟩
  · rw [h _ rfl (by simp)]; exact hc.1
  · rw [h _ rfl (by simp)]; exact hc.2.1
  · rw [Fs.flushed_eq, h _ rfl (by simp), ← Fs.flushed_eq]; exact hc.2.2

theorem returned_ok {C : Codec} {p : Prog} {s : Fs}
    (h : ∀ t ∈ p.threads, t.free = true → Complete C t s) : NotSilent C p (.returned s) :=
  fun t ht hf => ⟨h t ht hf, complete_copy (h t ht hf)⟩

theorem notSilent_returned {C : Codec} {p : Prog} {o : Outcome} (hr : Outcome.isReturned o = true)
    (h : NotSilent C p o) : ∀ t ∈ p.threads, t.free = true → Complete C t o.fs ∧ CopyExists o.fs t.tid := by
  cases o with
  | returned s => exact h
  | die s => cases hr
  | killed s => cases hr

instance (C : Codec) (t : ThreadProg) (s : Fs) : Decidable (Complete C t s) := by
  unfold Complete; infer_instance

def copyExistsB (s : Fs) (tid : Nat) : Bool :=
  s.flushed tid == [] ||
    [Root.tmp, Root.fin].any fun r =>
      match s.get (.file r tid .obs) with
      | some (.file d _) => d == s.flushed tid
      | _ => false

theorem copyExists_iff_B (s : Fs) (tid : Nat) : CopyExists s tid ↔ copyExistsB s tid = true := by
  unfold CopyExists copyExistsB
  simp only [Bool.or_eq_true, beq_iff_eq, List.any_cons, List.any_nil, Bool.or_false]
  constructor
  · rintro (h | ⟨r, d, pn, h1, h2⟩)
    · exact Or.inl h
    · right
      cases r
      · left; rw [h1]; simpa using h2
      · right; rw [h1]; simpa using h2
  · rintro (h | h | h)
    · exact Or.inl h
    · right
      split at h
      · rename_i d pn hg; exact ⟨.tmp, d, pn, hg, by simpa using h⟩
      · cases h
    · right
      split at h
      · rename_i d pn hg; exact ⟨.fin, d, pn, hg, by simpa using h⟩
      · cases h

instance (s : Fs) (tid : Nat) : Decidable (CopyExists s tid) :=
  decidable_of_iff _ (copyExists_iff_B s tid).symm


/-- Direct mode has no relocation: the only unchecked call is `close(streamfd)`. -/
theorem direct_unchecked (ser : Meta → List Nat) (p : Prog) (hp : p.tmpMode = false) :
    ∀ c ∈ calls ser p, c.site.unchecked = true → c.site = .closeStream := by
  have hwr : p.wr = .fin := by simp [Prog.wr, hp]
  have mk : ∀ comps, ∀ c ∈ mkpathCalls comps, c.site.unchecked = true → c.site = .closeStream := by
    intro comps c hc
    simp only [mkpathCalls, List.mem_flatMap] at hc
    obtain ⟨x, _, hc⟩ := hc
    split at hc <;> simp only [List.mem_cons, List.not_mem_nil, or_false] at hc
    · rcases hc with rfl | rfl <;> intro h <;> cases h
    · subst hc; intro h; cases h
  have st : ∀ r t js, ∀ c ∈ storeCalls r t js, c.site.unchecked = true → c.site = .closeStream := by
    intro r t js c hc
    simp only [storeCalls, List.mem_cons, List.not_mem_nil, or_false] at hc
    rcases hc with rfl | rfl | rfl <;> intro h <;> cases h
  intro c hc
  simp only [calls, procInitCalls, procFiniCalls, hp, Bool.and_false, Bool.false_eq_true, if_false, List.append_nil,
    List.mem_append, List.mem_flatMap] at hc
  rcases hc with hc | ⟨t, _, hc⟩
  · exact mk _ c hc
  · simp only [threadCalls, threadInitCalls, hp, hwr, Bool.false_eq_true, if_false, List.append_nil, List.mem_append] at hc
    rcases hc with (((h | h) | h) | h) | h
    · exact mk _ c h
    · simp only [List.mem_cons, List.not_mem_nil, or_false] at h
      rcases h with rfl | rfl <;> intro h <;> cases h
    · exact st _ _ _ c h
    · simp only [List.mem_flatMap] at h
      obtain ⟨stp, _, h⟩ := h
      cases stp with
      | io chunks =>
        simp only [stepCalls, List.mem_map] at h
        obtain ⟨d, _, rfl⟩ := h
        intro h; cases h
      | attrFlush b => exact st _ _ _ c h
    · split at h
      · simp only [threadFreeCalls, relocCalls, hp, Bool.false_eq_true, if_false, List.append_nil, List.mem_append] at h
        rcases h with h | h
        · exact st _ _ _ c h
        · simp only [List.mem_cons, List.not_mem_nil, or_false] at h
          subst h; intro _; rfl
      · cases h

end Ovni.Rt.Fs
