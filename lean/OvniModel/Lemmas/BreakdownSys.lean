import OvniModel.Emu.Breakdown
import OvniModel.Lemmas.SortState

/-! Helper lemmas for `Props/C20.lean`: the whole breakdown (`n` CPUs feeding
    the sort module).  Free to change. -/
namespace Ovni.Emu.Breakdown
open Ovni.Emu.Sort (Value)
open Ovni.Emu

/-- A history of `bay_propagate`s of the whole breakdown, from creation. -/
def runSys (k : Consts) (qs : List Int → List Int) (n : Nat)
    (hist : List (List (Nat × Src × Value))) : Sys :=
  hist.foldl (fun s sets => (stepSys k qs s sets).1) (Sys.init n)

/-- The value the sort module holds for each CPU is the `tri` it last saw. -/
structure SysInv (s : Sys) : Prop where
  sort : Sort.Inv s.sort
  len : s.sort.n = s.cpus.length
  vals : s.sort.values = s.cpus.map (fun c => c.seen.toInt)

theorem set_self {α : Type} (l : List α) (i : Nat) (a : α) (h : l[i]? = some a) : l.set i a = l := by
  induction l generalizing i with
  | nil => rfl
  | cons x t ih =>
    cases i with
    | zero => simp at h; simp [h]
    | succ j => simp at h; simp [ih j h]

theorem fire_seen_ne (k : Consts) (c : Cpu) (ch : Ch) (h : ch ≠ .tri) :
    (fire k c ch).1.seen = c.seen := by
  cases ch
  · rfl
  · simp only [fire]; split <;> rfl
  · rfl
  · simp only [fire]; split <;> rfl
  · exact absurd rfl h

theorem cbInput_n (qs : List Int → List Int) (s : Sort.State) (i : Nat) (v : Value) :
    (Sort.cbInput qs s i v).1.n = s.n := by
  by_cases hc : Sort.rd s.values i = v.toInt ∨ s.n ≤ i
  · rw [Sort.cbInput_same qs s i v hc]
  · rw [Sort.cbInput_change qs s i v hc]

theorem propagateSys_inv (k : Consts) (qs : List Int → List Int) (hq : Sort.IsSort qs) :
    ∀ (fuel : Nat) (todo dirty : List (Nat × Ch)) (s : Sys) (w : List (Nat × Int)),
      SysInv s → SysInv (propagateSys k qs fuel todo dirty s w).1 := by
  intro fuel
  induction fuel with
  | zero => intro todo dirty s w h; exact h
  | succ f ih =>
    intro todo dirty s w h
    cases todo with
    | nil => exact h
    | cons it rest =>
      obtain ⟨i, ch⟩ := it
      simp only [propagateSys]
      cases hc : s.cpus[i]? with
      | none => exact ih _ _ _ _ h
      | some c =>
        simp only []
        apply ih
        by_cases ht : ch = .tri
        · subst ht
          simp only [if_true]
          constructor
          · exact Sort.inv_step qs hq s.sort h.sort i _
          · simp [cbInput_n, h.len]
          · show (Sort.cbInput qs s.sort i (fire k c .tri).1.mux1.out).1.values = _
            rw [Sort.values_step qs s.sort h.sort, List.map_set, h.vals]
            rfl
        · simp only [ht, if_false]
          constructor
          · exact h.sort
          · simp [h.len]
          · show s.sort.values = _
            rw [List.map_set, fire_seen_ne k c ch ht, h.vals]
            symm
            apply set_self
            simp [hc]

theorem foldl_set_seen (sets : List (Nat × Src × Value)) : ∀ cs : List Cpu,
    ((sets.foldl setOne cs).map (fun c => c.seen.toInt) = cs.map (fun c => c.seen.toInt)) ∧
    (sets.foldl setOne cs).length = cs.length := by
  induction sets with
  | nil => intro cs; exact ⟨rfl, rfl⟩
  | cons e es ih =>
    intro cs
    simp only [List.foldl_cons]
    have := ih (setOne cs e)
    refine ⟨this.1.trans ?_, this.2.trans ?_⟩
    · unfold setOne
      cases hc : cs[e.1]? with
      | none => rfl
      | some c =>
        simp only []
        rw [List.map_set]
        apply set_self
        obtain ⟨i, x, v⟩ := e
        cases x <;> simp [Cpu.set, hc]
    · unfold setOne
      cases hc : cs[e.1]? with
      | none => rfl
      | some c => simp

theorem stepSys_inv (k : Consts) (qs : List Int → List Int) (hq : Sort.IsSort qs) (s : Sys)
    (sets : List (Nat × Src × Value)) (h : SysInv s) : SysInv (stepSys k qs s sets).1 := by
  unfold stepSys
  apply propagateSys_inv k qs hq
  have := foldl_set_seen sets s.cpus
  exact ⟨h.sort, by dsimp only; rw [this.2]; exact h.len, by dsimp only; rw [this.1]; exact h.vals⟩

theorem sysInv_init (n : Nat) : SysInv (Sys.init n) := by
  constructor
  · exact Sort.inv_init n
  · simp [Sys.init, Sort.init]
  · simp [Sys.init, Sort.init, Cpu.init, Value.toInt]

theorem runSys_inv (k : Consts) (qs : List Int → List Int) (hq : Sort.IsSort qs) (n : Nat)
    (hist : List (List (Nat × Src × Value))) : SysInv (runSys k qs n hist) := by
  unfold runSys
  have : ∀ (hist : List (List (Nat × Src × Value))) (s : Sys), SysInv s →
      SysInv (hist.foldl (fun s sets => (stepSys k qs s sets).1) s) := by
    intro hist
    induction hist with
    | nil => intro s h; exact h
    | cons p ps ih => intro s h; exact ih _ (stepSys_inv k qs hq s p h)
  exact this hist _ (sysInv_init n)

end Ovni.Emu.Breakdown
