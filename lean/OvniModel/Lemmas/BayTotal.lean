import OvniModel.Lemmas.Bay

/-
  C06: `bay_propagate` terminates successfully (no callback fails, the fuel
  of the model loops is never exhausted) in every safe configuration.
-/
namespace Ovni.Emu

theorem Mux.selectInput_lt {m : Mux} {v : Value} {i : Nat} (h : m.selectInput v = .ok (some i)) :
    i < m.inputs.length := by
  unfold Mux.selectInput at h
  split at h
  · cases h
  · rename_i s
    split at h
    · split at h
      · cases h
      · rename_i hn; cases h; omega
    · split at h
      · cases h
      · rename_i hl
        split at h
        · cases h; omega
        · cases h
    · split at h
      · cases h
      · rename_i hl
        split at h
        · cases h; omega
        · cases h

/-- Writing an output channel (single, DIRTY_WRITE, ALLOW_DUP) never fails. -/
theorem Bay.write_out_ok (b : Bay) (c : Nat) (v : Value) (hlt : c < b.chans.length)
    (hs : (b.chan c).isStack = false) (hdw : (b.chan c).dirtyWrite = true)
    (had : (b.chan c).allowDup = true) : ∃ b', b.write c (·.set v) = .ok b' := by
  have hch : b.chans[c]? = some (b.chan c) := by
    simp [Bay.chan, List.getD_eq_getElem?_getD, List.getElem?_eq_getElem hlt]
  unfold Bay.write
  rw [hch]
  simp only [Chan.set, hs, hdw, had]
  simp

theorem Bay.Safe.write {b b' : Bay} {c : Nat} {f} (sf : b.Safe) (hf : ChanOp f)
    (h : b.write c f = .ok b')
    (hc : ∀ (mi : Nat) (m : Mux), b.muxes[mi]? = some m → c ≠ m.sel) : b'.Safe := by
  have hm := Bay.write_muxes h
  have hsl := Bay.write_selected h
  have hop := hf _ _ (Bay.write_chan_eq h).1
  constructor
  · intro mi m i h1; rw [hm] at h1; exact sf.inSet mi m i h1
  · intro mi m j h1 h2; rw [hm] at h1; rw [Bay.selOf_congr hsl] at h2; exact sf.selRange mi m j h1 h2
  · intro mi m h1; rw [hm] at h1
    by_cases e : m.out = c
    · rw [e, hop.2.2.1, hop.2.2.2.1, ← e]; exact sf.outOk mi m h1
    · rw [Bay.write_chan_ne h e]; exact sf.outOk mi m h1
  · intro mi m h1; rw [hm] at h1
    rw [Bay.write_chan_ne h (Ne.symm (hc mi m h1))]; exact sf.selOk mi m h1
  · intro mi m mj m' h1 h2; rw [hm] at h1 h2; exact sf.selRaw mi m mj m' h1 h2

/-- `cb_select` in one step, when nothing it dereferences is missing. -/
theorem Bay.cbSelect_eq {b : Bay} {mi : Nat} {m : Mux} {s : Option Nat} (hm : b.muxes[mi]? = some m)
    (hsel : m.selectInput (b.chan m.sel).cur = .ok s)
    (hj : ∀ j, b.selOf mi = some j → ∃ ic, m.inputs[j]? = some (some ic))
    (hi : ∀ i, s = some i → ∃ ic, m.inputs[i]? = some (some ic)) :
    b.cbSelect mi = (b.reselect mi m s).write m.out (·.set (b.specVal m s)) := by
  simp only [Bay.cbSelect, hm]
  unfold Bay.clearSelected Bay.reselect
  cases hso : b.selOf mi with
  | none =>
    simp only [hsel]
    cases s with
    | none => rfl
    | some i =>
      obtain ⟨ic, hic⟩ := hi i rfl
      simp only [hic, Bay.specVal, Bay.setSelected_chan, Bay.enableCb_chan]
  | some j =>
    obtain ⟨icj, hicj⟩ := hj j hso
    simp only [hicj, hsel]
    cases s with
    | none => rfl
    | some i =>
      obtain ⟨ic, hic⟩ := hi i rfl
      simp only [hic, Bay.specVal, Bay.setSelected_chan, Bay.enableCb_chan, Bay.disableCb_chan]

theorem Bay.runCb_total {b : Bay} {c : Nat} {cb : Cb} (wf : b.WF) (sf : b.Safe) (hmem : cb ∈ b.cbsOf c) :
    ∃ b', b.runCb cb = .ok b' ∧ b'.Safe := by
  cases cb with
  | muxInput mi i =>
    obtain ⟨m, hm, hi⟩ := wf.inCbOnly c mi i hmem
    obtain ⟨hs, hdw⟩ := sf.outOk mi m hm
    obtain ⟨b', hw⟩ := Bay.write_out_ok b m.out (b.chan c).cur (wf.outLt mi m hm) hs hdw (wf.outDup mi m hm)
    refine ⟨b', ?_, sf.write (chanOp_set _) hw (fun mj m' h' e => sf.selRaw mj m' mi m h' hm e)⟩
    simp only [Bay.runCb, Bay.cbInput, hm, hi]; exact hw
  | muxSelect mi =>
    obtain ⟨m, hm, _⟩ := wf.selCbOnly c mi hmem
    obtain ⟨s, hsel⟩ := sf.selOk mi m hm
    have hj : ∀ j, b.selOf mi = some j → ∃ ic, m.inputs[j]? = some (some ic) :=
      fun j h => sf.inSet mi m j hm (sf.selRange mi m j hm h)
    have hi : ∀ i, s = some i → ∃ ic, m.inputs[i]? = some (some ic) := by
      intro i e; subst e; exact sf.inSet mi m i hm (Mux.selectInput_lt hsel)
    obtain ⟨hch, hmx, _, _, _, _, _⟩ := Bay.reselect_fields b mi m s
    have wf2 := wf.reselect hm s hj hi
    have hm2 : (b.reselect mi m s).muxes[mi]? = some m := by rw [hmx]; exact hm
    obtain ⟨hs, hdw⟩ := sf.outOk mi m hm
    obtain ⟨b', hw⟩ := Bay.write_out_ok (b.reselect mi m s) m.out (b.specVal m s) (wf2.outLt mi m hm2)
      (by rw [Bay.reselect_chan]; exact hs) (by rw [Bay.reselect_chan]; exact hdw) (wf2.outDup mi m hm2)
    have hmi : mi < b.selected.length := by
      rw [wf.selLen]; exact (List.getElem?_eq_some_iff.mp hm).1
    -- the intermediate state is safe
    have sf2 : (b.reselect mi m s).Safe := by
      constructor
      · intro mj m' i h1; rw [hmx] at h1; exact sf.inSet mj m' i h1
      · intro mj m' j h1 h2; rw [hmx] at h1
        by_cases e : mj = mi
        · subst e
          rw [hm] at h1; cases h1
          rw [Bay.reselect_selOf_eq b mj m s hmi hj hi] at h2
          subst h2; exact Mux.selectInput_lt hsel
        · rw [Bay.reselect_selOf_ne _ _ _ _ e] at h2; exact sf.selRange mj m' j h1 h2
      · intro mj m' h1; rw [hmx] at h1; rw [Bay.reselect_chan]; exact sf.outOk mj m' h1
      · intro mj m' h1; rw [hmx] at h1; rw [Bay.reselect_chan]; exact sf.selOk mj m' h1
      · intro mj m' mk m'' h1 h2; rw [hmx] at h1 h2; exact sf.selRaw mj m' mk m'' h1 h2
    refine ⟨b', ?_, sf2.write (chanOp_set _) hw (fun mj m' h' e => by
      rw [hmx] at h'; exact sf.selRaw mj m' mi m h' hm e)⟩
    simp only [Bay.runCb]
    rw [Bay.cbSelect_eq hm hsel hj hi]; exact hw

theorem Bay.propChan_total (c : Nat) : ∀ (fuel : Nat) (b : Bay) (j : Nat), b.WF → b.Safe →
    (b.cbsOf c).length ≤ fuel + j →
    ∃ b', b.propChan fuel c j = .ok b' ∧ b'.WF ∧ b'.Safe ∧ b'.chans.length = b.chans.length := by
  intro fuel
  induction fuel with
  | zero =>
    intro b j wf sf h
    have : (b.cbsOf c)[j]? = none := List.getElem?_eq_none_iff.mpr (by omega)
    exact ⟨b, by unfold Bay.propChan; simp [this], wf, sf, rfl⟩
  | succ fuel ih =>
    intro b j wf sf h
    cases hcb : (b.cbsOf c)[j]? with
    | none => exact ⟨b, by unfold Bay.propChan; simp [hcb], wf, sf, rfl⟩
    | some cb =>
      have hjl : j < (b.cbsOf c).length := (List.getElem?_eq_some_iff.mp hcb).1
      have hmem : cb ∈ b.cbsOf c := List.mem_of_getElem? hcb
      obtain ⟨b1, hrun, sf1⟩ := Bay.runCb_total wf sf hmem
      have wf1 := wf.runCb hrun
      have hfix := Bay.runCb_cbsOf_fixed wf hmem hrun
      have hidx : (b1.cbsOf c).idxOf cb = j := by
        rw [hfix, ← (List.getElem?_eq_some_iff.mp hcb).2]
        exact (wf.cbsNodup c).idxOf_getElem j hjl
      have hlen1 : b1.chans.length = b.chans.length := by
        cases cb with
        | muxInput mj i =>
          obtain ⟨_, _, _, _, hw⟩ := Bay.cbInput_ok hrun
          exact Bay.write_length hw
        | muxSelect mj =>
          obtain ⟨m', s, _, _, _, _, hw⟩ := Bay.cbSelect_ok hrun
          rw [Bay.write_length hw, (Bay.reselect_fields b mj m' s).1]
      obtain ⟨b', h', wf', sf', hl'⟩ := ih b1 (j + 1) wf1 sf1 (by rw [hfix]; omega)
      refine ⟨b', ?_, wf', sf', hl'.trans hlen1⟩
      rw [Bay.propChan]
      simp only [hcb, hrun, hidx]
      exact h'

theorem Bay.dirtyPhase_total : ∀ (fuel : Nat) (b : Bay) (k : Nat), b.WF → b.Safe →
    b.chans.length ≤ fuel + k → ∃ b', b.dirtyPhase fuel k = .ok b' ∧ b'.WF ∧ b'.Safe := by
  intro fuel
  induction fuel with
  | zero =>
    intro b k wf sf h
    have hl := wf.dirty_length
    have : b.dirty[k]? = none := List.getElem?_eq_none_iff.mpr (by omega)
    exact ⟨b, by unfold Bay.dirtyPhase; simp [this], wf, sf⟩
  | succ fuel ih =>
    intro b k wf sf h
    cases hc : b.dirty[k]? with
    | none => exact ⟨b, by unfold Bay.dirtyPhase; simp [hc], wf, sf⟩
    | some c =>
      obtain ⟨b1, hrun, wf1, sf1, hl1⟩ := Bay.propChan_total c (b.chanFuel c) b 0 wf sf (Bay.chanFuel_ok b c)
      obtain ⟨b', h', wf', sf'⟩ := ih b1 (k + 1) wf1 sf1 (by rw [hl1]; omega)
      refine ⟨b', ?_, wf', sf'⟩
      rw [Bay.dirtyPhase]
      simp only [hc, hrun]
      exact h'

theorem Bay.flushList_total : ∀ (cs : List Nat) (b : Bay), cs.Nodup →
    (∀ c ∈ cs, c < b.chans.length ∧ (b.chan c).dirty = true) → ∃ b2, Bay.flushList cs b = .ok b2 := by
  intro cs
  induction cs with
  | nil => intro b _ _; exact ⟨b, rfl⟩
  | cons c0 cs ih =>
    intro b hnd h
    obtain ⟨hlt, hd⟩ := h c0 (by simp)
    have hch : b.chans[c0]? = some (b.chan c0) := by
      simp [Bay.chan, List.getD_eq_getElem?_getD, List.getElem?_eq_getElem hlt]
    rw [Bay.flushList, hch]
    simp only [hd, if_true]
    apply ih _ (List.nodup_cons.mp hnd).2
    intro c hc
    have hne : c ≠ c0 := by rintro rfl; exact (List.nodup_cons.mp hnd).1 hc
    obtain ⟨h1, h2⟩ := h c (by simp [hc])
    refine ⟨by simpa using h1, ?_⟩
    have : ({ b with chans := b.chans.set c0 (b.chan c0).flush } : Bay).chan c = b.chan c := by
      simp only [Bay.chan]; exact getD_set_ne _ _ _ _ _ (Ne.symm hne)
    rw [this]; exact h2

/-- `bay_propagate` succeeds in every safe well-formed bay: no callback
    fails and neither fuel bound is reached. -/
theorem Bay.propagate_total {b : Bay} (wf : b.WF) (sf : b.Safe) : ∃ r, b.propagate = .ok r := by
  obtain ⟨b1, h1, wf1, _⟩ := Bay.dirtyPhase_total b.chans.length b 0 wf sf (by omega)
  obtain ⟨b2, h2⟩ := Bay.flushList_total b1.dirty b1 wf1.dirtyNodup
    (fun c hc => ⟨wf1.dirty_lt hc, (wf1.dirtyIff c).mp hc⟩)
  refine ⟨({ b2 with dirty := [] }, b1.emitPhase), ?_⟩
  unfold Bay.propagate; simp only [h1, h2]

end Ovni.Emu
