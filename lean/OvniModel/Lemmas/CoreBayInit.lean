import OvniModel.Lemmas.CoreBay

/-
  C06, last composition step: the initial state.  `emu_connect` = connect
  (`Shape.connect`), then the `chan_set`s of the models' `connect` functions
  (`ModelSpec.initVals`: nOS-V / Nanos6 set every thread's idle channel to
  Progressing), then one `bay_propagate`.  The result mirrors `mkEmu …` and
  satisfies `Inv`.
-/
namespace Ovni.Emu
open Ovni.Generated

/-- `mkEmu` with the raw channels of every (thread, model) given by `fc`. -/
def mkEmuWith (fc : ModelSpec → List Chan) (threads : List (Int × Int × Nat))
    (cpus : List (Nat × Int × Bool)) (enabled : List Nat) (lint : Bool) (extra : List ModelSpec) : Emu :=
  let specs := allSpecs.filter (fun s => enabled.contains s.char) ++ extra
  { threads := threads.mapIdx fun g (tid, pid, loom) =>
      { gindex := g, tid := tid, pid := pid, loom := loom,
        mch := specs.map fun s => (s.char, fc s) },
    cpus := cpus.mapIdx fun g (loom, index, virt) => { gindex := g, loom := loom, index := index, virt := virt },
    enabled := enabled, lint := lint, extra := extra }

theorem mkEmu_eq (threads : List (Int × Int × Nat)) (cpus : List (Nat × Int × Bool)) (enabled : List Nat)
    (lint : Bool) (extra : List ModelSpec) :
    mkEmu threads cpus enabled lint extra = mkEmuWith ModelSpec.freshChans threads cpus enabled lint extra := rfl

/-- channels right after `chan_init` -/
def ModelSpec.protoChan (m : ModelSpec) (i : Nat) : Chan :=
  { isStack := m.chanStack.getD i false, allowDup := m.chanDup.getD i false }

def ModelSpec.initOf (m : ModelSpec) (i : Nat) : Option Int := (m.initVals.find? (·.1 == i)).map (·.2)

/-- channels after the `chan_set`s of `model_*_connect`, before the first propagation -/
def ModelSpec.dirtyChan (m : ModelSpec) (i : Nat) : Chan :=
  match m.initOf i with
  | some v => { m.protoChan i with vals := [.int v], dirty := true }
  | none => m.protoChan i

def ModelSpec.protoChans (m : ModelSpec) : List Chan := (List.range m.nch).map m.protoChan
def ModelSpec.dirtyChans (m : ModelSpec) : List Chan := (List.range m.nch).map m.dirtyChan

theorem ModelSpec.freshChans_eq (m : ModelSpec) : m.freshChans = m.dirtyChans.map Chan.flush := by
  simp only [ModelSpec.freshChans, ModelSpec.dirtyChans, List.map_map]
  apply List.map_congr_left
  intro i _
  simp only [Function.comp, ModelSpec.dirtyChan, ModelSpec.initOf]
  cases h : m.initVals.find? (·.1 == i) with
  | none => rfl
  | some x => obtain ⟨a, v⟩ := x; rfl

theorem mkEmuWith_flushAll (threads : List (Int × Int × Nat)) (cpus : List (Nat × Int × Bool)) (enabled : List Nat)
    (lint : Bool) (extra : List ModelSpec) :
    (mkEmuWith ModelSpec.dirtyChans threads cpus enabled lint extra).flushAll =
      mkEmu threads cpus enabled lint extra := by
  rw [mkEmu_eq]
  have hm : ∀ (l : List ModelSpec),
      List.map (fun x : Nat × List Chan => (x.fst, List.map Chan.flush x.snd))
        (List.map (fun s : ModelSpec => (s.char, s.dirtyChans)) l) =
      List.map (fun s : ModelSpec => (s.char, s.freshChans)) l := by
    intro l
    rw [List.map_map]
    apply List.map_congr_left
    intro s _
    simp only [Function.comp, ModelSpec.freshChans_eq]
  simp only [mkEmuWith, Emu.flushAll]
  congr 1
  · apply List.ext_getElem?
    intro g
    simp only [List.getElem?_map, List.getElem?_mapIdx]
    cases threads[g]? with
    | none => rfl
    | some x =>
      obtain ⟨tid, pid, loom⟩ := x
      simp only [Option.map_some, hm]
      rfl
  · apply List.ext_getElem?
    intro g
    simp only [List.getElem?_map, List.getElem?_mapIdx]
    cases cpus[g]? with
    | none => rfl
    | some x => rfl

/-! ### sources of `mkEmuWith` -/

section
variable (fc : ModelSpec → List Chan) (threads : List (Int × Int × Nat))
  (cpus : List (Nat × Int × Bool)) (enabled : List Nat) (lint : Bool) (extra : List ModelSpec)

theorem mkEmuWith_specs : (mkEmuWith fc threads cpus enabled lint extra).specs =
    allSpecs.filter (fun s => enabled.contains s.char) ++ extra := rfl

theorem mkEmuWith_shape : (mkEmuWith fc threads cpus enabled lint extra).shape =
    ⟨threads.length, cpus.length, allSpecs.filter (fun s => enabled.contains s.char) ++ extra⟩ := by
  simp only [Emu.shape, mkEmuWith, List.length_mapIdx]; rfl

/-- what `mkEmuWith fc` holds at source `s` -/
def srcWith (specs : List ModelSpec) : Src → Option Chan
  | .st _ => some {}
  | .run _ => some { ignoreDup := true }
  | .act _ => some { ignoreDup := true }
  | .raw _ k i => match specs[k]? with
    | some m => (fc m)[i]?
    | none => none

theorem mkEmuWith_src (s : Src) (hs : s ∈ (mkEmuWith fc threads cpus enabled lint extra).shape.addrs) :
    (mkEmuWith fc threads cpus enabled lint extra).src s =
      srcWith fc (allSpecs.filter (fun s => enabled.contains s.char) ++ extra) s := by
  rw [mkEmuWith_shape] at hs
  cases s with
  | st g =>
    have hg : g < threads.length := (Shape.mem_st _ g).mp hs
    simp only [Emu.src, mkEmuWith, List.getElem?_mapIdx, List.getElem?_eq_getElem hg, srcWith]
    rfl
  | run c =>
    have hc : c < cpus.length := (Shape.mem_run _ c).mp hs
    simp only [Emu.src, mkEmuWith, List.getElem?_mapIdx, List.getElem?_eq_getElem hc, srcWith]
    rfl
  | act c =>
    have hc : c < cpus.length := (Shape.mem_act _ c).mp hs
    simp only [Emu.src, mkEmuWith, List.getElem?_mapIdx, List.getElem?_eq_getElem hc, srcWith]
    rfl
  | raw g k i =>
    obtain ⟨hg, m, hk, _⟩ := (Shape.mem_raw _ g k i).mp hs
    have hg' : g < threads.length := hg
    simp only at hk
    simp only [Emu.src, mkEmuWith, List.getElem?_mapIdx, List.getElem?_eq_getElem hg', srcWith,
      Option.map_some, List.getElem?_map, hk]

theorem mkEmuWith_shaped (hlen : ∀ m, (fc m).length = m.nch)
    (hchars : ((allSpecs.filter (fun s => enabled.contains s.char) ++ extra).map (·.char)).Nodup) :
    Shaped (mkEmuWith fc threads cpus enabled lint extra) := by
  constructor
  · intro g t ht
    simp only [mkEmuWith, List.getElem?_mapIdx] at ht
    cases hx : threads[g]? with
    | none => rw [hx] at ht; cases ht
    | some x => rw [hx] at ht; cases ht; rfl
  · intro c x hx
    simp only [mkEmuWith, List.getElem?_mapIdx] at hx
    cases hy : cpus[c]? with
    | none => rw [hy] at hx; cases hx
    | some y => rw [hy] at hx; cases hx; rfl
  · intro g t ht
    rw [mkEmuWith_specs]
    simp only [mkEmuWith, List.getElem?_mapIdx] at ht
    cases hx : threads[g]? with
    | none => rw [hx] at ht; cases ht
    | some x =>
      rw [hx] at ht; cases ht
      simp only [List.map_map]
      apply List.map_congr_left
      intro s _
      simp only [Function.comp, hlen]
  · rw [mkEmuWith_specs]; exact hchars
  · intro c x hx
    simp only [mkEmuWith, List.getElem?_mapIdx] at hx
    cases hy : cpus[c]? with
    | none => rw [hy] at hx; cases hx
    | some y => rw [hy] at hx; cases hx; trivial
  · intro g t ht
    simp only [mkEmuWith, List.getElem?_mapIdx] at ht
    cases hx : threads[g]? with
    | none => rw [hx] at ht; cases ht
    | some x => rw [hx] at ht; cases ht; exact ⟨Or.inr ⟨rfl, rfl⟩, rfl⟩

end

/-! ### the writes of `model_*_connect` -/

/-- Writing, in list order and each source once, `f s` to the sources of
    `todo`: afterwards those hold `tgt s`, the others are untouched. -/
theorem Shape.init_writes (σ : Shape) (old tgt : Src → Chan) (f : Src → Chan → Except Err Chan)
    (hf : ∀ s, ChanOp (f s)) :
    ∀ (todo done : List Src) (b : Bay), (∀ s ∈ todo, s ∈ σ.addrs ∧ f s (old s) = .ok (tgt s)) →
      (∀ s ∈ σ.addrs, b.chans[σ.idx s]? = some (if s ∈ done then tgt s else old s)) →
      ∃ b1, Bay.Writes (σ.okP (fun _ => True)) b b1 ∧
        ∀ s ∈ σ.addrs, b1.chans[σ.idx s]? = some (if s ∈ done ∨ s ∈ todo then tgt s else old s) := by
  intro todo
  induction todo with
  | nil =>
    intro done b _ hb
    exact ⟨b, .nil b, by simpa using hb⟩
  | cons s todo ih =>
    intro done b htodo hb
    have hrest : ∀ s' ∈ todo, s' ∈ σ.addrs ∧ f s' (old s') = .ok (tgt s') :=
      fun s' h' => htodo s' (by simp [h'])
    by_cases hd : s ∈ done
    · obtain ⟨b1, hw, h1⟩ := ih done b hrest hb
      refine ⟨b1, hw, fun s' hs' => ?_⟩
      rw [h1 s' hs']
      by_cases e : s' = s
      · subst e; simp [hd]
      · simp [e]
    · obtain ⟨hmem, hfs⟩ := htodo s (by simp)
      have h0 := hb s hmem
      simp only [hd, if_false] at h0
      obtain ⟨b', hw, hw1, hw2⟩ := Bay.write1 h0 hfs
      obtain ⟨b1, hws, h1⟩ := ih (s :: done) b' hrest (by
        intro s' hs'
        by_cases e : s' = s
        · subst e; simp [hw1]
        · rw [hw2 _ (fun e' => e (σ.idx_inj hs' hmem e')), hb s' hs']
          simp [e])
      refine ⟨b1, (Bay.Writes.snoc (c := σ.idx s) (.nil b) ⟨s, hmem, trivial, rfl⟩ (hf s) hw).trans hws, fun s' hs' => ?_⟩
      rw [h1 s' hs']
      simp only [List.mem_cons]
      by_cases e : s' = s
      · subst e; simp
      · simp [e]

/-- the operation `model_*_connect` performs on source `s` -/
def Shape.initOp (σ : Shape) : Src → Chan → Except Err Chan
  | .raw _ k i => match σ.specs[k]? with
    | some m => match m.initOf i with
      | some v => (·.set (.int v))
      | none => pure
    | none => pure
  | _ => pure

def Shape.hasInit (σ : Shape) : Src → Bool
  | .raw _ k i => match σ.specs[k]? with
    | some m => (m.initOf i).isSome
    | none => false
  | _ => false

theorem chanOp_pure : ChanOp (pure : Chan → Except Err Chan) := by
  intro ch ch' h
  cases h
  exact ⟨Or.inl rfl, rfl, rfl, rfl, rfl⟩

theorem Shape.initOp_chanOp (σ : Shape) (s : Src) : ChanOp (σ.initOp s) := by
  cases s with
  | raw g k i =>
    simp only [Shape.initOp]
    cases σ.specs[k]? with
    | none => exact chanOp_pure
    | some m =>
      simp only
      cases m.initOf i with
      | none => exact chanOp_pure
      | some v => exact chanOp_set _
  | _ => exact chanOp_pure

/-- The channels a model initialises at connect time are single channels. -/
def InitSingle (specs : List ModelSpec) : Prop :=
  ∀ m ∈ specs, ∀ (i : Nat) (v : Int), m.initOf i = some v → m.chanStack.getD i false = false

theorem initSingle_allSpecs (enabled : List Nat) :
    InitSingle (allSpecs.filter (fun s => enabled.contains s.char)) := by
  intro m hm i v hv
  have hm' : m ∈ allSpecs := (List.mem_filter.mp hm).1
  have key : ∀ m ∈ allSpecs, ∀ x ∈ m.initVals, m.chanStack.getD x.1 false = false := by decide
  unfold ModelSpec.initOf at hv
  cases hf : m.initVals.find? (·.1 == i) with
  | none => rw [hf] at hv; cases hv
  | some x =>
    have h1 := key m hm' x (List.mem_of_find?_eq_some hf)
    have h2' : (x.1 == i) = true := List.find?_some (p := fun x : Nat × Int => x.1 == i) hf
    have h2 : x.1 = i := eq_of_beq h2'
    rw [← h2]; exact h1

/-- **Simulation of the connect-time writes.** -/
theorem sim_init (threads : List (Int × Int × Nat)) (cpus : List (Nat × Int × Bool)) (enabled : List Nat)
    (lint : Bool) (extra : List ModelSpec)
    (hinit : InitSingle (allSpecs.filter (fun s => enabled.contains s.char) ++ extra)) :
    Sim (mkEmuWith ModelSpec.protoChans threads cpus enabled lint extra)
      (mkEmuWith ModelSpec.dirtyChans threads cpus enabled lint extra) := by
  intro hs
  have hsh : ∀ fc, (mkEmuWith fc threads cpus enabled lint extra).shape =
      (mkEmuWith ModelSpec.protoChans threads cpus enabled lint extra).shape := by
    intro fc; rw [mkEmuWith_shape, mkEmuWith_shape]
  refine ⟨mkEmuWith_shaped _ _ _ _ _ _ (by intro m; simp [ModelSpec.dirtyChans]) hs.chars, hsh _, ?_⟩
  intro b hm
  generalize hσ : (mkEmuWith ModelSpec.protoChans threads cpus enabled lint extra).shape = σ at *
  have hspecs : σ.specs = allSpecs.filter (fun s => enabled.contains s.char) ++ extra := by
    rw [← hσ, mkEmuWith_shape]
  -- values before / after
  let old : Src → Chan := fun s => (srcWith ModelSpec.protoChans σ.specs s).getD {}
  let tgt : Src → Chan := fun s => (srcWith ModelSpec.dirtyChans σ.specs s).getD {}
  have hsome : ∀ (fc : ModelSpec → List Chan), (∀ m, (fc m).length = m.nch) → ∀ s ∈ σ.addrs,
      srcWith fc σ.specs s = some ((srcWith fc σ.specs s).getD {}) := by
    intro fc hlen s hs'
    cases s with
    | raw g k i =>
      obtain ⟨_, m, hk, hi⟩ := (σ.mem_raw g k i).mp hs'
      simp only [srcWith, hk]
      rw [List.getElem?_eq_getElem (by rw [hlen]; exact hi)]; rfl
    | _ => rfl
  have hold : ∀ s ∈ σ.addrs, b.chans[σ.idx s]? = some (old s) := by
    intro s hs'
    have h1 := mkEmuWith_src ModelSpec.protoChans threads cpus enabled lint extra s (by rw [hσ]; exact hs')
    rw [← hspecs, hsome _ (by intro m; simp [ModelSpec.protoChans]) s hs'] at h1
    have := hm s _ h1
    rw [hσ] at this; exact this
  have hnew : ∀ s ∈ σ.addrs, (mkEmuWith ModelSpec.dirtyChans threads cpus enabled lint extra).src s =
      some (tgt s) := by
    intro s hs'
    have h1 := mkEmuWith_src ModelSpec.dirtyChans threads cpus enabled lint extra s (by rw [hsh]; exact hs')
    rw [← hspecs, hsome _ (by intro m; simp [ModelSpec.dirtyChans]) s hs'] at h1
    exact h1
  -- the operation on every source with an initial value
  have hop : ∀ s ∈ σ.addrs, σ.hasInit s = true → σ.initOp s (old s) = .ok (tgt s) := by
    intro s hs' hi
    cases s with
    | raw g k i =>
      obtain ⟨_, m, hk, hilt⟩ := (σ.mem_raw g k i).mp hs'
      simp only [Shape.hasInit, hk] at hi
      cases hv : m.initOf i with
      | none => rw [hv] at hi; cases hi
      | some v =>
        have hmm : m ∈ allSpecs.filter (fun s => enabled.contains s.char) ++ extra := by
          rw [← hspecs]; exact List.mem_of_getElem? hk
        have hst := hinit m hmm i v hv
        simp only [Shape.initOp, hk, hv, old, tgt, srcWith, ModelSpec.protoChans, ModelSpec.dirtyChans,
          List.getElem?_map, List.getElem?_range hilt, Option.map_some, Option.getD_some,
          ModelSpec.dirtyChan, ModelSpec.protoChan, Chan.set, hst]
        simp
    | _ => simp [Shape.hasInit] at hi
  have hsame : ∀ s ∈ σ.addrs, σ.hasInit s = false → tgt s = old s := by
    intro s hs' hi
    cases s with
    | raw g k i =>
      obtain ⟨_, m, hk, hilt⟩ := (σ.mem_raw g k i).mp hs'
      simp only [Shape.hasInit, hk] at hi
      cases hv : m.initOf i with
      | some v => rw [hv] at hi; cases hi
      | none =>
        simp only [old, tgt, srcWith, hk, ModelSpec.protoChans, ModelSpec.dirtyChans,
          List.getElem?_map, List.getElem?_range hilt, Option.map_some, Option.getD_some,
          ModelSpec.dirtyChan, hv]
    | _ => rfl
  obtain ⟨b1, hw, h1⟩ := σ.init_writes old tgt σ.initOp σ.initOp_chanOp (σ.addrs.filter σ.hasInit) [] b
    (by
      intro s hs'
      obtain ⟨h1, h2⟩ := List.mem_filter.mp hs'
      exact ⟨h1, hop s h1 h2⟩)
    (by intro s hs'; simpa using hold s hs')
  refine ⟨b1, hw, ?_⟩
  intro s ch hsrc
  have hmem : s ∈ σ.addrs := by
    have := (mkEmuWith_shaped ModelSpec.dirtyChans threads cpus enabled lint extra
      (by intro m; simp [ModelSpec.dirtyChans]) hs.chars).src_mem hsrc
    rw [hsh] at this; exact this
  rw [hnew s hmem] at hsrc
  cases hsrc
  rw [hsh, h1 s hmem]
  by_cases hi : σ.hasInit s = true
  · simp [List.mem_filter, hmem, hi]
  · have : σ.hasInit s = false := by simpa using hi
    simp [List.mem_filter, this, hsame s hmem this]

/-! ### the initial invariant -/

/-- The freshly connected bay and the emulator before the connect-time writes. -/
theorem Inv.connected {e : Emu} {b0 : Bay} (hc : e.shape.connect = .ok b0) (hs : Shaped e)
    (hnt : 0 < e.threads.length) (hsrc : ∀ s ∈ e.shape.addrs, e.src s = some (e.shape.proto s)) :
    Inv b0 e b0 := by
  have hb := Shape.connect_built hc
  have hmir : Mirrors e b0 := by
    intro s ch h
    have hmem := hs.src_mem h
    rw [hsrc s hmem] at h; cases h
    rw [hb.src _ (e.shape.idx_lt hmem)]; exact e.shape.bay0_src hmem
  have hclean : b0.Clean := by
    refine ⟨hb.dirty, fun c => ?_⟩
    cases hx : (b0.chan c).dirty
    · rfl
    · have := (hb.topo.wf.dirtyIff c).mpr hx
      rw [hb.dirty] at this; cases this
  refine ⟨hb.topo.wf, rfl, rfl, hclean, ?_, hmir, ?_, fun _ _ => rfl⟩
  · constructor
    · intro mi m i hm hi
      have ht := hb.isTrack hm
      cases ht with
      | th g k i' ms out _ _ _ _ =>
        have : i = 0 := by simpa using hi
        subst this; exact ⟨_, rfl⟩
      | cpu c k i' ms out _ _ _ =>
        simp only [List.length_map] at hi
        exact ⟨_, by simp only [List.getElem?_map, List.getElem?_eq_getElem hi]; rfl⟩
    · intro mi m j hm hj
      have := hb.selZero mi j hj
      subst this
      have ht := hb.isTrack hm
      cases ht with
      | th g k i' ms out _ _ _ _ => simp
      | cpu c k i' ms out _ _ _ => simp [Shape.rawsOf]; exact hnt
    · exact hb.outOk
    · intro mi m hm
      exact selOk_of_mirrors (hb.isTrack hm) hs hmir
    · intro mi m mj m' hm hm'
      have h1 := (hb.topo.layered mi m hm).1
      have h2 := (hb.topo.layered mj m' hm').2.2.1
      omega
  · intro mi m hm
    exact Or.inr ⟨hb.topo.allNull _, hb.topo.allNull _, fun c i => hb.topo.noIn c mi i⟩

/-- **mirrors_init.**  From the connected bay, the connect-time writes and the
    first `bay_propagate` lead to a bay that satisfies `Inv` with `mkEmu …`. -/
theorem Inv.init (threads : List (Int × Int × Nat)) (cpus : List (Nat × Int × Bool)) (enabled : List Nat)
    (lint : Bool) (extra : List ModelSpec) {b0 : Bay}
    (hc : (mkEmu threads cpus enabled lint extra).shape.connect = .ok b0)
    (hnt : 0 < threads.length)
    (hchars : ((allSpecs.filter (fun s => enabled.contains s.char) ++ extra).map (·.char)).Nodup)
    (hinit : InitSingle (allSpecs.filter (fun s => enabled.contains s.char) ++ extra)) :
    Shaped (mkEmu threads cpus enabled lint extra) ∧
    ∃ b1 b2 em, Bay.Writes (· < (mkEmu threads cpus enabled lint extra).shape.L) b0 b1 ∧
      b1.propagate = .ok (b2, em) ∧ Inv b0 (mkEmu threads cpus enabled lint extra) b2 := by
  have hshape : (mkEmuWith ModelSpec.protoChans threads cpus enabled lint extra).shape =
      (mkEmu threads cpus enabled lint extra).shape := by
    rw [mkEmu_eq, mkEmuWith_shape, mkEmuWith_shape]
  have hs0 : Shaped (mkEmuWith ModelSpec.protoChans threads cpus enabled lint extra) :=
    mkEmuWith_shaped _ _ _ _ _ _ (by intro m; simp [ModelSpec.protoChans]) hchars
  rw [← hshape] at hc
  have hi0 : Inv b0 (mkEmuWith ModelSpec.protoChans threads cpus enabled lint extra) b0 := by
    refine Inv.connected hc hs0 (by simpa [mkEmuWith] using hnt) ?_
    intro s hs'
    rw [mkEmuWith_src _ _ _ _ _ _ s hs']
    rw [mkEmuWith_shape] at hs' ⊢
    cases s with
    | raw g k i =>
      obtain ⟨_, m, hk, hi⟩ := (Shape.mem_raw _ g k i).mp hs'
      simp only at hk
      simp only [srcWith, hk, Shape.proto, ModelSpec.protoChans, List.getElem?_map,
        List.getElem?_range hi, Option.map_some]
      rfl
    | _ => rfl
  obtain ⟨hsF, _, b1, b2, em, hw, _, _, hp, hinv⟩ :=
    hi0.step hc hs0 (sim_init threads cpus enabled lint extra hinit)
  rw [mkEmuWith_flushAll] at hsF hinv
  rw [hshape] at hw
  exact ⟨hsF, b1, b2, em, hw.mono (fun _ h => Shape.okP_lt h), hp, hinv⟩

end Ovni.Emu
