import OvniModel.Lemmas.SystemCreate
import OvniModel.Lemmas.SystemFinish

/-! `build` is a function of the union of the metadata (helper lemmas for C15). -/
namespace Ovni.Emu.System

/-! ### The relpath sort -/

def leRel (a b : ThreadPart) : Bool := leStr a.relpath b.relpath

theorem load_perm (ss : List StreamMeta) : (load ss).Perm ss := sortBy_perm _ _

theorem load_map_tp (ss : List StreamMeta) : (load ss).map (·.tp) = sortBy leRel (ss.map (·.tp)) := by
  unfold load
  exact sortBy_map (·.tp) _ leRel (fun _ _ => rfl) ss

/-- Whatever the enumeration order, the sorted thread parts are the same list. -/
theorem load_tp_eq {ss ss' : List StreamMeta} (hp : (ss.map (·.tp)).Perm (ss'.map (·.tp)))
    (hd : RelpathsDistinct ss) : (load ss).map (·.tp) = (load ss').map (·.tp) := by
  rw [load_map_tp, load_map_tp]
  apply sortBy_eq_of_perm
  · intro a b; exact leStr_total _ _
  · intro a b c; exact leStr_trans _ _ _
  · exact hp
  · intro a b ha hb h1 h2
    have heq : a.relpath = b.relpath := leStr_antisymm _ _ h1 h2
    unfold RelpathsDistinct at hd
    have hd' : ((ss.map (·.tp)).map (·.relpath)).Nodup := by
      rw [List.map_map]; exact hd
    exact eq_of_nodup_map hd' ha hb heq

/-- Same union, for lists already in load order. -/
def SameUnionL (l l' : List StreamMeta) : Prop :=
  l.map (·.tp) = l'.map (·.tp) ∧
  SameSet (appFacts l) (appFacts l') ∧
  SameSet (rankFacts l) (rankFacts l') ∧
  SameSet (cpuFacts l) (cpuFacts l')

theorem SameSet.trans {β : Type} {a b c : List β} (h1 : SameSet a b) (h2 : SameSet b c) : SameSet a c :=
  ⟨fun _ hx => h2.1 (h1.1 hx), fun _ hx => h1.2 (h2.2 hx)⟩

theorem SameSet.symm {β : Type} {a b : List β} (h : SameSet a b) : SameSet b a := ⟨h.2, h.1⟩

theorem SameSet.of_perm {β : Type} {a b : List β} (h : a.Perm b) : SameSet a b := ⟨h.subset, h.symm.subset⟩

theorem SameUnion.load {ss ss' : List StreamMeta} (h : SameUnion ss ss') (hd : RelpathsDistinct ss) :
    SameUnionL (load ss) (load ss') := by
  obtain ⟨h1, h2, h3, h4⟩ := h
  have p := load_perm ss
  have p' := load_perm ss'
  refine ⟨load_tp_eq h1 hd, ?_, ?_, ?_⟩
  · exact (SameSet.of_perm (p.flatMap_right appFactsOf)).trans
      (h2.trans (SameSet.of_perm (p'.flatMap_right appFactsOf)).symm)
  · exact (SameSet.of_perm (p.flatMap_right rankFactsOf)).trans
      (h3.trans (SameSet.of_perm (p'.flatMap_right rankFactsOf)).symm)
  · exact (SameSet.of_perm (p.flatMap_right cpuFactsOf)).trans
      (h4.trans (SameSet.of_perm (p'.flatMap_right cpuFactsOf)).symm)

theorem SameUnionL.symm {l l' : List StreamMeta} (h : SameUnionL l l') : SameUnionL l' l :=
  ⟨h.1.symm, h.2.1.symm, h.2.2.1.symm, h.2.2.2.symm⟩

/-! ### Contradictions are a property of the union -/

theorem CreateOK.transfer {l l' : List StreamMeta} (h : CreateOK l) (hu : SameUnionL l l') : CreateOK l' := by
  obtain ⟨k1, k2, k3, k4, k5⟩ := h
  obtain ⟨u1, u2, u3, u4⟩ := hu
  refine ⟨?_, ?_, k3.mono u2.2, k4.mono u3.2, k5.mono u4.2⟩
  · intro s hs
    have : s.tp ∈ l'.map (·.tp) := List.mem_map.2 ⟨s, hs, rfl⟩
    rw [← u1] at this
    obtain ⟨s0, hs0, he⟩ := List.mem_map.1 this
    rw [← he]; exact k1 s0 hs0
  · unfold thrKeys at k2 ⊢
    rw [← u1]; exact k2

theorem IndexOK.transfer {l l' : List StreamMeta} (h : IndexOK (cpuFacts l)) (hu : SameUnionL l l') :
    IndexOK (cpuFacts l') := h.mono hu.2.2.2.2

/-! ### Two successful merges of the same union end in equivalent tables -/

theorem list_eq_of_map_eq {β γ : Type} (k : β → γ) :
    ∀ (l l' : List β), l.map k = l'.map k → (∀ p ∈ l, ∀ q ∈ l', k p = k q → p = q) → l = l' := by
  intro l
  induction l with
  | nil => intro l' h _; cases l' with
    | nil => rfl
    | cons _ _ => simp at h
  | cons x xs ih =>
    intro l' h hq
    cases l' with
    | nil => simp at h
    | cons y ys =>
      simp only [List.map_cons, List.cons.injEq] at h
      have := hq x List.mem_cons_self y List.mem_cons_self h.1
      subst this
      congr 1
      exact ih ys h.2 (fun p hp q hq' => hq p (List.mem_cons_of_mem _ hp) q (List.mem_cons_of_mem _ hq'))

theorem procRow_determined {A A' : List AFact} {R R' : List RFact} {procs procs' : List ProcRow}
    (inv : ProcInv A R procs) (inv' : ProcInv A' R' procs') (hA : SameSet A A') (hR : SameSet R R')
    {p q : ProcRow} (hp : p ∈ procs) (hq : q ∈ procs') (hk : pkey p = pkey q) : p = q := by
  simp only [pkey, Prod.mk.injEq] at hk
  obtain ⟨k1, k2⟩ := hk
  have happ : p.appid = q.appid := by
    rcases inv.soundApp p hp with h | ⟨h, h0⟩
    · rcases inv'.soundApp q hq with h' | ⟨h', h0'⟩
      · rw [h, h']
      · obtain ⟨_, p', hp', e1, e2, e3⟩ := inv.completeApp _ _ _ (hA.2 h')
        have := inv.key_inj hp' hp (by rw [e1, k1]) (by rw [e2, k2])
        subst this
        omega
    · obtain ⟨_, q', hq', e1, e2, e3⟩ := inv'.completeApp _ _ _ (hA.1 h)
      have := inv'.key_inj hq' hq (by rw [e1, k1]) (by rw [e2, k2])
      subst this
      exact e3.symm
  have hrank : p.rank = q.rank ∧ p.nranks = q.nranks := by
    rcases inv.soundRank p hp with h | ⟨h, h0, h1⟩
    · rcases inv'.soundRank q hq with h' | ⟨h', h0', h1'⟩
      · exact ⟨by rw [h.1, h'.1], by rw [h.2, h'.2]⟩
      · obtain ⟨p', hp', e1, e2, e3, e4, _⟩ := inv.completeRank _ _ _ _ (hR.2 h')
        have := inv.key_inj hp' hp (by rw [e1, k1]) (by rw [e2, k2])
        subst this
        omega
    · obtain ⟨q', hq', e1, e2, e3, e4, _⟩ := inv'.completeRank _ _ _ _ (hR.1 h)
      have := inv'.key_inj hq' hq (by rw [e1, k1]) (by rw [e2, k2])
      subst this
      exact ⟨e3.symm, Option.some.inj e4⟩
  cases p; cases q
  simp only at k1 k2 happ hrank
  simp [k1, k2, happ, hrank.1, hrank.2]

theorem cpus_perm {F F' : List CFact} {cpus cpus' : List CpuRow}
    (inv : CpuInv F cpus) (inv' : CpuInv F' cpus') (hF : SameSet F F') : cpus.Perm cpus' := by
  have nd : ∀ {G : List CFact} {cs : List CpuRow}, CpuInv G cs → cs.Nodup := by
    intro G cs i
    exact i.nodup.imp (fun {a b} h heq => h (by rw [heq]; exact ⟨rfl, rfl⟩))
  rw [List.perm_ext_iff_of_nodup (nd inv) (nd inv')]
  intro c
  constructor
  · intro hc
    have := inv'.complete c.loom c.index c.phyid (hF.1 (inv.sound c hc).1)
    exact this
  · intro hc
    have := inv.complete c.loom c.index c.phyid (hF.2 (inv'.sound c hc).1)
    exact this

/-- Both merges succeeded on the same union: `finish` sees the same thing. -/
theorem finish_eq_of_sameUnion {l l' : List StreamMeta} {sys sys' : Sys}
    (inv : Inv l sys) (inv' : Inv l' sys') (hu : SameUnionL l l') : finish sys = finish sys' := by
  have hsk : skel sys = skel sys' := by rw [inv.skelEq, inv'.skelEq, hu.1]
  simp only [skel, Prod.mk.injEq] at hsk
  obtain ⟨s1, s2, s3⟩ := hsk
  have hprocs : sys.procs = sys'.procs :=
    list_eq_of_map_eq pkey _ _ s2 (fun p hp q hq hk =>
      procRow_determined inv.procs inv'.procs hu.2.1 hu.2.2.1 hp hq hk)
  have hcp := cpus_perm inv.cpus inv'.cpus hu.2.2.2
  exact finish_congr s1 hprocs s3 (sortedCpus_perm hcp inv.cpus.nodup)

/-! ### A successful `finish` rules out an index bound to two physical ids -/

theorem mkLoom_cpus {sys : Sys} {n : Str} {l : HLoom} (h : mkLoom sys n = .ok l) :
    l.cpus = sortedCpus sys n := by
  unfold mkLoom at h
  simp only at h
  split at h
  · cases h
  · cases h; rfl

/-- Every loom of the table appears in the hierarchy, built by `mkLoom` and
    accepted by `loom_init_end`; and conversely. -/
theorem finish_ok_looms {sys : Sys} {h : Hier} (hf : finish sys = .ok h) :
    (∀ n ∈ sys.looms, ∃ l ∈ h.looms, mkLoom sys n = .ok l ∧ initEndLoom l = .ok ()) ∧
    (∀ l ∈ h.looms, l.name ∈ sys.looms ∧ mkLoom sys l.name = .ok l ∧ initEndLoom l = .ok ()) := by
  obtain ⟨ls, h1, h2, h3, _⟩ := finish_ok hf
  obtain ⟨m1, m2⟩ := mkLooms_ok _ h1
  have hperm : h.looms.Perm ls := by rw [h2]; exact sortLooms_perm ls
  have hie := initEnd_ok _ h3
  constructor
  · intro n hn
    rw [← m1] at hn
    obtain ⟨l, hl, hname⟩ := List.mem_map.1 hn
    have hl' := hperm.mem_iff.2 hl
    refine ⟨l, hl', ?_, hie l hl'⟩
    rw [← hname]; exact m2 l hl
  · intro l hl
    have hl' := hperm.mem_iff.1 hl
    refine ⟨?_, m2 l hl', hie l hl⟩
    rw [← m1]; exact List.mem_map.2 ⟨l, hl', rfl⟩

theorem mem_sortedCpus {sys : Sys} {n : Str} {c : CpuRow} :
    c ∈ sortedCpus sys n ↔ c ∈ sys.cpus ∧ c.loom = n := by
  unfold sortedCpus
  rw [mem_sortBy, List.mem_filter]
  simp

theorem finish_ok_IndexOK {l : List StreamMeta} {sys : Sys} {h : Hier}
    (inv : Inv l sys) (hf : finish sys = .ok h) : IndexOK (cpuFacts l) := by
  intro n i p p' h1 h2
  have m1 := inv.cpus.complete n i p h1
  have m2 := inv.cpus.complete n i p' h2
  have hn := inv.cpuLoom _ m1
  obtain ⟨hl, hlm, hmk, hie⟩ := (finish_ok_looms hf).1 n hn
  obtain ⟨_, _, _, hnd⟩ := initEndLoom_ok hie
  rw [mkLoom_cpus hmk] at hnd
  have := eq_of_nodup_map hnd (mem_sortedCpus.2 ⟨m1, rfl⟩) (mem_sortedCpus.2 ⟨m2, rfl⟩) rfl
  injection this

end Ovni.Emu.System
