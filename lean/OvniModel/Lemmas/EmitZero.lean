import OvniModel.Lemmas.EmitBay
import OvniModel.Lemmas.BayBuild
import OvniModel.Emu.Basic

/-
  C06 (emit side): registrations WITH `PRV_ZERO`.

  `emit_vs_view` / `Bay.emit_step` (EmitReg.lean, EmitBay.lean) ask for
  `NoZero r.flags` on every registration.  It is used once: a changed channel
  value (`vo ≠ vn`) then gives a changed Paraver value, so the line `emitView`
  writes is *effective*.  With `PRV_ZERO` this fails: null and `int 0` both
  convert to 0; `emitView null (int 0)` writes a line with value 0 that repeats
  what the row shows — and so does `emit`.  Hence the general statement: the
  lines of `emitView` and the lines of `emit` have the same EFFECTIVE lines.
-/
set_option linter.unusedSimpArgs false
namespace Ovni.Emu
open Ovni.Generated

/-- **One registration, one event, `PRV_ZERO` allowed.**  As `emit_vs_view`
    without `NoZero`: `emitView` and `emit` write the same lines that change the
    row (both may write one line repeating `tv`). -/
theorem emit_vs_view_zero {r : PrvReg} {d : Bool} {lv : Option Value} {vo vn : Value} {tv : Int}
    (hdup : DupOk r.flags) (hlv : LvOk r.flags lv vo)
    (htv : prvValue r.flags vo = .ok tv) (hd : d = false → vn = vo) :
    (∀ x, emitView r.file r.row r.type r.flags vo vn = .error x → emitIf r d lv vn = .error x) ∧
    (∀ x, emitIf r d lv vn = .error x → emitView r.file r.row r.type r.flags vo vn = .error x) ∧
    (∀ m, emitView r.file r.row r.type r.flags vo vn = .ok m →
      ∃ lv' c, emitIf r d lv vn = .ok (lv', c) ∧ LvOk r.flags lv' vn ∧
        prvValue r.flags vn = .ok (tvNew tv c) ∧
        m.filter (fun l => l.value != tv) = c.filter (fun l => l.value != tv) ∧ m.length ≤ 1 ∧
        c.length ≤ 1) := by
  by_cases hvv : vo = vn
  · -- the value did not change
    subst hvv
    rw [emitView_same]
    refine ⟨fun x h => (by cases h), ?_, ?_⟩
    · intro x h
      exfalso
      unfold emitIf at h
      cases d with
      | false => simp at h
      | true =>
        simp only [if_true] at h
        unfold emitOne at h
        by_cases he : hasFlag r.flags prvEmitDup = true
        · simp only [he, if_true, emitWrite_ok htv] at h; cases h
        · simp only [he, if_false] at h
          by_cases hl : lv = some vo
          · simp only [hl, if_true] at h
            by_cases h1 : hasFlag r.flags prvSkipDup = true
            · simp only [h1, if_true] at h; cases h
            · simp only [h1, if_false] at h
              have h2 : hasFlag r.flags prvSkipDupNull = true := by
                rcases hdup with h | h | h
                · exact absurd h he
                · exact absurd h h1
                · exact h
              simp only [h2, if_true] at h
              by_cases hn : vo = Value.null
              · rw [if_pos hn] at h; cases h
              · rw [if_neg hn, emitWrite_ok htv] at h; cases h
          · simp only [hl, if_false, emitWrite_ok htv] at h; cases h
    · intro m hm
      injection hm with hm; subst hm
      unfold emitIf
      cases d with
      | false => exact ⟨lv, [], rfl, hlv, htv, rfl, by simp, by simp⟩
      | true =>
        simp only [if_true]
        have hfil : ([] : List PrvRec).filter (fun l => l.value != tv) =
            ([r.line tv] : List PrvRec).filter (fun l => l.value != tv) := by
          simp [PrvReg.line]
        unfold emitOne
        by_cases he : hasFlag r.flags prvEmitDup = true
        · simp only [he, if_true, emitWrite_ok htv]
          exact ⟨lv, _, rfl, hlv, htv, hfil, by simp, by simp⟩
        · simp only [he, if_false]
          by_cases hl : lv = some vo
          · simp only [hl, if_true]
            by_cases h1 : hasFlag r.flags prvSkipDup = true
            · simp only [h1, if_true]
              exact ⟨_, [], rfl, hl ▸ hlv, htv, rfl, by simp, by simp⟩
            · simp only [h1, if_false]
              have h2 : hasFlag r.flags prvSkipDupNull = true := by
                rcases hdup with h | h | h
                · exact absurd h he
                · exact absurd h h1
                · exact h
              simp only [h2, if_true]
              by_cases hn : vo = Value.null
              · rw [if_pos hn]
                exact ⟨_, [], rfl, hl ▸ hlv, htv, rfl, by simp, by simp⟩
              · rw [if_neg hn, emitWrite_ok htv]
                exact ⟨_, _, rfl, ⟨fun h => absurd h he, Or.inr rfl⟩, htv, hfil, by simp, by simp⟩
          · simp only [hl, if_false, emitWrite_ok htv]
            exact ⟨_, _, rfl, ⟨fun h => absurd h he, Or.inr rfl⟩, htv, hfil, by simp, by simp⟩
  · -- the value changed: the channel is dirty and the value is no duplicate
    have hdt : d = true := by
      cases d with
      | true => rfl
      | false => exact absurd (hd rfl).symm hvv
    subst hdt
    have hone : emitIf r true lv vn =
        emitWrite r (if hasFlag r.flags prvEmitDup then lv else some vn) vn := by
      unfold emitIf; simp only [if_true]
      exact emitOne_fresh hlv (Or.inr hvv)
    have hlv' : LvOk r.flags (if hasFlag r.flags prvEmitDup then lv else some vn) vn := by
      by_cases he : hasFlag r.flags prvEmitDup = true
      · simp only [he, if_true]; exact ⟨fun _ => hlv.1 he, Or.inl (hlv.1 he)⟩
      · simp only [he, if_false]; exact ⟨fun h => absurd h he, Or.inr rfl⟩
    cases hp : prvValue r.flags vn with
    | error y =>
      rw [emitView_ne_error hvv hp, hone, emitWrite_error hp]
      exact ⟨fun x h => (by injection h with h; rw [h]), fun x h => (by injection h with h; rw [h]), fun m h => (by cases h)⟩
    | ok x =>
      rw [emitView_ne_ok hvv hp, hone, emitWrite_ok hp]
      refine ⟨fun _ h => (by cases h), fun _ h => (by cases h), ?_⟩
      intro m hm
      injection hm with hm; subst hm
      -- `emitView` and `emit` write the same line (effective or not)
      exact ⟨_, _, rfl, hlv', rfl, rfl, by simp, by simp⟩

/-! ### the view records, tagged with the registration that owns the row -/

/-- the records `emitView` gives for the registered channels, tagged with the registration index -/
def Bay.viewLinesT (b : Bay) (regs : List PrvReg) (bF : Bay) : List (Nat × PrvRec) :=
  (List.range regs.length).flatMap fun j =>
    match regs[j]? with
    | some r =>
      (match emitView r.file r.row r.type r.flags (b.chan r.chan).cur (bF.chan r.chan).cur with
       | .ok m => m.map fun l => (j, l)
       | .error _ => [])
    | none => []

theorem map_snd_tag (j : Nat) (m : List PrvRec) : (m.map fun l => (j, l)).map (·.2) = m := by
  rw [List.map_map]
  have : ((fun x : Nat × PrvRec => x.2) ∘ fun l => (j, l)) = id := rfl
  rw [this, List.map_id]

/-- a tagged line of registration `j` is effective iff its value differs from `tvs[j]` -/
theorem filter_effective_tag (tvs : List Int) (j : Nat) (m : List PrvRec) :
    (m.map fun l => (j, l)).filter (effective tvs) =
      (m.filter (fun l => l.value != tvs.getD j 0)).map fun l => (j, l) := by
  rw [List.filter_map]; rfl

/-- `viewRecs` is `viewLinesT` without the tags -/
theorem Bay.viewRecs_eq_viewLinesT {b bF : Bay} {regs : List PrvReg} {vr : List PrvRec}
    (h : b.viewRecs regs bF = .ok vr) : vr = (b.viewLinesT regs bF).map (·.2) := by
  let g : PrvReg → List PrvRec := fun r =>
    match emitView r.file r.row r.type r.flags (b.chan r.chan).cur (bF.chan r.chan).cur with
    | .ok m => m
    | .error _ => []
  have hall : ∀ r ∈ regs, emitView r.file r.row r.type r.flags (b.chan r.chan).cur (bF.chan r.chan).cur =
      .ok (g r) := by
    intro r hr
    obtain ⟨m, hm, _⟩ := collect_ok h _ (List.mem_map.mpr ⟨r, hr, rfl⟩)
    have hg : g r = m := by simp only [g, hm]
    rw [hm, hg]
  have hvr : vr = regs.flatMap g := by
    have : b.viewRecs regs bF = .ok (regs.flatMap g) := by
      unfold Bay.viewRecs
      exact collect_map_ok hall
    rw [this] at h; injection h with h; exact h.symm
  rw [hvr, flatMap_eq_range]
  unfold Bay.viewLinesT
  rw [List.map_flatMap]
  apply flatMap_congr_mem
  intro j hj
  have hjl : j < regs.length := List.mem_range.mp hj
  have hr : regs[j]? = some regs[j] := List.getElem?_eq_getElem hjl
  have hm := hall regs[j] (List.getElem_mem hjl)
  simp only [hr, hm]
  exact (map_snd_tag j _).symm

/-- **One event on a bay with registered channels, `PRV_ZERO` allowed.**  As
    `Bay.emit_step` with only a duplicate policy on every registration: the
    lines `emitView` gives (`viewLinesT`, = `viewRecs` with tags) and the lines
    `Lr` written by `bay_propagate` (in registration order) have the same
    effective lines; both may hold lines repeating what the row shows. -/
theorem Bay.emit_step_zero {ok : Nat → Prop} {b b1 bF : Bay} {em : List (Nat × Value)} {regs : List PrvReg}
    {lvs : List (Option Value)} {tvs : List Int}
    (wf : b.WF) (hw : Bay.Writes ok b b1) (hp : b1.propagate = .ok (bF, em))
    (hinv : EmitInv regs lvs tvs b) (hfl : ∀ r ∈ regs, DupOk r.flags) :
    ((∃ x, b.viewRecs regs bF = .error x) ↔ (∃ y, b1.propagateP regs lvs = .error y)) ∧
    (∀ y, b1.propagateP regs lvs = .error y → y = .prvZero) ∧
    (∀ vr, b.viewRecs regs bF = .ok vr → ∃ lvs' L Lr, b1.propagateP regs lvs = .ok (bF, lvs', L) ∧
      L.Perm Lr ∧ vr = (b.viewLinesT regs bF).map (·.2) ∧
      (b.viewLinesT regs bF).filter (effective tvs) = Lr.filter (effective tvs) ∧
      EmitInv regs lvs' (tvStep tvs L) bF) := by
  obtain ⟨bP, b2, h1, h2, rfl, _⟩ := Bay.propagate_ok hp
  obtain ⟨wf1, _, _, _, _, hclean1⟩ := hw.inv wf
  have wfP : bP.WF := (Bay.dirtyPhase_length wf1 h1).1
  obtain ⟨_, _, hcurF, _⟩ := Bay.flush_result wfP h2
  have hunch := Bay.dirtyPhase_unchanged wf1 h1
  -- the walk `bay_propagate` performs
  have hPP : b1.propagateP regs lvs =
      match emitWalk regs bP (bP.emitSeq regs) lvs with
      | .error e => .error e
      | .ok (lvs', ls) => .ok (({ b2 with dirty := [] } : Bay), lvs', ls) := by
    unfold Bay.propagateP
    simp only [h1]
    cases emitWalk regs bP (bP.emitSeq regs) lvs with
    | error e => rfl
    | ok q => obtain ⟨l1, l2⟩ := q; simp only [h2]
  have hnd : (bP.emitSeq regs).Nodup := Bay.emitSeq_nodup wfP.dirtyNodup regs
  -- per registration
  let dOf : PrvReg → Bool := fun r => decide (r.chan ∈ bP.dirty)
  have hvn : ∀ r : PrvReg, ((({ b2 with dirty := [] } : Bay)).chan r.chan).cur = (bP.chan r.chan).cur :=
    fun r => hcurF r.chan
  have hdz : ∀ r : PrvReg, dOf r = false → (bP.chan r.chan).cur = (b.chan r.chan).cur := by
    intro r hd
    have hnm : r.chan ∉ bP.dirty := by simpa [dOf] using hd
    have hdf : (bP.chan r.chan).dirty = false := by
      cases hx : (bP.chan r.chan).dirty
      · rfl
      · exact absurd ((wfP.dirtyIff _).mpr hx) hnm
    have e1 := hunch _ hdf
    rw [e1] at hdf
    rw [e1, hclean1 _ hdf]
  have hreg : ∀ (j : Nat) (r : PrvReg), regs[j]? = some r →
      (∀ x, emitView r.file r.row r.type r.flags (b.chan r.chan).cur (bP.chan r.chan).cur = .error x →
        emitIf r (dOf r) (lvs.getD j none) (bP.chan r.chan).cur = .error x) ∧
      (∀ x, emitIf r (dOf r) (lvs.getD j none) (bP.chan r.chan).cur = .error x →
        emitView r.file r.row r.type r.flags (b.chan r.chan).cur (bP.chan r.chan).cur = .error x) ∧
      (∀ m, emitView r.file r.row r.type r.flags (b.chan r.chan).cur (bP.chan r.chan).cur = .ok m →
        ∃ lv' c, emitIf r (dOf r) (lvs.getD j none) (bP.chan r.chan).cur = .ok (lv', c) ∧
          LvOk r.flags lv' (bP.chan r.chan).cur ∧ prvValue r.flags (bP.chan r.chan).cur = .ok (tvNew (tvs.getD j 0) c) ∧
          m.filter (fun l => l.value != tvs.getD j 0) = c.filter (fun l => l.value != tvs.getD j 0) ∧
          m.length ≤ 1 ∧ c.length ≤ 1) := by
    intro j r hr
    have hm : r ∈ regs := List.mem_of_getElem? hr
    exact emit_vs_view_zero (hfl r hm) (hinv.lv j r hr) (hinv.tv j r hr) (hdz r)
  have hjs : ∀ j, j ∈ bP.emitSeq regs ↔ ∃ r, regs[j]? = some r ∧ dOf r = true := by
    intro j; rw [Bay.mem_emitSeq]; simp [dOf]
  have hat : ∀ (j : Nat) (r : PrvReg), regs[j]? = some r → dOf r = true →
      emitAt regs bP lvs j = emitIf r (dOf r) (lvs.getD j none) (bP.chan r.chan).cur := by
    intro j r hr hd
    unfold emitAt emitIf; rw [hr, hd]; rfl
  have hview : ∀ r : PrvReg,
      emitView r.file r.row r.type r.flags (b.chan r.chan).cur ((({ b2 with dirty := [] } : Bay)).chan r.chan).cur =
      emitView r.file r.row r.type r.flags (b.chan r.chan).cur (bP.chan r.chan).cur := fun r => by rw [hvn]
  refine ⟨⟨?_, ?_⟩, ?_, ?_⟩
  · -- `viewRecs` fails ⇒ the walk fails
    rintro ⟨x, hx⟩
    obtain ⟨y, hy, hye⟩ := collect_error' hx
    obtain ⟨r, hr, rfl⟩ := List.mem_map.mp hy
    obtain ⟨j, hj⟩ := List.mem_iff_getElem?.mp hr
    rw [hview] at hye
    have he := (hreg j r hj).1 x hye
    have hd : dOf r = true := by
      cases hdd : dOf r
      · unfold emitIf at he; rw [hdd] at he; simp at he
      · rfl
    rw [hPP]
    cases hwk : emitWalk regs bP (bP.emitSeq regs) lvs with
    | error e => exact ⟨e, rfl⟩
    | ok q =>
      exfalso
      obtain ⟨lvs', L⟩ := q
      obtain ⟨g1, _⟩ := emitWalk_ok regs bP _ lvs lvs' L hnd
        (fun j hj => by
          obtain ⟨r, hr, _⟩ := (hjs j).mp hj
          rw [hinv.lenL]; exact (List.getElem?_eq_some_iff.mp hr).1) hwk
      obtain ⟨lv', ls, q1, _⟩ := g1 j ((hjs j).mpr ⟨r, hj, hd⟩)
      rw [hat j r hj hd, he] at q1; cases q1
  · -- the walk fails ⇒ `viewRecs` fails
    rintro ⟨y, hy⟩
    rw [hPP] at hy
    cases hwk : emitWalk regs bP (bP.emitSeq regs) lvs with
    | ok q => obtain ⟨l1, l2⟩ := q; rw [hwk] at hy; cases hy
    | error e =>
      obtain ⟨j, hj, hje⟩ := emitWalk_error regs bP _ lvs e hnd hwk
      obtain ⟨r, hr, hd⟩ := (hjs j).mp hj
      rw [hat j r hr hd] at hje
      have := (hreg j r hr).2.1 e hje
      unfold Bay.viewRecs
      exact collect_has_error ⟨_, List.mem_map.mpr ⟨r, List.mem_of_getElem? hr, rfl⟩, e, by rw [hview]; exact this⟩
  · intro y hy
    rw [hPP] at hy
    cases hwk : emitWalk regs bP (bP.emitSeq regs) lvs with
    | ok q => obtain ⟨l1, l2⟩ := q; rw [hwk] at hy; cases hy
    | error e =>
      rw [hwk] at hy
      injection hy with hy; subst hy
      obtain ⟨j, hj, hje⟩ := emitWalk_error regs bP _ lvs e hnd hwk
      obtain ⟨r, hr, hd⟩ := (hjs j).mp hj
      unfold emitAt at hje
      rw [hr] at hje
      exact emitOne_error (hfl r (List.mem_of_getElem? hr)) hje
  · intro vr hvr
    -- every `emitView` succeeds, hence every callback
    have hall : ∀ (j : Nat) (r : PrvReg), regs[j]? = some r →
        ∃ m, emitView r.file r.row r.type r.flags (b.chan r.chan).cur (bP.chan r.chan).cur = .ok m := by
      intro j r hr
      obtain ⟨m, hm, _⟩ := collect_ok hvr _ (List.mem_map.mpr ⟨r, List.mem_of_getElem? hr, rfl⟩)
      rw [hview] at hm
      exact ⟨m, hm⟩
    obtain ⟨lvs', L, hwk⟩ := emitWalk_total regs bP (bP.emitSeq regs) lvs hnd (by
      intro j hj
      obtain ⟨r, hr, hd⟩ := (hjs j).mp hj
      obtain ⟨m, hm⟩ := hall j r hr
      obtain ⟨lv', c, hc, _⟩ := (hreg j r hr).2.2 m hm
      exact ⟨(lv', c), by rw [hat j r hr hd]; exact hc⟩)
    obtain ⟨g1, g2, g3, g4⟩ := emitWalk_ok regs bP _ lvs lvs' L hnd
      (fun j hj => by
        obtain ⟨r, hr, _⟩ := (hjs j).mp hj
        rw [hinv.lenL]; exact (List.getElem?_eq_some_iff.mp hr).1) hwk
    -- the lines in registration order
    let filt := (List.range regs.length).filter fun j =>
      match regs[j]? with
      | some r => decide (r.chan ∈ bP.dirty)
      | none => false
    have hperm : (bP.emitSeq regs).Perm filt := Bay.emitSeq_perm wfP.dirtyNodup regs
    refine ⟨lvs', L, filt.flatMap (linesAt regs bP lvs), by rw [hPP, hwk], ?_,
      Bay.viewRecs_eq_viewLinesT hvr, ?_, ?_⟩
    · rw [g4]; exact List.Perm.flatMap_right _ hperm
    · -- the view lines and the written lines have the same effective lines
      unfold Bay.viewLinesT
      rw [List.filter_flatMap, List.filter_flatMap, flatMap_filter]
      apply flatMap_congr_mem
      intro j hj
      have hjl : j < regs.length := List.mem_range.mp hj
      have hr : regs[j]? = some regs[j] := List.getElem?_eq_getElem hjl
      obtain ⟨m, hm⟩ := hall j _ hr
      obtain ⟨lv', c, hc, _, _, hmc, _, _⟩ := (hreg j _ hr).2.2 m hm
      simp only [hr, hvn, hm]
      rw [filter_effective_tag, hmc]
      cases hd : dOf regs[j]
      · have : decide (regs[j].chan ∈ bP.dirty) = false := hd
        simp only [this, Bool.false_eq_true, if_false]
        unfold emitIf at hc; rw [hd] at hc
        simp only [Bool.false_eq_true, if_false] at hc
        injection hc with hc; injection hc with _ hc2
        rw [← hc2]; rfl
      · have : decide (regs[j].chan ∈ bP.dirty) = true := hd
        simp only [this, if_true]
        have hl : linesAt regs bP lvs j = c.map fun l => (j, l) := by
          unfold linesAt; rw [hat j _ hr hd, hc]
        rw [hl, filter_effective_tag]
    · -- the invariant after the event
      have hlenT : (tvStep tvs L).length = regs.length := by rw [tvStep_length]; exact hinv.lenT
      refine ⟨by rw [g3]; exact hinv.lenL, hlenT, ?_, ?_⟩
      · intro j r hr
        rw [hvn]
        obtain ⟨m, hm⟩ := hall j r hr
        obtain ⟨lv', c, hc, hlv, _⟩ := (hreg j r hr).2.2 m hm
        cases hd : dOf r
        · have hnj : j ∉ bP.emitSeq regs := by
            intro hj
            obtain ⟨r', hr', hd'⟩ := (hjs j).mp hj
            rw [hr] at hr'; cases hr'; rw [hd] at hd'; cases hd'
          rw [g2 j hnj]
          unfold emitIf at hc; rw [hd] at hc
          simp only [Bool.false_eq_true, if_false] at hc
          injection hc with hc; injection hc with hc1 _
          rw [hc1]; exact hlv
        · obtain ⟨lv2, ls2, q1, q2⟩ := g1 j ((hjs j).mpr ⟨r, hr, hd⟩)
          rw [hat j r hr hd, hc] at q1
          injection q1 with q1; injection q1 with q1 _
          rw [q2, ← q1]; exact hlv
      · intro j r hr
        rw [hvn]
        obtain ⟨m, hm⟩ := hall j r hr
        obtain ⟨lv', c, hc, _, htv, _, _, hlen⟩ := (hreg j r hr).2.2 m hm
        have hjl : j < tvs.length := by rw [hinv.lenT]; exact (List.getElem?_eq_some_iff.mp hr).1
        have hts := tvStep_flatMap regs bP lvs (bP.emitSeq regs) tvs hnd
          (fun j' hj' => by
            obtain ⟨r', hr', _⟩ := (hjs j').mp hj'
            rw [hinv.lenT]; exact (List.getElem?_eq_some_iff.mp hr').1) j
        rw [g4, hts]
        cases hd : dOf r
        · have hnj : j ∉ bP.emitSeq regs := by
            intro hj
            obtain ⟨r', hr', hd'⟩ := (hjs j).mp hj
            rw [hr] at hr'; cases hr'; rw [hd] at hd'; cases hd'
          simp only [hnj, if_false]
          unfold emitIf at hc; rw [hd] at hc
          simp only [Bool.false_eq_true, if_false] at hc
          injection hc with hc; injection hc with _ hc2
          rw [← hc2] at htv; exact htv
        · have hj : j ∈ bP.emitSeq regs := (hjs j).mpr ⟨r, hr, hd⟩
          simp only [hj, if_true]
          have hl : linesAt regs bP lvs j = c.map fun l => (j, l) := by
            unfold linesAt; rw [hat j r hr hd, hc]
          rw [hl, map_snd_tag]
          exact htv

/-- **Without `PRV_ZERO` every view line is effective**: `emitView` writes only
    when the channel value changed, and then the Paraver value changed
    (`prvValue_inj`).  With `Bay.emit_step_zero` this gives back the statement of
    `Bay.emit_step`: `viewRecs` = the effective lines of `Lr`. -/
theorem Bay.viewLinesT_effective_of_noZero {b bF : Bay} {regs : List PrvReg} {lvs : List (Option Value)}
    {tvs : List Int} (hinv : EmitInv regs lvs tvs b) (hz : ∀ r ∈ regs, NoZero r.flags) :
    (b.viewLinesT regs bF).filter (effective tvs) = b.viewLinesT regs bF := by
  rw [List.filter_eq_self]
  intro x hx
  unfold Bay.viewLinesT at hx
  obtain ⟨j, hj, hx⟩ := List.mem_flatMap.mp hx
  have hjl : j < regs.length := List.mem_range.mp hj
  have hr : regs[j]? = some regs[j] := List.getElem?_eq_getElem hjl
  have hnz := hz regs[j] (List.getElem_mem hjl)
  have htv := hinv.tv j _ hr
  simp only [hr] at hx
  by_cases hvv : (b.chan regs[j].chan).cur = (bF.chan regs[j].chan).cur
  · rw [hvv, emitView_same] at hx; cases hx
  · cases hp : prvValue regs[j].flags (bF.chan regs[j].chan).cur with
    | error e => rw [emitView_ne_error hvv hp] at hx; cases hx
    | ok v =>
      rw [emitView_ne_ok hvv hp] at hx
      simp only [List.map_cons, List.map_nil, List.mem_singleton] at hx
      subst hx
      unfold effective
      simp only [bne_iff_ne, ne_eq]
      intro e
      exact hvv (prvValue_inj hnz htv (e ▸ hp))

/-- the statement of `Bay.emit_step` from `Bay.emit_step_zero`, for `NoZero` registrations -/
theorem Bay.viewRecs_effective_of_noZero {b bF : Bay} {regs : List PrvReg} {lvs : List (Option Value)}
    {tvs : List Int} {vr : List PrvRec} {Lr : List (Nat × PrvRec)} (hinv : EmitInv regs lvs tvs b)
    (hz : ∀ r ∈ regs, NoZero r.flags) (hvr : vr = (b.viewLinesT regs bF).map (·.2))
    (heff : (b.viewLinesT regs bF).filter (effective tvs) = Lr.filter (effective tvs)) :
    vr = (Lr.filter (effective tvs)).map (·.2) := by
  rw [hvr, ← heff, Bay.viewLinesT_effective_of_noZero hinv hz]

/-! ### Non-vacuity: a registration with `PRV_SKIPDUP | PRV_ZERO`

One plain channel (no mux), registered as row 1, type 10, flags 2 + 8.  Event
A writes `int 0` on the all-null bay: the channel value changes (null → 0), so
`emitView` and `emit` both write the line `1:10:0` — which repeats the 0 the
row shows from the start.  Event B writes `int 5`: an effective line. -/

private def unwrapZ {α} (d : α) : Except Err α → α
  | .ok a => a
  | .error _ => d

def ezB0 : Bay := (({} : Bay).register {}).1
def ezRegs : List PrvReg := [⟨0, 0, 1, 10, prvSkipDup + prvZero⟩]
def ezA1 : Bay := unwrapZ ezB0 (ezB0.chanSet 0 (.int 0))
def ezA : Bay × List (Option Value) × List (Nat × PrvRec) :=
  unwrapZ (ezA1, [], []) (ezA1.propagateP ezRegs [none])
def ezB1 : Bay := unwrapZ ezA.1 (ezA.1.chanSet 0 (.int 5))
def ezB : Bay × List (Option Value) × List (Nat × PrvRec) :=
  unwrapZ (ezB1, [], []) (ezB1.propagateP ezRegs ezA.2.1)

example : ezRegs.map (·.flags) = [10] ∧ (∀ r ∈ ezRegs, DupOk r.flags ∧ ¬ NoZero r.flags) := by decide

/-- Event A: the line written has value 0 and is NOT effective; `viewRecs` gives that line. -/
example : ezA1.propagateP ezRegs [none] = .ok ezA ∧ ezA.2.2 = [(0, ⟨0, 1, 10, 0⟩)] ∧
    ezA.2.1 = [some (.int 0)] ∧ effective [0] (0, ⟨0, 1, 10, 0⟩) = false ∧
    ezB0.viewRecs ezRegs ezA.1 = .ok [⟨0, 1, 10, 0⟩] ∧
    ezB0.viewLinesT ezRegs ezA.1 = [(0, ⟨0, 1, 10, 0⟩)] :=
  ⟨by rfl, by decide, by decide, by decide, by decide, by decide⟩

/-- **The conclusion of `Bay.emit_step` is FALSE for this registration**: no
    permutation `Lr` of the lines written has `viewRecs` as its effective lines … -/
example : ¬ ∃ Lr, ezA.2.2.Perm Lr ∧
    ([⟨0, 1, 10, 0⟩] : List PrvRec) = (Lr.filter (effective [0])).map (·.2) := by
  rintro ⟨Lr, hperm, h⟩
  have hA : ezA.2.2 = [(0, ⟨0, 1, 10, 0⟩)] := by decide
  rw [hA] at hperm
  have hLr : Lr = [(0, ⟨0, 1, 10, 0⟩)] := (List.singleton_perm.mp hperm).symm
  subst hLr
  revert h; decide

/-- … while the conclusion of `Bay.emit_step_zero` holds. -/
example : ([⟨0, 1, 10, 0⟩] : List PrvRec) = (ezB0.viewLinesT ezRegs ezA.1).map (·.2) ∧
    (ezB0.viewLinesT ezRegs ezA.1).filter (effective [0]) = ezA.2.2.filter (effective [0]) := by decide

/-- Event B: the value goes from 0 to 5, an effective line on both sides. -/
example : ezB1.propagateP ezRegs ezA.2.1 = .ok ezB ∧ ezB.2.2 = [(0, ⟨0, 1, 10, 5⟩)] ∧
    tvStep [0] ezA.2.2 = [0] ∧ effective [0] (0, ⟨0, 1, 10, 5⟩) = true ∧
    ezA.1.viewRecs ezRegs ezB.1 = .ok [⟨0, 1, 10, 5⟩] ∧
    (ezA.1.viewLinesT ezRegs ezB.1).filter (effective [0]) = ezB.2.2.filter (effective [0]) ∧
    tvStep [0] ezB.2.2 = [5] :=
  ⟨by rfl, by decide, by decide, by decide, by decide, by decide, by decide⟩

/-- `Bay.emit_step_zero` applies to event A (all hypotheses hold), and its
    result — `EmitInv` after event A — is what event B needs. -/
example : ∃ lvs' L, ezA1.propagateP ezRegs [none] = .ok (ezA.1, lvs', L) ∧
    (ezB0.viewLinesT ezRegs ezA.1).filter (effective [0]) ≠ ezB0.viewLinesT ezRegs ezA.1 ∧
    EmitInv ezRegs lvs' (tvStep [0] L) ezA.1 := by
  have hfl : ∀ r ∈ ezRegs, DupOk r.flags := by decide
  have wf0 : ezB0.WF := Bay.WF.empty.register _ rfl
  have hw : Bay.Writes (fun _ => True) ezB0 ezA1 :=
    .snoc (b1 := ezB0) (c := 0) (f := fun x => x.set (.int 0)) (.nil _) trivial (chanOp_set _) (by rfl)
  have hp : ezA1.propagate = .ok (ezA.1, []) := by rfl
  have hinv : EmitInv ezRegs [none] [0] ezB0 := by
    refine ⟨rfl, rfl, ?_, ?_⟩
    · intro j r hr
      match j, hr with
      | 0, hr => injection hr with hr; subst hr; exact ⟨fun _ => rfl, Or.inl rfl⟩
    · intro j r hr
      match j, hr with
      | 0, hr => injection hr with hr; subst hr; rfl
  obtain ⟨_, _, h3⟩ := Bay.emit_step_zero wf0 hw hp hinv hfl
  obtain ⟨lvs', L, _, hpp, _, _, _, hE⟩ :=
    h3 _ (by decide : ezB0.viewRecs ezRegs ezA.1 = .ok [⟨0, 1, 10, 0⟩])
  exact ⟨lvs', L, hpp, by decide, hE⟩

end Ovni.Emu
