import OvniModel.Lemmas.CoreBayIdx

/-
  C20 / C06: the connection jobs are strictly ordered by (model, threads before
  CPUs, thread | CPU, channel index); hence a job's first position
  (`idxOf`) grows with the channel index: the tracks of one CPU and one model
  are created in channel-index order.
-/
namespace Ovni.Emu

def Job.k : Job → Nat
  | .th _ k _ => k
  | .cpu _ k _ => k
def Job.tag : Job → Nat
  | .th _ _ _ => 0
  | .cpu _ _ _ => 1
def Job.u : Job → Nat
  | .th g _ _ => g
  | .cpu c _ _ => c
def Job.i : Job → Nat
  | .th _ _ i => i
  | .cpu _ _ i => i

/-- lexicographic order on (model, thread-or-CPU part, thread | CPU, channel) -/
def Job.lt (a b : Job) : Prop :=
  a.k < b.k ∨ (a.k = b.k ∧ (a.tag < b.tag ∨ (a.tag = b.tag ∧ (a.u < b.u ∨ (a.u = b.u ∧ a.i < b.i)))))

theorem Job.lt_asymm {a b : Job} (h : a.lt b) : ¬ b.lt a := by
  unfold Job.lt at *; omega

theorem Job.lt_irrefl (a : Job) : ¬ a.lt a := by
  unfold Job.lt; omega

theorem zipIdx_pairwise {α} : ∀ (l : List α) (n : Nat),
    (l.zipIdx n).Pairwise (fun a b => a.2 < b.2) := by
  intro l
  induction l with
  | nil => intro n; simp
  | cons a l ih =>
    intro n
    rw [List.zipIdx_cons, List.pairwise_cons]
    refine ⟨?_, ih (n + 1)⟩
    intro x hx
    obtain ⟨y, j⟩ := x
    have := (List.mem_zipIdx hx).1
    simp only; omega

theorem Shape.jobs_pairwise (σ : Shape) : σ.jobs.Pairwise Job.lt := by
  unfold Shape.jobs
  rw [List.pairwise_flatMap]
  constructor
  · intro mk _
    rw [List.pairwise_append]
    refine ⟨?_, ?_, ?_⟩
    · rw [List.pairwise_flatMap]
      constructor
      · intro g _
        rw [List.pairwise_map]
        exact List.pairwise_lt_range.imp (fun {a b} h => by dsimp only [Job.lt, Job.k, Job.tag, Job.u, Job.i]; omega)
      · exact List.pairwise_lt_range.imp (fun {a b} h x hx y hy => by
          obtain ⟨i, _, rfl⟩ := List.mem_map.mp hx
          obtain ⟨j, _, rfl⟩ := List.mem_map.mp hy
          dsimp only [Job.lt, Job.k, Job.tag, Job.u, Job.i]; omega)
    · rw [List.pairwise_flatMap]
      constructor
      · intro g _
        rw [List.pairwise_map]
        exact List.pairwise_lt_range.imp (fun {a b} h => by dsimp only [Job.lt, Job.k, Job.tag, Job.u, Job.i]; omega)
      · exact List.pairwise_lt_range.imp (fun {a b} h x hx y hy => by
          obtain ⟨i, _, rfl⟩ := List.mem_map.mp hx
          obtain ⟨j, _, rfl⟩ := List.mem_map.mp hy
          dsimp only [Job.lt, Job.k, Job.tag, Job.u, Job.i]; omega)
    · intro x hx y hy
      obtain ⟨g, _, hx⟩ := List.mem_flatMap.mp hx
      obtain ⟨i, _, rfl⟩ := List.mem_map.mp hx
      obtain ⟨c, _, hy⟩ := List.mem_flatMap.mp hy
      obtain ⟨j, _, rfl⟩ := List.mem_map.mp hy
      dsimp only [Job.lt, Job.k, Job.tag, Job.u, Job.i]; omega
  · exact (zipIdx_pairwise σ.specs 0).imp (fun {a b} h x hx y hy => by
      have hkx : x.k = a.2 := by
        rcases List.mem_append.mp hx with hx | hx
        · obtain ⟨g, _, hx⟩ := List.mem_flatMap.mp hx
          obtain ⟨i, _, rfl⟩ := List.mem_map.mp hx; rfl
        · obtain ⟨g, _, hx⟩ := List.mem_flatMap.mp hx
          obtain ⟨i, _, rfl⟩ := List.mem_map.mp hx; rfl
      have hky : y.k = b.2 := by
        rcases List.mem_append.mp hy with hy | hy
        · obtain ⟨g, _, hy⟩ := List.mem_flatMap.mp hy
          obtain ⟨i, _, rfl⟩ := List.mem_map.mp hy; rfl
        · obtain ⟨g, _, hy⟩ := List.mem_flatMap.mp hy
          obtain ⟨i, _, rfl⟩ := List.mem_map.mp hy; rfl
      unfold Job.lt; omega)

/-- In a strictly ordered list the smaller element comes first. -/
theorem idxOf_lt_of_pairwise {α} [DecidableEq α] {R : α → α → Prop} (hasym : ∀ a b, R a b → ¬ R b a) :
    ∀ (l : List α), l.Pairwise R → ∀ {a b : α}, a ∈ l → b ∈ l → R a b → l.idxOf a < l.idxOf b := by
  intro l
  induction l with
  | nil => intro _ a b ha; cases ha
  | cons x xs ih =>
    intro hp a b ha hb hab
    rw [List.pairwise_cons] at hp
    have hne : a ≠ b := fun e => hasym a b hab (e ▸ hab)
    rw [List.idxOf_cons, List.idxOf_cons]
    by_cases hxa : x = a
    · subst hxa
      have e1 : (x == x) = true := beq_self_eq_true x
      have e2 : (x == b) = false := beq_eq_false_iff_ne.mpr hne
      simp only [e1, e2, cond_true, cond_false]
      omega
    · have ha' : a ∈ xs := by
        rcases List.mem_cons.mp ha with h | h
        · exact absurd h.symm hxa
        · exact h
      by_cases hxb : x = b
      · subst hxb
        exact absurd (hp.1 a ha') (hasym a x hab)
      · have hb' : b ∈ xs := by
          rcases List.mem_cons.mp hb with h | h
          · exact absurd h.symm hxb
          · exact h
        have e1 : (x == a) = false := beq_eq_false_iff_ne.mpr hxa
        have e2 : (x == b) = false := beq_eq_false_iff_ne.mpr hxb
        simp only [e1, e2, cond_false]
        have := ih hp.2 ha' hb' hab
        omega

/-- The tracks of one CPU and one model are connected in channel-index order. -/
theorem Shape.idxOf_cpu_lt (σ : Shape) {c k i i' : Nat} (h : Job.cpu c k i ∈ σ.jobs)
    (h' : Job.cpu c k i' ∈ σ.jobs) (hi : i < i') :
    σ.jobs.idxOf (Job.cpu c k i) < σ.jobs.idxOf (Job.cpu c k i') :=
  idxOf_lt_of_pairwise (fun _ _ => Job.lt_asymm) _ σ.jobs_pairwise h h'
    (by dsimp only [Job.lt, Job.k, Job.tag, Job.u, Job.i]; omega)

theorem Shape.cpuOut_lt (σ : Shape) {c k i i' : Nat} (h : Job.cpu c k i ∈ σ.jobs)
    (h' : Job.cpu c k i' ∈ σ.jobs) (hi : i < i') : σ.cpuOut c k i < σ.cpuOut c k i' := by
  unfold Shape.cpuOut
  have := σ.idxOf_cpu_lt h h' hi
  omega

end Ovni.Emu
