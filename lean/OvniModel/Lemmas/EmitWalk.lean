import OvniModel.Emu.Emit
import OvniModel.Lemmas.Bay

/-
  C06 (emit side, 1/4): the walk over the emit callbacks in closed form.
  Every callback only touches its own `last_value`, so on a duplicate-free
  call sequence the result is pointwise: callback `j` sees the `last_value` it
  had before the walk.
-/
namespace Ovni.Emu
open Ovni.Generated

/-- What callback `j` does when it is called with the `last_value`s `lvs`. -/
def emitAt (regs : List PrvReg) (b : Bay) (lvs : List (Option Value)) (j : Nat) :
    Except Err (Option Value × List PrvRec) :=
  match regs[j]? with
  | none => .error .other
  | some r => emitOne r (lvs.getD j none) (b.chan r.chan).cur

/-- the tagged lines of callback `j` -/
def linesAt (regs : List PrvReg) (b : Bay) (lvs : List (Option Value)) (j : Nat) : List (Nat × PrvRec) :=
  match emitAt regs b lvs j with
  | .ok (_, ls) => ls.map fun l => (j, l)
  | .error _ => []

theorem emitAt_set_ne (regs : List PrvReg) (b : Bay) (lvs : List (Option Value)) {j j2 : Nat}
    (lv : Option Value) (h : j ≠ j2) : emitAt regs b (lvs.set j lv) j2 = emitAt regs b lvs j2 := by
  unfold emitAt
  cases regs[j2]? with
  | none => rfl
  | some r => simp only [getD_set_ne _ _ _ _ _ h]

theorem linesAt_set_ne (regs : List PrvReg) (b : Bay) (lvs : List (Option Value)) {j j2 : Nat}
    (lv : Option Value) (h : j ≠ j2) : linesAt regs b (lvs.set j lv) j2 = linesAt regs b lvs j2 := by
  unfold linesAt; rw [emitAt_set_ne regs b lvs lv h]

theorem flatMap_congr_mem {α β} {f g : α → List β} : ∀ {l : List α}, (∀ a ∈ l, f a = g a) →
    l.flatMap f = l.flatMap g := by
  intro l
  induction l with
  | nil => intro _; rfl
  | cons a l ih =>
    intro h
    rw [List.flatMap_cons, List.flatMap_cons, h a (by simp), ih (fun x hx => h x (by simp [hx]))]

/-- **Closed form of a successful walk.** -/
theorem emitWalk_ok (regs : List PrvReg) (b : Bay) : ∀ (js : List Nat) (lvs lvs' : List (Option Value))
    (L : List (Nat × PrvRec)), js.Nodup → (∀ j ∈ js, j < lvs.length) →
    emitWalk regs b js lvs = .ok (lvs', L) →
    (∀ j ∈ js, ∃ lv' ls, emitAt regs b lvs j = .ok (lv', ls) ∧ lvs'.getD j none = lv') ∧
    (∀ j, j ∉ js → lvs'.getD j none = lvs.getD j none) ∧ lvs'.length = lvs.length ∧
    L = js.flatMap (linesAt regs b lvs) := by
  intro js
  induction js with
  | nil =>
    intro lvs lvs' L _ _ h
    simp only [emitWalk] at h
    injection h with h; injection h with h1 h2
    subst h1; subst h2
    exact ⟨fun j hj => (by cases hj), fun _ _ => rfl, rfl, rfl⟩
  | cons j js ih =>
    intro lvs lvs' L hnd hlt h
    rw [List.nodup_cons] at hnd
    have hjl : j < lvs.length := hlt j (by simp)
    rw [emitWalk] at h
    cases hr : regs[j]? with
    | none => rw [hr] at h; cases h
    | some r =>
      rw [hr] at h
      simp only at h
      cases he : emitOne r (lvs.getD j none) (b.chan r.chan).cur with
      | error x => rw [he] at h; cases h
      | ok p =>
        obtain ⟨lv1, ls1⟩ := p
        rw [he] at h
        simp only at h
        cases hw : emitWalk regs b js (lvs.set j lv1) with
        | error x => rw [hw] at h; cases h
        | ok q =>
          obtain ⟨lvs2, L2⟩ := q
          rw [hw] at h
          simp only at h
          injection h with h; injection h with h1 h2
          subst h1
          obtain ⟨g1, g2, g3, g4⟩ := ih (lvs.set j lv1) lvs2 L2 hnd.2
            (fun j2 hj2 => by rw [List.length_set]; exact hlt j2 (by simp [hj2])) hw
          have hat : emitAt regs b lvs j = .ok (lv1, ls1) := by unfold emitAt; rw [hr]; exact he
          refine ⟨?_, ?_, by rw [g3, List.length_set], ?_⟩
          · intro j2 hj2
            rcases List.mem_cons.mp hj2 with rfl | hj2
            · refine ⟨lv1, ls1, hat, ?_⟩
              rw [g2 j2 hnd.1, getD_set_eq _ _ _ _ hjl]
            · obtain ⟨lv', ls, q1, q2⟩ := g1 j2 hj2
              have hne : j ≠ j2 := fun e => hnd.1 (by rw [e]; exact hj2)
              rw [emitAt_set_ne regs b lvs lv1 hne] at q1
              exact ⟨lv', ls, q1, q2⟩
          · intro j2 hj2
            have hne : j ≠ j2 := fun e => hj2 (by simp [e])
            rw [g2 j2 (fun hm => hj2 (by simp [hm])), getD_set_ne _ _ _ _ _ hne]
          · rw [← h2, List.flatMap_cons, g4]
            congr 1
            · unfold linesAt; rw [hat]
            · exact flatMap_congr_mem (fun j2 hj2 =>
                linesAt_set_ne regs b lvs lv1 (fun e => hnd.1 (by rw [e]; exact hj2)))

/-- **The walk succeeds when every callback does.** -/
theorem emitWalk_total (regs : List PrvReg) (b : Bay) : ∀ (js : List Nat) (lvs : List (Option Value)),
    js.Nodup → (∀ j ∈ js, ∃ p, emitAt regs b lvs j = .ok p) →
    ∃ lvs' L, emitWalk regs b js lvs = .ok (lvs', L) := by
  intro js
  induction js with
  | nil => intro lvs _ _; exact ⟨lvs, [], rfl⟩
  | cons j js ih =>
    intro lvs hnd hall
    rw [List.nodup_cons] at hnd
    obtain ⟨⟨lv1, ls1⟩, hat⟩ := hall j (by simp)
    unfold emitAt at hat
    cases hr : regs[j]? with
    | none => rw [hr] at hat; cases hat
    | some r =>
      rw [hr] at hat
      simp only at hat
      obtain ⟨lvs2, L2, hw⟩ := ih (lvs.set j lv1) hnd.2 (fun j2 hj2 => by
        rw [emitAt_set_ne regs b lvs lv1 (fun e => hnd.1 (by rw [e]; exact hj2))]
        exact hall j2 (by simp [hj2]))
      refine ⟨lvs2, ls1.map (fun l => (j, l)) ++ L2, ?_⟩
      rw [emitWalk, hr]
      simp only [hat, hw]

/-- **A failing walk has a failing callback**, and the error is that callback's
    (the first failing one in call order). -/
theorem emitWalk_error (regs : List PrvReg) (b : Bay) : ∀ (js : List Nat) (lvs : List (Option Value)) (x : Err),
    js.Nodup → emitWalk regs b js lvs = .error x → ∃ j ∈ js, emitAt regs b lvs j = .error x := by
  intro js
  induction js with
  | nil => intro lvs x _ h; cases h
  | cons j js ih =>
    intro lvs x hnd h
    rw [List.nodup_cons] at hnd
    rw [emitWalk] at h
    cases hr : regs[j]? with
    | none =>
      rw [hr] at h
      injection h with h; subst h
      exact ⟨j, by simp, by unfold emitAt; rw [hr]⟩
    | some r =>
      rw [hr] at h
      simp only at h
      cases he : emitOne r (lvs.getD j none) (b.chan r.chan).cur with
      | error y =>
        rw [he] at h
        injection h with h; subst h
        exact ⟨j, by simp, by unfold emitAt; rw [hr]; exact he⟩
      | ok p =>
        obtain ⟨lv1, ls1⟩ := p
        rw [he] at h
        simp only at h
        cases hw : emitWalk regs b js (lvs.set j lv1) with
        | ok q => rw [hw] at h; cases h
        | error y =>
          rw [hw] at h
          injection h with h; subst h
          obtain ⟨j2, hj2, hat⟩ := ih _ _ hnd.2 hw
          rw [emitAt_set_ne regs b lvs lv1 (fun e => hnd.1 (by rw [e]; exact hj2))] at hat
          exact ⟨j2, by simp [hj2], hat⟩

/-! ### the call sequence -/

theorem mem_emitIdx {regs : List PrvReg} {c j : Nat} :
    j ∈ emitIdx regs c ↔ ∃ r, regs[j]? = some r ∧ r.chan = c := by
  unfold emitIdx
  rw [List.mem_filter, List.mem_range]
  constructor
  · rintro ⟨hlt, h⟩
    rw [List.getElem?_eq_getElem hlt] at h
    exact ⟨regs[j], List.getElem?_eq_getElem hlt, by simpa using h⟩
  · rintro ⟨r, hr, hc⟩
    exact ⟨(List.getElem?_eq_some_iff.mp hr).1, by rw [hr]; simpa using hc⟩

theorem emitIdx_nodup (regs : List PrvReg) (c : Nat) : (emitIdx regs c).Nodup :=
  List.Nodup.sublist List.filter_sublist List.nodup_range

/-- Callback `j` is called iff its channel is on the dirty list. -/
theorem Bay.mem_emitSeq {b : Bay} {regs : List PrvReg} {j : Nat} :
    j ∈ b.emitSeq regs ↔ ∃ r, regs[j]? = some r ∧ r.chan ∈ b.dirty := by
  unfold Bay.emitSeq
  rw [List.mem_flatMap]
  constructor
  · rintro ⟨c, hc, hj⟩
    obtain ⟨r, hr, rfl⟩ := mem_emitIdx.mp hj
    exact ⟨r, hr, hc⟩
  · rintro ⟨r, hr, hc⟩
    exact ⟨r.chan, hc, mem_emitIdx.mpr ⟨r, hr, rfl⟩⟩

/-- … and at most once: the dirty list holds every dirty channel once. -/
theorem Bay.emitSeq_nodup {b : Bay} (hnd : b.dirty.Nodup) (regs : List PrvReg) : (b.emitSeq regs).Nodup := by
  unfold Bay.emitSeq List.Nodup
  rw [List.pairwise_flatMap]
  refine ⟨fun c _ => emitIdx_nodup regs c, ?_⟩
  refine List.Pairwise.imp ?_ hnd
  intro c c' hne j hj j' hj' e
  subst e
  obtain ⟨r, hr, h1⟩ := mem_emitIdx.mp hj
  obtain ⟨r', hr', h2⟩ := mem_emitIdx.mp hj'
  rw [hr] at hr'; cases hr'
  exact hne (h1.symm.trans h2)

/-- The call sequence is a permutation of the registrations of the dirty
    channels in registration order. -/
theorem Bay.emitSeq_perm {b : Bay} (hnd : b.dirty.Nodup) (regs : List PrvReg) :
    (b.emitSeq regs).Perm ((List.range regs.length).filter fun j =>
      match regs[j]? with
      | some r => decide (r.chan ∈ b.dirty)
      | none => false) := by
  apply (List.perm_ext_iff_of_nodup (Bay.emitSeq_nodup hnd regs)
    (List.Nodup.sublist List.filter_sublist List.nodup_range)).mpr
  intro j
  rw [Bay.mem_emitSeq, List.mem_filter, List.mem_range]
  constructor
  · rintro ⟨r, hr, hc⟩
    exact ⟨(List.getElem?_eq_some_iff.mp hr).1, by rw [hr]; simpa using hc⟩
  · rintro ⟨hlt, h⟩
    rw [List.getElem?_eq_getElem hlt] at h
    exact ⟨regs[j], List.getElem?_eq_getElem hlt, by simpa using h⟩

end Ovni.Emu
