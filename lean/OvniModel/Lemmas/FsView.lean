import OvniModel.Lemmas.Fs

/-! The five entries of one thread (stream.obs / stream.json in both trees and
    the ghost log) as a small state machine, and Hoare-style reasoning about
    every prefix of a call list. -/
namespace Ovni.Rt.Fs

structure View where
  ot : Option Node     -- tmp tree stream.obs
  jt : Option Node     -- tmp tree stream.json
  ofn : Option Node    -- final tree stream.obs
  jf : Option Node     -- final tree stream.json
  g : Option Node      -- ghost log

def View.o (v : View) : Root → Option Node
  | .tmp => v.ot
  | .fin => v.ofn

def View.j (v : View) : Root → Option Node
  | .tmp => v.jt
  | .fin => v.jf

def View.empty : View := ⟨none, none, none, none, none⟩

def viewOf (s : Fs) (τ : Nat) : View :=
  ⟨s.get (.file .tmp τ .obs), s.get (.file .tmp τ .json), s.get (.file .fin τ .obs),
   s.get (.file .fin τ .json), s.get (.ghost τ)⟩

def vstep (τ : Nat) (v : View) (op : FOp) : View :=
  ⟨effect op (.file .tmp τ .obs) v.ot, effect op (.file .tmp τ .json) v.jt,
   effect op (.file .fin τ .obs) v.ofn, effect op (.file .fin τ .json) v.jf,
   effect op (.ghost τ) v.g⟩

def vrun (τ : Nat) (v : View) (ops : List FOp) : View := ops.foldl (vstep τ) v

@[simp] theorem vrun_nil (τ : Nat) (v : View) : vrun τ v [] = v := rfl
@[simp] theorem vrun_cons (τ : Nat) (v : View) (op : FOp) (r : List FOp) :
    vrun τ v (op :: r) = vrun τ (vstep τ v op) r := rfl
theorem vrun_append (τ : Nat) (v : View) (a b : List FOp) :
    vrun τ v (a ++ b) = vrun τ (vrun τ v a) b := by simp [vrun, List.foldl_append]

theorem viewOf_apply (s : Fs) (τ : Nat) (op : FOp) : viewOf (apply s op) τ = vstep τ (viewOf s τ) op := by
  simp only [viewOf, vstep]
  rw [get_apply s op (q := .file .tmp τ .obs) rfl, get_apply s op (q := .file .tmp τ .json) rfl,
      get_apply s op (q := .file .fin τ .obs) rfl, get_apply s op (q := .file .fin τ .json) rfl,
      get_apply s op (q := .ghost τ) rfl]

theorem viewOf_run (s : Fs) (τ : Nat) (ops : List FOp) : viewOf (run s ops) τ = vrun τ (viewOf s τ) ops := by
  induction ops generalizing s with
  | nil => rfl
  | cons op r ih =>
    show viewOf (run (apply s op) r) τ = _
    rw [ih, viewOf_apply]; rfl

/-- The five paths of thread τ. -/
def tpaths (τ : Nat) : List Path :=
  [.file .tmp τ .obs, .file .tmp τ .json, .file .fin τ .obs, .file .fin τ .json, .ghost τ]

/-- A call that touches none of the thread's paths. -/
def Foreign (τ : Nat) (op : FOp) : Prop := ∀ q ∈ tpaths τ, q ∉ touch op

theorem vstep_foreign {τ : Nat} {op : FOp} (h : Foreign τ op) (v : View) : vstep τ v op = v := by
  simp only [vstep]
  rw [effect_of_not_touch (h _ (by simp [tpaths])), effect_of_not_touch (h _ (by simp [tpaths])),
      effect_of_not_touch (h _ (by simp [tpaths])), effect_of_not_touch (h _ (by simp [tpaths])),
      effect_of_not_touch (h _ (by simp [tpaths]))]

theorem vrun_foreign {τ : Nat} {ops : List FOp} (h : ∀ op ∈ ops, Foreign τ op) (v : View) : vrun τ v ops = v := by
  induction ops generalizing v with
  | nil => rfl
  | cons op r ih =>
    rw [vrun_cons, vstep_foreign (h op (by simp)), ih (fun x hx => h x (by simp [hx]))]

/-! ### every prefix -/

def VAlways (τ : Nat) (I : View → Prop) (v : View) (ops : List FOp) : Prop :=
  ∀ k, I (vrun τ v (ops.take k))

theorem valways_nil {τ : Nat} {I : View → Prop} {v : View} : VAlways τ I v [] ↔ I v := by
  simp [VAlways]

theorem valways_cons {τ : Nat} {I : View → Prop} {v : View} {op : FOp} {r : List FOp} :
    VAlways τ I v (op :: r) ↔ I v ∧ VAlways τ I (vstep τ v op) r := by
  constructor
  · intro h
    refine ⟨by simpa using h 0, fun k => ?_⟩
    simpa using h (k + 1)
  · intro ⟨h0, h⟩ k
    cases k with
    | zero => simpa using h0
    | succ k => simpa using h k

theorem valways_append {τ : Nat} {I : View → Prop} {v : View} {a b : List FOp} :
    VAlways τ I v (a ++ b) ↔ VAlways τ I v a ∧ VAlways τ I (vrun τ v a) b := by
  induction a generalizing v with
  | nil => simp only [List.nil_append, vrun_nil, valways_nil, iff_and_self]; intro h; simpa using h 0
  | cons op r ih =>
    simp only [List.cons_append, valways_cons, vrun_cons, ih, and_assoc]

theorem valways_foreign {τ : Nat} {I : View → Prop} {v : View} {ops : List FOp}
    (h : ∀ op ∈ ops, Foreign τ op) (hI : I v) : VAlways τ I v ops := by
  intro k
  rw [vrun_foreign (fun op hop => h op (List.mem_of_mem_take hop))]
  exact hI

theorem valways_mono {τ : Nat} {I J : View → Prop} {v : View} {ops : List FOp}
    (hIJ : ∀ v, I v → J v) (h : VAlways τ I v ops) : VAlways τ J v ops := fun k => hIJ _ (h k)

/-! ### every call together with the state it is issued in -/

def VNext (τ : Nat) (R : View → FOp → Prop) (v : View) (ops : List FOp) : Prop :=
  ∀ k op, ops[k]? = some op → R (vrun τ v (ops.take k)) op

theorem vnext_nil {τ : Nat} {R : View → FOp → Prop} {v : View} : VNext τ R v [] := by
  intro k op h; simp at h

theorem vnext_cons {τ : Nat} {R : View → FOp → Prop} {v : View} {op : FOp} {r : List FOp} :
    VNext τ R v (op :: r) ↔ R v op ∧ VNext τ R (vstep τ v op) r := by
  constructor
  · intro h
    refine ⟨by simpa using h 0 op rfl, fun k x hx => ?_⟩
    simpa using h (k + 1) x (by simpa using hx)
  · intro ⟨h0, h⟩ k x hx
    cases k with
    | zero => simp at hx; subst hx; simpa using h0
    | succ k => simpa using h k x (by simpa using hx)

theorem vnext_append {τ : Nat} {R : View → FOp → Prop} {v : View} {a b : List FOp} :
    VNext τ R v (a ++ b) ↔ VNext τ R v a ∧ VNext τ R (vrun τ v a) b := by
  induction a generalizing v with
  | nil => simp [vnext_nil]
  | cons op r ih => simp only [List.cons_append, vnext_cons, vrun_cons, ih, and_assoc]

/-- Calls on which `R` holds in any state. -/
theorem vnext_trivial {τ : Nat} {R : View → FOp → Prop} {v : View} {ops : List FOp}
    (h : ∀ op ∈ ops, ∀ v, R v op) : VNext τ R v ops :=
  fun _ op hk => h op (List.mem_of_getElem? hk) _

theorem vnext_of_valways {τ : Nat} {R : View → FOp → Prop} {I : View → Prop} {v : View} {ops : List FOp}
    (hIR : ∀ v op, I v → R v op) (h : VAlways τ I v ops) : VNext τ R v ops :=
  fun j op _ => hIR _ op (h j)

/-- `{P} ops {Q}` with `I` holding at every intermediate point. -/
def Triple (τ : Nat) (P : View → Prop) (ops : List FOp) (I Q : View → Prop) : Prop :=
  ∀ v, P v → VAlways τ I v ops ∧ Q (vrun τ v ops)

theorem Triple.seq {τ : Nat} {P Q R I : View → Prop} {a b : List FOp}
    (h1 : Triple τ P a I Q) (h2 : Triple τ Q b I R) : Triple τ P (a ++ b) I R := by
  intro v hv
  obtain ⟨a1, q1⟩ := h1 v hv
  obtain ⟨a2, q2⟩ := h2 _ q1
  exact ⟨valways_append.mpr ⟨a1, a2⟩, by rw [vrun_append]; exact q2⟩

theorem Triple.foreign {τ : Nat} {P I : View → Prop} {ops : List FOp}
    (h : ∀ op ∈ ops, Foreign τ op) (hPI : ∀ v, P v → I v) : Triple τ P ops I P := by
  intro v hv
  exact ⟨valways_foreign h (hPI v hv), by rw [vrun_foreign h]; exact hv⟩

theorem Triple.conseq {τ : Nat} {P P' Q Q' I : View → Prop} {ops : List FOp}
    (h : Triple τ P ops I Q) (hp : ∀ v, P' v → P v) (hq : ∀ v, Q v → Q' v) : Triple τ P' ops I Q' := by
  intro v hv
  obtain ⟨a, q⟩ := h v (hp v hv)
  exact ⟨a, hq _ q⟩

end Ovni.Rt.Fs
