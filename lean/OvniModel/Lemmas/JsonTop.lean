import OvniModel.Lemmas.JsonComments

/-! Facts about the top-level `parse`: the internal functions never answer
    `unsup`, writable values are exact, the value parsed at `{`, `[`, `"` is closed. -/
namespace Ovni.Json

theorem Res.bind_ne_unsup {α β : Type} {x : Res α} {g : α → Res β}
    (hx : x ≠ .unsup) (hg : ∀ a, x = .ok a → g a ≠ .unsup) : x.bind g ≠ .unsup := by
  cases x with
  | ok a => exact hg a rfl
  | fail => simp [Res.bind]
  | unsup => exact absurd rfl hx
  | oof => simp [Res.bind]

theorem parseScalar_ne_unsup (s : List Nat) : parseScalar s ≠ .unsup := by
  unfold parseScalar
  split
  · simp
  split
  · split <;> simp
  split
  · split
    · simp
    split <;> simp
  split
  · unfold parseNumber
    apply Res.bind_ne_unsup
    · unfold numCore
      have hb : ∀ neg s t, numBody neg s t ≠ .unsup := by
        intro neg s t
        unfold numBody
        split
        · simp
        split
        · simp
        split
        split
        · simp
        split
        split
        · simp
        split <;> simp
      split
      · exact hb _ _ _
      · split <;> exact hb _ _ _
    · intro a _; simp
  split
  · split <;> simp
  · simp

theorem ne_unsup_all : ∀ f, (∀ n s, parseValue f n s ≠ .unsup) ∧ (∀ n s seen, parseMembers f n s seen ≠ .unsup)
    ∧ (∀ n s, parseElems f n s ≠ .unsup)
  | 0 => by
    refine ⟨?_, ?_, ?_⟩
    · intro n s; rw [parseValue.eq_1]; simp
    · intro n s seen; rw [parseMembers.eq_1]; simp
    · intro n s; rw [parseElems.eq_1]; simp
  | f + 1 => by
    obtain ⟨hV, hM, hE⟩ := ne_unsup_all f
    refine ⟨?_, ?_, ?_⟩
    · intro n s
      rw [parseValue.eq_2]
      split
      · simp
      split
      · simp
      split
      · split
        · simp
        split
        · simp
        · exact Res.bind_ne_unsup (hM _ _ _) (fun a _ => by simp)
      · split
        · split
          · simp
          split
          · simp
          · exact Res.bind_ne_unsup (hE _ _) (fun a _ => by simp)
        · exact parseScalar_ne_unsup _
    · intro n s seen
      rw [parseMembers.eq_2]
      split
      · simp
      split
      · simp
      split
      · simp
      split
      · simp
      refine Res.bind_ne_unsup (hV _ _) (fun a _ => ?_)
      obtain ⟨v, r3⟩ := a
      simp only
      split
      · simp
      split
      · simp
      split
      · exact Res.bind_ne_unsup (hM _ _ _) (fun a _ => by simp)
      · split <;> simp
    · intro n s
      cases s with
      | nil => rw [parseElems.eq_2]; simp
      | cons s0 s1 =>
        rw [parseElems.eq_3]
        refine Res.bind_ne_unsup (hV _ _) (fun a _ => ?_)
        obtain ⟨v, r3⟩ := a
        simp only
        split
        · simp
        split
        · exact Res.bind_ne_unsup (hE _ _) (fun a _ => by simp)
        · split <;> simp

theorem parseValue_ne_unsup (f n : Nat) (s : List Nat) : parseValue f n s ≠ .unsup := (ne_unsup_all f).1 n s

mutual
theorem wr_exact : ∀ (j : Json) (n : Nat), wr n j = true → j.exact = true
  | .null, _, _ => rfl
  | .bool _, _, _ => rfl
  | .number _ _, _, _ => rfl
  | .numberX _, _, h => by simp [wr] at h
  | .string _, _, _ => rfl
  | .array vs, n, h => by
    simp only [wr, Bool.and_eq_true] at h
    simp only [Json.exact]; exact wrElems_exact vs _ h.2
  | .object ms, n, h => by
    simp only [wr, Bool.and_eq_true] at h
    simp only [Json.exact]; exact wrMembers_exact ms _ h.2
theorem wrElems_exact : ∀ (vs : List Json) (n : Nat), wrElems n vs = true → Json.exactList vs = true
  | [], _, _ => rfl
  | v :: vs, n, h => by
    simp only [wrElems, Bool.and_eq_true] at h
    simp only [Json.exactList, Bool.and_eq_true]
    exact ⟨wr_exact v n h.1, wrElems_exact vs n h.2⟩
theorem wrMembers_exact : ∀ (ms : Members) (n : Nat), wrMembers n ms = true → Json.exactMembers ms = true
  | [], _, _ => rfl
  | (k, v) :: ms, n, h => by
    simp only [wrMembers, Bool.and_eq_true] at h
    simp only [Json.exactMembers, Bool.and_eq_true]
    exact ⟨wr_exact v n h.1.2, wrMembers_exact ms n h.2⟩
end

/-- a value that starts with `{`, `[` or `"` is an object, an array or a string -/
theorem closed_of_head {f n a : Nat} {t : List Nat} {v : Json} {r : List Nat}
    (ha : a = 123 ∨ a = 91 ∨ a = 34) (h : parseValue f n (a :: t) = .ok (v, r)) : closed v = true := by
  cases f with
  | zero => rw [parseValue.eq_1] at h; cases h
  | succ f =>
    have hs : isSpace a = false := by rcases ha with rfl | rfl | rfl <;> rfl
    rw [parseValue.eq_2] at h
    split at h
    · cases h
    rw [skipWs_cons_of_not_space hs] at h
    simp only at h
    split at h
    · split at h
      · cases h
      split at h
      · simp only [Res.ok.injEq, Prod.mk.injEq] at h; rw [← h.1]; rfl
      · obtain ⟨⟨ms, rest⟩, _, h2⟩ := Res.bind_eq_ok.1 h
        simp only [Res.ok.injEq, Prod.mk.injEq] at h2; rw [← h2.1]; rfl
    · split at h
      · split at h
        · cases h
        split at h
        · simp only [Res.ok.injEq, Prod.mk.injEq] at h; rw [← h.1]; rfl
        · obtain ⟨⟨vs, rest⟩, _, h2⟩ := Res.bind_eq_ok.1 h
          simp only [Res.ok.injEq, Prod.mk.injEq] at h2; rw [← h2.1]; rfl
      · rename_i h1 h2
        have h34 : a = 34 := by rcases ha with rfl | rfl | rfl <;> first | rfl | exact absurd rfl h1 | exact absurd rfl h2
        subst h34
        simp only [parseScalar, if_true] at h
        split at h
        · simp only [Res.ok.injEq, Prod.mk.injEq] at h; rw [← h.1]; rfl
        · cases h

/-- objects, arrays and strings: the values that end with a closing delimiter -/
def delimited : Json → Bool
  | .object _ => true
  | .array _ => true
  | .string _ => true
  | _ => false

theorem ser_head_delimited {j : Json} (hd : delimited j = true) (lvl : Nat) :
    ∃ a t, ser j lvl = a :: t ∧ (a = 123 ∨ a = 91 ∨ a = 34) := by
  cases j with
  | object ms => cases ms <;> simp only [ser] <;> exact ⟨_, _, rfl, Or.inl rfl⟩
  | array vs => cases vs <;> simp only [ser] <;> exact ⟨_, _, rfl, Or.inr (Or.inl rfl)⟩
  | string s => simp only [ser, serString]; exact ⟨_, _, rfl, Or.inr (Or.inr rfl)⟩
  | null => cases hd
  | bool b => cases hd
  | number n k => cases hd
  | numberX s => cases hd


end Ovni.Json
