import OvniModel.Lemmas.FsView
set_option linter.unusedSimpArgs false

/-! Thread-level invariants of the runtime's call list: what holds of the five
    entries of a thread after every prefix of `threadCalls`. -/
namespace Ovni.Rt.Fs

/-- The file holds exactly what the thread has flushed, nothing pending. -/
def ObsSync (n g : Option Node) : Prop := ∃ d, n = some (.file d []) ∧ flushedOf g = d

/-- In tree `r` the stream is invisible, has no stream.obs, or its
    stream.obs is exactly the flushed bytes. -/
def Safe (v : View) (r : Root) : Prop := v.o r = none ∨ ObsSync (v.o r) v.g ∨ v.j r = none

/-- A complete copy of everything flushed exists in one of the trees. -/
def NoLoss (v : View) : Prop :=
  flushedOf v.g = [] ∨ ∃ r d pn, v.o r = some (.file d pn) ∧ d = flushedOf v.g

/-- Whatever is or may become visible of this stream.json is a prefix of the
    serialisation of metadata without the finished flag. -/
def JUnf (C : Codec) (n : Option Node) : Prop :=
  ∃ d pn m, n = some (.file d pn) ∧ m.finished = false ∧ (d ++ pn) <+: C.ser m

/-- finished can only be visible in the final tree over a complete stream.obs. -/
def Fad (C : Codec) (t : ThreadProg) (v : View) : Prop :=
  v.jf = none ∨ JUnf C v.jf ∨ v.ofn = some (.file t.obsBytes [])

/-- Where the complete copy is: the working stream.obs in the tmp tree has on
    disk exactly the flushed bytes; or it is gone and the final stream.obs has
    them with nothing pending; or nothing has been flushed yet. -/
def Kept (v : View) : Prop :=
  (∃ pn, v.ot = some (.file (flushedOf v.g) pn)) ∨ (v.ot = none ∧ ObsSync v.ofn v.g) ∨ flushedOf v.g = []

theorem Kept.noLoss {v : View} (h : Kept v) : NoLoss v := by
  rcases h with ⟨pn, h⟩ | ⟨_, d, h1, h2⟩ | h
  · exact Or.inr ⟨.tmp, _, pn, h, rfl⟩
  · exact Or.inr ⟨.fin, d, [], h1, h2.symm⟩
  · exact Or.inl h

structure TInv (C : Codec) (t : ThreadProg) (v : View) : Prop where
  safeT : Safe v .tmp
  safeF : Safe v .fin
  fad : Fad C t v
  kept : Kept v

theorem TInv.noLoss {C : Codec} {t : ThreadProg} {v : View} (h : TInv C t v) : NoLoss v := h.kept.noLoss

/-! ### directory-only calls are foreign to every thread -/

theorem tpaths_leaf {τ : Nat} {q : Path} (hq : q ∈ tpaths τ) : q.isLeaf = true := by
  simp [tpaths] at hq
  rcases hq with rfl | rfl | rfl | rfl | rfl <;> rfl

theorem foreign_of_dir {τ : Nat} {op : FOp} (h : ∀ x ∈ touch op, x.isLeaf = false) : Foreign τ op := by
  intro q hq hmem
  have := h q hmem
  rw [tpaths_leaf hq] at this
  cases this

theorem foreign_mkpath (τ : Nat) (comps : List (Path × Bool)) (h : ∀ c ∈ comps, c.1.isLeaf = false) :
    ∀ op ∈ ops (mkpathCalls comps), Foreign τ op := by
  intro op hop
  simp only [ops, mkpathCalls, List.mem_map, List.mem_flatMap] at hop
  obtain ⟨c, ⟨x, hx, hc⟩, rfl⟩ := hop
  have hl := h x hx
  apply foreign_of_dir
  split at hc
  · simp only [List.mem_cons, List.not_mem_nil, or_false] at hc
    rcases hc with rfl | rfl <;> simp [touch, hl]
  · simp only [List.mem_cons, List.not_mem_nil, or_false] at hc
    subst hc
    simp [touch, hl]

theorem ancComps_dir (n : Nat) : ∀ c ∈ ancComps n, c.1.isLeaf = false := by
  induction n with
  | zero => simp [ancComps]
  | succ n ih =>
    intro c hc
    simp only [ancComps, List.mem_cons] at hc
    rcases hc with rfl | hc
    · rfl
    · exact ih c hc

theorem foreign_mkdirProc (τ nAnc : Nat) (r : Root) : ∀ op ∈ ops (mkdirProcCalls nAnc r), Foreign τ op := by
  apply foreign_mkpath
  intro c hc
  simp only [List.mem_append, List.mem_cons, List.not_mem_nil, or_false] at hc
  rcases hc with hc | rfl | rfl | rfl
  · exact ancComps_dir _ c hc
  all_goals rfl

theorem foreign_mkdirThread (τ nAnc : Nat) (r : Root) (tid : Nat) :
    ∀ op ∈ ops (mkdirThreadCalls nAnc r tid), Foreign τ op := by
  apply foreign_mkpath
  intro c hc
  simp only [List.mem_append, List.mem_cons, List.not_mem_nil, or_false] at hc
  rcases hc with hc | rfl | rfl | rfl | rfl
  · exact ancComps_dir _ c hc
  all_goals rfl

theorem foreign_procInit (τ : Nat) (p : Prog) : ∀ op ∈ ops (procInitCalls p), Foreign τ op := by
  intro op hop
  unfold procInitCalls at hop
  split at hop
  · simp only [ops, List.map_append, List.mem_append] at hop
    rcases hop with h | h
    · exact foreign_mkdirProc τ _ _ op h
    · exact foreign_mkdirProc τ _ _ op h
  · exact foreign_mkdirProc τ _ _ op hop

theorem foreign_procFini (τ : Nat) (p : Prog) : ∀ op ∈ ops (procFiniCalls p), Foreign τ op := by
  intro op hop
  unfold procFiniCalls at hop
  split at hop
  · simp only [ops, List.map_cons, List.map_nil, List.mem_cons, List.not_mem_nil, or_false] at hop
    rcases hop with rfl | rfl | rfl <;> (apply foreign_of_dir; simp [touch, Path.isLeaf])
  · simp [ops] at hop

end Ovni.Rt.Fs

namespace Ovni.Rt.Fs

/-! ### symbolic execution helpers -/

abbrev F (d : List Nat) : Option Node := some (.file d [])

theorem junf_open (C : Codec) : JUnf C (some (.file [] [])) :=
  ⟨[], [], ⟨false, 0⟩, rfl, rfl, by simp⟩

theorem junf_pend (C : Codec) (m : Meta) (h : m.finished = false) : JUnf C (some (.file [] (C.ser m))) :=
  ⟨[], C.ser m, m, rfl, h, by simp⟩

theorem junf_done (C : Codec) (m : Meta) (h : m.finished = false) : JUnf C (F (C.ser m)) :=
  ⟨C.ser m, [], m, rfl, h, by simp⟩

/-- `TInv` for a view of the direct-mode shape. -/
theorem tinv_direct (C : Codec) (t : ThreadProg) (o j g : Option Node)
    (ho : o = none ∧ flushedOf g = [] ∨ ObsSync o g) (hj : j = none ∨ JUnf C j ∨ o = F t.obsBytes) :
    TInv C t ⟨none, none, o, j, g⟩ := by
  refine ⟨Or.inl rfl, ?_, hj, ?_⟩
  · rcases ho with ⟨h, _⟩ | h
    · exact Or.inl h
    · exact Or.inr (Or.inl h)
  · rcases ho with ⟨_, h⟩ | h
    · exact Or.inr (Or.inr h)
    · exact Or.inr (Or.inl ⟨rfl, h⟩)

/-- `TInv` for a view of the tmp-mode shape before the relocation. -/
theorem tinv_tmp (C : Codec) (t : ThreadProg) (o j g : Option Node)
    (ho : o = none ∧ flushedOf g = [] ∨ ObsSync o g) :
    TInv C t ⟨o, j, none, none, g⟩ := by
  refine ⟨?_, Or.inl rfl, Or.inl rfl, ?_⟩
  · rcases ho with ⟨h, _⟩ | h
    · exact Or.inl h
    · exact Or.inr (Or.inl h)
  · rcases ho with ⟨_, h⟩ | ⟨d, h1, h2⟩
    · exact Or.inr (Or.inr h)
    · exact Or.inl ⟨[], by rw [h1, h2]⟩

theorem obsSync_F (d : List Nat) : ObsSync (F d) (F d) := ⟨d, rfl, rfl⟩

/-- Unroll a concrete call list on a concrete view. -/
macro "vexec" : tactic => `(tactic|
  (simp only [ops, storeCalls, List.cons_append, List.nil_append, List.append_nil, List.map_cons, List.map_nil, List.map_append,
     valways_cons, valways_nil, vrun_cons, vrun_nil];
   simp only [vstep, effect, View.empty, Path.file.injEq, reduceCtorEq, and_false, false_and, if_false, and_true, true_and,
     if_true, Option.isSome_none, Option.isSome_some, Bool.false_eq_true, addDisk, addPend, flushPend, flushedOf,
     List.nil_append, List.append_nil, List.append_assoc]))

/-! ### direct mode -/

section Direct
variable (C : Codec) (t : ThreadProg)

/-- open, header, initial metadata. -/
theorem init_direct (m : Meta) (hm : m.finished = false) :
    Triple t.tid (· = View.empty)
      (ops ([⟨.openStream, 0, .openW .fin t.tid⟩, ⟨.writeStream, 0, .write .fin t.tid t.hdr⟩]
            ++ storeCalls .fin t.tid (C.ser m)))
      (TInv C t) (· = ⟨none, none, F t.hdr, F (C.ser m), F t.hdr⟩) := by
  intro v hv
  subst hv
  vexec
  repeat' apply And.intro
  · exact tinv_direct C t _ _ _ (Or.inl ⟨rfl, rfl⟩) (Or.inl rfl)
  · exact tinv_direct C t _ _ _ (Or.inr ⟨[], rfl, rfl⟩) (Or.inl rfl)
  · exact tinv_direct C t _ _ _ (Or.inr (obsSync_F _)) (Or.inl rfl)
  · exact tinv_direct C t _ _ _ (Or.inr (obsSync_F _)) (Or.inr (Or.inl (junf_open C)))
  · exact tinv_direct C t _ _ _ (Or.inr (obsSync_F _)) (Or.inr (Or.inl (junf_pend C m hm)))
  · exact tinv_direct C t _ _ _ (Or.inr (obsSync_F _)) (Or.inr (Or.inl (junf_done C m hm)))

/-- The `write`s of one API call. -/
theorem io_direct (chunks : List (List Nat)) (g : List Nat) (j : Option Node) (hj : JUnf C j) :
    Triple t.tid (· = ⟨none, none, F g, j, F g⟩)
      (ops (chunks.map fun d => (⟨.writeStream, 0, .write .fin t.tid d⟩ : Call)))
      (TInv C t) (· = ⟨none, none, F (g ++ chunks.flatten), j, F (g ++ chunks.flatten)⟩) := by
  induction chunks generalizing g with
  | nil =>
    intro v hv; subst hv
    simp only [ops, List.map_nil, valways_nil, vrun_nil, List.flatten_nil, List.append_nil, and_true]
    exact tinv_direct C t _ _ _ (Or.inr (obsSync_F _)) (Or.inr (Or.inl hj))
  | cons d r ih =>
    intro v hv; subst hv
    have := ih (g ++ d) _ rfl
    simp only [ops, List.map_cons, valways_cons, vrun_cons, List.flatten_cons] at this ⊢
    simp only [vstep, effect, Path.file.injEq, reduceCtorEq, and_false, if_false, and_true,
      and_self, if_true, addDisk, flushedOf] at this ⊢
    rw [← List.append_assoc]
    exact ⟨⟨tinv_direct C t _ _ _ (Or.inr (obsSync_F _)) (Or.inr (Or.inl hj)), this.1⟩, this.2⟩

/-- `thread_metadata_store` of unfinished metadata. -/
theorem store_direct (m : Meta) (hm : m.finished = false) (g : List Nat) (j : Option Node) (hj : JUnf C j) :
    Triple t.tid (· = ⟨none, none, F g, j, F g⟩) (ops (storeCalls .fin t.tid (C.ser m)))
      (TInv C t) (· = ⟨none, none, F g, F (C.ser m), F g⟩) := by
  intro v hv; subst hv
  vexec
  repeat' apply And.intro
  · exact tinv_direct C t _ _ _ (Or.inr (obsSync_F _)) (Or.inr (Or.inl hj))
  · exact tinv_direct C t _ _ _ (Or.inr (obsSync_F _)) (Or.inr (Or.inl (junf_open C)))
  · exact tinv_direct C t _ _ _ (Or.inr (obsSync_F _)) (Or.inr (Or.inl (junf_pend C m hm)))
  · exact tinv_direct C t _ _ _ (Or.inr (obsSync_F _)) (Or.inr (Or.inl (junf_done C m hm)))

/-- All API calls between init and free. -/
theorem steps_direct (p : Prog) (hp : p.tmpMode = false) (steps : List PStep) (g : List Nat) (j : Option Node) (hj : JUnf C j) :
    Triple t.tid (· = ⟨none, none, F g, j, F g⟩)
      (ops (steps.flatMap (stepCalls C.ser p t.tid)))
      (TInv C t) (fun v => ∃ j', JUnf C j' ∧ v = ⟨none, none, F (g ++ stepsBytes steps), j', F (g ++ stepsBytes steps)⟩) := by
  have hwr : p.wr = .fin := by simp [Prog.wr, hp]
  induction steps generalizing g j with
  | nil =>
    intro v hv; subst hv
    simp only [List.flatMap_nil, ops, List.map_nil, valways_nil, vrun_nil, stepsBytes, List.append_nil]
    exact ⟨tinv_direct C t _ _ _ (Or.inr (obsSync_F _)) (Or.inr (Or.inl hj)), j, hj, rfl⟩
  | cons st r ih =>
    simp only [List.flatMap_cons, ops, List.map_append]
    cases st with
    | io chunks =>
      simp only [stepCalls, hwr, stepsBytes]
      refine Triple.seq (io_direct C t chunks g j hj) ?_
      rw [← List.append_assoc]
      exact ih _ j hj
    | attrFlush b =>
      simp only [stepCalls, hwr, stepsBytes]
      exact Triple.seq (store_direct C t ⟨false, b⟩ rfl g j hj) (ih _ _ (junf_done C _ rfl))

/-- `ovni_thread_free` in direct mode: final metadata, close. -/
theorem free_direct (j : Option Node) (hj : JUnf C j) (last : Nat) :
    Triple t.tid (· = ⟨none, none, F t.obsBytes, j, F t.obsBytes⟩)
      (ops (storeCalls .fin t.tid (C.ser ⟨true, t.metaF⟩) ++ [⟨.closeStream, 0, .close .fin t.tid last⟩]))
      (TInv C t) (· = ⟨none, none, F t.obsBytes, F (C.ser ⟨true, t.metaF⟩), F t.obsBytes⟩) := by
  intro v hv; subst hv
  vexec
  repeat' apply And.intro
  · exact tinv_direct C t _ _ _ (Or.inr (obsSync_F _)) (Or.inr (Or.inl hj))
  all_goals exact tinv_direct C t _ _ _ (Or.inr (obsSync_F _)) (Or.inr (Or.inr rfl))

end Direct
end Ovni.Rt.Fs

namespace Ovni.Rt.Fs

/-! ### OVNI_TMPDIR mode, up to `close(streamfd)` -/

section Tmp
variable (C : Codec) (t : ThreadProg)

theorem init_tmp (js : List Nat) :
    Triple t.tid (· = View.empty)
      (ops ([⟨.openStream, 0, .openW .tmp t.tid⟩, ⟨.writeStream, 0, .write .tmp t.tid t.hdr⟩]
            ++ storeCalls .tmp t.tid js))
      (TInv C t) (· = ⟨F t.hdr, F js, none, none, F t.hdr⟩) := by
  intro v hv
  subst hv
  vexec
  repeat' apply And.intro
  · exact tinv_tmp C t _ _ _ (Or.inl ⟨rfl, rfl⟩)
  · exact tinv_tmp C t _ _ _ (Or.inr ⟨[], rfl, rfl⟩)
  all_goals exact tinv_tmp C t _ _ _ (Or.inr (obsSync_F _))

theorem io_tmp (chunks : List (List Nat)) (g : List Nat) (j : Option Node) :
    Triple t.tid (· = ⟨F g, j, none, none, F g⟩)
      (ops (chunks.map fun d => (⟨.writeStream, 0, .write .tmp t.tid d⟩ : Call)))
      (TInv C t) (· = ⟨F (g ++ chunks.flatten), j, none, none, F (g ++ chunks.flatten)⟩) := by
  induction chunks generalizing g with
  | nil =>
    intro v hv; subst hv
    simp only [ops, List.map_nil, valways_nil, vrun_nil, List.flatten_nil, List.append_nil, and_true]
    exact tinv_tmp C t _ _ _ (Or.inr (obsSync_F _))
  | cons d r ih =>
    intro v hv; subst hv
    have := ih (g ++ d) _ rfl
    simp only [ops, List.map_cons, valways_cons, vrun_cons, List.flatten_cons] at this ⊢
    simp only [vstep, effect, Path.file.injEq, reduceCtorEq, and_false, if_false, and_true,
      and_self, if_true, addDisk, flushedOf] at this ⊢
    rw [← List.append_assoc]
    exact ⟨⟨tinv_tmp C t _ _ _ (Or.inr (obsSync_F _)), this.1⟩, this.2⟩

theorem store_tmp (js : List Nat) (g : List Nat) (j : Option Node) :
    Triple t.tid (· = ⟨F g, j, none, none, F g⟩) (ops (storeCalls .tmp t.tid js))
      (TInv C t) (· = ⟨F g, F js, none, none, F g⟩) := by
  intro v hv; subst hv
  vexec
  repeat' apply And.intro
  all_goals exact tinv_tmp C t _ _ _ (Or.inr (obsSync_F _))

theorem steps_tmp (p : Prog) (hp : p.tmpMode = true) (steps : List PStep) (g : List Nat) (j : Option Node) :
    Triple t.tid (· = ⟨F g, j, none, none, F g⟩)
      (ops (steps.flatMap (stepCalls C.ser p t.tid)))
      (TInv C t) (fun v => ∃ j', v = ⟨F (g ++ stepsBytes steps), j', none, none, F (g ++ stepsBytes steps)⟩) := by
  have hwr : p.wr = .tmp := by simp [Prog.wr, hp]
  induction steps generalizing g j with
  | nil =>
    intro v hv; subst hv
    simp only [List.flatMap_nil, ops, List.map_nil, valways_nil, vrun_nil, stepsBytes, List.append_nil]
    exact ⟨tinv_tmp C t _ _ _ (Or.inr (obsSync_F _)), j, rfl⟩
  | cons st r ih =>
    simp only [List.flatMap_cons, ops, List.map_append]
    cases st with
    | io chunks =>
      simp only [stepCalls, hwr, stepsBytes]
      refine Triple.seq (io_tmp C t chunks g j) ?_
      rw [← List.append_assoc]
      exact ih _ j
    | attrFlush b =>
      simp only [stepCalls, hwr, stepsBytes]
      exact Triple.seq (store_tmp C t _ g j) (ih _ _)

theorem free_tmp (j : Option Node) (js : List Nat) (g : List Nat) (last : Nat) :
    Triple t.tid (· = ⟨F g, j, none, none, F g⟩)
      (ops (storeCalls .tmp t.tid js ++ [⟨.closeStream, 0, .close .tmp t.tid last⟩]))
      (TInv C t) (· = ⟨F g, F js, none, none, F g⟩) := by
  intro v hv; subst hv
  vexec
  repeat' apply And.intro
  all_goals exact tinv_tmp C t _ _ _ (Or.inr (obsSync_F _))

end Tmp
end Ovni.Rt.Fs

namespace Ovni.Rt.Fs

/-! ### the relocation -/

theorem blocks_flatten (fuel : Nat) (c : List Nat) (h : c.length ≤ fuel) : (blocks fuel c).flatten = c := by
  induction fuel generalizing c with
  | zero =>
    have : c = [] := List.length_eq_zero_iff.mp (Nat.le_zero.mp h)
    subst this; rfl
  | succ n ih =>
    cases c with
    | nil => rfl
    | cons x xs =>
      simp only [blocks, List.flatten_cons]
      rw [ih]
      · exact List.take_append_drop 1024 (x :: xs)
      · simp only [List.length_drop, List.length_cons] at h ⊢; omega

/-- The calls of `move_thread_to_final` without their tags. -/
def moveFileOps (tid : Nat) (n : FName) (c : List Nat) : List FOp :=
  [.fopenR (.file .tmp tid n), .fopenW (.file .fin tid n)]
  ++ (blocks c.length c).flatMap (fun b => [.fread (.file .tmp tid n) b.length, .fwrite (.file .fin tid n) b])
  ++ [.fread (.file .tmp tid n) 0, .fcloseW (.file .fin tid n), .fcloseR (.file .tmp tid n), .remove (.file .tmp tid n)]

theorem ops_moveFile (g tid : Nat) (n : FName) (c : List Nat) :
    ops (moveFileCalls g tid n c) = moveFileOps tid n c := by
  simp only [ops, moveFileCalls, moveFileOps, List.map_append, List.map_cons, List.map_nil, List.map_flatMap]

/-- The fread/fwrite loop copying into the final stream.obs. -/
theorem loop_obs (τ : Nat) (I : View → Prop) (a b d e : Option Node) (hI : ∀ x, I ⟨a, b, x, d, e⟩)
    (bs : List (List Nat)) (pend : List Nat) :
    VAlways τ I ⟨a, b, some (.file [] pend), d, e⟩
        (bs.flatMap fun blk => [.fread (.file .tmp τ .obs) blk.length, .fwrite (.file .fin τ .obs) blk])
    ∧ vrun τ ⟨a, b, some (.file [] pend), d, e⟩
        (bs.flatMap fun blk => [.fread (.file .tmp τ .obs) blk.length, .fwrite (.file .fin τ .obs) blk])
      = ⟨a, b, some (.file [] (pend ++ bs.flatten)), d, e⟩ := by
  induction bs generalizing pend with
  | nil => simp [valways_nil, hI]
  | cons blk r ih =>
    have := ih (pend ++ blk)
    simp only [List.flatMap_cons, List.cons_append, List.nil_append, valways_cons, vrun_cons, List.flatten_cons]
    simp only [vstep, effect, Path.file.injEq, reduceCtorEq, and_false, false_and, if_false, and_true, true_and, if_true, addPend]
    rw [← List.append_assoc]
    exact ⟨⟨hI _, hI _, this.1⟩, this.2⟩

/-- The fread/fwrite loop copying into the final stream.json. -/
theorem loop_json (τ : Nat) (I : View → Prop) (a b c e : Option Node) (hI : ∀ y, I ⟨a, b, c, y, e⟩)
    (bs : List (List Nat)) (pend : List Nat) :
    VAlways τ I ⟨a, b, c, some (.file [] pend), e⟩
        (bs.flatMap fun blk => [.fread (.file .tmp τ .json) blk.length, .fwrite (.file .fin τ .json) blk])
    ∧ vrun τ ⟨a, b, c, some (.file [] pend), e⟩
        (bs.flatMap fun blk => [.fread (.file .tmp τ .json) blk.length, .fwrite (.file .fin τ .json) blk])
      = ⟨a, b, c, some (.file [] (pend ++ bs.flatten)), e⟩ := by
  induction bs generalizing pend with
  | nil => simp [valways_nil, hI]
  | cons blk r ih =>
    have := ih (pend ++ blk)
    simp only [List.flatMap_cons, List.cons_append, List.nil_append, valways_cons, vrun_cons, List.flatten_cons]
    simp only [vstep, effect, Path.file.injEq, reduceCtorEq, and_false, false_and, if_false, and_true, true_and, if_true, addPend]
    rw [← List.append_assoc]
    exact ⟨⟨hI _, hI _, this.1⟩, this.2⟩

/-- `move_thread_to_final` for stream.obs: `I` must hold whatever the state of
    the destination, and once the source is gone. -/
theorem move_obs (τ : Nat) (I : View → Prop) (c : List Nat) (jt x jf gg : Option Node)
    (hA : ∀ y, I ⟨F c, jt, y, jf, gg⟩) (hB : I ⟨none, jt, F c, jf, gg⟩) :
    Triple τ (· = ⟨F c, jt, x, jf, gg⟩) (moveFileOps τ .obs c) I (· = ⟨none, jt, F c, jf, gg⟩) := by
  intro v hv; subst hv
  unfold moveFileOps
  obtain ⟨l1, l2⟩ := loop_obs τ I (F c) jt jf gg hA (blocks c.length c) []
  rw [List.append_assoc, valways_append, valways_append, vrun_append, vrun_append]
  simp only [List.cons_append, List.nil_append, valways_cons, valways_nil, vrun_cons, vrun_nil]
  simp only [vstep, effect, Path.file.injEq, reduceCtorEq, and_false, false_and, if_false, and_true, true_and, if_true]
  rw [l2, blocks_flatten _ _ (Nat.le_refl _)]
  simp only [vstep, effect, Path.file.injEq, reduceCtorEq, and_false, false_and, if_false, and_true, true_and, if_true,
    flushPend, List.nil_append]
  repeat' apply And.intro
  all_goals first | exact hA _ | exact hB | exact l1 | rfl

/-- `move_thread_to_final` for stream.json. -/
theorem move_json (τ : Nat) (I : View → Prop) (c : List Nat) (ot ofn y gg : Option Node)
    (hA : ∀ y, I ⟨ot, F c, ofn, y, gg⟩) (hB : I ⟨ot, none, ofn, F c, gg⟩) :
    Triple τ (· = ⟨ot, F c, ofn, y, gg⟩) (moveFileOps τ .json c) I (· = ⟨ot, none, ofn, F c, gg⟩) := by
  intro v hv; subst hv
  unfold moveFileOps
  obtain ⟨l1, l2⟩ := loop_json τ I ot (F c) ofn gg hA (blocks c.length c) []
  rw [List.append_assoc, valways_append, valways_append, vrun_append, vrun_append]
  simp only [List.cons_append, List.nil_append, valways_cons, valways_nil, vrun_cons, vrun_nil]
  simp only [vstep, effect, Path.file.injEq, reduceCtorEq, and_false, false_and, if_false, and_true, true_and, if_true]
  rw [l2, blocks_flatten _ _ (Nat.le_refl _)]
  simp only [vstep, effect, Path.file.injEq, reduceCtorEq, and_false, false_and, if_false, and_true, true_and, if_true,
    flushPend, List.nil_append]
  repeat' apply And.intro
  all_goals first | exact hA _ | exact hB | exact l1 | rfl

end Ovni.Rt.Fs

namespace Ovni.Rt.Fs

theorem Triple.idle {τ : Nat} {I : View → Prop} {ops : List FOp} (v0 : View)
    (h : ∀ op ∈ ops, Foreign τ op) (hI : I v0) : Triple τ (· = v0) ops I (· = v0) :=
  Triple.foreign h (fun v hv => by subst hv; exact hI)

theorem foreign_single {τ : Nat} {op : FOp} (h : touch op = []) : ∀ x ∈ [op], Foreign τ x := by
  intro x hx
  simp only [List.mem_cons, List.not_mem_nil, or_false] at hx
  subst hx
  intro q _; rw [h]; simp

/-- `move_thdir_to_final` (stream.obs, then stream.json) + `try_clean_dir`. -/
theorem reloc_fixed (τ : Nat) (I : View → Prop) (g js : List Nat)
    (h1 : ∀ y, I ⟨F g, F js, y, none, F g⟩) (h2 : ∀ y, I ⟨none, F js, F g, y, F g⟩)
    (h3 : I ⟨none, none, F g, F js, F g⟩) :
    Triple τ (· = ⟨F g, F js, none, none, F g⟩)
      (moveFileOps τ .obs g ++ (moveFileOps τ .json js ++ [.rmdir (.thread .tmp τ)]))
      I (· = ⟨none, none, F g, F js, F g⟩) := by
  refine Triple.seq (move_obs τ I g (F js) none none (F g) h1 (h2 _)) ?_
  refine Triple.seq (move_json τ I js none (F g) none (F g) h2 h3) ?_
  refine Triple.idle _ ?_ h3
  intro op hop
  simp only [List.mem_cons, List.not_mem_nil, or_false] at hop
  subst hop
  exact foreign_of_dir (by simp [touch, Path.isLeaf])

end Ovni.Rt.Fs

namespace Ovni.Rt.Fs

theorem Triple.mono {τ : Nat} {P Q I J : View → Prop} {ops : List FOp}
    (hIJ : ∀ v, I v → J v) (h : Triple τ P ops I Q) : Triple τ P ops J Q :=
  fun v hv => ⟨valways_mono hIJ (h v hv).1, (h v hv).2⟩

theorem Triple.nil {τ : Nat} {P I : View → Prop} (h : ∀ v, P v → I v) : Triple τ P [] I P :=
  fun v hv => ⟨valways_nil.mpr (h v hv), hv⟩

/-- The entries of a thread when `ovni_thread_free` has returned. -/
def doneView (C : Codec) (t : ThreadProg) : View :=
  ⟨none, none, F t.obsBytes, F (C.ser ⟨true, t.metaF⟩), F t.obsBytes⟩

theorem tinv_empty (C : Codec) (t : ThreadProg) : TInv C t View.empty :=
  tinv_direct C t none none none (Or.inl ⟨rfl, rfl⟩) (Or.inl rfl)

/-- Direct mode: every prefix of the thread's calls satisfies `TInv`. -/
theorem thread_direct (C : Codec) (p : Prog) (t : ThreadProg) (hp : p.tmpMode = false) :
    Triple t.tid (· = View.empty) (ops (threadCalls C.ser p t)) (TInv C t)
      (fun v => t.free = true → v = doneView C t) := by
  have hwr : p.wr = .fin := by simp [Prog.wr, hp]
  unfold threadCalls threadInitCalls
  simp only [hp, hwr, Bool.false_eq_true, if_false, List.append_nil, ops, List.map_append, List.append_assoc]
  refine Triple.seq (Triple.idle _ (foreign_mkdirThread _ _ _ _) (tinv_empty C t)) ?_
  rw [← List.append_assoc, ← List.map_append]
  refine Triple.seq (init_direct C t ⟨false, t.meta0⟩ rfl) ?_
  refine Triple.seq (steps_direct C t p hp t.steps t.hdr _ (junf_done C _ rfl)) ?_
  intro v ⟨j', hj', hv⟩
  subst hv
  cases hf : t.free with
  | false =>
    simp only [Bool.false_eq_true, if_false, List.map_nil, valways_nil, vrun_nil, false_imp_iff, and_true]
    exact tinv_direct C t _ _ _ (Or.inr (obsSync_F _)) (Or.inr (Or.inl hj'))
  | true =>
    simp only [if_true, threadFreeCalls, relocCalls, hp, hwr, Bool.false_eq_true, if_false, List.append_nil, true_imp_iff]
    exact free_direct C t j' hj' _ _ rfl

/-- TMPDIR mode, `ovni_thread_init` … `close(streamfd)` of a thread that frees. -/
theorem thread_tmp_pre (C : Codec) (p : Prog) (t : ThreadProg) (hp : p.tmpMode = true) :
    Triple t.tid (· = View.empty)
      (ops (threadInitCalls C.ser p t) ++ (ops (t.steps.flatMap (stepCalls C.ser p t.tid)) ++
        ops (storeCalls .tmp t.tid (C.ser ⟨true, t.metaF⟩) ++ [⟨.closeStream, 0, .close .tmp t.tid t.lastLen⟩])))
      (TInv C t) (· = ⟨F t.obsBytes, F (C.ser ⟨true, t.metaF⟩), none, none, F t.obsBytes⟩) := by
  have hwr : p.wr = .tmp := by simp [Prog.wr, hp]
  unfold threadInitCalls
  simp only [hp, hwr, if_true, ops_append, List.append_assoc]
  refine Triple.seq (Triple.idle _ (foreign_mkdirThread _ _ _ _) (tinv_empty C t)) ?_
  refine Triple.seq (Triple.idle _ (foreign_mkdirThread _ _ _ _) (tinv_empty C t)) ?_
  rw [← List.append_assoc, ← ops_append]
  refine Triple.seq (init_tmp C t _) ?_
  refine Triple.seq (steps_tmp C t p hp t.steps t.hdr _) ?_
  intro v ⟨j', hv⟩
  subst hv
  rw [← ops_append]
  exact free_tmp C t j' (C.ser ⟨true, t.metaF⟩) t.obsBytes t.lastLen _ rfl

theorem ops_threadCalls_tmp_free (ser : Meta → List Nat) (p : Prog) (t : ThreadProg) (hp : p.tmpMode = true)
    (hf : t.free = true) :
    ops (threadCalls ser p t) =
      (ops (threadInitCalls ser p t) ++ (ops (t.steps.flatMap (stepCalls ser p t.tid)) ++
        ops (storeCalls .tmp t.tid (ser ⟨true, t.metaF⟩) ++ [⟨.closeStream, 0, .close .tmp t.tid t.lastLen⟩])))
      ++ (moveFileOps t.tid .obs t.obsBytes ++
          (moveFileOps t.tid .json (ser ⟨true, t.metaF⟩) ++ [.rmdir (.thread .tmp t.tid)])) := by
  have hwr : p.wr = .tmp := by simp [Prog.wr, hp]
  simp only [threadCalls, hf, if_true, threadFreeCalls, relocCalls, hp, hwr, ops_append, ops_moveFile, ops_cons, ops_nil,
    List.append_assoc]

/-- TMPDIR mode: every prefix of the thread's calls satisfies `TInv`. -/
theorem thread_tmp (C : Codec) (p : Prog) (t : ThreadProg) (hp : p.tmpMode = true) :
    Triple t.tid (· = View.empty) (ops (threadCalls C.ser p t)) (TInv C t)
      (fun v => t.free = true → v = doneView C t) := by
  have hwr : p.wr = .tmp := by simp [Prog.wr, hp]
  cases hf : t.free with
  | false =>
    unfold threadCalls threadInitCalls
    simp only [hp, hwr, hf, if_true, Bool.false_eq_true, if_false, List.append_nil, ops_append, List.append_assoc]
    refine Triple.seq (Triple.idle _ (foreign_mkdirThread _ _ _ _) (tinv_empty C t)) ?_
    refine Triple.seq (Triple.idle _ (foreign_mkdirThread _ _ _ _) (tinv_empty C t)) ?_
    rw [← List.append_assoc, ← ops_append]
    refine Triple.seq (init_tmp C t _) ?_
    refine Triple.conseq (steps_tmp C t p hp t.steps t.hdr _) (fun _ h => h) (fun _ _ h => by cases h)
  | true =>
    rw [ops_threadCalls_tmp_free C.ser p t hp hf]
    have h2 := reloc_fixed t.tid (TInv C t) t.obsBytes (C.ser ⟨true, t.metaF⟩)
      (fun y => ⟨Or.inr (Or.inl (obsSync_F _)), Or.inr (Or.inr rfl), Or.inl rfl, Or.inl ⟨[], rfl⟩⟩)
      (fun y => ⟨Or.inl rfl, Or.inr (Or.inl (obsSync_F _)), Or.inr (Or.inr rfl), Or.inr (Or.inl ⟨rfl, obsSync_F _⟩)⟩)
      ⟨Or.inl rfl, Or.inr (Or.inl (obsSync_F _)), Or.inr (Or.inr rfl), Or.inr (Or.inl ⟨rfl, obsSync_F _⟩)⟩
    exact Triple.conseq (Triple.seq (thread_tmp_pre C p t hp) h2) (fun _ h => h) (fun _ h _ => h)

/-! ### `fwrite` into the final stream.obs only happens while the source is intact -/

/-- The working stream.obs in the tmp tree has on disk exactly the flushed bytes. -/
def KeptTmp (v : View) : Prop := ∃ pn, v.ot = some (.file (flushedOf v.g) pn)

/-- When the call is an `fwrite` into the final stream.obs of τ, the state is `KeptTmp`. -/
def FwObs (τ : Nat) (v : View) (op : FOp) : Prop := ∀ d, op = .fwrite (.file .fin τ .obs) d → KeptTmp v

def isFwrite : FOp → Bool
  | .fwrite _ _ => true
  | _ => false

theorem fwObs_of_not_fwrite {τ : Nat} {op : FOp} (h : isFwrite op = false) (v : View) : FwObs τ v op := by
  intro d e; subst e; cases h

theorem nofw_mkpath (comps : List (Path × Bool)) : ∀ op ∈ ops (mkpathCalls comps), isFwrite op = false := by
  intro op hop
  simp only [ops, mkpathCalls, List.mem_map, List.mem_flatMap] at hop
  obtain ⟨c, ⟨x, _, hc⟩, rfl⟩ := hop
  split at hc <;> simp only [List.mem_cons, List.not_mem_nil, or_false] at hc
  · rcases hc with rfl | rfl <;> rfl
  · subst hc; rfl

theorem nofw_store (r : Root) (τ : Nat) (js : List Nat) : ∀ op ∈ ops (storeCalls r τ js), isFwrite op = false := by
  intro op hop
  simp only [ops, storeCalls, List.map_cons, List.map_nil, List.mem_cons, List.not_mem_nil, or_false] at hop
  rcases hop with rfl | rfl | rfl <;> rfl

/-- No `fwrite` before the relocation. -/
theorem nofw_pre (ser : Meta → List Nat) (p : Prog) (t : ThreadProg) (js : List Nat) (last : Nat) :
    ∀ op ∈ ops (threadInitCalls ser p t) ++ (ops (t.steps.flatMap (stepCalls ser p t.tid)) ++
        ops (storeCalls p.wr t.tid js ++ [⟨.closeStream, 0, .close p.wr t.tid last⟩])), isFwrite op = false := by
  intro op hop
  simp only [threadInitCalls, ops_append, List.mem_append] at hop
  rcases hop with (((h | h) | h) | h) | h | h | h
  · exact nofw_mkpath _ op h
  · split at h
    · exact nofw_mkpath _ op h
    · cases h
  · simp only [ops, List.map_cons, List.map_nil, List.mem_cons, List.not_mem_nil, or_false] at h
    rcases h with rfl | rfl <;> rfl
  · exact nofw_store _ _ _ op h
  · simp only [ops, List.mem_map, List.mem_flatMap] at h
    obtain ⟨c, ⟨st, _, hc⟩, rfl⟩ := h
    cases st with
    | io chunks =>
      simp only [stepCalls, List.mem_map] at hc
      obtain ⟨d, _, rfl⟩ := hc
      rfl
    | attrFlush b => exact nofw_store _ _ _ _ (by simp only [ops, List.mem_map]; exact ⟨c, hc, rfl⟩)
  · exact nofw_store _ _ _ op h
  · simp only [ops, List.map_cons, List.map_nil, List.mem_cons, List.not_mem_nil, or_false] at h
    subst h; rfl

/-- During the copy of stream.obs the source and the ghost log stay put. -/
theorem move_obs_fw (τ : Nat) (c : List Nat) (jt x jf : Option Node) :
    VNext τ (FwObs τ) ⟨F c, jt, x, jf, F c⟩ (moveFileOps τ .obs c) := by
  have hI : ∀ y, KeptTmp ⟨F c, jt, y, jf, F c⟩ := fun _ => ⟨[], rfl⟩
  unfold moveFileOps
  obtain ⟨l1, _⟩ := loop_obs τ KeptTmp (F c) jt jf (F c) hI (blocks c.length c) []
  rw [List.append_assoc, vnext_append, vnext_append]
  refine ⟨?_, ?_, ?_⟩
  · exact vnext_trivial (fun op hop v => fwObs_of_not_fwrite (by
      simp only [List.mem_cons, List.not_mem_nil, or_false] at hop
      rcases hop with rfl | rfl <;> rfl) v)
  · simp only [vrun_cons, vrun_nil]
    simp only [vstep, effect, Path.file.injEq, reduceCtorEq, and_false, false_and, if_false, and_true, true_and, if_true]
    exact vnext_of_valways (fun v op h d _ => h) l1
  · exact vnext_trivial (fun op hop v => fwObs_of_not_fwrite (by
      simp only [List.mem_cons, List.not_mem_nil, or_false] at hop
      rcases hop with rfl | rfl | rfl | rfl <;> rfl) v)

theorem move_json_fw (τ : Nat) (c : List Nat) : ∀ op ∈ moveFileOps τ .json c, ∀ v, FwObs τ v op := by
  intro op hop v d e
  subst e
  simp [moveFileOps] at hop

/-- Every `fwrite` into the final stream.obs of a thread is issued while the
    working stream.obs still holds everything flushed. -/
theorem thread_fwrite_pre (C : Codec) (p : Prog) (t : ThreadProg) :
    VNext t.tid (FwObs t.tid) View.empty (ops (threadCalls C.ser p t)) := by
  cases hp : p.tmpMode with
  | false =>
    have hwr : p.wr = .fin := by simp [Prog.wr, hp]
    apply vnext_trivial
    intro op hop v
    apply fwObs_of_not_fwrite
    cases hf : t.free with
    | false =>
      have := nofw_pre C.ser p t [] 0 op
      apply this
      simp only [threadCalls, hf, Bool.false_eq_true, if_false, List.append_nil, ops_append, List.mem_append] at hop
      simp only [List.mem_append]
      rcases hop with h | h
      · exact Or.inl h
      · exact Or.inr (Or.inl h)
    | true =>
      apply nofw_pre C.ser p t (C.ser ⟨true, t.metaF⟩) t.lastLen op
      simp only [threadCalls, hf, if_true, threadFreeCalls, relocCalls, hp, Bool.false_eq_true, if_false,
        List.append_nil, ops_append, List.mem_append] at hop
      simp only [ops_append, List.mem_append]
      rcases hop with (h | h) | h | h
      · exact Or.inl h
      · exact Or.inr (Or.inl h)
      · exact Or.inr (Or.inr (Or.inl h))
      · exact Or.inr (Or.inr (Or.inr h))
  | true =>
    have hwr : p.wr = .tmp := by simp [Prog.wr, hp]
    cases hf : t.free with
    | false =>
      apply vnext_trivial
      intro op hop v
      apply fwObs_of_not_fwrite
      apply nofw_pre C.ser p t [] 0 op
      simp only [threadCalls, hf, Bool.false_eq_true, if_false, List.append_nil, ops_append, List.mem_append] at hop
      simp only [List.mem_append]
      rcases hop with h | h
      · exact Or.inl h
      · exact Or.inr (Or.inl h)
    | true =>
      rw [ops_threadCalls_tmp_free C.ser p t hp hf, vnext_append]
      refine ⟨vnext_trivial (fun op hop v => fwObs_of_not_fwrite (by
        have := nofw_pre C.ser p t (C.ser ⟨true, t.metaF⟩) t.lastLen op
        rw [hwr] at this
        exact this hop) v), ?_⟩
      rw [(thread_tmp_pre C p t hp _ rfl).2, vnext_append]
      exact ⟨move_obs_fw _ _ _ _ _, vnext_trivial (fun op hop v => by
        rcases List.mem_append.mp hop with h | h
        · exact move_json_fw _ _ op h v
        · simp only [List.mem_cons, List.not_mem_nil, or_false] at h
          subst h
          exact fwObs_of_not_fwrite rfl v)⟩

end Ovni.Rt.Fs
