import OvniModel.Tools.Ovnisort
/-! Helper lemmas on sortedness, permutations and stable sorting for C16. -/
namespace Ovni.Ovnisort

/-- non-decreasing (unsigned) clocks -/
def Sorted (l : List Ev) : Prop := l.Pairwise (fun a b => a.clock ≤ b.clock)

/-- non-decreasing in the order of `cmp_ev` (clocks cast to int64) -/
def SSorted (l : List Ev) : Prop := l.Pairwise (fun a b => skey a.clock ≤ skey b.clock)

/-- what is assumed of `qsort`: a permutation, sorted by `cmp_ev` -/
def IsSort (f : List Ev → List Ev) : Prop := ∀ l, (f l).Perm l ∧ SSorted (f l)

/-- the events with clock `c`, in order -/
def atClock (c : Nat) (l : List Ev) : List Ev := l.filter (fun e => e.clock = c)

/-- stability, as a named hypothesis on `qsort`: events with equal clock
    keep their relative order -/
def Stable (f : List Ev → List Ev) : Prop := ∀ l c, atClock c (f l) = atClock c l

instance (l : List Ev) : Decidable (Sorted l) := by unfold Sorted; infer_instance

theorem skey_le_iff {a b : Nat} (ha : a < 2 ^ 63) (hb : b < 2 ^ 63) : skey a ≤ skey b ↔ a ≤ b := by
  unfold skey; simp only [ha, hb, if_true]; omega

theorem skey_inj {a b : Nat} (ha : a < 2 ^ 64) (hb : b < 2 ^ 64) (h : skey a = skey b) : a = b := by
  unfold skey at h
  split at h <;> split at h <;> omega

theorem SSorted.sorted {l : List Ev} (h : SSorted l) (hc : ∀ e ∈ l, e.clock < 2 ^ 63) : Sorted l := by
  unfold SSorted at h; unfold Sorted
  induction l with
  | nil => exact List.Pairwise.nil
  | cons a t ih =>
    rw [List.pairwise_cons] at h ⊢
    refine ⟨fun b hb => ?_, ih h.2 (fun e he => hc e (List.mem_cons_of_mem _ he))⟩
    exact (skey_le_iff (hc a List.mem_cons_self) (hc b (List.mem_cons_of_mem _ hb))).1 (h.1 b hb)

theorem Sorted.ssorted {l : List Ev} (h : Sorted l) (hc : ∀ e ∈ l, e.clock < 2 ^ 63) : SSorted l := by
  unfold Sorted at h; unfold SSorted
  induction l with
  | nil => exact List.Pairwise.nil
  | cons a t ih =>
    rw [List.pairwise_cons] at h ⊢
    refine ⟨fun b hb => ?_, ih h.2 (fun e he => hc e (List.mem_cons_of_mem _ he))⟩
    exact (skey_le_iff (hc a List.mem_cons_self) (hc b (List.mem_cons_of_mem _ hb))).2 (h.1 b hb)

/-! ### insertion sort -/

theorem insertEv_perm (x : Ev) (l : List Ev) : (insertEv x l).Perm (x :: l) := by
  induction l with
  | nil => exact List.Perm.refl _
  | cons y t ih =>
    unfold insertEv
    split
    · exact List.Perm.refl _
    · exact (List.Perm.cons y ih).trans (List.Perm.swap x y t)

theorem isort_perm (l : List Ev) : (isort l).Perm l := by
  induction l with
  | nil => exact List.Perm.refl _
  | cons x t ih =>
    show (insertEv x (isort t)).Perm (x :: t)
    exact (insertEv_perm x _).trans (List.Perm.cons x ih)

theorem insertEv_ssorted (x : Ev) (l : List Ev) (h : SSorted l) : SSorted (insertEv x l) := by
  unfold SSorted at *
  induction l with
  | nil => exact List.pairwise_singleton _ _
  | cons y t ih =>
    unfold insertEv
    rw [List.pairwise_cons] at h
    split
    · rename_i hxy
      rw [List.pairwise_cons]
      refine ⟨fun b hb => ?_, List.pairwise_cons.2 h⟩
      rcases List.mem_cons.1 hb with rfl | hb
      · exact hxy
      · exact Int.le_trans hxy (h.1 b hb)
    · rename_i hxy
      rw [List.pairwise_cons]
      refine ⟨fun b hb => ?_, ih h.2⟩
      rcases List.mem_cons.1 ((insertEv_perm x t).mem_iff.1 hb) with rfl | hb
      · omega
      · exact h.1 b hb

theorem isort_ssorted (l : List Ev) : SSorted (isort l) := by
  induction l with
  | nil => exact List.Pairwise.nil
  | cons x t ih => exact insertEv_ssorted x _ ih

theorem isort_isSort : IsSort isort := fun l => ⟨isort_perm l, isort_ssorted l⟩

theorem atClock_insertEv (c : Nat) (x : Ev) (l : List Ev) (hs : SSorted l) :
    atClock c (insertEv x l) = atClock c (x :: l) := by
  unfold SSorted at hs
  induction l with
  | nil => rfl
  | cons y t ih =>
    unfold insertEv
    rw [List.pairwise_cons] at hs
    split
    · rfl
    · rename_i hxy
      have ih' := ih hs.2
      unfold atClock at *
      by_cases hy : y.clock = c
      · -- then x.clock ≠ c would be needed … x has a larger key than y
        have hxc : x.clock ≠ c := by
          intro hxc
          have : x.clock = y.clock := by omega
          rw [this] at hxy; exact hxy (Int.le_refl _)
        simp only [List.filter_cons, hy, hxc, decide_true, decide_false, if_true] at ih' ⊢
        simp only [Bool.false_eq_true, if_false] at ih' ⊢
        rw [ih']
      · simp only [List.filter_cons, hy, decide_false] at ih' ⊢
        simp only [Bool.false_eq_true, if_false] at ih' ⊢
        exact ih'

/-- insertion sort is stable -/
theorem isort_atClock (c : Nat) (l : List Ev) : atClock c (isort l) = atClock c l := by
  induction l with
  | nil => rfl
  | cons x t ih =>
    show atClock c (insertEv x (isort t)) = _
    rw [atClock_insertEv c x _ (isort_ssorted t)]
    unfold atClock at *
    simp only [List.filter_cons, ih]

theorem isort_stable : Stable isort := fun l c => isort_atClock c l

/-! ### uniqueness of the stable sort -/

theorem sorted_ext {l₁ l₂ : List Ev} (h₁ : Sorted l₁) (h₂ : Sorted l₂)
    (h : ∀ c, atClock c l₁ = atClock c l₂) : l₁ = l₂ := by
  unfold Sorted at *
  induction l₁ generalizing l₂ with
  | nil =>
    cases l₂ with
    | nil => rfl
    | cons b t =>
      have := h b.clock
      simp [atClock] at this
  | cons a t₁ ih =>
    cases l₂ with
    | nil =>
      have := h a.clock
      simp [atClock] at this
    | cons b t₂ =>
      rw [List.pairwise_cons] at h₁ h₂
      have hab : a.clock = b.clock := by
        have ha : a ∈ atClock a.clock (b :: t₂) := by
          rw [← h a.clock]; simp [atClock]
        have hb : b ∈ atClock b.clock (a :: t₁) := by
          rw [h b.clock]; simp [atClock]
        have ha' := (List.mem_filter.1 ha).1
        have hb' := (List.mem_filter.1 hb).1
        have h1 : b.clock ≤ a.clock := by
          rcases List.mem_cons.1 ha' with e | e
          · rw [e]; exact Nat.le_refl _
          · exact h₂.1 a e
        have h2 : a.clock ≤ b.clock := by
          rcases List.mem_cons.1 hb' with e | e
          · rw [e]; exact Nat.le_refl _
          · exact h₁.1 b e
        omega
      have hh := h a.clock
      simp only [atClock, List.filter_cons, decide_true, if_true, hab.symm] at hh
      have heq : a = b := by injection hh
      subst heq
      congr 1
      apply ih h₁.2 h₂.2
      intro c
      have hc := h c
      simp only [atClock, List.filter_cons] at hc
      split at hc
      · injection hc
      · exact hc

theorem sorted_of_stable_eq_self {f : List Ev → List Ev} (hf : IsSort f) (hs : Stable f) {l : List Ev}
    (hl : Sorted l) (hc : ∀ e ∈ l, e.clock < 2 ^ 63) : f l = l := by
  apply sorted_ext _ hl (hs l)
  exact (hf l).2.sorted (fun e he => hc e ((hf l).1.mem_iff.1 he))

end Ovni.Ovnisort
