import OvniModel.Lemmas.TaskCouple

/-
  C06, the coupling between the task layer and the thread channels: in a
  coupled state the channel operations of the task hook never refuse what the
  task layer accepted on its copy — the hook accepts exactly the events
  `Ovni.Task.Emu.step` accepts.
-/
set_option linter.unusedSimpArgs false
namespace Ovni.Emu
open Ovni.Generated Ovni.Task

/-! ### every `chan_set` of `update_task_channels` was accepted on the copy -/

/-- close one write of `taskSets` against the matching field -/
macro "field_ok_some" : tactic => `(tactic|
  first
    | (refine ⟨(((taskIdx Model.nosv).bodyid.getD 0), Model.nosv.cfg.dupBodyid, Chans.bodyid),
        by simp [taskFields, taskIdx, TaskChanIdx.nosv], some _, rfl, _, ?_, rfl⟩; simp_all; done)
    | (refine ⟨(((taskIdx Model.nosv).taskid), Model.nosv.cfg.dupTaskid, Chans.taskid),
        by simp [taskFields, taskIdx, TaskChanIdx.nosv], some _, rfl, _, ?_, rfl⟩; simp_all; done)
    | (refine ⟨(((taskIdx Model.nosv).typ), Model.nosv.cfg.dupType, Chans.typ),
        by simp [taskFields, taskIdx, TaskChanIdx.nosv], some _, rfl, _, ?_, rfl⟩; simp_all; done)
    | (refine ⟨(((taskIdx Model.nosv).appid.getD 0), Model.nosv.cfg.dupAppid, Chans.appid),
        by simp [taskFields, taskIdx, TaskChanIdx.nosv], some _, rfl, _, ?_, rfl⟩; simp_all; done)
    | (refine ⟨(((taskIdx Model.nosv).rank), Model.nosv.cfg.dupRank, Chans.rank),
        by simp [taskFields, taskIdx, TaskChanIdx.nosv], some _, rfl, _, ?_, rfl⟩; simp_all; done)
    | (refine ⟨(((taskIdx Model.nanos6).taskid), Model.nanos6.cfg.dupTaskid, Chans.taskid),
        by simp [taskFields, taskIdx, TaskChanIdx.nanos6], some _, rfl, _, ?_, rfl⟩; simp_all; done)
    | (refine ⟨(((taskIdx Model.nanos6).typ), Model.nanos6.cfg.dupType, Chans.typ),
        by simp [taskFields, taskIdx, TaskChanIdx.nanos6], some _, rfl, _, ?_, rfl⟩; simp_all; done)
    | (refine ⟨(((taskIdx Model.nanos6).rank), Model.nanos6.cfg.dupRank, Chans.rank),
        by simp [taskFields, taskIdx, TaskChanIdx.nanos6], some _, rfl, _, ?_, rfl⟩; simp_all; done))

macro "field_ok_none" : tactic => `(tactic|
  first
    | (refine ⟨(((taskIdx Model.nosv).bodyid.getD 0), Model.nosv.cfg.dupBodyid, Chans.bodyid),
        by simp [taskFields, taskIdx, TaskChanIdx.nosv], none, rfl, _, ?_, rfl⟩; simp_all; done)
    | (refine ⟨(((taskIdx Model.nosv).taskid), Model.nosv.cfg.dupTaskid, Chans.taskid),
        by simp [taskFields, taskIdx, TaskChanIdx.nosv], none, rfl, _, ?_, rfl⟩; simp_all; done)
    | (refine ⟨(((taskIdx Model.nosv).typ), Model.nosv.cfg.dupType, Chans.typ),
        by simp [taskFields, taskIdx, TaskChanIdx.nosv], none, rfl, _, ?_, rfl⟩; simp_all; done)
    | (refine ⟨(((taskIdx Model.nosv).appid.getD 0), Model.nosv.cfg.dupAppid, Chans.appid),
        by simp [taskFields, taskIdx, TaskChanIdx.nosv], none, rfl, _, ?_, rfl⟩; simp_all; done)
    | (refine ⟨(((taskIdx Model.nosv).rank), Model.nosv.cfg.dupRank, Chans.rank),
        by simp [taskFields, taskIdx, TaskChanIdx.nosv], none, rfl, _, ?_, rfl⟩; simp_all; done)
    | (refine ⟨(((taskIdx Model.nanos6).taskid), Model.nanos6.cfg.dupTaskid, Chans.taskid),
        by simp [taskFields, taskIdx, TaskChanIdx.nanos6], none, rfl, _, ?_, rfl⟩; simp_all; done)
    | (refine ⟨(((taskIdx Model.nanos6).typ), Model.nanos6.cfg.dupType, Chans.typ),
        by simp [taskFields, taskIdx, TaskChanIdx.nanos6], none, rfl, _, ?_, rfl⟩; simp_all; done)
    | (refine ⟨(((taskIdx Model.nanos6).rank), Model.nanos6.cfg.dupRank, Chans.rank),
        by simp [taskFields, taskIdx, TaskChanIdx.nanos6], none, rfl, _, ?_, rfl⟩; simp_all; done))

theorem taskSets_writes_ok_show {m : Model} {P : ProcInfo} {c ch' : Chans} {T : Task} {B : Body}
    (h : chanShow m P c T B = .ok ch') :
    ∀ w ∈ taskSets (taskIdx m) P (some ((B.id : Int), (T.id : Int), (T.gid : Int))),
      ∃ f ∈ taskFields m, ∃ v, w = .set f.1 (ofOpt v) ∧ ∃ w', chanSet f.2.1 (f.2.2 c) v = .ok w' := by
  cases m
  all_goals
    unfold chanShow at h
    simp only [bind, Except.bind, pure, Except.pure] at h
    repeat' split at h
    all_goals first | (cases h; done) | skip
  all_goals simp only [chanSet_ok_iff] at *
  all_goals
    intro w hw
    simp [taskSets, taskIdx, TaskChanIdx.nosv, TaskChanIdx.nanos6, *] at hw
  all_goals rcases hw with rfl | rfl | rfl | rfl | rfl
  all_goals field_ok_some

theorem taskSets_writes_ok_stopped {m : Model} {P : ProcInfo} {c ch' : Chans}
    (h : chanStopped m P c = .ok ch') :
    ∀ w ∈ taskSets (taskIdx m) P none,
      ∃ f ∈ taskFields m, ∃ v, w = .set f.1 (ofOpt v) ∧ ∃ w', chanSet f.2.1 (f.2.2 c) v = .ok w' := by
  cases m
  all_goals
    unfold chanStopped at h
    simp only [bind, Except.bind, pure, Except.pure] at h
    repeat' split at h
    all_goals first | (cases h; done) | skip
  all_goals simp only [chanSet_ok_iff] at *
  all_goals
    intro w hw
    simp [taskSets, taskIdx, TaskChanIdx.nosv, TaskChanIdx.nanos6, *] at hw
  all_goals rcases hw with rfl | rfl | rfl | rfl | rfl
  all_goals field_ok_none

theorem chanRunning_show {m : Model} {P : ProcInfo} {c ch' : Chans} {next : Option (Task × Body)}
    (h : chanRunning m P c next = .ok ch') : ∃ T B, next = some (T, B) ∧ chanShow m P c T B = .ok ch' := by
  unfold chanRunning at h
  cases next with
  | none => cases h
  | some x =>
    obtain ⟨T, B⟩ := x
    simp only at h
    repeat' split at h
    all_goals first | (cases h; done) | skip
    exact ⟨T, B, rfl, h⟩

theorem chanSwitch_show {m : Model} {P : ProcInfo} {c ch' : Chans} {prev next : Option (Task × Body)}
    (h : chanSwitch m P c prev next = .ok ch') : ∃ T B, next = some (T, B) ∧ chanShow m P c T B = .ok ch' := by
  unfold chanSwitch at h
  cases prev with
  | none => cases h
  | some y =>
    cases next with
    | none => cases h
    | some x =>
      obtain ⟨T, B⟩ := x
      obtain ⟨Tp, Bp⟩ := y
      simp only at h
      repeat' split at h
      all_goals first | (cases h; done) | skip
      exact ⟨T, B, rfl, h⟩

/-- every `chan_set` of `update_task_channels` names a task field, and the copy
    accepted it -/
theorem updateChannels_writes_ok {m : Model} {P : ProcInfo} {c ch' : Chans} {tr : Tr}
    {prev next : Option (Task × Body)} (h : updateChannels m P c tr prev next = .ok ch') :
    ∀ w ∈ setPart m P tr next,
      ∃ f ∈ taskFields m, ∃ v, w = .set f.1 (ofOpt v) ∧ ∃ w', chanSet f.2.1 (f.2.2 c) v = .ok w' := by
  cases tr
  all_goals simp only [updateChannels] at h
  all_goals first
    | (obtain ⟨T, B, rfl, hc⟩ := chanRunning_show h; exact taskSets_writes_ok_show hc)
    | (obtain ⟨T, B, rfl, hc⟩ := chanSwitch_show h; exact taskSets_writes_ok_show hc)
    | exact taskSets_writes_ok_stopped h

/-! ### the channel operations succeed -/

/-- `withChan` succeeds when the operation does on the named source. -/
theorem withChan_ok_of_src {e : Emu} {ti m i k : Nat} {ms : ModelSpec} {f : Chan → Except Err Chan} {c c' : Chan}
    (hs : Shaped e) (hk : e.specs[k]? = some ms) (hc : ms.char = m) (hsrc : e.src (.raw ti k i) = some c)
    (hf : f c = .ok c') : ∃ e', Ovni.Emu.withChan e ti m i f = .ok e' := by
  simp only [Emu.src] at hsrc
  cases ht : e.threads[ti]? with
  | none => rw [ht] at hsrc; cases hsrc
  | some t =>
    rw [ht] at hsrc
    simp only at hsrc
    cases hx : t.mch[k]? with
    | none => rw [hx] at hsrc; cases hsrc
    | some x =>
      rw [hx] at hsrc
      simp only at hsrc
      obtain ⟨cs2, hcs2, _⟩ := hs.mch_of_spec ht hk
      rw [hx] at hcs2
      injection hcs2 with hcs2
      subst hcs2
      have hget : t.getChans m = some cs2 := by
        unfold Thread.getChans
        have hnd := hs.keys ht
        cases hfind : t.mch.find? (·.1 == m) with
        | none =>
          exfalso
          have := List.find?_eq_none.mp hfind (ms.char, cs2) (List.mem_of_getElem? hx)
          simp [hc] at this
        | some y =>
          obtain ⟨k2, hk2⟩ := List.mem_iff_getElem?.mp (List.mem_of_find?_eq_some hfind)
          have hy1 : y.1 = m := by
            have := List.find?_some hfind
            exact eq_of_beq this
          have h1 : (t.mch.map (·.1))[k2]? = some m := by rw [List.getElem?_map, hk2]; simp [hy1]
          have h2 : (t.mch.map (·.1))[k]? = some m := by rw [List.getElem?_map, hx]; simp [hc]
          have := nodup_getElem?_inj hnd h1 h2
          subst this
          rw [hx] at hk2
          injection hk2 with hk2
          rw [← hk2]
          rfl
      refine ⟨e.setThread (t.setChans m (cs2.set i c')), ?_⟩
      unfold Ovni.Emu.withChan
      simp only [ht, hget, hsrc, hf, bind, Except.bind, pure, Except.pure]

/-- `applyWrites` on distinct channels succeeds when every operation does on the
    initial channel. -/
theorem applyWrites_ok {ti mc k : Nat} {ms : ModelSpec} : ∀ (ws : List TaskWr) {e : Emu}, Shaped e →
    e.specs[k]? = some ms → ms.char = mc → (ws.map TaskWr.chan).Nodup →
    (∀ w ∈ ws, ∃ c c', e.src (.raw ti k w.chan) = some c ∧ wrOp e.maxStack w c = .ok c') →
    ∃ e', applyWrites e ti mc ws = .ok e' := by
  intro ws
  induction ws with
  | nil => intro e _ _ _ _ _; exact ⟨e, rfl⟩
  | cons w ws ih =>
    intro e hs hk hc hnd hall
    rw [List.map_cons, List.nodup_cons] at hnd
    obtain ⟨c, c', h1, h2⟩ := hall w (by simp)
    obtain ⟨e1, hw⟩ := withChan_ok_of_src hs hk hc h1 h2
    obtain ⟨_, _, _, _, _, a4⟩ := withChan_src hs hk hc hw
    obtain ⟨hs1, hsh1⟩ := (SimP.withChan (chanOp_wrOp _ w) hw) hs |>.imp id (·.1)
    have hk1 : e1.specs[k]? = some ms := by
      have : e1.specs = e.specs := congrArg Shape.specs hsh1
      rw [this]; exact hk
    have hms : e1.maxStack = e.maxStack := withChan_maxStack hw
    obtain ⟨e', he'⟩ := ih hs1 hk1 hc hnd.2 (fun w' hw' => by
      obtain ⟨d, d', q1, q2⟩ := hall w' (by simp [hw'])
      refine ⟨d, d', ?_, hms ▸ q2⟩
      rw [a4 _ (fun hq => hnd.1 (by
        have : w'.chan = w.chan := by injection hq
        rw [← this]; exact List.mem_map.mpr ⟨w', hw', rfl⟩))]
      exact q1)
    refine ⟨e', ?_⟩
    rw [applyWrites_cons]
    cases w <;> (simp only [wrOp, TaskWr.chan] at hw; simp only [hw]; exact he')

/-- **In a coupled state the task hook accepts exactly the events the task layer
    accepts** (for an event of the hook's thread): none of the `chan_push` /
    `chan_pop` / `chan_set` on the thread's real channels can refuse what
    `ssPush` / `ssPop` / `chanSet` accepted on the copy. -/
theorem taskHook_accepts_iff {tm : Ovni.Task.Model} {P : ProcInfo} {ε : Ovni.Task.Emu} {ev : Ev} {e : Emu}
    {ti a k : Nat} {p : List Nat} (hs : Shaped e) (hk : e.specs[k]? = some (specOf tm)) (hcp : Coupled tm k e ε)
    (hti : ti < e.threads.length) :
    (∃ e1, taskHook tm P ε ev e ti (specOf tm).char a p = .ok e1) ↔
      ((∃ ε', Ovni.Task.Emu.step tm P ε ev = .ok ε') ∧
        ((∃ t v bp, ev = .task ti v t bp) ∨ (∃ ty h f, ev = .typeCreate ty h f) ∨ (∃ par t ty, ev = .taskCreate par t ty))) := by
  constructor
  · rintro ⟨e1, h⟩
    unfold taskHook at h
    simp only at h
    cases hst : Ovni.Task.Emu.step tm P ε ev with
    | error x => simp only [hst] at h; cases h
    | ok ε' =>
      simp only [hst] at h
      refine ⟨⟨ε', rfl⟩, ?_⟩
      cases ev with
      | ssPush _ _ => cases h
      | ssPop _ _ => cases h
      | typeCreate ty hh f => exact Or.inr (Or.inl ⟨ty, hh, f, rfl⟩)
      | taskCreate par t ty => exact Or.inr (Or.inr ⟨par, t, ty, rfl⟩)
      | task th tv t bp =>
        simp only at h
        split at h
        · cases h
        · rename_i hth
          have : th = ti := Classical.byContradiction hth
          subst this
          exact Or.inl ⟨t, tv, bp, rfl⟩
  · rintro ⟨⟨ε', hst⟩, hev⟩
    unfold taskHook
    simp only [hst]
    rcases hev with ⟨t, tv, bp, rfl⟩ | ⟨ty, hh, f, rfl⟩ | ⟨par, t, ty, rfl⟩
    · simp only [ne_eq, not_true_eq_false, if_false]
      simp only [Ovni.Task.Emu.step] at hst
      obtain ⟨σ', ss', ch', h1, h2, h3, _, _⟩ := Ovni.Task.updateTask_ok.mp hst
      simp only [h1]
      have hnd := taskWrites_nodup tm P tv
        (expand tv (ε.sys.runningT ti).isSome (σ'.runningT ti).isSome) (σ'.runningT ti)
      refine applyWrites_ok _ hs hk rfl hnd ?_
      rw [taskWrites_eq]
      intro w hw
      rcases List.mem_append.mp hw with hw | hw
      · -- the subsystem channel
        obtain ⟨c, b1, b2⟩ := hcp.ss ti hti
        cases tv with
        | x =>
          simp only [ssPart, List.mem_singleton] at hw
          subst hw
          simp only [updateSs] at h2
          obtain ⟨c', hc'⟩ := (b2.push_iff _).mpr ⟨ss', h2⟩
          exact ⟨c, c', b1, by simp only [wrOp, hcp.maxStack]; exact hc'⟩
        | e =>
          simp only [ssPart, List.mem_singleton] at hw
          subst hw
          simp only [updateSs] at h2
          obtain ⟨c', hc'⟩ := (b2.pop_iff _).mpr ⟨ss', h2⟩
          exact ⟨c, c', b1, hc'⟩
        | p => simp only [ssPart, List.not_mem_nil] at hw
        | r => simp only [ssPart, List.not_mem_nil] at hw
      · -- a `chan_set`
        obtain ⟨f, hf, v, rfl, w', hw'⟩ := updateChannels_writes_ok h3 w hw
        obtain ⟨c, b1, b2⟩ := hcp.single ti hti f hf
        obtain ⟨c', hc'⟩ := (b2.set_iff v).mpr ⟨w', hw'⟩
        exact ⟨c, c', b1, hc'⟩
    · exact ⟨e, rfl⟩
    · exact ⟨e, rfl⟩

end Ovni.Emu
