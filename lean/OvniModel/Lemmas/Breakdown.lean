import OvniModel.Emu.Breakdown

/-! Helper lemmas for `Props/C20.lean` (breakdown muxes). Free to change. -/
namespace Ovni.Emu.Breakdown
open Ovni.Emu.Sort (Value)

/-! ### "delivered" predicates: one per edge of the per-CPU graph -/

/-- mux0 agrees with the current `ss` (its select and input 0). -/
def DSs (k : Consts) (c : Cpu) : Prop :=
  match c.mux0.selected with
  | none => (c.mux0.evaluated = true → c.ss = .null ∧ c.mux0.out = .int k.unknownSs) ∧
            (c.mux0.evaluated = false → c.mux0.out = .null)
  | some 0 => c.mux0.evaluated = true ∧ c.ss ≠ .null ∧ c.mux0.out = c.ss
  | some 1 => c.mux0.evaluated = true ∧ c.ss = .int k.taskBody
  | some _ => False

/-- mux0 forwards the current `tt` while input 1 is selected. -/
def DTt (c : Cpu) : Prop := c.mux0.selected = some 1 → c.mux0.out = c.tt

/-- mux1 agrees with the current `idle` (its select and input 1). -/
def DIdle (k : Consts) (c : Cpu) : Prop :=
  match c.mux1.selected with
  | none => c.idle = .null ∧ c.mux1.out = .null
  | some 0 => c.idle = .int k.progressing
  | some 1 => c.idle ≠ .int k.progressing ∧ c.mux1.out = c.idle
  | some _ => False

/-- mux1 forwards the current `tr` while input 0 is selected. -/
def DTr (c : Cpu) : Prop := c.mux1.selected = some 0 → c.mux1.out = c.mux0.out

/-- The sort module has seen the current `tri`. -/
def DTri (c : Cpu) : Prop := c.seen = c.mux1.out

/-- The selection mux0 holds is the one `select_tr` would make now. -/
def Fresh (k : Consts) (c : Cpu) : Prop := c.mux0.selected = selectTr k c.ss [c.ss, c.tt]

instance (k : Consts) (c : Cpu) : Decidable (Fresh k c) := by unfold Fresh; infer_instance

/-- No `idle` before the last `ss`/`tt` in the dirty order. -/
def orderOk : List Src → Bool
  | [] => true
  | .idle :: r => !(r.contains .ss || r.contains .tt)
  | _ :: r => orderOk r

/-- All duplicate-free orders of the three sources. -/
def allOrders : List (List Src) :=
  [[], [.ss], [.tt], [.idle],
   [.ss, .tt], [.tt, .ss], [.ss, .idle], [.idle, .ss], [.tt, .idle], [.idle, .tt],
   [.ss, .tt, .idle], [.ss, .idle, .tt], [.tt, .ss, .idle], [.tt, .idle, .ss],
   [.idle, .ss, .tt], [.idle, .tt, .ss]]

theorem dedup_step_mem : ∀ o ∈ allOrders, ∀ a : Src,
    (a :: o.filter (fun x => x != a)) ∈ allOrders := by
  intro o ho a
  simp only [allOrders, List.mem_cons, List.not_mem_nil, or_false] at ho
  rcases ho with rfl | rfl | rfl | rfl | rfl | rfl | rfl | rfl | rfl | rfl | rfl | rfl | rfl | rfl | rfl | rfl <;>
    cases a <;> decide

theorem dedup_mem_allOrders (l : List Src) : dedup l ∈ allOrders := by
  induction l with
  | nil => decide
  | cons a t ih => exact dedup_step_mem _ ih a

/-! ### spec facts -/

theorem selectTr_cases (k : Consts) (ss tt : Value) :
    (selectTr k ss [ss, tt] = none ∧ ss = .null) ∨
    (selectTr k ss [ss, tt] = some 0 ∧ ss ≠ .null ∧ ¬ (ss = .int k.taskBody ∧ tt ≠ .null)) ∨
    (selectTr k ss [ss, tt] = some 1 ∧ ss = .int k.taskBody ∧ tt ≠ .null) := by
  unfold selectTr
  by_cases h1 : ss = .int k.taskBody <;> by_cases h2 : tt = .null <;> by_cases h3 : ss = .null <;>
    simp_all

theorem cbSelect_tr (k : Consts) (ss tt : Value) :
    (Mux.cbSelect (.int k.unknownSs) (selectTr k ss [ss, tt]) [ss, tt]).out = trSpec k ss tt := by
  rcases selectTr_cases k ss tt with ⟨h, h1⟩ | ⟨h, h1, h2⟩ | ⟨h, h1, h2⟩ <;>
    simp_all [Mux.cbSelect, trSpec]

theorem cbSelect_tri (k : Consts) (tr idle : Value) :
    (Mux.cbSelect .null (selectIdle k idle) [tr, idle]).out = triSpec k tr idle := by
  unfold selectIdle triSpec
  split <;> simp [Mux.cbSelect]


/-! ### the worklist in two phases: sources first, then `tr` / `tri` -/

/-- `dirty` and `ders` agree on which derived channels are on the dirty list. -/
def DerOk (dirty ders : List Ch) : Prop :=
  dirty.contains Ch.tr = ders.contains Ch.tr ∧ dirty.contains Ch.tri = ders.contains Ch.tri

/-- Fire one source; `st.2` = derived channels put on the dirty list so far. -/
def fireSrc (k : Consts) (st : Cpu × List Ch) (x : Src) : Cpu × List Ch :=
  let r := fire k st.1 x.ch
  (r.1, st.2 ++ r.2.filter (fun y => !st.2.contains y))

def phase1 (k : Consts) (c : Cpu) (ders : List Ch) (srcs : List Src) : Cpu × List Ch :=
  srcs.foldl (fireSrc k) (c, ders)

theorem fire_src_writes (k : Consts) (c : Cpu) (x : Src) :
    (fire k c x.ch).2 = [] ∨ (fire k c x.ch).2 = [.tr] ∨ (fire k c x.ch).2 = [.tri] := by
  cases x
  · simp [Src.ch, fire]
  · by_cases h : c.mux0.selected = some 1 <;> simp [Src.ch, fire, h]
  · simp [Src.ch, fire]

theorem filter_derOk (dirty ders w : List Ch) (h : DerOk dirty ders)
    (hw : w = [] ∨ w = [.tr] ∨ w = [.tri]) :
    w.filter (fun y => !dirty.contains y) = w.filter (fun y => !ders.contains y) := by
  rcases hw with rfl | rfl | rfl
  · rfl
  · simp only [List.filter, h.1]
  · simp only [List.filter, h.2]

theorem derOk_append (dirty ders new : List Ch) (h : DerOk dirty ders) :
    DerOk (dirty ++ new) (ders ++ new) := by
  unfold DerOk at *
  simp only [List.contains_eq_mem, List.mem_append, decide_eq_decide] at *
  constructor
  · rw [h.1]
  · rw [h.2]

theorem propagate_sources (k : Consts) : ∀ (srcs : List Src) (fuel : Nat) (dirty ders : List Ch) (c : Cpu),
    DerOk dirty ders →
    ∃ dirty', DerOk dirty' (phase1 k c ders srcs).2 ∧
      propagate k (fuel + srcs.length) (srcs.map Src.ch ++ ders) dirty c =
        propagate k fuel (phase1 k c ders srcs).2 dirty' (phase1 k c ders srcs).1 := by
  intro srcs
  induction srcs with
  | nil => intro fuel dirty ders c h; exact ⟨dirty, h, rfl⟩
  | cons x xs ih =>
    intro fuel dirty ders c h
    have hw := fire_src_writes k c x
    have hf := filter_derOk dirty ders _ h hw
    obtain ⟨d', h1, h2⟩ := ih fuel (dirty ++ (fire k c x.ch).2.filter (fun y => !ders.contains y))
      (ders ++ (fire k c x.ch).2.filter (fun y => !ders.contains y)) (fire k c x.ch).1
      (derOk_append _ _ _ h)
    refine ⟨d', ?_, ?_⟩
    · exact h1
    · have e : fuel + (x :: xs).length = (fuel + xs.length) + 1 := by simp; omega
      rw [e]
      simp only [List.map_cons, List.cons_append, propagate, hf, List.append_assoc]
      exact h2


/-- Phase-1 invariant: the sources in `rest` are still to be fired, the
    derived channels in `ders` still to be processed; every other edge is
    delivered. -/
structure J (k : Consts) (rest : List Src) (c : Cpu) (ders : List Ch) : Prop where
  ss : Src.ss ∈ rest ∨ DSs k c
  tt : Src.tt ∈ rest ∨ DTt c
  idle : Src.idle ∈ rest ∨ DIdle k c
  tr : Ch.tr ∈ ders ∨ DTr c
  tri : Ch.tri ∈ ders ∨ DTri c

theorem mem_append_filter_self (ders : List Ch) (y : Ch) :
    y ∈ ders ++ [y].filter (fun z => !ders.contains z) := by
  by_cases h : y ∈ ders
  · exact List.mem_append_left _ h
  · apply List.mem_append_right
    simp [List.filter, h]

theorem fire_ss_DSs (k : Consts) (c : Cpu) : DSs k (fire k c .ss).1 ∧ DTt (fire k c .ss).1 ∧
    Fresh k (fire k c .ss).1 ∧ (fire k c .ss).1.mux0.evaluated = true := by
  obtain ⟨ss, tt, idle, m0, m1, seen⟩ := c
  simp only [fire, DSs, DTt, Fresh]
  rcases selectTr_cases k ss tt with ⟨h, h1⟩ | ⟨h, h1, h2⟩ | ⟨h, h1, h2⟩ <;>
    simp only [h, Mux.cbSelect, Mux.cbInput] <;> simp [h1]

theorem fireSrc_J (k : Consts) (x : Src) (xs : List Src) (c : Cpu) (ders : List Ch)
    (h : J k (x :: xs) c ders) :
    J k xs (fireSrc k (c, ders) x).1 (fireSrc k (c, ders) x).2 := by
  cases x with
  | ss =>
    have hf := fire_ss_DSs k c
    have e2 : (fireSrc k (c, ders) .ss).2 = ders ++ [Ch.tr].filter (fun z => !ders.contains z) := rfl
    have e1 : (fireSrc k (c, ders) .ss).1 = (fire k c .ss).1 := rfl
    rw [e1, e2]
    constructor
    · exact Or.inr hf.1
    · exact Or.inr hf.2.1
    · rcases h.idle with hi | hi
      · left; simpa using hi
      · right; exact hi
    · left; exact mem_append_filter_self _ _
    · rcases h.tri with hi | hi
      · left; exact List.mem_append_left _ hi
      · right; exact hi
  | tt =>
    by_cases hs : c.mux0.selected = some 1
    · have e1 : (fireSrc k (c, ders) .tt).1 = { c with mux0 := c.mux0.cbInput 1 c.tt } := by
        simp [fireSrc, Src.ch, fire, hs]
      have e2 : (fireSrc k (c, ders) .tt).2 = ders ++ [Ch.tr].filter (fun z => !ders.contains z) := by
        simp [fireSrc, Src.ch, fire, hs]
      rw [e1, e2]
      constructor
      · rcases h.ss with hi | hi
        · left; simpa using hi
        · right
          simp only [DSs, Mux.cbInput, hs, if_true] at hi ⊢
          exact hi
      · right; simp [DTt, Mux.cbInput, hs]
      · rcases h.idle with hi | hi
        · left; simpa using hi
        · right; exact hi
      · left; exact mem_append_filter_self _ _
      · rcases h.tri with hi | hi
        · left; exact List.mem_append_left _ hi
        · right; exact hi
    · have e1 : (fireSrc k (c, ders) .tt).1 = c := by simp [fireSrc, Src.ch, fire, hs]
      have e2 : (fireSrc k (c, ders) .tt).2 = ders := by simp [fireSrc, Src.ch, fire, hs]
      rw [e1, e2]
      constructor
      · rcases h.ss with hi | hi
        · left; simpa using hi
        · right; exact hi
      · right; intro h1; exact absurd h1 hs
      · rcases h.idle with hi | hi
        · left; simpa using hi
        · right; exact hi
      · exact h.tr
      · exact h.tri
  | idle =>
    have e2 : (fireSrc k (c, ders) .idle).2 = ders ++ [Ch.tri].filter (fun z => !ders.contains z) := rfl
    have e1 : (fireSrc k (c, ders) .idle).1 = (fire k c .idle).1 := rfl
    rw [e1, e2]
    have hD : DIdle k (fire k c .idle).1 ∧ DTr (fire k c .idle).1 := by
      obtain ⟨ss, tt, idle, m0, m1, seen⟩ := c
      simp only [fire, DIdle, DTr, selectIdle]
      by_cases hp : idle = .int k.progressing <;> simp [hp, Mux.cbSelect, Mux.cbInput]
    constructor
    · rcases h.ss with hi | hi
      · left; simpa using hi
      · right; exact hi
    · rcases h.tt with hi | hi
      · left; simpa using hi
      · right; exact hi
    · exact Or.inr hD.1
    · exact Or.inr hD.2
    · left; exact mem_append_filter_self _ _

theorem phase1_J (k : Consts) : ∀ (srcs : List Src) (c : Cpu) (ders : List Ch),
    J k srcs c ders → J k [] (phase1 k c ders srcs).1 (phase1 k c ders srcs).2 := by
  intro srcs
  induction srcs with
  | nil => intro c ders h; exact h
  | cons x xs ih =>
    intro c ders h
    exact ih _ _ (fireSrc_J k x xs c ders h)


/-! ### shape of the derived part of the dirty list -/

/-- `tr` (if dirty) is ahead of `tri` (if dirty). -/
def Good (ders : List Ch) : Prop :=
  ders = [] ∨ ders = [.tr] ∨ ders = [.tri] ∨ ders = [.tr, .tri]

def Any5 (ders : List Ch) : Prop := Good ders ∨ ders = [.tri, .tr]

theorem fireSrc_snd (k : Consts) (c : Cpu) (ders : List Ch) (x : Src) :
    (fireSrc k (c, ders) x).2 = ders ++ (fire k c x.ch).2.filter (fun y => !ders.contains y) := rfl

theorem any5_step (k : Consts) (c : Cpu) (ders : List Ch) (x : Src) (h : Any5 ders) :
    Any5 (fireSrc k (c, ders) x).2 := by
  rw [fireSrc_snd]
  rcases fire_src_writes k c x with hw | hw | hw <;> rw [hw] <;>
    rcases h with (rfl | rfl | rfl | rfl) | rfl <;> simp +decide [Any5, Good]

theorem phase1_any5 (k : Consts) : ∀ (srcs : List Src) (c : Cpu) (ders : List Ch),
    Any5 ders → Any5 (phase1 k c ders srcs).2 := by
  intro srcs
  induction srcs with
  | nil => intro c ders h; exact h
  | cons x xs ih => intro c ders h; exact ih _ _ (any5_step k c ders x h)

theorem orderOk_of_none : ∀ r : List Src, Src.ss ∉ r → Src.tt ∉ r → orderOk r = true := by
  intro r
  induction r with
  | nil => intros; rfl
  | cons a t ih =>
    intro h1 h2
    cases a with
    | ss => simp at h1
    | tt => simp at h2
    | idle =>
      simp only [orderOk]
      have : Src.ss ∉ t := fun h => h1 (List.mem_cons_of_mem _ h)
      have : Src.tt ∉ t := fun h => h2 (List.mem_cons_of_mem _ h)
      simp [*]

theorem orderOk_idle (r : List Src) (h : orderOk (.idle :: r) = true) : Src.ss ∉ r ∧ Src.tt ∉ r := by
  simp only [orderOk] at h
  simpa using h

theorem orderOk_tail (x : Src) (xs : List Src) (h : orderOk (x :: xs) = true) : orderOk xs = true := by
  cases x with
  | ss => simpa [orderOk] using h
  | tt => simpa [orderOk] using h
  | idle => have := orderOk_idle xs h; exact orderOk_of_none xs this.1 this.2

/-- Phase-1 order invariant. -/
def G (rest : List Src) (ders : List Ch) : Prop :=
  Good ders ∧ (Ch.tri ∈ ders → Ch.tr ∈ ders ∨ (Src.ss ∉ rest ∧ Src.tt ∉ rest))

theorem good_step (k : Consts) (c : Cpu) (ders : List Ch) (x : Src) (xs : List Src)
    (ho : orderOk (x :: xs) = true) (h : G (x :: xs) ders) : G xs (fireSrc k (c, ders) x).2 := by
  rw [fireSrc_snd]
  obtain ⟨hg, hi⟩ := h
  cases x with
  | ss =>
    have hw : (fire k c Src.ss.ch).2 = [.tr] := rfl
    rw [hw]
    rcases hg with rfl | rfl | rfl | rfl
    · simp +decide [G, Good]
    · simp +decide [G, Good]
    · have := hi (by simp); simp at this
    · simp +decide [G, Good]
  | tt =>
    rcases fire_src_writes k c .tt with hw | hw | hw
    · rw [hw]
      simp only [List.filter, List.append_nil]
      refine ⟨hg, fun ht => ?_⟩
      rcases hi ht with h1 | h1
      · exact Or.inl h1
      · exact absurd (List.mem_cons_self ..) h1.2
    · rw [hw]
      rcases hg with rfl | rfl | rfl | rfl
      · simp +decide [G, Good]
      · simp +decide [G, Good]
      · have := hi (by simp); simp at this
      · simp +decide [G, Good]
    · have : (fire k c Src.tt.ch).2 ≠ [.tri] := by
        simp only [Src.ch, fire]; split <;> simp
      exact absurd hw this
  | idle =>
    have hw : (fire k c Src.idle.ch).2 = [.tri] := rfl
    have hn := orderOk_idle xs ho
    rw [hw]
    rcases hg with rfl | rfl | rfl | rfl <;> simp +decide [G, Good, hn]

theorem phase1_good (k : Consts) : ∀ (srcs : List Src) (c : Cpu) (ders : List Ch),
    orderOk srcs = true → G srcs ders → Good (phase1 k c ders srcs).2 := by
  intro srcs
  induction srcs with
  | nil => intro c ders _ h; exact h.1
  | cons x xs ih =>
    intro c ders ho h
    exact ih _ _ (orderOk_tail x xs ho) (good_step k c ders x xs ho h)

/-! ### what phase 1 does to the values and to mux0's selection -/

theorem fireSrc_vals (k : Consts) (c : Cpu) (ders : List Ch) (x : Src) :
    (fireSrc k (c, ders) x).1.ss = c.ss ∧ (fireSrc k (c, ders) x).1.tt = c.tt ∧
    (fireSrc k (c, ders) x).1.idle = c.idle := by
  cases x
  · simp [fireSrc, Src.ch, fire]
  · by_cases h : c.mux0.selected = some 1 <;> simp [fireSrc, Src.ch, fire, h]
  · simp [fireSrc, Src.ch, fire]

theorem fireSrc_sel (k : Consts) (c : Cpu) (ders : List Ch) (x : Src) (hx : x ≠ .ss) :
    (fireSrc k (c, ders) x).1.mux0.selected = c.mux0.selected ∧
    (fireSrc k (c, ders) x).1.mux0.evaluated = c.mux0.evaluated := by
  cases x
  · exact absurd rfl hx
  · by_cases h : c.mux0.selected = some 1 <;> simp [fireSrc, Src.ch, fire, h, Mux.cbInput]
  · simp [fireSrc, Src.ch, fire]

theorem phase1_vals (k : Consts) : ∀ (srcs : List Src) (c : Cpu) (ders : List Ch),
    (phase1 k c ders srcs).1.ss = c.ss ∧ (phase1 k c ders srcs).1.tt = c.tt ∧
    (phase1 k c ders srcs).1.idle = c.idle := by
  intro srcs
  induction srcs with
  | nil => intro c ders; exact ⟨rfl, rfl, rfl⟩
  | cons x xs ih =>
    intro c ders
    have h1 := ih (fireSrc k (c, ders) x).1 (fireSrc k (c, ders) x).2
    have h2 := fireSrc_vals k c ders x
    exact ⟨h1.1.trans h2.1, h1.2.1.trans h2.2.1, h1.2.2.trans h2.2.2⟩

theorem phase1_sel (k : Consts) : ∀ (srcs : List Src) (c : Cpu) (ders : List Ch), Src.ss ∉ srcs →
    (phase1 k c ders srcs).1.mux0.selected = c.mux0.selected ∧
    (phase1 k c ders srcs).1.mux0.evaluated = c.mux0.evaluated := by
  intro srcs
  induction srcs with
  | nil => intro c ders _; exact ⟨rfl, rfl⟩
  | cons x xs ih =>
    intro c ders hn
    have hx : x ≠ .ss := fun h => hn (h ▸ List.mem_cons_self ..)
    have h1 := ih (fireSrc k (c, ders) x).1 (fireSrc k (c, ders) x).2
      (fun h => hn (List.mem_cons_of_mem _ h))
    have h2 := fireSrc_sel k c ders x hx
    exact ⟨h1.1.trans h2.1, h1.2.trans h2.2⟩

theorem phase1_fresh (k : Consts) : ∀ (srcs : List Src) (c : Cpu) (ders : List Ch), Src.ss ∈ srcs →
    Fresh k (phase1 k c ders srcs).1 ∧ (phase1 k c ders srcs).1.mux0.evaluated = true := by
  intro srcs
  induction srcs with
  | nil => intro c ders h; cases h
  | cons x xs ih =>
    intro c ders hm
    by_cases hxs : Src.ss ∈ xs
    · exact ih _ _ hxs
    · have hx : x = .ss := by
        rcases List.mem_cons.1 hm with h | h
        · exact h.symm
        · exact absurd h hxs
      subst hx
      have hf := fire_ss_DSs k c
      have hv := phase1_vals k xs (fireSrc k (c, ders) .ss).1 (fireSrc k (c, ders) .ss).2
      have hs := phase1_sel k xs (fireSrc k (c, ders) .ss).1 (fireSrc k (c, ders) .ss).2 hxs
      have e1 : (fireSrc k (c, ders) .ss).1 = (fire k c .ss).1 := rfl
      rw [e1] at hv hs
      show Fresh k (phase1 k (fireSrc k (c, ders) .ss).1 (fireSrc k (c, ders) .ss).2 xs).1 ∧ _
      rw [e1]
      refine ⟨?_, hs.2.trans hf.2.2.2⟩
      unfold Fresh at *
      rw [hs.1, hv.1, hv.2.1]
      exact hf.2.2.1


/-! ### phase 2: the derived channels -/

theorem fire_tr_sel (k : Consts) (c : Cpu) (h : c.mux1.selected = some 0) :
    fire k c .tr = ({ c with mux1 := { c.mux1 with out := c.mux0.out } }, [.tri]) := by
  simp [fire, h, Mux.cbInput]

theorem fire_tr_nsel (k : Consts) (c : Cpu) (h : c.mux1.selected ≠ some 0) :
    fire k c .tr = (c, []) := by
  simp [fire, h]

theorem fire_tri (k : Consts) (c : Cpu) : fire k c .tri = ({ c with seen := c.mux1.out }, []) := rfl

theorem dIdle_out (k : Consts) (c : Cpu) (v : Value) (h : DIdle k c) (hs : c.mux1.selected = some 0) :
    DIdle k { c with mux1 := { c.mux1 with out := v } } := by
  simp only [DIdle, hs] at h ⊢
  exact h

theorem propagate_nil (k : Consts) (fuel : Nat) (d : List Ch) (c : Cpu) :
    propagate k fuel [] d c = c := by
  cases fuel <;> rfl

/-- after `tr` then `tri` were processed with input 0 selected -/
def afterTrTri (c : Cpu) : Cpu :=
  { c with mux1 := { c.mux1 with out := c.mux0.out }, seen := c.mux0.out }

/-- after `tri` then `tr` were processed with input 0 selected: `seen` is stale -/
def afterTriTr (c : Cpu) : Cpu :=
  { c with mux1 := { c.mux1 with out := c.mux0.out }, seen := c.mux1.out }

theorem phase2 (k : Consts) (c : Cpu) (ders dirty : List Ch) (fuel : Nat)
    (hj : J k [] c ders) (hd : DerOk dirty ders) (hs : Any5 ders) :
    (propagate k (fuel + 2) ders dirty c).mux0 = c.mux0 ∧
    (propagate k (fuel + 2) ders dirty c).ss = c.ss ∧
    (propagate k (fuel + 2) ders dirty c).tt = c.tt ∧
    (propagate k (fuel + 2) ders dirty c).idle = c.idle ∧
    DIdle k (propagate k (fuel + 2) ders dirty c) ∧ DTr (propagate k (fuel + 2) ders dirty c) ∧
    (Good ders → DTri (propagate k (fuel + 2) ders dirty c)) := by
  have hI : DIdle k c := by
    rcases hj.idle with h | h
    · cases h
    · exact h
  have goodne : ¬ Good [Ch.tri, Ch.tr] := by simp +decide [Good]
  rcases hs with (rfl | rfl | rfl | rfl) | rfl
  · -- []
    have h1 : DTr c := by rcases hj.tr with h | h; (· cases h); exact h
    have h2 : DTri c := by rcases hj.tri with h | h; (· cases h); exact h
    rw [propagate_nil]
    exact ⟨rfl, rfl, rfl, rfl, hI, h1, fun _ => h2⟩
  · -- [tr]
    have h2 : DTri c := by rcases hj.tri with h | h; (· simp at h); exact h
    have hc : dirty.contains Ch.tri = false := by rw [hd.2]; decide
    by_cases hsel : c.mux1.selected = some 0
    · have e : propagate k (fuel + 2) [Ch.tr] dirty c = afterTrTri c := by
        simp only [propagate, fire_tr_sel k c hsel, List.nil_append, List.filter, hc, Bool.not_false,
          fire_tri, propagate_nil, afterTrTri]
      rw [e]
      refine ⟨rfl, rfl, rfl, rfl, dIdle_out k _ _ hI hsel, fun _ => rfl, fun _ => rfl⟩
    · have e : propagate k (fuel + 2) [Ch.tr] dirty c = c := by
        simp only [propagate, fire_tr_nsel k c hsel, List.nil_append, List.filter, propagate_nil]
      rw [e]
      exact ⟨rfl, rfl, rfl, rfl, hI, fun h => absurd h hsel, fun _ => h2⟩
  · -- [tri]
    have h1 : DTr c := by rcases hj.tr with h | h; (· simp at h); exact h
    have e : propagate k (fuel + 2) [Ch.tri] dirty c = { c with seen := c.mux1.out } := by
      simp only [propagate, fire_tri, List.nil_append, List.filter, propagate_nil]
    rw [e]
    exact ⟨rfl, rfl, rfl, rfl, hI, h1, fun _ => rfl⟩
  · -- [tr, tri]
    have hc : dirty.contains Ch.tri = true := by rw [hd.2]; decide
    by_cases hsel : c.mux1.selected = some 0
    · have e : propagate k (fuel + 2) [Ch.tr, Ch.tri] dirty c = afterTrTri c := by
        simp only [propagate, fire_tr_sel k c hsel, List.filter, hc, Bool.not_true, List.append_nil,
          fire_tri, List.nil_append, propagate_nil, afterTrTri]
      rw [e]
      refine ⟨rfl, rfl, rfl, rfl, dIdle_out k _ _ hI hsel, fun _ => rfl, fun _ => rfl⟩
    · have e : propagate k (fuel + 2) [Ch.tr, Ch.tri] dirty c = { c with seen := c.mux1.out } := by
        simp only [propagate, fire_tr_nsel k c hsel, List.filter, List.append_nil, fire_tri,
          List.nil_append, propagate_nil]
      rw [e]
      exact ⟨rfl, rfl, rfl, rfl, hI, fun h => absurd h hsel, fun _ => rfl⟩
  · -- [tri, tr]: `tri` is processed before `tr` writes it again
    have hc : dirty.contains Ch.tri = true := by rw [hd.2]; decide
    by_cases hsel : c.mux1.selected = some 0
    · have hsel' : ({ c with seen := c.mux1.out } : Cpu).mux1.selected = some 0 := hsel
      have e : propagate k (fuel + 2) [Ch.tri, Ch.tr] dirty c = afterTriTr c := by
        simp only [propagate, fire_tri, List.filter, List.append_nil,
          fire_tr_sel k _ hsel', hc, Bool.not_true, propagate_nil, afterTriTr]
      rw [e]
      refine ⟨rfl, rfl, rfl, rfl, dIdle_out k _ _ hI hsel, fun _ => rfl, fun h => absurd h goodne⟩
    · have hsel' : ({ c with seen := c.mux1.out } : Cpu).mux1.selected ≠ some 0 := hsel
      have e : propagate k (fuel + 2) [Ch.tri, Ch.tr] dirty c = { c with seen := c.mux1.out } := by
        simp only [propagate, fire_tri, List.filter, List.append_nil,
          fire_tr_nsel k _ hsel', propagate_nil]
      rw [e]
      exact ⟨rfl, rfl, rfl, rfl, hI, fun h => absurd h hsel, fun h => absurd h goodne⟩


/-! ### assembly: one `step` -/

/-- A CPU between two propagations: every edge delivered. -/
structure Quiescent (k : Consts) (c : Cpu) : Prop where
  ss : DSs k c
  tt : DTt c
  idle : DIdle k c
  tr : DTr c
  tri : DTri c

theorem quiescent_init (k : Consts) : Quiescent k Cpu.init := by
  constructor <;> simp [Cpu.init, Mux.init, DSs, DTt, DIdle, DTr, DTri]

theorem mem_dedup (l : List Src) (x : Src) : x ∈ dedup l ↔ x ∈ l := by
  induction l with
  | nil => simp [dedup]
  | cons a t ih =>
    simp only [dedup, List.mem_cons, List.mem_filter, ih]
    by_cases h : x = a <;> simp [h]

theorem allOrders_len : ∀ o ∈ allOrders, o.length ≤ 3 := by decide

theorem src_ch_contains (l : List Src) :
    (l.map Src.ch).contains Ch.tr = false ∧ (l.map Src.ch).contains Ch.tri = false := by
  induction l with
  | nil => exact ⟨rfl, rfl⟩
  | cons a t ih =>
    cases a <;> simp only [List.map_cons, Src.ch, List.contains_cons, ih.1, ih.2] <;> decide

theorem foldl_set_muxes (sets : List (Src × Value)) : ∀ c : Cpu,
    (sets.foldl Cpu.set c).mux0 = c.mux0 ∧ (sets.foldl Cpu.set c).mux1 = c.mux1 ∧
    (sets.foldl Cpu.set c).seen = c.seen := by
  induction sets with
  | nil => intro c; exact ⟨rfl, rfl, rfl⟩
  | cons e es ih =>
    intro c
    have := ih (c.set e)
    obtain ⟨x, v⟩ := e
    cases x <;> exact this

theorem foldl_set_keep (sets : List (Src × Value)) : ∀ c : Cpu,
    (Src.ss ∉ sets.map (·.1) → (sets.foldl Cpu.set c).ss = c.ss) ∧
    (Src.tt ∉ sets.map (·.1) → (sets.foldl Cpu.set c).tt = c.tt) ∧
    (Src.idle ∉ sets.map (·.1) → (sets.foldl Cpu.set c).idle = c.idle) := by
  induction sets with
  | nil => intro c; exact ⟨fun _ => rfl, fun _ => rfl, fun _ => rfl⟩
  | cons e es ih =>
    intro c
    have := ih (c.set e)
    obtain ⟨x, v⟩ := e
    simp only [List.map_cons, List.mem_cons, not_or, List.foldl_cons]
    cases x
    · exact ⟨fun h => absurd rfl h.1, fun h => this.2.1 h.2, fun h => this.2.2 h.2⟩
    · exact ⟨fun h => this.1 h.2, fun h => absurd rfl h.1, fun h => this.2.2 h.2⟩
    · exact ⟨fun h => this.1 h.2, fun h => this.2.1 h.2, fun h => absurd rfl h.1⟩

/-- What one propagation guarantees. -/
structure StepPost (k : Consts) (c : Cpu) (sets : List (Src × Value)) (c' : Cpu) : Prop where
  vss : c'.ss = (sets.foldl Cpu.set c).ss
  vtt : c'.tt = (sets.foldl Cpu.set c).tt
  vidle : c'.idle = (sets.foldl Cpu.set c).idle
  dss : DSs k c'
  dtt : DTt c'
  didle : DIdle k c'
  dtr : DTr c'
  dtri : orderOk (dedup (sets.map (·.1))) = true → DTri c'
  fresh : Src.ss ∈ sets.map (·.1) → Fresh k c' ∧ c'.mux0.evaluated = true
  keep : Src.ss ∉ sets.map (·.1) →
    c'.mux0.selected = c.mux0.selected ∧ c'.mux0.evaluated = c.mux0.evaluated

theorem step_post (k : Consts) (c : Cpu) (sets : List (Src × Value)) (hq : Quiescent k c) :
    StepPost k c sets (step k c sets) := by
  have hm := foldl_set_muxes sets c
  have hk := foldl_set_keep sets c
  -- phase-1 precondition on the state with the new values
  have hJ : J k (dedup (sets.map (·.1))) (sets.foldl Cpu.set c) [] := by
    constructor
    · by_cases h : Src.ss ∈ sets.map (·.1)
      · exact Or.inl ((mem_dedup _ _).2 h)
      · right
        have := hq.ss
        simp only [DSs] at this ⊢
        rw [hm.1, hk.1 h]; exact this
    · by_cases h : Src.tt ∈ sets.map (·.1)
      · exact Or.inl ((mem_dedup _ _).2 h)
      · right
        have := hq.tt
        simp only [DTt] at this ⊢
        rw [hm.1, hk.2.1 h]; exact this
    · by_cases h : Src.idle ∈ sets.map (·.1)
      · exact Or.inl ((mem_dedup _ _).2 h)
      · right
        have := hq.idle
        simp only [DIdle] at this ⊢
        rw [hm.2.1, hk.2.2 h]; exact this
    · right
      have := hq.tr
      simp only [DTr] at this ⊢
      rw [hm.1, hm.2.1]; exact this
    · right
      have := hq.tri
      simp only [DTri] at this ⊢
      rw [hm.2.1, hm.2.2]; exact this
  have hlen := allOrders_len _ (dedup_mem_allOrders (sets.map (·.1)))
  have hd0 : DerOk ((dedup (sets.map (·.1))).map Src.ch) [] := by
    have := src_ch_contains (dedup (sets.map (·.1)))
    exact ⟨this.1, this.2⟩
  obtain ⟨f, hf⟩ : ∃ f, 5 = (f + 2) + (dedup (sets.map (·.1))).length :=
    ⟨3 - (dedup (sets.map (·.1))).length, by omega⟩
  obtain ⟨d', hd', he⟩ := propagate_sources k (dedup (sets.map (·.1))) (f + 2)
    ((dedup (sets.map (·.1))).map Src.ch) [] (sets.foldl Cpu.set c) hd0
  have hstep : step k c sets =
      propagate k (f + 2) (phase1 k (sets.foldl Cpu.set c) [] (dedup (sets.map (·.1)))).2 d'
        (phase1 k (sets.foldl Cpu.set c) [] (dedup (sets.map (·.1)))).1 := by
    unfold step
    simp only []
    rw [hf]
    rw [List.append_nil] at he
    exact he
  have hJ' := phase1_J k _ _ _ hJ
  have hA := phase1_any5 k (dedup (sets.map (·.1))) (sets.foldl Cpu.set c) [] (Or.inl (Or.inl rfl))
  have hv := phase1_vals k (dedup (sets.map (·.1))) (sets.foldl Cpu.set c) []
  have h2 := phase2 k _ _ d' f hJ' hd' hA
  rw [← hstep] at h2
  obtain ⟨p0, p1, p2, p3, p4, p5, p6⟩ := h2
  have hS1 : DSs k (phase1 k (sets.foldl Cpu.set c) [] (dedup (sets.map (·.1)))).1 := by
    rcases hJ'.ss with h | h; (· cases h); exact h
  have hT1 : DTt (phase1 k (sets.foldl Cpu.set c) [] (dedup (sets.map (·.1)))).1 := by
    rcases hJ'.tt with h | h; (· cases h); exact h
  constructor
  · exact p1.trans hv.1
  · exact p2.trans hv.2.1
  · exact p3.trans hv.2.2
  · simp only [DSs] at hS1 ⊢; rw [p0, p1]; exact hS1
  · simp only [DTt] at hT1 ⊢; rw [p0, p2]; exact hT1
  · exact p4
  · exact p5
  · intro ho
    apply p6
    exact phase1_good k _ _ _ ho ⟨Or.inl rfl, fun h => by cases h⟩
  · intro h
    have := phase1_fresh k (dedup (sets.map (·.1))) (sets.foldl Cpu.set c) [] ((mem_dedup _ _).2 h)
    refine ⟨?_, by rw [p0]; exact this.2⟩
    have hfr := this.1
    unfold Fresh at hfr ⊢
    rw [p0, p1, p2]; exact hfr
  · intro h
    have := phase1_sel k (dedup (sets.map (·.1))) (sets.foldl Cpu.set c) []
      (fun hx => h ((mem_dedup _ _).1 hx))
    rw [p0, this.1, this.2, hm.1]
    exact ⟨rfl, rfl⟩

theorem quiescent_step (k : Consts) (c : Cpu) (sets : List (Src × Value)) (hq : Quiescent k c)
    (ho : orderOk (dedup (sets.map (·.1))) = true) : Quiescent k (step k c sets) :=
  let p := step_post k c sets hq
  ⟨p.dss, p.dtt, p.didle, p.dtr, p.dtri ho⟩

/-- A history of propagations on one CPU, starting from `mux_init`. -/
def runCpu (k : Consts) (props : List (List (Src × Value))) : Cpu :=
  props.foldl (step k) Cpu.init

/-- The dirty orders of a history never have `idle` ahead of `ss`/`tt`. -/
def OrdersOk (props : List (List (Src × Value))) : Prop :=
  ∀ p ∈ props, orderOk (dedup (p.map (·.1))) = true

instance (props : List (List (Src × Value))) : Decidable (OrdersOk props) := by
  unfold OrdersOk; infer_instance

theorem runCpu_quiescent (k : Consts) (props : List (List (Src × Value))) (ho : OrdersOk props) :
    Quiescent k (runCpu k props) := by
  unfold runCpu
  have : ∀ (props : List (List (Src × Value))) (c : Cpu), Quiescent k c → OrdersOk props →
      Quiescent k (props.foldl (step k) c) := by
    intro props
    induction props with
    | nil => intro c h _; exact h
    | cons p ps ih =>
      intro c h ho
      exact ih _ (quiescent_step k c p h (ho p (List.mem_cons_self ..)))
        (fun q hq => ho q (List.mem_cons_of_mem _ hq))
  exact this props _ (quiescent_init k) ho

/-! ### reading off the values -/

theorem tri_of_delivered (k : Consts) (c : Cpu) (h1 : DIdle k c) (h2 : DTr c) :
    c.tri = triSpec k c.tr c.idle := by
  obtain ⟨ss, tt, idle, m0, ⟨s1, o1, e1⟩, seen⟩ := c
  simp only [DIdle, DTr, triSpec, Cpu.tri, Cpu.tr] at h1 h2 ⊢
  rcases s1 with _ | _ | _ | n
  · have h1' : idle = .null ∧ o1 = .null := h1
    simp [h1'.1, h1'.2]
  · have h1' : idle = .int k.progressing := h1
    simp [h1', h2]
  · have h1' : idle ≠ .int k.progressing ∧ o1 = idle := h1
    simp [h1'.1, h1'.2]
  · exact absurd h1 id

theorem tr_of_fresh (k : Consts) (c : Cpu) (h1 : DSs k c) (h2 : DTt c)
    (he : c.mux0.evaluated = true) (hf : Fresh k c) : c.tr = trSpec k c.ss c.tt := by
  obtain ⟨ss, tt, idle, ⟨s0, o0, e0⟩, m1, seen⟩ := c
  simp only [DSs, DTt, Fresh, Cpu.tr] at h1 h2 he hf ⊢
  rcases selectTr_cases k ss tt with ⟨h, ha⟩ | ⟨h, ha, hb⟩ | ⟨h, ha, hb⟩
  · rw [h] at hf; subst hf
    have h1' : (e0 = true → ss = .null ∧ o0 = .int k.unknownSs) ∧ (e0 = false → o0 = .null) := h1
    rw [(h1'.1 he).2]; simp [trSpec, ha]
  · rw [h] at hf; subst hf
    have h1' : e0 = true ∧ ss ≠ .null ∧ o0 = ss := h1
    rw [h1'.2.2]; simp [trSpec, ha, hb]
  · rw [h] at hf; subst hf
    rw [h2 rfl]; simp [trSpec, ha, hb]

/-- The only two ways the selection can be out of date. -/
theorem stale_classes (k : Consts) (c : Cpu) (h1 : DSs k c) (h2 : DTt c)
    (he : c.mux0.evaluated = true) (hf : ¬ Fresh k c) :
    (c.mux0.selected = some 0 ∧ c.ss = .int k.taskBody ∧ c.tt ≠ .null ∧ c.tr = .int k.taskBody) ∨
    (c.mux0.selected = some 1 ∧ c.ss = .int k.taskBody ∧ c.tt = .null ∧ c.tr = .null) := by
  obtain ⟨ss, tt, idle, ⟨s0, o0, e0⟩, m1, seen⟩ := c
  simp only [DSs, DTt, Fresh, Cpu.tr] at h1 h2 he hf ⊢
  rcases s0 with _ | _ | _ | n
  · exfalso
    have h1' : (e0 = true → ss = .null ∧ o0 = .int k.unknownSs) ∧ (e0 = false → o0 = .null) := h1
    have hn := (h1'.1 he).1
    rcases selectTr_cases k ss tt with ⟨h, _⟩ | ⟨h, ha, _⟩ | ⟨h, ha, _⟩
    · exact hf h.symm
    · exact ha hn
    · rw [ha] at hn; cases hn
  · left
    have h1' : e0 = true ∧ ss ≠ .null ∧ o0 = ss := h1
    rcases selectTr_cases k ss tt with ⟨h, ha⟩ | ⟨h, ha, hb⟩ | ⟨h, ha, hb⟩
    · exact absurd ha h1'.2.1
    · exact absurd h.symm hf
    · exact ⟨rfl, ha, hb, by rw [h1'.2.2, ha]⟩
  · right
    have h1' : e0 = true ∧ ss = .int k.taskBody := h1
    rcases selectTr_cases k ss tt with ⟨h, ha⟩ | ⟨h, ha, hb⟩ | ⟨h, ha, hb⟩
    · rw [ha] at h1'; cases h1'.2
    · have : tt = .null := by
        apply Classical.byContradiction; intro hn; exact hb ⟨h1'.2, hn⟩
      exact ⟨rfl, h1'.2, this, by rw [h2 rfl, this]⟩
    · exact absurd h.symm hf
  · exact absurd h1 id

end Ovni.Emu.Breakdown
