import OvniModel.Lemmas.EmuCore
namespace Ovni.Emu

/-! ### flush, per-thread / per-CPU / global well-formedness -/

def Thread.flush (t : Thread) : Thread :=
  { t with chCpu := t.chCpu.flush, chTid := t.chTid.flush, chState := t.chState.flush,
           mch := t.mch.map fun x => (x.1, x.2.map Chan.flush) }

def Cpu.flush (c : Cpu) : Cpu :=
  { c with chNrun := c.chNrun.flush, chPid := c.chPid.flush, chTid := c.chTid.flush,
           chThrun := c.chThrun.flush, chThact := c.chThact.flush }

theorem Emu.flushAll_eq (e : Emu) :
    e.flushAll = { e with threads := e.threads.map Thread.flush, cpus := e.cpus.map Cpu.flush } := rfl

/-- the thread's channels show its logical state; `cpu` is set exactly in the four live states -/
structure ThreadOK (ncpu g : Nat) (t : Thread) : Prop where
  gidx : t.gindex = g
  chState : ChanOK t.chState (stateVal t.state) false
  chTid : ChanOK t.chTid (tidVal t.state t.tid) true
  chCpu : ChanOK t.chCpu (cpuVal t.cpu) false
  cpuIff : t.cpu = none ↔ (t.state = .unknown ∨ t.state = .dead)
  cpuLt : ∀ ci, t.cpu = some ci → ci < ncpu
  inCpu : t.outOfCpu = false

/-- the running-threads channel holds the count; before the first `cpu_update` of the CPU it is
    still empty (Paraver shows 0 in both cases) -/
def NrunVal (w : Value) (n : Nat) : Prop := w = .int n ∨ (w = .null ∧ n = 0)

/-- the CPU's five channels hold the values `cpu_update` derives from the thread list `b` -/
def CpuValsOK (c : Cpu) (b : List Thread) : Prop :=
  ∃ vn, CpuChansOK c vn (uniq (runOf b) (·.pid)) (uniq (runOf b) (·.tid))
    (uniq (runOf b) (fun t => (t.gindex : Int))) (uniq (actOf b) (fun t => (t.gindex : Int))) ∧
    NrunVal vn (runOf b).length

/-- all five channels of the CPU are flushed single `IGNORE_DUP` channels -/
def CpuClean (c : Cpu) : Prop := ∃ vn vp vt vr va, CpuChansOK c vn vp vt vr va

theorem CpuValsOK.clean {c : Cpu} {b : List Thread} (h : CpuValsOK c b) : CpuClean c := by
  obtain ⟨vn, h, _⟩ := h; exact ⟨_, _, _, _, _, h⟩

structure CpuOK (ths : List Thread) (g : Nat) (c : Cpu) : Prop where
  gidx : c.gindex = g
  mem : Membership ths g c.threads
  vals : CpuValsOK c (onCpu ths g)
  phys : c.virt = false → (runOf (onCpu ths g)).length ≤ 1

/-- Well-formed (flushed) emulator state. -/
structure WF (e : Emu) : Prop where
  th : ∀ i t, e.threads[i]? = some t → ThreadOK e.cpus.length i t
  cpu : ∀ g c, e.cpus[g]? = some c → CpuOK e.threads g c

theorem ThreadOK.flush {n g : Nat} {t : Thread} (h : ThreadOK n g t) : ThreadOK n g t.flush :=
  { gidx := h.gidx, chState := h.chState.flush, chTid := h.chTid.flush, chCpu := h.chCpu.flush,
    cpuIff := h.cpuIff, cpuLt := h.cpuLt, inCpu := h.inCpu }

theorem CpuChansOK.withVals_flush {c : Cpu} {vn vp vt vr va : Value} (h : CpuChansOK c vn vp vt vr va)
    (b : List Thread) : CpuValsOK (c.withVals b).flush b :=
  ⟨_, { nrun := h.nrun.setv_flush _, pid := h.pid.setv_flush _, tid := h.tid.setv_flush _,
        thrun := h.thrun.setv_flush _, thact := h.thact.setv_flush _ }, Or.inl rfl⟩

theorem CpuValsOK.flush {c : Cpu} {b : List Thread} (h : CpuValsOK c b) : CpuValsOK c.flush b := by
  obtain ⟨vn, h, hn⟩ := h
  exact ⟨vn, { nrun := h.nrun.flush, pid := h.pid.flush, tid := h.tid.flush, thrun := h.thrun.flush,
               thact := h.thact.flush }, hn⟩

theorem CpuOK.flush {ths : List Thread} {g : Nat} {c : Cpu} (h : CpuOK ths g c) : CpuOK ths g c.flush :=
  { gidx := h.gidx, mem := h.mem, vals := h.vals.flush, phys := h.phys }

theorem onCpu_map_flush (ths : List Thread) (g : Nat) :
    onCpu (ths.map Thread.flush) g = (onCpu ths g).map Thread.flush := by
  unfold onCpu; rw [List.filter_map]; rfl

theorem map_key_map_flush (b : List Thread) : (b.map Thread.flush).map Thread.key = b.map Thread.key := by
  rw [List.map_map]; rfl

theorem CpuValsOK.congr {c : Cpu} {b b' : List Thread} (h : b.map Thread.key = b'.map Thread.key)
    (hv : CpuValsOK c b) : CpuValsOK c b' := by
  obtain ⟨e1, e2, e3, e4, e5⟩ := vals_congr_key h
  unfold CpuValsOK at hv ⊢
  rw [← e1, ← e2, ← e3, ← e4, ← e5]; exact hv

theorem Membership.map_flush {ths : List Thread} {g : Nat} {l : List Nat} (h : Membership ths g l) :
    Membership (ths.map Thread.flush) g l := by
  refine ⟨h.nodup, fun i => ?_⟩
  rw [h.mem, List.getElem?_map]
  constructor
  · rintro ⟨t, ht, hc⟩; exact ⟨t.flush, by simp [ht], hc⟩
  · rintro ⟨t, ht, hc⟩
    cases hth : ths[i]? with
    | none => simp [hth] at ht
    | some u => simp [hth] at ht; subst ht; exact ⟨u, rfl, hc⟩

theorem CpuOK.map_flush {ths : List Thread} {g : Nat} {c : Cpu} (h : CpuOK ths g c) :
    CpuOK (ths.map Thread.flush) g c := by
  have hk : (onCpu ths g).map Thread.key = (onCpu (ths.map Thread.flush) g).map Thread.key := by
    rw [onCpu_map_flush, map_key_map_flush]
  refine ⟨h.gidx, h.mem.map_flush, h.vals.congr hk, fun hv => ?_⟩
  rw [runOf_length_key, ← hk, ← runOf_length_key]; exact h.phys hv

/-- assembling the invariant after a step, thread by thread and CPU by CPU -/
theorem WF.assemble (e : Emu) (ths' : List Thread) (cpus' : List Cpu)
    (hT : ∀ i t, ths'[i]? = some t → ThreadOK cpus'.length i t.flush)
    (hC : ∀ g c, cpus'[g]? = some c → CpuOK ths' g c.flush) :
    WF ({ e with threads := ths', cpus := cpus' } : Emu).flushAll := by
  rw [Emu.flushAll_eq]
  constructor
  · intro i t ht
    simp only [List.getElem?_map, List.length_map] at ht ⊢
    cases h : ths'[i]? with
    | none => simp [h] at ht
    | some u => simp [h] at ht; subst ht; exact hT i u h
  · intro g c hc
    simp only [List.getElem?_map] at hc ⊢
    cases h : cpus'[g]? with
    | none => simp [h] at hc
    | some u => simp [h] at hc; subst hc; exact (hC g u h).map_flush

/-! ### one CPU after `cpu_update`, and the CPUs a step does not touch -/

/-- `cpu_update` on list `c.threads`, evaluated against thread table `ths`, leaves the CPU
    well-formed w.r.t. the final thread table `ths2` -/
theorem cpuOK_after_update {c : Cpu} (hcl : CpuClean c)
    {ths ths2 : List Thread} {g : Nat} (hg : c.gindex = g)
    (hagree : ∀ i ∈ c.threads, (ths[i]?).map Thread.key = (ths2[i]?).map Thread.key)
    (hm : Membership ths2 g c.threads)
    (hphys : c.virt = false → (runOf (boundOf ths c.threads)).length ≤ 1) :
    CpuOK ths2 g (c.withVals (boundOf ths c.threads)).flush := by
  obtain ⟨vn, vp, vt, vr, va, hch⟩ := hcl
  refine ⟨hg, hm, ?_, fun hv => ?_⟩
  · rw [withVals_spec c hagree hm]; exact hch.withVals_flush _
  · rw [← runOf_length_spec hagree hm]; exact hphys hv

theorem onCpu_set_other {ths : List Thread} {ti g : Nat} {t t' : Thread} (ht : ths[ti]? = some t)
    (h1 : t.cpu ≠ some g) (h2 : t'.cpu ≠ some g) : onCpu (ths.set ti t') g = onCpu ths g := by
  unfold onCpu
  exact filter_set_irrelevant _ t' ths ti t ht (by simpa using h1) (by simpa using h2)

theorem Membership.set_other {ths : List Thread} {ti g : Nat} {t t' : Thread} {l : List Nat}
    (h : Membership ths g l) (ht : ths[ti]? = some t) (h1 : t.cpu ≠ some g) (h2 : t'.cpu ≠ some g) :
    Membership (ths.set ti t') g l := by
  refine ⟨h.nodup, fun i => ?_⟩
  rw [h.mem]
  by_cases hi : ti = i
  · subst hi
    have hlt : ti < ths.length := by
      rcases Nat.lt_or_ge ti ths.length with h | h
      · exact h
      · rw [List.getElem?_eq_none h] at ht; cases ht
    rw [List.getElem?_set_self hlt, ht]
    constructor
    · rintro ⟨u, hu, hc⟩; cases hu; exact absurd hc h1
    · rintro ⟨u, hu, hc⟩; cases hu; exact absurd hc h2
  · rw [List.getElem?_set_ne hi]

/-- a CPU neither the old nor the new value of the changed thread is bound to is unaffected -/
theorem CpuOK.set_other {ths : List Thread} {ti g : Nat} {t t' : Thread} {c : Cpu}
    (h : CpuOK ths g c) (ht : ths[ti]? = some t) (h1 : t.cpu ≠ some g) (h2 : t'.cpu ≠ some g) :
    CpuOK (ths.set ti t') g c := by
  refine ⟨h.gidx, h.mem.set_other ht h1 h2, ?_, ?_⟩
  · rw [onCpu_set_other ht h1 h2]; exact h.vals
  · rw [onCpu_set_other ht h1 h2]; exact h.phys


/-! ### cpu_add_thread / cpu_remove_thread / cpu_update(th->cpu) on the emulator -/

/-- the emulator after `cpu_update` of CPU `ci` (old value `c`) with thread list `l` -/
def Emu.updCpu (e : Emu) (ci : Nat) (c : Cpu) (l : List Nat) : Emu :=
  { e with cpus := e.cpus.set ci (({ c with threads := l } : Cpu).withVals (boundOf e.threads l)) }

/-- the oversubscription guard of `cpu_update` -/
def overGuard (ths : List Thread) (l : List Nat) (virt : Bool) : Bool :=
  decide ((runOf (boundOf ths l)).length > 1) && !virt

theorem cpuUpdateList_eq {c : Cpu} (hcl : CpuClean c)
    (ths : List Thread) (l : List Nat) :
    cpuUpdate ths { c with threads := l } =
      if overGuard ths l c.virt then .error .oversub
      else .ok (({ c with threads := l } : Cpu).withVals (boundOf ths l)) := by
  obtain ⟨vn, vp, vt, vr, va, h⟩ := hcl
  exact cpuUpdate_eq (c := { c with threads := l }) ⟨h.nrun, h.pid, h.tid, h.thrun, h.thact⟩ ths

theorem cpuRefresh_eq {e : Emu} {ci : Nat} {c : Cpu}
    (hc : e.cpus[ci]? = some c) (hg : c.gindex = ci) (h : CpuClean c) :
    cpuRefresh e ci =
      if overGuard e.threads c.threads c.virt then .error .oversub
      else .ok (e.updCpu ci c c.threads) := by
  unfold cpuRefresh
  simp only [hc]
  have hu : cpuUpdate e.threads c = _ := cpuUpdateList_eq h e.threads c.threads
  rw [hu]
  by_cases ho : overGuard e.threads c.threads c.virt = true
  · simp only [ho, if_true]; rfl
  · simp only [ho]
    show Except.ok _ = Except.ok _
    congr 1
    unfold Emu.setCpu Emu.updCpu
    simp only [Cpu.withVals, hg]

theorem cpuAddThread_eq {e : Emu} {ci : Nat} {c : Cpu}
    (hc : e.cpus[ci]? = some c) (hg : c.gindex = ci) (h : CpuClean c) (ti : Nat) :
    cpuAddThread e ci ti =
      if c.threads.contains ti then .error .cpuList
      else if overGuard e.threads (c.threads ++ [ti]) c.virt then .error .oversub
      else .ok (e.updCpu ci c (c.threads ++ [ti])) := by
  unfold cpuAddThread
  simp only [hc]
  by_cases hin : c.threads.contains ti = true
  · simp only [hin, if_true]; rfl
  · simp only [hin]
    rw [cpuUpdateList_eq h e.threads (c.threads ++ [ti])]
    by_cases ho : overGuard e.threads (c.threads ++ [ti]) c.virt = true
    · simp only [ho, if_true]; rfl
    · simp only [ho]
      show Except.ok _ = Except.ok _
      congr 1
      unfold Emu.setCpu Emu.updCpu
      simp only [Cpu.withVals, hg]

theorem cpuRemoveThread_eq {e : Emu} {ci : Nat} {c : Cpu}
    (hc : e.cpus[ci]? = some c) (hg : c.gindex = ci) (h : CpuClean c) (ti : Nat) :
    cpuRemoveThread e ci ti =
      if !c.threads.contains ti then .error .cpuList
      else if overGuard e.threads (c.threads.erase ti) c.virt then .error .oversub
      else .ok (e.updCpu ci c (c.threads.erase ti)) := by
  unfold cpuRemoveThread
  simp only [hc]
  by_cases hin : (!c.threads.contains ti) = true
  · simp only [hin, if_true]; rfl
  · simp only [hin]
    rw [cpuUpdateList_eq h e.threads (c.threads.erase ti)]
    by_cases ho : overGuard e.threads (c.threads.erase ti) c.virt = true
    · simp only [ho, if_true]; rfl
    · simp only [ho]
      show Except.ok _ = Except.ok _
      congr 1
      unfold Emu.setCpu Emu.updCpu
      simp only [Cpu.withVals, hg]


theorem lt_of_getElem? {α} {l : List α} {i : Nat} {a : α} (h : l[i]? = some a) : i < l.length := by
  rcases Nat.lt_or_ge i l.length with h' | h'
  · exact h'
  · rw [List.getElem?_eq_none h'] at h; cases h

theorem Membership.not_mem {ths : List Thread} {g ti : Nat} {l : List Nat} {t : Thread}
    (h : Membership ths g l) (ht : ths[ti]? = some t) (h1 : t.cpu ≠ some g) : ti ∉ l := by
  intro hin
  obtain ⟨u, hu, hc⟩ := (h.mem ti).mp hin
  rw [ht] at hu; cases hu; exact h1 hc

theorem Membership.mem_of {ths : List Thread} {g ti : Nat} {l : List Nat} {t : Thread}
    (h : Membership ths g l) (ht : ths[ti]? = some t) (h1 : t.cpu = some g) : ti ∈ l :=
  (h.mem ti).mpr ⟨t, ht, h1⟩

theorem Membership.set_same {ths : List Thread} {ti g : Nat} {t t' : Thread} {l : List Nat}
    (h : Membership ths g l) (ht : ths[ti]? = some t) (hc : t'.cpu = t.cpu) :
    Membership (ths.set ti t') g l := by
  refine ⟨h.nodup, fun i => ?_⟩
  rw [h.mem]
  by_cases hi : ti = i
  · subst hi
    rw [List.getElem?_set_self (lt_of_getElem? ht), ht]
    constructor
    · rintro ⟨u, hu, hcu⟩; cases hu; exact ⟨t', rfl, hc ▸ hcu⟩
    · rintro ⟨u, hu, hcu⟩; cases hu; exact ⟨t, rfl, hc ▸ hcu⟩
  · rw [List.getElem?_set_ne hi]

theorem Membership.set_add {ths : List Thread} {ti g : Nat} {t t' : Thread} {l : List Nat}
    (h : Membership ths g l) (ht : ths[ti]? = some t) (h1 : t.cpu ≠ some g) (h2 : t'.cpu = some g) :
    Membership (ths.set ti t') g (l ++ [ti]) := by
  have hnot := h.not_mem ht h1
  refine ⟨?_, fun i => ?_⟩
  · rw [List.nodup_append]
    refine ⟨h.nodup, by simp, ?_⟩
    intro a ha b hb hab
    rw [List.mem_singleton] at hb
    subst hab; subst hb; exact hnot ha
  · rw [List.mem_append, List.mem_singleton, h.mem]
    by_cases hi : ti = i
    · subst hi
      rw [List.getElem?_set_self (lt_of_getElem? ht)]
      constructor
      · intro _; exact ⟨t', rfl, h2⟩
      · intro _; exact Or.inr rfl
    · rw [List.getElem?_set_ne hi]
      constructor
      · rintro (h' | h')
        · exact h'
        · exact absurd h'.symm hi
      · intro h'; exact Or.inl h'

theorem Membership.set_remove {ths : List Thread} {ti g : Nat} {t t' : Thread} {l : List Nat}
    (h : Membership ths g l) (ht : ths[ti]? = some t) (h2 : t'.cpu ≠ some g) :
    Membership (ths.set ti t') g (l.erase ti) := by
  refine ⟨h.nodup.erase ti, fun i => ?_⟩
  rw [h.nodup.mem_erase_iff, h.mem]
  by_cases hi : ti = i
  · subst hi
    rw [List.getElem?_set_self (lt_of_getElem? ht)]
    constructor
    · rintro ⟨hne, _⟩; exact absurd rfl hne
    · rintro ⟨u, hu, hcu⟩; cases hu; exact absurd hcu h2
  · rw [List.getElem?_set_ne hi]
    constructor
    · rintro ⟨_, h'⟩; exact h'
    · intro h'; exact ⟨fun h'' => hi h''.symm, h'⟩


end Ovni.Emu
