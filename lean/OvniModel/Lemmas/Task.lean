import OvniModel.Emu.TaskSpec
/-! Helper lemmas for C07: abstraction function, invariant, simulation. -/
namespace Ovni.Task
open Spec

/-- Phase of a body state (`Created` = never ran = absent in the spec). -/
def phaseOf : BodyState → Option Phase
  | .created => none
  | .running => some .running
  | .paused => some .paused
  | .dead => some .dead

/-- Abstraction function from the C-shaped state to the specification state. -/
def abs (σ : Sys) : Abs :=
  { types := fun ty => (σ.types ty).isSome
    flags := fun t => (σ.tasks t).map (·.flags)
    phase := fun t b => (σ.bodies t b).bind (fun B => phaseOf B.state)
    stack := σ.stacks }

/-- Representation invariant of the C-shaped state. -/
structure Inv (σ : Sys) : Prop where
  taskId : ∀ t T, σ.tasks t = some T → T.id = t
  body : ∀ t b B, σ.bodies t b = some B →
    b ≠ 0 ∧ B.state ≠ .created ∧ ∃ T, σ.tasks t = some T ∧ B.flags = bodyFlagsOf T.flags
  bodyId : ∀ t b B, σ.bodies t b = some B → B.id = b
  nbodies : ∀ t T, σ.tasks t = some T → (T.nbodies = 0 ↔ ∀ b, σ.bodies t b = none)
  onStack : ∀ t b s, (t, b) ∈ σ.stacks s ↔ ∃ B, σ.bodies t b = some B ∧ B.stack = some s
  stackState : ∀ t b B, σ.bodies t b = some B →
    (B.stack ≠ none ↔ (B.state = .running ∨ B.state = .paused))
  nodup : ∀ s, (σ.stacks s).Nodup

theorem inv_init : Inv Sys.init := by
  constructor <;> simp [Sys.init]

/-- `σ'` is `σ` with task `t`, body `(t,b)` and stack `s` replaced. -/
structure Upd (σ σ' : Sys) (t b s : Nat) (T' : Task) (Bn : Body) (l : List Ref) : Prop where
  types : σ'.types = σ.types
  tasks : ∀ i, σ'.tasks i = if i = t then some T' else σ.tasks i
  bodies : ∀ i j, σ'.bodies i j = if i = t ∧ j = b then some Bn else σ.bodies i j
  stacks : ∀ i, σ'.stacks i = if i = s then l else σ.stacks i

theorem Abs.ext' {a a' : Abs} (h1 : ∀ i, a.types i = a'.types i) (h2 : ∀ i, a.flags i = a'.flags i)
    (h3 : ∀ i j, a.phase i j = a'.phase i j) (h4 : ∀ i, a.stack i = a'.stack i) : a = a' := by
  cases a; cases a'
  simp only [Abs.mk.injEq]
  exact ⟨funext h1, funext h2, funext fun i => funext (h3 i), funext h4⟩

theorem abs_upd {σ σ' : Sys} {t b s : Nat} {T T' : Task} {Bn : Body} {l : List Ref} {p : Phase}
    (u : Upd σ σ' t b s T' Bn l) (hT : σ.tasks t = some T) (hf : T'.flags = T.flags)
    (hp : phaseOf Bn.state = some p) :
    abs σ' = ((abs σ).setPhase t b p).setStack s l := by
  apply Abs.ext'
  · intro i; simp [abs, Abs.setPhase, Abs.setStack, u.types]
  · intro i; simp only [abs, Abs.setPhase, Abs.setStack, u.tasks]
    split
    · subst_vars; simp [hT, hf]
    · rfl
  · intro i j; simp only [abs, Abs.setPhase, Abs.setStack, u.bodies]
    split
    · simp [hp]
    · rfl
  · intro i; simp only [abs, Abs.setPhase, Abs.setStack, u.stacks]

/-- The invariant survives replacing one body, its task record and one stack,
    provided the new pieces are consistent with each other. -/
theorem inv_upd {σ σ' : Sys} {t b s : Nat} {T T' : Task} {Bn : Body} {l : List Ref}
    (inv : Inv σ) (u : Upd σ σ' t b s T' Bn l) (hT : σ.tasks t = some T)
    (hid : T'.id = t) (hf : T'.flags = T.flags) (hn : T'.nbodies ≠ 0)
    (hb : b ≠ 0) (hbid : Bn.id = b) (hst : Bn.state ≠ .created) (hbf : Bn.flags = bodyFlagsOf T.flags)
    (hss : Bn.stack ≠ none ↔ (Bn.state = .running ∨ Bn.state = .paused))
    (hl : l.Nodup)
    (hmem : ∀ r, r ∈ l ↔ (r = (t, b) ∧ Bn.stack = some s) ∨ (r ≠ (t, b) ∧ r ∈ σ.stacks s))
    (hown : ∀ s', Bn.stack = some s' → s' = s)
    (hold : ∀ i, i ≠ s → (t, b) ∉ σ.stacks i) : Inv σ' := by
  constructor
  · intro i Ti h
    rw [u.tasks] at h
    split at h
    · cases h; subst_vars; rfl
    · exact inv.taskId i Ti h
  · intro i j B h
    rw [u.bodies] at h
    split at h
    · rename_i hij
      cases h; obtain ⟨rfl, rfl⟩ := hij
      refine ⟨hb, hst, T', ?_, ?_⟩
      · simp [u.tasks]
      · rw [hf]; exact hbf
    · obtain ⟨h1, h2, Ti, h3, h4⟩ := inv.body i j B h
      refine ⟨h1, h2, ?_⟩
      rw [u.tasks]
      split
      · subst_vars; rw [hT] at h3; cases h3; exact ⟨T', rfl, by rw [hf]; exact h4⟩
      · exact ⟨Ti, h3, h4⟩
  · intro i j B h
    rw [u.bodies] at h
    split at h
    · rename_i hij
      cases h; exact hbid.trans hij.2.symm
    · exact inv.bodyId i j B h
  · intro i Ti h
    rw [u.tasks] at h
    split at h
    · cases h; subst_vars
      constructor
      · intro h0; exact absurd h0 hn
      · intro hall; have := hall Bn.id; rw [u.bodies] at this; simp at this
    · rename_i hne
      have := inv.nbodies i Ti h
      rw [this]
      constructor
      · intro hall j; rw [u.bodies]; split
        · rename_i hij; exact absurd hij.1 hne
        · exact hall j
      · intro hall j; have := hall j; rw [u.bodies] at this; split at this
        · rename_i hij; exact absurd hij.1 hne
        · exact this
  · intro i j s0
    rw [u.stacks, u.bodies]
    by_cases hs : s0 = s
    · subst hs
      simp only [if_true]
      rw [hmem]
      by_cases hij : i = t ∧ j = b
      · obtain ⟨rfl, rfl⟩ := hij
        simp
      · have hne : (i, j) ≠ (t, b) := by
          intro h; apply hij; cases h; exact ⟨rfl, rfl⟩
        simp only [hne, false_and, ne_eq, not_false_eq_true, true_and, false_or, if_neg hij]
        exact inv.onStack i j s0
    · simp only [if_neg hs]
      by_cases hij : i = t ∧ j = b
      · obtain ⟨rfl, rfl⟩ := hij
        simp only [and_self, if_true]
        constructor
        · intro h; exact absurd h (hold s0 hs)
        · rintro ⟨B, hB, hBs⟩; cases hB; exact absurd (hown _ hBs) hs
      · simp only [if_neg hij]
        exact inv.onStack i j s0
  · intro i j B h
    rw [u.bodies] at h
    split at h
    · cases h; exact hss
    · exact inv.stackState i j B h
  · intro i
    rw [u.stacks]
    split
    · exact hl
    · exact inv.nodup i

/-- The nesting guard of `body_execute` as a proposition. -/
def startOk (σ : Sys) (s : Nat) : Prop :=
  match σ.running s with
  | none => True
  | some (_, top) => top.flags.relax = true

theorem nestGuard_ok {σ : Sys} {s : Nat} : nestGuard σ s = .ok () ↔ startOk σ s := by
  unfold nestGuard startOk
  cases σ.running s with
  | none => simp
  | some p => obtain ⟨r, top⟩ := p; by_cases h : top.flags.relax = true <;> simp [h]

theorem nestGuard_err {σ : Sys} {s : Nat} {e : Err} : nestGuard σ s = .error e → ¬ startOk σ s := by
  intro h hs
  rw [nestGuard_ok.2 hs] at h; cases h

theorem phaseOf_running {st : BodyState} : phaseOf st = some .running ↔ st = .running := by
  cases st <;> simp [phaseOf]

theorem phaseOf_paused {st : BodyState} : phaseOf st = some .paused ↔ st = .paused := by
  cases st <;> simp [phaseOf]

theorem phaseOf_dead {st : BodyState} : phaseOf st = some .dead ↔ st = .dead := by
  cases st <;> simp [phaseOf]

theorem phaseOf_none {st : BodyState} : phaseOf st = none ↔ st = .created := by
  cases st <;> simp [phaseOf]

theorem abs_phase {σ : Sys} {t b : Nat} {B : Body} (h : σ.bodies t b = some B) :
    (abs σ).phase t b = phaseOf B.state := by
  simp [abs, h]

theorem abs_phase_none {σ : Sys} (inv : Inv σ) {t b : Nat} :
    (abs σ).phase t b = none ↔ σ.bodies t b = none := by
  cases h : σ.bodies t b with
  | none => simp [abs, h]
  | some B =>
    simp only [abs_phase h, phaseOf_none, reduceCtorEq, iff_false]
    exact (inv.body t b B h).2.1

theorem abs_flags {σ : Sys} {t : Nat} {f : TaskFlags} :
    (abs σ).flags t = some f ↔ ∃ T, σ.tasks t = some T ∧ T.flags = f := by
  simp [abs]

theorem startOk_iff {σ : Sys} (inv : Inv σ) (s : Nat) : startOk σ s ↔ (abs σ).canStart s := by
  unfold startOk Sys.running Abs.canStart Abs.isTop
  cases hh : (σ.stacks s).head? with
  | none => simp [abs, hh]
  | some r =>
    obtain ⟨t', b'⟩ := r
    have hmem : (t', b') ∈ σ.stacks s := List.mem_of_mem_head? (by rw [hh]; rfl)
    obtain ⟨B, hB, _⟩ := (inv.onStack t' b' s).1 hmem
    obtain ⟨_, _, T, hT, hBf⟩ := inv.body t' b' B hB
    have hst : (abs σ).stack s = σ.stacks s := rfl
    simp only [hB, hst, hh]
    by_cases hr : B.state = .running
    · simp only [hr, if_true]
      constructor
      · intro hrel t b heq _
        cases heq
        exact ⟨T.flags, abs_flags.2 ⟨T, hT, rfl⟩, by rw [hBf] at hrel; exact hrel⟩
      · intro h
        obtain ⟨f, hf, hrel⟩ := h t' b' rfl (by rw [abs_phase hB, hr]; rfl)
        obtain ⟨T2, hT2, rfl⟩ := abs_flags.1 hf
        rw [hT] at hT2; cases hT2
        rw [hBf]; exact hrel
    · simp only [if_neg hr, true_iff]
      intro t b heq hph
      cases heq
      rw [abs_phase hB, phaseOf_running] at hph
      exact absurd hph hr

/-- `body_get_running` does not see a body that is not Running, so creating a
    (Created) body that did not exist does not change it. -/
theorem running_newBody {σ σ1 : Sys} {s t b : Nat} {B0 : Body}
    (hs : σ1.stacks = σ.stacks)
    (hb : ∀ i j, σ1.bodies i j = if i = t ∧ j = b then some B0 else σ.bodies i j)
    (hnone : σ.bodies t b = none) (hc : B0.state = .created) :
    σ1.running s = σ.running s := by
  unfold Sys.running
  rw [hs]
  cases (σ.stacks s).head? with
  | none => rfl
  | some r =>
    simp only [hb]
    by_cases hr : r.1 = t ∧ r.2 = b
    · simp [hr, hnone, hc]
    · simp [hr]

theorem onTop_ok {σ : Sys} {s t b : Nat} {B : Body} :
    onTop σ s t b B = .ok () ↔ B.stack = some s ∧ σ.top s = some (t, b) := by
  unfold onTop
  cases B.stack with
  | none => simp
  | some s' =>
    by_cases h1 : s' = s
    · by_cases h2 : σ.top s = some (t, b) <;> simp [h1, h2]
    · simp [h1]

theorem onTop_cases {σ : Sys} {s t b : Nat} {B : Body} :
    (∃ e, onTop σ s t b B = .error e) ∨ onTop σ s t b B = .ok () := by
  cases h : onTop σ s t b B with
  | error e => exact .inl ⟨e, rfl⟩
  | ok u => exact .inr rfl

theorem bodyExecute_ok {σ σ' : Sys} {s t b : Nat} {B : Body} :
    bodyExecute σ s t b B = .ok σ' ↔
      ∃ B1, resurrect B = .ok B1 ∧ B1.state = .created ∧ B1.stack = none ∧ startOk σ s ∧
        σ' = (σ.setBody t b { B1 with stack := some s, state := .running }).setStack s
              ((t, b) :: σ.stacks s) := by
  unfold bodyExecute
  cases hr : resurrect B with
  | error e => simp
  | ok B1 =>
    simp only [Except.ok.injEq, exists_eq_left']
    by_cases h1 : B1.state = .paused
    · simp [h1]
    · by_cases h2 : B1.state = .created
      · by_cases h3 : B1.stack = none
        · cases hg : nestGuard σ s with
          | error e => simp [h2, h3, nestGuard_err hg]
          | ok u =>
            have := nestGuard_ok.1 hg
            simp [h2, h3, this, eq_comm]
        · simp [h2, h3]
      · simp [h1, h2]

theorem resurrect_dead {B B1 : Body} (hnc : B.state ≠ .created) :
    (resurrect B = .ok B1 ∧ B1.state = .created) ↔
      B.state = .dead ∧ B.flags.resurrect = true ∧
        B1 = { B with state := .created, iteration := B.iteration + 1 } := by
  unfold resurrect
  by_cases hd : B.state = .dead
  · by_cases hr : B.flags.resurrect = true
    · simp only [hd, hr, if_true, Except.ok.injEq, true_and]
      constructor
      · rintro ⟨rfl, _⟩; rfl
      · rintro rfl; exact ⟨rfl, rfl⟩
    · simp [hd, hr]
  · simp only [hd, if_false, Except.ok.injEq, false_and, iff_false, not_and]
    rintro rfl; exact hnc

/-- Shape of the state after a successful `task_execute`. -/
theorem upd_start {σ σ0 : Sys} {s t b : Nat} {T' : Task} {Bn : Body}
    (ht : ∀ i, σ0.tasks i = if i = t then some T' else σ.tasks i)
    (hty : σ0.types = σ.types) (hs : σ0.stacks = σ.stacks)
    (hb : ∀ i j, i ≠ t ∨ j ≠ b → σ0.bodies i j = σ.bodies i j) :
    Upd σ ((σ0.setBody t b Bn).setStack s ((t, b) :: σ0.stacks s)) t b s T' Bn ((t, b) :: σ.stacks s) := by
  constructor
  · exact hty
  · exact ht
  · intro i j
    simp only [Sys.setBody, Sys.setStack]
    split
    · rfl
    · rename_i h
      apply hb
      by_cases hi : i = t
      · right; intro hj; exact h ⟨hi, hj⟩
      · left; exact hi
  · intro i
    simp only [Sys.setBody, Sys.setStack, hs]

theorem exec_sound {σ σ' : Sys} {s t b : Nat} (inv : Inv σ)
    (h : step σ (.exec s t b) = .ok σ') :
    Inv σ' ∧ Step (abs σ) (.exec s t b) (abs σ') := by
  simp only [step, taskExecute] at h
  cases hT : σ.tasks t with
  | none => simp [hT] at h
  | some T =>
    have hid := inv.taskId t T hT
    subst hid
    have hid : T.id = T.id := rfl
    simp only [hT] at h
    have hfl : (abs σ).flags T.id = some T.flags := abs_flags.2 ⟨T, hT, rfl⟩
    cases hB : σ.bodies T.id b with
    | some B =>
      simp only [hB] at h
      obtain ⟨B1, hr, hc, hsn, hok, rfl⟩ := bodyExecute_ok.1 h
      obtain ⟨hb0, hnc, T2, hT2, hBf⟩ := inv.body T.id b B hB
      rw [hT] at hT2; cases hT2
      obtain ⟨hd, hres, rfl⟩ := (resurrect_dead hnc).1 ⟨hr, hc⟩
      have hnone : B.stack = none := hsn
      have hnotin : ∀ i, (T.id, b) ∉ σ.stacks i := by
        intro i hm
        obtain ⟨B', hB', hs'⟩ := (inv.onStack T.id b i).1 hm
        rw [hB] at hB'; cases hB'; rw [hnone] at hs'; cases hs'
      have u := upd_start (σ := σ) (σ0 := σ) (s := s) (t := T.id) (b := b) (T' := T)
        (Bn := { B with state := .running, iteration := B.iteration + 1, stack := some s })
        (by intro i; split <;> simp_all) rfl rfl (fun _ _ _ => rfl)
      refine ⟨?_, ?_⟩
      · apply inv_upd inv u hT hid rfl
        · intro h0; have := (inv.nbodies T.id T hT).1 h0 b; rw [hB] at this; cases this
        · exact hb0
        · exact inv.bodyId T.id b B hB
        · simp
        · exact hBf
        · simp
        · exact List.nodup_cons.2 ⟨hnotin s, inv.nodup s⟩
        · intro r; simp only [List.mem_cons, and_true]
          constructor
          · rintro (rfl | h)
            · exact .inl rfl
            · by_cases hr : r = (T.id, b)
              · exact .inl hr
              · exact .inr ⟨hr, h⟩
          · rintro (rfl | ⟨_, h⟩)
            · exact .inl rfl
            · exact .inr h
        · intro s' hs'; cases hs'; rfl
        · intro i _; exact hnotin i
      · rw [abs_upd u hT rfl (p := .running) rfl]
        exact Step.execAgain hfl (by rw [abs_phase hB, hd]; rfl) (by rw [hBf] at hres; exact hres)
          ((startOk_iff inv s).1 hok)
    | none =>
      simp only [hB, createBody] at h
      by_cases hpar : (!T.flags.parallel) = true ∧ T.nbodies > 0
      · simp [hpar] at h
      · by_cases hb0 : b = 0
        · rw [if_neg hpar, if_pos hb0] at h; cases h
        · simp only [hpar, hb0, if_false] at h
          obtain ⟨B1, hr, hc, hsn, hok, rfl⟩ := bodyExecute_ok.1 h
          simp only [resurrect, reduceCtorEq, if_false, Except.ok.injEq] at hr
          subst hr
          have hnotin : ∀ i, (T.id, b) ∉ σ.stacks i := by
            intro i hm
            obtain ⟨B', hB', _⟩ := (inv.onStack T.id b i).1 hm
            rw [hB] at hB'; cases hB'
          have hrun : ((σ.setBody T.id b ⟨b, bodyFlagsOf T.flags, .created, none, 0⟩).setTask T.id
              { T with nbodies := T.nbodies + 1 }).running s = σ.running s :=
            running_newBody (t := T.id) (b := b) rfl (fun _ _ => rfl) hB rfl
          have hok' : startOk σ s := by
            unfold startOk at hok ⊢; rw [hrun] at hok; exact hok
          have u := upd_start (σ := σ)
            (σ0 := (σ.setBody T.id b ⟨b, bodyFlagsOf T.flags, .created, none, 0⟩).setTask T.id
              { T with nbodies := T.nbodies + 1 }) (s := s) (t := T.id) (b := b)
            (T' := { T with nbodies := T.nbodies + 1 })
            (Bn := ⟨b, bodyFlagsOf T.flags, .running, some s, 0⟩)
            (fun _ => rfl) rfl rfl
            (by intro i j hij
                simp only [Sys.setBody, Sys.setTask]
                split
                · rename_i h; rcases hij with h' | h'
                  · exact absurd h.1 h'
                  · exact absurd h.2 h'
                · rfl)
          refine ⟨?_, ?_⟩
          · apply inv_upd inv u hT hid rfl
            · simp
            · exact hb0
            · rfl
            · simp
            · rfl
            · simp
            · exact List.nodup_cons.2 ⟨hnotin s, inv.nodup s⟩
            · intro r; simp only [List.mem_cons, and_true]
              constructor
              · rintro (rfl | h)
                · exact .inl rfl
                · by_cases hr : r = (T.id, b)
                  · exact .inl hr
                  · exact .inr ⟨hr, h⟩
              · rintro (rfl | ⟨_, h⟩)
                · exact .inl rfl
                · exact .inr h
            · intro s' hs'; cases hs'; rfl
            · intro i _; exact hnotin i
          · rw [abs_upd u hT rfl (p := .running) rfl]
            refine Step.execFirst hfl hb0 ((abs_phase_none inv).2 hB) ?_ ((startOk_iff inv s).1 hok')
            intro hp b'
            apply (abs_phase_none inv).2
            apply (inv.nbodies T.id T hT).1
            simp only [hp, Bool.not_false, true_and, gt_iff_lt, Nat.pos_iff_ne_zero, ne_eq, Decidable.not_not] at hpar
            exact hpar

theorem exec_complete {σ : Sys} {s t b : Nat} {a' : Abs} (inv : Inv σ)
    (h : Step (abs σ) (.exec s t b) a') : ∃ σ', step σ (.exec s t b) = .ok σ' := by
  generalize ha : abs σ = a at h
  cases h with
  | execFirst hf hb0 hph hpar hcan =>
    subst ha
    obtain ⟨T, hT, rfl⟩ := abs_flags.1 hf
    have hid := inv.taskId t T hT
    subst hid
    have hB := (abs_phase_none inv).1 hph
    have hok := (startOk_iff inv s).2 hcan
    simp only [step, taskExecute, hT, hB, createBody]
    have hpar' : ¬((!T.flags.parallel) = true ∧ T.nbodies > 0) := by
      rintro ⟨h1, h2⟩
      have : T.flags.parallel = false := by simpa using h1
      have hall := hpar this
      have : T.nbodies = 0 := (inv.nbodies T.id T hT).2 (fun b' => (abs_phase_none inv).1 (hall b'))
      omega
    rw [if_neg hpar', if_neg hb0]
    refine ⟨_, bodyExecute_ok.2 ⟨_, rfl, rfl, rfl, ?_, rfl⟩⟩
    have hrun : ((σ.setBody T.id b ⟨b, bodyFlagsOf T.flags, .created, none, 0⟩).setTask T.id
        { T with nbodies := T.nbodies + 1 }).running s = σ.running s :=
      running_newBody (t := T.id) (b := b) rfl (fun _ _ => rfl) hB rfl
    unfold startOk at hok ⊢
    rw [hrun]
    exact hok
  | execAgain hf hph hres hcan =>
    subst ha
    obtain ⟨T, hT, rfl⟩ := abs_flags.1 hf
    have hid := inv.taskId t T hT
    subst hid
    have hok := (startOk_iff inv s).2 hcan
    cases hB : σ.bodies T.id b with
    | none => simp [abs, hB] at hph
    | some B =>
      rw [abs_phase hB, phaseOf_dead] at hph
      obtain ⟨hb0, hnc, T2, hT2, hBf⟩ := inv.body T.id b B hB
      rw [hT] at hT2; cases hT2
      have hsn : B.stack = none := by
        have := (inv.stackState T.id b B hB)
        rw [hph] at this
        simp at this
        exact this
      simp only [step, taskExecute, hT, hB]
      have hr := (resurrect_dead (B1 := { B with state := .created, iteration := B.iteration + 1 }) hnc).2
        ⟨hph, by rw [hBf]; exact hres, rfl⟩
      exact ⟨_, bodyExecute_ok.2 ⟨_, hr.1, rfl, hsn, hok, rfl⟩⟩

/-- Shape of the state after pause / resume. -/
theorem upd_same {σ : Sys} {s t b : Nat} {T : Task} {Bn : Body} (hT : σ.tasks t = some T) :
    Upd σ (σ.setBody t b Bn) t b s T Bn (σ.stacks s) := by
  constructor
  · rfl
  · intro i; simp only [Sys.setBody]; split
    · subst_vars; exact hT
    · rfl
  · intro i j; rfl
  · intro i; simp only [Sys.setBody]; split
    · subst_vars; rfl
    · rfl

theorem top_mem {σ : Sys} {s : Nat} {r : Ref} (h : σ.top s = some r) : r ∈ σ.stacks s :=
  List.mem_of_mem_head? (by unfold Sys.top at h; rw [h]; rfl)

/-- Invariant after changing only the state of a body that stays on its stack. -/
theorem inv_restate {σ : Sys} {s t b : Nat} {T : Task} {B : Body} {st : BodyState} (inv : Inv σ)
    (hT : σ.tasks t = some T) (hB : σ.bodies t b = some B) (hs : B.stack = some s)
    (hst : st = .running ∨ st = .paused) : Inv (σ.setBody t b { B with state := st }) := by
  obtain ⟨hb0, hnc, T2, hT2, hBf⟩ := inv.body t b B hB
  rw [hT] at hT2; cases hT2
  have hin : (t, b) ∈ σ.stacks s := (inv.onStack t b s).2 ⟨B, hB, hs⟩
  apply inv_upd inv (upd_same (s := s) hT) hT (inv.taskId t T hT) rfl
  · intro h0; have := (inv.nbodies t T hT).1 h0 b; rw [hB] at this; cases this
  · exact hb0
  · exact inv.bodyId t b B hB
  · rcases hst with rfl | rfl <;> simp
  · exact hBf
  · simp [hs, hst]
  · exact inv.nodup s
  · intro r
    simp only [hs, and_true]
    by_cases hr : r = (t, b)
    · subst hr; simp [hin]
    · simp [hr]
  · intro s' h; rw [hs] at h; cases h; rfl
  · intro i hi hm
    obtain ⟨B', hB', hs'⟩ := (inv.onStack t b i).1 hm
    rw [hB] at hB'; cases hB'; rw [hs] at hs'; cases hs'; exact hi rfl

theorem abs_restate {σ : Sys} {t b : Nat} {T : Task} {Bn : Body} {p : Phase}
    (hT : σ.tasks t = some T) (hp : phaseOf Bn.state = some p) :
    abs (σ.setBody t b Bn) = (abs σ).setPhase t b p := by
  rw [abs_upd (upd_same (s := 0) hT) hT rfl hp]
  apply Abs.ext' <;> intros <;> simp only [Abs.setStack, Abs.setPhase]
  split
  · subst_vars; rfl
  · rfl

theorem pause_sound {σ σ' : Sys} {s t b : Nat} (inv : Inv σ)
    (h : step σ (.pause s t b) = .ok σ') :
    Inv σ' ∧ Step (abs σ) (.pause s t b) (abs σ') := by
  simp only [step, taskPause] at h
  cases hT : σ.tasks t with
  | none => simp [hT] at h
  | some T =>
    have hid := inv.taskId t T hT
    subst hid
    simp only [hT] at h
    cases hB : σ.bodies T.id b with
    | none => simp [hB] at h
    | some B =>
      simp only [hB, bodyPause] at h
      obtain ⟨hb0, hnc, T2, hT2, hBf⟩ := inv.body T.id b B hB
      rw [hT] at hT2; cases hT2
      by_cases hp : B.flags.pause = true
      · by_cases hr : B.state = .running
        · rcases onTop_cases (σ := σ) (s := s) (t := T.id) (b := b) (B := B) with ⟨e, he⟩ | hok
          · simp [hp, hr, he] at h
          · simp only [hp, hr, hok, Bool.not_true, Bool.false_eq_true, if_false, ne_eq,
              not_true_eq_false, Except.ok.injEq] at h
            subst h
            obtain ⟨hs, htop⟩ := onTop_ok.1 hok
            refine ⟨inv_restate inv hT hB hs (.inr rfl), ?_⟩
            rw [abs_restate hT (p := .paused) rfl]
            exact Step.pause (abs_flags.2 ⟨T, hT, rfl⟩) (by rw [hBf] at hp; exact hp)
              (by rw [abs_phase hB, hr]; rfl) htop
        · simp [hp, hr] at h
      · simp [hp] at h

theorem resume_sound {σ σ' : Sys} {s t b : Nat} (inv : Inv σ)
    (h : step σ (.resume s t b) = .ok σ') :
    Inv σ' ∧ Step (abs σ) (.resume s t b) (abs σ') := by
  simp only [step, taskResume] at h
  cases hT : σ.tasks t with
  | none => simp [hT] at h
  | some T =>
    have hid := inv.taskId t T hT
    subst hid
    simp only [hT] at h
    cases hB : σ.bodies T.id b with
    | none => simp [hB] at h
    | some B =>
      simp only [hB, bodyResume] at h
      by_cases hr : B.state = .paused
      · rcases onTop_cases (σ := σ) (s := s) (t := T.id) (b := b) (B := B) with ⟨e, he⟩ | hok
        · simp [hr, he] at h
        · simp only [hr, hok, ne_eq, not_true_eq_false, if_false, Except.ok.injEq] at h
          subst h
          obtain ⟨hs, htop⟩ := onTop_ok.1 hok
          refine ⟨inv_restate inv hT hB hs (.inl rfl), ?_⟩
          rw [abs_restate hT (p := .running) rfl]
          exact Step.resume (by rw [abs_phase hB, hr]; rfl) htop
      · simp [hr] at h

theorem bodyOfPhase {σ : Sys} {t b : Nat} {p : Phase} (h : (abs σ).phase t b = some p) :
    ∃ B, σ.bodies t b = some B ∧ phaseOf B.state = some p := by
  cases hB : σ.bodies t b with
  | none => simp [abs, hB] at h
  | some B => exact ⟨B, rfl, by rw [← abs_phase hB]; exact h⟩

/-- A body on top of stack `s` has `body->stack == s`. -/
theorem stack_of_top {σ : Sys} (inv : Inv σ) {s t b : Nat} {B : Body}
    (hB : σ.bodies t b = some B) (htop : (abs σ).isTop s t b) :
    onTop σ s t b B = .ok () := by
  have hm : (t, b) ∈ σ.stacks s := List.mem_of_mem_head? (by unfold Abs.isTop at htop; rw [show (abs σ).stack s = σ.stacks s from rfl] at htop; rw [htop]; rfl)
  obtain ⟨B', hB', hs⟩ := (inv.onStack t b s).1 hm
  rw [hB] at hB'; cases hB'
  exact onTop_ok.2 ⟨hs, htop⟩

theorem pause_complete {σ : Sys} {s t b : Nat} {a' : Abs} (inv : Inv σ)
    (h : Step (abs σ) (.pause s t b) a') : ∃ σ', step σ (.pause s t b) = .ok σ' := by
  generalize ha : abs σ = a at h
  cases h with
  | pause hf hp hph htop =>
    subst ha
    obtain ⟨T, hT, rfl⟩ := abs_flags.1 hf
    have hid := inv.taskId t T hT
    subst hid
    obtain ⟨B, hB, hst⟩ := bodyOfPhase hph
    rw [phaseOf_running] at hst
    obtain ⟨hb0, hnc, T2, hT2, hBf⟩ := inv.body T.id b B hB
    rw [hT] at hT2; cases hT2
    have hp' : B.flags.pause = true := by rw [hBf]; exact hp
    simp [step, taskPause, hT, hB, bodyPause, hp', hst, stack_of_top inv hB htop]

theorem resume_complete {σ : Sys} {s t b : Nat} {a' : Abs} (inv : Inv σ)
    (h : Step (abs σ) (.resume s t b) a') : ∃ σ', step σ (.resume s t b) = .ok σ' := by
  generalize ha : abs σ = a at h
  cases h with
  | resume hph htop =>
    subst ha
    obtain ⟨B, hB, hst⟩ := bodyOfPhase hph
    rw [phaseOf_paused] at hst
    obtain ⟨hb0, hnc, T, hT, hBf⟩ := inv.body t b B hB
    have hid := inv.taskId t T hT
    subst hid
    simp [step, taskResume, hT, hB, bodyResume, hst, stack_of_top inv hB htop]

theorem upd_end {σ : Sys} {s t b : Nat} {T : Task} {Bn : Body} {l : List Ref} (hT : σ.tasks t = some T) :
    Upd σ ((σ.setBody t b Bn).setStack s l) t b s T Bn l := by
  constructor
  · rfl
  · intro i; simp only [Sys.setBody, Sys.setStack]; split
    · subst_vars; exact hT
    · rfl
  · intro i j; rfl
  · intro i; rfl

theorem end_sound {σ σ' : Sys} {s t b : Nat} (inv : Inv σ)
    (h : step σ (.end_ s t b) = .ok σ') :
    Inv σ' ∧ Step (abs σ) (.end_ s t b) (abs σ') := by
  simp only [step, taskEnd] at h
  cases hT : σ.tasks t with
  | none => simp [hT] at h
  | some T =>
    have hid := inv.taskId t T hT
    subst hid
    simp only [hT] at h
    cases hB : σ.bodies T.id b with
    | none => simp [hB] at h
    | some B =>
      simp only [hB, bodyEnd] at h
      by_cases hr : B.state = .running
      · rcases onTop_cases (σ := σ) (s := s) (t := T.id) (b := b) (B := B) with ⟨e, he⟩ | hok
        · simp [hr, he] at h
        · simp only [hr, hok, ne_eq, not_true_eq_false, if_false, Except.ok.injEq] at h
          subst h
          obtain ⟨hs, htop⟩ := onTop_ok.1 hok
          obtain ⟨hb0, hnc, T2, hT2, hBf⟩ := inv.body T.id b B hB
          rw [hT] at hT2; cases hT2
          have u := upd_end (σ := σ) (s := s) (b := b)
            (Bn := { B with state := .dead, stack := none }) (l := (σ.stacks s).erase (T.id, b)) hT
          refine ⟨?_, ?_⟩
          · apply inv_upd inv u hT rfl rfl
            · intro h0; have := (inv.nbodies T.id T hT).1 h0 b; rw [hB] at this; cases this
            · exact hb0
            · exact inv.bodyId T.id b B hB
            · simp
            · exact hBf
            · simp
            · exact (inv.nodup s).erase _
            · intro r
              rw [(inv.nodup s).mem_erase_iff]
              simp
            · intro s' h; cases h
            · intro i hi hm
              obtain ⟨B', hB', hs'⟩ := (inv.onStack T.id b i).1 hm
              rw [hB] at hB'; cases hB'; rw [hs] at hs'; cases hs'; exact hi rfl
          · rw [abs_upd u hT rfl (p := .dead) rfl]
            have htl : (σ.stacks s).erase (T.id, b) = ((abs σ).stack s).tail := by
              show _ = (σ.stacks s).tail
              unfold Sys.top at htop
              cases hl : σ.stacks s with
              | nil => rw [hl] at htop; cases htop
              | cons x rest => rw [hl] at htop; cases htop; simp
            rw [htl]
            exact Step.end_ (by rw [abs_phase hB, hr]; rfl) htop
      · simp [hr] at h

theorem end_complete {σ : Sys} {s t b : Nat} {a' : Abs} (inv : Inv σ)
    (h : Step (abs σ) (.end_ s t b) a') : ∃ σ', step σ (.end_ s t b) = .ok σ' := by
  generalize ha : abs σ = a at h
  cases h with
  | end_ hph htop =>
    subst ha
    obtain ⟨B, hB, hst⟩ := bodyOfPhase hph
    rw [phaseOf_running] at hst
    obtain ⟨hb0, hnc, T, hT, hBf⟩ := inv.body t b B hB
    have hid := inv.taskId t T hT
    subst hid
    simp [step, taskEnd, hT, hB, bodyEnd, hst, stack_of_top inv hB htop]

theorem typeCreate_sound {σ σ' : Sys} {ty gid : Nat} (inv : Inv σ)
    (h : step σ (.typeCreate ty gid) = .ok σ') :
    Inv σ' ∧ Step (abs σ) (.typeCreate ty gid) (abs σ') := by
  simp only [step, taskTypeCreate] at h
  by_cases h1 : (σ.types ty).isSome = true
  · simp [h1] at h
  · by_cases h2 : ty = 0
    · rw [if_neg h1, if_pos h2] at h; cases h
    · simp only [h1, h2, if_false, Bool.not_true, Bool.false_eq_true, Except.ok.injEq] at h
      subst h
      refine ⟨⟨inv.taskId, inv.body, inv.bodyId, inv.nbodies, inv.onStack, inv.stackState, inv.nodup⟩, ?_⟩
      have : abs (σ.setType ty gid) = (abs σ).addType ty := by
        apply Abs.ext' <;> intros <;> simp only [abs, Sys.setType, Abs.addType]
        split <;> simp
      rw [this]
      exact Step.typeCreate h2 (by simpa [abs] using h1)

theorem typeCreate_complete {σ : Sys} {ty gid : Nat} {a' : Abs}
    (h : Step (abs σ) (.typeCreate ty gid) a') : ∃ σ', step σ (.typeCreate ty gid) = .ok σ' := by
  generalize ha : abs σ = a at h
  cases h with
  | typeCreate h0 hty =>
    subst ha
    have : (σ.types ty).isSome = false := hty
    simp [step, taskTypeCreate, this, h0]

theorem create_sound {σ σ' : Sys} {ty t : Nat} {f : TaskFlags} (inv : Inv σ)
    (h : step σ (.create ty t f) = .ok σ') :
    Inv σ' ∧ Step (abs σ) (.create ty t f) (abs σ') := by
  simp only [step, taskCreate] at h
  by_cases h1 : (σ.tasks t).isSome = true
  · simp [h1] at h
  · cases hty : σ.types ty with
    | none => simp [h1, hty] at h
    | some gid =>
      simp only [h1, hty, if_false, Bool.false_eq_true, Except.ok.injEq] at h
      subst h
      have hnone : σ.tasks t = none := by simpa using h1
      have hnb : ∀ b, σ.bodies t b = none := by
        intro b
        cases hB : σ.bodies t b with
        | none => rfl
        | some B =>
          obtain ⟨_, _, T, hT, _⟩ := inv.body t b B hB
          rw [hnone] at hT; cases hT
      refine ⟨⟨?_, ?_, inv.bodyId, ?_, inv.onStack, inv.stackState, inv.nodup⟩, ?_⟩
      · intro i Ti h
        simp only [Sys.setTask] at h
        split at h
        · cases h; subst_vars; rfl
        · exact inv.taskId i Ti h
      · intro i j B hB
        obtain ⟨a1, a2, T, hT, a3⟩ := inv.body i j B hB
        refine ⟨a1, a2, T, ?_, a3⟩
        simp only [Sys.setTask]
        split
        · subst_vars; rw [hnone] at hT; cases hT
        · exact hT
      · intro i Ti h
        simp only [Sys.setTask] at h
        split at h
        · cases h; subst_vars; simp only [true_iff]; exact hnb
        · exact inv.nbodies i Ti h
      · have : abs (σ.setTask t ⟨t, ty, gid, 0, f⟩) = (abs σ).addTask t f := by
          apply Abs.ext' <;> intros <;> simp only [abs, Sys.setTask, Abs.addTask]
          split <;> simp
        rw [this]
        exact Step.create (by simp [abs, hnone]) (by simp [abs, hty])

theorem create_complete {σ : Sys} {ty t : Nat} {f : TaskFlags} {a' : Abs}
    (h : Step (abs σ) (.create ty t f) a') : ∃ σ', step σ (.create ty t f) = .ok σ' := by
  generalize ha : abs σ = a at h
  cases h with
  | create hfl hty =>
    subst ha
    have h1 : σ.tasks t = none := by simpa [abs] using hfl
    have h2 : (σ.types ty).isSome = true := hty
    obtain ⟨gid, hg⟩ := Option.isSome_iff_exists.1 h2
    simp [step, taskCreate, h1, hg]

theorem step_sound {σ σ' : Sys} {op : Op} (inv : Inv σ) (h : step σ op = .ok σ') :
    Inv σ' ∧ Step (abs σ) op (abs σ') := by
  cases op with
  | typeCreate ty gid => exact typeCreate_sound inv h
  | create ty t f => exact create_sound inv h
  | exec s t b => exact exec_sound inv h
  | pause s t b => exact pause_sound inv h
  | resume s t b => exact resume_sound inv h
  | end_ s t b => exact end_sound inv h

theorem step_complete {σ : Sys} {op : Op} {a' : Abs} (inv : Inv σ) (h : Step (abs σ) op a') :
    ∃ σ', step σ op = .ok σ' := by
  cases op with
  | typeCreate ty gid => exact typeCreate_complete h
  | create ty t f => exact create_complete h
  | exec s t b => exact exec_complete inv h
  | pause s t b => exact pause_complete inv h
  | resume s t b => exact resume_complete inv h
  | end_ s t b => exact end_complete inv h

/-- The specification is deterministic. -/
theorem Spec.Step.det {a a1 a2 : Abs} {op : Op} (h1 : Step a op a1) (h2 : Step a op a2) : a1 = a2 := by
  cases h1 <;> cases h2 <;> rfl

theorem run_ok_iff {σ : Sys} {ops : List Op} (inv : Inv σ) :
    (∃ σ', run σ ops = .ok σ') ↔ Legal (abs σ) ops := by
  induction ops generalizing σ with
  | nil => exact ⟨fun _ => Legal.nil, fun _ => ⟨σ, rfl⟩⟩
  | cons op ops ih =>
    constructor
    · rintro ⟨σ', h⟩
      simp only [run] at h
      cases hs : step σ op with
      | error e => simp [hs] at h
      | ok σ1 =>
        simp only [hs] at h
        obtain ⟨inv1, st⟩ := step_sound inv hs
        exact Legal.cons st ((ih inv1).1 ⟨σ', h⟩)
    · intro h
      generalize ha : abs σ = a at h
      cases h with
      | cons st rest =>
        subst ha
        obtain ⟨σ1, hs⟩ := step_complete inv st
        obtain ⟨inv1, st1⟩ := step_sound inv hs
        have := Spec.Step.det st st1
        subst this
        obtain ⟨σ', h'⟩ := (ih inv1).2 rest
        exact ⟨σ', by simp only [run, hs]; exact h'⟩

theorem run_inv {σ σ' : Sys} {ops : List Op} (inv : Inv σ) (h : run σ ops = .ok σ') : Inv σ' := by
  induction ops generalizing σ with
  | nil => simp only [run, Except.ok.injEq] at h; subst h; exact inv
  | cons op ops ih =>
    simp only [run] at h
    cases hs : step σ op with
    | error e => simp [hs] at h
    | ok σ1 =>
      simp only [hs] at h
      exact ih (step_sound inv hs).1 h

end Ovni.Task
