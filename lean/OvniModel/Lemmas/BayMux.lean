import OvniModel.Lemmas.Bay

/-
  C06, one mux inside a network: effect of its own two callbacks, frame of
  everybody else's callbacks, and the invariant of the dirty phase (the
  two-phase argument: before / after the select channel's turn).
-/
namespace Ovni.Emu

theorem take_succ_of_get {α} {l : List α} {j : Nat} {x : α} (h : l[j]? = some x) :
    l.take (j + 1) = l.take j ++ [x] := by
  rw [List.take_add_one, h]; rfl

theorem drop_of_get {α} {l : List α} {j : Nat} {x : α} (h : l[j]? = some x) :
    l.drop j = x :: l.drop (j + 1) := by
  have := List.getElem?_eq_some_iff.mp h
  rw [List.drop_eq_getElem_cons this.1, this.2]

/-! ### monotonicity / transfer of the sync relation -/

theorem Bay.SyncUpTo.mono {strong : Bool} {b : Bay} {mi : Nat} {m : Mux} {P P' : Nat → Nat → Prop}
    (h : b.SyncUpTo strong mi m P) (hp : ∀ i c, m.inputs[i]? = some (some c) → P i c → P' i c) :
    b.SyncUpTo strong mi m P' := by
  obtain ⟨s, h1, h2, h3, h4⟩ := h
  refine ⟨s, h1, h2, h3, ?_⟩
  rcases h4 with h4 | ⟨i, c, hs, hi, hpc⟩
  · exact Or.inl h4
  · exact Or.inr ⟨i, c, hs, hi, hp i c hi hpc⟩

theorem Bay.SyncUpTo.weaken {strong : Bool} {b : Bay} {mi : Nat} {m : Mux} {P : Nat → Nat → Prop}
    (h : b.SyncUpTo true mi m (fun _ _ => False)) : b.SyncUpTo strong mi m P := by
  obtain ⟨s, h1, h2, h3, h4⟩ := h
  refine ⟨s, h1, h2, fun _ => h3 rfl, ?_⟩
  rcases h4 with h4 | ⟨_, _, _, _, hf⟩
  · exact Or.inl h4
  · exact hf.elim

/-- Everything the sync relation of mux `mi` looks at is the same in `b` and `b'`. -/
structure Bay.SameView (b b' : Bay) (mi : Nat) (m : Mux) : Prop where
  sel : (b'.chan m.sel).cur = (b.chan m.sel).cur
  out : (b'.chan m.out).cur = (b.chan m.out).cur
  inp : ∀ (i c : Nat), m.inputs[i]? = some (some c) → (b'.chan c).cur = (b.chan c).cur
  en : ∀ (i c : Nat), Cb.muxInput mi i ∈ b'.cbsOf c ↔ Cb.muxInput mi i ∈ b.cbsOf c
  selOf : b'.selOf mi = b.selOf mi

theorem Bay.SameView.enabled {b b' : Bay} {mi : Nat} {m : Mux} (v : b.SameView b' mi m) (i : Nat) :
    b'.enabled mi m i ↔ b.enabled mi m i := by
  unfold Bay.enabled
  constructor
  · rintro ⟨c, h1, h2⟩; exact ⟨c, h1, (v.en i c).mp h2⟩
  · rintro ⟨c, h1, h2⟩; exact ⟨c, h1, (v.en i c).mpr h2⟩

theorem Bay.SameView.specVal {b b' : Bay} {mi : Nat} {m : Mux} (v : b.SameView b' mi m) (s : Option Nat) :
    b'.specVal m s = b.specVal m s := by
  cases s with
  | none => rfl
  | some i =>
    simp only [Bay.specVal]
    split
    · rename_i c hc; rw [v.inp i c hc]
    · rfl

theorem Bay.SameView.weak {b b' : Bay} {mi : Nat} {m : Mux} (v : b.SameView b' mi m)
    (h : b.Weak mi m) : b'.Weak mi m := by
  intro i hi; rw [v.selOf]; exact h i ((v.enabled i).mp hi)

theorem Bay.SameView.sync {strong : Bool} {b b' : Bay} {mi : Nat} {m : Mux} {P P' : Nat → Nat → Prop}
    (v : b.SameView b' mi m) (h : b.SyncUpTo strong mi m P)
    (hp : ∀ i c, m.inputs[i]? = some (some c) → P i c → P' i c) : b'.SyncUpTo strong mi m P' := by
  obtain ⟨s, h1, h2, h3, h4⟩ := h
  refine ⟨s, by rw [v.sel]; exact h1, fun i => (v.enabled i).trans (h2 i), by rw [v.selOf]; exact h3, ?_⟩
  rcases h4 with h4 | ⟨i, c, hs, hi, hpc⟩
  · left; rw [v.out, v.specVal]; exact h4
  · exact Or.inr ⟨i, c, hs, hi, hp i c hi hpc⟩

/-! ### the three kinds of steps -/

/-- A callback of another mux does not disturb mux `mi` (frame condition). -/
theorem Bay.runCb_other {b b' : Bay} {cb : Cb} {mi : Nat} {m : Mux} (wf : b.WF)
    (hfr : b.Frame mi m) (hne : cb.mux ≠ mi) (h : b.runCb cb = .ok b') : b.SameView b' mi m := by
  obtain ⟨m', hm', _, hch, _, hsel, hmem, _, _⟩ := Bay.runCb_frame wf h
  obtain ⟨f1, f2, f3⟩ := hfr cb.mux m' hm'
  refine ⟨by rw [hch _ (Ne.symm f1)], by rw [hch _ (Ne.symm (f3 hne))], ?_, ?_, hsel mi (Ne.symm hne)⟩
  · intro i c hi; rw [hch]; rintro rfl; exact f2 i hi
  · intro i c; apply hmem; intro i' e; cases e; exact hne rfl

/-- `cb_select` of mux `mi` brings it in sync whatever the order of events before. -/
theorem Bay.cbSelect_sync {b b' : Bay} {mi : Nat} {m : Mux} (wf : b.WF) (hm : b.muxes[mi]? = some m)
    (hfr : b.Frame mi m) (hw : b.Weak mi m) (h : b.cbSelect mi = .ok b') :
    b'.Weak mi m ∧ b'.SyncUpTo true mi m (fun _ _ => False) := by
  obtain ⟨m0, s, hm0, hsel, hj, hi, hwr⟩ := Bay.cbSelect_ok h
  rw [hm] at hm0; cases hm0
  obtain ⟨f1, f2, _⟩ := hfr mi m hm
  have wf2 := wf.reselect hm s hj hi
  have hmi : mi < b.selected.length := by
    rw [wf.selLen]; exact (List.getElem?_eq_some_iff.mp hm).1
  -- channels
  have hchan : ∀ c, c ≠ m.out → b'.chan c = b.chan c := by
    intro c hc; rw [Bay.write_chan_ne hwr hc, Bay.reselect_chan]
  have hsel' : b'.chan m.sel = b.chan m.sel := hchan _ (Ne.symm f1)
  have hinp : ∀ (i c : Nat), m.inputs[i]? = some (some c) → b'.chan c = b.chan c := by
    intro i c hic; apply hchan; rintro rfl; exact f2 i hic
  have hspec : b'.specVal m s = b.specVal m s := by
    cases s with
    | none => rfl
    | some i =>
      simp only [Bay.specVal]
      split
      · rename_i c hc; rw [hinp i c hc]
      · rfl
  have hout : (b'.chan m.out).cur = b.specVal m s := by
    have := (Bay.write_chan_eq hwr).1
    refine Chan.set_cur this ?_
    have := wf2.outDup mi m (by rw [(Bay.reselect_fields b mi m s).2.1]; exact hm)
    exact this
  -- selected
  have hselOf : b'.selOf mi = s := by
    rw [Bay.selOf_congr (Bay.write_selected hwr)]
    exact Bay.reselect_selOf_eq b mi m s hmi hj hi
  -- enabled
  have hen : ∀ i, b'.enabled mi m i ↔ s = some i := by
    intro i
    unfold Bay.enabled
    constructor
    · rintro ⟨c, hic, hmem⟩
      rw [Bay.cbsOf_congr (Bay.write_cbs hwr), Bay.mem_reselect wf hm s hj hi] at hmem
      rcases hmem with ⟨hold, hnot⟩ | ⟨i', hs, he, _⟩
      · exfalso; apply hnot
        exact ⟨i, hw i ⟨c, hic, hold⟩, rfl, hic⟩
      · cases he; exact hs
    · intro hs
      obtain ⟨c, hic⟩ := hi i hs
      refine ⟨c, hic, ?_⟩
      rw [Bay.cbsOf_congr (Bay.write_cbs hwr), Bay.mem_reselect wf hm s hj hi]
      exact Or.inr ⟨i, hs, rfl, hic⟩
  refine ⟨?_, s, by rw [hsel']; exact hsel, hen, fun _ => hselOf, Or.inl (by rw [hout, hspec])⟩
  intro i hi'; rw [hselOf]; exact (hen i).mp hi'

/-- `cb_input` of the enabled input copies the input's value to the output. -/
theorem Bay.cbInput_step {b b' : Bay} {mi i d : Nat} {m : Mux} (wf : b.WF) (hm : b.muxes[mi]? = some m)
    (hfr : b.Frame mi m) (hmem : Cb.muxInput mi i ∈ b.cbsOf d) (h : b.cbInput mi i = .ok b') :
    m.inputs[i]? = some (some d) ∧ b'.cbs = b.cbs ∧ b'.selected = b.selected ∧
    (∀ c, c ≠ m.out → b'.chan c = b.chan c) ∧ (b'.chan m.out).cur = (b.chan d).cur := by
  obtain ⟨m0, hm0, hid⟩ := wf.inCbOnly d mi i hmem
  rw [hm] at hm0; cases hm0
  obtain ⟨m1, ic, hm1, hic, hwr⟩ := Bay.cbInput_ok h
  rw [hm] at hm1; cases hm1
  rw [hid] at hic; cases hic
  refine ⟨hid, Bay.write_cbs hwr, Bay.write_selected hwr, fun c hc => Bay.write_chan_ne hwr hc, ?_⟩
  exact Chan.set_cur (Bay.write_chan_eq hwr).1 (wf.outDup mi m hm)


/-! ### invariant of the dirty phase for one mux -/

/-- What may still fix the output while channel `d` (dirty position `k`) is at
    callback position `j`: a later dirty channel, or a later callback of `d`. -/
def Bay.pend (b : Bay) (mi k d j : Nat) : Nat → Nat → Prop :=
  fun i c => c ∈ b.dirty.drop (k + 1) ∨ (c = d ∧ Cb.muxInput mi i ∈ (b.cbsOf d).drop j)

/-- Invariant inside the walk over the callbacks of `d`. -/
def Bay.InvQ (strong : Bool) (mi : Nat) (m : Mux) (k d : Nat) (b : Bay) (j : Nat) : Prop :=
  b.muxes[mi]? = some m ∧ b.Frame mi m ∧ k < b.dirty.length ∧ b.Weak mi m ∧
  (m.sel ∉ b.dirty.drop (k + 1) → (d = m.sel → Cb.muxSelect mi ∈ (b.cbsOf d).take j) →
    b.SyncUpTo strong mi m (b.pend mi k d j))

/-- Invariant between two channels of the dirty list: once the select channel
    is behind us the mux is in sync up to pending inputs. -/
def Bay.InvC (strong : Bool) (mi : Nat) (m : Mux) (b : Bay) (k : Nat) : Prop :=
  b.muxes[mi]? = some m ∧ b.Frame mi m ∧ b.Weak mi m ∧
  (m.sel ∉ b.dirty.drop k → b.SyncUpTo strong mi m (fun _ c => c ∈ b.dirty.drop k))

theorem Bay.Frame.congr {b b' : Bay} {mi : Nat} {m : Mux} (h : b'.muxes = b.muxes) (hf : b.Frame mi m) :
    b'.Frame mi m := by
  unfold Bay.Frame at *; rw [h]; exact hf

theorem Bay.InvQ.step {strong : Bool} {mi : Nat} {m : Mux} {k d : Nat} {b b' : Bay} {j : Nat} {cb : Cb}
    (wf : b.WF) (hq : Bay.InvQ strong mi m k d b j) (hcb : (b.cbsOf d)[j]? = some cb)
    (hrun : b.runCb cb = .ok b') (hfix : b'.cbsOf d = b.cbsOf d) :
    Bay.InvQ strong mi m k d b' (j + 1) := by
  obtain ⟨hm, hfr, hk, hweak, hsync⟩ := hq
  obtain ⟨m', hm', hmux, hch, hd, hselof, hmem, _, _⟩ := Bay.runCb_frame wf hrun
  obtain ⟨f1', _, _⟩ := hfr cb.mux m' hm'
  have hm2 : b'.muxes[mi]? = some m := by rw [hmux]; exact hm
  have hfr2 : b'.Frame mi m := hfr.congr hmux
  have hmemcb : cb ∈ b.cbsOf d := List.mem_of_getElem? hcb
  -- the dirty list only grows, never by the select channel
  obtain ⟨ext, hext, hextsel⟩ : ∃ ext, b'.dirty = b.dirty ++ ext ∧ m.sel ∉ ext := by
    rcases hd with hd | hd
    · exact ⟨[], by simp [hd], by simp⟩
    · exact ⟨[m'.out], hd, by simp; exact Ne.symm f1'⟩
  have hdropeq : b'.dirty.drop (k + 1) = b.dirty.drop (k + 1) ++ ext := by
    rw [hext, List.drop_append_of_le_length (by omega)]
  have hk2 : k < b'.dirty.length := by rw [hext, List.length_append]; omega
  have hdrop : ∀ c, c ∈ b.dirty.drop (k + 1) → c ∈ b'.dirty.drop (k + 1) := by
    intro c hc; rw [hdropeq]; exact List.mem_append_left _ hc
  have hseldrop : m.sel ∉ b'.dirty.drop (k + 1) → m.sel ∉ b.dirty.drop (k + 1) :=
    fun h1 h2 => h1 (hdrop _ h2)
  obtain ⟨f1, f2, _⟩ := hfr mi m hm
  by_cases hown : cb.mux = mi
  · cases cb with
    | muxSelect mj =>
      simp only [Cb.mux] at hown; subst hown
      obtain ⟨w2, s2⟩ := Bay.cbSelect_sync wf hm hfr hweak hrun
      exact ⟨hm2, hfr2, hk2, w2, fun _ _ => s2.weaken⟩
    | muxInput mj i0 =>
      simp only [Cb.mux] at hown; subst hown
      obtain ⟨hid, hcbs, hsl, hchan, hout⟩ := Bay.cbInput_step wf hm hfr hmemcb hrun
      have hcbsOf : ∀ c, b'.cbsOf c = b.cbsOf c := Bay.cbsOf_congr hcbs
      have hselOf : b'.selOf mj = b.selOf mj := Bay.selOf_congr hsl mj
      have hen : ∀ i, b'.enabled mj m i ↔ b.enabled mj m i := by
        intro i; unfold Bay.enabled; simp only [hcbsOf]
      have hdsel : d ≠ m.sel := by
        rintro rfl; exact wf.selNotIn mj m i0 hm hid
      have hdout : d ≠ m.out := by rintro rfl; exact f2 i0 hid
      refine ⟨hm2, hfr2, hk2, ?_, ?_⟩
      · intro i hi; rw [hselOf]; exact hweak i ((hen i).mp hi)
      · intro hs' _
        obtain ⟨s, h1, h2, h3, _⟩ := hsync (hseldrop hs') (fun e => absurd e hdsel)
        have hs0 : s = some i0 := (h2 i0).mp ⟨d, hid, hmemcb⟩
        refine ⟨s, by rw [hchan _ (Ne.symm f1)]; exact h1, fun i => (hen i).trans (h2 i),
          by rw [hselOf]; exact h3, Or.inl ?_⟩
        rw [hout, hs0]
        simp only [Bay.specVal, hid]
        rw [hchan d hdout]
  · have v := Bay.runCb_other wf hfr hown hrun
    refine ⟨hm2, hfr2, hk2, v.weak hweak, ?_⟩
    intro hs' ht
    have ht0 : d = m.sel → Cb.muxSelect mi ∈ (b.cbsOf d).take j := by
      intro e
      have := ht e
      rw [hfix, take_succ_of_get hcb, List.mem_append] at this
      rcases this with h | h
      · exact h
      · simp at h; subst h; exact absurd rfl hown
    refine v.sync (hsync (hseldrop hs') ht0) ?_
    intro i c _ hp
    rcases hp with hp | ⟨hc, hp⟩
    · exact Or.inl (hdrop c hp)
    · right
      refine ⟨hc, ?_⟩
      rw [hfix]
      rw [drop_of_get hcb] at hp
      rcases List.mem_cons.mp hp with h | h
      · subst h; exact absurd rfl hown
      · exact h

theorem Bay.InvC.chan {strong : Bool} {mi : Nat} {m : Mux} {b b' : Bay} {k d : Nat}
    (wf : b.WF) (hc : Bay.InvC strong mi m b k) (hd : b.dirty[k]? = some d)
    (hrun : b.propChan (b.chanFuel d) d 0 = .ok b') : Bay.InvC strong mi m b' (k + 1) := by
  obtain ⟨hm, hfr, hweak, hsync⟩ := hc
  have hk : k < b.dirty.length := (List.getElem?_eq_some_iff.mp hd).1
  have hdropk : b.dirty.drop k = d :: b.dirty.drop (k + 1) := drop_of_get hd
  -- start of the walk
  have hq0 : Bay.InvQ strong mi m k d b 0 := by
    refine ⟨hm, hfr, hk, hweak, ?_⟩
    intro hs ht
    have hdsel : d ≠ m.sel := by
      intro e; have := ht e; simp at this
    have : m.sel ∉ b.dirty.drop k := by
      rw [hdropk]; simp; exact ⟨Ne.symm hdsel, hs⟩
    obtain ⟨s, h1, h2, h3, h4⟩ := hsync this
    refine ⟨s, h1, h2, h3, ?_⟩
    rcases h4 with h4 | ⟨i, c, hsi, hic, hp⟩
    · exact Or.inl h4
    · right
      refine ⟨i, c, hsi, hic, ?_⟩
      rw [hdropk] at hp
      rcases List.mem_cons.mp hp with h | h
      · right
        subst h
        obtain ⟨c', hic', hmem⟩ := (h2 i).mpr hsi
        rw [hic] at hic'; cases hic'
        exact ⟨rfl, by simpa using hmem⟩
      · exact Or.inl h
  obtain ⟨wf', hfix, hq⟩ := Bay.propChan_rule d (Bay.InvQ strong mi m k d)
    (fun b1 j cb b2 wf1 hq1 hcb1 hrun1 hfix1 => Bay.InvQ.step wf1 hq1 hcb1 hrun1 hfix1)
    _ b 0 b' wf hq0 (Nat.zero_le _) hrun
  obtain ⟨hm', hfr', _, hweak', hsync'⟩ := hq
  refine ⟨hm', hfr', hweak', ?_⟩
  intro hs
  have ht : d = m.sel → Cb.muxSelect mi ∈ (b'.cbsOf d).take (b.cbsOf d).length := by
    intro e
    rw [← hfix, List.take_length, e]
    exact wf'.selCb mi m hm'
  refine (hsync' hs ht).mono ?_
  intro i c _ hp
  rcases hp with hp | ⟨_, hp⟩
  · exact hp
  · rw [← hfix, List.drop_length] at hp; simp at hp


/-! ### flush phase -/

theorem Bay.flushList_eff : ∀ (cs : List Nat) (b b2 : Bay), Bay.flushList cs b = .ok b2 →
    b2.cbs = b.cbs ∧ b2.muxes = b.muxes ∧ b2.selected = b.selected ∧ b2.dirty = b.dirty ∧
    b2.emits = b.emits ∧ b2.maxStack = b.maxStack ∧ b2.chans.length = b.chans.length ∧
    ∀ c, (b2.chan c).vals = (b.chan c).vals ∧ (b2.chan c).allowDup = (b.chan c).allowDup ∧
      (b2.chan c).isStack = (b.chan c).isStack ∧ (b2.chan c).dirtyWrite = (b.chan c).dirtyWrite ∧
      (b2.chan c).ignoreDup = (b.chan c).ignoreDup ∧
      ((b2.chan c).dirty = true → (b.chan c).dirty = true ∧ c ∉ cs) ∧
      (c ∉ cs → b2.chan c = b.chan c) ∧
      (c ∈ cs → (b2.chan c).last = (b.chan c).cur) := by
  intro cs
  induction cs with
  | nil => intro b b2 h; cases h; simp
  | cons c0 cs ih =>
    intro b b2 h
    unfold Bay.flushList at h
    split at h
    · cases h
    · rename_i ch hch
      split at h
      · rename_i hdirty
        have hlt : c0 < b.chans.length := (List.getElem?_eq_some_iff.mp hch).1
        have hb : b.chan c0 = ch := getD_of_getElem? _ hch
        obtain ⟨h1, h2, h3, h4, h5, h6, h7, h8⟩ := ih _ b2 h
        refine ⟨h1, h2, h3, h4, h5, h6, by rw [h7]; simp, ?_⟩
        intro c
        obtain ⟨g1, g2, g3, g4, g5, g6, g7, g8⟩ := h8 c
        by_cases hc : c = c0
        · subst hc
          have hmid : ({ b with chans := b.chans.set c ch.flush } : Bay).chan c = ch.flush := by
            simp only [Bay.chan]; exact getD_set_eq _ _ _ _ hlt
          rw [hmid] at g1 g2 g3 g4 g5 g6 g7 g8
          have hfl : ch.flush = { ch with last := ch.cur, dirty := false } := by
            simp [Chan.flush, hdirty]
          have hcur : ch.flush.cur = ch.cur := by rw [hfl]; rfl
          rw [hb]
          refine ⟨by rw [g1, hfl], by rw [g2, hfl], by rw [g3, hfl], by rw [g4, hfl], by rw [g5, hfl], ?_, ?_, ?_⟩
          · intro hd; have := (g6 hd).1; rw [hfl] at this; simp at this
          · intro hn; simp at hn
          · intro _
            by_cases hmem : c ∈ cs
            · rw [g8 hmem, hcur]
            · rw [g7 hmem, hfl]
        · have hmid : ({ b with chans := b.chans.set c0 ch.flush } : Bay).chan c = b.chan c := by
            simp only [Bay.chan]; exact getD_set_ne _ _ _ _ _ (Ne.symm hc)
          rw [hmid] at g1 g2 g3 g4 g5 g6 g7 g8
          refine ⟨g1, g2, g3, g4, g5, ?_, ?_, ?_⟩
          · intro hd; exact ⟨(g6 hd).1, by simp [hc, (g6 hd).2]⟩
          · intro hn; simp [hc] at hn; exact g7 hn
          · intro hmem; simp [hc] at hmem; exact g8 hmem
      · cases h

/-- Decomposition of `propagate`. -/
theorem Bay.propagate_ok {b bF : Bay} {em : List (Nat × Value)} (h : b.propagate = .ok (bF, em)) :
    ∃ b1 b2, b.dirtyPhase b.chans.length 0 = .ok b1 ∧ Bay.flushList b1.dirty b1 = .ok b2 ∧
      bF = { b2 with dirty := [] } ∧ em = b1.emitPhase := by
  unfold Bay.propagate at h
  split at h
  · cases h
  · rename_i b1 h1
    split at h
    · cases h
    · rename_i b2 h2
      cases h
      exact ⟨b1, b2, h1, h2, rfl, rfl⟩

/-- The state after the flush: same connections, same values, nothing dirty. -/
theorem Bay.flush_result {b1 b2 : Bay} (wf1 : b1.WF) (h : Bay.flushList b1.dirty b1 = .ok b2) :
    ({ b2 with dirty := [] } : Bay).WF ∧ ({ b2 with dirty := [] } : Bay).Clean ∧
    (∀ c, (({ b2 with dirty := [] } : Bay).chan c).cur = (b1.chan c).cur) ∧
    (∀ c, ({ b2 with dirty := [] } : Bay).cbsOf c = b1.cbsOf c) ∧
    (∀ mi, ({ b2 with dirty := [] } : Bay).selOf mi = b1.selOf mi) ∧
    ({ b2 with dirty := [] } : Bay).muxes = b1.muxes := by
  obtain ⟨h1, h2, h3, _, _, _, h7, h8⟩ := Bay.flushList_eff _ _ _ h
  have hchan : ∀ c, ({ b2 with dirty := [] } : Bay).chan c = b2.chan c := fun _ => rfl
  have hcbs : ∀ c, ({ b2 with dirty := [] } : Bay).cbsOf c = b1.cbsOf c := by
    intro c; simp [Bay.cbsOf, h1]
  have hclean : ∀ c, (b2.chan c).dirty = false := by
    intro c
    cases hx : (b2.chan c).dirty
    · rfl
    · obtain ⟨hd, hn⟩ := (h8 c).2.2.2.2.2.1 hx
      exact absurd ((wf1.dirtyIff c).mpr hd) hn
  have hcur : ∀ c, (b2.chan c).cur = (b1.chan c).cur := by
    intro c; simp [Chan.cur, (h8 c).1]
  refine ⟨?_, ⟨rfl, fun c => hclean c⟩, fun c => hcur c, hcbs, fun mi => by simp [Bay.selOf, h3], h2⟩
  constructor
  · show b2.cbs.length = b2.chans.length; rw [h1, h7]; exact wf1.cbsLen
  · show b2.selected.length = b2.muxes.length; rw [h3, h2]; exact wf1.selLen
  · intro mi m hm; show m.sel < b2.chans.length; rw [h7]; exact wf1.selLt mi m (h2 ▸ hm)
  · intro mi m hm; show m.out < b2.chans.length; rw [h7]; exact wf1.outLt mi m (h2 ▸ hm)
  · intro mi m i c hm hi; show c < b2.chans.length; rw [h7]; exact wf1.inLt mi m i c (h2 ▸ hm) hi
  · intro mi m i hm; exact wf1.selNotIn mi m i (h2 ▸ hm)
  · intro mi m hm; rw [hchan, (h8 m.out).2.1]; exact wf1.outDup mi m (h2 ▸ hm)
  · intro mi m hm; rw [hcbs]; exact wf1.selCb mi m (h2 ▸ hm)
  · intro c mi hmem; rw [hcbs] at hmem; show ∃ m, b2.muxes[mi]? = some m ∧ _; rw [h2]; exact wf1.selCbOnly c mi hmem
  · intro c mi i hmem; rw [hcbs] at hmem; show ∃ m, b2.muxes[mi]? = some m ∧ _; rw [h2]; exact wf1.inCbOnly c mi i hmem
  · intro c; rw [hcbs]; exact wf1.cbsNodup c
  · exact List.nodup_nil
  · intro c; rw [hchan, hclean c]; simp


/-! ### the whole propagation, for one mux -/

theorem Bay.dirtyPhase_sync {strong : Bool} {b b1 : Bay} {mi : Nat} {m : Mux} (wf : b.WF)
    (hm : b.muxes[mi]? = some m) (hfr : b.Frame mi m) (hweak : b.Weak mi m)
    (hpre : (b.chan m.sel).dirty = true ∨ b.SyncUpTo strong mi m (fun _ c => (b.chan c).dirty = true))
    {fuel : Nat} (h : b.dirtyPhase fuel 0 = .ok b1) :
    b1.WF ∧ b1.muxes[mi]? = some m ∧ b1.MuxSync strong mi m := by
  have h0 : Bay.InvC strong mi m b 0 := by
    refine ⟨hm, hfr, hweak, ?_⟩
    intro hs
    rw [List.drop_zero] at hs ⊢
    rcases hpre with hd | hsync
    · exact absurd ((wf.dirtyIff _).mpr hd) hs
    · exact hsync.mono (fun i c _ hp => (wf.dirtyIff c).mpr hp)
  obtain ⟨wf1, hm1, _, hweak1, hsync1⟩ := Bay.dirtyPhase_rule (Bay.InvC strong mi m)
    (fun b2 k c b3 wf2 hp hc hrun => Bay.InvC.chan wf2 hp hc hrun) fuel b 0 b1 wf h0 (Nat.zero_le _) h
  refine ⟨wf1, hm1, hweak1, ?_⟩
  rw [List.drop_length] at hsync1
  exact (hsync1 (by simp)).mono (fun i c _ hp => by simp at hp)

/-- Channels that are not the output of any mux keep their contents during the dirty phase. -/
theorem Bay.dirtyPhase_raw {b b1 : Bay} (wf : b.WF) {fuel : Nat} (h : b.dirtyPhase fuel 0 = .ok b1) :
    b1.muxes = b.muxes ∧
    ∀ c, (∀ (mj : Nat) (m' : Mux), b.muxes[mj]? = some m' → m'.out ≠ c) → b1.chan c = b.chan c := by
  let P : Bay → Nat → Prop := fun b2 _ => b2.muxes = b.muxes ∧
    ∀ c, (∀ (mj : Nat) (m' : Mux), b.muxes[mj]? = some m' → m'.out ≠ c) → b2.chan c = b.chan c
  have hstep : ∀ (b2 : Bay) (k c : Nat) (b3 : Bay), b2.WF → P b2 k → b2.dirty[k]? = some c →
      b2.propChan (b2.chanFuel c) c 0 = .ok b3 → P b3 (k + 1) := by
    intro b2 k c b3 wf2 hp _ hrun
    exact (Bay.propChan_rule c (fun b4 _ => P b4 0)
      (by
        intro b4 j cb b5 wf4 hp4 _ hrun4 _
        obtain ⟨m', hm', hmux, hch, _⟩ := Bay.runCb_frame wf4 hrun4
        refine ⟨hmux.trans hp4.1, fun c' hc' => ?_⟩
        rw [hch c' (by
          intro e; rw [hp4.1] at hm'; exact hc' _ m' hm' e.symm), hp4.2 c' hc'])
      _ b2 0 b3 wf2 hp (Nat.zero_le _) hrun).2.2
  exact (Bay.dirtyPhase_rule P hstep fuel b 0 b1 wf ⟨rfl, fun _ _ => rfl⟩ (Nat.zero_le _) h).2

theorem Bay.propagate_sync {strong : Bool} {b bF : Bay} {em : List (Nat × Value)} {mi : Nat} {m : Mux}
    (wf : b.WF) (hm : b.muxes[mi]? = some m) (hfr : b.Frame mi m) (hweak : b.Weak mi m)
    (hpre : (b.chan m.sel).dirty = true ∨ b.SyncUpTo strong mi m (fun _ c => (b.chan c).dirty = true))
    (h : b.propagate = .ok (bF, em)) :
    bF.WF ∧ bF.Clean ∧ bF.muxes = b.muxes ∧ bF.MuxSync strong mi m := by
  obtain ⟨b1, b2, h1, h2, rfl, _⟩ := Bay.propagate_ok h
  obtain ⟨wf1, hm1, hweak1, hsync1⟩ := Bay.dirtyPhase_sync wf hm hfr hweak hpre h1
  obtain ⟨wfF, hclean, hcur, hcbs, hselOf, hmux⟩ := Bay.flush_result wf1 h2
  have v : b1.SameView ({ b2 with dirty := [] } : Bay) mi m :=
    ⟨hcur _, hcur _, fun _ c _ => hcur c, fun i c => by rw [hcbs], hselOf mi⟩
  exact ⟨wfF, hclean, hmux.trans (Bay.dirtyPhase_raw wf h1).1, v.weak hweak1, v.sync hsync1 (fun _ _ _ hp => hp)⟩

theorem Bay.propagate_wf {b bF : Bay} {em : List (Nat × Value)} (wf : b.WF)
    (h : b.propagate = .ok (bF, em)) : bF.WF ∧ bF.Clean ∧ bF.muxes = b.muxes := by
  obtain ⟨b1, b2, h1, h2, rfl, _⟩ := Bay.propagate_ok h
  have wf1 : b1.WF := (Bay.dirtyPhase_rule (fun _ _ => True) (by intros; trivial) _ b 0 b1 wf trivial
    (Nat.zero_le _) h1).1
  obtain ⟨wfF, hcl, _, _, _, hmx⟩ := Bay.flush_result wf1 h2
  exact ⟨wfF, hcl, hmx.trans (Bay.dirtyPhase_raw wf h1).1⟩

theorem Bay.propagate_raw {b bF : Bay} {em : List (Nat × Value)} (wf : b.WF)
    (h : b.propagate = .ok (bF, em)) (c : Nat)
    (hc : ∀ (mj : Nat) (m' : Mux), b.muxes[mj]? = some m' → m'.out ≠ c) :
    (bF.chan c).cur = (b.chan c).cur := by
  obtain ⟨b1, b2, h1, h2, rfl, _⟩ := Bay.propagate_ok h
  have wf1 : b1.WF := (Bay.dirtyPhase_rule (fun _ _ => True) (by intros; trivial) _ b 0 b1 wf trivial
    (Nat.zero_le _) h1).1
  obtain ⟨_, _, hcur, _⟩ := Bay.flush_result wf1 h2
  rw [hcur, (Bay.dirtyPhase_raw wf h1).2 c hc]


/-! ### `Weak` alone survives everything (muxes never synced yet) -/

theorem Bay.runCb_weak {b b' : Bay} {cb : Cb} {d mi : Nat} {m : Mux} (wf : b.WF)
    (hm : b.muxes[mi]? = some m) (hfr : b.Frame mi m) (hweak : b.Weak mi m)
    (hmem : cb ∈ b.cbsOf d) (hrun : b.runCb cb = .ok b') : b'.Weak mi m := by
  by_cases hown : cb.mux = mi
  · cases cb with
    | muxSelect mj =>
      simp only [Cb.mux] at hown; subst hown
      exact (Bay.cbSelect_sync wf hm hfr hweak hrun).1
    | muxInput mj i0 =>
      simp only [Cb.mux] at hown; subst hown
      obtain ⟨_, hcbs, hsl, _, _⟩ := Bay.cbInput_step wf hm hfr hmem hrun
      intro i ⟨c, hic, hc⟩
      rw [Bay.selOf_congr hsl]
      exact hweak i ⟨c, hic, by rw [← Bay.cbsOf_congr hcbs]; exact hc⟩
  · exact (Bay.runCb_other wf hfr hown hrun).weak hweak

theorem Bay.propagate_weak {b bF : Bay} {em : List (Nat × Value)} {mi : Nat} {m : Mux}
    (wf : b.WF) (hm : b.muxes[mi]? = some m) (hfr : b.Frame mi m) (hweak : b.Weak mi m)
    (h : b.propagate = .ok (bF, em)) : bF.Weak mi m := by
  obtain ⟨b1, b2, h1, h2, rfl, _⟩ := Bay.propagate_ok h
  let P : Bay → Nat → Prop := fun b2 _ => b2.muxes[mi]? = some m ∧ b2.Frame mi m ∧ b2.Weak mi m
  have hchan : ∀ (b2 : Bay) (k c : Nat) (b3 : Bay), b2.WF → P b2 k → b2.dirty[k]? = some c →
      b2.propChan (b2.chanFuel c) c 0 = .ok b3 → P b3 (k + 1) := by
    intro b2 k c b3 wf2 hp _ hrun
    exact (Bay.propChan_rule c (fun b4 _ => P b4 0)
      (by
        intro b4 j cb b5 wf4 ⟨h4m, h4f, h4w⟩ hcb hrun4 _
        obtain ⟨_, _, hmux, _⟩ := Bay.runCb_frame wf4 hrun4
        exact ⟨by rw [hmux]; exact h4m, h4f.congr hmux,
          Bay.runCb_weak wf4 h4m h4f h4w (List.mem_of_getElem? hcb) hrun4⟩)
      _ b2 0 b3 wf2 hp (Nat.zero_le _) hrun).2.2
  obtain ⟨wf1, _, _, hw1⟩ := Bay.dirtyPhase_rule P hchan _ b 0 b1 wf ⟨hm, hfr, hweak⟩ (Nat.zero_le _) h1
  obtain ⟨_, _, _, hcbs, hselOf, _⟩ := Bay.flush_result wf1 h2
  intro i ⟨c, hic, hc⟩
  rw [hselOf]
  exact hw1 i ⟨c, hic, by rw [← hcbs]; exact hc⟩

/-! ### the writes of an event -/

theorem Bay.Writes.mono {ok ok' : Nat → Prop} {b b1 : Bay} (himp : ∀ c, ok c → ok' c)
    (h : Bay.Writes ok b b1) : Bay.Writes ok' b b1 := by
  induction h with
  | nil => exact .nil _
  | snoc _ hok hf hw ih => exact .snoc ih (himp _ hok) hf hw

theorem Bay.Writes.inv {ok : Nat → Prop} {b b1 : Bay} (wf : b.WF) (h : Bay.Writes ok b b1) :
    b1.WF ∧ b1.cbs = b.cbs ∧ b1.selected = b.selected ∧ b1.muxes = b.muxes ∧
    (∀ c, ¬ ok c → b1.chan c = b.chan c) ∧
    (∀ c, (b1.chan c).dirty = false → b1.chan c = b.chan c) := by
  induction h with
  | nil => exact ⟨wf, rfl, rfl, rfl, fun _ _ => rfl, fun _ _ => rfl⟩
  | @snoc b1 b2 c f _ hok hf hw ih =>
    obtain ⟨wf1, h1, h2, h3, h4, h5⟩ := ih
    refine ⟨wf1.write hf hw, (Bay.write_cbs hw).trans h1, (Bay.write_selected hw).trans h2,
      (Bay.write_muxes hw).trans h3, ?_, ?_⟩
    · intro c' hc'
      have : c' ≠ c := by rintro rfl; exact hc' hok
      rw [Bay.write_chan_ne hw this]; exact h4 c' hc'
    · intro c' hd
      by_cases hcc : c' = c
      · subst hcc
        have hop := hf _ _ (Bay.write_chan_eq hw).1
        rcases hop.1 with he | ht
        · rw [he] at hd ⊢; exact h5 c' hd
        · rw [ht] at hd; cases hd
      · rw [Bay.write_chan_ne hw hcc] at hd ⊢; exact h5 c' hd

theorem Bay.Writes.weak {ok : Nat → Prop} {b b1 : Bay} {mi : Nat} {m : Mux} (wf : b.WF)
    (hweak : b.Weak mi m) (h : Bay.Writes ok b b1) : b1.Weak mi m := by
  obtain ⟨_, h1, h2, _⟩ := h.inv wf
  intro i ⟨c, hic, hc⟩
  rw [Bay.selOf_congr h2]
  exact hweak i ⟨c, hic, by rw [← Bay.cbsOf_congr h1]; exact hc⟩

/-- After the writes of an event (none of them to the mux output) a mux that
    was in sync satisfies the precondition of `propagate_sync`: either its
    select channel is dirty, or it is in sync up to a dirty selected input. -/
theorem Bay.Writes.pre {strong : Bool} {b b1 : Bay} {mi : Nat} {m : Mux} (wf : b.WF)
    (hsync : b.MuxSync strong mi m) (h : Bay.Writes (· ≠ m.out) b b1) :
    b1.Weak mi m ∧
    ((b1.chan m.sel).dirty = true ∨ b1.SyncUpTo strong mi m (fun _ c => (b1.chan c).dirty = true)) := by
  obtain ⟨_, h1, h2, _, h4, h5⟩ := h.inv wf
  obtain ⟨hweak, s, g1, g2, g3, g4⟩ := hsync
  have hen : ∀ i, b1.enabled mi m i ↔ b.enabled mi m i := by
    intro i; unfold Bay.enabled; simp only [Bay.cbsOf_congr h1]
  have hsel : b1.selOf mi = b.selOf mi := Bay.selOf_congr h2 mi
  refine ⟨fun i hi => by rw [hsel]; exact hweak i ((hen i).mp hi), ?_⟩
  cases hd : (b1.chan m.sel).dirty
  · right
    refine ⟨s, by rw [h5 _ hd]; exact g1, fun i => (hen i).trans (g2 i), by rw [hsel]; exact g3, ?_⟩
    have hout : b1.chan m.out = b.chan m.out := h4 _ (by simp)
    rcases g4 with g4 | ⟨_, _, _, _, hf⟩
    · cases s with
      | none => left; rw [hout]; exact g4
      | some i =>
        simp only [Bay.specVal] at g4 ⊢
        split
        · rename_i c hc
          rw [hc] at g4; simp only at g4
          cases hdc : (b1.chan c).dirty
          · left; rw [hout, h5 c hdc]; exact g4
          · right; exact ⟨i, c, rfl, hc, hdc⟩
        · rename_i hnone
          left; rw [hout]
          split at g4
          · rename_i c hc; exact absurd hc (hnone c)
          · exact g4
    · exact hf.elim
  · left; rfl

end Ovni.Emu
