import OvniModel.Lemmas.CoreBayConn

/-
  C06: `Shape.connect` (the model of `emu_connect`) cannot fail when every
  thread tracking mode is ANY / RUN / ACT and every CPU tracking mode is RUN —
  what `track_th_input_chan` and `connect_cpu` accept, and what the generated
  channel specs contain (`C06.generated_thread_modes`, `generated_cpu_modes`).
-/
namespace Ovni.Emu
open Ovni.Generated

theorem Bay.muxInit_total {b : Bay} {sel out n : Nat} {kind : SelKind} {oc : Chan}
    (ho : b.chans[out]? = some oc) (hs : sel < b.chans.length) (hst : oc.isStack = false)
    (hne : sel ≠ out) : ∃ b', b.muxInit sel out kind n = .ok (b', b.muxes.length) := by
  unfold Bay.muxInit
  rw [ho, List.getElem?_eq_getElem hs]
  simp [hst, hne]

theorem Bay.muxSetInput_total {b : Bay} {mi i c : Nat} {m : Mux} (hm : b.muxes[mi]? = some m)
    (hne : c ≠ m.out) (hi : m.inputs[i]? = some none) (hc : c < b.chans.length) :
    b.muxSetInput mi i c =
      .ok { b with muxes := b.muxes.set mi { m with inputs := m.inputs.set i (some c) } } := by
  unfold Bay.muxSetInput
  simp [hm, hne, hi, hc]

theorem Bay.trackThread_total {b : Bay} {mode sel inp : Nat}
    (hmode : mode = trackAny ∨ mode = trackRun ∨ mode = trackAct)
    (hs : sel < b.chans.length) (hi : inp < b.chans.length) :
    ∃ r, b.trackThread mode sel inp = .ok r := by
  by_cases ha : mode = trackAny
  · unfold Bay.trackThread; simp [ha]
  · have hm : mode = trackRun ∨ mode = trackAct := by
      rcases hmode with h | h
      · exact absurd h ha
      · exact h
    have hlr : (b.register {}).1.chans.length = b.chans.length + 1 := by simp [Bay.register]
    have hout : (b.register {}).2 = b.chans.length := rfl
    obtain ⟨b1, h1⟩ := Bay.muxInit_total (b := (b.register {}).1) (sel := sel) (out := (b.register {}).2)
      (n := 1) (kind := if mode = trackRun then .thRunning else .thActive) (oc := {})
      (by simp [Bay.register]) (by rw [hlr]; omega) rfl (by rw [hout]; omega)
    obtain ⟨oc, _, _, _, _, _, hb1⟩ := Bay.muxInit_ok h1
    have hmx : b1.muxes[(b.register {}).1.muxes.length]? =
        some { sel := sel, out := (b.register {}).2, kind := if mode = trackRun then .thRunning else .thActive,
               inputs := List.replicate 1 none } := by
      rw [hb1]; simp
    have hlen1 : b1.chans.length = b.chans.length + 1 := by rw [hb1]; simp [Bay.register]
    have h2 := Bay.muxSetInput_total (b := b1) (i := 0) (c := inp) hmx (by simp only [hout]; omega) (by simp)
      (by rw [hlen1]; omega)
    unfold Bay.trackThread
    have hk : (if mode = trackRun then some SelKind.thRunning
        else if mode = trackAct then some SelKind.thActive else none) =
        some (if mode = trackRun then SelKind.thRunning else SelKind.thActive) := by
      rcases hm with rfl | rfl <;> simp [trackRun, trackAct]
    simp only [ha, if_false, hk, h1, h2]
    exact ⟨_, rfl⟩

theorem Bay.setInputs_total : ∀ (cs : List Nat) (b : Bay) (mi i : Nat) (m : Mux),
    b.muxes[mi]? = some m → (∀ c ∈ cs, c ≠ m.out ∧ c < b.chans.length) →
    (∀ j, j < cs.length → m.inputs[i + j]? = some none) →
    ∃ b', b.setInputs mi i cs = .ok b' ∧ b'.chans = b.chans ∧
      ∃ m', b'.muxes[mi]? = some m' := by
  intro cs
  induction cs with
  | nil => intro b mi i m hm _ _; exact ⟨b, rfl, rfl, m, hm⟩
  | cons c cs ih =>
    intro b mi i m hm hc hin
    obtain ⟨hne, hlt⟩ := hc c (by simp)
    have h1 := Bay.muxSetInput_total (b := b) (i := i) (c := c) hm hne (by simpa using hin 0 (by simp)) hlt
    have hmilt : mi < b.muxes.length := (List.getElem?_eq_some_iff.mp hm).1
    obtain ⟨b', h', hch, hm'⟩ := ih { b with muxes := b.muxes.set mi { m with inputs := m.inputs.set i (some c) } }
      mi (i + 1) { m with inputs := m.inputs.set i (some c) } (by simp [hmilt])
      (fun c' hc' => hc c' (by simp [hc']))
      (by
        intro j hj
        have := hin (j + 1) (by simp; omega)
        simp only
        rw [List.getElem?_set_ne (by omega)]
        rw [← this]; congr 1; omega)
    refine ⟨b', ?_, hch, hm'⟩
    rw [Bay.setInputs, h1]
    exact h'

theorem Bay.trackCpu_total {b : Bay} {sel : Nat} {raws : List Nat} {dflt : Value}
    (hs : sel < b.chans.length) (hr : ∀ c ∈ raws, c < b.chans.length) :
    ∃ r, b.trackCpu sel raws dflt = .ok r := by
  have hlr : (b.register {}).1.chans.length = b.chans.length + 1 := by simp [Bay.register]
  have hout : (b.register {}).2 = b.chans.length := rfl
  obtain ⟨b1, h1⟩ := Bay.muxInit_total (b := (b.register {}).1) (sel := sel) (out := (b.register {}).2)
    (n := raws.length) (kind := .byIndex) (oc := {})
    (by simp [Bay.register]) (by rw [hlr]; omega) rfl (by rw [hout]; omega)
  obtain ⟨oc, _, _, _, _, _, hb1⟩ := Bay.muxInit_ok h1
  have hmx : b1.muxes[(b.register {}).1.muxes.length]? =
      some { sel := sel, out := (b.register {}).2, kind := .byIndex,
             inputs := List.replicate raws.length none } := by
    rw [hb1]; simp
  have hlen1 : b1.chans.length = b.chans.length + 1 := by rw [hb1]; simp [Bay.register]
  obtain ⟨b2, h2, _, m', hm'⟩ := Bay.setInputs_total raws b1 _ 0 _ hmx
    (by intro c hc; have := hr c hc; simp only [hout]; rw [hlen1]; omega)
    (by intro j hj; simp [hj])
  unfold Bay.trackCpu
  simp only [h1, h2, Bay.muxSetDefault, hm']
  exact ⟨_, rfl⟩

/-- The tracking modes of the specs are the ones the connection functions accept. -/
def Shape.ModesOk (σ : Shape) : Prop :=
  ∀ m ∈ σ.specs, ∀ i : Nat,
    (m.thTrack.getD i 0 = trackAny ∨ m.thTrack.getD i 0 = trackRun ∨ m.thTrack.getD i 0 = trackAct) ∧
    m.cpuTrack.getD i trackRun = trackRun

theorem Shape.runJob_total {σ : Shape} (hmo : σ.ModesOk) {p : Nat} {b : Bay} (hb : σ.Built p b) {job : Job}
    (hj : job ∈ σ.jobs) : ∃ r, σ.runJob b job = .ok r := by
  have hL : σ.L ≤ b.chans.length := hb.topo.len
  cases job with
  | th g k i =>
    obtain ⟨hg, m, hk, hi⟩ := (σ.mem_jobs_th g k i).mp hj
    simp only [Shape.runJob, hk]
    have h1 := σ.idx_lt ((σ.mem_st g).mpr hg)
    have h2 := σ.idx_lt ((σ.mem_raw g k i).mpr ⟨hg, m, hk, hi⟩)
    exact Bay.trackThread_total (hmo m (List.mem_of_getElem? hk) i).1 (by omega) (by omega)
  | cpu c k i =>
    obtain ⟨hc, m, hk, hi⟩ := (σ.mem_jobs_cpu c k i).mp hj
    simp only [Shape.runJob, hk, (hmo m (List.mem_of_getElem? hk) i).2, if_true]
    have h1 := σ.idx_lt ((σ.mem_run c).mpr hc)
    refine Bay.trackCpu_total (by omega) ?_
    intro x hx
    obtain ⟨g, hg, rfl⟩ := List.mem_map.mp hx
    have := σ.idx_lt ((σ.mem_raw g k i).mpr ⟨List.mem_range.mp hg, m, hk, hi⟩)
    omega

theorem Shape.connectFrom_total (σ : Shape) (hmo : σ.ModesOk) : ∀ (js pre : List Job) (b : Bay),
    σ.jobs = pre ++ js → σ.Built pre.length b → ∃ bF, σ.connectFrom b js = .ok bF := by
  intro js
  induction js with
  | nil => intro pre b _ _; exact ⟨b, rfl⟩
  | cons j js ih =>
    intro pre b hjobs hb
    have hjm : j ∈ σ.jobs := by rw [hjobs]; simp
    obtain ⟨⟨b', o⟩, hrun⟩ := Shape.runJob_total hmo hb hjm
    have hj : σ.jobs[pre.length]? = some j := by rw [hjobs]; simp
    obtain ⟨bF, hF⟩ := ih (pre ++ [j]) b' (by rw [hjobs]; simp) (by simpa using hb.step hj hrun)
    exact ⟨bF, by rw [Shape.connectFrom, hrun]; exact hF⟩

/-- **`emu_connect` succeeds** for every hierarchy whose tracking modes are the
    accepted ones. -/
theorem Shape.connect_total (σ : Shape) (hmo : σ.ModesOk) : ∃ b0, σ.connect = .ok b0 :=
  σ.connectFrom_total hmo σ.jobs [] σ.bay0 rfl σ.built_zero

/-- `ModesOk` from the mode lists (what `C06.generated_thread_modes` /
    `generated_cpu_modes` state for the generated specs). -/
theorem Shape.modesOk_of_lists {σ : Shape}
    (hth : ∀ m ∈ σ.specs, ∀ x ∈ m.thTrack, x = trackAny ∨ x = trackRun ∨ x = trackAct)
    (hcpu : ∀ m ∈ σ.specs, ∀ x ∈ m.cpuTrack, x = trackRun) : σ.ModesOk := by
  intro m hm i
  constructor
  · simp only [List.getD_eq_getElem?_getD]
    cases hx : m.thTrack[i]? with
    | none => exact Or.inl rfl
    | some x => exact hth m hm x (List.mem_of_getElem? hx)
  · simp only [List.getD_eq_getElem?_getD]
    cases hx : m.cpuTrack[i]? with
    | none => rfl
    | some x => exact hcpu m hm x (List.mem_of_getElem? hx)

end Ovni.Emu
