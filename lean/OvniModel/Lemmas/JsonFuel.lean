import OvniModel.Lemmas.JsonExt

/-! The fuel of the parser functions: more fuel never changes a result other
    than `oof`, and `2 * length + 1` is never exhausted. -/
namespace Ovni.Json

theorem Res.bind_mono {α β : Type} {x x' : Res α} {g g' : α → Res β}
    (hx : x ≠ .oof → x' = x) (hg : ∀ a, x = .ok a → g a ≠ .oof → g' a = g a)
    (h : x.bind g ≠ .oof) : x'.bind g' = x.bind g := by
  cases x with
  | ok a => rw [hx (by simp)]; exact hg a rfl h
  | fail => rw [hx (by simp)]; rfl
  | unsup => rw [hx (by simp)]; rfl
  | oof => exact absurd rfl h

theorem Res.bind_ne_oof_left {α β : Type} {x : Res α} {g : α → Res β} (h : x.bind g ≠ .oof) : x ≠ .oof := by
  intro e; rw [e] at h; exact h rfl

def MonoV (f : Nat) : Prop := ∀ n s, parseValue f n s ≠ .oof → parseValue (f + 1) n s = parseValue f n s
def MonoM (f : Nat) : Prop := ∀ n s seen, parseMembers f n s seen ≠ .oof →
  parseMembers (f + 1) n s seen = parseMembers f n s seen
def MonoE (f : Nat) : Prop := ∀ n s, parseElems f n s ≠ .oof → parseElems (f + 1) n s = parseElems f n s

theorem monoV_succ {f : Nat} (hM : MonoM f) (hE : MonoE f) : MonoV (f + 1) := by
  intro n s h
  simp only [parseValue.eq_2] at h ⊢
  split
  · rfl
  rename_i hn
  simp only [hn, if_false] at h
  split
  · rfl
  rename_i c t heq
  simp only [heq] at h
  split
  · rename_i hc
    simp only [hc, if_true] at h
    split
    · rfl
    rename_i d t' heq2
    simp only [heq2] at h
    split
    · rfl
    rename_i hd
    simp only [hd, if_false] at h
    exact Res.bind_mono (hM _ _ _) (fun _ _ _ => rfl) h
  · rename_i hc
    simp only [hc, if_false] at h
    split
    · rename_i hc2
      simp only [hc2, if_true] at h
      split
      · rfl
      rename_i d t' heq2
      simp only [heq2] at h
      split
      · rfl
      rename_i hd
      simp only [hd, if_false] at h
      exact Res.bind_mono (hE _ _) (fun _ _ _ => rfl) h
    · rfl

theorem monoM_succ {f : Nat} (hV : MonoV f) (hM : MonoM f) : MonoM (f + 1) := by
  intro n s seen h
  simp only [parseMembers.eq_2] at h ⊢
  split
  · rfl
  rename_i key r1 hq
  simp only [hq] at h
  split
  · rfl
  rename_i hk0
  simp only [hk0] at h
  split
  · rfl
  rename_i c r2 heq1
  simp only [heq1] at h
  split
  · rfl
  rename_i hc
  simp only [hc, if_false] at h
  refine Res.bind_mono (hV _ _) (fun a _ ha => ?_) h
  obtain ⟨v, r3⟩ := a
  simp only at ha ⊢
  split
  · rfl
  rename_i hseen
  simp only [hseen] at ha
  split
  · rfl
  rename_i d r4 heq3
  simp only [heq3] at ha
  split
  · rename_i hd
    simp only [hd, if_true] at ha
    exact Res.bind_mono (hM _ _ _) (fun _ _ _ => rfl) ha
  · rfl

theorem monoE_succ {f : Nat} (hV : MonoV f) (hE : MonoE f) : MonoE (f + 1) := by
  intro n s h
  cases s with
  | nil => simp only [parseElems.eq_2]
  | cons s0 s1 =>
  simp only [parseElems.eq_3] at h ⊢
  refine Res.bind_mono (hV _ _) (fun a _ ha => ?_) h
  obtain ⟨v, r3⟩ := a
  simp only at ha ⊢
  split
  · rfl
  rename_i d r4 heq3
  simp only [heq3] at ha
  split
  · rename_i hd
    simp only [hd, if_true] at ha
    exact Res.bind_mono (hE _ _) (fun _ _ _ => rfl) ha
  · rfl

theorem mono_all : ∀ f, MonoV f ∧ MonoM f ∧ MonoE f
  | 0 => by
    refine ⟨?_, ?_, ?_⟩
    · intro n s h; rw [parseValue.eq_1] at h; exact absurd rfl h
    · intro n s seen h; rw [parseMembers.eq_1] at h; exact absurd rfl h
    · intro n s h; rw [parseElems.eq_1] at h; exact absurd rfl h
  | f + 1 =>
    have ih := mono_all f
    ⟨monoV_succ ih.2.1 ih.2.2, monoM_succ ih.1 ih.2.1, monoE_succ ih.1 ih.2.2⟩

/-- more fuel does not change a result that is not `oof` -/
theorem parseValue_fuel_mono {f n : Nat} {s : List Nat} (h : parseValue f n s ≠ .oof) :
    ∀ k, parseValue (f + k) n s = parseValue f n s
  | 0 => rfl
  | k + 1 => by
    have ih := parseValue_fuel_mono h k
    have : parseValue (f + k) n s ≠ .oof := by rw [ih]; exact h
    rw [← ih, ← Nat.add_assoc]
    exact (mono_all (f + k)).1 n s this

/-! ### `2 * length + 1` is enough -/

def EnoughV (f : Nat) : Prop := ∀ n s, 2 * s.length + 1 ≤ f → parseValue f n s ≠ .oof
def EnoughM (f : Nat) : Prop := ∀ n s seen, 2 * s.length + 2 ≤ f → parseMembers f n s seen ≠ .oof
def EnoughE (f : Nat) : Prop := ∀ n s, 2 * s.length + 2 ≤ f → parseElems f n s ≠ .oof

theorem parseScalar_ne_oof (s : List Nat) : parseScalar s ≠ .oof := by
  unfold parseScalar
  split
  · simp
  split
  · split <;> simp
  split
  · split
    · simp
    split <;> simp
  split
  · unfold parseNumber
    apply Res.bind_ne_oof
    · unfold numCore
      have hb : ∀ neg s t, numBody neg s t ≠ .oof := by
        intro neg s t
        unfold numBody
        split
        · simp
        split
        · simp
        split
        split
        · simp
        split
        split
        · simp
        split <;> simp
      split
      · exact hb _ _ _
      · split <;> exact hb _ _ _
    · intro a _; simp
  split
  · split <;> simp
  · simp

theorem enoughV_succ {f : Nat} (hM : EnoughM f) (hE : EnoughE f) : EnoughV (f + 1) := by
  intro n s hlen
  rw [parseValue.eq_2]
  split
  · simp
  split
  · simp
  rename_i c t heq
  have h1 : t.length + 1 ≤ s.length := by
    have := skipWs_length_le s
    rw [heq] at this
    simpa using this
  split
  · split
    · simp
    rename_i d t' heq2
    have h2 : (d :: t').length ≤ t.length := by
      have := skipWs_length_le t
      rw [heq2] at this
      exact this
    split
    · simp
    · apply Res.bind_ne_oof
      · apply hM; omega
      · intro a _; simp
  · split
    · split
      · simp
      rename_i d t' heq2
      have h2 : (d :: t').length ≤ t.length := by
        have := skipWs_length_le t
        rw [heq2] at this
        exact this
      split
      · simp
      · apply Res.bind_ne_oof
        · apply hE; omega
        · intro a _; simp
    · exact parseScalar_ne_oof _

theorem enoughM_succ {f : Nat} (hV : EnoughV f) (hM : EnoughM f) : EnoughM (f + 1) := by
  intro n s seen hlen
  rw [parseMembers.eq_2]
  split
  · simp
  rename_i key r1 hq
  obtain ⟨ck, hs, _⟩ := quotedString_split hq
  have h0 : r1.length + 1 ≤ s.length := by rw [hs]; simp
  split
  · simp
  split
  · simp
  rename_i c r2 heq1
  have h1 : r2.length + 1 ≤ r1.length := by
    have := skipWs_length_le r1
    rw [heq1] at this
    simpa using this
  split
  · simp
  apply Res.bind_ne_oof
  · apply hV; omega
  · intro a ha
    obtain ⟨v, r3⟩ := a
    have h3 : r3.length ≤ r2.length := (parseValue_suffix ha).length_le
    simp only
    split
    · simp
    split
    · simp
    rename_i d r4 heq3
    have h4 : r4.length + 1 ≤ r3.length := by
      have := skipWs_length_le r3
      rw [heq3] at this
      simpa using this
    split
    · apply Res.bind_ne_oof
      · apply hM
        have := skipWs_length_le r4
        omega
      · intro a _; simp
    · split <;> simp

theorem enoughE_succ {f : Nat} (hV : EnoughV f) (hE : EnoughE f) : EnoughE (f + 1) := by
  intro n s hlen
  cases s with
  | nil => rw [parseElems.eq_2]; simp
  | cons s0 s1 =>
  rw [parseElems.eq_3]
  apply Res.bind_ne_oof
  · apply hV; omega
  · intro a ha
    obtain ⟨v, r3⟩ := a
    have h3 : r3.length ≤ (s0 :: s1).length := (parseValue_suffix ha).length_le
    simp only
    split
    · simp
    rename_i d r4 heq3
    have h4 : r4.length + 1 ≤ r3.length := by
      have := skipWs_length_le r3
      rw [heq3] at this
      simpa using this
    split
    · apply Res.bind_ne_oof
      · apply hE
        have := skipWs_length_le r4
        omega
      · intro a _; simp
    · split <;> simp

theorem enough_all : ∀ f, EnoughV f ∧ EnoughM f ∧ EnoughE f
  | 0 => by
    refine ⟨?_, ?_, ?_⟩
    · intro n s h; omega
    · intro n s seen h; omega
    · intro n s h; omega
  | f + 1 =>
    have ih := enough_all f
    ⟨enoughV_succ ih.2.1 ih.2.2, enoughM_succ ih.1 ih.2.1, enoughE_succ ih.1 ih.2.2⟩

/-- With fuel `2 * length + 1` (or more) `parse_value` never runs out of fuel. -/
theorem parseValue_ne_oof {f n : Nat} {s : List Nat} (h : 2 * s.length + 1 ≤ f) : parseValue f n s ≠ .oof :=
  (enough_all f).1 n s h

/-- … and every such fuel gives the same result. -/
theorem parseValue_fuel_eq {f n : Nat} {s : List Nat} (h : 2 * s.length + 1 ≤ f) :
    parseValue f n s = parseValue (2 * s.length + 1) n s := by
  obtain ⟨k, rfl⟩ : ∃ k, f = 2 * s.length + 1 + k := ⟨f - (2 * s.length + 1), by omega⟩
  exact parseValue_fuel_mono (parseValue_ne_oof (Nat.le_refl _)) k

end Ovni.Json
