import OvniModel.Rt.Fs
import OvniModel.Lemmas.Rt

/-! The instrumented buffer functions of `Rt/Fs` (`evAddW`, `stepW`,
    `writesOf`) compute the same states as the buffer model and their chunks
    are exactly what reaches the disk. -/
namespace Ovni.Rt.Fs
open Ovni.Rt
variable {D : Type} [JData D]

theorem flatten_chunkBytes (w : List (Chunk D)) :
    (w.map chunkBytes).flatten = w.flatten.flatMap (fun r => r.1.encode) := by
  induction w with
  | nil => rfl
  | cons c cs ih => simp only [List.map_cons, List.flatten_cons, List.flatMap_append, ih]; rfl

theorem evAddW_spec (cap : Nat) (fuel : Nat) (s : St D) (r : Rec D) (o : Origin) :
    (evAddW cap fuel s r o).map (·.1) = evAdd cap fuel s r o ∧
    ∀ s' w, evAddW cap fuel s r o = some (s', w) → s'.disk = s.disk ++ w.flatten ∧ s'.hdrOnDisk = s.hdrOnDisk := by
  induction fuel generalizing s r o with
  | zero => simp [evAddW, evAdd]
  | succ n ih =>
    unfold evAddW evAdd
    by_cases hr : (!s.ready) = true
    · simp [hr]
    · simp only [hr, if_false, Bool.false_eq_true]
      by_cases hfull : s.evlen + r.size ≥ cap
      · simp only [hfull, if_true]
        obtain ⟨e1, d1⟩ := ih (makeRoom cap (forcedFlush s r o)) (markerOpen s.now) .lib
        cases h1 : evAddW cap n (makeRoom cap (forcedFlush s r o)) (markerOpen s.now) .lib with
        | none =>
          rw [h1] at e1
          simp only [Option.map_none] at e1
          simp [← e1]
        | some x =>
          obtain ⟨s5, w3⟩ := x
          rw [h1] at e1
          simp only [Option.map_some] at e1
          rw [← e1]
          simp only
          obtain ⟨e2, d2⟩ := ih s5 (markerClose (s.now + s.tick)) .lib
          cases h2 : evAddW cap n s5 (markerClose (s.now + s.tick)) .lib with
          | none =>
            rw [h2] at e2
            simp only [Option.map_none] at e2
            simp [← e2]
          | some y =>
            obtain ⟨s6, w4⟩ := y
            rw [h2] at e2
            simp only [Option.map_some] at e2
            refine ⟨by simp [← e2], ?_⟩
            intro s' w hw
            simp only [Option.some.injEq, Prod.mk.injEq] at hw
            obtain ⟨rfl, rfl⟩ := hw
            obtain ⟨d2a, d2b⟩ := d2 _ _ h2
            obtain ⟨d1a, d1b⟩ := d1 _ _ h1
            rw [d2a, d1a, d2b, d1b]
            unfold makeRoom
            split <;> simp [List.append_assoc]
      · simp only [hfull, if_false]
        refine ⟨rfl, ?_⟩
        intro s' w hw
        simp only [Option.some.injEq, Prod.mk.injEq] at hw
        obtain ⟨rfl, rfl⟩ := hw
        simp

theorem stepW_spec (cap : Nat) (s : St D) (op : Op D) :
    (stepW cap s op).map (·.1) = step cap s op ∧
    ∀ s' w, stepW cap s op = some (s', w) → op ≠ .init →
      s'.disk = s.disk ++ w.flatten ∧ s'.hdrOnDisk = s.hdrOnDisk := by
  have emitS : ∀ (s : St D) e ch, (emitW cap s e ch).map (·.1) = emit cap s e ch ∧
      ∀ s' w, emitW cap s e ch = some (s', w) → s'.disk = s.disk ++ w.flatten ∧ s'.hdrOnDisk = s.hdrOnDisk := by
    intro s e ch
    unfold emitW emit
    cases hp : payloadAddAll e ch with
    | none => simp
    | some e' => exact evAddW_spec cap addFuel s (.ev e') .user
  have jumboS : ∀ (s : St D) e ch d, (emitJumboW cap s e ch d).map (·.1) = emitJumbo cap s e ch d ∧
      ∀ s' w, emitJumboW cap s e ch d = some (s', w) → s'.disk = s.disk ++ w.flatten ∧ s'.hdrOnDisk = s.hdrOnDisk := by
    intro s e ch d
    unfold emitJumboW emitJumbo
    split
    · simp
    · cases hj : jumboRec cap e ch d with
      | none => simp
      | some r => exact evAddW_spec cap addFuel s r .user
  cases op with
  | emit e ch => exact ⟨(emitS s e ch).1, fun s' w h _ => (emitS s e ch).2 s' w h⟩
  | emitNow e ch =>
    have := emitS s.clockNow.2 { e with clock := s.clockNow.1 } ch
    exact ⟨this.1, fun s' w h _ => by simpa using this.2 s' w h⟩
  | jumbo e ch d => exact ⟨(jumboS s e ch d).1, fun s' w h _ => (jumboS s e ch d).2 s' w h⟩
  | jumboNow e ch d =>
    have := jumboS s.clockNow.2 { e with clock := s.clockNow.1 } ch d
    exact ⟨this.1, fun s' w h _ => by simpa using this.2 s' w h⟩
  | flush =>
    simp only [stepW, step]
    unfold flushW Ovni.Rt.flush
    by_cases hr : (!s.ready) = true
    · simp [hr]
    · simp only [hr, if_false, Bool.false_eq_true]
      obtain ⟨e1, d1⟩ := evAddW_spec cap addFuel ((s.clockNow.2.flushBuf).clockNow.2) (markerOpen s.now) .lib
      cases h1 : evAddW cap addFuel ((s.clockNow.2.flushBuf).clockNow.2) (markerOpen s.now) .lib with
      | none =>
        rw [h1] at e1; simp only [Option.map_none] at e1
        simp [← e1]
      | some x =>
        obtain ⟨s4, w1⟩ := x
        rw [h1] at e1; simp only [Option.map_some] at e1
        rw [← e1]
        simp only
        obtain ⟨e2, d2⟩ := evAddW_spec cap addFuel s4 (markerClose (s.now + s.tick)) .lib
        cases h2 : evAddW cap addFuel s4 (markerClose (s.now + s.tick)) .lib with
        | none =>
          rw [h2] at e2; simp only [Option.map_none] at e2
          simp [← e2]
        | some y =>
          obtain ⟨s5, w2⟩ := y
          rw [h2] at e2; simp only [Option.map_some] at e2
          refine ⟨by simp [← e2], ?_⟩
          intro s' w hw _
          simp only [Option.some.injEq, Prod.mk.injEq] at hw
          obtain ⟨rfl, rfl⟩ := hw
          obtain ⟨a1, b1⟩ := d1 _ _ h1
          obtain ⟨a2, b2⟩ := d2 _ _ h2
          rw [a2, a1, b2, b1]
          simp [List.append_assoc]
  | mark k t v =>
    simp only [stepW, step]
    unfold markW mark
    split
    · simp
    · have := emitS s.clockNow.2 { m := 79, c := 77, v := k, clock := s.clockNow.1 } [sle 8 v, sle 4 t]
      exact ⟨this.1, fun s' w h _ => by simpa using this.2 s' w h⟩
  | init =>
    simp only [stepW, step]
    refine ⟨by cases threadInit s <;> rfl, fun _ _ _ h => absurd rfl h⟩
  | setTick n =>
    simp only [stepW, step, Option.map_some]
    refine ⟨by simp, ?_⟩
    intro s' w hw _
    simp only [Option.some.injEq, Prod.mk.injEq] at hw
    obtain ⟨rfl, rfl⟩ := hw
    simp
  | metaOp =>
    simp only [stepW, step]
    split
    · refine ⟨by simp, ?_⟩
      intro s' w hw _
      simp only [Option.map_some, Option.some.injEq, Prod.mk.injEq] at hw
      obtain ⟨rfl, rfl⟩ := hw
      simp
    · simp
  | free =>
    simp only [stepW, step]
    unfold threadFree
    split
    · simp
    · split
      · simp
      · refine ⟨by simp, ?_⟩
        intro s' w hw _
        simp only [Option.map_some, Option.some.injEq, Prod.mk.injEq] at hw
        obtain ⟨rfl, rfl⟩ := hw
        simp

/-- The I/O steps derived from a buffer-model program: same final state as
    `run`, and their bytes are exactly what the run appends to the stream file. -/
theorem writesOf_spec (cap : Nat) (magic : List Nat) (version : Nat) (s : St D) (prog : List (Op D))
    (hni : ∀ op ∈ prog, op ≠ .init) (s' : St D) (ps : List PStep) (h : writesOf cap s prog = some (s', ps)) :
    Ovni.Rt.run cap s prog = some s' ∧
    s'.diskBytes magic version = s.diskBytes magic version ++ stepsBytes ps := by
  induction prog generalizing s s' ps with
  | nil =>
    simp only [writesOf, Option.some.injEq, Prod.mk.injEq] at h
    obtain ⟨rfl, rfl⟩ := h
    simp [Ovni.Rt.run, stepsBytes]
  | cons op r ih =>
    simp only [writesOf] at h
    obtain ⟨e1, d1⟩ := stepW_spec cap s op
    cases h1 : stepW cap s op with
    | none => rw [h1] at h; cases h
    | some x =>
      obtain ⟨s1, w⟩ := x
      rw [h1] at h e1
      simp only at h
      cases h2 : writesOf cap s1 r with
      | none => rw [h2] at h; cases h
      | some y =>
        obtain ⟨s2, ps'⟩ := y
        rw [h2] at h
        simp only [Option.some.injEq, Prod.mk.injEq] at h
        obtain ⟨rfl, rfl⟩ := h
        obtain ⟨r1, r2⟩ := ih s1 (fun o ho => hni o (List.mem_cons_of_mem _ ho)) _ _ h2
        obtain ⟨da, db⟩ := d1 _ _ h1 (hni op (by simp))
        simp only [Option.map_some] at e1
        refine ⟨by simp only [Ovni.Rt.run, ← e1]; exact r1, ?_⟩
        rw [r2]
        simp only [St.diskBytes, stepsBytes, da, db, List.flatMap_append, List.append_assoc, flatten_chunkBytes]

end Ovni.Rt.Fs
