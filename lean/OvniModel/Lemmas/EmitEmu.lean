import OvniModel.Lemmas.EmitRecords
import OvniModel.Lemmas.CoreBay

/-
  C06 (emit side, 4/4): the registrations `model_pvt_connect_thread` /
  `model_pvt_connect_cpu` perform on the bay of `Shape.connect`, and
  `Bay.viewRecs` of those registrations = `viewRecords` of View.lean whenever
  the registered channels show `thView` / `cpuView`.
-/
set_option linter.unusedSimpArgs false
namespace Ovni.Emu
open Ovni.Generated

/-- `connect_thread_prv` for thread `g`: per model, per channel `i`, register the
    track output with row `gindex`, type `pvt->type[i]`, flags `pvt->flags[i]`
    in thread.prv. -/
def Shape.thRegs (σ : Shape) (g : Nat) : List PrvReg :=
  σ.specs.zipIdx.flatMap fun mk => (List.range mk.1.nch).map fun i =>
    ({ chan := σ.thOut g mk.2 i, file := 0, row := g + 1, type := mk.1.pvtType.getD i 0,
       flags := mk.1.prvFlags.getD i 0 } : PrvReg)

/-- `connect_cpu_prv` for CPU `c`, in cpu.prv. -/
def Shape.cpuRegs (σ : Shape) (c : Nat) : List PrvReg :=
  σ.specs.zipIdx.flatMap fun mk => (List.range mk.1.nch).map fun i =>
    ({ chan := σ.cpuOut c mk.2 i, file := 1, row := c + 1, type := mk.1.pvtType.getD i 0,
       flags := mk.1.prvFlags.getD i 0 } : PrvReg)

/-- All model-channel registrations, listed in the row order of `records`
    (threads, then CPUs; per row by model and channel).  prv.c keeps them in a
    hash table; the order of the table is irrelevant (every channel has one
    callback, the call order is the dirty-list order). -/
def Shape.regs (σ : Shape) : List PrvReg :=
  (List.range σ.nT).flatMap σ.thRegs ++ (List.range σ.nC).flatMap σ.cpuRegs

/-- every model channel has a duplicate policy and no `PRV_ZERO` -/
def SpecFlagsOk (specs : List ModelSpec) : Prop :=
  ∀ m ∈ specs, ∀ i, i < m.nch → DupOk (m.prvFlags.getD i 0) ∧ NoZero (m.prvFlags.getD i 0)

theorem Shape.regs_flags {σ : Shape} (h : SpecFlagsOk σ.specs) : ∀ r ∈ σ.regs, DupOk r.flags ∧ NoZero r.flags := by
  intro r hr
  have key : ∀ (f : Nat → Nat → Nat → Nat) (file : Nat) (row : Nat),
      r ∈ (σ.specs.zipIdx.flatMap fun mk => (List.range mk.1.nch).map fun i =>
        ({ chan := f mk.2 i 0, file := file, row := row, type := mk.1.pvtType.getD i 0,
           flags := mk.1.prvFlags.getD i 0 } : PrvReg)) → DupOk r.flags ∧ NoZero r.flags := by
    intro f file row hm
    obtain ⟨mk, hmk, hm⟩ := List.mem_flatMap.mp hm
    obtain ⟨i, hi, rfl⟩ := List.mem_map.mp hm
    have hmem : mk.1 ∈ σ.specs := by
      obtain ⟨m, k⟩ := mk
      exact List.mem_of_getElem? (List.mem_zipIdx_iff_getElem?.mp hmk)
    exact h mk.1 hmem i (List.mem_range.mp hi)
  rcases List.mem_append.mp hr with h1 | h1
  · obtain ⟨g, _, hg⟩ := List.mem_flatMap.mp h1
    exact key (fun k i _ => σ.thOut g k i) 0 (g + 1) hg
  · obtain ⟨c, _, hc⟩ := List.mem_flatMap.mp h1
    exact key (fun k i _ => σ.cpuOut c k i) 1 (c + 1) hc

theorem zipIdx_flatMap_congr {α β} {G : α × Nat → List β} {G' : α → List β} : ∀ (l : List α) (n : Nat),
    (∀ (k : Nat) (m : α), l[k]? = some m → G (m, n + k) = G' m) → (l.zipIdx n).flatMap G = l.flatMap G'
  | [], _, _ => rfl
  | a :: l, n, h => by
    have h0 : G (a, n) = G' a := h 0 a rfl
    rw [List.zipIdx_cons, List.flatMap_cons, List.flatMap_cons, h0]
    rw [zipIdx_flatMap_congr l (n + 1) (fun k m hk => by
      have := h (k + 1) m (by simpa using hk)
      rw [show n + 1 + k = n + (k + 1) by omega]; exact this)]

theorem map_congr_mem {α β} {f g : α → β} : ∀ {l : List α}, (∀ a ∈ l, f a = g a) → l.map f = l.map g := by
  intro l h
  exact List.map_congr_left h

/-- What a CPU row shows: `cpuView`, except that a CPU whose `th_running` has
    never been written (`fresh`) shows nothing yet on a channel with a mux
    default — `mux_set_default` only takes effect at the first `cb_select`. -/
def cpuViewC (fresh : Bool) (e : Emu) (c : Cpu) (m : ModelSpec) (i : Nat) : Value :=
  if fresh = true ∧ m.cpuDflt i ≠ .null then .null else cpuView e c m i

theorem cpuViewC_false (e : Emu) (c : Cpu) (m : ModelSpec) (i : Nat) : cpuViewC false e c m i = cpuView e c m i := by
  simp [cpuViewC]

def cpuViewListC (specs : List ModelSpec) (fo fn : Bool) (old new : Emu) (cold c : Cpu) :
    List (Except Err (List PrvRec)) :=
  specs.flatMap fun m => (List.range m.nch).map fun i =>
    emitView 1 (c.gindex + 1) (m.pvtType.getD i 0) (m.prvFlags.getD i 0)
      (cpuViewC fo old cold m i) (cpuViewC fn new c m i)

/-- `viewRecords` with the CPU rows taken from `cpuViewC` (`fo` / `fn`: which
    CPUs are fresh before / after the event). -/
def viewRecordsC (old new : Emu) (fo fn : Nat → Bool) : Except Err (List PrvRec) :=
  collect (new.threads.flatMap (fun t => thViewList new.specs (old.threads.getD t.gindex t) t) ++
           new.cpus.flatMap (fun c => cpuViewListC new.specs (fo c.gindex) (fn c.gindex) old new
             (old.cpus.getD c.gindex c) c))

/-- Once no CPU is fresh this is `viewRecords`. -/
theorem viewRecordsC_false (old new : Emu) :
    viewRecordsC old new (fun _ => false) (fun _ => false) = viewRecords old new := by
  unfold viewRecordsC viewRecords cpuViewListC cpuViewList
  simp only [cpuViewC_false]

/-- **The registered channels show the views ⇒ `Bay.viewRecs` = `viewRecordsC`.**
    Pure list bookkeeping: `Shape.regs` lists the rows in the order of
    `records`; the hypotheses identify the registered channels' values before
    (`b`, `e`) and after (`bF`, `e'`) the event with `thView` / `cpuViewC`. -/
theorem viewRecs_eq_viewRecordsC {e e' : Emu} {b bF : Bay} {fo fn : Nat → Bool} (hs' : Shaped e')
    (hshape : e'.shape = e.shape)
    (hthO : ∀ (g k i : Nat) (t : Thread) (ms : ModelSpec), e.threads[g]? = some t → e.specs[k]? = some ms →
      i < ms.nch → (b.chan (e.shape.thOut g k i)).cur = thView t ms i)
    (hthN : ∀ (g k i : Nat) (t : Thread) (ms : ModelSpec), e'.threads[g]? = some t → e.specs[k]? = some ms →
      i < ms.nch → (bF.chan (e.shape.thOut g k i)).cur = thView t ms i)
    (hcpO : ∀ (c k i : Nat) (x : Cpu) (ms : ModelSpec), e.cpus[c]? = some x → e.specs[k]? = some ms →
      i < ms.nch → (b.chan (e.shape.cpuOut c k i)).cur = cpuViewC (fo c) e x ms i)
    (hcpN : ∀ (c k i : Nat) (x : Cpu) (ms : ModelSpec), e'.cpus[c]? = some x → e.specs[k]? = some ms →
      i < ms.nch → (bF.chan (e.shape.cpuOut c k i)).cur = cpuViewC (fn c) e' x ms i) :
    b.viewRecs e.shape.regs bF = viewRecordsC e e' fo fn := by
  have hspecs : e'.specs = e.specs := congrArg Shape.specs hshape
  have hnT : e'.threads.length = e.threads.length := congrArg Shape.nT hshape
  have hnC : e'.cpus.length = e.cpus.length := congrArg Shape.nC hshape
  unfold Bay.viewRecs viewRecordsC Shape.regs
  congr 1
  rw [List.map_append, List.map_flatMap, List.map_flatMap]
  congr 1
  · -- thread rows
    rw [flatMap_eq_range e'.threads, hnT]
    apply flatMap_congr_mem
    intro g hg
    have hgl : g < e.threads.length := List.mem_range.mp hg
    have hgl' : g < e'.threads.length := by omega
    rw [List.getElem?_eq_getElem hgl']
    simp only
    have ht' : e'.threads[g]? = some e'.threads[g] := List.getElem?_eq_getElem hgl'
    have hgi : e'.threads[g].gindex = g := hs'.thIdx g _ ht'
    have hto : e.threads.getD e'.threads[g].gindex e'.threads[g] = e.threads[g] := by
      rw [hgi]; simp [List.getD_eq_getElem?_getD, List.getElem?_eq_getElem hgl]
    have ht : e.threads[g]? = some e.threads[g] := List.getElem?_eq_getElem hgl
    unfold Shape.thRegs thViewList
    rw [List.map_flatMap, hspecs, hto, hgi]
    apply zipIdx_flatMap_congr
    intro k ms hk
    rw [List.map_map]
    apply map_congr_mem
    intro i hi
    have hil : i < ms.nch := List.mem_range.mp hi
    have hk' : e.specs[k]? = some ms := hk
    simp only [Function.comp, Nat.zero_add]
    rw [hthO g k i _ ms ht hk' hil, hthN g k i _ ms ht' hk' hil]
  · -- CPU rows
    rw [flatMap_eq_range e'.cpus, hnC]
    apply flatMap_congr_mem
    intro c hc
    have hcl : c < e.cpus.length := List.mem_range.mp hc
    have hcl' : c < e'.cpus.length := by omega
    rw [List.getElem?_eq_getElem hcl']
    simp only
    have hx' : e'.cpus[c]? = some e'.cpus[c] := List.getElem?_eq_getElem hcl'
    have hgi : e'.cpus[c].gindex = c := hs'.cpuIdx c _ hx'
    have hxo : e.cpus.getD e'.cpus[c].gindex e'.cpus[c] = e.cpus[c] := by
      rw [hgi]; simp [List.getD_eq_getElem?_getD, List.getElem?_eq_getElem hcl]
    have hx : e.cpus[c]? = some e.cpus[c] := List.getElem?_eq_getElem hcl
    unfold Shape.cpuRegs cpuViewListC
    rw [List.map_flatMap, hspecs, hxo, hgi]
    apply zipIdx_flatMap_congr
    intro k ms hk
    rw [List.map_map]
    apply map_congr_mem
    intro i hi
    have hil : i < ms.nch := List.mem_range.mp hi
    have hk' : e.specs[k]? = some ms := hk
    simp only [Function.comp, Nat.zero_add]
    rw [hcpO c k i _ ms hx hk' hil, hcpN c k i _ ms hx' hk' hil]

/-! ### `viewRecordsC` succeeds when `viewRecords` does -/

theorem emitView_isOk_iff (file row type flags : Nat) (vo vn : Value) :
    (∃ m, emitView file row type flags vo vn = .ok m) ↔ (vo = vn ∨ ∃ x, prvValue flags vn = .ok x) := by
  by_cases h : vo = vn
  · subst h; rw [emitView_same]; exact ⟨fun _ => Or.inl rfl, fun _ => ⟨_, rfl⟩⟩
  · cases hp : prvValue flags vn with
    | ok x => rw [emitView_ne_ok h hp]; exact ⟨fun _ => Or.inr ⟨x, rfl⟩, fun _ => ⟨_, rfl⟩⟩
    | error y =>
      rw [emitView_ne_error h hp]
      constructor
      · rintro ⟨m, hm⟩; cases hm
      · rintro (h1 | ⟨x, hx⟩)
        · exact absurd h1 h
        · cases hx

/-- the mux defaults are legal Paraver values of their channel -/
def CpuDfltOk (specs : List ModelSpec) : Prop :=
  ∀ m ∈ specs, ∀ i, i < m.nch → ∃ x, prvValue (m.prvFlags.getD i 0) (m.cpuDflt i) = .ok x

/-- If the model rows of `records` succeed, so do the rows with `cpuViewC`
    (a fresh CPU shows its default in `cpuView`, null in `cpuViewC`; fresh CPUs
    do not become fresh again). -/
theorem viewRecordsC_ok {e e' : Emu} {fo fn : Nat → Bool}
    (hfresh : ∀ c ∈ e'.cpus, fo c.gindex = true → ∀ ms ∈ e'.specs, ∀ (i : Nat), i < ms.nch →
      ms.cpuDflt i ≠ .null → cpuView e (e.cpus.getD c.gindex c) ms i = ms.cpuDflt i)
    (hd : CpuDfltOk e'.specs) {v : List PrvRec} (h : viewRecords e e' = .ok v) :
    ∃ vr, viewRecordsC e e' fo fn = .ok vr := by
  obtain ⟨hall, _⟩ := collect_ok_iff.mp h
  refine ⟨_, collect_ok_iff.mpr ⟨?_, rfl⟩⟩
  intro x hx
  rcases List.mem_append.mp hx with hx | hx
  · exact hall x (List.mem_append_left _ hx)
  · obtain ⟨c, hc, hx⟩ := List.mem_flatMap.mp hx
    unfold cpuViewListC at hx
    obtain ⟨ms, hms, hx⟩ := List.mem_flatMap.mp hx
    obtain ⟨i, hi, rfl⟩ := List.mem_map.mp hx
    have hmodel : ∃ m, emitView 1 (c.gindex + 1) (ms.pvtType.getD i 0) (ms.prvFlags.getD i 0)
        (cpuView e (e.cpus.getD c.gindex c) ms i) (cpuView e' c ms i) = .ok m := by
      obtain ⟨r, hr⟩ := hall _ (List.mem_append_right _ (List.mem_flatMap.mpr ⟨c, hc, by
        unfold cpuViewList
        exact List.mem_flatMap.mpr ⟨ms, hms, List.mem_map.mpr ⟨i, hi, rfl⟩⟩⟩))
      exact ⟨r, hr⟩
    rw [emitView_isOk_iff] at hmodel
    have := (emitView_isOk_iff 1 (c.gindex + 1) (ms.pvtType.getD i 0) (ms.prvFlags.getD i 0)
      (cpuViewC (fo c.gindex) e (e.cpus.getD c.gindex c) ms i) (cpuViewC (fn c.gindex) e' c ms i)).mpr
    obtain ⟨m, hm⟩ := this (by
      by_cases hn : fn c.gindex = true ∧ ms.cpuDflt i ≠ .null
      · right; refine ⟨0, ?_⟩; unfold cpuViewC; rw [if_pos hn]; rfl
      · have hvn : cpuViewC (fn c.gindex) e' c ms i = cpuView e' c ms i := by unfold cpuViewC; rw [if_neg hn]
        rw [hvn]
        by_cases ho : fo c.gindex = true ∧ ms.cpuDflt i ≠ .null
        · -- fresh before, selected now
          rcases hmodel with heq | hp
          · right
            rw [← heq, hfresh c hc ho.1 ms hms i (List.mem_range.mp hi) ho.2]
            exact hd ms hms i (List.mem_range.mp hi)
          · exact Or.inr hp
        · have hvo : cpuViewC (fo c.gindex) e (e.cpus.getD c.gindex c) ms i =
              cpuView e (e.cpus.getD c.gindex c) ms i := by unfold cpuViewC; rw [if_neg ho]
          rw [hvo]; exact hmodel)
    exact ⟨m, hm⟩

/-- … and conversely: if the rows with `cpuViewC` succeed so do the model rows
    of `records` (a CPU that is still fresh after the event was fresh before, and
    shows its default in `cpuView` both times). -/
theorem viewRecords_ok_of_C {e e' : Emu} {fo fn : Nat → Bool} (hmono : ∀ c, fn c = true → fo c = true)
    (hfreshO : ∀ c ∈ e'.cpus, fo c.gindex = true → ∀ ms ∈ e'.specs, ∀ (i : Nat), i < ms.nch →
      ms.cpuDflt i ≠ .null → cpuView e (e.cpus.getD c.gindex c) ms i = ms.cpuDflt i)
    (hfreshN : ∀ c ∈ e'.cpus, fn c.gindex = true → ∀ ms ∈ e'.specs, ∀ (i : Nat), i < ms.nch →
      ms.cpuDflt i ≠ .null → cpuView e' c ms i = ms.cpuDflt i)
    {vr : List PrvRec} (h : viewRecordsC e e' fo fn = .ok vr) : ∃ v, viewRecords e e' = .ok v := by
  obtain ⟨hall, _⟩ := collect_ok_iff.mp h
  refine ⟨_, collect_ok_iff.mpr ⟨?_, rfl⟩⟩
  intro x hx
  rcases List.mem_append.mp hx with hx | hx
  · exact hall x (List.mem_append_left _ hx)
  · obtain ⟨c, hc, hx⟩ := List.mem_flatMap.mp hx
    unfold cpuViewList at hx
    obtain ⟨ms, hms, hx⟩ := List.mem_flatMap.mp hx
    obtain ⟨i, hi, rfl⟩ := List.mem_map.mp hx
    have hil : i < ms.nch := List.mem_range.mp hi
    have hC : ∃ m, emitView 1 (c.gindex + 1) (ms.pvtType.getD i 0) (ms.prvFlags.getD i 0)
        (cpuViewC (fo c.gindex) e (e.cpus.getD c.gindex c) ms i) (cpuViewC (fn c.gindex) e' c ms i) = .ok m := by
      obtain ⟨r, hr⟩ := hall _ (List.mem_append_right _ (List.mem_flatMap.mpr ⟨c, hc, by
        unfold cpuViewListC
        exact List.mem_flatMap.mpr ⟨ms, hms, List.mem_map.mpr ⟨i, hi, rfl⟩⟩⟩))
      exact ⟨r, hr⟩
    rw [emitView_isOk_iff] at hC
    obtain ⟨m, hm⟩ := (emitView_isOk_iff 1 (c.gindex + 1) (ms.pvtType.getD i 0) (ms.prvFlags.getD i 0)
      (cpuView e (e.cpus.getD c.gindex c) ms i) (cpuView e' c ms i)).mpr (by
      by_cases hn : fn c.gindex = true ∧ ms.cpuDflt i ≠ .null
      · left
        rw [hfreshO c hc (hmono _ hn.1) ms hms i hil hn.2, hfreshN c hc hn.1 ms hms i hil hn.2]
      · have hvn : cpuViewC (fn c.gindex) e' c ms i = cpuView e' c ms i := by unfold cpuViewC; rw [if_neg hn]
        rw [hvn] at hC
        by_cases ho : fo c.gindex = true ∧ ms.cpuDflt i ≠ .null
        · have hvo : cpuViewC (fo c.gindex) e (e.cpus.getD c.gindex c) ms i = .null := by
            unfold cpuViewC; rw [if_pos ho]
          rw [hvo] at hC
          rcases hC with heq | hp
          · right; rw [← heq]; exact ⟨0, rfl⟩
          · exact Or.inr hp
        · have hvo : cpuViewC (fo c.gindex) e (e.cpus.getD c.gindex c) ms i =
              cpuView e (e.cpus.getD c.gindex c) ms i := by unfold cpuViewC; rw [if_neg ho]
          rw [hvo] at hC; exact hC)
    exact ⟨m, hm⟩

/-- When no CPU of the hierarchy is fresh, `viewRecordsC` is `viewRecords`. -/
theorem viewRecordsC_of_settled {e e' : Emu} {fo fn : Nat → Bool} (hs' : Shaped e')
    (ho : ∀ c, c < e'.cpus.length → fo c = false) (hn : ∀ c, c < e'.cpus.length → fn c = false) :
    viewRecordsC e e' fo fn = viewRecords e e' := by
  unfold viewRecordsC viewRecords
  congr 2
  apply flatMap_congr_mem
  intro c hc
  obtain ⟨cg, hcg⟩ := List.mem_iff_getElem?.mp hc
  have hgi : c.gindex = cg := hs'.cpuIdx cg c hcg
  have hl : c.gindex < e'.cpus.length := by rw [hgi]; exact (List.getElem?_eq_some_iff.mp hcg).1
  unfold cpuViewListC cpuViewList
  rw [ho _ hl, hn _ hl]
  simp only [cpuViewC_false]

/-! ### the invariant at connect time -/

/-- Just connected (`AllNull`): nothing emitted yet, every row shows 0. -/
theorem EmitInv.ofNull (regs : List PrvReg) {b : Bay} (hnull : b.AllNull) :
    EmitInv regs (List.replicate regs.length none) (List.replicate regs.length 0) b := by
  refine ⟨by simp, by simp, ?_, ?_⟩
  · intro j r _
    have : (List.replicate regs.length (none : Option Value)).getD j none = none := by
      simp only [List.getD_eq_getElem?_getD, List.getElem?_replicate]
      split <;> rfl
    rw [this]; exact ⟨fun _ => rfl, Or.inl rfl⟩
  · intro j r hr
    have hj : j < regs.length := (List.getElem?_eq_some_iff.mp hr).1
    have : (List.replicate regs.length (0 : Int)).getD j 0 = 0 := by
      simp only [List.getD_eq_getElem?_getD, List.getElem?_replicate]
      split <;> rfl
    rw [this, hnull]; rfl

end Ovni.Emu
