import OvniModel.Lemmas.TaskCoupleChan

/-
  C06, the coupling between the task layer and the thread channels: the
  `chan_set`s of `update_task_channels`.  What `Ovni.Task.updateChannels`
  (Emu/Task.lean, on the task layer's copy) computes is what the writes
  `taskSets` (Emu/TaskHook.lean, on the thread's channels) store.
-/
set_option linter.unusedSimpArgs false
namespace Ovni.Emu
open Ovni.Generated Ovni.Task

/-- the copy after `chan_body_running` / `_switch` (`vals = some (body id, task
    id, type gid)`) or `chan_body_stopped` (`vals = none`) -/
def setsRes (m : Model) (P : ProcInfo) (c : Chans) (vals : Option (Int × Int × Int)) : Chans :=
  match m with
  | .nosv =>
    ⟨vals.map (·.2.1), vals.map (·.2.2), vals.map (·.1), vals.map (fun _ => P.appid),
      if P.rank ≥ 0 then vals.map (fun _ => P.rank + 1) else c.rank⟩
  | .nanos6 =>
    ⟨vals.map (·.2.1), vals.map (·.2.2), c.bodyid, c.appid,
      if P.rank ≥ 0 then vals.map (fun _ => P.rank + 1) else c.rank⟩

theorem chanSet_eq {dup : Bool} {cur v w : Option Int} (h : chanSet dup cur v = .ok w) : w = v := by
  unfold chanSet at h
  split at h
  · cases h
  · injection h with h; exact h.symm

theorem chanSet_ok_iff {dup : Bool} {cur v w : Option Int} :
    chanSet dup cur v = .ok w ↔ ¬ ((!dup) = true ∧ cur = v) ∧ w = v := by
  unfold chanSet
  by_cases hc : (!dup) = true ∧ cur = v
  · rw [if_pos hc]
    constructor
    · intro h; cases h
    · rintro ⟨h1, _⟩; exact absurd hc h1
  · rw [if_neg hc]
    constructor
    · intro h; injection h with h; exact ⟨hc, h.symm⟩
    · rintro ⟨_, rfl⟩; rfl

theorem chanShow_res {m : Model} {P : ProcInfo} {c ch' : Chans} {T : Task} {B : Body}
    (h : chanShow m P c T B = .ok ch') : ch' = setsRes m P c (some ((B.id : Int), (T.id : Int), (T.gid : Int))) := by
  cases m
  all_goals
    unfold chanShow at h
    simp only [bind, Except.bind, pure, Except.pure] at h
    repeat' split at h
    all_goals first | (cases h; done) | skip
    all_goals (injection h with h; subst h)
  all_goals simp only [chanSet_ok_iff] at *
  all_goals simp_all [setsRes]
  all_goals (intro; omega)

theorem chanStopped_res {m : Model} {P : ProcInfo} {c ch' : Chans}
    (h : chanStopped m P c = .ok ch') : ch' = setsRes m P c none := by
  cases m
  all_goals
    unfold chanStopped at h
    simp only [bind, Except.bind, pure, Except.pure] at h
    repeat' split at h
    all_goals first | (cases h; done) | skip
    all_goals (injection h with h; subst h)
  all_goals simp only [chanSet_ok_iff] at *
  all_goals simp_all [setsRes]
  all_goals (intro; omega)

/-- the `chan_push` / `chan_pop` of `update_task_ss_channel` -/
def ssPart (m : Model) (tv : TaskEv) : List TaskWr :=
  match tv with
  | .x => [TaskWr.push (taskIdx m).ss (.int m.cfg.stTaskBody)]
  | .e => [TaskWr.pop (taskIdx m).ss (.int m.cfg.stTaskBody)]
  | _ => []

/-- the `chan_set`s of `update_task_channels` -/
def setPart (m : Model) (P : ProcInfo) (tr : Tr) (next : Option (Task × Body)) : List TaskWr :=
  match tr with
  | .e | .p => taskSets (taskIdx m) P none
  | _ =>
    match next with
    | some (T, B) => taskSets (taskIdx m) P (some ((B.id : Int), (T.id : Int), (T.gid : Int)))
    | none => []

theorem taskWrites_eq (m : Model) (P : ProcInfo) (tv : TaskEv) (tr : Tr) (next : Option (Task × Body)) :
    taskWrites m P tv tr next = ssPart m tv ++ setPart m P tr next := by
  unfold taskWrites ssPart setPart
  cases tv <;> cases tr <;> rfl

theorem chanRunning_res {m : Model} {P : ProcInfo} {c ch' : Chans} {next : Option (Task × Body)}
    (h : chanRunning m P c next = .ok ch') :
    ∃ T B, next = some (T, B) ∧ ch' = setsRes m P c (some ((B.id : Int), (T.id : Int), (T.gid : Int))) := by
  unfold chanRunning at h
  cases next with
  | none => cases h
  | some x =>
    obtain ⟨T, B⟩ := x
    simp only at h
    repeat' split at h
    all_goals first | (cases h; done) | skip
    exact ⟨T, B, rfl, chanShow_res h⟩

theorem chanSwitch_res {m : Model} {P : ProcInfo} {c ch' : Chans} {prev next : Option (Task × Body)}
    (h : chanSwitch m P c prev next = .ok ch') :
    ∃ T B, next = some (T, B) ∧ ch' = setsRes m P c (some ((B.id : Int), (T.id : Int), (T.gid : Int))) := by
  unfold chanSwitch at h
  cases prev with
  | none => cases h
  | some y =>
    cases next with
    | none => cases h
    | some x =>
      obtain ⟨T, B⟩ := x
      obtain ⟨Tp, Bp⟩ := y
      simp only at h
      repeat' split at h
      all_goals first | (cases h; done) | skip
      exact ⟨T, B, rfl, chanShow_res h⟩

/-- **`update_task_channels` on the copy = the `chan_set`s on the channels.** -/
theorem updateChannels_res {m : Model} {P : ProcInfo} {c ch' : Chans} {tr : Tr} {prev next : Option (Task × Body)}
    (h : updateChannels m P c tr prev next = .ok ch') :
    ∃ vals, setPart m P tr next = taskSets (taskIdx m) P vals ∧ ch' = setsRes m P c vals := by
  cases tr
  all_goals simp only [updateChannels] at h
  all_goals first
    | (obtain ⟨T, B, rfl, hc⟩ := chanRunning_res h; exact ⟨_, rfl, hc⟩)
    | (obtain ⟨T, B, rfl, hc⟩ := chanSwitch_res h; exact ⟨_, rfl, hc⟩)
    | exact ⟨none, rfl, chanStopped_res h⟩

/-- the single-valued task channels of a model: channel index, duplicate policy
    (`chan_dup[]` of setup.c), field of the task layer's copy -/
def taskFields (m : Model) : List (Nat × Bool × (Chans → Option Int)) :=
  (match (taskIdx m).bodyid with | some i => [(i, m.cfg.dupBodyid, Chans.bodyid)] | none => []) ++
  [((taskIdx m).taskid, m.cfg.dupTaskid, Chans.taskid), ((taskIdx m).typ, m.cfg.dupType, Chans.typ)] ++
  (match (taskIdx m).appid with | some i => [(i, m.cfg.dupAppid, Chans.appid)] | none => []) ++
  [((taskIdx m).rank, m.cfg.dupRank, Chans.rank)]

/-- every field is either set by `taskSets` to the value the copy gets, or not
    written and unchanged in the copy (the rank without `proc->rank`) -/
theorem taskSets_fields (m : Model) (P : ProcInfo) (c : Chans) (vals : Option (Int × Int × Int)) :
    ∀ f ∈ taskFields m,
      (∃ v, TaskWr.set f.1 (ofOpt v) ∈ taskSets (taskIdx m) P vals ∧ f.2.2 (setsRes m P c vals) = v) ∨
      ((∀ w ∈ taskSets (taskIdx m) P vals, w.chan ≠ f.1) ∧ f.2.2 (setsRes m P c vals) = f.2.2 c) := by
  intro f hf
  cases m
  all_goals
    simp only [taskFields, taskIdx, TaskChanIdx.nosv, TaskChanIdx.nanos6, List.append_assoc, List.cons_append,
      List.nil_append, List.mem_cons, List.not_mem_nil, or_false] at hf
  all_goals
    rcases hf with rfl | rfl | rfl | rfl | rfl
  all_goals
    cases vals <;> by_cases hr : P.rank ≥ 0 <;>
      simp [taskSets, setsRes, taskIdx, TaskChanIdx.nosv, TaskChanIdx.nanos6, ofOpt, hr, TaskWr.chan]

theorem taskSets_nodup (m : Model) (P : ProcInfo) (vals : Option (Int × Int × Int)) :
    ((taskIdx m).ss :: (taskSets (taskIdx m) P vals).map TaskWr.chan).Nodup := by
  cases m <;> cases vals <;> by_cases hr : P.rank ≥ 0 <;>
    simp [taskSets, taskIdx, TaskChanIdx.nosv, TaskChanIdx.nanos6, hr, TaskWr.chan]

/-- the writes of one `update_task` go to distinct channels -/
theorem taskWrites_nodup (m : Model) (P : ProcInfo) (tv : TaskEv) (tr : Tr) (next : Option (Task × Body)) :
    ((taskWrites m P tv tr next).map TaskWr.chan).Nodup := by
  rw [taskWrites_eq]
  have hset : ∃ l, (setPart m P tr next).map TaskWr.chan = l ∧ ((taskIdx m).ss :: l).Nodup := by
    unfold setPart
    cases tr
    all_goals first
      | exact ⟨_, rfl, taskSets_nodup m P none⟩
      | (cases next with
         | none => exact ⟨[], rfl, by simp⟩
         | some x => exact ⟨_, rfl, taskSets_nodup m P _⟩)
  obtain ⟨l, hl, hnd⟩ := hset
  rw [List.map_append, hl]
  cases tv
  all_goals simp only [ssPart, List.map_cons, List.map_nil, TaskWr.chan, List.nil_append, List.cons_append]
  all_goals first
    | exact hnd
    | exact (List.nodup_cons.mp hnd).2

/-- the subsystem channel is not one of the single-valued task channels -/
theorem ss_not_field (m : Model) : ∀ f ∈ taskFields m, f.1 ≠ (taskIdx m).ss := by
  cases m <;> simp [taskFields, taskIdx, TaskChanIdx.nosv, TaskChanIdx.nanos6]

/-- … and the `chan_set`s never write it -/
theorem setPart_not_ss (m : Model) (P : ProcInfo) (tr : Tr) (next : Option (Task × Body)) :
    ∀ w ∈ setPart m P tr next, w.chan ≠ (taskIdx m).ss := by
  intro w hw hq
  have hmem : ∀ vals, w ∈ taskSets (taskIdx m) P vals → False := by
    intro vals hv
    have := taskSets_nodup m P vals
    rw [List.nodup_cons] at this
    exact this.1 (hq ▸ List.mem_map.mpr ⟨w, hv, rfl⟩)
  unfold setPart at hw
  cases tr
  all_goals first
    | exact hmem _ hw
    | (cases next with
       | none => cases hw
       | some x => exact hmem _ hw)

/-- the fields are distinct channels -/
theorem taskFields_nodup (m : Model) : ((taskFields m).map (·.1)).Nodup := by
  cases m <;> decide

end Ovni.Emu
