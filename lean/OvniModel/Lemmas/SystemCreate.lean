import OvniModel.Lemmas.SystemCpu
import OvniModel.Lemmas.SystemProc
import OvniModel.Lemmas.SystemSort

/-! Invariant of `create_system` over the streams merged so far (helper lemmas for C15). -/
namespace Ovni.Emu.System

/-! ### Skeleton: looms, process keys and thread rows depend on the thread parts only -/

abbrev Skel := List Str × List (Str × Int) × List ThreadRow

def skelStep (sk : Skel) (t : ThreadPart) : Skel :=
  if t.part = some sThread then
    match t.loom with
    | some n => (if n ∈ sk.1 then sk.1 else sk.1 ++ [n],
                 if (n, t.pid) ∈ sk.2.1 then sk.2.1 else sk.2.1 ++ [(n, t.pid)],
                 sk.2.2 ++ [⟨n, t.pid, t.tid, t.hasVersion, t.hasCommit⟩])
    | none => sk
  else sk

def skelOf (ts : List ThreadPart) : Skel := ts.foldl skelStep ([], [], [])

def skel (sys : Sys) : Skel := (sys.looms, sys.procs.map pkey, sys.threads)

def tkey (t : ThreadRow) : Option Str × Int × Int := (some t.loom, t.pid, t.tid)

/-! ### Facts of `pre ++ [s]` -/

theorem appFacts_snoc (pre : List StreamMeta) (s : StreamMeta) :
    appFacts (pre ++ [s]) = appFacts pre ++ appFactsOf s := by simp [appFacts]

theorem rankFacts_snoc (pre : List StreamMeta) (s : StreamMeta) :
    rankFacts (pre ++ [s]) = rankFacts pre ++ rankFactsOf s := by simp [rankFacts]

theorem cpuFacts_snoc (pre : List StreamMeta) (s : StreamMeta) :
    cpuFacts (pre ++ [s]) = cpuFacts pre ++ cpuFactsOf s := by simp [cpuFacts]

theorem thrKeys_snoc (pre : List StreamMeta) (s : StreamMeta) :
    thrKeys (pre ++ [s]) = thrKeys pre ++ thrKeysOf s.tp := by simp [thrKeys]

theorem appFacts_append (a b : List StreamMeta) : appFacts (a ++ b) = appFacts a ++ appFacts b := by
  simp [appFacts]

theorem rankFacts_append (a b : List StreamMeta) : rankFacts (a ++ b) = rankFacts a ++ rankFacts b := by
  simp [rankFacts]

theorem cpuFacts_append (a b : List StreamMeta) : cpuFacts (a ++ b) = cpuFacts a ++ cpuFacts b := by
  simp [cpuFacts]

theorem thrKeys_append (a b : List StreamMeta) : thrKeys (a ++ b) = thrKeys a ++ thrKeys b := by
  simp [thrKeys]

theorem factsOf_thread {s : StreamMeta} {n : Str} (hp : s.tp.part = some sThread) (hl : s.tp.loom = some n) :
    appFactsOf s = appF n s.tp.pid s.appId ∧
    rankFactsOf s = rankF n s.tp.pid s.rank s.nranks ∧
    cpuFactsOf s = entryFacts n s.cpus ∧
    thrKeysOf s.tp = [(some n, s.tp.pid, s.tp.tid)] := by
  refine ⟨?_, ?_, ?_, ?_⟩
  · simp only [appFactsOf, isThr, hp, hl, if_true]
    cases s.appId <;> simp [appF]
  · simp only [rankFactsOf, isThr, hp, hl, if_true]
    cases s.rank <;> simp [rankF]
  · simp only [cpuFactsOf, isThr, hp, hl, if_true]
    cases hc : s.cpus with
    | none => simp [entryFacts]
    | some es => cases es <;> simp [entryFacts]
  · simp [thrKeysOf, hp, hl]

theorem factsOf_other {s : StreamMeta} (hp : s.tp.part ≠ some sThread) :
    appFactsOf s = [] ∧ rankFactsOf s = [] ∧ cpuFactsOf s = [] ∧ thrKeysOf s.tp = [] := by
  simp [appFactsOf, rankFactsOf, cpuFactsOf, thrKeysOf, isThr, hp]

/-! ### create_thread -/

theorem createThread_ok {threads ts : List ThreadRow} {n : Str} {s : StreamMeta}
    (h : createThread threads n s = .ok ts) :
    0 < s.tp.tid ∧ s.tp.finished = 1 ∧ (∀ t ∈ threads, ¬ isThread n s.tp.pid s.tp.tid t) ∧
    ts = threads ++ [⟨n, s.tp.pid, s.tp.tid, s.tp.hasVersion, s.tp.hasCommit⟩] := by
  unfold createThread at h
  simp only at h
  split at h
  · cases h
  split at h
  · cases h
  split at h
  · cases h
  rename_i h1 h2 h3
  cases h
  refine ⟨by omega, by simpa using h3, ?_, rfl⟩
  intro t ht hk
  apply h2
  exact List.any_eq_true.2 ⟨t, ht, decide_eq_true hk⟩

theorem createThread_error {threads : List ThreadRow} {n : Str} {s : StreamMeta} {e : Err}
    (h : createThread threads n s = .error e) :
    s.tp.tid ≤ 0 ∨ (∃ t ∈ threads, isThread n s.tp.pid s.tp.tid t) ∨ s.tp.finished ≠ 1 := by
  unfold createThread at h
  simp only at h
  split at h
  · rename_i h1; exact Or.inl h1
  split at h
  · rename_i h2
    obtain ⟨t, ht, hk⟩ := List.any_eq_true.1 h2
    exact Or.inr (Or.inl ⟨t, ht, of_decide_eq_true hk⟩)
  split at h
  · rename_i h3; exact Or.inr (Or.inr h3)
  · cases h

theorem createThread_ne_crash (threads : List ThreadRow) (n : Str) (s : StreamMeta) :
    createThread threads n s ≠ .crash := by
  unfold createThread
  simp only
  repeat' split
  all_goals simp

/-! ### One step of create_system -/

/-- The loom half of `create_loom` (find, or check the name and append). -/
def loomsStep (looms : List Str) (n : Str) : Res (List Str) :=
  if n ∈ looms then .ok looms
  else if cSlash ∈ n ∨ n.length ≥ pathMax then .error .loomName
  else .ok (looms ++ [n])

theorem step_thread {m : Mode} {sys : Sys} {s : StreamMeta} {n : Str}
    (hp : s.tp.part = some sThread) (hl : s.tp.loom = some n) :
    step m sys s =
      (loomsStep sys.looms n).bind fun ls =>
      (loadCpus m n sys.cpus s.cpus).bind fun cs =>
      (createProc sys.procs n s).bind fun ps =>
      (createThread sys.threads n s).bind fun ts => .ok ⟨ls, ps, ts, cs⟩ := by
  unfold step createLoom loomsStep
  simp only [hp, hl, ne_eq, not_true_eq_false, if_false]
  split
  · simp only [Res.bind]
    cases loadCpus m n sys.cpus s.cpus <;> rfl
  · split
    · rfl
    · simp only [Res.bind]
      cases loadCpus m n sys.cpus s.cpus <;> rfl

theorem step_other {m : Mode} {sys : Sys} {s : StreamMeta} {p : Str}
    (hp : s.tp.part = some p) (hne : p ≠ sThread) : step m sys s = .ok sys := by
  unfold step
  simp [hp, hne]

/-- Invariant relating the tables to the streams `pre` merged so far. -/
structure Inv (pre : List StreamMeta) (sys : Sys) : Prop where
  loomsNodup : sys.looms.Nodup
  loomsOK : ∀ n ∈ sys.looms, cSlash ∉ n ∧ n.length < pathMax
  skelEq : skel sys = skelOf (pre.map (·.tp))
  thrRows : sys.threads.map tkey = thrKeys pre
  thrNodup : (thrKeys pre).Nodup
  tpOK : ∀ s ∈ pre, ThreadPartOK s.tp
  procs : ProcInv (appFacts pre) (rankFacts pre) sys.procs
  cpus : CpuInv (cpuFacts pre) sys.cpus
  noEmpty : ∀ n, (n, none) ∉ cpuFacts pre
  cpuLoom : ∀ c ∈ sys.cpus, c.loom ∈ sys.looms
  procLoom : ∀ p ∈ sys.procs, p.loom ∈ sys.looms
  thrLoom : ∀ t ∈ sys.threads, t.loom ∈ sys.looms
  thrProc : ∀ t ∈ sys.threads, (t.loom, t.pid) ∈ sys.procs.map pkey
  loomSrc : ∀ n ∈ sys.looms, ∃ t ∈ sys.threads, t.loom = n
  procSrc : ∀ k ∈ sys.procs.map pkey, ∃ t ∈ sys.threads, (t.loom, t.pid) = k

theorem Inv.nil : Inv [] Sys.empty := by
  refine ⟨List.nodup_nil, ?_, rfl, rfl, List.nodup_nil, ?_, ProcInv.nil, CpuInv.nil, ?_, ?_, ?_, ?_, ?_, ?_, ?_⟩
  · intro n h; cases h
  · intro s h; cases h
  · intro n h; cases h
  · intro c h; cases h
  · intro p h; cases h
  · intro t h; cases h
  · intro t h; cases h
  · intro n h; cases h
  · intro k h; cases h

theorem skelOf_snoc (ts : List ThreadPart) (t : ThreadPart) :
    skelOf (ts ++ [t]) = skelStep (skelOf ts) t := by
  simp [skelOf, List.foldl_append]

theorem loomsStep_ok {looms ls : List Str} {n : Str} (h : loomsStep looms n = .ok ls) :
    ls = (if n ∈ looms then looms else looms ++ [n]) ∧ (n ∈ looms ∨ (cSlash ∉ n ∧ n.length < pathMax)) := by
  unfold loomsStep at h
  split at h
  · rename_i hm; cases h; exact ⟨by simp [hm], Or.inl hm⟩
  split at h
  · cases h
  · rename_i hm hb
    cases h
    refine ⟨by simp [hm], Or.inr ⟨fun hc => hb (Or.inl hc), ?_⟩⟩
    apply Classical.byContradiction
    intro hlen
    exact hb (Or.inr (by omega))

theorem mem_loadCpuEntry {m : Mode} {n : Str} {cpus cpus' : List CpuRow} {e : Int × Int}
    (h : loadCpuEntry m n cpus e = .ok cpus') : ∀ c ∈ cpus', c ∈ cpus ∨ c.loom = n := by
  unfold loadCpuEntry at h
  simp only at h
  split at h
  · cases h
  split at h
  · cases h
  split at h
  · split at h
    · cases h
    · cases h; intro c hc; exact Or.inl hc
  · split at h
    · cases h
    · cases h
    · cases h
    · split at h
      · cases h
      · cases h
        intro c hc
        rcases List.mem_append.1 hc with hc | hc
        · exact Or.inl hc
        · simp only [List.mem_singleton] at hc; subst hc; exact Or.inr rfl

theorem mem_loadCpuList {m : Mode} {n : Str} (es : List (Int × Int)) :
    ∀ {cpus cpus' : List CpuRow}, loadCpuList m n cpus es = .ok cpus' →
    ∀ c ∈ cpus', c ∈ cpus ∨ c.loom = n := by
  induction es with
  | nil => intro cpus cpus' h; simp only [loadCpuList] at h; cases h; intro c hc; exact Or.inl hc
  | cons e es ih =>
    intro cpus cpus' h
    simp only [loadCpuList] at h
    split at h
    · rename_i c1 h1
      intro c hc
      rcases ih h c hc with h2 | h2
      · exact mem_loadCpuEntry h1 c h2
      · exact Or.inr h2
    · cases h
    · cases h

theorem mem_loadCpus {m : Mode} {n : Str} {cpus cpus' : List CpuRow} {o : Option (List (Int × Int))}
    (h : loadCpus m n cpus o = .ok cpus') : ∀ c ∈ cpus', c ∈ cpus ∨ c.loom = n := by
  cases o with
  | none => simp only [loadCpus] at h; cases h; intro c hc; exact Or.inl hc
  | some es =>
    cases es with
    | nil => simp [loadCpus] at h
    | cons e es => simp only [loadCpus] at h; exact mem_loadCpuList _ h

theorem mem_createProc_loom {procs procs' : List ProcRow} {n : Str} {s : StreamMeta}
    {A : List AFact} {R : List RFact} (inv : ProcInv A R procs)
    (h : createProc procs n s = .ok procs') : ∀ p ∈ procs', p.loom = n ∨ ∃ q ∈ procs, q.loom = p.loom := by
  obtain ⟨_, _, hkeys⟩ := createProc_ok h inv
  intro p hp
  have : pkey p ∈ procs'.map pkey := List.mem_map.2 ⟨p, hp, rfl⟩
  rw [hkeys] at this
  split at this
  · obtain ⟨q, hq, hk⟩ := List.mem_map.1 this
    simp only [pkey, Prod.mk.injEq] at hk
    exact Or.inr ⟨q, hq, hk.1⟩
  · rcases List.mem_append.1 this with h1 | h1
    · obtain ⟨q, hq, hk⟩ := List.mem_map.1 h1
      simp only [pkey, Prod.mk.injEq] at hk
      exact Or.inr ⟨q, hq, hk.1⟩
    · simp only [List.mem_singleton, pkey, Prod.mk.injEq] at h1
      exact Or.inl h1.1

theorem step_ok {m : Mode} {pre : List StreamMeta} {sys sys' : Sys} {s : StreamMeta}
    (h : step m sys s = .ok sys') (inv : Inv pre sys) : Inv (pre ++ [s]) sys' := by
  cases hpart : s.tp.part with
  | none => unfold step at h; simp [hpart] at h
  | some p =>
    by_cases hthr : p = sThread
    · subst hthr
      cases hloom : s.tp.loom with
      | none => unfold step createLoom at h; simp [hpart, hloom, Res.bind] at h
      | some n =>
        rw [step_thread hpart hloom] at h
        cases hls : loomsStep sys.looms n with
        | error e => rw [hls] at h; simp [Res.bind] at h
        | crash => rw [hls] at h; simp [Res.bind] at h
        | ok ls =>
        rw [hls] at h; simp only [Res.bind] at h
        cases hcs : loadCpus m n sys.cpus s.cpus with
        | error e => rw [hcs] at h; simp at h
        | crash => rw [hcs] at h; simp at h
        | ok cs =>
        rw [hcs] at h; simp only at h
        cases hps : createProc sys.procs n s with
        | error e => rw [hps] at h; simp at h
        | crash => rw [hps] at h; simp at h
        | ok ps =>
        rw [hps] at h; simp only at h
        cases hts : createThread sys.threads n s with
        | error e => rw [hts] at h; simp at h
        | crash => rw [hts] at h; simp at h
        | ok ts =>
        rw [hts] at h; simp only [Res.ok.injEq] at h
        subst h
        obtain ⟨f1, f2, f3, f4⟩ := factsOf_thread hpart hloom
        obtain ⟨l1, l2⟩ := loomsStep_ok hls
        obtain ⟨c1, c2⟩ := loadCpus_ok hcs inv.cpus
        obtain ⟨p1, p2, p3⟩ := createProc_ok hps inv.procs
        obtain ⟨t1, t2, t3, t4⟩ := createThread_ok hts
        have hnl : n ∈ ls := by rw [l1]; split <;> simp [*]
        have hsub : ∀ x ∈ sys.looms, x ∈ ls := by
          intro x hx; rw [l1]; split
          · exact hx
          · exact List.mem_append_left _ hx
        have hpsub : ∀ k ∈ sys.procs.map pkey, k ∈ ps.map pkey := by
          intro k hk; rw [p3]; split
          · exact hk
          · exact List.mem_append_left _ hk
        have hpn : (n, s.tp.pid) ∈ ps.map pkey := by
          rw [p3]; split
          · assumption
          · exact List.mem_append_right _ (by simp)
        have hnew : (⟨n, s.tp.pid, s.tp.tid, s.tp.hasVersion, s.tp.hasCommit⟩ : ThreadRow) ∈ ts := by
          rw [t4]; exact List.mem_append_right _ (by simp)
        have htsub : ∀ t ∈ sys.threads, t ∈ ts := by
          intro t ht; rw [t4]; exact List.mem_append_left _ ht
        refine ⟨?_, ?_, ?_, ?_, ?_, ?_, ?_, ?_, ?_, ?_, ?_, ?_, ?_, ?_, ?_⟩
        · rw [l1]; split
          · exact inv.loomsNodup
          · rename_i hm
            rw [List.nodup_append]
            refine ⟨inv.loomsNodup, by simp, ?_⟩
            intro a ha b hb
            simp only [List.mem_singleton] at hb; subst hb
            intro heq; subst heq; exact hm ha
        · intro x hx
          rw [l1] at hx
          split at hx
          · exact inv.loomsOK x hx
          · rcases List.mem_append.1 hx with hx | hx
            · exact inv.loomsOK x hx
            · simp only [List.mem_singleton] at hx; subst hx
              rcases l2 with l2 | l2
              · rename_i hm; exact absurd l2 hm
              · exact l2
        · rw [List.map_append, List.map_cons, List.map_nil, skelOf_snoc, ← inv.skelEq]
          simp only [skel, skelStep, hpart, hloom, if_true, l1, p3, t4]
          first | rfl | congr
        · rw [thrKeys_snoc, f4, t4, List.map_append, inv.thrRows]; rfl
        · rw [thrKeys_snoc, f4, List.nodup_append]
          refine ⟨inv.thrNodup, by simp, ?_⟩
          intro a ha b hb
          simp only [List.mem_singleton] at hb; subst hb
          intro heq; subst heq
          rw [← inv.thrRows] at ha
          obtain ⟨t, ht, hk⟩ := List.mem_map.1 ha
          simp only [tkey, Prod.mk.injEq, Option.some.injEq] at hk
          exact t3 t ht ⟨hk.1, hk.2.1, hk.2.2⟩
        · intro x hx
          rcases List.mem_append.1 hx with hx | hx
          · exact inv.tpOK x hx
          · simp only [List.mem_singleton] at hx; subst hx
            refine ⟨by simp [hpart], fun _ => ⟨⟨n, hloom, ?_⟩, p1, t1, t2⟩⟩
            rcases l2 with l2 | l2
            · exact inv.loomsOK n l2
            · exact l2
        · rw [appFacts_snoc, rankFacts_snoc, f1, f2]; exact p2
        · rw [cpuFacts_snoc, f3]; exact c1
        · intro n' hm
          rw [cpuFacts_snoc, f3] at hm
          rcases List.mem_append.1 hm with hm | hm
          · exact inv.noEmpty n' hm
          · exact c2 n' hm
        · intro c hc
          rcases mem_loadCpus hcs c hc with h1 | h1
          · exact hsub _ (inv.cpuLoom c h1)
          · rw [h1]; exact hnl
        · intro q hq
          rcases mem_createProc_loom inv.procs hps q hq with h1 | ⟨q', hq', h1⟩
          · rw [h1]; exact hnl
          · rw [← h1]; exact hsub _ (inv.procLoom q' hq')
        · intro t ht
          rw [t4] at ht
          rcases List.mem_append.1 ht with ht | ht
          · exact hsub _ (inv.thrLoom t ht)
          · simp only [List.mem_singleton] at ht; subst ht; exact hnl
        · intro t ht
          rw [t4] at ht
          rcases List.mem_append.1 ht with ht | ht
          · exact hpsub _ (inv.thrProc t ht)
          · simp only [List.mem_singleton] at ht; subst ht; exact hpn
        · intro x hx
          rw [l1] at hx
          have hx' : x ∈ sys.looms ∨ x = n := by
            split at hx
            · exact Or.inl hx
            · rcases List.mem_append.1 hx with hx | hx
              · exact Or.inl hx
              · exact Or.inr (by simpa using hx)
          rcases hx' with hx' | hx'
          · obtain ⟨t, ht, hte⟩ := inv.loomSrc x hx'
            exact ⟨t, htsub t ht, hte⟩
          · exact ⟨_, hnew, hx'.symm⟩
        · intro k hk
          rw [p3] at hk
          have hk' : k ∈ sys.procs.map pkey ∨ k = (n, s.tp.pid) := by
            split at hk
            · exact Or.inl hk
            · rcases List.mem_append.1 hk with hk | hk
              · exact Or.inl hk
              · exact Or.inr (by simpa using hk)
          rcases hk' with hk' | hk'
          · obtain ⟨t, ht, hte⟩ := inv.procSrc k hk'
            exact ⟨t, htsub t ht, hte⟩
          · exact ⟨_, hnew, hk'.symm⟩
    · rw [step_other hpart hthr] at h
      cases h
      have hne : s.tp.part ≠ some sThread := by rw [hpart]; simpa using hthr
      obtain ⟨f1, f2, f3, f4⟩ := factsOf_other hne
      refine ⟨inv.loomsNodup, inv.loomsOK, ?_, ?_, ?_, ?_, ?_, ?_, ?_, inv.cpuLoom, inv.procLoom,
        inv.thrLoom, inv.thrProc, inv.loomSrc, inv.procSrc⟩
      · rw [List.map_append, List.map_cons, List.map_nil, skelOf_snoc, ← inv.skelEq]
        simp [skelStep, hne]
      · rw [thrKeys_snoc, f4, List.append_nil]; exact inv.thrRows
      · rw [thrKeys_snoc, f4, List.append_nil]; exact inv.thrNodup
      · intro x hx
        rcases List.mem_append.1 hx with hx | hx
        · exact inv.tpOK x hx
        · simp only [List.mem_singleton] at hx; subst hx
          exact ⟨by simp [hpart], fun h => absurd h hne⟩
      · rw [appFacts_snoc, rankFacts_snoc, f1, f2, List.append_nil, List.append_nil]; exact inv.procs
      · rw [cpuFacts_snoc, f3, List.append_nil]; exact inv.cpus
      · rw [cpuFacts_snoc, f3, List.append_nil]; exact inv.noEmpty

theorem CpuOK.mono {F G : List CFact} (h : CpuOK G) (hs : F ⊆ G) : CpuOK F :=
  ⟨fun n hm => h.1 n (hs hm), fun n i p hm => h.2.1 n i p (hs hm),
   fun n i i' p h1 h2 => h.2.2 n i i' p (hs h1) (hs h2)⟩

theorem CreateOK.prefix {a b : List StreamMeta} (h : CreateOK (a ++ b)) : CreateOK a := by
  obtain ⟨h1, h2, h3, h4, h5⟩ := h
  refine ⟨fun s hs => h1 s (List.mem_append_left _ hs), ?_, ?_, ?_, ?_⟩
  · rw [thrKeys_append] at h2
    exact (List.nodup_append.1 h2).1
  · rw [appFacts_append] at h3; exact h3.mono (List.subset_append_left _ _)
  · rw [rankFacts_append] at h4; exact h4.mono (List.subset_append_left _ _)
  · rw [cpuFacts_append] at h5; exact h5.mono (List.subset_append_left _ _)

theorem IndexOK.prefix {a b : List StreamMeta} (h : IndexOK (cpuFacts (a ++ b))) : IndexOK (cpuFacts a) := by
  rw [cpuFacts_append] at h; exact h.mono (List.subset_append_left _ _)

theorem loomsStep_error {looms : List Str} {n : Str} {e : Err} (h : loomsStep looms n = .error e) :
    cSlash ∈ n ∨ n.length ≥ pathMax := by
  unfold loomsStep at h
  split at h
  · cases h
  split at h
  · rename_i hb; exact hb
  · cases h

theorem loomsStep_ne_crash (looms : List Str) (n : Str) : loomsStep looms n ≠ .crash := by
  unfold loomsStep
  repeat' split
  all_goals simp

/-- A failing step exhibits a contradiction in the metadata merged so far. -/
theorem step_error {m : Mode} {pre : List StreamMeta} {sys : Sys} {s : StreamMeta} {e : Err}
    (h : step m sys s = .error e) (inv : Inv pre sys) :
    ¬ (CreateOK (pre ++ [s]) ∧ IndexOK (cpuFacts (pre ++ [s]))) := by
  rintro ⟨⟨k1, k2, k3, k4, k5⟩, k6⟩
  have ktp := k1 s (List.mem_append_right _ (by simp))
  cases hpart : s.tp.part with
  | none => exact ktp.1 hpart
  | some p =>
    by_cases hthr : p = sThread
    · subst hthr
      obtain ⟨⟨n', hn', hname⟩, hpid, htid, hfin⟩ := ktp.2 hpart
      cases hloom : s.tp.loom with
      | none => rw [hloom] at hn'; cases hn'
      | some n =>
        have hnn : n = n' := by rw [hloom] at hn'; exact Option.some.inj hn'
        subst hnn
        obtain ⟨f1, f2, f3, f4⟩ := factsOf_thread hpart hloom
        rw [step_thread hpart hloom] at h
        cases hls : loomsStep sys.looms n with
        | error e =>
          rcases loomsStep_error hls with hb | hb
          · exact hname.1 hb
          · have := hname.2; omega
        | crash => exact loomsStep_ne_crash _ _ hls
        | ok ls =>
        rw [hls] at h; simp only [Res.bind] at h
        cases hcs : loadCpus m n sys.cpus s.cpus with
        | error e =>
          apply loadCpus_error hcs inv.cpus
          rw [cpuFacts_snoc, f3] at k5 k6
          exact ⟨k5, k6⟩
        | crash => rw [hcs] at h; simp at h
        | ok cs =>
        rw [hcs] at h; simp only at h
        cases hps : createProc sys.procs n s with
        | error e =>
          rcases createProc_error hps inv.procs with hb | hb
          · omega
          · apply hb
            rw [appFacts_snoc, f1] at k3
            rw [rankFacts_snoc, f2] at k4
            exact ⟨k3, k4⟩
        | crash => exact createProc_ne_crash _ _ _ hps
        | ok ps =>
        rw [hps] at h; simp only at h
        cases hts : createThread sys.threads n s with
        | error e =>
          rcases createThread_error hts with hb | ⟨t, ht, hk⟩ | hb
          · omega
          · rw [thrKeys_snoc, f4, List.nodup_append] at k2
            refine k2.2.2 (some n, s.tp.pid, s.tp.tid) ?_ _ (by simp) rfl
            rw [← inv.thrRows]
            refine List.mem_map.2 ⟨t, ht, ?_⟩
            simp only [isThread] at hk
            simp [tkey, hk.1, hk.2.1, hk.2.2]
          · exact hb hfin
        | crash => exact createThread_ne_crash _ _ _ hts
        | ok ts => rw [hts] at h; simp at h
    · rw [step_other hpart hthr] at h
      cases h

theorem createFrom_ok {m : Mode} (r : List StreamMeta) :
    ∀ {pre : List StreamMeta} {sys sys' : Sys}, Inv pre sys → createFrom m sys r = .ok sys' →
    Inv (pre ++ r) sys' := by
  induction r with
  | nil =>
    intro pre sys sys' inv h
    simp only [createFrom] at h
    cases h
    simpa using inv
  | cons s r ih =>
    intro pre sys sys' inv h
    simp only [createFrom] at h
    split at h
    · rename_i sys1 h1
      have := ih (step_ok h1 inv) h
      simpa [List.append_assoc] using this
    · cases h
    · cases h

theorem createFrom_error {m : Mode} (r : List StreamMeta) :
    ∀ {pre : List StreamMeta} {sys : Sys} {e : Err}, Inv pre sys → createFrom m sys r = .error e →
    ¬ (CreateOK (pre ++ r) ∧ IndexOK (cpuFacts (pre ++ r))) := by
  induction r with
  | nil =>
    intro pre sys e inv h
    simp [createFrom] at h
  | cons s r ih =>
    intro pre sys e inv h
    simp only [createFrom] at h
    split at h
    · rename_i sys1 h1
      have := ih (step_ok h1 inv) h
      simpa [List.append_assoc] using this
    · rename_i e1 h1
      have := step_error h1 inv
      intro ⟨a, b⟩
      apply this
      have hsplit : pre ++ s :: r = (pre ++ [s]) ++ r := by simp
      rw [hsplit] at a b
      exact ⟨a.prefix, b.prefix⟩
    · cases h

/-- `create_system` succeeded: the invariant holds for the whole list. -/
theorem create_ok {m : Mode} {l : List StreamMeta} {sys : Sys} (h : create m l = .ok sys) : Inv l sys := by
  have := createFrom_ok l Inv.nil h
  simpa using this

/-- `create_system` failed with an error: the metadata is contradictory. -/
theorem create_error {m : Mode} {l : List StreamMeta} {e : Err} (h : create m l = .error e) :
    ¬ (CreateOK l ∧ IndexOK (cpuFacts l)) := by
  have := createFrom_error l Inv.nil h
  simpa using this

/-- `create_system` succeeded: the metadata has none of the contradictions of `CreateOK`. -/
theorem create_ok_CreateOK {m : Mode} {l : List StreamMeta} {sys : Sys} (h : create m l = .ok sys) :
    CreateOK l := by
  have inv := create_ok h
  refine ⟨inv.tpOK, inv.thrNodup, ⟨?_, ?_⟩, ⟨?_, ?_⟩, ⟨inv.noEmpty, ?_, ?_⟩⟩
  · intro n pid a hm; exact (inv.procs.completeApp n pid a hm).1
  · intro n pid a b h1 h2
    obtain ⟨_, p, hp, p1, p2, p3⟩ := inv.procs.completeApp n pid a h1
    obtain ⟨_, q, hq, q1, q2, q3⟩ := inv.procs.completeApp n pid b h2
    have := inv.procs.key_inj hp hq (by rw [p1, q1]) (by rw [p2, q2])
    subst this
    rw [← p3, ← q3]
  · intro n pid r k hm
    obtain ⟨p, hp, p1, p2, p3, p4, p5, p6⟩ := inv.procs.completeRank n pid r k hm
    exact ⟨p.nranks, p4, p5, p6⟩
  · intro n pid r k r' k' h1 h2
    obtain ⟨p, hp, p1, p2, p3, p4, _⟩ := inv.procs.completeRank n pid r k h1
    obtain ⟨q, hq, q1, q2, q3, q4, _⟩ := inv.procs.completeRank n pid r' k' h2
    have := inv.procs.key_inj hp hq (by rw [p1, q1]) (by rw [p2, q2])
    subst this
    exact ⟨by rw [← p3, ← q3], by rw [p4, q4]⟩
  · intro n i p hm
    have := inv.cpus.complete n i p hm
    exact (inv.cpus.sound _ this).2
  · intro n i i' p h1 h2
    have m1 := inv.cpus.complete n i p h1
    have m2 := inv.cpus.complete n i' p h2
    have := eq_of_pairwise_not (S := fun (a b : CpuRow) => a.loom = b.loom ∧ a.phyid = b.phyid)
      (fun _ _ h => ⟨h.1.symm, h.2.symm⟩) inv.cpus.nodup m1 m2 ⟨rfl, rfl⟩
    injection this

end Ovni.Emu.System
