import OvniModel.Lemmas.CoreBayRaw

/-
  C20 (second obligation), the ORDER of the track outputs on the dirty list
  after an event that writes raw model channels (the task events).

  In the two-level network a channel appended during the dirty phase is the
  output of a mux whose select channel or input `D[j]` is being processed
  (`Bay.Trig`); outputs are appended in the order in which their triggers are
  processed (`Bay.dirtyPhase_ordered`).  An event made of two groups of writes
  (`update_task`: first the subsystem channel, then body id, task id, type, app
  id, rank) therefore puts the CPU track of a channel of the first group ahead
  of the CPU track of a channel of the second group
  (`Shape.Built.cpu_order_two_phase`).
-/
namespace Ovni.Emu
open Ovni.Generated

/-- `x` is the output of a mux whose select channel or one of whose inputs is
    the `j`-th channel of `D`. -/
def Bay.Trig (b : Bay) (D : List Nat) (x j : Nat) : Prop :=
  ∃ (mi : Nat) (m : Mux) (c : Nat), b.muxes[mi]? = some m ∧ m.out = x ∧ D[j]? = some c ∧
    (m.sel = c ∨ ∃ i : Nat, m.inputs[i]? = some (some c))

/-- the order in which triggers are processed -/
def Bay.TrigLe (b : Bay) (D : List Nat) (x y : Nat) : Prop :=
  ∃ jx jy, b.Trig D x jx ∧ b.Trig D y jy ∧ jx ≤ jy

theorem pairwise_of_idxOf_lt {α} [DecidableEq α] {R : α → α → Prop} :
    ∀ (l : List α), l.Pairwise R → ∀ {a b : α}, a ∈ l → b ∈ l → l.idxOf a < l.idxOf b → R a b := by
  intro l
  induction l with
  | nil => intro _ a b ha; cases ha
  | cons x xs ih =>
    intro hp a b ha hb hlt
    rw [List.pairwise_cons] at hp
    rw [List.idxOf_cons, List.idxOf_cons] at hlt
    by_cases hxa : x = a
    · subst hxa
      by_cases hxb : x = b
      · subst hxb; simp at hlt
      · have hb' : b ∈ xs := by
          rcases List.mem_cons.mp hb with h | h
          · exact absurd h.symm hxb
          · exact h
        exact hp.1 b hb'
    · have e1 : (x == a) = false := beq_eq_false_iff_ne.mpr hxa
      by_cases hxb : x = b
      · subst hxb
        simp [e1] at hlt
      · have e2 : (x == b) = false := beq_eq_false_iff_ne.mpr hxb
        simp only [e1, e2, cond_false] at hlt
        have ha' : a ∈ xs := by
          rcases List.mem_cons.mp ha with h | h
          · exact absurd h.symm hxa
          · exact h
        have hb' : b ∈ xs := by
          rcases List.mem_cons.mp hb with h | h
          · exact absurd h.symm hxb
          · exact h
        exact ih hp.2 ha' hb' (by omega)

/-- **Outputs enter the dirty list in trigger order.**  `b`: the bay after the
    writes of an event (all written channels are sources, below `L`).  After the
    dirty phase the list is the written channels followed by outputs `A`; every
    output has a trigger among the written channels, and an output that comes
    earlier in `A` has a trigger that is processed no later. -/
theorem Bay.dirtyPhase_ordered {b bP : Bay} {L fuel : Nat} (wf : b.WF) (hl : b.Layered L)
    (h : b.dirtyPhase fuel 0 = .ok bP) :
    bP.muxes = b.muxes ∧ ∃ A, bP.dirty = b.dirty ++ A ∧ (∀ x ∈ A, L ≤ x ∧ ∃ j, b.Trig b.dirty x j) ∧
      A.Pairwise (b.TrigLe b.dirty) := by
  let P : Bay → Nat → Prop := fun b' k =>
    b'.muxes = b.muxes ∧ ∃ A, b'.dirty = b.dirty ++ A ∧
      (∀ x ∈ A, L ≤ x ∧ ∃ j, j < k ∧ b.Trig b.dirty x j) ∧ A.Pairwise (b.TrigLe b.dirty)
  have hstep : ∀ (b' : Bay) (k c : Nat) (b3 : Bay), b'.WF → P b' k → b'.dirty[k]? = some c →
      b'.propChan (b'.chanFuel c) c 0 = .ok b3 → P b3 (k + 1) := by
    intro b' k c b3 wf' ⟨p1, A, p2, p3, p4⟩ hk hrun
    by_cases hkl : k < b.dirty.length
    · -- a channel written by the event
      have hc : b.dirty[k]? = some c := by
        rw [p2, List.getElem?_append_left hkl] at hk; exact hk
      exact (Bay.propChan_rule c (fun b4 _ => P b4 (k + 1))
        (by
          intro b4 j cb b5 wf4 ⟨q1, A4, q2, q3, q4⟩ hcb hrun4 _
          have hmem : cb ∈ b4.cbsOf c := List.mem_of_getElem? hcb
          obtain ⟨m', hm', hmux, _, hdd, _⟩ := Bay.runCb_frame wf4 hrun4
          have hm0 : b.muxes[cb.mux]? = some m' := q1 ▸ hm'
          refine ⟨hmux.trans q1, ?_⟩
          rcases hdd with e | e
          · exact ⟨A4, by rw [e, q2], q3, q4⟩
          · have htr : b.Trig b.dirty m'.out k := by
              cases cb with
              | muxSelect mj =>
                obtain ⟨m0, h0, hs0⟩ := wf4.selCbOnly c mj hmem
                simp only [Cb.mux] at hm' hm0
                rw [hm'] at h0; cases h0
                exact ⟨mj, m', c, hm0, rfl, hc, Or.inl hs0⟩
              | muxInput mj i =>
                obtain ⟨m0, h0, hi0⟩ := wf4.inCbOnly c mj i hmem
                simp only [Cb.mux] at hm' hm0
                rw [hm'] at h0; cases h0
                exact ⟨mj, m', c, hm0, rfl, hc, Or.inr ⟨i, hi0⟩⟩
            refine ⟨A4 ++ [m'.out], by rw [e, q2, List.append_assoc], ?_, ?_⟩
            · intro x hx
              rcases List.mem_append.mp hx with hx | hx
              · exact q3 x hx
              · simp only [List.mem_singleton] at hx; subst hx
                exact ⟨(hl _ m' hm0).2.2.1, k, Nat.lt_succ_self k, htr⟩
            · rw [List.pairwise_append]
              refine ⟨q4, List.pairwise_singleton _ _, ?_⟩
              intro a ha y hy
              simp only [List.mem_singleton] at hy; subst hy
              obtain ⟨_, ja, hja, hta⟩ := q3 a ha
              exact ⟨ja, k, hta, htr, by omega⟩)
        _ b' 0 b3 wf' ⟨p1, A, p2, fun x hx => by
            obtain ⟨h1, j, hj, ht⟩ := p3 x hx
            exact ⟨h1, j, by omega, ht⟩, p4⟩ (Nat.zero_le _) hrun).2.2
    · -- an output appended during this phase: no callbacks
      have hcge : L ≤ c := by
        have hmem : c ∈ b'.dirty := List.mem_of_getElem? hk
        rw [p2, List.mem_append] at hmem
        rcases hmem with hm | hm
        · exfalso
          obtain ⟨j, hj⟩ := List.mem_iff_getElem?.mp hm
          have hjl := (List.getElem?_eq_some_iff.mp hj).1
          have : b'.dirty[j]? = some c := by rw [p2, List.getElem?_append_left hjl]; exact hj
          have := (List.getElem?_inj (List.getElem?_eq_some_iff.mp hk).1 wf'.dirtyNodup).mp (hk.trans this.symm)
          omega
        · exact (p3 c hm).1
      have hempty : b'.cbsOf c = [] := by
        cases hcc : b'.cbsOf c with
        | nil => rfl
        | cons cb rest =>
          exfalso
          have hmem : cb ∈ b'.cbsOf c := by rw [hcc]; simp
          cases cb with
          | muxSelect mj =>
            obtain ⟨m2, h1, h2⟩ := wf'.selCbOnly c mj hmem
            have := (hl mj m2 (p1 ▸ h1)).1
            omega
          | muxInput mj i =>
            obtain ⟨m2, h1, h2⟩ := wf'.inCbOnly c mj i hmem
            have := (hl mj m2 (p1 ▸ h1)).2.1 i c h2
            omega
      have : b3 = b' := by
        unfold Bay.propChan at hrun
        simp only [hempty, List.getElem?_nil] at hrun
        cases hrun; rfl
      subst this
      exact ⟨p1, A, p2, fun x hx => by
        obtain ⟨h1, j, hj, ht⟩ := p3 x hx
        exact ⟨h1, j, by omega, ht⟩, p4⟩
  obtain ⟨_, r1, A, r2, r3, r4⟩ := Bay.dirtyPhase_rule P hstep fuel b 0 bP wf
    ⟨rfl, [], by simp, fun x hx => (by cases hx), List.Pairwise.nil⟩ (Nat.zero_le _) h
  exact ⟨r1, A, r2, fun x hx => by
    obtain ⟨h1, j, _, ht⟩ := r3 x hx
    exact ⟨h1, j, ht⟩, r4⟩

/-- The channels an event appends to the dirty list are channels it wrote. -/
theorem Bay.Writes.dirty_ext {ok : Nat → Prop} {b b1 : Bay} (h : Bay.Writes ok b b1) :
    ∃ ext, b1.dirty = b.dirty ++ ext ∧ ∀ c ∈ ext, ok c := by
  induction h with
  | nil => exact ⟨[], by simp, fun c hc => by cases hc⟩
  | @snoc b1 b2 c0 f _ hok _ hw ih =>
    obtain ⟨ext, he, hall⟩ := ih
    rcases Bay.write_dirty_cases hw with e | e
    · exact ⟨ext, by rw [e, he], hall⟩
    · refine ⟨ext ++ [c0], by rw [e, he, List.append_assoc], ?_⟩
      intro c hc
      rcases List.mem_append.mp hc with h | h
      · exact hall c h
      · simp only [List.mem_singleton] at h; subst h; exact hok

/-- **An event made of two groups of writes, with the dirty phase exposed.**
    The dirty list after the writes is the channels of the first group that
    became dirty followed by those of the second; after the dirty phase the
    outputs follow in trigger order. -/
theorem Inv.two_phase_event {P1 P2 : Src → Prop} {e e1 e' : Emu} {b0 b : Bay} (hc : e.shape.connect = .ok b0)
    (hs : Shaped e) (hi : Inv b0 e b) (h1 : SimP P1 e e1) (h2 : SimP P2 e1 e') :
    ∃ b1 bP bF em D1 D2 A, Bay.Writes (e.shape.okP (fun s => P1 s ∨ P2 s)) b b1 ∧ Mirrors e' b1 ∧
      b1.dirtyPhase b1.chans.length 0 = .ok bP ∧ b1.propagate = .ok (bF, em) ∧
      Inv b0 e'.flushAll bF ∧ bP.WF ∧ b1.muxes = b0.muxes ∧
      b1.dirty = D1 ++ D2 ∧ (∀ s ∈ D1, e.shape.okP P1 s) ∧ (∀ s ∈ D2, e.shape.okP P2 s) ∧
      bP.dirty = b1.dirty ++ A ∧ (∀ x ∈ A, e.shape.L ≤ x ∧ ∃ j, b1.Trig b1.dirty x j) ∧
      A.Pairwise (b1.TrigLe b1.dirty) ∧ (∀ x ∈ bP.dirty, b1.Reached x) := by
  obtain ⟨hs1, hsh1, hw1⟩ := h1 hs
  obtain ⟨bm, hwm, hmm⟩ := hw1 b hi.mirrors
  obtain ⟨hs', hsh2, hw2⟩ := h2 hs1
  obtain ⟨b1, hwb, hm1⟩ := hw2 bm hmm
  rw [hsh1] at hwb
  have hshape : e'.shape = e.shape := hsh2.trans hsh1
  have hwP : Bay.Writes (e.shape.okP (fun s => P1 s ∨ P2 s)) b b1 :=
    (hwm.mono (fun c ⟨s, a1, a2, a3⟩ => ⟨s, a1, Or.inl a2, a3⟩)).trans
      (hwb.mono (fun c ⟨s, a1, a2, a3⟩ => ⟨s, a1, Or.inr a2, a3⟩))
  have hwL : Bay.Writes (· < e.shape.L) b b1 := hwP.mono (fun _ h => Shape.okP_lt h)
  obtain ⟨_, bF, em, hp, hinv⟩ := hi.step_core hc hs' hshape hwL hm1
  obtain ⟨bP, b2, hph, _, _, _⟩ := Bay.propagate_ok hp
  have hb := Shape.connect_built hc
  obtain ⟨wf1, _, _, hmx1, _, _⟩ := hwL.inv hi.wf
  have hlay1 : b1.Layered e.shape.L := by
    have := hb.topo.layered
    unfold Bay.Layered at this ⊢; rw [hmx1, hi.muxes]; exact this
  obtain ⟨D1, hd1, hok1⟩ := hwm.dirty_ext
  obtain ⟨D2, hd2, hok2⟩ := hwb.dirty_ext
  rw [hi.clean.1, List.nil_append] at hd1
  rw [hd1] at hd2
  have wfP : bP.WF := (Bay.dirtyPhase_length wf1 hph).1
  obtain ⟨_, A, ha1, ha2, ha3⟩ := Bay.dirtyPhase_ordered wf1 hlay1 hph
  obtain ⟨_, hreach⟩ := Bay.dirtyPhase_reached wf1 hlay1 hph
  exact ⟨b1, bP, bF, em, D1, D2, A, hwP, hm1, hph, hp, hinv, wfP, hmx1.trans hi.muxes, hd2, hok1, hok2,
    ha1, ha2, ha3, hreach⟩

/-- The mux of a CPU track in the connected bay. -/
theorem Shape.Built.cpu_mux {σ : Shape} {b0 : Bay} (hb : σ.Built σ.jobs.length b0)
    {c k i : Nat} {ms : ModelSpec} (hcl : c < σ.nC) (hk : σ.specs[k]? = some ms) (hil : i < ms.nch) :
    ∃ mi0, b0.muxes[mi0]? = some
      { sel := σ.idx (.run c), out := σ.cpuOut c k i, kind := .byIndex,
        inputs := (σ.rawsOf k i).map some, dflt := ms.cpuDflt i } ∧
      ∀ (mi : Nat) (m : Mux), b0.muxes[mi]? = some m → m.out = σ.cpuOut c k i → mi = mi0 := by
  have hjob : Job.cpu c k i ∈ σ.jobs := (σ.mem_jobs_cpu c k i).mpr ⟨hcl, ms, hk, hil⟩
  have hj := σ.getElem?_job hjob
  have hjl : σ.jobs.idxOf (Job.cpu c k i) < σ.jobs.length := List.idxOf_lt_length_iff.mpr hjob
  have hmo : σ.muxOf (Job.cpu c k i) (σ.L + σ.jobs.idxOf (Job.cpu c k i)) = some
      { sel := σ.idx (.run c), out := σ.cpuOut c k i, kind := .byIndex,
        inputs := (σ.rawsOf k i).map some, dflt := ms.cpuDflt i } := by
    simp only [Shape.muxOf, hk]; rfl
  obtain ⟨mi0, hmi0⟩ := hb.mem_mux hjl hj hmo
  refine ⟨mi0, hmi0, fun mi m hm ho => ?_⟩
  apply Classical.byContradiction
  intro hne
  exact (hb.topo.layered mi0 _ hmi0).2.2.2 mi m hm hne ho

/-- What can trigger a CPU track: the CPU's `th_running` or the raw channel of
    some thread. -/
theorem Shape.Built.trig_cpuOut {σ : Shape} {b0 b1 : Bay} (hb : σ.Built σ.jobs.length b0)
    (hmx : b1.muxes = b0.muxes) {D : List Nat} {c k i j : Nat} {ms : ModelSpec} (hcl : c < σ.nC)
    (hk : σ.specs[k]? = some ms) (hil : i < ms.nch) (ht : b1.Trig D (σ.cpuOut c k i) j) :
    ∃ c0, D[j]? = some c0 ∧ (c0 = σ.idx (.run c) ∨ ∃ g, g < σ.nT ∧ c0 = σ.idx (.raw g k i)) := by
  obtain ⟨mi0, hmi0, huniq⟩ := hb.cpu_mux hcl hk hil
  obtain ⟨mi, m, c0, hm, ho, hd, hsrc⟩ := ht
  rw [hmx] at hm
  have := huniq mi m hm ho
  subst this
  rw [hmi0] at hm; cases hm
  refine ⟨c0, hd, ?_⟩
  rcases hsrc with hsel | ⟨i0, hin⟩
  · exact Or.inl hsel.symm
  · right
    simp only [Shape.rawsOf, List.map_map, List.getElem?_map] at hin
    cases hr : (List.range σ.nT)[i0]? with
    | none => rw [hr] at hin; cases hin
    | some g =>
      rw [hr] at hin
      simp only [Option.map_some, Function.comp, Option.some.injEq] at hin
      exact ⟨g, List.mem_range.mp (List.mem_of_getElem? hr), hin.symm⟩

/-- **Order of two CPU tracks after a two-group event.**  If channel `i` of
    model `k` is written only in the first group, channel `i'` only in the
    second, and `th_running` of the CPU in neither, then on the dirty list after
    the dirty phase the CPU track of `i` comes before the CPU track of `i'`
    (whenever both are there). -/
theorem Shape.Built.cpu_order_two_phase {σ : Shape} {b0 b1 : Bay} (hb : σ.Built σ.jobs.length b0)
    (hmx : b1.muxes = b0.muxes) {P1 P2 : Src → Prop} {D1 D2 A d : List Nat}
    (hd1 : ∀ s ∈ D1, σ.okP P1 s) (hd2 : ∀ s ∈ D2, σ.okP P2 s) (hd : d = (D1 ++ D2) ++ A)
    (hord : A.Pairwise (b1.TrigLe (D1 ++ D2)))
    {c k i i' : Nat} {ms : ModelSpec} (hcl : c < σ.nC) (hk : σ.specs[k]? = some ms)
    (hil : i < ms.nch) (hil' : i' < ms.nch) (hii : i ≠ i')
    (hr1 : ¬ P1 (.run c)) (hr2 : ¬ P2 (.run c)) (h2i : ∀ g, ¬ P2 (.raw g k i)) (h1i' : ∀ g, ¬ P1 (.raw g k i'))
    (hx : σ.cpuOut c k i ∈ d) (hy : σ.cpuOut c k i' ∈ d) :
    d.idxOf (σ.cpuOut c k i) < d.idxOf (σ.cpuOut c k i') := by
  have hjx : Job.cpu c k i ∈ σ.jobs := (σ.mem_jobs_cpu c k i).mpr ⟨hcl, ms, hk, hil⟩
  have hjy : Job.cpu c k i' ∈ σ.jobs := (σ.mem_jobs_cpu c k i').mpr ⟨hcl, ms, hk, hil'⟩
  have hne : σ.cpuOut c k i ≠ σ.cpuOut c k i' := by
    rcases Nat.lt_or_gt_of_ne hii with h | h
    · exact Nat.ne_of_lt (σ.cpuOut_lt hjx hjy h)
    · exact Nat.ne_of_gt (σ.cpuOut_lt hjy hjx h)
  have hDL : ∀ s ∈ D1 ++ D2, s < σ.L := by
    intro s hs
    rcases List.mem_append.mp hs with h | h
    · exact Shape.okP_lt (hd1 s h)
    · exact Shape.okP_lt (hd2 s h)
  have hxL : σ.L ≤ σ.cpuOut c k i := by unfold Shape.cpuOut; omega
  have hyL : σ.L ≤ σ.cpuOut c k i' := by unfold Shape.cpuOut; omega
  have hxD : σ.cpuOut c k i ∉ D1 ++ D2 := fun h => by have := hDL _ h; omega
  have hyD : σ.cpuOut c k i' ∉ D1 ++ D2 := fun h => by have := hDL _ h; omega
  rw [hd] at hx hy ⊢
  have hxA : σ.cpuOut c k i ∈ A := by
    rcases List.mem_append.mp hx with h | h
    · exact absurd h hxD
    · exact h
  have hyA : σ.cpuOut c k i' ∈ A := by
    rcases List.mem_append.mp hy with h | h
    · exact absurd h hyD
    · exact h
  rw [List.idxOf_append (l₁ := D1 ++ D2) (l₂ := A) (a := σ.cpuOut c k i),
    List.idxOf_append (l₁ := D1 ++ D2) (l₂ := A) (a := σ.cpuOut c k i')]
  simp only [hxD, hyD, if_false]
  -- a trigger of `i` lies in the first group, a trigger of `i'` in the second
  have htx : ∀ j, b1.Trig (D1 ++ D2) (σ.cpuOut c k i) j → j < D1.length := by
    intro j ht
    obtain ⟨c0, hc0, hsrc⟩ := hb.trig_cpuOut hmx hcl hk hil ht
    apply Classical.byContradiction
    intro hge
    rw [List.getElem?_append_right (by omega)] at hc0
    have hok := hd2 c0 (List.mem_of_getElem? hc0)
    rcases hsrc with rfl | ⟨g, hg, rfl⟩
    · exact hr2 (Shape.okP_idx ((σ.mem_run c).mpr hcl) hok)
    · exact h2i g (Shape.okP_idx ((σ.mem_raw g k i).mpr ⟨hg, ms, hk, hil⟩) hok)
  have hty : ∀ j, b1.Trig (D1 ++ D2) (σ.cpuOut c k i') j → D1.length ≤ j := by
    intro j ht
    obtain ⟨c0, hc0, hsrc⟩ := hb.trig_cpuOut hmx hcl hk hil' ht
    apply Classical.byContradiction
    intro hlt
    rw [List.getElem?_append_left (by omega)] at hc0
    have hok := hd1 c0 (List.mem_of_getElem? hc0)
    rcases hsrc with rfl | ⟨g, hg, rfl⟩
    · exact hr1 (Shape.okP_idx ((σ.mem_run c).mpr hcl) hok)
    · exact h1i' g (Shape.okP_idx ((σ.mem_raw g k i').mpr ⟨hg, ms, hk, hil'⟩) hok)
  have hlt : A.idxOf (σ.cpuOut c k i) < A.idxOf (σ.cpuOut c k i') := by
    apply Classical.byContradiction
    intro hge
    have hidx : A.idxOf (σ.cpuOut c k i') < A.idxOf (σ.cpuOut c k i) := by
      rcases Nat.lt_or_ge (A.idxOf (σ.cpuOut c k i')) (A.idxOf (σ.cpuOut c k i)) with h | h
      · exact h
      · exfalso
        have heq : A.idxOf (σ.cpuOut c k i) = A.idxOf (σ.cpuOut c k i') := by omega
        have h1 := List.getElem_idxOf (List.idxOf_lt_length_iff.mpr hxA)
        have h2 := List.getElem_idxOf (List.idxOf_lt_length_iff.mpr hyA)
        simp only [heq] at h1
        exact hne (h1.symm.trans h2)
    obtain ⟨jy, jx, ty, tx, hle⟩ := pairwise_of_idxOf_lt A hord hyA hxA hidx
    have := htx jx tx
    have := hty jy ty
    omega
  omega

end Ovni.Emu
