import OvniModel.Rt.Buffer

set_option linter.unusedSectionVars false
set_option linter.unusedSimpArgs false
namespace Ovni.Rt
variable {D : Type} [JData D]

/-- Everything the thread has produced so far, in order: file then buffer. -/
def St.all (s : St D) : List (Rec D × Origin) := s.disk ++ s.buf

/-- Sum of the record sizes. -/
def sizes : List (Rec D × Origin) → Nat
  | [] => 0
  | x :: xs => x.1.size + sizes xs

theorem sizes_append (a b : List (Rec D × Origin)) : sizes (a ++ b) = sizes a + sizes b := by
  induction a with
  | nil => simp [sizes]
  | cons x xs ih => simp [sizes, ih]; omega

@[simp] theorem sizes_nil : sizes ([] : List (Rec D × Origin)) = 0 := rfl
@[simp] theorem sizes_single (x : Rec D × Origin) : sizes [x] = x.1.size := by simp [sizes]

@[simp] theorem markerOpen_size (t : Nat) : (markerOpen t : Rec D).size = 12 := rfl
@[simp] theorem markerClose_size (t : Nat) : (markerClose t : Rec D).size = 12 := rfl

/-! ### Field projections of the elementary steps (all by `rfl`) -/

section proj
variable (s : St D) (r : Rec D) (o : Origin)
@[simp] theorem append_ready : (s.append r o).ready = s.ready := rfl
@[simp] theorem append_finished : (s.append r o).finished = s.finished := rfl
@[simp] theorem append_evlen : (s.append r o).evlen = s.evlen + r.size := rfl
@[simp] theorem append_buf : (s.append r o).buf = s.buf ++ [(r, o)] := rfl
@[simp] theorem append_disk : (s.append r o).disk = s.disk := rfl
@[simp] theorem append_now : (s.append r o).now = s.now := rfl
@[simp] theorem append_tick : (s.append r o).tick = s.tick := rfl
@[simp] theorem append_hdr : (s.append r o).hdrOnDisk = s.hdrOnDisk := rfl
@[simp] theorem flushBuf_ready : s.flushBuf.ready = s.ready := rfl
@[simp] theorem flushBuf_finished : s.flushBuf.finished = s.finished := rfl
@[simp] theorem flushBuf_evlen : s.flushBuf.evlen = 0 := rfl
@[simp] theorem flushBuf_buf : s.flushBuf.buf = [] := rfl
@[simp] theorem flushBuf_disk : s.flushBuf.disk = s.disk ++ s.buf := rfl
@[simp] theorem flushBuf_now : s.flushBuf.now = s.now := rfl
@[simp] theorem flushBuf_tick : s.flushBuf.tick = s.tick := rfl
@[simp] theorem flushBuf_hdr : s.flushBuf.hdrOnDisk = s.hdrOnDisk := rfl
@[simp] theorem clockNow_fst : s.clockNow.1 = s.now := rfl
@[simp] theorem clockNow_ready : s.clockNow.2.ready = s.ready := rfl
@[simp] theorem clockNow_finished : s.clockNow.2.finished = s.finished := rfl
@[simp] theorem clockNow_evlen : s.clockNow.2.evlen = s.evlen := rfl
@[simp] theorem clockNow_buf : s.clockNow.2.buf = s.buf := rfl
@[simp] theorem clockNow_disk : s.clockNow.2.disk = s.disk := rfl
@[simp] theorem clockNow_now : s.clockNow.2.now = s.now + s.tick := rfl
@[simp] theorem clockNow_tick : s.clockNow.2.tick = s.tick := rfl
@[simp] theorem clockNow_hdr : s.clockNow.2.hdrOnDisk = s.hdrOnDisk := rfl
@[simp] theorem forcedFlush_ready : (forcedFlush s r o).ready = s.ready := rfl
@[simp] theorem forcedFlush_finished : (forcedFlush s r o).finished = s.finished := rfl
@[simp] theorem forcedFlush_evlen : (forcedFlush s r o).evlen = 0 + r.size := rfl
@[simp] theorem forcedFlush_buf : (forcedFlush s r o).buf = [] ++ [(r, o)] := rfl
@[simp] theorem forcedFlush_disk : (forcedFlush s r o).disk = s.disk ++ s.buf := rfl
@[simp] theorem forcedFlush_now : (forcedFlush s r o).now = s.now + s.tick + s.tick := rfl
@[simp] theorem forcedFlush_tick : (forcedFlush s r o).tick = s.tick := rfl
@[simp] theorem forcedFlush_hdr : (forcedFlush s r o).hdrOnDisk = s.hdrOnDisk := rfl
end proj

section room
variable (cap : Nat) (s : St D)
@[simp] theorem makeRoom_ready : (makeRoom cap s).ready = s.ready := by unfold makeRoom; split <;> rfl
@[simp] theorem makeRoom_finished : (makeRoom cap s).finished = s.finished := by unfold makeRoom; split <;> rfl
@[simp] theorem makeRoom_now : (makeRoom cap s).now = s.now := by unfold makeRoom; split <;> rfl
@[simp] theorem makeRoom_tick : (makeRoom cap s).tick = s.tick := by unfold makeRoom; split <;> rfl
@[simp] theorem makeRoom_hdr : (makeRoom cap s).hdrOnDisk = s.hdrOnDisk := by unfold makeRoom; split <;> rfl
@[simp] theorem makeRoom_all : (makeRoom cap s).all = s.all := by
  unfold makeRoom St.all; split <;> simp
theorem makeRoom_evlen (h24 : 24 < cap) : (makeRoom cap s).evlen + 24 < cap := by
  unfold makeRoom; split
  · simp; exact h24
  · omega
theorem makeRoom_len (h : s.evlen = sizes s.buf) : (makeRoom cap s).evlen = sizes (makeRoom cap s).buf := by
  unfold makeRoom; split
  · simp
  · exact h
end room

/-- Bookkeeping invariant: `evlen` is the size of the buffered records and
    never reaches the capacity (no write past `evbuf`). -/
structure Inv (cap : Nat) (s : St D) : Prop where
  len : s.evlen = sizes s.buf
  lt : s.evlen < cap

/-- The closed form of a forced flush: flush, copy the record, make room for
    the two markers, then the two markers. -/
def flushedForm (cap : Nat) (s : St D) (r : Rec D) (o : Origin) : St D :=
  ((makeRoom cap (forcedFlush s r o)).append (markerOpen s.now) .lib).append
    (markerClose (s.now + s.tick)) .lib

/-- Two markers appended to a state with room never flush. -/
theorem evAdd_two_markers (cap : Nat) (fuel : Nat) (x : St D) (hx : x.ready = true)
    (t0 t1 : Nat) (hlt : x.evlen + 24 < cap) :
    (match evAdd cap (fuel + 1) x (markerOpen t0) .lib with
      | none => none
      | some s5 => evAdd cap (fuel + 1) s5 (markerClose t1) .lib) =
    some ((x.append (markerOpen t0) .lib).append (markerClose t1) .lib) := by
  rw [evAdd]
  simp only [hx, Bool.not_true, Bool.false_eq_true, if_false, markerOpen_size]
  have h1 : ¬ (x.evlen + 12 ≥ cap) := by omega
  simp only [h1, if_false]
  rw [evAdd]
  simp only [append_ready, append_evlen, hx, Bool.not_true, Bool.false_eq_true, if_false,
    markerOpen_size, markerClose_size]
  have h2 : ¬ (x.evlen + 12 + 12 ≥ cap) := by omega
  simp only [h2, if_false]

/-- `ovni_ev_add` in closed form: it never re-enters more than once. -/
theorem evAdd_eq (cap : Nat) (hcap : 24 < cap) (fuel : Nat) (s : St D) (r : Rec D) (o : Origin)
    (hr : s.ready = true) :
    evAdd cap (fuel + 2) s r o =
      some (if s.evlen + r.size ≥ cap then flushedForm cap s r o else s.append r o) := by
  rw [evAdd]
  simp only [hr, Bool.not_true, Bool.false_eq_true, if_false]
  split
  · unfold flushedForm
    exact evAdd_two_markers cap fuel _ (by simp [hr]) _ _ (makeRoom_evlen cap _ hcap)
  · rfl

theorem evAdd_not_ready (cap fuel : Nat) (s : St D) (r : Rec D) (o : Origin) (hr : s.ready = false) :
    evAdd cap fuel s r o = none := by
  cases fuel with
  | zero => rfl
  | succ n => rw [evAdd]; simp [hr]

/-! ### What a successful `ovni_ev_add` does to the produced sequence -/

theorem flushedForm_all (cap : Nat) (s : St D) (r : Rec D) (o : Origin) :
    (flushedForm cap s r o).all =
      s.all ++ [(r, o), (markerOpen s.now, .lib), (markerClose (s.now + s.tick), .lib)] := by
  unfold flushedForm
  have h := makeRoom_all cap (forcedFlush s r o)
  unfold St.all at *
  simp only [append_disk, append_buf]
  rw [← List.append_assoc, ← List.append_assoc, h]
  simp

theorem append_all (s : St D) (r : Rec D) (o : Origin) : (s.append r o).all = s.all ++ [(r, o)] := by
  unfold St.all; simp

theorem flushedForm_inv (cap : Nat) (hcap : 24 < cap) (s : St D) (r : Rec D) (o : Origin) :
    Inv cap (flushedForm cap s r o) := by
  unfold flushedForm
  have hl := makeRoom_len cap (forcedFlush s r o) (by simp)
  have he := makeRoom_evlen cap (forcedFlush s r o) hcap
  constructor
  · simp only [append_evlen, append_buf, sizes_append, sizes_single, markerOpen_size, markerClose_size]
    omega
  · simp only [append_evlen, markerOpen_size, markerClose_size]; omega

theorem append_inv (cap : Nat) (s : St D) (r : Rec D) (o : Origin) (h : Inv cap s)
    (hfit : ¬ (s.evlen + r.size ≥ cap)) : Inv cap (s.append r o) := by
  constructor
  · simp only [append_evlen, append_buf, sizes_append, sizes_single]; have := h.len; omega
  · simp only [append_evlen]; omega

end Ovni.Rt
