import OvniModel.Tools.Ovnisort
import OvniModel.Lemmas.OvnisortSort
/-! Facts about `stream_winsort` that need no precondition on the stream, the
    look-back or the ring: whatever happens, the buffer only changes by
    `buf ↦ take first buf ++ sortFn (drop first buf)`. -/
namespace Ovni.Ovnisort

/-- one application of `sort_buf` + `write_stream` from event index `first` -/
def sortFrom (sortFn : List Ev → List Ev) (first : Nat) (buf : List Ev) : List Ev :=
  buf.take first ++ sortFn (buf.drop first)

theorem sortRegion_shape (sortFn : List Ev → List Ev) (buf : List Ev) (r : Ring) (bad0 : Nat) :
    ((sortRegion sortFn buf r bad0).2.1 = buf ∧ (sortRegion sortFn buf r bad0).2.2.2 = none) ∨
    (∃ first, (sortRegion sortFn buf r bad0).2.1 = sortFrom sortFn first buf ∧
      (sortRegion sortFn buf r bad0).2.2.2 = some (first, buf.length)) := by
  unfold sortRegion sortFrom
  simp only
  split
  · exact Or.inl ⟨rfl, rfl⟩
  · exact Or.inl ⟨rfl, rfl⟩
  · exact Or.inl ⟨rfl, rfl⟩
  · split
    · exact Or.inl ⟨rfl, rfl⟩
    · split
      · exact Or.inr ⟨_, rfl, rfl⟩
      · split
        · exact Or.inr ⟨_, rfl, rfl⟩
        · exact Or.inr ⟨_, rfl, rfl⟩

theorem exec_shape (sortFn : List Ev → List Ev) (buf : List Ev) (r : Ring) (opn bad0 : Nat) :
    ((executeSortPlan sortFn buf r opn bad0).2.1 = buf ∧ (executeSortPlan sortFn buf r opn bad0).2.2.2 = none) ∨
    (∃ first, (executeSortPlan sortFn buf r opn bad0).2.1 = sortFrom sortFn first buf ∧
      (executeSortPlan sortFn buf r opn bad0).2.2.2 = some (first, buf.length)) := by
  unfold executeSortPlan
  split
  · exact Or.inl ⟨rfl, rfl⟩
  · exact sortRegion_shape sortFn buf r bad0

/-- Shape of one loop iteration: the buffer `d'` before the cursor is the old
    one or one `sortFrom` of it (then the plan is logged); the iteration either
    appends the event or stops with the buffer `d'`. -/
theorem wsStep_shape (sortFn : List Ev → List Ev) (s : WS) (e : Ev) :
    ∃ d' pl, ((d' = s.done ∧ pl = s.plans) ∨
        (∃ first, d' = sortFrom sortFn first s.done ∧ pl = s.plans ++ [(first, s.done.length)])) ∧
      ((∃ s', wsStep sortFn s e = .ok s' ∧ s'.done = d' ++ [e] ∧ s'.plans = pl) ∨
       (∃ st, wsStep sortFn s e = .error (st, d', pl) ∧ st ≠ Status.ok)) := by
  unfold wsStep
  simp only
  split
  · exact ⟨s.done, s.plans, Or.inl ⟨rfl, rfl⟩, Or.inl ⟨_, rfl, rfl, rfl⟩⟩
  · split
    · split
      · exact ⟨s.done, s.plans, Or.inl ⟨rfl, rfl⟩, Or.inl ⟨_, rfl, rfl, rfl⟩⟩
      · exact ⟨s.done, s.plans, Or.inl ⟨rfl, rfl⟩, Or.inl ⟨_, rfl, rfl, rfl⟩⟩
    · split
      · split
        · have hsh := exec_shape sortFn s.done s.ring s.opn s.bad0
          split
          · rename_i buf' r' p heq
            rw [heq] at hsh
            simp only at hsh
            rcases hsh with ⟨h1, h2⟩ | ⟨first, h1, h2⟩
            · subst h1 h2
              exact ⟨_, s.plans, Or.inl ⟨rfl, rfl⟩, Or.inl ⟨_, rfl, rfl, by simp⟩⟩
            · subst h1 h2
              exact ⟨_, _, Or.inr ⟨first, rfl, rfl⟩, Or.inl ⟨_, rfl, rfl, by simp⟩⟩
          · rename_i st buf' r' p hne heq
            rw [heq] at hsh
            simp only at hsh
            have hst : st ≠ Status.ok := by
              intro h; subst h; exact hne rfl
            rcases hsh with ⟨h1, h2⟩ | ⟨first, h1, h2⟩
            · subst h1 h2
              exact ⟨_, s.plans, Or.inl ⟨rfl, rfl⟩, Or.inr ⟨st, by simp, hst⟩⟩
            · subst h1 h2
              exact ⟨_, _, Or.inr ⟨first, rfl, rfl⟩, Or.inr ⟨st, by simp, hst⟩⟩
        · exact ⟨s.done, s.plans, Or.inl ⟨rfl, rfl⟩, Or.inl ⟨_, rfl, rfl, rfl⟩⟩
      · exact ⟨s.done, s.plans, Or.inl ⟨rfl, rfl⟩, Or.inl ⟨_, rfl, rfl, rfl⟩⟩

theorem rel_append {R : List Ev → List Ev → Prop} (hsnoc : ∀ d p e, R d p → R (d ++ [e]) (p ++ [e])) :
    ∀ (l d p : List Ev), R d p → R (d ++ l) (p ++ l) := by
  intro l
  induction l with
  | nil => intro d p h; simpa using h
  | cons e t ih =>
    intro d p h
    have := ih _ _ (hsnoc d p e h)
    simpa using this

/-- Generic invariant: a relation between the buffer and the consumed input
    that survives appending the next event and any `sortFrom` holds between
    the final stream and the input — also when the tool stops with an error. -/
theorem wsLoop_rel {sortFn : List Ev → List Ev} {R : List Ev → List Ev → Prop} (input : List Ev)
    (hsnoc : ∀ d p e, R d p → R (d ++ [e]) (p ++ [e]))
    (hsort : ∀ d p first, (∃ t, p ++ t = input) → R d p → R (sortFrom sortFn first d) p) (trunc : Bool) :
    ∀ (rest : List Ev) (s : WS) (pre : List Ev), pre ++ rest = input → R s.done pre →
      R (wsLoop sortFn trunc s rest).out input := by
  intro rest
  induction rest with
  | nil =>
    intro s pre hin h
    rw [List.append_nil] at hin; subst hin
    exact h
  | cons e rest ih =>
    intro s pre hin h
    obtain ⟨d', pl, hd, hres⟩ := wsStep_shape sortFn s e
    have hd' : R d' pre := by
      rcases hd with ⟨rfl, _⟩ | ⟨first, rfl, _⟩
      · exact h
      · exact hsort _ _ first ⟨_, hin⟩ h
    rcases hres with ⟨s', hs', hdone, _⟩ | ⟨st, hs', _⟩
    · simp only [wsLoop, hs']
      apply ih s' (pre ++ [e]) (by rw [← hin]; simp)
      rw [hdone]; exact hsnoc _ _ _ hd'
    · simp only [wsLoop, hs']
      rw [← hin]
      exact rel_append hsnoc _ _ _ hd'

/-- The status of a run that stopped inside the loop is never `ok`. -/
theorem wsLoop_error_status {sortFn : List Ev → List Ev} {trunc s e rest st buf pl}
    (h : wsStep sortFn s e = .error (st, buf, pl)) :
    (wsLoop sortFn trunc s (e :: rest)).status = st ∧ st ≠ Status.ok := by
  obtain ⟨d', pl', _, hres⟩ := wsStep_shape sortFn s e
  rcases hres with ⟨s', hs', _⟩ | ⟨st', hs', hne⟩
  · rw [hs'] at h; cases h
  · rw [hs'] at h
    injection h with h
    injection h with h1 h2
    subst h1
    simp only [wsLoop, hs']
    exact ⟨trivial, hne⟩

/-- the logged plans only grow -/
theorem wsLoop_plans_prefix {sortFn : List Ev → List Ev} (trunc : Bool) :
    ∀ (rest : List Ev) (s : WS), ∃ l, (wsLoop sortFn trunc s rest).plans = s.plans ++ l := by
  intro rest
  induction rest with
  | nil => intro s; exact ⟨[], by simp [wsLoop]⟩
  | cons e rest ih =>
    intro s
    obtain ⟨d', pl, hd, hres⟩ := wsStep_shape sortFn s e
    have hpl : ∃ l, pl = s.plans ++ l := by
      rcases hd with ⟨_, rfl⟩ | ⟨first, _, rfl⟩
      · exact ⟨[], by simp⟩
      · exact ⟨_, rfl⟩
    obtain ⟨l0, hl0⟩ := hpl
    rcases hres with ⟨s', hs', _, hp⟩ | ⟨st, hs', _⟩
    · obtain ⟨l, hl⟩ := ih s'
      simp only [wsLoop, hs']
      exact ⟨l0 ++ l, by rw [hl, hp, hl0, List.append_assoc]⟩
    · simp only [wsLoop, hs']
      exact ⟨l0, hl0⟩

theorem sortFrom_length {sortFn : List Ev → List Ev} (hlen : ∀ l, (sortFn l).length = l.length)
    (first : Nat) (d : List Ev) : (sortFrom sortFn first d).length = d.length := by
  unfold sortFrom
  rw [List.length_append, hlen, List.length_take, List.length_drop]; omega

theorem sortFrom_take {sortFn : List Ev → List Ev} (hlen : ∀ l, (sortFn l).length = l.length)
    {q first : Nat} (h : q ≤ first) (d : List Ev) : (sortFrom sortFn first d).take q = d.take q := by
  unfold sortFrom
  rcases Nat.lt_or_ge d.length first with hlt | hge
  · have h1 : d.take first = d := List.take_of_length_le (by omega)
    have h2 : d.drop first = [] := List.drop_of_length_le (by omega)
    have h3 : sortFn [] = [] := List.eq_nil_of_length_eq_zero (by rw [hlen]; rfl)
    rw [h1, h2, h3, List.append_nil]
  · rw [List.take_append_of_le_length (by rw [List.length_take]; omega), List.take_take]
    congr 1; omega

/-- Events before every logged plan's `first` are never rewritten. -/
theorem wsLoop_prefix {sortFn : List Ev → List Ev} (hlen : ∀ l, (sortFn l).length = l.length)
    (trunc : Bool) (q : Nat) :
    ∀ (rest : List Ev) (s : WS) (pre : List Ev),
      (∀ pl ∈ (wsLoop sortFn trunc s rest).plans, q ≤ pl.1) →
      s.done.length = pre.length → s.done.take q = pre.take q →
      (wsLoop sortFn trunc s rest).out.take q = (pre ++ rest).take q := by
  intro rest
  induction rest with
  | nil => intro s pre _ _ h; simpa [wsLoop] using h
  | cons e rest ih =>
    intro s pre hpl hlenp h
    obtain ⟨d', pl, hd, hres⟩ := wsStep_shape sortFn s e
    have hsnoc : ∀ (a b : List Ev) (t : List Ev), a.length = b.length → a.take q = b.take q →
        (a ++ t).take q = (b ++ t).take q := by
      intro a b t hl ht
      rw [List.take_append, List.take_append, ht, hl]
    rcases hres with ⟨s', hs', hdone, hp⟩ | ⟨st, hs', _⟩
    · simp only [wsLoop, hs'] at hpl ⊢
      obtain ⟨l, hl⟩ := wsLoop_plans_prefix (sortFn := sortFn) trunc rest s'
      have hd' : d'.length = pre.length ∧ d'.take q = pre.take q := by
        rcases hd with ⟨rfl, _⟩ | ⟨first, rfl, rfl⟩
        · exact ⟨hlenp, h⟩
        · have hq : q ≤ first := by
            have := hpl (first, s.done.length) (by rw [hl, hp]; simp)
            exact this
          exact ⟨by rw [sortFrom_length hlen]; exact hlenp, by rw [sortFrom_take hlen hq]; exact h⟩
      have := ih s' (pre ++ [e]) hpl (by rw [hdone]; simp [hd'.1])
        (by rw [hdone]; exact hsnoc _ _ _ hd'.1 hd'.2)
      simpa using this
    · simp only [wsLoop, hs'] at hpl ⊢
      have hd' : d'.length = pre.length ∧ d'.take q = pre.take q := by
        rcases hd with ⟨rfl, _⟩ | ⟨first, rfl, rfl⟩
        · exact ⟨hlenp, h⟩
        · have hq : q ≤ first := hpl (first, s.done.length) (by simp)
          exact ⟨by rw [sortFrom_length hlen]; exact hlenp, by rw [sortFrom_take hlen hq]; exact h⟩
      exact hsnoc _ _ _ hd'.1 hd'.2

end Ovni.Ovnisort
