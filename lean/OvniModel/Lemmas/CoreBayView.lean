import OvniModel.Lemmas.CoreBayInit

/-
  C06, last composition step: where the tracks of (thread | CPU, model,
  channel) sit in a bay satisfying `Inv`, what their inputs mirror, and the
  invariance of `thView` / `cpuView` under the flush that ends a step.
-/
namespace Ovni.Emu
open Ovni.Generated

/-- The channel group of model number `k` is found by the model's character. -/
theorem Shaped.getChans {e : Emu} (hs : Shaped e) {g k : Nat} {t : Thread} {m : ModelSpec}
    (ht : e.threads[g]? = some t) (hk : e.specs[k]? = some m) :
    ∃ cs, t.getChans m.char = some cs ∧ t.mch[k]? = some (m.char, cs) ∧ cs.length = m.nch := by
  obtain ⟨cs, hcs, hlen⟩ := hs.mch_of_spec ht hk
  refine ⟨cs, ?_, hcs, hlen⟩
  unfold Thread.getChans
  cases hf : t.mch.find? (·.1 == m.char) with
  | none =>
    have := List.find?_eq_none.mp hf (m.char, cs) (List.mem_of_getElem? hcs)
    simp at this
  | some x =>
    have hp : (x.1 == m.char) = true := List.find?_some (p := fun x : Nat × List Chan => x.1 == m.char) hf
    obtain ⟨k', hk'⟩ := List.mem_iff_getElem?.mp (List.mem_of_find?_eq_some hf)
    have hnd := hs.keys ht
    have h1 : (t.mch.map (·.1))[k']? = some m.char := by
      rw [List.getElem?_map, hk']; simp [eq_of_beq hp]
    have h2 : (t.mch.map (·.1))[k]? = some m.char := by rw [List.getElem?_map, hcs]; rfl
    have := nodup_getElem?_inj hnd h1 h2
    subst this
    rw [hcs] at hk'; cases hk'; rfl

/-- The raw channel (g, k, i) of the bay holds the emulator's channel. -/
theorem Inv.raw_cur {e : Emu} {b0 b : Bay} (hi : Inv b0 e b) {g k i : Nat} {t : Thread} {cs : List Chan}
    (ht : e.threads[g]? = some t) (hcs : t.mch[k]? = some (x, cs)) (hil : i < cs.length) :
    b.chan (e.shape.idx (.raw g k i)) = cs.getD i {} := by
  have hsrc : e.src (.raw g k i) = some cs[i] := by
    simp only [Emu.src, ht, hcs, List.getElem?_eq_getElem hil]
  rw [Bay.chan_of_getElem? (hi.mirrors _ _ hsrc)]
  simp [List.getD_eq_getElem?_getD, List.getElem?_eq_getElem hil]

/-- Where the thread track of (g, k, i) is (modes RUN / ACT). -/
theorem Inv.thMux {e : Emu} {b0 b : Bay} (hc : e.shape.connect = .ok b0) (hi : Inv b0 e b) {g k i : Nat}
    {m : ModelSpec} (hg : g < e.threads.length) (hk : e.specs[k]? = some m) (hil : i < m.nch)
    (hna : m.thTrack.getD i 0 ≠ trackAny) :
    (m.thTrack.getD i 0 = trackRun ∨ m.thTrack.getD i 0 = trackAct) ∧
    ∃ (mi : Nat) (mx : Mux), b.muxes[mi]? = some mx ∧ mx =
      { sel := e.shape.idx (.st g), out := e.shape.thOut g k i,
        kind := if m.thTrack.getD i 0 = trackRun then .thRunning else .thActive,
        inputs := [some (e.shape.idx (.raw g k i))] } := by
  have hb := Shape.connect_built hc
  have hjob : Job.th g k i ∈ e.shape.jobs := (e.shape.mem_jobs_th g k i).mpr ⟨hg, m, hk, hil⟩
  have hj := e.shape.getElem?_job hjob
  have hjl : e.shape.jobs.idxOf (Job.th g k i) < e.shape.jobs.length := List.idxOf_lt_length_iff.mpr hjob
  have hmode := hb.modes _ _ hjl hj m hk
  refine ⟨by rcases hmode with h | h; exact absurd h hna; exact h, ?_⟩
  have hk' : e.shape.specs[k]? = some m := hk
  have hout : e.shape.thOut g k i = e.shape.L + e.shape.jobs.idxOf (Job.th g k i) := by
    simp only [Shape.thOut, hk', hna, if_false]
  rw [hi.muxes, hout]
  have hmo : e.shape.muxOf (Job.th g k i) (e.shape.L + e.shape.jobs.idxOf (Job.th g k i)) = some
      { sel := e.shape.idx (.st g), out := e.shape.L + e.shape.jobs.idxOf (Job.th g k i),
        kind := if m.thTrack.getD i 0 = trackRun then .thRunning else .thActive,
        inputs := [some (e.shape.idx (.raw g k i))] } := by
    simp only [Shape.muxOf, hk', hna, if_false]
  obtain ⟨mi, hmi⟩ := hb.mem_mux hjl hj hmo
  exact ⟨mi, _, hmi, rfl⟩

/-- Where the CPU track of (c, k, i) is. -/
theorem Inv.cpuMux {e : Emu} {b0 b : Bay} (hc : e.shape.connect = .ok b0) (hi : Inv b0 e b) {c k i : Nat}
    {m : ModelSpec} (hcl : c < e.cpus.length) (hk : e.specs[k]? = some m) (hil : i < m.nch) :
    ∃ (mi : Nat) (mx : Mux), b.muxes[mi]? = some mx ∧ mx =
      { sel := e.shape.idx (.run c), out := e.shape.cpuOut c k i, kind := .byIndex,
        inputs := (e.shape.rawsOf k i).map some, dflt := m.cpuDflt i } := by
  have hb := Shape.connect_built hc
  have hjob : Job.cpu c k i ∈ e.shape.jobs := (e.shape.mem_jobs_cpu c k i).mpr ⟨hcl, m, hk, hil⟩
  have hj := e.shape.getElem?_job hjob
  have hjl : e.shape.jobs.idxOf (Job.cpu c k i) < e.shape.jobs.length := List.idxOf_lt_length_iff.mpr hjob
  have hk' : e.shape.specs[k]? = some m := hk
  rw [hi.muxes]
  have hmo : e.shape.muxOf (Job.cpu c k i) (e.shape.L + e.shape.jobs.idxOf (Job.cpu c k i)) = some
      { sel := e.shape.idx (.run c), out := e.shape.cpuOut c k i, kind := .byIndex,
        inputs := (e.shape.rawsOf k i).map some, dflt := m.cpuDflt i } := by
    simp only [Shape.muxOf, hk']; rfl
  obtain ⟨mi, hmi⟩ := hb.mem_mux hjl hj hmo
  exact ⟨mi, _, hmi, rfl⟩

/-! ### the views do not see the flush -/

theorem Thread.getChans_flush (t : Thread) (m : Nat) :
    ({ t with chCpu := t.chCpu.flush, chTid := t.chTid.flush, chState := t.chState.flush,
              mch := t.mch.map fun x => (x.1, x.2.map Chan.flush) } : Thread).getChans m =
      (t.getChans m).map (·.map Chan.flush) := by
  simp only [Thread.getChans, List.find?_map, Option.map_map]
  rfl

theorem getD_map_flush_cur (cs : List Chan) (i : Nat) :
    ((cs.map Chan.flush).getD i {}).cur = (cs.getD i {}).cur := by
  simp only [List.getD_eq_getElem?_getD, List.getElem?_map]
  cases cs[i]? with
  | none => rfl
  | some c => exact Chan.flush_cur c

theorem thView_flush (t : Thread) (m : ModelSpec) (i : Nat) :
    thView { t with chCpu := t.chCpu.flush, chTid := t.chTid.flush, chState := t.chState.flush,
                    mch := t.mch.map fun x => (x.1, x.2.map Chan.flush) } m i = thView t m i := by
  unfold thView
  rw [Thread.getChans_flush]
  cases t.getChans m.char with
  | none => rfl
  | some cs => simp only [Option.map_some, getD_map_flush_cur]

theorem cpuView_flushAll (e : Emu) (c : Cpu) (m : ModelSpec) (i : Nat) :
    cpuView e.flushAll { c with chNrun := c.chNrun.flush, chPid := c.chPid.flush, chTid := c.chTid.flush,
                                chThrun := c.chThrun.flush, chThact := c.chThact.flush } m i =
      cpuView e c m i := by
  unfold cpuView cpuSelected
  simp only [Chan.flush_cur]
  cases c.chThrun.cur with
  | null => rfl
  | int g =>
    simp only
    by_cases hg : g < 0
    · simp only [hg, if_true]
    · simp only [hg, if_false, Emu.flushAll, List.getElem?_map]
      cases e.threads[g.toNat]? with
      | none => rfl
      | some t =>
        simp only [Option.map_some, Thread.getChans_flush]
        cases t.getChans m.char with
        | none => rfl
        | some cs => simp only [Option.map_some, getD_map_flush_cur]

end Ovni.Emu
