import OvniModel.Emu.View
import OvniModel.Lemmas.BayMux

/-
  C06: the select functions of track.c / model_cpu.c against the view
  specification of View.lean.
-/
namespace Ovni.Emu
open Ovni.Generated

/-- The thread state channel shows the state code once the state was set
    (`thread_set_state`), and is null while the thread is still unknown. -/
def StateChan (v : Value) (st : ThState) : Prop :=
  v = .int st.code ∨ (v = .null ∧ st = .unknown)

/-- `thread_set_state` establishes `StateChan`. -/
theorem Thread.setState_stateChan {t t' : Thread} {st : ThState}
    (h : t.setState st = .ok t') (hs : t.chState.isStack = false) :
    t'.chState.cur = .int st.code ∨ t'.chState = t.chState := by
  unfold Thread.setState at h
  simp only [bind, Except.bind, pure, Except.pure] at h
  split at h
  · cases h
  · split at h
    · cases h
    · rename_i cs hcs
      split at h
      · cases h
      · rename_i ct hct
        cases h
        simp only
        simp only [Chan.set, hs] at hcs
        repeat' split at hcs
        all_goals (first | cases hcs | skip)
        all_goals first | exact Or.inr rfl | exact Or.inl (by simp [Chan.cur])

theorem selectInput_null (m : Mux) : m.selectInput .null = .ok none := rfl

theorem selectInput_running (m : Mux) (hk : m.kind = .thRunning) (hl : m.inputs.length = 1) (st : ThState) :
    m.selectInput (.int st.code) = .ok (if st.isRunning then some 0 else none) := by
  cases st <;> simp [Mux.selectInput, hk, hl, ThState.code, ThState.isRunning] <;> decide

theorem selectInput_active (m : Mux) (hk : m.kind = .thActive) (hl : m.inputs.length = 1) (st : ThState) :
    m.selectInput (.int st.code) = .ok (if st.isActive then some 0 else none) := by
  cases st <;> simp [Mux.selectInput, hk, hl, ThState.code, ThState.isActive] <;> decide

/-- The select function of a thread track (`thread_select_running` /
    `thread_select_active`) computes `trackHolds`. -/
theorem selectInput_track (m : Mux) (mode : Nat) (hmode : mode = trackRun ∨ mode = trackAct)
    (hk : m.kind = if mode = trackRun then .thRunning else .thActive) (hl : m.inputs.length = 1)
    (v : Value) (st : ThState) (hv : StateChan v st) :
    m.selectInput v = .ok (if trackHolds mode st then some 0 else none) := by
  have hth : trackHolds mode st = if mode = trackRun then st.isRunning else st.isActive := by
    rcases hmode with rfl | rfl <;> simp [trackHolds, trackRun, trackAny, trackAct]
  rcases hv with rfl | ⟨rfl, rfl⟩
  · rcases hmode with rfl | rfl
    · rw [selectInput_running m (by simpa using hk) hl, hth]; simp
    · rw [selectInput_active m (by simpa [trackAct, trackRun] using hk) hl, hth]; simp [trackAct, trackRun]
  · rw [selectInput_null, hth]
    rcases hmode with rfl | rfl <;> simp [ThState.isRunning, ThState.isActive]

/-- `default_select`: the value of `th_running` is the thread's global index. -/
theorem selectInput_index (m : Mux) (hk : m.kind = .byIndex) (g : Int) (s : Option Nat)
    (h : m.selectInput (.int g) = .ok s) : 0 ≤ g ∧ g.toNat < m.inputs.length ∧ s = some g.toNat := by
  simp only [Mux.selectInput, hk] at h
  split at h
  · cases h
  · rename_i hn
    cases h
    refine ⟨by omega, by omega, rfl⟩

end Ovni.Emu
