import OvniModel.Emu.BaySpec

/-
  Helper lemmas for C06: effect ("frame") lemmas of the bay primitives and of
  the two mux callbacks, the well-formedness invariant of a bay and its
  preservation, and the loop rules of `propChan` / `dirtyPhase`.
-/
namespace Ovni.Emu

/-! ### lists -/

theorem getD_set_eq {α} (l : List α) (i : Nat) (a d : α) (h : i < l.length) :
    (l.set i a).getD i d = a := by
  simp [List.getD_eq_getElem?_getD, h]

theorem getD_set_ne {α} (l : List α) (i j : Nat) (a d : α) (h : i ≠ j) :
    (l.set i a).getD j d = l.getD j d := by
  simp [List.getD_eq_getElem?_getD, List.getElem?_set_ne, h]

theorem getD_of_getElem? {α} {l : List α} {i : Nat} {a : α} (d : α) (h : l[i]? = some a) :
    l.getD i d = a := by
  simp [List.getD_eq_getElem?_getD, h]

/-! ### `Bay.write` -/

theorem Bay.write_ok {b b' : Bay} {c : Nat} {f : Chan → Except Err Chan} (h : b.write c f = .ok b') :
    ∃ ch ch', b.chans[c]? = some ch ∧ f ch = .ok ch' ∧
      b' = { b with chans := b.chans.set c ch',
                    dirty := if !ch.dirty && ch'.dirty then b.dirty ++ [c] else b.dirty } := by
  unfold Bay.write at h
  split at h
  · cases h
  · rename_i ch hch
    split at h
    · cases h
    · rename_i ch' hf
      injection h with h
      exact ⟨ch, ch', hch, hf, h.symm⟩


theorem Bay.write_muxes {b b' : Bay} {c f} (h : b.write c f = .ok b') : b'.muxes = b.muxes := by
  obtain ⟨_, _, _, _, rfl⟩ := Bay.write_ok h; rfl
theorem Bay.write_cbs {b b' : Bay} {c f} (h : b.write c f = .ok b') : b'.cbs = b.cbs := by
  obtain ⟨_, _, _, _, rfl⟩ := Bay.write_ok h; rfl
theorem Bay.write_selected {b b' : Bay} {c f} (h : b.write c f = .ok b') : b'.selected = b.selected := by
  obtain ⟨_, _, _, _, rfl⟩ := Bay.write_ok h; rfl
theorem Bay.write_emits {b b' : Bay} {c f} (h : b.write c f = .ok b') : b'.emits = b.emits := by
  obtain ⟨_, _, _, _, rfl⟩ := Bay.write_ok h; rfl
theorem Bay.write_maxStack {b b' : Bay} {c f} (h : b.write c f = .ok b') : b'.maxStack = b.maxStack := by
  obtain ⟨_, _, _, _, rfl⟩ := Bay.write_ok h; rfl
theorem Bay.write_length {b b' : Bay} {c f} (h : b.write c f = .ok b') : b'.chans.length = b.chans.length := by
  obtain ⟨_, _, _, _, rfl⟩ := Bay.write_ok h; simp

theorem Bay.write_chan_ne {b b' : Bay} {c f} (h : b.write c f = .ok b') {c' : Nat} (hc : c' ≠ c) :
    b'.chan c' = b.chan c' := by
  obtain ⟨_, _, _, _, rfl⟩ := Bay.write_ok h
  simp only [Bay.chan]
  exact getD_set_ne _ _ _ _ _ (Ne.symm hc)

theorem Bay.write_chan_eq {b b' : Bay} {c f} (h : b.write c f = .ok b') :
    f (b.chan c) = .ok (b'.chan c) ∧ c < b.chans.length := by
  obtain ⟨ch, ch', hch, hf, rfl⟩ := Bay.write_ok h
  have hlt : c < b.chans.length := by
    rcases Nat.lt_or_ge c b.chans.length with h | h
    · exact h
    · simp [List.getElem?_eq_none h] at hch
  simp only [Bay.chan]
  rw [getD_set_eq _ _ _ _ hlt, getD_of_getElem? _ hch]
  exact ⟨hf, hlt⟩

theorem Bay.write_dirty {b b' : Bay} {c f} (h : b.write c f = .ok b') :
    b'.dirty = if !(b.chan c).dirty && (b'.chan c).dirty then b.dirty ++ [c] else b.dirty := by
  have h2 := Bay.write_chan_eq h
  obtain ⟨ch, ch', hch, hf, rfl⟩ := Bay.write_ok h
  have : b.chan c = ch := getD_of_getElem? _ hch
  simp only [Bay.chan] at this h2 ⊢
  simp only [getD_set_eq _ _ _ _ h2.2, this]

/-! ### enable / disable / setSelected -/

@[simp] theorem Bay.enableCb_chans (b : Bay) (c cb) : (b.enableCb c cb).chans = b.chans := by
  unfold Bay.enableCb; split <;> rfl
@[simp] theorem Bay.enableCb_muxes (b : Bay) (c cb) : (b.enableCb c cb).muxes = b.muxes := by
  unfold Bay.enableCb; split <;> rfl
@[simp] theorem Bay.enableCb_selected (b : Bay) (c cb) : (b.enableCb c cb).selected = b.selected := by
  unfold Bay.enableCb; split <;> rfl
@[simp] theorem Bay.enableCb_dirty (b : Bay) (c cb) : (b.enableCb c cb).dirty = b.dirty := by
  unfold Bay.enableCb; split <;> rfl
@[simp] theorem Bay.enableCb_emits (b : Bay) (c cb) : (b.enableCb c cb).emits = b.emits := by
  unfold Bay.enableCb; split <;> rfl
@[simp] theorem Bay.enableCb_maxStack (b : Bay) (c cb) : (b.enableCb c cb).maxStack = b.maxStack := by
  unfold Bay.enableCb; split <;> rfl
@[simp] theorem Bay.enableCb_cbs_length (b : Bay) (c cb) : (b.enableCb c cb).cbs.length = b.cbs.length := by
  unfold Bay.enableCb; split <;> simp
@[simp] theorem Bay.enableCb_chan (b : Bay) (c cb c') : (b.enableCb c cb).chan c' = b.chan c' := by
  simp [Bay.chan]
@[simp] theorem Bay.enableCb_selOf (b : Bay) (c cb mi) : (b.enableCb c cb).selOf mi = b.selOf mi := by
  simp [Bay.selOf]

theorem Bay.enableCb_cbsOf_ne (b : Bay) {c c' : Nat} (cb) (h : c' ≠ c) :
    (b.enableCb c cb).cbsOf c' = b.cbsOf c' := by
  unfold Bay.enableCb; split
  · rfl
  · simp only [Bay.cbsOf]; exact getD_set_ne _ _ _ _ _ (Ne.symm h)

theorem Bay.enableCb_cbsOf_eq (b : Bay) {c : Nat} (cb) (h : c < b.cbs.length) :
    (b.enableCb c cb).cbsOf c = if cb ∈ b.cbsOf c then b.cbsOf c else b.cbsOf c ++ [cb] := by
  unfold Bay.enableCb; split
  · rfl
  · simp only [Bay.cbsOf]; exact getD_set_eq _ _ _ _ h

theorem Bay.mem_enableCb (b : Bay) {c c' : Nat} (cb cb') (h : c < b.cbs.length) :
    cb' ∈ (b.enableCb c cb).cbsOf c' ↔ cb' ∈ b.cbsOf c' ∨ (c' = c ∧ cb' = cb) := by
  by_cases hc : c' = c
  · subst hc
    rw [Bay.enableCb_cbsOf_eq b cb h]
    split
    · constructor
      · exact Or.inl
      · rintro (h1 | ⟨_, rfl⟩)
        · exact h1
        · assumption
    · simp
  · rw [Bay.enableCb_cbsOf_ne b cb hc]; simp [hc]

@[simp] theorem Bay.disableCb_chans (b : Bay) (c cb) : (b.disableCb c cb).chans = b.chans := rfl
@[simp] theorem Bay.disableCb_muxes (b : Bay) (c cb) : (b.disableCb c cb).muxes = b.muxes := rfl
@[simp] theorem Bay.disableCb_selected (b : Bay) (c cb) : (b.disableCb c cb).selected = b.selected := rfl
@[simp] theorem Bay.disableCb_dirty (b : Bay) (c cb) : (b.disableCb c cb).dirty = b.dirty := rfl
@[simp] theorem Bay.disableCb_emits (b : Bay) (c cb) : (b.disableCb c cb).emits = b.emits := rfl
@[simp] theorem Bay.disableCb_maxStack (b : Bay) (c cb) : (b.disableCb c cb).maxStack = b.maxStack := rfl
@[simp] theorem Bay.disableCb_cbs_length (b : Bay) (c cb) : (b.disableCb c cb).cbs.length = b.cbs.length := by
  simp [Bay.disableCb]
@[simp] theorem Bay.disableCb_chan (b : Bay) (c cb c') : (b.disableCb c cb).chan c' = b.chan c' := rfl
@[simp] theorem Bay.disableCb_selOf (b : Bay) (c cb mi) : (b.disableCb c cb).selOf mi = b.selOf mi := rfl

theorem Bay.disableCb_cbsOf_ne (b : Bay) {c c' : Nat} (cb) (h : c' ≠ c) :
    (b.disableCb c cb).cbsOf c' = b.cbsOf c' := by
  simp only [Bay.disableCb, Bay.cbsOf]; exact getD_set_ne _ _ _ _ _ (Ne.symm h)

theorem Bay.disableCb_cbsOf_eq (b : Bay) {c : Nat} (cb) (h : c < b.cbs.length) :
    (b.disableCb c cb).cbsOf c = (b.cbsOf c).erase cb := by
  simp only [Bay.disableCb, Bay.cbsOf]; exact getD_set_eq _ _ _ _ h

@[simp] theorem Bay.setSelected_chans (b : Bay) (mi s) : (b.setSelected mi s).chans = b.chans := rfl
@[simp] theorem Bay.setSelected_muxes (b : Bay) (mi s) : (b.setSelected mi s).muxes = b.muxes := rfl
@[simp] theorem Bay.setSelected_cbs (b : Bay) (mi s) : (b.setSelected mi s).cbs = b.cbs := rfl
@[simp] theorem Bay.setSelected_dirty (b : Bay) (mi s) : (b.setSelected mi s).dirty = b.dirty := rfl
@[simp] theorem Bay.setSelected_emits (b : Bay) (mi s) : (b.setSelected mi s).emits = b.emits := rfl
@[simp] theorem Bay.setSelected_maxStack (b : Bay) (mi s) : (b.setSelected mi s).maxStack = b.maxStack := rfl
@[simp] theorem Bay.setSelected_chan (b : Bay) (mi s c) : (b.setSelected mi s).chan c = b.chan c := rfl
@[simp] theorem Bay.setSelected_cbsOf (b : Bay) (mi s c) : (b.setSelected mi s).cbsOf c = b.cbsOf c := rfl
@[simp] theorem Bay.setSelected_length (b : Bay) (mi s) :
    (b.setSelected mi s).selected.length = b.selected.length := by simp [Bay.setSelected]
theorem Bay.setSelected_selOf_eq (b : Bay) {mi : Nat} (s) (h : mi < b.selected.length) :
    (b.setSelected mi s).selOf mi = s := by
  simp only [Bay.setSelected, Bay.selOf]; exact getD_set_eq _ _ _ _ h
theorem Bay.setSelected_selOf_ne (b : Bay) {mi mj : Nat} (s) (h : mj ≠ mi) :
    (b.setSelected mi s).selOf mj = b.selOf mj := by
  simp only [Bay.setSelected, Bay.selOf]; exact getD_set_ne _ _ _ _ _ (Ne.symm h)


/-! ### channel operations -/

theorem chanOp_set (v : Value) : ChanOp (·.set v) := by
  intro ch ch' h
  simp only [Chan.set] at h
  repeat' split at h
  all_goals (cases h <;> first | exact ⟨Or.inl rfl, rfl, rfl, rfl, rfl⟩ | exact ⟨Or.inr rfl, rfl, rfl, rfl, rfl⟩)

theorem chanOp_push (n : Nat) (v : Value) : ChanOp (Chan.push n · v) := by
  intro ch ch' h
  simp only [Chan.push] at h
  repeat' split at h
  all_goals (cases h <;> first | exact ⟨Or.inl rfl, rfl, rfl, rfl, rfl⟩ | exact ⟨Or.inr rfl, rfl, rfl, rfl, rfl⟩)

theorem chanOp_pop (v : Value) : ChanOp (·.pop v) := by
  intro ch ch' h
  simp only [Chan.pop] at h
  repeat' split at h
  all_goals (cases h <;> first | exact ⟨Or.inl rfl, rfl, rfl, rfl, rfl⟩ | exact ⟨Or.inr rfl, rfl, rfl, rfl, rfl⟩)

/-- A successful `chan_set` on an ALLOW_DUP channel stores the value. -/
theorem Chan.set_cur {ch ch' : Chan} {v : Value} (h : ch.set v = .ok ch') (hd : ch.allowDup = true) :
    ch'.cur = v := by
  simp only [Chan.set, hd] at h
  repeat' split at h
  all_goals (cases h <;> simp_all [Chan.cur])


/-! ### well-formedness is preserved -/

theorem Bay.cbsOf_congr {b b' : Bay} (h : b'.cbs = b.cbs) (c : Nat) : b'.cbsOf c = b.cbsOf c := by
  simp [Bay.cbsOf, h]

theorem Bay.selOf_congr {b b' : Bay} (h : b'.selected = b.selected) (mi : Nat) : b'.selOf mi = b.selOf mi := by
  simp [Bay.selOf, h]

theorem Bay.WF.write {b b' : Bay} {c : Nat} {f} (wf : b.WF) (hf : ChanOp f) (h : b.write c f = .ok b') :
    b'.WF := by
  have hm := Bay.write_muxes h
  have hc := Bay.write_cbs h
  have hs := Bay.write_selected h
  have hl := Bay.write_length h
  have hcb : ∀ c, b'.cbsOf c = b.cbsOf c := Bay.cbsOf_congr hc
  have ⟨heq, hlt⟩ := Bay.write_chan_eq h
  have hop := hf _ _ heq
  have hd := Bay.write_dirty h
  constructor
  · rw [hc, hl]; exact wf.cbsLen
  · rw [hs, hm]; exact wf.selLen
  · intro mi m h1; rw [hl]; rw [hm] at h1; exact wf.selLt mi m h1
  · intro mi m h1; rw [hl]; rw [hm] at h1; exact wf.outLt mi m h1
  · intro mi m i c' h1 h2; rw [hl]; rw [hm] at h1; exact wf.inLt mi m i c' h1 h2
  · intro mi m i h1; rw [hm] at h1; exact wf.selNotIn mi m i h1
  · intro mi m h1; rw [hm] at h1
    by_cases hco : m.out = c
    · rw [hco, hop.2.1, ← hco]; exact wf.outDup mi m h1
    · rw [Bay.write_chan_ne h hco]; exact wf.outDup mi m h1
  · intro mi m h1; rw [hm] at h1; rw [hcb]; exact wf.selCb mi m h1
  · intro c' mi h1; rw [hcb] at h1; rw [hm]; exact wf.selCbOnly c' mi h1
  · intro c' mi i h1; rw [hcb] at h1; rw [hm]; exact wf.inCbOnly c' mi i h1
  · intro c'; rw [hcb]; exact wf.cbsNodup c'
  · rw [hd]; split
    · rename_i hb
      have : (b.chan c).dirty = false := by
        cases hx : (b.chan c).dirty <;> simp [hx] at hb ⊢
      have hn : c ∉ b.dirty := by
        intro hmem; rw [wf.dirtyIff] at hmem; simp [this] at hmem
      exact List.nodup_append.mpr ⟨wf.dirtyNodup, (by simp),
        by intro a ha b' hb' ; simp at hb'; subst hb'; intro e; subst e; exact hn ha⟩
    · exact wf.dirtyNodup
  · intro c'
    by_cases hcc : c' = c
    · subst hcc
      rw [hd]
      rcases hop.1 with he | hdt
      · rw [he]; simp; exact wf.dirtyIff c'
      · rw [hdt]
        cases hx : (b.chan c').dirty
        · simp
        · simp; exact (wf.dirtyIff c').mpr hx
    · rw [Bay.write_chan_ne h hcc, hd]
      split
      · simp [hcc]; exact wf.dirtyIff c'
      · exact wf.dirtyIff c'


/-! ### the two mux callbacks in normal form -/

theorem Bay.cbInput_ok {b b' : Bay} {mi i : Nat} (h : b.cbInput mi i = .ok b') :
    ∃ m ic, b.muxes[mi]? = some m ∧ m.inputs[i]? = some (some ic) ∧
      b.write m.out (·.set (b.chan ic).cur) = .ok b' := by
  unfold Bay.cbInput at h
  split at h
  · cases h
  · rename_i m hm
    split at h
    · rename_i ic hic
      exact ⟨m, ic, hm, hic, h⟩
    · cases h

/-- The bookkeeping part of `cb_select`: old input disabled, new one enabled,
    `selected` updated. -/
def Bay.reselect (b : Bay) (mi : Nat) (m : Mux) (s : Option Nat) : Bay :=
  let b1 : Bay :=
    match b.selOf mi with
    | some j =>
      match m.inputs[j]? with
      | some (some ic) => (b.disableCb ic (.muxInput mi j)).setSelected mi none
      | _ => b
    | none => b
  match s with
  | none => b1
  | some i =>
    match m.inputs[i]? with
    | some (some ic) => (b1.enableCb ic (.muxInput mi i)).setSelected mi (some i)
    | _ => b1

theorem Bay.cbSelect_ok {b b' : Bay} {mi : Nat} (h : b.cbSelect mi = .ok b') :
    ∃ m s, b.muxes[mi]? = some m ∧ m.selectInput (b.chan m.sel).cur = .ok s ∧
      (∀ j, b.selOf mi = some j → ∃ ic, m.inputs[j]? = some (some ic)) ∧
      (∀ i, s = some i → ∃ ic, m.inputs[i]? = some (some ic)) ∧
      (b.reselect mi m s).write m.out (·.set (b.specVal m s)) = .ok b' := by
  unfold Bay.cbSelect at h
  split at h
  · cases h
  · rename_i m hm
    refine ⟨m, ?_⟩
    simp only at h
    split at h
    · cases h
    · rename_i b1 hb1
      split at h
      · cases h
      · -- select function says none
        rename_i hsel
        refine ⟨none, hm, hsel, ?_, by simp, ?_⟩
        · intro j hj
          unfold Bay.clearSelected at hb1
          rw [hj] at hb1
          simp only at hb1
          split at hb1
          · rename_i ic hic; exact ⟨ic, hic⟩
          · cases hb1
        · unfold Bay.clearSelected at hb1
          unfold Bay.reselect
          split at hb1
          · cases hb1; rename_i hn; simp only [hn]; exact h
          · rename_i j hj
            simp only [hj]
            split at hb1
            · rename_i ic hic; cases hb1; simp only [hic]; exact h
            · cases hb1
      · rename_i i hsel
        split at h
        · rename_i ic hic
          refine ⟨some i, hm, hsel, ?_, ?_, ?_⟩
          · intro j hj
            unfold Bay.clearSelected at hb1
            rw [hj] at hb1
            simp only at hb1
            split at hb1
            · rename_i ic' hic'; exact ⟨ic', hic'⟩
            · cases hb1
          · intro i' hi'; cases hi'; exact ⟨ic, hic⟩
          · unfold Bay.clearSelected at hb1
            unfold Bay.reselect
            split at hb1
            · cases hb1; rename_i hn
              simp only [hn, hic]
              simpa [Bay.specVal, hic] using h
            · rename_i j hj
              simp only [hj]
              split at hb1
              · rename_i ic' hic'; cases hb1
                simp only [hic', hic]
                simpa [Bay.specVal, hic] using h
              · cases hb1
        · cases h


/-! ### `reselect` -/

theorem Bay.disableCb_cbsOf_eq' (b : Bay) (c : Nat) (cb) :
    (b.disableCb c cb).cbsOf c = (b.cbsOf c).erase cb := by
  rcases Nat.lt_or_ge c b.cbs.length with h | h
  · exact Bay.disableCb_cbsOf_eq b cb h
  · simp only [Bay.disableCb, Bay.cbsOf, List.set_eq_of_length_le h]
    simp [List.getD_eq_getElem?_getD, List.getElem?_eq_none h]

theorem Bay.mem_disableCb (b : Bay) (ic c : Nat) (cb cb' : Cb) (hnd : (b.cbsOf c).Nodup) :
    cb' ∈ (b.disableCb ic cb).cbsOf c ↔ cb' ∈ b.cbsOf c ∧ ¬(c = ic ∧ cb' = cb) := by
  by_cases hc : c = ic
  · subst hc
    rw [Bay.disableCb_cbsOf_eq', hnd.mem_erase_iff]
    constructor
    · rintro ⟨h1, h2⟩; exact ⟨h2, fun h => h1 h.2⟩
    · rintro ⟨h1, h2⟩; exact ⟨fun h => h2 ⟨rfl, h⟩, h1⟩
  · rw [Bay.disableCb_cbsOf_ne b cb hc]; simp [hc]

theorem Bay.WF.inLtCbs {b : Bay} (wf : b.WF) {mi : Nat} {m : Mux} {i c : Nat}
    (hm : b.muxes[mi]? = some m) (hi : m.inputs[i]? = some (some c)) : c < b.cbs.length := by
  rw [wf.cbsLen]; exact wf.inLt mi m i c hm hi

theorem Bay.mem_reselect {b : Bay} {mi : Nat} {m : Mux} (wf : b.WF) (hm : b.muxes[mi]? = some m)
    (s : Option Nat)
    (hj : ∀ j, b.selOf mi = some j → ∃ ic, m.inputs[j]? = some (some ic))
    (hi : ∀ i, s = some i → ∃ ic, m.inputs[i]? = some (some ic)) (c : Nat) (cb : Cb) :
    cb ∈ (b.reselect mi m s).cbsOf c ↔
      (cb ∈ b.cbsOf c ∧
        ¬ (∃ j, b.selOf mi = some j ∧ cb = .muxInput mi j ∧ m.inputs[j]? = some (some c))) ∨
      (∃ i, s = some i ∧ cb = .muxInput mi i ∧ m.inputs[i]? = some (some c)) := by
  unfold Bay.reselect
  cases hsel : b.selOf mi with
  | none =>
    cases s with
    | none => simp
    | some i =>
      obtain ⟨ic, hic⟩ := hi i rfl
      simp only [hic, Bay.setSelected_cbsOf]
      rw [Bay.mem_enableCb _ _ _ (wf.inLtCbs hm hic)]
      constructor
      · rintro (h | ⟨rfl, rfl⟩)
        · exact Or.inl ⟨h, by simp⟩
        · exact Or.inr ⟨i, rfl, rfl, hic⟩
      · rintro (⟨h, _⟩ | ⟨i', hi', rfl, h2⟩)
        · exact Or.inl h
        · cases hi'; rw [hic] at h2; cases h2; exact Or.inr ⟨rfl, rfl⟩
  | some j =>
    obtain ⟨icj, hicj⟩ := hj j hsel
    have hdis : ∀ cb', cb' ∈ ((b.disableCb icj (.muxInput mi j)).setSelected mi none).cbsOf c ↔
        cb' ∈ b.cbsOf c ∧ ¬(c = icj ∧ cb' = .muxInput mi j) := by
      intro cb'; rw [Bay.setSelected_cbsOf]; exact Bay.mem_disableCb b icj c _ cb' (wf.cbsNodup c)
    have hold : (∃ j', some j = some j' ∧ cb = .muxInput mi j' ∧ m.inputs[j']? = some (some c)) ↔
        (c = icj ∧ cb = .muxInput mi j) := by
      constructor
      · rintro ⟨j', h1, h2, h3⟩; cases h1; rw [hicj] at h3; cases h3; exact ⟨rfl, h2⟩
      · rintro ⟨rfl, rfl⟩; exact ⟨j, rfl, rfl, hicj⟩
    cases s with
    | none =>
      simp only [hicj]
      rw [hdis, hold]; simp
    | some i =>
      obtain ⟨ic, hic⟩ := hi i rfl
      simp only [hicj, hic, Bay.setSelected_cbsOf]
      rw [Bay.mem_enableCb _ _ _ (by simpa using wf.inLtCbs hm hic), hdis, hold]
      constructor
      · rintro (h | ⟨rfl, rfl⟩)
        · exact Or.inl h
        · exact Or.inr ⟨i, rfl, rfl, hic⟩
      · rintro (h | ⟨i', hi', rfl, h2⟩)
        · exact Or.inl h
        · cases hi'; rw [hic] at h2; cases h2; exact Or.inr ⟨rfl, rfl⟩


theorem Bay.reselect_fields (b : Bay) (mi : Nat) (m : Mux) (s : Option Nat) :
    (b.reselect mi m s).chans = b.chans ∧ (b.reselect mi m s).muxes = b.muxes ∧
    (b.reselect mi m s).dirty = b.dirty ∧ (b.reselect mi m s).emits = b.emits ∧
    (b.reselect mi m s).maxStack = b.maxStack ∧ (b.reselect mi m s).cbs.length = b.cbs.length ∧
    (b.reselect mi m s).selected.length = b.selected.length := by
  unfold Bay.reselect
  cases b.selOf mi <;> cases s <;> simp only <;> repeat' split
  all_goals simp

theorem Bay.reselect_chan (b : Bay) (mi : Nat) (m : Mux) (s : Option Nat) (c : Nat) :
    (b.reselect mi m s).chan c = b.chan c := by
  simp [Bay.chan, (Bay.reselect_fields b mi m s).1]

theorem Bay.reselect_selOf_ne (b : Bay) (mi : Nat) (m : Mux) (s : Option Nat) {mj : Nat} (h : mj ≠ mi) :
    (b.reselect mi m s).selOf mj = b.selOf mj := by
  unfold Bay.reselect
  cases b.selOf mi <;> cases s <;> simp only <;> repeat' split
  all_goals simp [Bay.setSelected_selOf_ne _ _ h]

theorem Bay.reselect_selOf_eq (b : Bay) (mi : Nat) (m : Mux) (s : Option Nat) (hlt : mi < b.selected.length)
    (hj : ∀ j, b.selOf mi = some j → ∃ ic, m.inputs[j]? = some (some ic))
    (hi : ∀ i, s = some i → ∃ ic, m.inputs[i]? = some (some ic)) :
    (b.reselect mi m s).selOf mi = s := by
  unfold Bay.reselect
  cases hsel : b.selOf mi with
  | none =>
    cases s with
    | none => simpa using hsel
    | some i =>
      obtain ⟨ic, hic⟩ := hi i rfl
      simp only [hic]
      exact Bay.setSelected_selOf_eq _ _ (by simpa using hlt)
  | some j =>
    obtain ⟨icj, hicj⟩ := hj j hsel
    cases s with
    | none =>
      simp only [hicj]
      exact Bay.setSelected_selOf_eq _ _ (by simpa using hlt)
    | some i =>
      obtain ⟨ic, hic⟩ := hi i rfl
      simp only [hic, hicj]
      exact Bay.setSelected_selOf_eq _ _ (by simpa using hlt)

/-- A channel that is not an input of the mux keeps its callback list. -/
theorem Bay.reselect_cbsOf_other (b : Bay) (mi : Nat) (m : Mux) (s : Option Nat) (c : Nat)
    (hc : ∀ i : Nat, m.inputs[i]? ≠ some (some c)) : (b.reselect mi m s).cbsOf c = b.cbsOf c := by
  unfold Bay.reselect
  cases hsel : b.selOf mi with
  | none =>
    cases s with
    | none => rfl
    | some i =>
      simp only
      split
      · rename_i ic hic
        have : c ≠ ic := by rintro rfl; exact hc i hic
        simp [Bay.enableCb_cbsOf_ne _ _ this]
      · rfl
  | some j =>
    simp only
    have h1 : ∀ b1 : Bay, b1 = (match m.inputs[j]? with
        | some (some ic) => (b.disableCb ic (.muxInput mi j)).setSelected mi none
        | _ => b) → b1.cbsOf c = b.cbsOf c := by
      intro b1 hb1
      split at hb1
      · rename_i ic hic
        have : c ≠ ic := by rintro rfl; exact hc j hic
        rw [hb1]; simp [Bay.disableCb_cbsOf_ne _ _ this]
      · rw [hb1]
    cases s with
    | none => exact h1 _ rfl
    | some i =>
      simp only
      split
      · rename_i ic hic
        have : c ≠ ic := by rintro rfl; exact hc i hic
        simp only [Bay.setSelected_cbsOf, Bay.enableCb_cbsOf_ne _ _ this]
        exact h1 _ rfl
      · exact h1 _ rfl

theorem Bay.enableCb_nodup (b : Bay) (c c' : Nat) (cb : Cb) (h : (b.cbsOf c').Nodup) :
    ((b.enableCb c cb).cbsOf c').Nodup := by
  unfold Bay.enableCb
  split
  · exact h
  · rename_i hn
    by_cases hc : c' = c
    · subst hc
      rcases Nat.lt_or_ge c' b.cbs.length with hl | hl
      · simp only [Bay.cbsOf] at hn h ⊢
        rw [getD_set_eq _ _ _ _ hl]
        exact List.nodup_append.mpr ⟨h, by simp, by
          intro a ha b' hb'; simp at hb'; subst hb'; intro e; subst e; exact hn ha⟩
      · simp only [Bay.cbsOf, List.set_eq_of_length_le hl] at h ⊢; exact h
    · simp only [Bay.cbsOf] at h ⊢
      rw [getD_set_ne _ _ _ _ _ (Ne.symm hc)]; exact h

theorem Bay.disableCb_nodup (b : Bay) (c c' : Nat) (cb : Cb) (h : (b.cbsOf c').Nodup) :
    ((b.disableCb c cb).cbsOf c').Nodup := by
  by_cases hc : c' = c
  · subst hc; rw [Bay.disableCb_cbsOf_eq']; exact h.erase cb
  · rw [Bay.disableCb_cbsOf_ne b cb hc]; exact h

theorem Bay.reselect_nodup (b : Bay) (mi : Nat) (m : Mux) (s : Option Nat) (c : Nat)
    (h : (b.cbsOf c).Nodup) : ((b.reselect mi m s).cbsOf c).Nodup := by
  unfold Bay.reselect
  have h1 : ∀ j, ((match m.inputs[j]? with
        | some (some ic) => (b.disableCb ic (.muxInput mi j)).setSelected mi none
        | _ => b).cbsOf c).Nodup := by
    intro j
    split
    · rw [Bay.setSelected_cbsOf]; exact Bay.disableCb_nodup _ _ _ _ h
    · exact h
  cases b.selOf mi with
  | none =>
    cases s with
    | none => exact h
    | some i =>
      simp only
      split
      · rw [Bay.setSelected_cbsOf]; exact Bay.enableCb_nodup _ _ _ _ h
      · exact h
  | some j =>
    cases s with
    | none => exact h1 j
    | some i =>
      simp only
      split
      · rw [Bay.setSelected_cbsOf]; exact Bay.enableCb_nodup _ _ _ _ (h1 j)
      · exact h1 j


theorem Bay.WF.reselect {b : Bay} {mi : Nat} {m : Mux} (wf : b.WF) (hm : b.muxes[mi]? = some m)
    (s : Option Nat)
    (hj : ∀ j, b.selOf mi = some j → ∃ ic, m.inputs[j]? = some (some ic))
    (hi : ∀ i, s = some i → ∃ ic, m.inputs[i]? = some (some ic)) : (b.reselect mi m s).WF := by
  obtain ⟨hch, hmx, hdt, _, _, hcl, hsl⟩ := Bay.reselect_fields b mi m s
  have hmem := Bay.mem_reselect wf hm s hj hi
  constructor
  · rw [hcl, hch]; exact wf.cbsLen
  · rw [hsl, hmx]; exact wf.selLen
  · intro mj m' h1; rw [hch]; rw [hmx] at h1; exact wf.selLt mj m' h1
  · intro mj m' h1; rw [hch]; rw [hmx] at h1; exact wf.outLt mj m' h1
  · intro mj m' i c h1 h2; rw [hch]; rw [hmx] at h1; exact wf.inLt mj m' i c h1 h2
  · intro mj m' i h1; rw [hmx] at h1; exact wf.selNotIn mj m' i h1
  · intro mj m' h1; rw [hmx] at h1; rw [Bay.reselect_chan]; exact wf.outDup mj m' h1
  · intro mj m' h1; rw [hmx] at h1
    rw [hmem]
    exact Or.inl ⟨wf.selCb mj m' h1, by rintro ⟨j, _, h, _⟩; cases h⟩
  · intro c mj h1; rw [hmx]
    rw [hmem] at h1
    rcases h1 with ⟨h1, _⟩ | ⟨i, _, h, _⟩
    · exact wf.selCbOnly c mj h1
    · cases h
  · intro c mj i h1; rw [hmx]
    rw [hmem] at h1
    rcases h1 with ⟨h1, _⟩ | ⟨i', _, h, h3⟩
    · exact wf.inCbOnly c mj i h1
    · cases h; exact ⟨m, hm, h3⟩
  · intro c; exact Bay.reselect_nodup b mi m s c (wf.cbsNodup c)
  · rw [hdt]; exact wf.dirtyNodup
  · intro c; rw [hdt, Bay.reselect_chan]; exact wf.dirtyIff c

theorem Bay.WF.cbInput {b b' : Bay} {mi i : Nat} (wf : b.WF) (h : b.cbInput mi i = .ok b') : b'.WF := by
  obtain ⟨m, ic, _, _, hw⟩ := Bay.cbInput_ok h
  exact wf.write (chanOp_set _) hw

theorem Bay.WF.cbSelect {b b' : Bay} {mi : Nat} (wf : b.WF) (h : b.cbSelect mi = .ok b') : b'.WF := by
  obtain ⟨m, s, hm, _, hj, hi, hw⟩ := Bay.cbSelect_ok h
  exact (wf.reselect hm s hj hi).write (chanOp_set _) hw

theorem Bay.WF.runCb {b b' : Bay} {cb : Cb} (wf : b.WF) (h : b.runCb cb = .ok b') : b'.WF := by
  cases cb with
  | muxSelect m => exact wf.cbSelect h
  | muxInput m i => exact wf.cbInput h


/-! ### what one callback changes -/

def Cb.mux : Cb → Nat
  | .muxSelect m => m
  | .muxInput m _ => m

theorem Bay.write_dirty_cases {b b' : Bay} {c f} (h : b.write c f = .ok b') :
    b'.dirty = b.dirty ∨ b'.dirty = b.dirty ++ [c] := by
  rw [Bay.write_dirty h]; split
  · exact Or.inr rfl
  · exact Or.inl rfl

/-- Frame of a callback of mux `mj`: only `mj`'s output channel, `mj`'s
    `selected` and the `cb_input` entries of `mj` can change. -/
theorem Bay.runCb_frame {b b' : Bay} {cb : Cb} (wf : b.WF) (h : b.runCb cb = .ok b') :
    ∃ m', b.muxes[cb.mux]? = some m' ∧ b'.muxes = b.muxes ∧
      (∀ c, c ≠ m'.out → b'.chan c = b.chan c) ∧
      (b'.dirty = b.dirty ∨ b'.dirty = b.dirty ++ [m'.out]) ∧
      (∀ mk, mk ≠ cb.mux → b'.selOf mk = b.selOf mk) ∧
      (∀ c cb0, (∀ i, cb0 ≠ .muxInput cb.mux i) → (cb0 ∈ b'.cbsOf c ↔ cb0 ∈ b.cbsOf c)) ∧
      (∀ c, (∀ i : Nat, m'.inputs[i]? ≠ some (some c)) → b'.cbsOf c = b.cbsOf c) ∧
      ((∃ i, cb = .muxInput cb.mux i) → b'.cbs = b.cbs ∧ b'.selected = b.selected) := by
  cases cb with
  | muxInput mj i =>
    obtain ⟨m', ic, hm, _, hw⟩ := Bay.cbInput_ok h
    refine ⟨m', hm, Bay.write_muxes hw, fun c hc => Bay.write_chan_ne hw hc, Bay.write_dirty_cases hw,
      fun mk _ => Bay.selOf_congr (Bay.write_selected hw) mk,
      fun c cb0 _ => by rw [Bay.cbsOf_congr (Bay.write_cbs hw)],
      fun c _ => Bay.cbsOf_congr (Bay.write_cbs hw) c,
      fun _ => ⟨Bay.write_cbs hw, Bay.write_selected hw⟩⟩
  | muxSelect mj =>
    obtain ⟨m', s, hm, _, hj, hi, hw⟩ := Bay.cbSelect_ok h
    obtain ⟨hch, hmx, hdt, _, _, _, _⟩ := Bay.reselect_fields b mj m' s
    refine ⟨m', hm, (Bay.write_muxes hw).trans hmx, ?_, ?_, ?_, ?_, ?_, ?_⟩
    · intro c hc; rw [Bay.write_chan_ne hw hc, Bay.reselect_chan]
    · have := Bay.write_dirty_cases hw; rw [hdt] at this; exact this
    · intro mk hk; rw [Bay.selOf_congr (Bay.write_selected hw)]; exact Bay.reselect_selOf_ne _ _ _ _ hk
    · intro c cb0 hcb
      rw [Bay.cbsOf_congr (Bay.write_cbs hw), Bay.mem_reselect wf hm s hj hi]
      constructor
      · rintro (⟨h1, _⟩ | ⟨i, _, h2, _⟩)
        · exact h1
        · exact absurd h2 (hcb i)
      · intro h1; exact Or.inl ⟨h1, by rintro ⟨j, _, h2, _⟩; exact hcb j h2⟩
    · intro c hc; rw [Bay.cbsOf_congr (Bay.write_cbs hw)]; exact Bay.reselect_cbsOf_other b mj m' s c hc
    · rintro ⟨i, hi'⟩; cases hi'


/-! ### loop rules -/

/-- While a channel is propagated its callback list does not change. -/
theorem Bay.runCb_cbsOf_fixed {b b' : Bay} {c : Nat} {cb : Cb} (wf : b.WF) (hmem : cb ∈ b.cbsOf c)
    (h : b.runCb cb = .ok b') : b'.cbsOf c = b.cbsOf c := by
  obtain ⟨m', hm, _, _, _, _, _, hfix, hin⟩ := Bay.runCb_frame wf h
  cases cb with
  | muxInput mj i => exact Bay.cbsOf_congr (hin ⟨i, rfl⟩).1 c
  | muxSelect mj =>
    obtain ⟨m, hm2, hsel⟩ := wf.selCbOnly c mj hmem
    have : m = m' := by simp only [Cb.mux] at hm; rw [hm2] at hm; cases hm; rfl
    subst this
    apply hfix
    intro i; rw [← hsel]; exact wf.selNotIn mj m i hm2

theorem Bay.propChan_rule (c : Nat) (Q : Bay → Nat → Prop)
    (hstep : ∀ (b : Bay) (j : Nat) (cb : Cb) (b' : Bay), b.WF → Q b j → (b.cbsOf c)[j]? = some cb →
      b.runCb cb = .ok b' → b'.cbsOf c = b.cbsOf c → Q b' (j + 1)) :
    ∀ (fuel : Nat) (b : Bay) (j : Nat) (b' : Bay), b.WF → Q b j → j ≤ (b.cbsOf c).length →
      b.propChan fuel c j = .ok b' →
      b'.WF ∧ b'.cbsOf c = b.cbsOf c ∧ Q b' (b.cbsOf c).length := by
  intro fuel
  induction fuel with
  | zero =>
    intro b j b' wf hq hj h
    unfold Bay.propChan at h
    split at h
    · rename_i hnone
      cases h
      have : j = (b.cbsOf c).length := by
        have := List.getElem?_eq_none_iff.mp hnone; omega
      exact ⟨wf, rfl, this ▸ hq⟩
    · simp at h
  | succ fuel ih =>
    intro b j b' wf hq hj h
    unfold Bay.propChan at h
    split at h
    · rename_i hnone
      cases h
      have : j = (b.cbsOf c).length := by
        have := List.getElem?_eq_none_iff.mp hnone; omega
      exact ⟨wf, rfl, this ▸ hq⟩
    · rename_i cb hcb
      simp only at h
      split at h
      · cases h
      · rename_i b1 hrun
        have hjl : j < (b.cbsOf c).length := (List.getElem?_eq_some_iff.mp hcb).1
        have hget : (b.cbsOf c)[j] = cb := (List.getElem?_eq_some_iff.mp hcb).2
        have hmem : cb ∈ b.cbsOf c := List.mem_of_getElem? hcb
        have hfix := Bay.runCb_cbsOf_fixed wf hmem hrun
        have hidx : (b1.cbsOf c).idxOf cb = j := by
          rw [hfix, ← hget]; exact (wf.cbsNodup c).idxOf_getElem j hjl
        rw [hidx] at h
        have wf1 := wf.runCb hrun
        have hq1 := hstep b j cb b1 wf hq hcb hrun hfix
        obtain ⟨wf', hl, hq'⟩ := ih b1 (j + 1) b' wf1 hq1 (by rw [hfix]; omega) h
        exact ⟨wf', hl.trans hfix, hfix ▸ hq'⟩


theorem Bay.runCb_dirty_prefix {b b' : Bay} {cb : Cb} (wf : b.WF) (h : b.runCb cb = .ok b') :
    ∃ ext, b'.dirty = b.dirty ++ ext := by
  obtain ⟨m', _, _, _, hd, _⟩ := Bay.runCb_frame wf h
  rcases hd with hd | hd
  · exact ⟨[], by simp [hd]⟩
  · exact ⟨[m'.out], hd⟩

theorem Bay.propChan_dirty_prefix {b b' : Bay} {c fuel j : Nat} (wf : b.WF)
    (hj : j ≤ (b.cbsOf c).length) (h : b.propChan fuel c j = .ok b') :
    ∃ ext, b'.dirty = b.dirty ++ ext := by
  have := Bay.propChan_rule c (fun b1 _ => ∃ ext, b1.dirty = b.dirty ++ ext)
    (by
      intro b1 j cb b2 wf1 ⟨ext, he⟩ _ hrun _
      obtain ⟨ext2, he2⟩ := Bay.runCb_dirty_prefix wf1 hrun
      exact ⟨ext ++ ext2, by rw [he2, he, List.append_assoc]⟩)
    fuel b j b' wf ⟨[], by simp⟩ hj h
  exact this.2.2

theorem Bay.dirtyPhase_rule (P : Bay → Nat → Prop)
    (hchan : ∀ (b : Bay) (k c : Nat) (b' : Bay), b.WF → P b k → b.dirty[k]? = some c →
      b.propChan (b.chanFuel c) c 0 = .ok b' → P b' (k + 1)) :
    ∀ (fuel : Nat) (b : Bay) (k : Nat) (b' : Bay), b.WF → P b k → k ≤ b.dirty.length →
      b.dirtyPhase fuel k = .ok b' → b'.WF ∧ P b' b'.dirty.length := by
  intro fuel
  induction fuel with
  | zero =>
    intro b k b' wf hp hk h
    unfold Bay.dirtyPhase at h
    split at h
    · rename_i hnone
      cases h
      have : k = b.dirty.length := by
        have := List.getElem?_eq_none_iff.mp hnone; omega
      exact ⟨wf, this ▸ hp⟩
    · simp at h
  | succ fuel ih =>
    intro b k b' wf hp hk h
    unfold Bay.dirtyPhase at h
    split at h
    · rename_i hnone
      cases h
      have : k = b.dirty.length := by
        have := List.getElem?_eq_none_iff.mp hnone; omega
      exact ⟨wf, this ▸ hp⟩
    · rename_i c hc
      simp only at h
      split at h
      · cases h
      · rename_i b1 hrun
        have hkl : k < b.dirty.length := (List.getElem?_eq_some_iff.mp hc).1
        have wf1 := (Bay.propChan_rule c (fun _ _ => True) (by intros; trivial)
          _ b 0 b1 wf trivial (Nat.zero_le _) hrun).1
        obtain ⟨ext, hext⟩ := Bay.propChan_dirty_prefix wf (Nat.zero_le _) hrun
        exact ih b1 (k + 1) b' wf1 (hchan b k c b1 wf hp hc hrun)
          (by rw [hext, List.length_append]; omega) h


/-! ### the fuel bounds are sufficient -/

theorem nodup_bounded_length : ∀ (n : Nat) (l : List Nat), l.Nodup → (∀ x ∈ l, x < n) → l.length ≤ n := by
  intro n
  induction n with
  | zero =>
    intro l _ h
    cases l with
    | nil => simp
    | cons a l => exact absurd (h a (by simp)) (by omega)
  | succ n ih =>
    intro l hnd h
    have h1 : (l.erase n).length ≤ n := by
      apply ih _ (hnd.erase n)
      intro x hx
      rw [hnd.mem_erase_iff] at hx
      have := h x hx.2
      omega
    by_cases hm : n ∈ l
    · rw [List.length_erase_of_mem hm] at h1; omega
    · rw [List.erase_of_not_mem hm] at h1; omega

theorem Bay.WF.dirty_lt {b : Bay} (wf : b.WF) {c : Nat} (h : c ∈ b.dirty) : c < b.chans.length := by
  rcases Nat.lt_or_ge c b.chans.length with hl | hl
  · exact hl
  · have := (wf.dirtyIff c).mp h
    simp [Bay.chan, List.getD_eq_getElem?_getD, List.getElem?_eq_none hl] at this

theorem Bay.WF.dirty_length {b : Bay} (wf : b.WF) : b.dirty.length ≤ b.chans.length :=
  nodup_bounded_length _ _ wf.dirtyNodup (fun _ h => wf.dirty_lt h)

/-- Beyond the number of callbacks left on the list, fuel does not matter. -/
theorem Bay.propChan_fuel (c : Nat) : ∀ (f1 f2 : Nat) (b : Bay) (j : Nat), b.WF →
    (b.cbsOf c).length ≤ f1 + j → (b.cbsOf c).length ≤ f2 + j →
    b.propChan f1 c j = b.propChan f2 c j := by
  intro f1
  induction f1 with
  | zero =>
    intro f2 b j wf h1 h2
    have : (b.cbsOf c)[j]? = none := List.getElem?_eq_none_iff.mpr (by omega)
    unfold Bay.propChan; simp [this]
  | succ f1 ih =>
    intro f2 b j wf h1 h2
    cases hcb : (b.cbsOf c)[j]? with
    | none => unfold Bay.propChan; simp [hcb]
    | some cb =>
      have hjl : j < (b.cbsOf c).length := (List.getElem?_eq_some_iff.mp hcb).1
      cases f2 with
      | zero => omega
      | succ f2 =>
        rw [Bay.propChan, Bay.propChan]
        simp only [hcb]
        cases hrun : b.runCb cb with
        | error e => rfl
        | ok b1 =>
          simp only
          have hmem : cb ∈ b.cbsOf c := List.mem_of_getElem? hcb
          have hfix := Bay.runCb_cbsOf_fixed wf hmem hrun
          have hidx : (b1.cbsOf c).idxOf cb = j := by
            rw [hfix, ← (List.getElem?_eq_some_iff.mp hcb).2]
            exact (wf.cbsNodup c).idxOf_getElem j hjl
          rw [hidx]
          exact ih f2 b1 (j + 1) (wf.runCb hrun) (by rw [hfix]; omega) (by rw [hfix]; omega)

theorem Bay.propChan_wf {b b' : Bay} {c fuel j : Nat} (wf : b.WF) (hj : j ≤ (b.cbsOf c).length)
    (h : b.propChan fuel c j = .ok b') : b'.WF ∧ b'.chans.length = b.chans.length :=
  let r := Bay.propChan_rule c (fun b1 _ => b1.chans.length = b.chans.length)
    (by
      intro b1 j cb b2 wf1 hl _ hrun _
      cases cb with
      | muxInput mj i =>
        obtain ⟨_, _, _, _, hw⟩ := Bay.cbInput_ok hrun
        rw [Bay.write_length hw]; exact hl
      | muxSelect mj =>
        obtain ⟨m', s, _, _, _, _, hw⟩ := Bay.cbSelect_ok hrun
        rw [Bay.write_length hw, (Bay.reselect_fields b1 mj m' s).1]; exact hl)
    fuel b j b' wf rfl hj h
  ⟨r.1, r.2.2⟩

/-- `bay_propagate`'s first loop: fuel beyond the size of the channel table
    does not matter (the dirty list holds distinct channels). -/
theorem Bay.dirtyPhase_fuel : ∀ (f1 f2 : Nat) (b : Bay) (k : Nat), b.WF →
    b.chans.length ≤ f1 + k → b.chans.length ≤ f2 + k →
    b.dirtyPhase f1 k = b.dirtyPhase f2 k := by
  intro f1
  induction f1 with
  | zero =>
    intro f2 b k wf h1 h2
    have hl := wf.dirty_length
    have : b.dirty[k]? = none := List.getElem?_eq_none_iff.mpr (by omega)
    unfold Bay.dirtyPhase; simp [this]
  | succ f1 ih =>
    intro f2 b k wf h1 h2
    cases hc : b.dirty[k]? with
    | none => unfold Bay.dirtyPhase; simp [hc]
    | some c =>
      have hkl : k < b.dirty.length := (List.getElem?_eq_some_iff.mp hc).1
      have hl := wf.dirty_length
      cases f2 with
      | zero => omega
      | succ f2 =>
        rw [Bay.dirtyPhase, Bay.dirtyPhase]
        simp only [hc]
        cases hrun : b.propChan (b.chanFuel c) c 0 with
        | error e => rfl
        | ok b1 =>
          simp only
          obtain ⟨wf1, hlen⟩ := Bay.propChan_wf wf (Nat.zero_le _) hrun
          exact ih f2 b1 (k + 1) wf1 (by rw [hlen]; omega) (by rw [hlen]; omega)

/-- The per-channel fuel of `dirtyPhase` is enough for the whole callback list. -/
theorem Bay.chanFuel_ok (b : Bay) (c : Nat) : (b.cbsOf c).length ≤ b.chanFuel c + 0 := by
  unfold Bay.chanFuel; omega

end Ovni.Emu
