import OvniModel.Lemmas.TaskHook

/-
  C20: `SimP.tableEvent` with the written channel named.  A table event
  (`simple` of nOS-V / Nanos6 / NODES / …, `context_switch` of the kernel
  model) performs ONE channel operation, on the channel its table row names
  (`entry[0]`), or none (action IGN).
-/
set_option linter.unusedSimpArgs false
namespace Ovni.Emu
open Ovni.Generated

/-- the channel the table row of event `(c, v)` writes (`[]`: no row, or action IGN) -/
def tableChans (m : ModelSpec) (c v : Nat) : List Nat :=
  match m.table.find? (fun r => r.1 == c && r.2.1 == v) with
  | some (_, _, ch, act, _) => if act = 1 ∨ act = 2 ∨ act = 3 then [ch] else []
  | none => []

/-- **A table event writes only the channel its row names**, of the event's thread. -/
theorem SimP.tableEventP {e e' : Emu} {ti c v : Nat} {m : ModelSpec}
    (h : Ovni.Emu.tableEvent e ti m c v = .ok e') : SimP (rawOf ti (tableChans m c v)) e e' := by
  cases hf : m.table.find? (fun r => r.1 == c && r.2.1 == v) with
  | none =>
    unfold Ovni.Emu.tableEvent at h
    simp only [hf, bind, Except.bind, pure, Except.pure, throw, throwThe, MonadExceptOf.throw] at h
    repeat' split at h
    all_goals cases h
  | some row =>
    obtain ⟨rc, rv, ch, act, st⟩ := row
    have hch : ∀ k, act = 1 ∨ act = 2 ∨ act = 3 → rawOf ti (tableChans m c v) (.raw ti k ch) := by
      intro k ha
      refine ⟨k, ch, rfl, ?_⟩
      simp only [tableChans, hf, ha, if_true, List.mem_singleton]
    unfold Ovni.Emu.tableEvent at h
    simp only [hf, bind, Except.bind, pure, Except.pure, throw, throwThe, MonadExceptOf.throw] at h
    repeat' split at h
    all_goals first | (cases h; done) | skip
    all_goals (injection h with h; subst h)
    all_goals try (rename_i hq; injection hq with hq; subst hq)
    all_goals first
      | exact SimP.refl _
      | exact SimP.withChanP (fun k => hch k (Or.inl (by assumption))) (chanOp_push _ _) (by assumption)
      | exact SimP.withChanP (fun k => hch k (Or.inr (Or.inl (by assumption)))) (chanOp_pop _) (by assumption)
      | exact SimP.withChanP (fun k => hch k (Or.inr (Or.inr (by assumption)))) (chanOp_set _) (by assumption)
      | exact SimP.setOutOfCpu (by assumption)
      | exact (SimP.withChanP (fun k => hch k (Or.inl (by assumption))) (chanOp_push _ _) (by assumption)).trans
          (SimP.setOutOfCpu (by assumption))
      | exact (SimP.withChanP (fun k => hch k (Or.inr (Or.inl (by assumption)))) (chanOp_pop _) (by assumption)).trans
          (SimP.setOutOfCpu (by assumption))
      | exact (SimP.withChanP (fun k => hch k (Or.inr (Or.inr (by assumption)))) (chanOp_set _) (by assumption)).trans
          (SimP.setOutOfCpu (by assumption))

end Ovni.Emu
