import OvniModel.Lemmas.EmitEmu
import OvniModel.Lemmas.CoreBayInit
import OvniModel.Lemmas.CoreBayView

/-
  C06 (emit side): the connect-time step.  What the rows of `mkEmuWith …`
  show, so that the first `bay_propagate` (time 0) cannot hit "forbidden
  value 0" when the connect-time values are legal Paraver values.
-/
set_option linter.unusedSimpArgs false
namespace Ovni.Emu
open Ovni.Generated

/-- the values the raw channels hold after `emu_connect` are legal Paraver values -/
def InitPrvOk (specs : List ModelSpec) : Prop :=
  ∀ m ∈ specs, ∀ i, i < m.nch → ∃ x, prvValue (m.prvFlags.getD i 0) ((m.freshChans.getD i {}).cur) = .ok x

theorem mkEmuWith_thread {fc : ModelSpec → List Chan} {threads : List (Int × Int × Nat)}
    {cpus : List (Nat × Int × Bool)} {enabled : List Nat} {lint : Bool} {extra : List ModelSpec} {g : Nat} {t : Thread}
    (h : (mkEmuWith fc threads cpus enabled lint extra).threads[g]? = some t) :
    t.state = .unknown ∧
    t.mch = (allSpecs.filter (fun s => enabled.contains s.char) ++ extra).map fun s => (s.char, fc s) := by
  simp only [mkEmuWith, List.getElem?_mapIdx] at h
  cases hx : threads[g]? with
  | none => rw [hx] at h; cases h
  | some x =>
    obtain ⟨tid, pid, loom⟩ := x
    rw [hx] at h
    simp only [Option.map_some, Option.some.injEq] at h
    subst h; exact ⟨rfl, rfl⟩

theorem mkEmuWith_cpu {fc : ModelSpec → List Chan} {threads : List (Int × Int × Nat)}
    {cpus : List (Nat × Int × Bool)} {enabled : List Nat} {lint : Bool} {extra : List ModelSpec} {c : Nat} {x : Cpu}
    (h : (mkEmuWith fc threads cpus enabled lint extra).cpus[c]? = some x) :
    x.chThrun = { ignoreDup := true } := by
  simp only [mkEmuWith, List.getElem?_mapIdx] at h
  cases hx : cpus[c]? with
  | none => rw [hx] at h; cases h
  | some y =>
    obtain ⟨loom, index, virt⟩ := y
    rw [hx] at h
    simp only [Option.map_some, Option.some.injEq] at h
    subst h; rfl

/-- `viewRecordsC` succeeds when every new row value is a legal Paraver value. -/
theorem viewRecordsC_ok_of_new {e e' : Emu} {fo fn : Nat → Bool}
    (hth : ∀ t ∈ e'.threads, ∀ m ∈ e'.specs, ∀ i, i < m.nch →
      ∃ x, prvValue (m.prvFlags.getD i 0) (thView t m i) = .ok x)
    (hcp : ∀ c ∈ e'.cpus, ∀ m ∈ e'.specs, ∀ i, i < m.nch →
      ∃ x, prvValue (m.prvFlags.getD i 0) (cpuViewC (fn c.gindex) e' c m i) = .ok x) :
    ∃ vr, viewRecordsC e e' fo fn = .ok vr := by
  refine ⟨_, collect_ok_iff.mpr ⟨?_, rfl⟩⟩
  intro x hx
  rcases List.mem_append.mp hx with hx | hx
  · obtain ⟨t, ht, hx⟩ := List.mem_flatMap.mp hx
    unfold thViewList at hx
    obtain ⟨m, hm, hx⟩ := List.mem_flatMap.mp hx
    obtain ⟨i, hi, rfl⟩ := List.mem_map.mp hx
    obtain ⟨r, hr⟩ := (emitView_isOk_iff _ _ _ _ _ _).mpr (Or.inr (hth t ht m hm i (List.mem_range.mp hi)))
    exact ⟨r, hr⟩
  · obtain ⟨c, hc, hx⟩ := List.mem_flatMap.mp hx
    unfold cpuViewListC at hx
    obtain ⟨m, hm, hx⟩ := List.mem_flatMap.mp hx
    obtain ⟨i, hi, rfl⟩ := List.mem_map.mp hx
    obtain ⟨r, hr⟩ := (emitView_isOk_iff _ _ _ _ _ _).mpr (Or.inr (hcp c hc m hm i (List.mem_range.mp hi)))
    exact ⟨r, hr⟩

/-- The rows of the state after the connect-time writes: a thread row shows
    null or the connect-time value of its raw channel; a CPU row (all CPUs
    fresh, no running thread) shows null. -/
theorem init_rows_ok (threads : List (Int × Int × Nat)) (cpus : List (Nat × Int × Bool)) (enabled : List Nat)
    (lint : Bool) (extra : List ModelSpec) (e : Emu) (fo : Nat → Bool)
    (hiv : InitPrvOk (allSpecs.filter (fun s => enabled.contains s.char) ++ extra))
    (hchars : ((allSpecs.filter (fun s => enabled.contains s.char) ++ extra).map (·.char)).Nodup) :
    ∃ vr, viewRecordsC e (mkEmuWith ModelSpec.dirtyChans threads cpus enabled lint extra) fo
      (fun _ => true) = .ok vr := by
  have hsd : Shaped (mkEmuWith ModelSpec.dirtyChans threads cpus enabled lint extra) :=
    mkEmuWith_shaped _ _ _ _ _ _ (by intro m; simp [ModelSpec.dirtyChans]) hchars
  apply viewRecordsC_ok_of_new
  · intro t ht m hm i hil
    obtain ⟨g, hg⟩ := List.mem_iff_getElem?.mp ht
    obtain ⟨k, hk⟩ := List.mem_iff_getElem?.mp hm
    obtain ⟨hst, hmch⟩ := mkEmuWith_thread hg
    obtain ⟨cs, hcs, hmk, _⟩ := hsd.getChans hg hk
    have hcsd : cs = m.dirtyChans := by
      rw [hmch, List.getElem?_map] at hmk
      have hk' : (allSpecs.filter (fun s => enabled.contains s.char) ++ extra)[k]? = some m := hk
      rw [hk'] at hmk
      simp only [Option.map_some, Option.some.injEq, Prod.mk.injEq] at hmk
      exact hmk.2.symm
    have hcur : (cs.getD i {}).cur = (m.freshChans.getD i {}).cur := by
      rw [hcsd, ModelSpec.freshChans_eq, getD_map_flush_cur]
    unfold thView
    simp only [hcs, hst]
    by_cases hh : trackHolds (m.thTrack.getD i 0) ThState.unknown = true
    · rw [if_pos hh, hcur]; exact hiv m hm i hil
    · rw [if_neg hh]; exact ⟨0, rfl⟩
  · intro c hc m hm i hil
    obtain ⟨cg, hcg⟩ := List.mem_iff_getElem?.mp hc
    have hthr := mkEmuWith_cpu hcg
    unfold cpuViewC
    split
    · exact ⟨0, rfl⟩
    · rename_i hn
      have hd : m.cpuDflt i = .null := by
        apply Classical.byContradiction
        intro hd; exact hn ⟨rfl, hd⟩
      have : cpuView (mkEmuWith ModelSpec.dirtyChans threads cpus enabled lint extra) c m i = m.cpuDflt i := by
        unfold cpuView cpuSelected
        rw [hthr]; rfl
      rw [this, hd]; exact ⟨0, rfl⟩

/-- The freshly connected bay and `mkEmuWith protoChans …` (the emulator before
    the connect-time writes) satisfy `Inv`. -/
theorem Inv.pre_init (threads : List (Int × Int × Nat)) (cpus : List (Nat × Int × Bool)) (enabled : List Nat)
    (lint : Bool) (extra : List ModelSpec) {b0 : Bay}
    (hc : (mkEmuWith ModelSpec.protoChans threads cpus enabled lint extra).shape.connect = .ok b0)
    (hnt : 0 < threads.length)
    (hchars : ((allSpecs.filter (fun s => enabled.contains s.char) ++ extra).map (·.char)).Nodup) :
    Shaped (mkEmuWith ModelSpec.protoChans threads cpus enabled lint extra) ∧
    Inv b0 (mkEmuWith ModelSpec.protoChans threads cpus enabled lint extra) b0 := by
  have hs0 : Shaped (mkEmuWith ModelSpec.protoChans threads cpus enabled lint extra) :=
    mkEmuWith_shaped _ _ _ _ _ _ (by intro m; simp [ModelSpec.protoChans]) hchars
  refine ⟨hs0, Inv.connected hc hs0 (by simpa [mkEmuWith] using hnt) ?_⟩
  intro s hs'
  rw [mkEmuWith_src _ _ _ _ _ _ s hs']
  rw [mkEmuWith_shape] at hs' ⊢
  cases s with
  | raw g k i =>
    obtain ⟨_, m, hk, hi⟩ := (Shape.mem_raw _ g k i).mp hs'
    simp only at hk
    simp only [srcWith, hk, Shape.proto, ModelSpec.protoChans, List.getElem?_map,
      List.getElem?_range hi, Option.map_some]
    rfl
  | _ => rfl

end Ovni.Emu
