import OvniModel.Lemmas.JsonFuel

/-! Round trip `parse (serializePretty j) = ok j`: strings, numbers, the
    structural induction. -/
namespace Ovni.Json

/-- the hex digits `json_serialize_string` writes for a control character -/
theorem hexDigit_facts : ∀ c, c < 32 →
    hex4 48 48 (hexDigit (c / 16)) (hexDigit (c % 16)) = some c
    ∧ hexDigit (c / 16) ≠ 34 ∧ hexDigit (c / 16) ≠ 92 ∧ hexDigit (c % 16) ≠ 34 ∧ hexDigit (c % 16) ≠ 92 := by
  decide

theorem processString_cons_plain {c : Nat} (r : List Nat) (h1 : c ≠ 92) (h2 : ¬ c < 32) :
    processString (c :: r) = consOpt [c] (processString r) := by
  rw [processString.eq_def]; simp [h1, h2]

theorem processString_escapeByte (c : Nat) (t : List Nat) :
    processString (escapeByte c ++ t) = consOpt [c] (processString t) := by
  unfold escapeByte
  split
  · rename_i h; subst h; rw [processString.eq_def]; simp
  split
  · rename_i h; subst h; rw [processString.eq_def]; simp
  split
  · rename_i h; subst h; rw [processString.eq_def]; simp
  split
  · rename_i h; subst h; rw [processString.eq_def]; simp
  split
  · rename_i h; subst h; rw [processString.eq_def]; simp
  split
  · rename_i h; subst h; rw [processString.eq_def]; simp
  split
  · rename_i h; subst h; rw [processString.eq_def]; simp
  split
  · rename_i h
    obtain ⟨hh, _⟩ := hexDigit_facts c h
    rw [processString.eq_def]
    simp only [List.cons_append, List.nil_append, if_true]
    simp [hh, utf8Enc]
    have : c < 55296 := by omega
    have h2 : c < 128 := by omega
    simp [this, h2]
  split
  · rename_i h; subst h; rw [processString.eq_def]; simp
  · rename_i h1 h2 h3 h4 h5 h6 h7 h8 h9
    exact processString_cons_plain t h2 h8

theorem processString_escape : ∀ s : List Nat, processString (escape s) = some s
  | [] => by simp [escape, processString]
  | c :: s => by
    have : escape (c :: s) = escapeByte c ++ escape s := by simp [escape]
    rw [this, processString_escapeByte, processString_escape s]; rfl

theorem skipQuotes_escapeByte (c : Nat) (t : List Nat) :
    skipQuotes (escapeByte c ++ t) = sqMap (escapeByte c) (skipQuotes t) := by
  unfold escapeByte
  split
  · exact skipQuotes_bs _ _
  split
  · exact skipQuotes_bs _ _
  split
  · exact skipQuotes_bs _ _
  split
  · exact skipQuotes_bs _ _
  split
  · exact skipQuotes_bs _ _
  split
  · exact skipQuotes_bs _ _
  split
  · exact skipQuotes_bs _ _
  split
  · rename_i h
    obtain ⟨_, a1, a2, a3, a4⟩ := hexDigit_facts c h
    simp only [List.cons_append, List.nil_append]
    rw [skipQuotes_bs, skipQuotes_other _ (by decide) (by decide), skipQuotes_other _ (by decide) (by decide),
      skipQuotes_other _ a1 a2, skipQuotes_other _ a3 a4]
    cases skipQuotes t with
    | none => rfl
    | some p => rfl
  split
  · exact skipQuotes_bs _ _
  · rename_i h1 h2 h3 h4 h5 h6 h7 h8 h9
    exact skipQuotes_other t h1 h2

theorem skipQuotes_escape (s rest : List Nat) : skipQuotes (escape s ++ 34 :: rest) = some (escape s, rest) := by
  induction s with
  | nil => simp [escape, skipQuotes_quote]
  | cons c s ih =>
    have : escape (c :: s) = escapeByte c ++ escape s := by simp [escape]
    rw [this, List.append_assoc, skipQuotes_escapeByte, ih]; rfl

theorem quotedString_serString (s rest : List Nat) : quotedString (serString s ++ rest) = some (s, rest) := by
  have : serString s ++ rest = 34 :: (escape s ++ 34 :: rest) := by simp [serString]
  rw [this]
  simp only [quotedString, if_true, skipQuotes_escape, processString_escape]


/-! ### numbers -/

theorem natDecGo_digits : ∀ (f n : Nat), ∀ d ∈ natDecGo f n, isDigit d = true
  | 0, n, d, h => by
    simp only [natDecGo, List.mem_singleton] at h
    subst h; simp [isDigit]; omega
  | f + 1, n, d, h => by
    simp only [natDecGo] at h
    split at h
    · simp only [List.mem_singleton] at h; subst h; simp [isDigit]; omega
    · rcases List.mem_append.1 h with h | h
      · exact natDecGo_digits f _ d h
      · simp only [List.mem_singleton] at h; subst h; simp [isDigit]; omega

theorem natDecGo_ne_nil : ∀ (f n : Nat), natDecGo f n ≠ []
  | 0, n => by simp [natDecGo]
  | f + 1, n => by
    simp only [natDecGo]
    split <;> simp

theorem digitsVal_append (l : List Nat) (d : Nat) : digitsVal (l ++ [d]) = digitsVal l * 10 + (d - 48) := by
  simp [digitsVal, List.foldl_append]

theorem digitsVal_natDecGo : ∀ (f n : Nat), n ≤ f → digitsVal (natDecGo f n) = n
  | 0, n, h => by
    have : n = 0 := by omega
    subst this; simp [natDecGo, digitsVal]
  | f + 1, n, h => by
    simp only [natDecGo]
    split
    · simp [digitsVal]
    · rw [digitsVal_append, digitsVal_natDecGo f (n / 10) (by omega)]
      omega

theorem natDecGo_head : ∀ (f n : Nat), n ≤ f → n ≠ 0 → (natDecGo f n).head? ≠ some 48
  | 0, n, h, hn => by omega
  | f + 1, n, h, hn => by
    simp only [natDecGo]
    split
    · simp; omega
    · rename_i h10
      have ih := natDecGo_head f (n / 10) (by omega) (by omega)
      cases hgo : natDecGo f (n / 10) with
      | nil => exact absurd hgo (natDecGo_ne_nil _ _)
      | cons a l => rw [hgo] at ih; simpa using ih

theorem natDec_digits (n : Nat) : ∀ d ∈ natDec n, isDigit d = true := natDecGo_digits n n
theorem natDec_ne_nil (n : Nat) : natDec n ≠ [] := natDecGo_ne_nil n n
theorem digitsVal_natDec (n : Nat) : digitsVal (natDec n) = n := digitsVal_natDecGo n n (Nat.le_refl _)
theorem natDec_head (n : Nat) (h : n ≠ 0) : (natDec n).head? ≠ some 48 := natDecGo_head n n (Nat.le_refl _) h
theorem natDec_zero : natDec 0 = [48] := rfl

theorem takeWhile_all {p : Nat → Bool} {l : List Nat} (h : ∀ x ∈ l, p x = true) : l.takeWhile p = l := by
  have := List.takeWhile_append_of_pos (l₂ := []) h
  simpa using this

theorem dropWhile_all {p : Nat → Bool} {l : List Nat} (h : ∀ x ∈ l, p x = true) : l.dropWhile p = [] := by
  have := List.dropWhile_append_of_pos (l₂ := []) h
  simpa using this

theorem prefixCI_digit {w : Nat} {ws t : List Nat} (hw : isDigit w = false) (ht : ∀ a ∈ t.head?, isDigit a = true) :
    prefixCI (w :: ws) t = false := by
  cases t with
  | nil => rfl
  | cons a t' =>
    have ha := ht a (by simp)
    simp only [prefixCI, Bool.and_eq_false_imp, beq_iff_eq]
    intro h
    exfalso
    unfold lower at h
    simp [isDigit] at ha hw
    split at h <;> omega

/-- `numBody` on the decimal digits of `a` -/
theorem numBody_natDec (neg : Bool) (s : List Nat) (a : Nat) (ha : a ≤ pow2_53) (hneg : neg = true → a ≠ 0) :
    numBody neg s (natDec a) = .ok (.number (if neg then -(a : Int) else (a : Int)) 0, []) := by
  have hdig := natDec_digits a
  have hne := natDec_ne_nil a
  have hhead : ∀ x ∈ (natDec a).head?, isDigit x = true := by
    intro x hx
    cases hl : natDec a with
    | nil => exact absurd hl hne
    | cons y l => rw [hl] at hx; simp at hx; subst hx; exact hdig y (by rw [hl]; simp)
  unfold numBody
  rw [prefixCI_digit (by decide) hhead, prefixCI_digit (by decide) hhead]
  have hhex : isHexFloat (natDec a) = false := by
    by_cases h0 : a = 0
    · subst h0; rfl
    · have := natDec_head a h0
      unfold isHexFloat
      split
      · rename_i x h r heq; rw [heq] at this; simp at this
      · rfl
  have hsm : scanMantissa (natDec a) = (natDec a, [], []) := by
    unfold scanMantissa
    rw [dropWhile_all hdig, takeWhile_all hdig]
  simp only [Bool.or_self, Bool.false_eq_true, if_false, hhex, hsm]
  have he : (natDec a).isEmpty = false := by
    cases hl : natDec a with
    | nil => exact absurd hl hne
    | cons y l => rfl
  simp only [he, Bool.false_and, Bool.false_eq_true, if_false]
  have hex : exponent [] = (0, []) := rfl
  simp only [hex, List.length_nil, Nat.sub_zero, List.append_nil, digitsVal_natDec]
  have hlz : leadingZero (natDec a) (natDec a).length = false := by
    by_cases h0 : a = 0
    · subst h0; rfl
    · have := natDec_head a h0
      unfold leadingZero
      simp [this]
  simp only [hlz, Bool.false_eq_true, if_false]
  have hmk : mkNum neg a ((natDec a).length + 0) (0 - ((0 : Nat) : Int)) = some (if neg then -(a : Int) else (a : Int), 0) := by
    rw [show ((0 : Int) - ((0 : Nat) : Int)) = Int.ofNat 0 from rfl]
    unfold mkNum
    by_cases h0 : a = 0
    · subst h0
      cases neg with
      | true => exact absurd rfl (hneg rfl)
      | false => simp
    · simp [h0, ha]
  rw [hmk]

/-- what may follow a value in a serialization: nothing, or a stop character -/
def Term (rest : List Nat) : Prop := ∀ a ∈ rest.head?, isStop a = true

theorem takeWhile_notStop {l rest : List Nat} (hl : ∀ x ∈ l, notStop x = true) (hr : Term rest) :
    (l ++ rest).takeWhile notStop = l ∧ (l ++ rest).dropWhile notStop = rest := by
  rw [List.takeWhile_append_of_pos hl, List.dropWhile_append_of_pos hl]
  cases rest with
  | nil => simp
  | cons a r =>
    have : ¬ notStop a = true := by simp [notStop, hr a (by simp)]
    rw [List.takeWhile_cons_of_neg this, List.dropWhile_cons_of_neg this]
    simp

theorem digit_notStop {d : Nat} (h : isDigit d = true) : notStop d = true := by
  simp [isDigit] at h
  simp [notStop, isStop, isSpace]
  omega

theorem parseNumber_serNumber (n : Int) (rest : List Nat) (hn : n.natAbs ≤ pow2_53) (hr : Term rest) :
    parseNumber (serNumber n 0 ++ rest) = .ok (.number n 0, rest) := by
  have hns : ∀ x ∈ serNumber n 0, notStop x = true := by
    intro x hx
    simp only [serNumber, if_true] at hx
    rcases List.mem_append.1 hx with h | h
    · split at h
      · simp only [List.mem_singleton] at h; subst h; decide
      · simp at h
    · exact digit_notStop (natDec_digits _ x h)
  obtain ⟨h1, h2⟩ := takeWhile_notStop hns hr
  unfold parseNumber
  rw [h1, h2]
  have hcore : numCore (serNumber n 0) = .ok (.number n 0, []) := by
    simp only [serNumber, if_true]
    by_cases hneg : n < 0
    · simp only [hneg, if_true, List.singleton_append]
      unfold numCore
      simp only [if_true]
      rw [numBody_natDec true _ _ hn (fun _ => by omega)]
      simp only [if_true]
      congr 3
      omega
    · simp only [hneg, if_false, List.nil_append]
      unfold numCore
      cases hl : natDec n.natAbs with
      | nil => exact absurd hl (natDec_ne_nil _)
      | cons c t =>
        have hc : isDigit c = true := natDec_digits n.natAbs c (by rw [hl]; simp)
        have hc45 : c ≠ 45 := by simp [isDigit] at hc; omega
        simp only [hc45, if_false]
        rw [← hl, numBody_natDec false _ _ hn (fun h => by cases h)]
        simp only [Bool.false_eq_true, if_false]
        congr 3
        omega
  rw [hcore]
  rfl

/-! ### structure -/

/-- first characters of a serialized value -/
def valStart (a : Nat) : Prop :=
  a = 110 ∨ a = 116 ∨ a = 102 ∨ a = 45 ∨ isDigit a = true ∨ a = 34 ∨ a = 91 ∨ a = 123

theorem valStart_facts {a : Nat} (h : valStart a) : isSpace a = false ∧ a ≠ 93 ∧ a ≠ 125 := by
  unfold valStart at h
  simp only [isDigit, Bool.and_eq_true, decide_eq_true_eq] at h
  simp only [isSpace, Bool.or_eq_false_iff, Bool.and_eq_false_imp, beq_eq_false_iff_ne, decide_eq_true_eq,
    decide_eq_false_iff_not]
  omega

theorem natDec_head_digit (n : Nat) : ∃ a t, natDec n = a :: t ∧ isDigit a = true := by
  cases h : natDec n with
  | nil => exact absurd h (natDec_ne_nil n)
  | cons a t => exact ⟨a, t, rfl, natDec_digits n a (by rw [h]; simp)⟩

theorem serNumber_head (n : Int) (k : Nat) : ∃ a t, serNumber n k = a :: t ∧ valStart a := by
  unfold serNumber
  simp only
  by_cases hn : n < 0
  · simp only [hn, if_true]
    split
    · exact ⟨45, _, rfl, by simp [valStart]⟩
    · exact ⟨45, _, by simp only [List.cons_append, List.append_assoc]; rfl, by simp [valStart]⟩
  · simp only [hn, if_false]
    split
    · obtain ⟨a, t, h, hd⟩ := natDec_head_digit n.natAbs
      exact ⟨a, t, by simp [h], by simp [valStart, hd]⟩
    · obtain ⟨a, t, h, hd⟩ := natDec_head_digit (n.natAbs / 2 ^ k)
      exact ⟨a, _, by rw [h]; simp only [List.nil_append, List.cons_append, List.append_assoc]; rfl, by simp [valStart, hd]⟩

theorem ser_head : ∀ (j : Json) (lvl : Nat), ∃ a t, ser j lvl = a :: t ∧ valStart a
  | .null, _ => by simp only [ser]; exact ⟨_, _, rfl, by simp [valStart]⟩
  | .bool true, _ => by simp only [ser]; exact ⟨_, _, rfl, by simp [valStart]⟩
  | .bool false, _ => by simp only [ser]; exact ⟨_, _, rfl, by simp [valStart]⟩
  | .number n k, _ => by simp only [ser]; exact serNumber_head n k
  | .numberX _, _ => by simp only [ser]; exact ⟨_, _, rfl, by simp [valStart, isDigit]⟩
  | .string s, _ => by simp only [ser, serString]; exact ⟨_, _, rfl, by simp [valStart]⟩
  | .array [], _ => by simp only [ser]; exact ⟨_, _, rfl, by simp [valStart]⟩
  | .array (v :: vs), lvl => by simp only [ser]; exact ⟨_, _, rfl, by simp [valStart]⟩
  | .object [], _ => by simp only [ser]; exact ⟨_, _, rfl, by simp [valStart]⟩
  | .object (m :: ms), lvl => by simp only [ser]; exact ⟨_, _, rfl, by simp [valStart]⟩

theorem indent_space (k : Nat) : ∀ x ∈ indent k, isSpace x = true := by
  intro x hx
  simp only [indent, List.mem_replicate] at hx
  rw [hx.2]; rfl

def sep (isLast : Bool) : List Nat := if isLast then [10] else [44, 10]

theorem skipWs_indent (k : Nat) (t : List Nat) : skipWs (indent k ++ t) = skipWs t :=
  skipWs_append_of_space (indent_space k) t

theorem skipWs_ser (j : Json) (lvl : Nat) (t : List Nat) : skipWs (ser j lvl ++ t) = ser j lvl ++ t := by
  obtain ⟨a, u, h, hv⟩ := ser_head j lvl
  rw [h, List.cons_append]
  exact skipWs_cons_of_not_space (valStart_facts hv).1

theorem serElems_cons (v : Json) (vs : List Json) (lvl : Nat) (y : List Nat) :
    serElems (v :: vs) lvl ++ y
      = indent (lvl + 1) ++ (ser v (lvl + 1) ++ (sep vs.isEmpty ++ (serElems vs lvl ++ y))) := by
  simp [serElems, sep]

theorem serMembers_cons (k : List Nat) (v : Json) (ms : Members) (lvl : Nat) (y : List Nat) :
    serMembers ((k, v) :: ms) lvl ++ y
      = indent (lvl + 1) ++ (serString k ++ (58 :: 32 :: (ser v (lvl + 1) ++ (sep ms.isEmpty ++ (serMembers ms lvl ++ y))))) := by
  simp [serMembers, sep]

theorem skipWs_serElems (v : Json) (vs : List Json) (lvl : Nat) (y : List Nat) :
    skipWs (serElems (v :: vs) lvl ++ y) = ser v (lvl + 1) ++ (sep vs.isEmpty ++ (serElems vs lvl ++ y)) := by
  rw [serElems_cons, skipWs_indent, skipWs_ser]

theorem skipWs_serMembers (k : List Nat) (v : Json) (ms : Members) (lvl : Nat) (y : List Nat) :
    skipWs (serMembers ((k, v) :: ms) lvl ++ y)
      = serString k ++ (58 :: 32 :: (ser v (lvl + 1) ++ (sep ms.isEmpty ++ (serMembers ms lvl ++ y)))) := by
  rw [serMembers_cons, skipWs_indent]
  exact skipWs_cons_of_not_space (by decide)

theorem term_sep (b : Bool) (t : List Nat) : Term (sep b ++ t) := by
  intro a ha
  cases b <;> simp [sep] at ha <;> subst ha <;> decide

theorem parseValue_skip_space {f n : Nat} {w : List Nat} (hw : ∀ x ∈ w, isSpace x = true) (s : List Nat) :
    parseValue f n (w ++ s) = parseValue f n s := by
  cases f with
  | zero => rfl
  | succ f => rw [parseValue.eq_2, parseValue.eq_2, skipWs_append_of_space hw]

theorem keyOk_no_zero {k : List Nat} (h : keyOk k = true) : k.contains 0 = false := by
  simp only [keyOk, List.all_eq_true, Bool.and_eq_true, decide_eq_true_eq] at h
  cases hc : k.contains 0 with
  | false => rfl
  | true =>
    have : (0 : Nat) ∈ k := by simpa using hc
    have := (h 0 this).1
    omega

theorem parseValue_scalar {f n : Nat} {a : Nat} {t : List Nat} (hn : n ≤ maxNesting) (hs : isSpace a = false)
    (h1 : a ≠ 123) (h2 : a ≠ 91) : parseValue (f + 1) n (a :: t) = parseScalar (a :: t) := by
  rw [parseValue.eq_2, if_neg (by omega), skipWs_cons_of_not_space hs]
  simp only [h1, h2, if_false]

theorem rt_null (n f : Nat) (rest : List Nat) (hn : n ≤ maxNesting) :
    parseValue (f + 1) n ([110, 117, 108, 108] ++ rest) = .ok (.null, rest) := by
  rw [List.cons_append, parseValue_scalar hn (by decide) (by decide) (by decide)]
  simp [parseScalar, List.isPrefixOf, isDigit]

theorem rt_true (n f : Nat) (rest : List Nat) (hn : n ≤ maxNesting) :
    parseValue (f + 1) n ([116, 114, 117, 101] ++ rest) = .ok (.bool true, rest) := by
  rw [List.cons_append, parseValue_scalar hn (by decide) (by decide) (by decide)]
  simp [parseScalar, List.isPrefixOf]

theorem rt_false (n f : Nat) (rest : List Nat) (hn : n ≤ maxNesting) :
    parseValue (f + 1) n ([102, 97, 108, 115, 101] ++ rest) = .ok (.bool false, rest) := by
  rw [List.cons_append, parseValue_scalar hn (by decide) (by decide) (by decide)]
  simp [parseScalar, List.isPrefixOf]

theorem rt_string (n f : Nat) (s rest : List Nat) (hn : n ≤ maxNesting) :
    parseValue (f + 1) n (serString s ++ rest) = .ok (.string s, rest) := by
  have h := quotedString_serString s rest
  have e : serString s ++ rest = 34 :: (escape s ++ 34 :: rest) := by simp [serString]
  rw [e] at h ⊢
  rw [parseValue_scalar hn (by decide) (by decide) (by decide)]
  simp only [parseScalar, if_true, h]

theorem rt_number (n f : Nat) (v : Int) (rest : List Nat) (hn : n ≤ maxNesting) (hv : v.natAbs ≤ pow2_53)
    (hr : Term rest) : parseValue (f + 1) n (serNumber v 0 ++ rest) = .ok (.number v 0, rest) := by
  have h := parseNumber_serNumber v rest hv hr
  obtain ⟨a, t, ha, hs⟩ := serNumber_head v 0
  rw [ha] at h ⊢
  rw [List.cons_append] at h ⊢
  have hfacts : isSpace a = false ∧ a ≠ 123 ∧ a ≠ 91 ∧ a ≠ 34 ∧ a ≠ 116 ∧ a ≠ 102 ∧ (a = 45 ∨ isDigit a = true) := by
    have hd : a = 45 ∨ isDigit a = true := by
      unfold serNumber at ha
      simp only [if_true] at ha
      by_cases hneg : v < 0
      · simp only [hneg, if_true, List.singleton_append, List.cons.injEq] at ha
        exact Or.inl ha.1.symm
      · simp only [hneg, if_false, List.nil_append] at ha
        exact Or.inr (natDec_digits _ a (by rw [ha]; simp))
    simp only [isDigit, Bool.and_eq_true, decide_eq_true_eq] at hd ⊢
    simp only [isSpace, Bool.or_eq_false_iff, Bool.and_eq_false_imp, beq_eq_false_iff_ne, decide_eq_true_eq,
      decide_eq_false_iff_not]
    omega
  obtain ⟨h0, h1, h2, h3, h4, h5, h6⟩ := hfacts
  rw [parseValue_scalar hn h0 h1 h2]
  simp only [parseScalar, h3, h4, h5, if_false, false_or, h6, if_true, h]

def keysOf (ms : Members) : List (List Nat) := ms.map (·.1)

theorem fuel_pos {f m : Nat} (h : 2 * m + 1 ≤ f) : ∃ f', f = f' + 1 := ⟨f - 1, by omega⟩

mutual
theorem rtV : ∀ (j : Json) (n lvl : Nat) (rest : List Nat) (f : Nat), wr n j = true → Term rest →
    2 * (ser j lvl ++ rest).length + 1 ≤ f → parseValue f n (ser j lvl ++ rest) = .ok (j, rest)
  | .null, n, lvl, rest, f, hw, _, hf => by
    obtain ⟨f', rfl⟩ := fuel_pos hf
    simp only [wr, decide_eq_true_eq] at hw
    simp only [ser]; exact rt_null n f' rest hw
  | .bool true, n, lvl, rest, f, hw, _, hf => by
    obtain ⟨f', rfl⟩ := fuel_pos hf
    simp only [wr, decide_eq_true_eq] at hw
    simp only [ser]; exact rt_true n f' rest hw
  | .bool false, n, lvl, rest, f, hw, _, hf => by
    obtain ⟨f', rfl⟩ := fuel_pos hf
    simp only [wr, decide_eq_true_eq] at hw
    simp only [ser]; exact rt_false n f' rest hw
  | .number v k, n, lvl, rest, f, hw, ht, hf => by
    obtain ⟨f', rfl⟩ := fuel_pos hf
    simp only [wr, Bool.and_eq_true, decide_eq_true_eq, beq_iff_eq] at hw
    obtain ⟨⟨hn, hk⟩, hv⟩ := hw
    subst hk
    simp only [ser]; exact rt_number n f' v rest hn hv ht
  | .numberX _, n, lvl, rest, f, hw, _, _ => by simp [wr] at hw
  | .string s, n, lvl, rest, f, hw, _, hf => by
    obtain ⟨f', rfl⟩ := fuel_pos hf
    simp only [wr, Bool.and_eq_true, decide_eq_true_eq] at hw
    simp only [ser]; exact rt_string n f' s rest hw.1
  | .array [], n, lvl, rest, f, hw, _, hf => by
    obtain ⟨f', rfl⟩ := fuel_pos hf
    simp only [wr, Bool.and_eq_true, decide_eq_true_eq] at hw
    simp only [ser, List.cons_append, List.nil_append]
    rw [parseValue.eq_2, if_neg (by omega), skipWs_cons_of_not_space (by decide)]
    simp only [show (91 : Nat) ≠ 123 by decide, if_false, if_true]
    rw [skipWs_cons_of_not_space (by decide)]
    simp
  | .array (v :: vs), n, lvl, rest, f, hw, _, hf => by
    obtain ⟨f', rfl⟩ := fuel_pos hf
    simp only [wr, Bool.and_eq_true, decide_eq_true_eq] at hw
    have e : ser (.array (v :: vs)) lvl ++ rest
        = 91 :: ([10] ++ (serElems (v :: vs) lvl ++ (indent lvl ++ 93 :: rest))) := by simp [ser]
    rw [e] at hf ⊢
    rw [parseValue.eq_2, if_neg (by omega), skipWs_cons_of_not_space (by decide)]
    simp only [show (91 : Nat) ≠ 123 by decide, if_false, if_true]
    rw [skipWs_append_of_space (by decide)]
    have hE := rtE (v :: vs) (n + 1) lvl rest f' hw.2 (by simp)
      (by have := skipWs_length_le (serElems (v :: vs) lvl ++ (indent lvl ++ 93 :: rest))
          simp only [List.length_cons, List.length_append] at hf this ⊢; omega)
    rw [skipWs_serElems] at hE ⊢
    obtain ⟨a, t, ha, hs⟩ := ser_head v (lvl + 1)
    rw [ha, List.cons_append] at hE ⊢
    simp only [(valStart_facts hs).2.1, if_false]
    rw [hE]; rfl
  | .object [], n, lvl, rest, f, hw, _, hf => by
    obtain ⟨f', rfl⟩ := fuel_pos hf
    simp only [wr, Bool.and_eq_true, decide_eq_true_eq] at hw
    simp only [ser, List.cons_append, List.nil_append]
    rw [parseValue.eq_2, if_neg (by omega), skipWs_cons_of_not_space (by decide)]
    simp only [if_true]
    rw [skipWs_cons_of_not_space (by decide)]
    simp
  | .object ((k, v) :: ms), n, lvl, rest, f, hw, _, hf => by
    obtain ⟨f', rfl⟩ := fuel_pos hf
    simp only [wr, Bool.and_eq_true, decide_eq_true_eq] at hw
    have e : ser (.object ((k, v) :: ms)) lvl ++ rest
        = 123 :: ([10] ++ (serMembers ((k, v) :: ms) lvl ++ (indent lvl ++ 125 :: rest))) := by simp [ser]
    rw [e] at hf ⊢
    rw [parseValue.eq_2, if_neg (by omega), skipWs_cons_of_not_space (by decide)]
    simp only [if_true]
    rw [skipWs_append_of_space (by decide)]
    have hM := rtM ((k, v) :: ms) (n + 1) lvl rest f' [] hw.2 (by simp) hw.1.2 (by simp)
      (by have := skipWs_length_le (serMembers ((k, v) :: ms) lvl ++ (indent lvl ++ 125 :: rest))
          simp only [List.length_cons, List.length_append] at hf this ⊢; omega)
    rw [skipWs_serMembers] at hM ⊢
    simp only [serString, List.cons_append] at hM ⊢
    simp only [show (34 : Nat) ≠ 125 by decide, if_false]
    rw [hM]; rfl
theorem rtE : ∀ (vs : List Json) (n lvl : Nat) (rest : List Nat) (f : Nat), wrElems n vs = true → vs ≠ [] →
    2 * (skipWs (serElems vs lvl ++ (indent lvl ++ 93 :: rest))).length + 2 ≤ f →
    parseElems f n (skipWs (serElems vs lvl ++ (indent lvl ++ 93 :: rest))) = .ok (vs, rest)
  | [], _, _, _, _, _, hne, _ => absurd rfl hne
  | v :: vs, n, lvl, rest, f, hw, _, hf => by
    obtain ⟨f', rfl⟩ : ∃ f', f = f' + 1 := ⟨f - 1, by omega⟩
    simp only [wrElems, Bool.and_eq_true] at hw
    rw [skipWs_serElems] at hf ⊢
    have hV := rtV v n (lvl + 1) (sep vs.isEmpty ++ (serElems vs lvl ++ (indent lvl ++ 93 :: rest))) f' hw.1
      (term_sep _ _) (by omega)
    obtain ⟨a, t, ha, _⟩ := ser_head v (lvl + 1)
    rw [ha, List.cons_append] at hV hf ⊢
    rw [parseElems.eq_3, hV]
    simp only [Res.bind_ok]
    cases vs with
    | nil =>
      simp only [sep, List.isEmpty_nil, if_true, serElems, List.nil_append, List.singleton_append]
      rw [show (10 :: (indent lvl ++ 93 :: rest)) = (10 :: indent lvl) ++ 93 :: rest by simp,
        skipWs_ws_cons (by intro x hx; rcases List.mem_cons.1 hx with rfl | hx; rfl; exact indent_space _ x hx)
          (by decide)]
      simp
    | cons v2 vs' =>
      simp only [sep, List.isEmpty_cons, Bool.false_eq_true, if_false, List.cons_append, List.nil_append]
      rw [skipWs_cons_of_not_space (by decide)]
      simp only [if_true]
      rw [show (10 :: (serElems (v2 :: vs') lvl ++ (indent lvl ++ 93 :: rest)))
          = [10] ++ (serElems (v2 :: vs') lvl ++ (indent lvl ++ 93 :: rest)) by simp,
        skipWs_append_of_space (by decide)]
      have hE := rtE (v2 :: vs') n lvl rest f' hw.2 (by simp)
        (by have := skipWs_length_le (serElems (v2 :: vs') lvl ++ (indent lvl ++ 93 :: rest))
            simp only [sep, List.isEmpty_cons, Bool.false_eq_true, if_false, List.length_cons,
              List.length_append] at hf this ⊢
            omega)
      rw [hE]; rfl
theorem rtM : ∀ (ms : Members) (n lvl : Nat) (rest : List Nat) (f : Nat) (seen : List (List Nat)),
    wrMembers n ms = true → ms ≠ [] → keysNodup ms = true → (∀ k ∈ seen, k ∉ keysOf ms) →
    2 * (skipWs (serMembers ms lvl ++ (indent lvl ++ 125 :: rest))).length + 2 ≤ f →
    parseMembers f n (skipWs (serMembers ms lvl ++ (indent lvl ++ 125 :: rest))) seen = .ok (ms, rest)
  | [], _, _, _, _, _, _, hne, _, _, _ => absurd rfl hne
  | (k, v) :: ms, n, lvl, rest, f, seen, hw, _, hnd, hseen, hf => by
    obtain ⟨f', rfl⟩ : ∃ f', f = f' + 1 := ⟨f - 1, by omega⟩
    simp only [wrMembers, Bool.and_eq_true] at hw
    simp only [keysNodup, Bool.and_eq_true, Bool.not_eq_true'] at hnd
    rw [skipWs_serMembers] at hf ⊢
    rw [parseMembers.eq_2, quotedString_serString]
    simp only [keyOk_no_zero hw.1.1, Bool.false_eq_true, if_false]
    rw [skipWs_cons_of_not_space (by decide)]
    simp only [ne_eq, not_true_eq_false, if_false]
    have hV := rtV v n (lvl + 1) (sep ms.isEmpty ++ (serMembers ms lvl ++ (indent lvl ++ 125 :: rest))) f' hw.1.2
      (term_sep _ _) (by simp only [List.length_cons, List.length_append] at hf ⊢; omega)
    rw [show (32 :: (ser v (lvl + 1) ++ (sep ms.isEmpty ++ (serMembers ms lvl ++ (indent lvl ++ 125 :: rest)))))
        = [32] ++ (ser v (lvl + 1) ++ (sep ms.isEmpty ++ (serMembers ms lvl ++ (indent lvl ++ 125 :: rest)))) by simp,
      parseValue_skip_space (by decide), hV]
    simp only [Res.bind_ok]
    have hks : seen.contains k = false := by
      cases hc : seen.contains k with
      | false => rfl
      | true =>
        have : k ∈ seen := by simpa using hc
        exact absurd (by simp [keysOf]) (hseen k this)
    simp only [hks, Bool.false_eq_true, if_false]
    cases ms with
    | nil =>
      simp only [sep, List.isEmpty_nil, if_true, serMembers, List.nil_append, List.singleton_append]
      rw [show (10 :: (indent lvl ++ 125 :: rest)) = (10 :: indent lvl) ++ 125 :: rest by simp,
        skipWs_ws_cons (by intro x hx; rcases List.mem_cons.1 hx with rfl | hx; rfl; exact indent_space _ x hx)
          (by decide)]
      simp
    | cons m2 ms' =>
      obtain ⟨k2, v2⟩ := m2
      simp only [sep, List.isEmpty_cons, Bool.false_eq_true, if_false, List.cons_append, List.nil_append]
      rw [skipWs_cons_of_not_space (by decide)]
      simp only [if_true]
      rw [show (10 :: (serMembers ((k2, v2) :: ms') lvl ++ (indent lvl ++ 125 :: rest)))
          = [10] ++ (serMembers ((k2, v2) :: ms') lvl ++ (indent lvl ++ 125 :: rest)) by simp,
        skipWs_append_of_space (by decide)]
      have hM := rtM ((k2, v2) :: ms') n lvl rest f' (k :: seen) hw.2 (by simp) hnd.2
        (by intro k' hk' hin
            rcases List.mem_cons.1 hk' with rfl | hk'
            · have := hnd.1
              simp only [keysOf] at hin
              have hc : (List.map (fun x => x.1) ((k2, v2) :: ms')).contains k' = true := by simpa using hin
              rw [hc] at this; cases this
            · exact hseen k' hk' (by simp only [keysOf, List.map_cons, List.mem_cons] at hin ⊢; exact Or.inr hin))
        (by have := skipWs_length_le (serMembers ((k2, v2) :: ms') lvl ++ (indent lvl ++ 125 :: rest))
            simp only [sep, List.isEmpty_cons, Bool.false_eq_true, if_false, List.length_cons,
              List.length_append] at hf this ⊢
            omega)
      rw [hM]; rfl
end

end Ovni.Json
