import OvniModel.Lemmas.CoreBayDirtyOrder

/-
  C20 (second obligation), PRESENCE of a track output on the dirty list after
  an event that writes raw model channels: when only raw channels are dirty, the
  dirty phase runs `cb_input` callbacks only, the callback lists do not change,
  and every enabled input callback of a dirty channel writes its mux output
  (ALLOW_DUP: the output becomes dirty even with an unchanged value).  The CPU
  track of channel `i` of the thread the CPU runs is such a mux.
-/
namespace Ovni.Emu
open Ovni.Generated

/-- After `cb_input` the output is on the dirty list. -/
theorem Bay.cbInput_out_dirty {b b' : Bay} {mi i : Nat} {m : Mux} (wf : b.WF) (hm : b.muxes[mi]? = some m)
    (h : b.cbInput mi i = .ok b') : m.out ∈ b'.dirty := by
  obtain ⟨m0, ic, hm0, _, hw⟩ := Bay.cbInput_ok h
  rw [hm] at hm0; cases hm0
  have wf' := wf.cbInput h
  rw [wf'.dirtyIff]
  have hset := (Bay.write_chan_eq hw).1
  exact Chan.set_dirty_of_dup (wf.outDup mi m hm) hset

/-- **Input callbacks only.**  If every channel written by the event carries
    `cb_input` callbacks only, then after the dirty phase the callback lists are
    unchanged and every one of those callbacks has put its mux output on the
    dirty list. -/
theorem Bay.dirtyPhase_inputOnly {b bP : Bay} {L fuel : Nat} (wf : b.WF) (hl : b.Layered L)
    (hin : ∀ s ∈ b.dirty, ∀ cb ∈ b.cbsOf s, ∃ mi i, cb = Cb.muxInput mi i)
    (h : b.dirtyPhase fuel 0 = .ok bP) :
    bP.cbs = b.cbs ∧ ∀ s ∈ b.dirty, ∀ (mi i : Nat) (m : Mux), Cb.muxInput mi i ∈ b.cbsOf s →
      b.muxes[mi]? = some m → m.out ∈ bP.dirty := by
  let P : Bay → Nat → Prop := fun b' k =>
    b'.cbs = b.cbs ∧ b'.muxes = b.muxes ∧ (∃ A, b'.dirty = b.dirty ++ A ∧ ∀ x ∈ A, L ≤ x) ∧
    ∀ j s, j < k → b.dirty[j]? = some s → ∀ (mi i : Nat) (m : Mux), Cb.muxInput mi i ∈ b.cbsOf s →
      b.muxes[mi]? = some m → m.out ∈ b'.dirty
  have hstep : ∀ (b' : Bay) (k c : Nat) (b3 : Bay), b'.WF → P b' k → b'.dirty[k]? = some c →
      b'.propChan (b'.chanFuel c) c 0 = .ok b3 → P b3 (k + 1) := by
    intro b' k c b3 wf' ⟨p1, p2, ⟨A, p3, p3'⟩, p4⟩ hk hrun
    by_cases hkl : k < b.dirty.length
    · have hc : b.dirty[k]? = some c := by
        rw [p3, List.getElem?_append_left hkl] at hk; exact hk
      have hcm : c ∈ b.dirty := List.mem_of_getElem? hc
      have hcbs : b'.cbsOf c = b.cbsOf c := Bay.cbsOf_congr p1 c
      obtain ⟨_, _, q1, q2, ⟨A', q3, q3'⟩, q4, q5⟩ := Bay.propChan_rule c
        (fun b4 j => b4.cbs = b.cbs ∧ b4.muxes = b.muxes ∧ (∃ A, b4.dirty = b.dirty ++ A ∧ ∀ x ∈ A, L ≤ x) ∧
          (∀ x ∈ b'.dirty, x ∈ b4.dirty) ∧
          ∀ j' (mi i : Nat) (m : Mux), j' < j → (b.cbsOf c)[j']? = some (Cb.muxInput mi i) →
            b.muxes[mi]? = some m → m.out ∈ b4.dirty)
        (by
          intro b4 j cb b5 wf4 ⟨r1, r2, ⟨A4, r3, r3'⟩, r4, r5⟩ hcb hrun4 _
          have hcb0 : (b.cbsOf c)[j]? = some cb := by rw [← Bay.cbsOf_congr r1 c]; exact hcb
          obtain ⟨mi, i, rfl⟩ := hin c hcm cb (List.mem_of_getElem? hcb0)
          obtain ⟨m', hm', hmux, _, hdd, _, _, _, hfix⟩ := Bay.runCb_frame wf4 hrun4
          simp only [Cb.mux] at hm'
          have hm0 : b.muxes[mi]? = some m' := r2 ▸ hm'
          have hout : m'.out ∈ b5.dirty := Bay.cbInput_out_dirty wf4 hm' hrun4
          have hmono : ∀ x ∈ b4.dirty, x ∈ b5.dirty := by
            intro x hx
            rcases hdd with e | e <;> rw [e]
            · exact hx
            · simp [hx]
          refine ⟨(hfix ⟨i, rfl⟩).1.trans r1, hmux.trans r2, ?_, fun x hx => hmono x (r4 x hx), ?_⟩
          · rcases hdd with e | e
            · exact ⟨A4, by rw [e, r3], r3'⟩
            · refine ⟨A4 ++ [m'.out], by rw [e, r3, List.append_assoc], ?_⟩
              intro x hx
              rcases List.mem_append.mp hx with hx | hx
              · exact r3' x hx
              · simp only [List.mem_singleton] at hx; subst hx; exact (hl mi m' hm0).2.2.1
          · intro j' mi2 i2 m2 hj' hget hm2
            by_cases hjj : j' = j
            · subst hjj
              rw [hcb0] at hget
              injection hget with hget; injection hget with h1 h2
              subst h1
              rw [hm0] at hm2; cases hm2
              exact hout
            · exact hmono _ (r5 j' mi2 i2 m2 (by omega) hget hm2))
        _ b' 0 b3 wf' ⟨p1, p2, ⟨A, p3, p3'⟩, fun x hx => hx, fun j' _ _ _ hj' => absurd hj' (by omega)⟩
        (Nat.zero_le _) hrun
      refine ⟨q1, q2, ⟨A', q3, q3'⟩, ?_⟩
      intro j s hj hs mi i m hmem hm
      by_cases hjk : j = k
      · subst hjk
        rw [hc] at hs; cases hs
        obtain ⟨j', hj'⟩ := List.mem_iff_getElem?.mp hmem
        have hlt : j' < (b'.cbsOf c).length := by rw [hcbs]; exact (List.getElem?_eq_some_iff.mp hj').1
        exact q5 j' mi i m hlt hj' hm
      · exact q4 _ (p4 j s (by omega) hs mi i m hmem hm)
    · -- an output appended during this phase: no callbacks
      have hcge : L ≤ c := by
        have hmem : c ∈ b'.dirty := List.mem_of_getElem? hk
        rw [p3, List.mem_append] at hmem
        rcases hmem with hm | hm
        · exfalso
          obtain ⟨j, hj⟩ := List.mem_iff_getElem?.mp hm
          have hjl := (List.getElem?_eq_some_iff.mp hj).1
          have : b'.dirty[j]? = some c := by rw [p3, List.getElem?_append_left hjl]; exact hj
          have := (List.getElem?_inj (List.getElem?_eq_some_iff.mp hk).1 wf'.dirtyNodup).mp (hk.trans this.symm)
          omega
        · exact p3' c hm
      have hempty : b'.cbsOf c = [] := by
        cases hcc : b'.cbsOf c with
        | nil => rfl
        | cons cb rest =>
          exfalso
          have hmem : cb ∈ b'.cbsOf c := by rw [hcc]; simp
          cases cb with
          | muxSelect mj =>
            obtain ⟨m2, h1, h2⟩ := wf'.selCbOnly c mj hmem
            have := (hl mj m2 (p2 ▸ h1)).1
            omega
          | muxInput mj i =>
            obtain ⟨m2, h1, h2⟩ := wf'.inCbOnly c mj i hmem
            have := (hl mj m2 (p2 ▸ h1)).2.1 i c h2
            omega
      have : b3 = b' := by
        unfold Bay.propChan at hrun
        simp only [hempty, List.getElem?_nil] at hrun
        cases hrun; rfl
      subst this
      refine ⟨p1, p2, ⟨A, p3, p3'⟩, ?_⟩
      intro j s hj hs
      have hjl := (List.getElem?_eq_some_iff.mp hs).1
      exact p4 j s (by omega) hs
  obtain ⟨_, r1, _, _, r4⟩ := Bay.dirtyPhase_rule P hstep fuel b 0 bP wf
    ⟨rfl, rfl, ⟨[], by simp, fun x hx => (by cases hx)⟩, fun j _ hj => absurd hj (by omega)⟩ (Nat.zero_le _) h
  refine ⟨r1, ?_⟩
  intro s hs mi i m hmem hm
  obtain ⟨j, hj⟩ := List.mem_iff_getElem?.mp hs
  have hjl := (List.getElem?_eq_some_iff.mp hj).1
  have hsub : b.dirty.length ≤ bP.dirty.length := by
    have := Bay.dirtyPhase_rule (fun b2 _ => ∃ ext, b2.dirty = b.dirty ++ ext)
      (by
        intro b2 k c b3 wf2 ⟨ext, he⟩ _ hrun
        obtain ⟨ext2, he2⟩ := Bay.propChan_dirty_prefix wf2 (Nat.zero_le _) hrun
        exact ⟨ext ++ ext2, by rw [he2, he, List.append_assoc]⟩)
      fuel b 0 bP wf ⟨[], by simp⟩ (Nat.zero_le _) h
    obtain ⟨ext, he⟩ := this.2
    rw [he, List.length_append]; omega
  exact r4 j s (by omega) hj mi i m hmem hm

/-- **The CPU track of a written channel of the running thread is on the dirty
    list.**  `b1`: the bay after the writes of an event that writes raw channels
    only (class `P`), `bP`: after the dirty phase.  If CPU `c` runs thread `g`
    (`th_running` = `g` before the event) and the event left channel `i` of model
    `k` of thread `g` dirty, then the output of the CPU's track of `(k, i)` is on
    the dirty list after the dirty phase. -/
theorem Inv.cpuOut_present {P : Src → Prop} {e e' : Emu} {b0 b b1 bP : Bay} (hc : e.shape.connect = .ok b0)
    (hi : Inv b0 e b) (hsh : e'.shape = e.shape)
    (hw : Bay.Writes (e.shape.okP P) b b1) (hm1 : Mirrors e' b1)
    (hph : b1.dirtyPhase b1.chans.length 0 = .ok bP) (hraw : ∀ s, P s → s.isRaw)
    {c g k i : Nat} {ms : ModelSpec} (hcl : c < e.cpus.length) (hk : e.specs[k]? = some ms) (hil : i < ms.nch)
    (hg : g < e.threads.length) {x : Chan} (hrun : e.src (.run c) = some x) (hcur : x.cur = .int (g : Int))
    {ch' : Chan} (hsrc' : e'.src (.raw g k i) = some ch') (hd : ch'.dirty = true) :
    e.shape.cpuOut c k i ∈ bP.dirty := by
  have hb := Shape.connect_built hc
  have hwL : Bay.Writes (· < e.shape.L) b b1 := hw.mono (fun _ h => Shape.okP_lt h)
  obtain ⟨wf1, hcbs1, _, hmx1, _, _⟩ := hwL.inv hi.wf
  have hlay1 : b1.Layered e.shape.L := by
    have := hb.topo.layered
    unfold Bay.Layered at this ⊢; rw [hmx1, hi.muxes]; exact this
  have hdsub : ∀ s ∈ b1.dirty, e.shape.okP P s := by
    intro s hsd
    rcases hw.dirty_sub s hsd with h | h
    · rw [hi.clean.1] at h; cases h
    · exact h
  -- only input callbacks on the written channels
  have hin : ∀ s ∈ b1.dirty, ∀ cb ∈ b1.cbsOf s, ∃ mi i, cb = Cb.muxInput mi i := by
    intro s hsd cb hcb
    cases cb with
    | muxInput mi i => exact ⟨mi, i, rfl⟩
    | muxSelect mj =>
      exfalso
      obtain ⟨m, hm, hsel⟩ := wf1.selCbOnly s mj hcb
      rw [hmx1, hi.muxes] at hm
      obtain ⟨s0, hmem, hP, rfl⟩ := hdsub s hsd
      have hr := hraw s0 hP
      cases hb.isTrack hm with
      | th g' k' i' ms' out hg' hk' hi' _ =>
        have := e.shape.idx_inj ((e.shape.mem_st g').mpr hg') hmem hsel
        subst this; exact hr
      | cpu c' k' i' ms' out hc' hk' hi' =>
        have := e.shape.idx_inj ((e.shape.mem_run c').mpr hc') hmem hsel
        subst this; exact hr
  -- the CPU's track of (k, i)
  have hcl' : c < e.shape.nC := hcl
  have hk' : e.shape.specs[k]? = some ms := hk
  have hg' : g < e.shape.nT := hg
  obtain ⟨mi0, hmi0, _⟩ := hb.cpu_mux hcl' hk' hil
  have hmb : b.muxes[mi0]? = some
      { sel := e.shape.idx (.run c), out := e.shape.cpuOut c k i, kind := .byIndex,
        inputs := (e.shape.rawsOf k i).map some, dflt := ms.cpuDflt i } := by rw [hi.muxes]; exact hmi0
  have hselc : (b.chan (e.shape.idx (.run c))).cur = .int (g : Int) := by
    rw [Bay.chan_of_getElem? (hi.mirrors _ _ hrun)]; exact hcur
  have hinp : ((e.shape.rawsOf k i).map some)[g]? = some (some (e.shape.idx (.raw g k i))) := by
    simp only [Shape.rawsOf, List.map_map, List.getElem?_map, List.getElem?_range hg', Option.map_some,
      Function.comp]
  have hen : Cb.muxInput mi0 g ∈ b.cbsOf (e.shape.idx (.raw g k i)) := by
    rcases hi.sync mi0 _ hmb with hsync | hvir
    · obtain ⟨_, s, hsel, hen, _, _⟩ := hsync
      simp only [hselc] at hsel
      obtain ⟨_, _, hs'⟩ := selectInput_index _ rfl _ _ hsel
      have : s = some g := by rw [hs']; simp
      obtain ⟨c0, hc0, hcb⟩ := (hen g).mpr this
      simp only at hc0
      rw [hinp] at hc0
      injection hc0 with hc0; injection hc0 with hc0
      rw [hc0]; exact hcb
    · exfalso
      obtain ⟨v1, _, _⟩ := hvir
      simp only [hselc] at v1
      cases v1
  have hen1 : Cb.muxInput mi0 g ∈ b1.cbsOf (e.shape.idx (.raw g k i)) := by
    rw [Bay.cbsOf_congr hcbs1]; exact hen
  have hdirty : e.shape.idx (.raw g k i) ∈ b1.dirty := by
    rw [wf1.dirtyIff]
    have := Bay.chan_of_getElem? (hm1 _ _ hsrc')
    rw [hsh] at this
    rw [this]; exact hd
  have hm1' : b1.muxes[mi0]? = some
      { sel := e.shape.idx (.run c), out := e.shape.cpuOut c k i, kind := .byIndex,
        inputs := (e.shape.rawsOf k i).map some, dflt := ms.cpuDflt i } := by rw [hmx1]; exact hmb
  exact (Bay.dirtyPhase_inputOnly wf1 hlay1 hin hph).2 _ hdirty mi0 g _ hen1 hm1'

end Ovni.Emu
