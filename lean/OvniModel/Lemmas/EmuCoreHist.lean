import OvniModel.Lemmas.EmuCoreSpec

/-
  Helper lemmas for C04 / C05, part 5: histories.  `emuStep` is the emulator
  part of `stepEv` (handlers, then flush); every accepted thread or affinity
  event of the ovni model takes a well-formed state to a well-formed state.
-/
set_option linter.unusedSimpArgs false
namespace Ovni.Emu

/-- an event of the ovni model: thread index, category ('H' = 72, 'A' = 65), value, payload -/
abbrev OEv := Nat × Nat × Nat × List Nat

section
variable (th mh : Emu → Nat → Nat → Nat → List Nat → Except Err Emu)

/-- the handlers of one event followed by the flush: the emulator component of `stepEv` -/
def emuStep (e : Emu) (ev : OEv) : Except Err Emu :=
  match modelEvent e ev.1 79 ev.2.1 ev.2.2.1 ev.2.2.2 th mh with
  | .ok e1 => .ok e1.flushAll
  | .error err => .error err

/-- `stepEv` accepts exactly when the handlers accept and the records can be emitted; its
    emulator component is `emuStep` -/
theorem stepEv_ok_iff (e : Emu) (ev : OEv) (e' : Emu) (rs : List PrvRec) :
    stepEv e ev.1 79 ev.2.1 ev.2.2.1 ev.2.2.2 th mh = .ok (e', rs) ↔
      ∃ e1, modelEvent e ev.1 79 ev.2.1 ev.2.2.1 ev.2.2.2 th mh = .ok e1 ∧ records e e1 = .ok rs ∧
        e' = e1.flushAll := by
  unfold stepEv
  cases h1 : modelEvent e ev.1 79 ev.2.1 ev.2.2.1 ev.2.2.2 th mh with
  | error err =>
    constructor
    · intro h; cases h
    · rintro ⟨e1, h, _⟩; cases h
  | ok e1 =>
    simp only [ok_bind]
    cases h2 : records e e1 with
    | error err =>
      constructor
      · intro h; cases h
      · rintro ⟨e1', h, h', _⟩; cases h; rw [h2] at h'; cases h'
    | ok rs' =>
      simp only [ok_bind]
      constructor
      · intro h
        have h' : (e1.flushAll, rs') = (e', rs) := by injection h
        injection h' with ha hb
        exact ⟨e1, rfl, by rw [← hb, h2], ha.symm⟩
      · rintro ⟨e1', h, h', h''⟩
        cases h; rw [h2] at h'; cases h'; rw [h'']; rfl

theorem stepEv_emuStep {e : Emu} {ev : OEv} {e' : Emu} {rs : List PrvRec}
    (h : stepEv e ev.1 79 ev.2.1 ev.2.2.1 ev.2.2.2 th mh = .ok (e', rs)) : emuStep th mh e ev = .ok e' := by
  obtain ⟨e1, h1, _, h3⟩ := (stepEv_ok_iff th mh e ev e' rs).mp h
  unfold emuStep; rw [h1, h3]

/-- thread life-cycle events OH{x,c,p,w,r,e} -/
def IsThreadEv (ev : OEv) : Prop := ev.2.1 = 72 ∧ ev.2.2.1 ∈ [120, 99, 112, 119, 114, 101]
/-- affinity events OAs / OAr -/
def IsAffinityEv (ev : OEv) : Prop := ev.2.1 = 65 ∧ (ev.2.2.1 = 115 ∨ ev.2.2.1 = 114)

theorem verdict_ok {e : Emu} {ti : Nat} {x : Option (ThState × Option Nat)} {r : Except Err Emu} {e1 : Emu}
    (hv : Verdict e ti x r) (hr : r = .ok e1) : ∃ y, x = some y ∧ StepOK e ti y e1.flushAll := by
  cases x with
  | none => obtain ⟨err, he⟩ := hv; rw [he] at hr; cases hr
  | some y => exact ⟨y, rfl, hv.2.1 e1 hr⟩

/-- Every accepted thread or affinity event leads from a well-formed state to a well-formed state
    in which exactly one thread's logical state changed. -/
theorem emuStep_sound {e e' : Emu} (h : WF e) (hen : e.enabled.contains 79 = true) {ev : OEv}
    (hk : IsThreadEv ev ∨ IsAffinityEv ev) (hs : emuStep th mh e ev = .ok e') :
    ∃ tj x, StepOK e tj x e' := by
  obtain ⟨ti, c, v, payload⟩ := ev
  unfold emuStep at hs
  simp only at hs
  cases ht : e.threads[ti]? with
  | none => rw [modelEvent_nothread th mh hen ht] at hs; cases hs
  | some t =>
    cases hm : modelEvent e ti 79 c v payload th mh with
    | error err => rw [hm] at hs; cases hs
    | ok e1 =>
      rw [hm] at hs
      have he' : e' = e1.flushAll := by injection hs with h'; exact h'.symm
      subst he'
      rcases hk with ⟨hc, hv⟩ | ⟨hc, hv⟩
      · simp only at hc hv; subst hc
        rw [modelEvent_OH th mh h hen ht] at hm
        have hx : v = 120 → 4 ≤ payload.length ∧
            loomGetCpu e t.loom (i32At payload 0) =
              some ((loomGetCpu e t.loom (i32At payload 0)).getD 0) := by
          intro hv'; subst hv'
          obtain ⟨h1, ci, h2⟩ := preThreadExecute_ok_inv ht (show preThreadExecute e ti payload = .ok e1 from hm)
          exact ⟨h1, by rw [h2]; rfl⟩
        obtain ⟨y, _, hy⟩ := verdict_ok (preThread_verdict h ht hv hx) hm
        exact ⟨ti, y, hy⟩
      · simp only at hc hv; subst hc
        rcases hv with rfl | rfl
        · rw [modelEvent_OAs th mh h hen ht] at hm
          obtain ⟨h1, ci, h2⟩ := preAffinitySet_ok_inv ht hm
          obtain ⟨y, _, hy⟩ := verdict_ok (preAffinitySet_verdict h ht h1 h2) hm
          exact ⟨ti, y, hy⟩
        · rw [modelEvent_OAr th mh h hen ht] at hm
          obtain ⟨h1, r, ci, h2, h3⟩ := preAffinityRemote_ok_inv ht hm
          by_cases hsame : r.cpu = some ci
          · obtain ⟨err, he⟩ := preAffinityRemote_same_cpu_err h ht h2 h3 hsame
            rw [he] at hm; cases hm
          · obtain ⟨y, _, hy⟩ := verdict_ok (preAffinityRemote_verdict h ht h1 h2 h3 hsame) hm
            exact ⟨r.gindex, y, hy⟩

/-- running a history: fold of `emuStep` -/
def emuRun (e : Emu) : List OEv → Except Err Emu
  | [] => .ok e
  | ev :: rest =>
    match emuStep th mh e ev with
    | .ok e' => emuRun e' rest
    | .error err => .error err

/-- In every state reached by accepted thread and affinity events the invariant holds. -/
theorem emuRun_wf {e : Emu} (h : WF e) (hen : e.enabled.contains 79 = true) :
    ∀ (hist : List OEv) {e' : Emu}, (∀ ev ∈ hist, IsThreadEv ev ∨ IsAffinityEv ev) →
      emuRun th mh e hist = .ok e' → WF e' ∧ SameStatic e e'
  | [], e', _, hr => by
    have : e = e' := by unfold emuRun at hr; injection hr
    subst this; exact ⟨h, SameStatic.refl e⟩
  | ev :: rest, e', hk, hr => by
    unfold emuRun at hr
    cases hs : emuStep th mh e ev with
    | error err => rw [hs] at hr; cases hr
    | ok e2 =>
      rw [hs] at hr
      obtain ⟨tj, x, hso⟩ := emuStep_sound th mh h hen (hk ev List.mem_cons_self) hs
      have hen2 : e2.enabled.contains 79 = true := by rw [hso.static.enabled]; exact hen
      obtain ⟨hw, hst⟩ := emuRun_wf hso.wf hen2 rest (fun ev' h' => hk ev' (List.mem_cons_of_mem _ h')) hr
      exact ⟨hw, hso.static.trans hst⟩
end

/-- counting after one entry of the logical state changed -/
theorem count_set {α} (p : α → Bool) (new : α) :
    ∀ (s : List α) (i : Nat) (old : α), s[i]? = some old →
      ((s.set i new).filter p).length + (if p old then 1 else 0) =
        (s.filter p).length + (if p new then 1 else 0)
  | [], _, _, h => by simp at h
  | x :: xs, 0, old, h => by
    simp at h; subst h
    simp only [List.set_cons_zero, List.filter_cons]
    cases p x <;> cases p new <;> simp
  | x :: xs, i + 1, old, h => by
    simp at h
    have ih := count_set p new xs i old h
    simp only [List.set_cons_succ, List.filter_cons]
    cases p x <;> simp <;> omega

theorem runCount_set {s : LState} {ti : Nat} {old new : ThState × Option Nat} (h : s[ti]? = some old) (g : Nat) :
    runCount (s.set ti new) g + (if (old.1 = .running ∧ old.2 = some g) then 1 else 0) =
      runCount s g + (if (new.1 = .running ∧ new.2 = some g) then 1 else 0) := by
  have := count_set (fun x : ThState × Option Nat => decide (x.1 = .running) && (x.2 == some g)) new s ti old h
  unfold runCount
  simp only [Bool.and_eq_true, decide_eq_true_eq, beq_iff_eq] at this
  exact this

end Ovni.Emu
