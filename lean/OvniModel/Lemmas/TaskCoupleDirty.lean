import OvniModel.Lemmas.TaskCouple
import OvniModel.Lemmas.CoreBayPresence

/-
  C20 / C06: after an accepted task-state event in a coupled state, the real
  subsystem channel (events `x`, `e`) and the real task-type channel (all four)
  of the thread are DIRTY — `chan_push` / `chan_pop` always dirty the channel,
  and the task type has `CHAN_ALLOW_DUP` in both models.
-/
set_option linter.unusedSimpArgs false
namespace Ovni.Emu
open Ovni.Generated Ovni.Task

theorem StackIs.push_dirty {c c' : Chan} {dup : Bool} {st : List Int} (h : StackIs c dup st) {n : Nat} {v : Value}
    (hp : c.push n v = .ok c') : c'.dirty = true := by
  unfold Chan.push at hp
  simp only [h.isSt, h.clean, h.ign, Bool.not_true, Bool.false_eq_true, if_false, Bool.false_and] at hp
  repeat' split at hp
  all_goals first | (cases hp; done) | skip
  injection hp with hp; subst hp; rfl

theorem StackIs.pop_dirty {c c' : Chan} {dup : Bool} {st : List Int} (h : StackIs c dup st) {v : Value}
    (hp : c.pop v = .ok c') : c'.dirty = true := by
  unfold Chan.pop at hp
  simp only [h.isSt, h.clean, Bool.not_true, Bool.false_eq_true, if_false, Bool.false_and] at hp
  repeat' split at hp
  all_goals first | (cases hp; done) | skip
  injection hp with hp; subst hp; rfl

/-- the task type has `CHAN_ALLOW_DUP` in nOS-V and in Nanos6 -/
theorem typ_field (tm : Model) : ((taskIdx tm).typ, true, Chans.typ) ∈ taskFields tm := by
  cases tm <;> simp [taskFields, taskIdx, TaskChanIdx.nosv, TaskChanIdx.nanos6] <;> decide

theorem typ_written (m : Model) (P : ProcInfo) (vals : Option (Int × Int × Int)) :
    ∃ v, TaskWr.set (taskIdx m).typ v ∈ taskSets (taskIdx m) P vals := by
  cases m <;> cases vals <;> simp [taskSets, taskIdx, TaskChanIdx.nosv, TaskChanIdx.nanos6]

/-- **After an accepted task-state event the written channels are dirty.** -/
theorem taskHook_task_dirty {tm : Model} {P : ProcInfo} {ε : Ovni.Task.Emu} {e e' : Emu} {ti a k t bp : Nat}
    {tv : TaskEv} {p : List Nat} (hs : Shaped e) (hk : e.specs[k]? = some (specOf tm)) (hcp : Coupled tm k e ε)
    (hti : ti < e.threads.length)
    (h : taskHook tm P ε (.task ti tv t bp) e ti (specOf tm).char a p = .ok e') :
    (∃ ch, e'.src (.raw ti k (taskIdx tm).typ) = some ch ∧ ch.dirty = true) ∧
    ((tv = .x ∨ tv = .e) → ∃ ch, e'.src (.raw ti k (taskIdx tm).ss) = some ch ∧ ch.dirty = true) := by
  unfold taskHook at h
  simp only at h
  cases hst : Ovni.Task.Emu.step tm P ε (.task ti tv t bp) with
  | error x => simp only [hst] at h; cases h
  | ok ε' =>
    simp only [hst, ne_eq, not_true_eq_false, if_false] at h
    split at h
    · cases h
    · rename_i sys' hsys
      simp only [Ovni.Task.Emu.step] at hst
      obtain ⟨σ', ss', ch', h1, _, h3, _, _⟩ := Ovni.Task.updateTask_ok.mp hst
      rw [hsys] at h1; cases h1
      have hnd := taskWrites_nodup tm P tv
        (expand tv (ε.sys.runningT ti).isSome (sys'.runningT ti).isSome) (sys'.runningT ti)
      rw [taskWrites_eq] at h hnd
      obtain ⟨_, _, hw, _⟩ := applyWrites_src _ hs hk rfl hnd h
      obtain ⟨vals, hsp, _⟩ := updateChannels_res h3
      constructor
      · obtain ⟨v, hv⟩ := typ_written tm P vals
        obtain ⟨c0, c1, q1, q2, q3⟩ := hw _ (List.mem_append_right _ (hsp ▸ hv))
        simp only [TaskWr.chan] at q1 q3
        obtain ⟨c, b1, b2⟩ := hcp.single ti hti _ (typ_field tm)
        simp only at b1
        rw [q1] at b1; cases b1
        simp only [wrOp] at q2
        exact ⟨c1, q3, Chan.set_dirty_of_dup b2.dup q2⟩
      · intro htv
        obtain ⟨c, b1, b2⟩ := hcp.ss ti hti
        rcases htv with rfl | rfl
        · obtain ⟨c0, c1, q1, q2, q3⟩ := hw (TaskWr.push (taskIdx tm).ss (.int tm.cfg.stTaskBody)) (by simp [ssPart])
          simp only [TaskWr.chan] at q1 q3
          rw [q1] at b1; cases b1
          simp only [wrOp] at q2
          exact ⟨c1, q3, b2.push_dirty q2⟩
        · obtain ⟨c0, c1, q1, q2, q3⟩ := hw (TaskWr.pop (taskIdx tm).ss (.int tm.cfg.stTaskBody)) (by simp [ssPart])
          simp only [TaskWr.chan] at q1 q3
          rw [q1] at b1; cases b1
          simp only [wrOp] at q2
          exact ⟨c1, q3, b2.pop_dirty q2⟩

end Ovni.Emu
