import OvniModel.Lemmas.BayMux
import OvniModel.Lemmas.BayTotal

/-
  C06, bay-level lemmas used by the emulator / bay simulation (`CoreBay`):
  composition of write sequences, what `bay_propagate` does to a channel that
  is not a mux output (it is exactly `chan_flush`ed), preservation of `Safe`,
  and the frame of a mux none of whose callbacks can run ("idle" mux).
-/
namespace Ovni.Emu

theorem Bay.Writes.trans {ok : Nat → Prop} {b b1 b2 : Bay} (h1 : Bay.Writes ok b b1)
    (h2 : Bay.Writes ok b1 b2) : Bay.Writes ok b b2 := by
  induction h2 with
  | nil => exact h1
  | snoc _ hok hf hw ih => exact .snoc ih hok hf hw

theorem Bay.Writes.length {ok : Nat → Prop} {b b1 : Bay} (h : Bay.Writes ok b b1) :
    b1.chans.length = b.chans.length := by
  induction h with
  | nil => rfl
  | snoc _ _ _ hw ih => rw [Bay.write_length hw]; exact ih

theorem Chan.ext' {a b : Chan} (h1 : a.isStack = b.isStack) (h2 : a.vals = b.vals)
    (h3 : a.last = b.last) (h4 : a.dirty = b.dirty) (h5 : a.allowDup = b.allowDup)
    (h6 : a.ignoreDup = b.ignoreDup) (h7 : a.dirtyWrite = b.dirtyWrite) : a = b := by
  cases a; cases b; simp_all

theorem Chan.flush_cur (c : Chan) : c.flush.cur = c.cur := by
  unfold Chan.flush; split <;> rfl

theorem Chan.flush_of_clean {c : Chan} (h : c.dirty = false) : c.flush = c := by
  unfold Chan.flush; simp [h]

theorem Chan.flush_dirty (c : Chan) : c.flush.dirty = false := by
  unfold Chan.flush; split
  · rfl
  · rename_i h; simpa using h

theorem Bay.chan_of_getElem? {b : Bay} {c : Nat} {ch : Chan} (h : b.chans[c]? = some ch) : b.chan c = ch :=
  getD_of_getElem? _ h

theorem Bay.getElem?_chan {b : Bay} {c : Nat} (h : c < b.chans.length) : b.chans[c]? = some (b.chan c) := by
  simp [Bay.chan, List.getD_eq_getElem?_getD, List.getElem?_eq_getElem h]

/-- The dirty phase keeps the number of channels. -/
theorem Bay.dirtyPhase_length {b b1 : Bay} (wf : b.WF) {fuel : Nat} (h : b.dirtyPhase fuel 0 = .ok b1) :
    b1.WF ∧ b1.chans.length = b.chans.length :=
  Bay.dirtyPhase_rule (fun b2 _ => b2.chans.length = b.chans.length)
    (fun _ _ _ _ wf2 hp _ hrun => (Bay.propChan_wf wf2 (Nat.zero_le _) hrun).2.trans hp)
    fuel b 0 b1 wf rfl (Nat.zero_le _) h

theorem Bay.propagate_length {b bF : Bay} {em : List (Nat × Value)} (wf : b.WF)
    (h : b.propagate = .ok (bF, em)) : bF.chans.length = b.chans.length := by
  obtain ⟨b1, b2, h1, h2, rfl, _⟩ := Bay.propagate_ok h
  obtain ⟨_, hl⟩ := Bay.dirtyPhase_length wf h1
  obtain ⟨_, _, _, _, _, _, h7, _⟩ := Bay.flushList_eff _ _ _ h2
  exact h7.trans hl

/-- `bay_propagate` on a channel that is no mux's output: `chan_flush`, nothing else. -/
theorem Bay.propagate_src {b bF : Bay} {em : List (Nat × Value)} (wf : b.WF)
    (h : b.propagate = .ok (bF, em)) (c : Nat)
    (hc : ∀ (mj : Nat) (m' : Mux), b.muxes[mj]? = some m' → m'.out ≠ c) :
    bF.chan c = (b.chan c).flush := by
  obtain ⟨b1, b2, h1, h2, rfl, _⟩ := Bay.propagate_ok h
  obtain ⟨wf1, _⟩ := Bay.dirtyPhase_length wf h1
  have hraw : b1.chan c = b.chan c := (Bay.dirtyPhase_raw wf h1).2 c hc
  obtain ⟨_, hclean, _⟩ := Bay.flush_result wf1 h2
  obtain ⟨_, _, _, _, _, _, _, h8⟩ := Bay.flushList_eff _ _ _ h2
  obtain ⟨g1, g2, g3, g4, g5, _, g7, g8⟩ := h8 c
  show b2.chan c = _
  rw [← hraw]
  by_cases hmem : c ∈ b1.dirty
  · have hd : (b1.chan c).dirty = true := (wf1.dirtyIff c).mp hmem
    have hfl : (b1.chan c).flush = { b1.chan c with last := (b1.chan c).cur, dirty := false } := by
      simp [Chan.flush, hd]
    rw [hfl]
    exact Chan.ext' g3 g1 (g8 hmem) (hclean.2 c) g2 g5 g4
  · have hd : (b1.chan c).dirty = false := by
      cases hx : (b1.chan c).dirty
      · rfl
      · exact absurd ((wf1.dirtyIff c).mpr hx) hmem
    rw [g7 hmem, Chan.flush_of_clean hd]

/-- `bay_propagate` succeeds from a safe state and ends in a safe state. -/
theorem Bay.propagate_safe {b : Bay} (wf : b.WF) (sf : b.Safe) :
    ∃ bF em, b.propagate = .ok (bF, em) ∧ bF.Safe := by
  obtain ⟨b1, h1, wf1, sf1⟩ := Bay.dirtyPhase_total b.chans.length b 0 wf sf (by omega)
  obtain ⟨b2, h2⟩ := Bay.flushList_total b1.dirty b1 wf1.dirtyNodup
    (fun c hc => ⟨wf1.dirty_lt hc, (wf1.dirtyIff c).mp hc⟩)
  refine ⟨{ b2 with dirty := [] }, b1.emitPhase, by unfold Bay.propagate; simp only [h1, h2], ?_⟩
  obtain ⟨_, h2m, h3, _, _, _, _, h8⟩ := Bay.flushList_eff _ _ _ h2
  have hcur : ∀ c, (b2.chan c).cur = (b1.chan c).cur := by
    intro c; simp [Chan.cur, (h8 c).1]
  constructor
  · intro mi m i hm; exact sf1.inSet mi m i (h2m ▸ hm)
  · intro mi m j hm hj
    exact sf1.selRange mi m j (h2m ▸ hm) (by simpa [Bay.selOf, h3] using hj)
  · intro mi m hm
    show (b2.chan m.out).isStack = false ∧ (b2.chan m.out).dirtyWrite = true
    rw [(h8 m.out).2.2.1, (h8 m.out).2.2.2.1]; exact sf1.outOk mi m (h2m ▸ hm)
  · intro mi m hm
    show ∃ s, m.selectInput (b2.chan m.sel).cur = .ok s
    rw [hcur]; exact sf1.selOk mi m (h2m ▸ hm)
  · intro mi m mj m' hm hm'; exact sf1.selRaw mi m mj m' (h2m ▸ hm) (h2m ▸ hm')

/-- After the writes of an event (to channels that are no mux's output) the
    state is safe again as soon as every select function is defined on the new
    select values. -/
theorem Bay.Writes.safe {ok : Nat → Prop} {b b1 : Bay} (wf : b.WF) (sf : b.Safe)
    (h : Bay.Writes ok b b1)
    (hok : ∀ c, ok c → ∀ (mj : Nat) (m' : Mux), b.muxes[mj]? = some m' → m'.out ≠ c)
    (hsel : ∀ (mi : Nat) (m : Mux), b.muxes[mi]? = some m →
      ∃ s, m.selectInput (b1.chan m.sel).cur = .ok s) : b1.Safe := by
  obtain ⟨_, _, h2, h3, h4, _⟩ := h.inv wf
  constructor
  · intro mi m i hm; exact sf.inSet mi m i (h3 ▸ hm)
  · intro mi m j hm hj; rw [Bay.selOf_congr h2] at hj; exact sf.selRange mi m j (h3 ▸ hm) hj
  · intro mi m hm
    have hm0 : b.muxes[mi]? = some m := h3 ▸ hm
    rw [h4 m.out (fun ho => hok _ ho mi m hm0 rfl)]; exact sf.outOk mi m hm0
  · intro mi m hm; exact hsel mi m (h3 ▸ hm)
  · intro mi m mj m' hm hm'; exact sf.selRaw mi m mj m' (h3 ▸ hm) (h3 ▸ hm')

/-- `bay_propagate` never changes the callback list of a channel that is no
    mux's input (only `cb_input` callbacks are enabled / disabled). -/
theorem Bay.propagate_cbs_noninput {b bF : Bay} {em : List (Nat × Value)} (wf : b.WF)
    (h : b.propagate = .ok (bF, em)) (s : Nat)
    (hs : ∀ (mi : Nat) (m : Mux) (i : Nat), b.muxes[mi]? = some m → m.inputs[i]? ≠ some (some s)) :
    bF.cbsOf s = b.cbsOf s := by
  obtain ⟨b1, b2, h1, h2, rfl, _⟩ := Bay.propagate_ok h
  let P : Bay → Nat → Prop := fun b' _ => b'.muxes = b.muxes ∧ b'.cbsOf s = b.cbsOf s
  have hstep : ∀ (b2 : Bay) (k c : Nat) (b3 : Bay), b2.WF → P b2 k → b2.dirty[k]? = some c →
      b2.propChan (b2.chanFuel c) c 0 = .ok b3 → P b3 (k + 1) := by
    intro b2 k c b3 wf2 hp _ hrun
    exact (Bay.propChan_rule c (fun b4 _ => P b4 0)
      (by
        intro b4 j cb b5 wf4 ⟨q1, q2⟩ _ hrun4 _
        obtain ⟨m', hm', hmux, _, _, _, _, hfix, _⟩ := Bay.runCb_frame wf4 hrun4
        refine ⟨hmux.trans q1, ?_⟩
        rw [hfix s (fun i => hs _ m' i (q1 ▸ hm')), q2])
      _ b2 0 b3 wf2 hp (Nat.zero_le _) hrun).2.2
  obtain ⟨wf1, _, p2⟩ := Bay.dirtyPhase_rule P hstep _ b 0 b1 wf ⟨rfl, rfl⟩ (Nat.zero_le _) h1
  obtain ⟨_, _, _, hcbs, _, _⟩ := Bay.flush_result wf1 h2
  rw [hcbs]; exact p2

/-! ### a mux none of whose callbacks can run -/

/-- Mux `mi` is idle: its select channel is not dirty and none of its input
    callbacks is enabled.  (State of a CPU track before the CPU's `th_running`
    is written for the first time.) -/
def Bay.Idle (b : Bay) (mi : Nat) (m : Mux) : Prop :=
  (b.chan m.sel).dirty = false ∧ ∀ (c i : Nat), Cb.muxInput mi i ∉ b.cbsOf c

/-- An idle mux is not touched by `bay_propagate`: output value, `selected`
    and callbacks stay as they are. -/
theorem Bay.propagate_idle {b bF : Bay} {em : List (Nat × Value)} {mi : Nat} {m : Mux} (wf : b.WF)
    (hm : b.muxes[mi]? = some m) (hfr : b.Frame mi m) (hidle : b.Idle mi m)
    (h : b.propagate = .ok (bF, em)) :
    (bF.chan m.out).cur = (b.chan m.out).cur ∧ bF.selOf mi = b.selOf mi ∧
    (∀ (c i : Nat), Cb.muxInput mi i ∉ bF.cbsOf c) := by
  obtain ⟨b1, b2, h1, h2, rfl, _⟩ := Bay.propagate_ok h
  let P : Bay → Nat → Prop := fun b' _ =>
    b'.muxes[mi]? = some m ∧ b'.Frame mi m ∧ m.sel ∉ b'.dirty ∧
    (∀ (c i : Nat), Cb.muxInput mi i ∉ b'.cbsOf c) ∧
    (b'.chan m.out).cur = (b.chan m.out).cur ∧ b'.selOf mi = b.selOf mi
  have hstep : ∀ (b2 : Bay) (k c : Nat) (b3 : Bay), b2.WF → P b2 k → b2.dirty[k]? = some c →
      b2.propChan (b2.chanFuel c) c 0 = .ok b3 → P b3 (k + 1) := by
    intro b2 k c b3 wf2 hp hk hrun
    have hcm : c ∈ b2.dirty := List.mem_of_getElem? hk
    exact (Bay.propChan_rule c (fun b4 _ => P b4 0 ∧ c ∈ b4.dirty)
      (by
        intro b4 j cb b5 wf4 ⟨⟨q1, q2, q3, q4, q5, q6⟩, hc4⟩ hcb hrun4 _
        have hmem : cb ∈ b4.cbsOf c := List.mem_of_getElem? hcb
        have hne : cb.mux ≠ mi := by
          cases cb with
          | muxSelect mj =>
            intro e; simp only [Cb.mux] at e; subst e
            obtain ⟨m0, hm0, hs0⟩ := wf4.selCbOnly c mj hmem
            rw [q1] at hm0; cases hm0
            exact q3 (hs0 ▸ hc4)
          | muxInput mj i =>
            intro e; simp only [Cb.mux] at e; subst e
            exact q4 c i hmem
        have v := Bay.runCb_other wf4 q2 hne hrun4
        obtain ⟨m', hm', hmux, _, hd, _⟩ := Bay.runCb_frame wf4 hrun4
        have hsub : ∀ x, x ∈ b5.dirty → x ∈ b4.dirty ∨ x = m'.out := by
          intro x hx
          rcases hd with hd | hd
          · rw [hd] at hx; exact Or.inl hx
          · rw [hd] at hx; simpa using hx
        have hsup : ∀ x, x ∈ b4.dirty → x ∈ b5.dirty := by
          intro x hx
          rcases hd with hd | hd <;> rw [hd]
          · exact hx
          · simp [hx]
        refine ⟨⟨by rw [hmux]; exact q1, q2.congr hmux, ?_, ?_, by rw [v.out]; exact q5,
          by rw [v.selOf]; exact q6⟩, hsup c hc4⟩
        · intro hx
          rcases hsub _ hx with hx | hx
          · exact q3 hx
          · exact (q2 cb.mux m' hm').1 hx.symm
        · intro c' i hx; exact q4 c' i ((v.en i c').mp hx))
      _ b2 0 b3 wf2 ⟨hp, hcm⟩ (Nat.zero_le _) hrun).2.2.1
  have hsel0 : m.sel ∉ b.dirty := by
    intro hx; have := (wf.dirtyIff _).mp hx; rw [hidle.1] at this; cases this
  obtain ⟨wf1, _, _, _, p4, p5, p6⟩ := Bay.dirtyPhase_rule P hstep _ b 0 b1 wf
    ⟨hm, hfr, hsel0, hidle.2, rfl, rfl⟩ (Nat.zero_le _) h1
  obtain ⟨_, _, hcur, hcbs, hselOf, _⟩ := Bay.flush_result wf1 h2
  refine ⟨by rw [hcur]; exact p5, by rw [hselOf]; exact p6, ?_⟩
  intro c i; rw [hcbs]; exact p4 c i

end Ovni.Emu
