import OvniModel.Json

/-! Basic facts about the parson model: `Res`, white space, the suffix
    property of every parser function, and sufficiency of the fuel. -/
namespace Ovni.Json

theorem Res.bind_eq_ok {α β : Type} {x : Res α} {g : α → Res β} {b : β} :
    x.bind g = .ok b ↔ ∃ a, x = .ok a ∧ g a = .ok b := by
  cases x <;> simp [Res.bind]

theorem Res.bind_ok {α β : Type} (a : α) (g : α → Res β) : (Res.ok a).bind g = g a := rfl

theorem Res.bind_ne_oof {α β : Type} {x : Res α} {g : α → Res β}
    (hx : x ≠ .oof) (hg : ∀ a, x = .ok a → g a ≠ .oof) : x.bind g ≠ .oof := by
  cases x with
  | ok a => exact hg a rfl
  | fail => simp [Res.bind]
  | unsup => simp [Res.bind]
  | oof => exact absurd rfl hx

/-! ### lists -/

theorem mem_takeWhile {p : Nat → Bool} : ∀ {l : List Nat} {x : Nat}, x ∈ l.takeWhile p → p x = true
  | [], _, h => by simp at h
  | a :: l, x, h => by
    by_cases ha : p a = true
    · rw [List.takeWhile_cons_of_pos ha] at h
      rcases List.mem_cons.1 h with rfl | h
      · exact ha
      · exact mem_takeWhile h
    · rw [List.takeWhile_cons_of_neg ha] at h
      simp at h

/-- if `l₁` holds an element failing `p`, `takeWhile`/`dropWhile` never reach `l₂` -/
theorem takeWhile_append_of_exists {p : Nat → Bool} :
    ∀ {l₁ : List Nat} (l₂ : List Nat), (∃ x ∈ l₁, p x = false) → (l₁ ++ l₂).takeWhile p = l₁.takeWhile p
  | [], _, h => by simp at h
  | a :: l₁, l₂, h => by
    by_cases ha : p a = true
    · rw [List.cons_append, List.takeWhile_cons_of_pos ha, List.takeWhile_cons_of_pos ha]
      congr 1
      apply takeWhile_append_of_exists
      obtain ⟨x, hx, hpx⟩ := h
      rcases List.mem_cons.1 hx with rfl | hx
      · rw [ha] at hpx; cases hpx
      · exact ⟨x, hx, hpx⟩
    · rw [List.cons_append, List.takeWhile_cons_of_neg ha, List.takeWhile_cons_of_neg ha]

theorem dropWhile_append_of_exists {p : Nat → Bool} :
    ∀ {l₁ : List Nat} (l₂ : List Nat), (∃ x ∈ l₁, p x = false) → (l₁ ++ l₂).dropWhile p = l₁.dropWhile p ++ l₂
  | [], _, h => by simp at h
  | a :: l₁, l₂, h => by
    by_cases ha : p a = true
    · rw [List.cons_append, List.dropWhile_cons_of_pos ha, List.dropWhile_cons_of_pos ha]
      apply dropWhile_append_of_exists
      obtain ⟨x, hx, hpx⟩ := h
      rcases List.mem_cons.1 hx with rfl | hx
      · rw [ha] at hpx; cases hpx
      · exact ⟨x, hx, hpx⟩
    · rw [List.cons_append, List.dropWhile_cons_of_neg ha, List.dropWhile_cons_of_neg ha, List.cons_append]

/-! ### white space -/

theorem skipWs_suffix (s : List Nat) : skipWs s <:+ s := List.dropWhile_suffix _

theorem skipWs_length_le (s : List Nat) : (skipWs s).length ≤ s.length := (skipWs_suffix s).length_le

theorem skipWs_cons_of_not_space {c : Nat} {r : List Nat} (h : isSpace c = false) : skipWs (c :: r) = c :: r := by
  simp [skipWs, h]

theorem skipWs_head_not_space {s : List Nat} {c : Nat} {r : List Nat} (h : skipWs s = c :: r) : isSpace c = false := by
  have := List.head?_dropWhile_not isSpace s
  unfold skipWs at h
  rw [h] at this
  simpa using this

/-- `skipWs s = c :: r` splits `s` into white space and the rest. -/
theorem skipWs_eq_cons {s : List Nat} {c : Nat} {r : List Nat} (h : skipWs s = c :: r) :
    ∃ w, s = w ++ c :: r ∧ (∀ x ∈ w, isSpace x = true) := by
  refine ⟨s.takeWhile isSpace, ?_, ?_⟩
  · have := @List.takeWhile_append_dropWhile _ isSpace s
    unfold skipWs at h
    rw [h] at this
    exact this.symm
  · intro x hx
    exact mem_takeWhile hx

theorem skipWs_append_of_space {w : List Nat} (hw : ∀ x ∈ w, isSpace x = true) (t : List Nat) :
    skipWs (w ++ t) = skipWs t := by
  unfold skipWs
  exact List.dropWhile_append_of_pos hw

theorem skipWs_ws_cons {w : List Nat} (hw : ∀ x ∈ w, isSpace x = true) {d : Nat} (hd : isSpace d = false)
    (t : List Nat) : skipWs (w ++ d :: t) = d :: t := by
  rw [skipWs_append_of_space hw, skipWs_cons_of_not_space hd]

theorem skipWs_idem (s : List Nat) : skipWs (skipWs s) = skipWs s := by
  cases h : skipWs s with
  | nil => rfl
  | cons c r => exact skipWs_cons_of_not_space (skipWs_head_not_space h)

/-! ### strings -/

def sqMap (pre : List Nat) : Option (List Nat × List Nat) → Option (List Nat × List Nat)
  | none => none
  | some (i, t) => some (pre ++ i, t)

theorem skipQuotes_quote (r : List Nat) : skipQuotes (34 :: r) = some ([], r) := by
  rw [skipQuotes.eq_def]; simp

theorem skipQuotes_bs (d : Nat) (r : List Nat) : skipQuotes (92 :: d :: r) = sqMap [92, d] (skipQuotes r) := by
  rw [skipQuotes.eq_def]; simp only [sqMap]
  cases skipQuotes r <;> simp

theorem skipQuotes_bs_nil : skipQuotes [92] = none := by
  rw [skipQuotes.eq_def]; simp

theorem skipQuotes_other {c : Nat} (r : List Nat) (h1 : c ≠ 34) (h2 : c ≠ 92) :
    skipQuotes (c :: r) = sqMap [c] (skipQuotes r) := by
  rw [skipQuotes.eq_def]; simp only [sqMap, h1, h2, if_false]
  cases skipQuotes r <;> simp

theorem sqMap_eq_some {pre : List Nat} {o : Option (List Nat × List Nat)} {raw r : List Nat}
    (h : sqMap pre o = some (raw, r)) : ∃ i, o = some (i, r) ∧ raw = pre ++ i := by
  cases o with
  | none => simp [sqMap] at h
  | some p => obtain ⟨i, t⟩ := p; simp [sqMap] at h; exact ⟨i, by rw [h.2], h.1.symm⟩

theorem skipQuotes_split : ∀ (s : List Nat) {raw r : List Nat}, skipQuotes s = some (raw, r) →
    s = raw ++ 34 :: r ∧ ∀ r', skipQuotes (raw ++ 34 :: r') = some (raw, r') := by
  intro s
  induction s using skipQuotes.induct with
  | case1 => intro raw r h; simp [skipQuotes] at h
  | case2 r =>
    intro raw r' h
    rw [skipQuotes_quote] at h
    simp only [Option.some.injEq, Prod.mk.injEq] at h
    obtain ⟨rfl, rfl⟩ := h
    exact ⟨rfl, fun r' => skipQuotes_quote r'⟩
  | case3 _ =>
    intro raw r h
    rw [skipQuotes_bs_nil] at h; cases h
  | case4 c r hnone _ _ =>
    intro raw r' h
    rw [skipQuotes_bs, hnone] at h; cases h
  | case5 c r i t hsome _ ih =>
    intro raw r' h
    rw [skipQuotes_bs] at h
    obtain ⟨i', hi, rfl⟩ := sqMap_eq_some h
    obtain ⟨h1, h2⟩ := ih hi
    refine ⟨by rw [h1]; rfl, fun r' => ?_⟩
    show skipQuotes (92 :: c :: (i' ++ 34 :: r')) = _
    rw [skipQuotes_bs, h2 r']; rfl
  | case6 c r hc1 hc2 hnone _ =>
    intro raw r' h
    rw [skipQuotes_other r hc1 hc2, hnone] at h; cases h
  | case7 c r hc1 hc2 i t hsome ih =>
    intro raw r' h
    rw [skipQuotes_other r hc1 hc2] at h
    obtain ⟨i', hi, rfl⟩ := sqMap_eq_some h
    obtain ⟨h1, h2⟩ := ih hi
    refine ⟨by rw [h1]; rfl, fun r' => ?_⟩
    show skipQuotes (c :: (i' ++ 34 :: r')) = _
    rw [skipQuotes_other _ hc1 hc2, h2 r']; rfl

theorem quotedString_split {s str r : List Nat} (h : quotedString s = some (str, r)) :
    ∃ c, s = 34 :: c ++ r ∧ ∀ r', quotedString (34 :: c ++ r') = some (str, r') := by
  cases s with
  | nil => simp [quotedString] at h
  | cons q t =>
    simp only [quotedString] at h
    by_cases hq : q = 34
    · subst hq
      simp only [if_true] at h
      cases hsq : skipQuotes t with
      | none => simp [hsq] at h
      | some p =>
        obtain ⟨raw, rest⟩ := p
        simp only [hsq] at h
        cases hps : processString raw with
        | none => simp [hps] at h
        | some str' =>
          simp only [hps, Option.some.injEq, Prod.mk.injEq] at h
          obtain ⟨rfl, rfl⟩ := h
          obtain ⟨h1, h2⟩ := skipQuotes_split t hsq
          refine ⟨raw ++ [34], by rw [h1]; simp, fun r' => ?_⟩
          have : 34 :: (raw ++ [34]) ++ r' = 34 :: (raw ++ 34 :: r') := by simp
          rw [this]
          simp only [quotedString, if_true, h2 r', hps]
    · simp [hq] at h


/-! ### numbers -/

theorem exponent_suffix (t : List Nat) : (exponent t).2 <:+ t := by
  unfold exponent
  split
  · rename_i e r
    split
    · split
      · rename_i s r'
        split
        · split
          · exact List.suffix_refl _
          · exact ((List.dropWhile_suffix _).trans (List.suffix_cons _ _)).trans (List.suffix_cons _ _)
        · split
          · exact List.suffix_refl _
          · exact (List.dropWhile_suffix _).trans (List.suffix_cons _ _)
      · exact List.suffix_refl _
    · exact List.suffix_refl _
  · exact List.suffix_refl _

theorem scanMantissa_suffix (t : List Nat) : (scanMantissa t).2.2 <:+ t := by
  unfold scanMantissa
  split
  · rename_i d u hd
    split
    · refine (List.dropWhile_suffix _).trans ?_
      refine List.IsSuffix.trans ?_ (List.dropWhile_suffix isDigit)
      rw [hd]; exact List.suffix_cons _ _
    · rw [← hd]; exact List.dropWhile_suffix _
  · exact List.nil_suffix

theorem numBody_rest {neg : Bool} {s t : List Nat} {v : Json} {r : List Nat}
    (h : numBody neg s t = .ok (v, r)) : r = s ∨ r = (exponent (scanMantissa t).2.2).2 := by
  unfold numBody at h
  split at h
  · cases h
  · split at h
    · cases h
    · split at h
      rename_i ip fp t2 hsm
      split at h
      · simp only [Res.ok.injEq, Prod.mk.injEq] at h; exact Or.inl h.2.symm
      · split at h
        rename_i ex t3 hex
        split at h
        · cases h
        · split at h
          · simp only [Res.ok.injEq, Prod.mk.injEq] at h
            right
            rw [hsm]; simp only; rw [hex]; exact h.2.symm
          · simp only [Res.ok.injEq, Prod.mk.injEq] at h
            right
            rw [hsm]; simp only; rw [hex]; exact h.2.symm

theorem numBody_suffix {neg : Bool} {s t : List Nat} {v : Json} {r : List Nat}
    (ht : t <:+ s) (h : numBody neg s t = .ok (v, r)) : r <:+ s := by
  rcases numBody_rest h with rfl | rfl
  · exact List.suffix_refl _
  · exact ((exponent_suffix _).trans (scanMantissa_suffix _)).trans ht

theorem numCore_suffix {s : List Nat} {v : Json} {r : List Nat} (h : numCore s = .ok (v, r)) : r <:+ s := by
  unfold numCore at h
  split at h
  · exact numBody_suffix (List.suffix_refl _) h
  · split at h
    · exact numBody_suffix (List.suffix_cons _ _) h
    · exact numBody_suffix (List.suffix_refl _) h

theorem parseNumber_suffix {s : List Nat} {v : Json} {r : List Nat} (h : parseNumber s = .ok (v, r)) : r <:+ s := by
  unfold parseNumber at h
  obtain ⟨⟨v', r'⟩, h1, h2⟩ := Res.bind_eq_ok.1 h
  simp only [Res.ok.injEq, Prod.mk.injEq] at h2
  rw [← h2.2]
  obtain ⟨c, hc⟩ := numCore_suffix h1
  refine ⟨c, ?_⟩
  rw [← List.append_assoc, hc, List.takeWhile_append_dropWhile]


theorem parseNumber_ext {s : List Nat} {v : Json} {d : Nat} {x : List Nat}
    (h : parseNumber s = .ok (v, d :: x)) (hd : isStop d = true) :
    ∃ c, s = c ++ d :: x ∧ ∀ x', parseNumber (c ++ d :: x') = .ok (v, d :: x') := by
  unfold parseNumber at h
  obtain ⟨⟨v', r'⟩, h1, h2⟩ := Res.bind_eq_ok.1 h
  simp only [Res.ok.injEq, Prod.mk.injEq] at h2
  obtain ⟨rfl, h2⟩ := h2
  have hall : ∀ y ∈ s.takeWhile notStop, notStop y = true := fun y hy => mem_takeWhile hy
  have hr' : r' = [] := by
    cases r' with
    | nil => rfl
    | cons a r'' =>
      exfalso
      simp only [List.cons_append, List.cons.injEq] at h2
      have ha : a ∈ s.takeWhile notStop := (numCore_suffix h1).subset (List.mem_cons_self ..)
      have := hall a ha
      rw [h2.1] at this
      simp [notStop, hd] at this
  subst hr'
  simp only [List.nil_append] at h2
  refine ⟨s.takeWhile notStop, ?_, fun x' => ?_⟩
  · rw [← h2, List.takeWhile_append_dropWhile]
  · unfold parseNumber
    have hnd : ¬ (notStop d = true) := by simp [notStop, hd]
    rw [List.takeWhile_append_of_pos hall, List.takeWhile_cons_of_neg hnd, List.append_nil,
      List.dropWhile_append_of_pos hall, List.dropWhile_cons_of_neg hnd, h1]
    rfl


/-! ### scalars -/

/-- values whose parse does not look at what follows them -/
def closed : Json → Bool
  | .number _ _ => false
  | .numberX _ => false
  | _ => true

/-- both texts start with the same stop character -/
def StopHead (r r' : List Nat) : Prop := ∃ d x x', isStop d = true ∧ r = d :: x ∧ r' = d :: x'

theorem isPrefixOf_split {w s : List Nat} (h : w.isPrefixOf s = true) : s = w ++ s.drop w.length := by
  have := List.prefix_iff_eq_append.1 (List.isPrefixOf_iff_prefix.1 h)
  exact this.symm

theorem parseScalar_ext {s : List Nat} {v : Json} {r : List Nat} (h : parseScalar s = .ok (v, r)) :
    ∃ c, s = c ++ r ∧ ∀ r', (closed v = true ∨ StopHead r r') → c ≠ [] ∧ parseScalar (c ++ r') = .ok (v, r') := by
  cases s with
  | nil => simp [parseScalar] at h
  | cons c0 t =>
    unfold parseScalar at h
    simp only at h
    split at h
    · -- string
      rename_i hc
      split at h
      · rename_i str rest hq
        simp only [Res.ok.injEq, Prod.mk.injEq] at h
        obtain ⟨rfl, rfl⟩ := h
        obtain ⟨c, h1, h2⟩ := quotedString_split hq
        refine ⟨34 :: c, h1, fun r' _ => ⟨by simp, ?_⟩⟩
        have := h2 r'
        simp only [List.cons_append] at this ⊢
        simp only [parseScalar, if_true, this]
      · cases h
    · split at h
      · -- true / false
        rename_i hc1 hc2
        split at h
        · rename_i hp
          simp only [Res.ok.injEq, Prod.mk.injEq] at h
          obtain ⟨rfl, rfl⟩ := h
          refine ⟨[116, 114, 117, 101], isPrefixOf_split hp, fun r' _ => ⟨by simp, ?_⟩⟩
          simp [parseScalar, List.isPrefixOf]
        · split at h
          · rename_i hp
            simp only [Res.ok.injEq, Prod.mk.injEq] at h
            obtain ⟨rfl, rfl⟩ := h
            refine ⟨[102, 97, 108, 115, 101], isPrefixOf_split hp, fun r' _ => ⟨by simp, ?_⟩⟩
            simp [parseScalar, List.isPrefixOf]
          · cases h
      · split at h
        · -- number
          rename_i hc1 hc2 hc3
          obtain ⟨c, hc⟩ := parseNumber_suffix h
          refine ⟨c, hc.symm, fun r' hr' => ?_⟩
          have hv : closed v = false := by
            unfold parseNumber at h
            obtain ⟨⟨v', r''⟩, h1, h2⟩ := Res.bind_eq_ok.1 h
            simp only [Res.ok.injEq, Prod.mk.injEq] at h2
            rw [← h2.1]
            unfold numCore at h1
            have hb : ∀ {neg s t}, numBody neg s t = .ok (v', r'') → closed v' = false := by
              intro neg s t hb
              unfold numBody at hb
              split at hb
              · cases hb
              · split at hb
                · cases hb
                · split at hb
                  split at hb
                  · simp only [Res.ok.injEq, Prod.mk.injEq] at hb; rw [← hb.1]; rfl
                  · split at hb
                    split at hb
                    · cases hb
                    · split at hb
                      · simp only [Res.ok.injEq, Prod.mk.injEq] at hb; rw [← hb.1]; rfl
                      · simp only [Res.ok.injEq, Prod.mk.injEq] at hb; rw [← hb.1]; rfl
            split at h1
            · exact hb h1
            · split at h1 <;> exact hb h1
          rcases hr' with hcl | ⟨d, x, x', hd, rfl, rfl⟩
          · rw [hv] at hcl; cases hcl
          · obtain ⟨c', hc', hext⟩ := parseNumber_ext h hd
            have : c = c' := by
              have := hc.trans hc'
              exact List.append_cancel_right this
            subst this
            have hne : c ≠ [] := by
              intro hnil
              subst hnil
              simp only [List.nil_append] at hc
              have : c0 = d := by injection hc.symm
              subst this
              rcases hc3 with h45 | hdig
              · subst h45; simp [isStop, isSpace] at hd
              · simp [isDigit] at hdig
                simp [isStop, isSpace] at hd
                omega
            refine ⟨hne, ?_⟩
            cases c with
            | nil => exact absurd rfl hne
            | cons a c'' =>
              simp only [List.cons_append, List.cons.injEq] at hc
              obtain ⟨rfl, _⟩ := hc
              have := hext x'
              simp only [List.cons_append] at this ⊢
              simp only [parseScalar, hc1, hc2, hc3, if_false, if_true, this]
        · split at h
          · rename_i hc1 hc2 hc3 hc4
            split at h
            · rename_i hp
              simp only [Res.ok.injEq, Prod.mk.injEq] at h
              obtain ⟨rfl, rfl⟩ := h
              refine ⟨[110, 117, 108, 108], isPrefixOf_split hp, fun r' _ => ⟨by simp, ?_⟩⟩
              simp [parseScalar, List.isPrefixOf, isDigit]
            · cases h
          · cases h


end Ovni.Json
