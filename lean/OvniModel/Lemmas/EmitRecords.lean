import OvniModel.Lemmas.EmitBay

/-
  C06 (emit side): `records` of View.lean = system rows + model rows, as
  multisets; list algebra of `collect`.
-/
set_option linter.unusedSimpArgs false
namespace Ovni.Emu
open Ovni.Generated

/-- the records of a successful attempt, nothing for a failed one -/
def okVal : Except Err (List PrvRec) → List PrvRec
  | .ok r => r
  | .error _ => []

theorem collect_cons (x : Except Err (List PrvRec)) (xs : List (Except Err (List PrvRec))) :
    collect (x :: xs) =
      match x with
      | .error e => .error e
      | .ok r => match collect xs with
        | .error e => .error e
        | .ok rs => .ok (r ++ rs) := by
  cases x <;> rfl

theorem collect_ok_iff : ∀ {l : List (Except Err (List PrvRec))} {rs : List PrvRec},
    collect l = .ok rs ↔ (∀ x ∈ l, ∃ r, x = .ok r) ∧ rs = l.flatMap okVal
  | [], rs => by
    constructor
    · intro h; injection h with h; exact ⟨fun x hx => (by cases hx), h.symm⟩
    · rintro ⟨_, h⟩; rw [h]; rfl
  | a :: l, rs => by
    rw [collect_cons]
    cases a with
    | error e =>
      simp only
      constructor
      · intro h; cases h
      · rintro ⟨h, _⟩; obtain ⟨r, hr⟩ := h (.error e) (by simp); cases hr
    | ok r =>
      simp only
      cases hl : collect l with
      | error e =>
        simp only
        constructor
        · intro h; cases h
        · rintro ⟨h, _⟩
          obtain ⟨x, hx, hxe⟩ := collect_error' hl
          obtain ⟨r', hr'⟩ := h x (by simp [hx])
          rw [hr'] at hxe; cases hxe
      | ok rs' =>
        simp only
        obtain ⟨h1, h2⟩ := collect_ok_iff.mp hl
        constructor
        · intro h
          injection h with h
          refine ⟨?_, ?_⟩
          · intro x hx
            rcases List.mem_cons.mp hx with rfl | hx
            · exact ⟨r, rfl⟩
            · exact h1 x hx
          · rw [← h, h2]; rfl
        · rintro ⟨_, h⟩
          rw [h, List.flatMap_cons, ← h2]; rfl

theorem collect_perm {l1 l2 : List (Except Err (List PrvRec))} (hp : l1.Perm l2) :
    (∀ r1, collect l1 = .ok r1 → ∃ r2, collect l2 = .ok r2 ∧ r1.Perm r2) ∧
    ((∃ e, collect l1 = .error e) → ∃ e, collect l2 = .error e) := by
  constructor
  · intro r1 h
    obtain ⟨h1, h2⟩ := collect_ok_iff.mp h
    refine ⟨l2.flatMap okVal, collect_ok_iff.mpr ⟨fun x hx => h1 x (hp.mem_iff.mpr hx), rfl⟩, ?_⟩
    rw [h2]; exact List.Perm.flatMap_right _ hp
  · rintro ⟨e, h⟩
    obtain ⟨x, hx, hxe⟩ := collect_error' h
    exact collect_has_error ⟨x, hp.mem_iff.mp hx, e, hxe⟩

theorem collect_append (a b : List (Except Err (List PrvRec))) :
    collect (a ++ b) =
      match collect a with
      | .error e => .error e
      | .ok x => match collect b with
        | .error e => .error e
        | .ok y => .ok (x ++ y) := by
  induction a with
  | nil =>
    simp only [List.nil_append, collect]
    cases collect b <;> rfl
  | cons x a ih =>
    rw [List.cons_append, collect_cons, collect_cons]
    cases x with
    | error e => rfl
    | ok r =>
      simp only
      rw [ih]
      cases collect a with
      | error e => rfl
      | ok xs =>
        simp only
        cases collect b with
        | error e => rfl
        | ok ys => simp only [List.append_assoc]

theorem collect_collect {α} (F : α → List (Except Err (List PrvRec))) : ∀ (rows : List α),
    collect (rows.map fun r => collect (F r)) = collect (rows.flatMap F)
  | [] => rfl
  | r :: rows => by
    rw [List.map_cons, List.flatMap_cons, collect_append, ← collect_collect F rows, collect_cons]

theorem perm_shuffle {α} (a b c d : List α) : (a ++ b ++ (c ++ d)).Perm ((a ++ c) ++ (b ++ d)) := by
  simp only [List.append_assoc]
  apply List.Perm.append_left
  rw [← List.append_assoc, ← List.append_assoc]
  exact List.Perm.append_right _ List.perm_append_comm

theorem flatMap_append_perm {α β} (f g : α → List β) : ∀ (l : List α),
    (l.flatMap fun a => f a ++ g a).Perm (l.flatMap f ++ l.flatMap g)
  | [] => List.Perm.refl _
  | a :: l => by
    simp only [List.flatMap_cons]
    exact (List.Perm.append_left _ (flatMap_append_perm f g l)).trans (perm_shuffle _ _ _ _)

/-! ### `records` -/

theorem threadRecords_eq (specs : List ModelSpec) (told t : Thread) :
    threadRecords specs told t = collect (thSysList t ++ thViewList specs told t) := rfl

theorem cpuRecords_eq (specs : List ModelSpec) (old new : Emu) (cold c : Cpu) :
    cpuRecords specs old new cold c = collect (cpuSysList c ++ cpuViewList specs old new cold c) := rfl

/-- `records` as one flat `collect` over all rows. -/
theorem records_flat (old new : Emu) :
    records old new = collect
      (new.threads.flatMap (fun t => thSysList t ++ thViewList new.specs (old.threads.getD t.gindex t) t) ++
       new.cpus.flatMap (fun c => cpuSysList c ++ cpuViewList new.specs old new (old.cpus.getD c.gindex c) c)) := by
  have h1 := collect_collect (fun t : Thread => thSysList t ++ thViewList new.specs (old.threads.getD t.gindex t) t)
    new.threads
  have h2 := collect_collect (fun c : Cpu => cpuSysList c ++ cpuViewList new.specs old new (old.cpus.getD c.gindex c) c)
    new.cpus
  rw [collect_append, ← h1, ← h2, ← collect_append]
  rfl

theorem records_perm (old new : Emu) :
    (new.threads.flatMap (fun t => thSysList t ++ thViewList new.specs (old.threads.getD t.gindex t) t) ++
     new.cpus.flatMap (fun c => cpuSysList c ++ cpuViewList new.specs old new (old.cpus.getD c.gindex c) c)).Perm
    ((new.threads.flatMap thSysList ++ new.cpus.flatMap cpuSysList) ++
     (new.threads.flatMap (fun t => thViewList new.specs (old.threads.getD t.gindex t) t) ++
      new.cpus.flatMap (fun c => cpuViewList new.specs old new (old.cpus.getD c.gindex c) c))) :=
  ((flatMap_append_perm _ _ new.threads).append (flatMap_append_perm _ _ new.cpus)).trans (perm_shuffle _ _ _ _)

/-- **`records` = system rows + model rows.**  A step's records are, up to the
    order, the system-row records followed by the model-row records; `records`
    fails iff one of the two parts does. -/
theorem records_split (old new : Emu) :
    (∀ rs, records old new = .ok rs → ∃ s v, sysRecords new = .ok s ∧ viewRecords old new = .ok v ∧
      rs.Perm (s ++ v)) ∧
    (∀ s v, sysRecords new = .ok s → viewRecords old new = .ok v → ∃ rs, records old new = .ok rs ∧
      rs.Perm (s ++ v)) ∧
    ((∃ e, records old new = .error e) ↔ ((∃ e, sysRecords new = .error e) ∨ (∃ e, viewRecords old new = .error e))) := by
  have hflat := records_flat old new
  have hperm := records_perm old new
  have hsv : collect ((new.threads.flatMap thSysList ++ new.cpus.flatMap cpuSysList) ++
      (new.threads.flatMap (fun t => thViewList new.specs (old.threads.getD t.gindex t) t) ++
       new.cpus.flatMap (fun c => cpuViewList new.specs old new (old.cpus.getD c.gindex c) c))) =
      match sysRecords new with
      | .error e => .error e
      | .ok x => match viewRecords old new with
        | .error e => .error e
        | .ok y => .ok (x ++ y) := collect_append _ _
  refine ⟨?_, ?_, ?_⟩
  · intro rs h
    rw [hflat] at h
    obtain ⟨r2, h2, hp2⟩ := (collect_perm hperm).1 rs h
    rw [hsv] at h2
    cases hs : sysRecords new with
    | error e => rw [hs] at h2; cases h2
    | ok s =>
      rw [hs] at h2
      cases hv : viewRecords old new with
      | error e => rw [hv] at h2; cases h2
      | ok v =>
        rw [hv] at h2
        injection h2 with h2
        exact ⟨s, v, rfl, rfl, h2 ▸ hp2⟩
  · intro s v hs hv
    rw [hs, hv] at hsv
    obtain ⟨r2, h2, hp2⟩ := (collect_perm hperm.symm).1 _ hsv
    exact ⟨r2, by rw [hflat]; exact h2, hp2.symm⟩
  · rw [hflat]
    constructor
    · intro h
      obtain ⟨e, he⟩ := (collect_perm hperm).2 h
      rw [hsv] at he
      cases hs : sysRecords new with
      | error e' => exact Or.inl ⟨e', rfl⟩
      | ok s =>
        rw [hs] at he
        cases hv : viewRecords old new with
        | error e' => exact Or.inr ⟨e', rfl⟩
        | ok v => rw [hv] at he; cases he
    · intro h
      apply (collect_perm hperm.symm).2
      rw [hsv]
      rcases h with ⟨e, he⟩ | ⟨e, he⟩
      · exact ⟨e, by rw [he]⟩
      · cases hs : sysRecords new with
        | error e' => exact ⟨e', rfl⟩
        | ok s => exact ⟨e, by rw [he]⟩

end Ovni.Emu

namespace Ovni.Emu
open Ovni.Generated

theorem except_error_iff_not_ok {α} (r : Except Err α) : (∃ x, r = .error x) ↔ ¬ ∃ v, r = .ok v := by
  cases r with
  | error e => exact ⟨fun _ ⟨v, hv⟩ => (by cases hv), fun _ => ⟨e, rfl⟩⟩
  | ok v => exact ⟨fun ⟨x, hx⟩ => (by cases hx), fun h => absurd ⟨v, rfl⟩ h⟩

theorem emitRaw_error_prvZero {file row type flags : Nat} {c : Chan} {x : Err} (h : emitRaw file row type flags c = .error x) :
    x = .prvZero := by
  unfold emitRaw at h
  split at h
  · cases hp : prvValue flags c.cur with
    | ok v => simp only [hp, bind, Except.bind, pure, Except.pure] at h; cases h
    | error e =>
      simp only [hp, bind, Except.bind] at h
      injection h with h; rw [← h]; exact prvValue_error hp
  · cases h

theorem emitView_error_prvZero {file row type flags : Nat} {vo vn : Value} {x : Err}
    (h : emitView file row type flags vo vn = .error x) : x = .prvZero := by
  unfold emitView at h
  split at h
  · cases h
  · cases hp : prvValue flags vn with
    | ok v => simp only [hp, bind, Except.bind, pure, Except.pure] at h; cases h
    | error e =>
      simp only [hp, bind, Except.bind] at h
      injection h with h; rw [← h]; exact prvValue_error hp

/-- The only error of `records` is "forbidden value 0". -/
theorem records_error_prvZero {old new : Emu} {x : Err} (h : records old new = .error x) : x = .prvZero := by
  rw [records_flat] at h
  obtain ⟨y, hy, rfl⟩ := collect_error' h
  have hsys3 : ∀ (l : List (Except Err (List PrvRec))) (a b c : Except Err (List PrvRec)), l = [a, b, c] →
      (.error x) ∈ l → (a = .error x ∨ b = .error x ∨ c = .error x) := by
    intro l a b c hl hm; subst hl; simpa [eq_comm] using hm
  rcases List.mem_append.mp hy with hy | hy
  · obtain ⟨t, _, hy⟩ := List.mem_flatMap.mp hy
    rcases List.mem_append.mp hy with hy | hy
    · rcases hsys3 _ _ _ _ rfl hy with h | h | h <;> exact emitRaw_error_prvZero h
    · unfold thViewList at hy
      obtain ⟨m, _, hy⟩ := List.mem_flatMap.mp hy
      obtain ⟨i, _, hy⟩ := List.mem_map.mp hy
      exact emitView_error_prvZero hy
  · obtain ⟨c, _, hy⟩ := List.mem_flatMap.mp hy
    rcases List.mem_append.mp hy with hy | hy
    · rcases hsys3 _ _ _ _ rfl hy with h | h | h <;> exact emitRaw_error_prvZero h
    · unfold cpuViewList at hy
      obtain ⟨m, _, hy⟩ := List.mem_flatMap.mp hy
      obtain ⟨i, _, hy⟩ := List.mem_map.mp hy
      exact emitView_error_prvZero hy

end Ovni.Emu
