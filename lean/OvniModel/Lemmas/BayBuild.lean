import OvniModel.Lemmas.Bay

/-
  C06: the construction API (`register`, `muxInit`, `muxSetInput`,
  `muxSetDefault`) establishes the structural invariant `Bay.WF`, and a freshly
  connected mux with a null default is in sync.
-/
namespace Ovni.Emu

theorem Bay.WF.empty : ({} : Bay).WF := by
  constructor <;> simp [Bay.cbsOf, Bay.chan]

theorem getD_append_default {α} (l : List α) (d : α) (c : Nat) : (l ++ [d]).getD c d = l.getD c d := by
  simp only [List.getD_eq_getElem?_getD]
  rcases Nat.lt_or_ge c l.length with h | h
  · rw [List.getElem?_append_left h]
  · rw [List.getElem?_append_right h, List.getElem?_eq_none h]
    cases hc : c - l.length with
    | zero => simp
    | succ k => simp

theorem Bay.register_cbsOf (b : Bay) (ch : Chan) (c : Nat) : (b.register ch).1.cbsOf c = b.cbsOf c := by
  simp only [Bay.register, Bay.cbsOf]; exact getD_append_default _ _ _

theorem Bay.register_chan (b : Bay) (ch : Chan) (c : Nat) :
    (b.register ch).1.chan c = if c = b.chans.length then ch else b.chan c := by
  simp only [Bay.register, Bay.chan, List.getD_eq_getElem?_getD]
  rcases Nat.lt_trichotomy c b.chans.length with h | h | h
  · rw [List.getElem?_append_left h]; simp [Nat.ne_of_lt h]
  · subst h; simp
  · rw [List.getElem?_append_right (Nat.le_of_lt h), List.getElem?_eq_none (Nat.le_of_lt h)]
    have : c - b.chans.length ≠ 0 := by omega
    cases hk : c - b.chans.length with
    | zero => exact absurd hk this
    | succ k => simp [Nat.ne_of_gt h]

/-- `bay_register` of a clean channel. -/
theorem Bay.WF.register {b : Bay} (wf : b.WF) (ch : Chan) (hd : ch.dirty = false) :
    (b.register ch).1.WF := by
  have hm : (b.register ch).1.muxes = b.muxes := rfl
  have hlen : (b.register ch).1.chans.length = b.chans.length + 1 := by simp [Bay.register]
  have hold : ∀ c, c < b.chans.length → (b.register ch).1.chan c = b.chan c := by
    intro c hc; rw [Bay.register_chan]; simp [Nat.ne_of_lt hc]
  constructor
  · simp [Bay.register, wf.cbsLen]
  · exact wf.selLen
  · intro mi m h; rw [hlen]; exact Nat.lt_succ_of_lt (wf.selLt mi m h)
  · intro mi m h; rw [hlen]; exact Nat.lt_succ_of_lt (wf.outLt mi m h)
  · intro mi m i c h h2; rw [hlen]; exact Nat.lt_succ_of_lt (wf.inLt mi m i c h h2)
  · exact wf.selNotIn
  · intro mi m h; rw [hold _ (wf.outLt mi m h)]; exact wf.outDup mi m h
  · intro mi m h; rw [Bay.register_cbsOf]; exact wf.selCb mi m h
  · intro c mi h; rw [Bay.register_cbsOf] at h; exact wf.selCbOnly c mi h
  · intro c mi i h; rw [Bay.register_cbsOf] at h; exact wf.inCbOnly c mi i h
  · intro c; rw [Bay.register_cbsOf]; exact wf.cbsNodup c
  · exact wf.dirtyNodup
  · intro c
    show c ∈ b.dirty ↔ _
    rw [Bay.register_chan]
    split
    · rename_i hc; subst hc
      simp only [hd]
      constructor
      · intro h; exact absurd (wf.dirty_lt h) (Nat.lt_irrefl _)
      · intro h; cases h
    · exact wf.dirtyIff c

theorem Bay.muxInit_ok {b b' : Bay} {sel out n mi : Nat} {kind : SelKind}
    (h : b.muxInit sel out kind n = .ok (b', mi)) :
    ∃ oc, b.chans[out]? = some oc ∧ sel < b.chans.length ∧ oc.isStack = false ∧ sel ≠ out ∧
      mi = b.muxes.length ∧
      b' = ({ b with chans := b.chans.set out { oc with dirtyWrite := true, allowDup := true },
                     muxes := b.muxes ++ [{ sel := sel, out := out, kind := kind,
                                            inputs := List.replicate n none }],
                     selected := b.selected ++ [some 0] } : Bay).enableCb sel (.muxSelect b.muxes.length) := by
  unfold Bay.muxInit at h
  split at h
  · rename_i oc sc hoc hsc
    split at h
    · cases h
    · split at h
      · cases h
      · rename_i hst hne
        simp only at h
        cases h
        refine ⟨oc, hoc, (List.getElem?_eq_some_iff.mp hsc).1, by simpa using hst, hne, rfl, rfl⟩
  · cases h

/-- `mux_init`. -/
theorem Bay.WF.muxInit {b b' : Bay} {sel out n mi : Nat} {kind : SelKind} (wf : b.WF)
    (h : b.muxInit sel out kind n = .ok (b', mi)) : b'.WF ∧ mi = b.muxes.length ∧
      b'.muxes = b.muxes ++ [{ sel := sel, out := out, kind := kind, inputs := List.replicate n none }] ∧
      b'.chans.length = b.chans.length ∧
      (∀ c, (b'.chan c).cur = (b.chan c).cur ∧ (b'.chan c).dirty = (b.chan c).dirty) ∧
      (∀ c mj i, Cb.muxInput mj i ∈ b'.cbsOf c ↔ Cb.muxInput mj i ∈ b.cbsOf c) := by
  obtain ⟨oc, hoc, hsel, hst, hne, rfl, rfl⟩ := Bay.muxInit_ok h
  have holt : out < b.chans.length := (List.getElem?_eq_some_iff.mp hoc).1
  have hob : b.chan out = oc := getD_of_getElem? _ hoc
  let mnew : Mux := { sel := sel, out := out, kind := kind, inputs := List.replicate n none }
  let b1 : Bay := { b with chans := b.chans.set out { oc with dirtyWrite := true, allowDup := true },
                           muxes := b.muxes ++ [mnew], selected := b.selected ++ [some 0] }
  have hb1cbs : ∀ c, b1.cbsOf c = b.cbsOf c := fun _ => rfl
  have hsl : sel < b1.cbs.length := by show sel < b.cbs.length; rw [wf.cbsLen]; exact hsel
  have hmem : ∀ c cb, cb ∈ (b1.enableCb sel (.muxSelect b.muxes.length)).cbsOf c ↔
      cb ∈ b.cbsOf c ∨ (c = sel ∧ cb = .muxSelect b.muxes.length) := by
    intro c cb; rw [Bay.mem_enableCb _ _ _ hsl, hb1cbs]
  have hchan : ∀ c, (b1.enableCb sel (.muxSelect b.muxes.length)).chan c =
      if c = out then { oc with dirtyWrite := true, allowDup := true } else b.chan c := by
    intro c
    rw [Bay.enableCb_chan]
    show (b.chans.set out _).getD c {} = _
    split
    · rename_i hc; subst hc; exact getD_set_eq _ _ _ _ holt
    · rename_i hc; exact getD_set_ne _ _ _ _ _ (Ne.symm hc)
  have hmux : ∀ mj m, (b.muxes ++ [mnew])[mj]? = some m →
      (b.muxes[mj]? = some m) ∨ (mj = b.muxes.length ∧ m = mnew) := by
    intro mj m hm
    rcases Nat.lt_or_ge mj b.muxes.length with hl | hl
    · rw [List.getElem?_append_left hl] at hm; exact Or.inl hm
    · rw [List.getElem?_append_right hl] at hm
      cases hk : mj - b.muxes.length with
      | zero => rw [hk] at hm; simp at hm; exact Or.inr ⟨by omega, hm.symm⟩
      | succ k => rw [hk] at hm; simp at hm
  have hnofresh : ∀ c, Cb.muxSelect b.muxes.length ∉ b.cbsOf c := by
    intro c hc
    obtain ⟨m, hm, _⟩ := wf.selCbOnly c _ hc
    have := (List.getElem?_eq_some_iff.mp hm).1
    omega
  refine ⟨?_, rfl, by simp [b1, mnew], by simp [b1], ?_, ?_⟩
  · constructor
    · simp [b1, wf.cbsLen]
    · simp [b1, wf.selLen]
    · intro mj m hm
      simp only [Bay.enableCb_chans, Bay.enableCb_muxes] at hm ⊢
      show m.sel < (b.chans.set out _).length
      rw [List.length_set]
      rcases hmux mj m hm with h | ⟨_, rfl⟩
      · exact wf.selLt mj m h
      · exact hsel
    · intro mj m hm
      simp only [Bay.enableCb_chans, Bay.enableCb_muxes] at hm ⊢
      show m.out < (b.chans.set out _).length
      rw [List.length_set]
      rcases hmux mj m hm with h | ⟨_, rfl⟩
      · exact wf.outLt mj m h
      · exact holt
    · intro mj m i c hm hi
      simp only [Bay.enableCb_chans, Bay.enableCb_muxes] at hm ⊢
      show c < (b.chans.set out _).length
      rw [List.length_set]
      rcases hmux mj m hm with h | ⟨_, rfl⟩
      · exact wf.inLt mj m i c h hi
      · simp [mnew, List.getElem?_replicate] at hi
    · intro mj m i hm
      simp only [Bay.enableCb_muxes] at hm
      rcases hmux mj m hm with h | ⟨_, rfl⟩
      · exact wf.selNotIn mj m i h
      · simp [mnew, List.getElem?_replicate]
    · intro mj m hm
      simp only [Bay.enableCb_muxes] at hm
      rw [hchan]
      split
      · rfl
      · rcases hmux mj m hm with h | ⟨_, rfl⟩
        · exact wf.outDup mj m h
        · rename_i hc; exact absurd rfl hc
    · intro mj m hm
      simp only [Bay.enableCb_muxes] at hm
      rw [hmem]
      rcases hmux mj m hm with h | ⟨rfl, rfl⟩
      · exact Or.inl (wf.selCb mj m h)
      · exact Or.inr ⟨rfl, rfl⟩
    · intro c mj hc
      simp only [Bay.enableCb_muxes]
      rw [hmem] at hc
      rcases hc with hc | ⟨rfl, hcb⟩
      · obtain ⟨m, hm, hs⟩ := wf.selCbOnly c mj hc
        exact ⟨m, by
          show (b.muxes ++ [mnew])[mj]? = some m
          rw [List.getElem?_append_left (List.getElem?_eq_some_iff.mp hm).1]; exact hm, hs⟩
      · cases hcb
        exact ⟨mnew, by show (b.muxes ++ [mnew])[b.muxes.length]? = some mnew; simp, rfl⟩
    · intro c mj i hc
      simp only [Bay.enableCb_muxes]
      rw [hmem] at hc
      rcases hc with hc | ⟨_, hcb⟩
      · obtain ⟨m, hm, hs⟩ := wf.inCbOnly c mj i hc
        exact ⟨m, by
          show (b.muxes ++ [mnew])[mj]? = some m
          rw [List.getElem?_append_left (List.getElem?_eq_some_iff.mp hm).1]; exact hm, hs⟩
      · cases hcb
    · intro c
      exact Bay.enableCb_nodup b1 sel c _ (by rw [hb1cbs]; exact wf.cbsNodup c)
    · simp only [Bay.enableCb_dirty]; exact wf.dirtyNodup
    · intro c
      simp only [Bay.enableCb_dirty]
      rw [hchan]
      split
      · rename_i hc; subst hc
        show c ∈ b.dirty ↔ oc.dirty = true
        rw [← hob]; exact wf.dirtyIff c
      · exact wf.dirtyIff c
  · intro c
    rw [hchan]
    split
    · rename_i hc; subst hc; rw [hob]; exact ⟨rfl, rfl⟩
    · exact ⟨rfl, rfl⟩
  · intro c mj i
    rw [hmem]
    constructor
    · rintro (h | ⟨_, h⟩)
      · exact h
      · cases h
    · exact Or.inl


theorem Bay.muxSetInput_ok {b b' : Bay} {mi i c : Nat} (h : b.muxSetInput mi i c = .ok b') :
    ∃ m, b.muxes[mi]? = some m ∧ c ≠ m.out ∧ m.inputs[i]? = some none ∧ c < b.chans.length ∧
      b' = { b with muxes := b.muxes.set mi { m with inputs := m.inputs.set i (some c) } } := by
  unfold Bay.muxSetInput at h
  split at h
  · cases h
  · rename_i m hm
    split at h
    · cases h
    · rename_i hne
      split at h
      · rename_i hin
        split at h
        · rename_i hlt; cases h; exact ⟨m, hm, hne, hin, hlt, rfl⟩
        · cases h
      · cases h

theorem getElem?_set_some {α} {l : List α} {i j : Nat} {a x : α} (h : (l.set i a)[j]? = some x) :
    (j = i ∧ x = a) ∨ (j ≠ i ∧ l[j]? = some x) := by
  rw [List.getElem?_set] at h
  split at h
  · rename_i e; subst e
    split at h
    · cases h; exact Or.inl ⟨rfl, rfl⟩
    · cases h
  · rename_i e; exact Or.inr ⟨fun e' => e e'.symm, h⟩

/-- `mux_set_input` (of a channel that is not the mux's own select). -/
theorem Bay.WF.muxSetInput {b b' : Bay} {mi i c : Nat} (wf : b.WF)
    (h : b.muxSetInput mi i c = .ok b')
    (hsel : ∀ m, b.muxes[mi]? = some m → c ≠ m.sel) :
    b'.WF ∧ b'.chans = b.chans ∧ b'.cbs = b.cbs ∧ b'.selected = b.selected ∧ b'.dirty = b.dirty ∧
    ∃ m, b.muxes[mi]? = some m ∧
      b'.muxes = b.muxes.set mi { m with inputs := m.inputs.set i (some c) } := by
  obtain ⟨m, hm, hne, hin, hlt, rfl⟩ := Bay.muxSetInput_ok h
  have hmilt : mi < b.muxes.length := (List.getElem?_eq_some_iff.mp hm).1
  let mnew : Mux := { m with inputs := m.inputs.set i (some c) }
  have hmux : ∀ mj m', (b.muxes.set mi mnew)[mj]? = some m' →
      (mj = mi ∧ m' = mnew) ∨ (mj ≠ mi ∧ b.muxes[mj]? = some m') := fun mj m' h => getElem?_set_some h
  have hinp : ∀ i' c', mnew.inputs[i']? = some (some c') →
      (i' = i ∧ c' = c) ∨ (i' ≠ i ∧ m.inputs[i']? = some (some c')) := by
    intro i' c' h
    rcases getElem?_set_some h with ⟨h1, h2⟩ | h
    · cases h2; exact Or.inl ⟨h1, rfl⟩
    · exact Or.inr h
  refine ⟨?_, rfl, rfl, rfl, rfl, m, hm, rfl⟩
  constructor
  · exact wf.cbsLen
  · show b.selected.length = (b.muxes.set mi mnew).length; rw [List.length_set]; exact wf.selLen
  · intro mj m' hm'
    rcases hmux mj m' hm' with ⟨_, rfl⟩ | ⟨_, h⟩
    · exact wf.selLt mi m hm
    · exact wf.selLt mj m' h
  · intro mj m' hm'
    rcases hmux mj m' hm' with ⟨_, rfl⟩ | ⟨_, h⟩
    · exact wf.outLt mi m hm
    · exact wf.outLt mj m' h
  · intro mj m' i' c' hm' hi'
    rcases hmux mj m' hm' with ⟨_, rfl⟩ | ⟨_, h⟩
    · rcases hinp i' c' hi' with ⟨_, rfl⟩ | ⟨_, h2⟩
      · exact hlt
      · exact wf.inLt mi m i' c' hm h2
    · exact wf.inLt mj m' i' c' h hi'
  · intro mj m' i' hm' hi'
    rcases hmux mj m' hm' with ⟨_, rfl⟩ | ⟨_, h⟩
    · rcases hinp i' _ hi' with ⟨_, h2⟩ | ⟨_, h2⟩
      · exact hsel m hm h2.symm
      · exact wf.selNotIn mi m i' hm h2
    · exact wf.selNotIn mj m' i' h hi'
  · intro mj m' hm'
    rcases hmux mj m' hm' with ⟨_, rfl⟩ | ⟨_, h⟩
    · exact wf.outDup mi m hm
    · exact wf.outDup mj m' h
  · intro mj m' hm'
    rcases hmux mj m' hm' with ⟨rfl, rfl⟩ | ⟨_, h⟩
    · exact wf.selCb mj m hm
    · exact wf.selCb mj m' h
  · intro c' mj hc
    obtain ⟨m0, hm0, hs⟩ := wf.selCbOnly c' mj hc
    by_cases e : mj = mi
    · subst e; rw [hm] at hm0; cases hm0
      exact ⟨mnew, by show (b.muxes.set mj mnew)[mj]? = _; simp [hmilt], hs⟩
    · exact ⟨m0, by show (b.muxes.set mi mnew)[mj]? = _; rw [List.getElem?_set_ne (Ne.symm e)]; exact hm0, hs⟩
  · intro c' mj i' hc
    obtain ⟨m0, hm0, hs⟩ := wf.inCbOnly c' mj i' hc
    by_cases e : mj = mi
    · subst e; rw [hm] at hm0; cases hm0
      refine ⟨mnew, by show (b.muxes.set mj mnew)[mj]? = _; simp [hmilt], ?_⟩
      show (m.inputs.set i (some c))[i']? = _
      have : i ≠ i' := by rintro rfl; rw [hin] at hs; cases hs
      rw [List.getElem?_set_ne this]; exact hs
    · exact ⟨m0, by show (b.muxes.set mi mnew)[mj]? = _; rw [List.getElem?_set_ne (Ne.symm e)]; exact hm0, hs⟩
  · exact wf.cbsNodup
  · exact wf.dirtyNodup
  · exact wf.dirtyIff

/-- `mux_set_default`. -/
theorem Bay.WF.muxSetDefault {b b' : Bay} {mi : Nat} {v : Value} (wf : b.WF)
    (h : b.muxSetDefault mi v = .ok b') :
    b'.WF ∧ b'.chans = b.chans ∧ b'.cbs = b.cbs ∧ b'.selected = b.selected ∧ b'.dirty = b.dirty ∧
    ∃ m, b.muxes[mi]? = some m ∧ b'.muxes = b.muxes.set mi { m with dflt := v } := by
  unfold Bay.muxSetDefault at h
  split at h
  · cases h
  · rename_i m hm
    cases h
    have hmilt : mi < b.muxes.length := (List.getElem?_eq_some_iff.mp hm).1
    let mnew : Mux := { m with dflt := v }
    have hmux : ∀ mj m', (b.muxes.set mi mnew)[mj]? = some m' →
        (mj = mi ∧ m' = mnew) ∨ (mj ≠ mi ∧ b.muxes[mj]? = some m') := fun mj m' h => getElem?_set_some h
    refine ⟨?_, rfl, rfl, rfl, rfl, m, hm, rfl⟩
    constructor
    · exact wf.cbsLen
    · show b.selected.length = (b.muxes.set mi mnew).length; rw [List.length_set]; exact wf.selLen
    · intro mj m' hm'
      rcases hmux mj m' hm' with ⟨_, rfl⟩ | ⟨_, h⟩
      · exact wf.selLt mi m hm
      · exact wf.selLt mj m' h
    · intro mj m' hm'
      rcases hmux mj m' hm' with ⟨_, rfl⟩ | ⟨_, h⟩
      · exact wf.outLt mi m hm
      · exact wf.outLt mj m' h
    · intro mj m' i' c' hm' hi'
      rcases hmux mj m' hm' with ⟨_, rfl⟩ | ⟨_, h⟩
      · exact wf.inLt mi m i' c' hm hi'
      · exact wf.inLt mj m' i' c' h hi'
    · intro mj m' i' hm'
      rcases hmux mj m' hm' with ⟨_, rfl⟩ | ⟨_, h⟩
      · exact wf.selNotIn mi m i' hm
      · exact wf.selNotIn mj m' i' h
    · intro mj m' hm'
      rcases hmux mj m' hm' with ⟨_, rfl⟩ | ⟨_, h⟩
      · exact wf.outDup mi m hm
      · exact wf.outDup mj m' h
    · intro mj m' hm'
      rcases hmux mj m' hm' with ⟨rfl, rfl⟩ | ⟨_, h⟩
      · exact wf.selCb mj m hm
      · exact wf.selCb mj m' h
    · intro c' mj hc
      obtain ⟨m0, hm0, hs⟩ := wf.selCbOnly c' mj hc
      by_cases e : mj = mi
      · subst e; rw [hm] at hm0; cases hm0
        exact ⟨mnew, by show (b.muxes.set mj mnew)[mj]? = _; simp [hmilt], hs⟩
      · exact ⟨m0, by show (b.muxes.set mi mnew)[mj]? = _; rw [List.getElem?_set_ne (Ne.symm e)]; exact hm0, hs⟩
    · intro c' mj i' hc
      obtain ⟨m0, hm0, hs⟩ := wf.inCbOnly c' mj i' hc
      by_cases e : mj = mi
      · subst e; rw [hm] at hm0; cases hm0
        exact ⟨mnew, by show (b.muxes.set mj mnew)[mj]? = _; simp [hmilt], hs⟩
      · exact ⟨m0, by show (b.muxes.set mi mnew)[mj]? = _; rw [List.getElem?_set_ne (Ne.symm e)]; exact hm0, hs⟩
    · exact wf.cbsNodup
    · exact wf.dirtyNodup
    · exact wf.dirtyIff

/-! ### a freshly connected mux -/

/-- Before the first event: every channel null, no input enabled.  A mux
    whose default is null is then (weakly) in sync: output null = default. -/
theorem Bay.MuxSync.ofFresh {b : Bay} {mi : Nat} {m : Mux} (hno : b.NoInputCbs)
    (hsel : (b.chan m.sel).cur = .null) (hout : (b.chan m.out).cur = m.dflt) :
    b.MuxSync false mi m := by
  have hen : ∀ i, ¬ b.enabled mi m i := by
    rintro i ⟨c, _, h⟩; exact hno c mi i h
  refine ⟨fun i hi => absurd hi (hen i), none, by rw [hsel]; rfl, ?_, by simp, Or.inl hout⟩
  intro i; constructor
  · intro h; exact absurd h (hen i)
  · intro h; cases h

theorem Bay.Weak.ofFresh {b : Bay} {mi : Nat} {m : Mux} (hno : b.NoInputCbs) : b.Weak mi m := by
  rintro i ⟨c, _, h⟩; exact absurd h (hno c mi i)

end Ovni.Emu
