import OvniModel.Lemmas.EmuCoreRec
import OvniModel.Emu.Prv

/-
  Helper lemmas for C04 / C05 / C13, part 7: `records` is total.

  `records` (pv/prv.c `emit`) fails only through `prvValue`: an integer 0 on a
  Paraver type without PRV_ZERO.  `NoZeroIds` is the side condition under which
  that cannot happen for the events of the ovni model that leave the model
  channels alone (OH*, OA*): non-zero TIDs and PIDs (the loader refuses 0) and
  no forbidden value among the raw model-channel values / CPU-mux defaults.
-/
set_option linter.unusedSimpArgs false
set_option linter.unusedVariables false
namespace Ovni.Emu
open Ovni.Generated

/-! ### `emit` accepts a value -/

/-- `emit` accepts the value: not an integer 0 (after PRV_NEXT) on a type without PRV_ZERO -/
def prvOk (flags : Nat) (v : Value) : Bool :=
  match prvValue flags v with
  | .ok _ => true
  | .error _ => false

theorem prvOk_iff {flags : Nat} {v : Value} : prvOk flags v = true ↔ ∃ x, prvValue flags v = .ok x := by
  unfold prvOk
  cases prvValue flags v with
  | ok x => exact ⟨fun _ => ⟨x, rfl⟩, fun _ => rfl⟩
  | error err =>
    constructor
    · intro h; cases h
    · rintro ⟨x, hx⟩; cases hx

theorem prvOk_null (flags : Nat) : prvOk flags .null = true := rfl

/-- the only error of `emit`'s value conversion is "forbidden value 0" -/
theorem prvValue_error {flags : Nat} {v : Value} {err : Err} (h : prvValue flags v = .error err) :
    err = .prvZero := by
  unfold prvValue at h
  cases v with
  | null => cases h
  | int i =>
    simp only at h
    repeat' split at h
    all_goals first | (injection h with h; exact h.symm) | cases h

/-- without flags: every integer but 0 -/
theorem prvOk_plain {i : Int} (h : i ≠ 0) : prvOk 0 (.int i) = true := by
  unfold prvOk prvValue
  simp [prvNext, prvZero, h]

/-- `PRV_NEXT`: a natural number is shown as its successor, never 0 -/
theorem prvOk_next (n : Nat) : prvOk prvNext (.int n) = true := by
  unfold prvOk prvValue
  have : ¬ ((n : Int) + 1 = 0) := by omega
  simp [prvNext, prvZero, this]

/-- `PRV_ZERO`: everything is accepted -/
theorem prvOk_zero (v : Value) : prvOk prvZero v = true := by
  unfold prvOk prvValue
  cases v <;> simp [prvNext, prvZero]

theorem prvOk_state (s : ThState) : prvOk prvSkipDup (stateVal s) = true := by
  cases s <;> rfl

theorem prvOk_tid (s : ThState) {tid : Int} (h : tid ≠ 0) : prvOk 0 (tidVal s tid) = true := by
  unfold tidVal
  split
  · exact prvOk_plain h
  · rfl

theorem prvOk_cpu (c : Option Nat) : prvOk prvNext (cpuVal c) = true := by
  cases c with
  | none => rfl
  | some ci => exact prvOk_next ci

theorem prvOk_uniq {l : List Thread} {f : Thread → Int} (h : ∀ t ∈ l, f t ≠ 0) : prvOk 0 (uniq l f) = true := by
  unfold uniq
  rcases l with _ | ⟨t, _ | ⟨t', r⟩⟩
  · rfl
  · exact prvOk_plain (h t (List.mem_singleton.mpr rfl))
  · rfl

/-! ### totality of `collect`, `emitRaw`, `emitView`, the rows -/

theorem collect_total : ∀ {l : List (Except Err (List PrvRec))}, (∀ x ∈ l, ∃ r, x = .ok r) →
    ∃ rs, collect l = .ok rs
  | [], _ => ⟨[], rfl⟩
  | a :: l, h => by
    obtain ⟨r, hr⟩ := h a List.mem_cons_self
    obtain ⟨rs, hrs⟩ := collect_total (l := l) (fun x hx => h x (List.mem_cons_of_mem _ hx))
    subst hr
    exact ⟨r ++ rs, by simp only [collect, hrs]⟩

theorem emitRaw_total (file row type : Nat) {flags : Nat} {c : Chan} (h : prvOk flags c.cur = true) :
    ∃ r, emitRaw file row type flags c = .ok r := by
  obtain ⟨x, hx⟩ := prvOk_iff.mp h
  unfold emitRaw
  by_cases hd : c.dirty = true
  · rw [if_pos hd, hx]; exact ⟨_, rfl⟩
  · rw [if_neg hd]; exact ⟨_, rfl⟩

theorem emitView_total (file row type : Nat) {flags : Nat} (old : Value) {new : Value}
    (h : prvOk flags new = true) : ∃ r, emitView file row type flags old new = .ok r := by
  obtain ⟨x, hx⟩ := prvOk_iff.mp h
  unfold emitView
  by_cases hd : old = new
  · rw [if_pos hd]; exact ⟨_, rfl⟩
  · rw [if_neg hd, hx]; exact ⟨_, rfl⟩

theorem threadRecords_total {specs : List ModelSpec} (told : Thread) {t : Thread}
    (h1 : prvOk prvNext t.chCpu.cur = true) (h2 : prvOk 0 t.chTid.cur = true)
    (h3 : prvOk prvSkipDup t.chState.cur = true)
    (hv : ∀ m ∈ specs, ∀ i, i < m.nch → prvOk (m.prvFlags.getD i 0) (thView t m i) = true) :
    ∃ r, threadRecords specs told t = .ok r := by
  unfold threadRecords
  apply collect_total
  intro x hx
  rcases List.mem_append.mp hx with hx | hx
  · simp only [List.mem_cons, List.not_mem_nil, or_false] at hx
    rcases hx with rfl | rfl | rfl
    · exact emitRaw_total _ _ _ h1
    · exact emitRaw_total _ _ _ h2
    · exact emitRaw_total _ _ _ h3
  · obtain ⟨m, hm, hx⟩ := List.mem_flatMap.mp hx
    obtain ⟨i, hi, rfl⟩ := List.mem_map.mp hx
    exact emitView_total _ _ _ _ (hv m hm i (List.mem_range.mp hi))

theorem cpuRecords_total {specs : List ModelSpec} (old new : Emu) (cold : Cpu) {c : Cpu}
    (h1 : prvOk 0 c.chPid.cur = true) (h2 : prvOk 0 c.chTid.cur = true)
    (hv : ∀ m ∈ specs, ∀ i, i < m.nch → prvOk (m.prvFlags.getD i 0) (cpuView new c m i) = true) :
    ∃ r, cpuRecords specs old new cold c = .ok r := by
  unfold cpuRecords
  apply collect_total
  intro x hx
  rcases List.mem_append.mp hx with hx | hx
  · simp only [List.mem_cons, List.not_mem_nil, or_false] at hx
    rcases hx with rfl | rfl | rfl
    · exact emitRaw_total _ _ _ h1
    · exact emitRaw_total _ _ _ h2
    · exact emitRaw_total _ _ _ (prvOk_zero _)
  · obtain ⟨m, hm, hx⟩ := List.mem_flatMap.mp hx
    obtain ⟨i, hi, rfl⟩ := List.mem_map.mp hx
    exact emitView_total _ _ _ _ (hv m hm i (List.mem_range.mp hi))

/-! ### the only way `records` fails -/

theorem collect_error : ∀ {l : List (Except Err (List PrvRec))} {err : Err}, collect l = .error err →
    ∃ x ∈ l, x = .error err
  | [], _, h => by cases h
  | a :: l, err, h => by
    unfold collect at h
    cases a with
    | error e' =>
      have : e' = err := by injection h
      exact ⟨_, List.mem_cons_self, by rw [this]⟩
    | ok r =>
      simp only at h
      cases hl : collect l with
      | ok rs => rw [hl] at h; cases h
      | error e' =>
        rw [hl] at h
        have : e' = err := by injection h
        obtain ⟨x, hx, hxe⟩ := collect_error hl
        exact ⟨x, List.mem_cons_of_mem _ hx, by rw [hxe, this]⟩

theorem emitRaw_error {file row type flags : Nat} {c : Chan} {err : Err}
    (h : emitRaw file row type flags c = .error err) : err = .prvZero := by
  unfold emitRaw at h
  split at h
  · cases hv : prvValue flags c.cur with
    | error e' => rw [hv] at h; have : e' = err := by injection h
                  rw [← this]; exact prvValue_error hv
    | ok v => rw [hv] at h; cases h
  · cases h

theorem emitView_error {file row type flags : Nat} {old new : Value} {err : Err}
    (h : emitView file row type flags old new = .error err) : err = .prvZero := by
  unfold emitView at h
  split at h
  · cases h
  · cases hv : prvValue flags new with
    | error e' => rw [hv] at h; have : e' = err := by injection h
                  rw [← this]; exact prvValue_error hv
    | ok v => rw [hv] at h; cases h

/-- `records` fails only with "forbidden value 0" (`emit` on a type without PRV_ZERO) -/
theorem records_error {old new : Emu} {err : Err} (h : records old new = .error err) : err = .prvZero := by
  unfold records at h
  obtain ⟨x, hx, hxe⟩ := collect_error h
  rcases List.mem_append.mp hx with hx | hx
  · obtain ⟨t, _, rfl⟩ := List.mem_map.mp hx
    unfold threadRecords at hxe
    obtain ⟨y, hy, hye⟩ := collect_error hxe
    rcases List.mem_append.mp hy with hy | hy
    · simp only [List.mem_cons, List.not_mem_nil, or_false] at hy
      rcases hy with rfl | rfl | rfl <;> exact emitRaw_error hye
    · obtain ⟨m, _, hy⟩ := List.mem_flatMap.mp hy
      obtain ⟨i, _, rfl⟩ := List.mem_map.mp hy
      exact emitView_error hye
  · obtain ⟨c, _, rfl⟩ := List.mem_map.mp hx
    unfold cpuRecords at hxe
    obtain ⟨y, hy, hye⟩ := collect_error hxe
    rcases List.mem_append.mp hy with hy | hy
    · simp only [List.mem_cons, List.not_mem_nil, or_false] at hy
      rcases hy with rfl | rfl | rfl <;> exact emitRaw_error hye
    · obtain ⟨m, _, hy⟩ := List.mem_flatMap.mp hy
      obtain ⟨i, _, rfl⟩ := List.mem_map.mp hy
      exact emitView_error hye

/-! ### the side condition -/

/-- the raw value of channel `i` of model `m` of a thread can be emitted with the channel's flags
    (`null` when the thread has no such channel) -/
def Thread.chanOk (t : Thread) (m : ModelSpec) (i : Nat) : Bool :=
  match t.getChans m.char with
  | none => true
  | some cs => prvOk (m.prvFlags.getD i 0) (cs.getD i {}).cur

/-- non-zero TID and PID, and no forbidden value on a model channel -/
def Thread.noZero (specs : List ModelSpec) (t : Thread) : Bool :=
  t.tid != 0 && t.pid != 0 && specs.all fun m => (List.range m.nch).all fun i => t.chanOk m i

/-- the CPU-mux default of every channel of the group can be emitted -/
def ModelSpec.defaultOk (m : ModelSpec) : Bool :=
  (List.range m.nch).all fun i =>
    match m.cpuDefault.find? (·.1 == i) with
    | some (_, v) => prvOk (m.prvFlags.getD i 0) (.int v)
    | none => true

/-- **Side condition for total record emission**: every thread has a non-zero TID and PID; the
    raw value every model channel (of the enabled models and the run-time groups) holds, and every
    CPU-mux default, is accepted by `emit` under the channel's flags (not an integer 0 without
    PRV_ZERO). -/
def NoZeroIds (e : Emu) : Prop :=
  (∀ t ∈ e.threads, t.noZero e.specs = true) ∧ (∀ m ∈ e.specs, m.defaultOk = true)

instance (e : Emu) : Decidable (NoZeroIds e) := by unfold NoZeroIds; exact inferInstance

theorem Thread.noZero_iff {specs : List ModelSpec} {t : Thread} :
    t.noZero specs = true ↔ t.tid ≠ 0 ∧ t.pid ≠ 0 ∧ ∀ m ∈ specs, ∀ i, i < m.nch → t.chanOk m i = true := by
  unfold Thread.noZero
  simp only [Bool.and_eq_true, bne_iff_ne, ne_eq, List.all_eq_true, List.mem_range, and_assoc]

/-! ### views under the side condition -/

theorem thView_ok {specs : List ModelSpec} {t : Thread} (h : t.noZero specs = true) {m : ModelSpec}
    (hm : m ∈ specs) (i : Nat) (hi : i < m.nch) : prvOk (m.prvFlags.getD i 0) (thView t m i) = true := by
  have hc := (Thread.noZero_iff.mp h).2.2 m hm i hi
  unfold Thread.chanOk at hc
  unfold thView
  cases hg : t.getChans m.char with
  | none => rfl
  | some cs =>
    rw [hg] at hc
    simp only
    split
    · exact hc
    · rfl

theorem cpuSelected_mem {e : Emu} {c : Cpu} {t : Thread} (h : cpuSelected e c = some t) : t ∈ e.threads := by
  unfold cpuSelected at h
  split at h
  · split at h
    · cases h
    · exact List.mem_of_getElem? h
  · cases h

theorem cpuView_ok {e : Emu} (h : NoZeroIds e) (c : Cpu) {m : ModelSpec} (hm : m ∈ e.specs) (i : Nat)
    (hi : i < m.nch) : prvOk (m.prvFlags.getD i 0) (cpuView e c m i) = true := by
  unfold cpuView
  cases hs : cpuSelected e c with
  | none =>
    have hd := h.2 m hm
    unfold ModelSpec.defaultOk at hd
    rw [List.all_eq_true] at hd
    have := hd i (List.mem_range.mpr hi)
    simp only
    cases hf : m.cpuDefault.find? (·.1 == i) with
    | none => rfl
    | some x => rw [hf] at this; exact this
  | some t =>
    have hc := (Thread.noZero_iff.mp (h.1 t (cpuSelected_mem hs))).2.2 m hm i hi
    unfold Thread.chanOk at hc
    simp only
    cases hg : t.getChans m.char with
    | none => rfl
    | some cs => rw [hg] at hc; exact hc

/-! ### `records` is total when the flushed successor is well-formed -/

/-- before the flush the three raw channels of every thread already show its logical state -/
theorem wf_flush_thread {e : Emu} (hw : WF e.flushAll) {t : Thread} (ht : t ∈ e.threads) :
    t.chState.cur = stateVal t.state ∧ t.chTid.cur = tidVal t.state t.tid ∧ t.chCpu.cur = cpuVal t.cpu := by
  obtain ⟨i, hi⟩ := List.mem_iff_getElem?.mp ht
  have hf : e.flushAll.threads[i]? = some t.flush := by
    rw [Emu.flushAll_eq]
    show (e.threads.map Thread.flush)[i]? = _
    rw [List.getElem?_map, hi]; rfl
  have hth := hw.th i _ hf
  exact ⟨(Chan.flush_cur t.chState).symm.trans hth.chState.cur,
    (Chan.flush_cur t.chTid).symm.trans hth.chTid.cur,
    (Chan.flush_cur t.chCpu).symm.trans hth.chCpu.cur⟩

/-- before the flush the pid / tid channels of every CPU already show the unique running thread -/
theorem wf_flush_cpu {e : Emu} (hw : WF e.flushAll) {c : Cpu} (hc : c ∈ e.cpus) :
    ∃ g, c.gindex = g ∧ c.chPid.cur = uniq (runOf (onCpu e.flushAll.threads g)) (·.pid) ∧
      c.chTid.cur = uniq (runOf (onCpu e.flushAll.threads g)) (·.tid) ∧
      c.chThrun.cur = uniq (runOf (onCpu e.flushAll.threads g)) (fun t => (t.gindex : Int)) := by
  obtain ⟨g, hg⟩ := List.mem_iff_getElem?.mp hc
  have hf : e.flushAll.cpus[g]? = some c.flush := by
    rw [Emu.flushAll_eq]
    show (e.cpus.map Cpu.flush)[g]? = _
    rw [List.getElem?_map, hg]; rfl
  have hcp := hw.cpu g _ hf
  obtain ⟨vn, hch, _⟩ := hcp.vals
  exact ⟨g, hcp.gidx, (Chan.flush_cur c.chPid).symm.trans hch.pid.cur,
    (Chan.flush_cur c.chTid).symm.trans hch.tid.cur, (Chan.flush_cur c.chThrun).symm.trans hch.thrun.cur⟩

theorem mem_runOf_onCpu {ths : List Thread} {g : Nat} {t : Thread} (h : t ∈ runOf (onCpu ths g)) : t ∈ ths := by
  unfold runOf onCpu at h
  exact (List.mem_filter.mp (List.mem_filter.mp h).1).1

theorem mem_flushAll_threads {e : Emu} {t : Thread} (h : t ∈ e.flushAll.threads) :
    ∃ u ∈ e.threads, t = u.flush := by
  rw [Emu.flushAll_eq] at h
  obtain ⟨u, hu, rfl⟩ := List.mem_map.mp h
  exact ⟨u, hu, rfl⟩

/-- **`records` is total**: whenever the flushed successor state is well-formed and the successor
    satisfies `NoZeroIds`, the Paraver records of the step can be emitted. -/
theorem records_total_of_wf (old : Emu) {new : Emu} (hw : WF new.flushAll) (hz : NoZeroIds new) :
    ∃ rs, records old new = .ok rs := by
  unfold records
  apply collect_total
  intro x hx
  rcases List.mem_append.mp hx with hx | hx
  · obtain ⟨t, ht, rfl⟩ := List.mem_map.mp hx
    obtain ⟨a, b, c⟩ := wf_flush_thread hw ht
    have hn := hz.1 t ht
    have hid := Thread.noZero_iff.mp hn
    apply threadRecords_total
    · rw [c]; exact prvOk_cpu _
    · rw [b]; exact prvOk_tid _ hid.1
    · rw [a]; exact prvOk_state _
    · intro m hm i hi; exact thView_ok hn hm i hi
  · obtain ⟨c, hc, rfl⟩ := List.mem_map.mp hx
    obtain ⟨g, _, a, b, _⟩ := wf_flush_cpu hw hc
    have hids : ∀ t ∈ runOf (onCpu new.flushAll.threads g), t.pid ≠ 0 ∧ t.tid ≠ 0 := by
      intro t ht
      obtain ⟨u, hu, rfl⟩ := mem_flushAll_threads (mem_runOf_onCpu ht)
      have hid := Thread.noZero_iff.mp (hz.1 u hu)
      exact ⟨hid.2.1, hid.1⟩
    apply cpuRecords_total
    · rw [a]; exact prvOk_uniq (fun t ht => (hids t ht).1)
    · rw [b]; exact prvOk_uniq (fun t ht => (hids t ht).2)
    · intro m hm i hi; exact cpuView_ok hz c hm i hi

/-! ### the side condition only reads the static part -/

/-- `Thread.chanOk` as a function of the static part of the thread -/
def chanOkS (k : List (Nat × List (List Value))) (m : ModelSpec) (i : Nat) : Bool :=
  match (k.find? (·.1 == m.char)).map (·.2) with
  | none => true
  | some vs => prvOk (m.prvFlags.getD i 0) (match (vs.getD i []).getLast? with | some v => v | none => .null)

theorem chanOk_static (t : Thread) (m : ModelSpec) (i : Nat) : t.chanOk m i = chanOkS t.static.2.2.2.2.2 m i := by
  unfold chanOkS Thread.chanOk Thread.getChans Thread.static
  simp only [List.find?_map]
  have : ((fun x : Nat × List (List Value) => x.1 == m.char) ∘ fun x : Nat × List Chan => (x.1, x.2.map Chan.vals)) =
      (fun x : Nat × List Chan => x.1 == m.char) := rfl
  rw [this]
  cases t.mch.find? (fun x => x.1 == m.char) with
  | none => rfl
  | some x => simp only [Option.map_some]; rw [getD_map_vals]; rfl

def noZeroS (specs : List ModelSpec) (k : Nat × Int × Int × Nat × Bool × List (Nat × List (List Value))) : Bool :=
  k.2.1 != 0 && k.2.2.1 != 0 && specs.all fun m => (List.range m.nch).all fun i => chanOkS k.2.2.2.2.2 m i

theorem noZero_static (specs : List ModelSpec) (t : Thread) : t.noZero specs = noZeroS specs t.static := by
  unfold Thread.noZero noZeroS
  simp only [chanOk_static]
  rfl

theorem SameStatic.specs {e e' : Emu} (h : SameStatic e e') : e'.specs = e.specs := by
  unfold Emu.specs; rw [h.enabled, h.extra]

/-- `NoZeroIds` is inherited by every state with the same static part (identities, model channel
    contents, enabled models, run-time groups): in particular along OH* / OA* steps and flushes -/
theorem NoZeroIds.of_static {e e' : Emu} (h : SameStatic e e') (hz : NoZeroIds e) : NoZeroIds e' := by
  refine ⟨fun t ht => ?_, fun m hm => ?_⟩
  · rw [noZero_static, h.specs]
    have hk : t.static ∈ e.threads.map Thread.static := by
      rw [← h.threads]; exact List.mem_map.mpr ⟨t, ht, rfl⟩
    obtain ⟨u, hu, hus⟩ := List.mem_map.mp hk
    rw [← hus, ← noZero_static]
    exact hz.1 u hu
  · rw [h.specs] at hm; exact hz.2 m hm

theorem NoZeroIds.flushAll {e : Emu} (hz : NoZeroIds e) : NoZeroIds e.flushAll :=
  hz.of_static (SameStatic.flushAll e)

theorem NoZeroIds.of_flushAll {e : Emu} (hz : NoZeroIds e.flushAll) : NoZeroIds e :=
  hz.of_static (SameStatic.flushAll e).symm

/-! ### the initial state -/

/-- the connect-time value of every channel of the group can be emitted -/
def ModelSpec.initOk (m : ModelSpec) : Bool :=
  (List.range m.nch).all fun i =>
    match m.initVals.find? (·.1 == i) with
    | some (_, v) => prvOk (m.prvFlags.getD i 0) (.int v)
    | none => true

/-- the connect-time values and CPU-mux defaults of all eight models are accepted by `emit`
    (regenerated specs) -/
theorem allSpecs_initOk : ∀ m ∈ allSpecs, m.initOk = true ∧ m.defaultOk = true := by decide

theorem allSpecs_chars_nodup : (allSpecs.map (·.char)).Nodup := by decide

theorem freshChans_cur (m : ModelSpec) {i : Nat} (hi : i < m.nch) :
    (m.freshChans.getD i {}).cur =
      match m.initVals.find? (·.1 == i) with
      | some (_, v) => .int v
      | none => .null := by
  unfold ModelSpec.freshChans
  rw [List.getD_eq_getElem?_getD, List.getElem?_map, List.getElem?_range hi]
  simp only [Option.map_some, Option.getD_some]
  cases m.initVals.find? (·.1 == i) with
  | none => rfl
  | some y => rfl

theorem find_char_of_nodup : ∀ {specs : List ModelSpec}, (specs.map (·.char)).Nodup → ∀ {m : ModelSpec}, m ∈ specs →
    (specs.map fun s => (s.char, s.freshChans)).find? (·.1 == m.char) = some (m.char, m.freshChans)
  | [], _, m, hm => by cases hm
  | s :: rest, hnd, m, hm => by
    rw [List.map_cons, List.nodup_cons] at hnd
    rw [List.map_cons, List.find?_cons]
    rcases List.mem_cons.mp hm with rfl | hm'
    · simp
    · have hne : ¬ (s.char = m.char) := fun h => hnd.1 (h ▸ List.mem_map.mpr ⟨m, hm', rfl⟩)
      have hb : (s.char == m.char) = false := by simp [hne]
      simp only [hb]
      exact find_char_of_nodup hnd.2 hm'

/-- **`NoZeroIds` of the initial state.**  The emulator built from the hierarchy satisfies the
    side condition as soon as no TID / PID is 0, the channel groups have distinct ids and the
    connect-time values and CPU-mux defaults of the run-time groups are accepted by `emit` (those of
    the eight models are: `allSpecs_initOk`). -/
theorem noZeroIds_mkEmu (threads : List (Int × Int × Nat)) (cpus : List (Nat × Int × Bool))
    (enabled : List Nat) (lint : Bool) (extra : List ModelSpec)
    (hid : ∀ x ∈ threads, x.1 ≠ 0 ∧ x.2.1 ≠ 0)
    (hx : ∀ m ∈ extra, m.initOk = true ∧ m.defaultOk = true)
    (hnd : ((allSpecs.filter (fun s => enabled.contains s.char) ++ extra).map (·.char)).Nodup) :
    NoZeroIds (mkEmu threads cpus enabled lint extra) := by
  have hspecs : (mkEmu threads cpus enabled lint extra).specs =
      allSpecs.filter (fun s => enabled.contains s.char) ++ extra := rfl
  have hok : ∀ m ∈ allSpecs.filter (fun s => enabled.contains s.char) ++ extra,
      m.initOk = true ∧ m.defaultOk = true := by
    intro m hm
    rcases List.mem_append.mp hm with hm | hm
    · exact allSpecs_initOk m (List.mem_filter.mp hm).1
    · exact hx m hm
  refine ⟨fun t ht => ?_, fun m hm => ?_⟩
  · rw [hspecs]
    obtain ⟨i, hi⟩ := List.mem_iff_getElem?.mp ht
    unfold mkEmu at hi
    simp only [List.getElem?_mapIdx] at hi
    cases hxi : threads[i]? with
    | none => simp [hxi] at hi
    | some x =>
      simp only [hxi, Option.map_some, Option.some.injEq] at hi
      subst hi
      obtain ⟨h1, h2⟩ := hid x (List.mem_of_getElem? hxi)
      refine Thread.noZero_iff.mpr ⟨h1, h2, fun m hm j hj => ?_⟩
      unfold Thread.chanOk Thread.getChans
      simp only [find_char_of_nodup hnd hm, Option.map_some]
      rw [freshChans_cur m hj]
      have hio := (hok m hm).1
      unfold ModelSpec.initOk at hio
      rw [List.all_eq_true] at hio
      have := hio j (List.mem_range.mpr hj)
      cases hf : m.initVals.find? (·.1 == j) with
      | none => rfl
      | some y => rw [hf] at this; exact this
  · rw [hspecs] at hm; exact (hok m hm).2

/-- without run-time groups only the TIDs and PIDs matter -/
theorem noZeroIds_mkEmu_nil (threads : List (Int × Int × Nat)) (cpus : List (Nat × Int × Bool))
    (enabled : List Nat) (lint : Bool) (hid : ∀ x ∈ threads, x.1 ≠ 0 ∧ x.2.1 ≠ 0) :
    NoZeroIds (mkEmu threads cpus enabled lint []) := by
  apply noZeroIds_mkEmu threads cpus enabled lint [] hid (fun m hm => by cases hm)
  rw [List.append_nil]
  exact (allSpecs_chars_nodup.sublist ((List.filter_sublist).map _))

/-! ### one accepted thread / affinity step -/

section
variable (th mh : Emu → Nat → Nat → Nat → List Nat → Except Err Emu)

/-- In a well-formed state satisfying `NoZeroIds`, the records of every thread or affinity event the
    handlers accept can be emitted, and the side condition holds again after the step. -/
theorem records_total_step {e e1 : Emu} (h : WF e) (hz : NoZeroIds e) (hen : e.enabled.contains 79 = true)
    {ev : OEv} (hk : IsThreadEv ev ∨ IsAffinityEv ev)
    (hm : modelEvent e ev.1 79 ev.2.1 ev.2.2.1 ev.2.2.2 th mh = .ok e1) :
    (∃ rs, records e e1 = .ok rs) ∧ NoZeroIds e1.flushAll := by
  have hs : emuStep th mh e ev = .ok e1.flushAll := by unfold emuStep; rw [hm]
  obtain ⟨tj, x, hso⟩ := emuStep_sound th mh h hen hk hs
  have hz1 : NoZeroIds e1.flushAll := hz.of_static hso.static
  exact ⟨records_total_of_wf e hso.wf hz1.of_flushAll, hz1⟩

/-- with `NoZeroIds`, the full step (`stepEv`: handlers, records, flush) accepts exactly when its
    emulator component (`emuStep`: handlers, flush) does -/
theorem stepEv_iff_emuStep {e : Emu} (h : WF e) (hz : NoZeroIds e) (hen : e.enabled.contains 79 = true)
    {ev : OEv} (hk : IsThreadEv ev ∨ IsAffinityEv ev) (e' : Emu) :
    (∃ rs, stepEv e ev.1 79 ev.2.1 ev.2.2.1 ev.2.2.2 th mh = .ok (e', rs)) ↔ emuStep th mh e ev = .ok e' := by
  constructor
  · rintro ⟨rs, hs⟩; exact stepEv_emuStep th mh hs
  · intro hs
    unfold emuStep at hs
    cases hm : modelEvent e ev.1 79 ev.2.1 ev.2.2.1 ev.2.2.2 th mh with
    | error err => rw [hm] at hs; cases hs
    | ok e1 =>
      rw [hm] at hs
      have he' : e' = e1.flushAll := by injection hs with h'; exact h'.symm
      obtain ⟨⟨rs, hrs⟩, _⟩ := records_total_step th mh h hz hen hk hm
      exact ⟨rs, (stepEv_ok_iff th mh e ev e' rs).mpr ⟨e1, hm, hrs, he'⟩⟩

/-- when the emulator component accepts and the full step does not, the error is `emit`'s
    "forbidden value 0" -/
theorem stepEv_error_of_emuStep_ok {e e' : Emu} {ev : OEv} (hs : emuStep th mh e ev = .ok e') {err : Err}
    (hf : stepEv e ev.1 79 ev.2.1 ev.2.2.1 ev.2.2.2 th mh = .error err) : err = .prvZero := by
  unfold emuStep at hs
  unfold stepEv at hf
  cases hm : modelEvent e ev.1 79 ev.2.1 ev.2.2.1 ev.2.2.2 th mh with
  | error e2 => rw [hm] at hs; cases hs
  | ok e1 =>
    rw [hm] at hf
    simp only [ok_bind] at hf
    cases hr : records e e1 with
    | error e2 =>
      rw [hr] at hf
      have : e2 = err := by injection hf
      rw [← this]; exact records_error hr
    | ok rs => rw [hr] at hf; cases hf
end

end Ovni.Emu
