import OvniModel.Lemmas.CoreBaySim
import OvniModel.Lemmas.EmuCoreSteps

/-
  C06, last composition step (3b/4): every handler of `Emu/Core.lean` is a
  `Sim` step — structural induction over `modelEvent`.  The two hooks (task
  layer, mark events) are parameters of `modelEvent`; they are covered by the
  hypothesis `HookSim`, which holds for the hooks in use (`noHook`,
  `markEvent`: see `CoreBay.lean`).
-/
set_option linter.unusedSimpArgs false
namespace Ovni.Emu


theorem Thread.setState_spec {t t' : Thread} {st : ThState} (h : t.setState st = .ok t') :
    t'.gindex = t.gindex ∧ t'.mch = t.mch ∧ t.chState.set (.int st.code) = .ok t'.chState ∧
    t'.cpu = t.cpu ∧ t'.state = st := by
  unfold Thread.setState at h
  simp only [bind, Except.bind, pure, Except.pure] at h
  split at h
  · cases h
  · split at h
    · cases h
    · rename_i cs hcs
      split at h
      · cases h
      · rename_i ct hct
        cases h
        exact ⟨rfl, rfl, hcs, rfl, rfl⟩

theorem Thread.setCpu_spec {t t' : Thread} {ci : Nat} (h : t.setCpu ci = .ok t') :
    t'.gindex = t.gindex ∧ t'.mch = t.mch ∧ t'.chState = t.chState ∧ t'.state = t.state ∧ t'.cpu = some ci := by
  unfold Thread.setCpu at h
  simp only [bind, Except.bind, pure, Except.pure] at h
  split at h
  · cases h
  · split at h
    · cases h
    · cases h
      exact ⟨rfl, rfl, rfl, rfl, rfl⟩

theorem cpuUpdate_spec {ths : List Thread} {c c' : Cpu} (h : cpuUpdate ths c = .ok c') :
    c'.gindex = c.gindex ∧ c'.threads = c.threads ∧
    (∃ v, c.chThrun.set v = .ok c'.chThrun ∧
      (v = .null ∨ ∃ g t, g ∈ c.threads ∧ ths[g]? = some t ∧ v = .int t.gindex)) ∧
    (∃ v, c.chThact.set v = .ok c'.chThact) := by
  unfold cpuUpdate at h
  simp only [bind, Except.bind, pure, Except.pure] at h
  generalize hr : List.filter (fun t => decide (t.state = ThState.running))
    (List.filterMap (fun g => ths[g]?) c.threads) = r at h
  split at h
  · simp [throw, throwThe, MonadExceptOf.throw] at h
  · split at h
    · cases h
    · split at h
      · cases h
      · split at h
        · cases h
        · rename_i v2 hv2
          split at h
          · cases h
          · split at h
            · cases h
            · rename_i v4 hv4
              cases h
              refine ⟨rfl, rfl, ⟨_, hv2, ?_⟩, ⟨_, hv4⟩⟩
              rcases r with _ | ⟨t, _ | ⟨t', r⟩⟩
              · exact Or.inl rfl
              · right
                have hm : t ∈ List.filter (fun t => decide (t.state = ThState.running))
                    (List.filterMap (fun g => ths[g]?) c.threads) := by rw [hr]; simp
                obtain ⟨g, hg, hgt⟩ := List.mem_filterMap.mp (List.mem_filter.mp hm).1
                exact ⟨g, t, hg, hgt, rfl⟩
              · exact Or.inl rfl

theorem Chan.set_cur_noign {c c' : Chan} {v : Value} (hi : c.ignoreDup = false) (h : c.set v = .ok c') :
    c'.cur = v := by
  unfold Chan.set at h
  simp only [hi] at h
  repeat' split at h
  all_goals first | cases h | skip
  all_goals first | rfl | (rename_i hf; cases hf)

theorem Chan.set_cur_cases {c c' : Chan} {v : Value} (h : c.set v = .ok c') : c' = c ∨ c'.cur = v := by
  unfold Chan.set at h
  repeat' split at h
  all_goals first | cases h | skip
  all_goals first | exact Or.inl rfl | exact Or.inr rfl

theorem SimP.cpuUpdate {e : Emu} {ci : Nat} {c c0 c' : Cpu} (hc : e.cpus[ci]? = some c)
    (hg0 : c0.gindex = c.gindex) (hr0 : c0.chThrun = c.chThrun) (ha0 : c0.chThact = c.chThact)
    (hu : cpuUpdate e.threads c0 = .ok c') : SimP Src.isSys e (e.setCpu c') := by
  intro hs
  obtain ⟨hg, _, ⟨v1, h1, hv1⟩, ⟨v2, h2⟩⟩ := cpuUpdate_spec hu
  rw [hr0] at h1; rw [ha0] at h2
  refine SimP.setCpu trivial trivial hc (hg.trans hg0) (chanOp_set v1) (chanOp_set v2) h1 h2 ?_ hs
  rcases Chan.set_cur_cases h1 with he | he
  · rw [he]; exact hs.run ci c hc
  · rw [he]
    rcases hv1 with rfl | ⟨g, t, _, hgt, rfl⟩
    · trivial
    · have := hs.thIdx g t hgt
      have hlt : g < e.threads.length := (List.getElem?_eq_some_iff.mp hgt).1
      simp only [RunOk, this]
      omega

theorem SimP.cpuAddThread {e e' : Emu} {ci ti : Nat} (h : cpuAddThread e ci ti = .ok e') :
    SimP Src.isSys e e' := by
  unfold Ovni.Emu.cpuAddThread at h
  cases hc : e.cpus[ci]? with
  | none => simp [hc] at h
  | some c =>
    simp only [hc] at h
    by_cases hin : c.threads.contains ti = true
    · simp only [hin, if_true] at h; cases h
    · simp only [hin] at h
      cases hu : Ovni.Emu.cpuUpdate e.threads { c with threads := c.threads ++ [ti] } with
      | error err => simp only [hu] at h; cases h
      | ok c' =>
        simp only [hu] at h
        have : e.setCpu c' = e' := by injection h
        rw [← this]
        exact SimP.cpuUpdate (c0 := { c with threads := c.threads ++ [ti] }) hc rfl rfl rfl hu

theorem SimP.cpuRemoveThread {e e' : Emu} {ci ti : Nat} (h : cpuRemoveThread e ci ti = .ok e') :
    SimP Src.isSys e e' := by
  unfold Ovni.Emu.cpuRemoveThread at h
  cases hc : e.cpus[ci]? with
  | none => simp [hc] at h
  | some c =>
    simp only [hc] at h
    by_cases hin : (!c.threads.contains ti) = true
    · simp only [hin, if_true] at h; cases h
    · simp only [hin] at h
      cases hu : Ovni.Emu.cpuUpdate e.threads { c with threads := c.threads.erase ti } with
      | error err => simp only [hu] at h; cases h
      | ok c' =>
        simp only [hu] at h
        have : e.setCpu c' = e' := by injection h
        rw [← this]
        exact SimP.cpuUpdate (c0 := { c with threads := c.threads.erase ti }) hc rfl rfl rfl hu

theorem SimP.cpuRefresh {e e' : Emu} {ci : Nat} (h : cpuRefresh e ci = .ok e') :
    SimP Src.isSys e e' := by
  unfold Ovni.Emu.cpuRefresh at h
  cases hc : e.cpus[ci]? with
  | none => simp [hc] at h
  | some c =>
    simp only [hc] at h
    cases hu : Ovni.Emu.cpuUpdate e.threads c with
    | error err => simp only [hu] at h; cases h
    | ok c' =>
      simp only [hu] at h
      have : e.setCpu c' = e' := by injection h
      rw [← this]
      exact SimP.cpuUpdate (c0 := c) hc rfl rfl rfl hu

theorem SimP.preThreadExecute {e e' : Emu} {ti : Nat} {p : List Nat} (h : preThreadExecute e ti p = .ok e') :
    SimP Src.isSys e e' := by
  unfold Ovni.Emu.preThreadExecute at h
  cases ht : e.threads[ti]? with
  | none => simp [ht] at h
  | some t =>
    simp only [ht] at h
    simp only [bind, Except.bind, pure, Except.pure, throw, throwThe, MonadExceptOf.throw] at h
    repeat' split at h
    all_goals first | (cases h; done) | skip
    rename_i ci _ t1 h1 _ t2 h2
    obtain ⟨a1, a2, a3, _, _⟩ := Thread.setCpu_spec h1
    obtain ⟨b1, b2, b3, _, b5⟩ := Thread.setState_spec h2
    exact (SimP.setThread trivial ht (b1.trans a1) (b2.trans a2) (chanOp_set _) (a3 ▸ b3)
      (fun hi => Or.inl (by rw [b5]; exact Chan.set_cur_noign hi (a3 ▸ b3)))).trans (SimP.cpuAddThread h)

theorem Thread.unsetCpu_spec {t t' : Thread} (h : t.unsetCpu = .ok t') :
    t'.gindex = t.gindex ∧ t'.mch = t.mch ∧ t'.chState = t.chState ∧ t'.state = t.state := by
  unfold Thread.unsetCpu at h
  simp only [bind, Except.bind, pure, Except.pure] at h
  split at h
  · cases h
  · split at h
    · cases h
    · cases h
      exact ⟨rfl, rfl, rfl, rfl⟩

theorem Thread.migrateCpu_spec {t t' : Thread} {ci : Nat} (h : t.migrateCpu ci = .ok t') :
    t'.gindex = t.gindex ∧ t'.mch = t.mch ∧ t'.chState = t.chState ∧ t'.state = t.state := by
  unfold Thread.migrateCpu at h
  simp only [bind, Except.bind, pure, Except.pure] at h
  split at h
  · cases h
  · split at h
    · cases h
    · cases h
      exact ⟨rfl, rfl, rfl, rfl⟩

theorem SimP.preThreadEnd {e e' : Emu} {ti : Nat} (h : preThreadEnd e ti = .ok e') :
    SimP Src.isSys e e' := by
  unfold Ovni.Emu.preThreadEnd at h
  cases ht : e.threads[ti]? with
  | none => simp [ht] at h
  | some t =>
    simp only [ht] at h
    simp only [bind, Except.bind, pure, Except.pure, throw, throwThe, MonadExceptOf.throw] at h
    repeat' split at h
    all_goals first | (cases h; done) | skip
    rename_i _ t1 h1 _ ci hci _ e1 hrm _ t2 h2
    injection h with h; subst h
    intro hs
    obtain ⟨a1, a2, a3, _, a5⟩ := Thread.setState_spec h1
    obtain ⟨b1, b2, b3, b4⟩ := Thread.unsetCpu_spec h2
    have hti : t1.gindex = ti := a1.trans (hs.thIdx ti t ht)
    have hlt : ti < e.threads.length := (List.getElem?_eq_some_iff.mp ht).1
    have ht1 : e1.threads[ti]? = some t1 := by
      rw [cpuRemoveThread_threads hrm]
      simp only [Emu.setThread, hti, List.getElem?_set_self hlt]
    exact ((SimP.setThread trivial ht a1 a2 (chanOp_set _) a3
        (fun hi => Or.inl (by rw [a5]; exact Chan.set_cur_noign hi a3))).trans
      ((SimP.cpuRemoveThread hrm).trans (SimP.setThread_same ht1 b1 b2 b3 b4))) hs

theorem SimP.preThreadChange {e e' : Emu} {ti : Nat} {ok : ThState → Bool} {st : ThState}
    (h : preThreadChange e ti ok st = .ok e') :
    SimP Src.isSys e e' := by
  unfold Ovni.Emu.preThreadChange at h
  cases ht : e.threads[ti]? with
  | none => simp [ht] at h
  | some t =>
    simp only [ht] at h
    simp only [bind, Except.bind, pure, Except.pure, throw, throwThe, MonadExceptOf.throw] at h
    repeat' split at h
    all_goals first | (cases h; done) | skip
    rename_i _ t1 h1 _ ci hci
    obtain ⟨a1, a2, a3, _, a5⟩ := Thread.setState_spec h1
    exact (SimP.setThread trivial ht a1 a2 (chanOp_set _) a3
      (fun hi => Or.inl (by rw [a5]; exact Chan.set_cur_noign hi a3))).trans (SimP.cpuRefresh h)

theorem SimP.preThread {e e' : Emu} {ti v : Nat} {p : List Nat} (h : preThread e ti v p = .ok e') :
    SimP Src.isSys e e' := by
  unfold Ovni.Emu.preThread at h
  repeat' split at h
  · injection h with h; subst h; exact SimP.refl _
  · exact SimP.preThreadExecute h
  · exact SimP.preThreadEnd h
  · exact SimP.preThreadChange h
  · exact SimP.preThreadChange h
  · exact SimP.preThreadChange h
  · exact SimP.preThreadChange h
  · cases h

theorem SimP.migrate {e e' : Emu} {ti fr to : Nat} (h : migrate e ti fr to = .ok e') :
    SimP Src.isSys e e' := by
  unfold Ovni.Emu.migrate at h
  simp only [bind, Except.bind, pure, Except.pure, throw, throwThe, MonadExceptOf.throw] at h
  repeat' split at h
  all_goals first | (cases h; done) | skip
  rename_i _ e1 hrm _ e2 hadd _ t ht _ t1 h1
  injection h with h; subst h
  obtain ⟨b1, b2, b3, b4⟩ := Thread.migrateCpu_spec h1
  exact (SimP.cpuRemoveThread hrm).trans ((SimP.cpuAddThread hadd).trans (SimP.setThread_same ht b1 b2 b3 b4))

theorem SimP.preAffinitySet {e e' : Emu} {ti : Nat} {p : List Nat} (h : preAffinitySet e ti p = .ok e') :
    SimP Src.isSys e e' := by
  unfold Ovni.Emu.preAffinitySet at h
  simp only [bind, Except.bind, pure, Except.pure, throw, throwThe, MonadExceptOf.throw] at h
  repeat' split at h
  all_goals first | (cases h; done) | skip
  · injection h with h; subst h; exact SimP.refl _
  · exact SimP.migrate h

theorem SimP.preAffinityRemote {e e' : Emu} {ti : Nat} {p : List Nat} (h : preAffinityRemote e ti p = .ok e') :
    SimP Src.isSys e e' := by
  unfold Ovni.Emu.preAffinityRemote at h
  simp only [bind, Except.bind, pure, Except.pure, throw, throwThe, MonadExceptOf.throw] at h
  repeat' split at h
  all_goals first | (cases h; done) | skip
  exact SimP.migrate h

/-! ### raw model channels -/

theorem nodup_getElem?_inj {l : List Nat} (h : l.Nodup) {i j a : Nat} (hi : l[i]? = some a)
    (hj : l[j]? = some a) : i = j := by
  obtain ⟨hil, hia⟩ := List.getElem?_eq_some_iff.mp hi
  obtain ⟨hjl, hja⟩ := List.getElem?_eq_some_iff.mp hj
  have h1 := h.idxOf_getElem i hil
  have h2 := h.idxOf_getElem j hjl
  rw [hia] at h1; rw [hja] at h2
  exact h1.symm.trans h2

theorem Thread.getChans_at {t : Thread} {m : Nat} {cs : List Chan} (h : t.getChans m = some cs) :
    ∃ k : Nat, t.mch[k]? = some (m, cs) := by
  unfold Thread.getChans at h
  cases hf : t.mch.find? (·.1 == m) with
  | none => rw [hf] at h; cases h
  | some x =>
    rw [hf] at h
    simp only [Option.map_some, Option.some.injEq] at h
    have hp := List.find?_some hf
    have hx : x = (m, cs) := by
      obtain ⟨a, b⟩ := x
      simp only at h hp
      rw [h, eq_of_beq hp]
    obtain ⟨k, hk⟩ := List.mem_iff_getElem?.mp (List.mem_of_find?_eq_some hf)
    exact ⟨k, hx ▸ hk⟩

theorem Thread.setChans_getElem? {t : Thread} {m k : Nat} {cs cs' : List Chan}
    (hnd : (t.mch.map (·.1)).Nodup) (hk : t.mch[k]? = some (m, cs)) (k' : Nat) :
    (t.setChans m cs').mch[k']? = if k' = k then some (m, cs') else t.mch[k']? := by
  simp only [Thread.setChans, List.getElem?_map]
  by_cases hkk : k' = k
  · subst hkk; simp [hk]
  · simp only [hkk, if_false]
    cases hx : t.mch[k']? with
    | none => rfl
    | some x =>
      simp only [Option.map_some]
      have hne : ¬ (x.1 == m) = true := by
        intro he
        have h1 : (t.mch.map (·.1))[k']? = some m := by rw [List.getElem?_map, hx]; simp [eq_of_beq he]
        have h2 : (t.mch.map (·.1))[k]? = some m := by rw [List.getElem?_map, hk]; rfl
        exact hkk (nodup_getElem?_inj hnd h1 h2)
      simp [hne]

theorem Shaped.keys {e : Emu} (hs : Shaped e) {g : Nat} {t : Thread} (ht : e.threads[g]? = some t) :
    (t.mch.map (·.1)).Nodup := by
  have h := congrArg (List.map Prod.fst) (hs.mch g t ht)
  simp only [List.map_map] at h
  have h1 : (t.mch.map (·.1)) = e.specs.map (·.char) := h
  rw [h1]; exact hs.chars

theorem SimP.withChan {e e' : Emu} {ti m i : Nat} {f : Chan → Except Err Chan} (hf : ChanOp f)
    (h : withChan e ti m i f = .ok e') : SimP Src.isRaw e e' := by
  unfold Ovni.Emu.withChan at h
  simp only [bind, Except.bind, pure, Except.pure, throw, throwThe, MonadExceptOf.throw] at h
  repeat' split at h
  all_goals first | (cases h; done) | skip
  rename_i _ t ht _ cs hcs _ c hc _ c' hfc
  injection h with h; subst h
  intro hs
  obtain ⟨k, hk⟩ := Thread.getChans_at hcs
  have hnd := hs.keys ht
  have hg : (t.setChans m (cs.set i c')).gindex = ti := hs.thIdx ti t ht
  have hlt : ti < e.threads.length := (List.getElem?_eq_some_iff.mp ht).1
  have hil : i < cs.length := (List.getElem?_eq_some_iff.mp hc).1
  have hthr : (e.setThread (t.setChans m (cs.set i c'))).threads = e.threads.set ti (t.setChans m (cs.set i c')) := by
    simp only [Emu.setThread, hg]
  have hmch := Thread.setChans_getElem? (cs' := cs.set i c') hnd hk
  refine SimP.of_write (fun hs => ⟨⟨?_, hs.cpuIdx, ?_, hs.chars, ?_, ?_⟩, ?_⟩) (.raw ti k i) trivial hf
    (by simp only [Emu.src, ht, hk, hc]) hfc ?_ ?_ hs
  · intro g u hu
    rw [hthr] at hu
    rcases getElem?_set_some hu with ⟨rfl, rfl⟩ | ⟨_, h⟩
    · exact hg
    · exact hs.thIdx g u h
  · intro g u hu
    rw [hthr] at hu
    show _ = e.specs.map _
    rcases getElem?_set_some hu with ⟨rfl, rfl⟩ | ⟨_, h⟩
    · rw [← hs.mch g t ht]
      apply List.ext_getElem?
      intro k'
      simp only [List.getElem?_map, hmch]
      by_cases hkk : k' = k
      · subst hkk; simp [hk]
      · simp [hkk]
    · exact hs.mch g u h
  · intro c x hx
    rw [hthr, List.length_set]
    exact hs.run c x hx
  · intro g u hu
    rw [hthr] at hu
    rcases getElem?_set_some hu with ⟨rfl, rfl⟩ | ⟨_, h⟩
    · exact hs.st g t ht
    · exact hs.st g u h
  · simp only [Emu.shape, hthr, List.length_set]; rfl
  · simp only [Emu.src, hthr, List.getElem?_set_self hlt, hmch, if_true, List.getElem?_set_self hil]
  · intro s hne
    cases s with
    | st g =>
      simp only [Emu.src, hthr]
      by_cases hgt : ti = g
      · subst hgt; simp only [List.getElem?_set_self hlt, ht, Option.map_some]; rfl
      · rw [List.getElem?_set_ne hgt]
    | run c => rfl
    | act c => rfl
    | raw g k' i' =>
      simp only [Emu.src, hthr]
      by_cases hgt : ti = g
      · subst hgt
        simp only [List.getElem?_set_self hlt, ht, hmch]
        by_cases hkk : k' = k
        · subst hkk
          simp only [if_true, hk]
          have : i ≠ i' := fun h => hne (by rw [h])
          rw [List.getElem?_set_ne this]
        · simp only [hkk, if_false]
      · rw [List.getElem?_set_ne hgt]

theorem SimP.preFlush {e e' : Emu} {ti v : Nat} (h : preFlush e ti v = .ok e') : SimP Src.isRaw e e' := by
  unfold Ovni.Emu.preFlush at h
  repeat' split at h
  · exact SimP.withChan (chanOp_set _) h
  · exact SimP.withChan (chanOp_set _) h
  · cases h

/-! ### dispatch -/

theorem Sim.ovniEvent {e e' : Emu} {ti c v : Nat} {p : List Nat}
    {mh : Emu → Nat → Nat → List Nat → Except Err Emu}
    (hmh : ∀ e ti v p e', mh e ti v p = .ok e' → Sim e e')
    (h : ovniEvent e ti c v p mh = .ok e') : Sim e e' := by
  unfold Ovni.Emu.ovniEvent at h
  simp only [bind, Except.bind, pure, Except.pure, throw, throwThe, MonadExceptOf.throw] at h
  repeat' split at h
  all_goals first | (cases h; done) | skip
  all_goals first
    | exact (SimP.preThread h).sim
    | exact (SimP.preAffinitySet h).sim
    | exact (SimP.preAffinityRemote h).sim
    | exact (SimP.preFlush h).sim
    | exact hmh _ _ _ _ _ h
    | (injection h with h; subst h; exact Sim.refl _)

theorem SimP.setOutOfCpu {P : Src → Prop} {e : Emu} {ti : Nat} {t : Thread} {b : Bool}
    (ht : e.threads[ti]? = some t) : SimP P e (e.setThread { t with outOfCpu := b }) :=
  SimP.setThread_same ht rfl rfl rfl rfl

theorem SimP.tableEvent {e e' : Emu} {ti c v : Nat} {m : ModelSpec}
    (h : tableEvent e ti m c v = .ok e') : SimP Src.isRaw e e' := by
  unfold Ovni.Emu.tableEvent at h
  cases ht : e.threads[ti]? with
  | none => simp [ht] at h
  | some t =>
    simp only [ht] at h
    simp only [bind, Except.bind, pure, Except.pure, throw, throwThe, MonadExceptOf.throw] at h
    repeat' split at h
    all_goals first | (cases h; done) | skip
    all_goals (injection h with h; subst h)
    all_goals first
      | exact SimP.refl _
      | exact SimP.withChan (chanOp_push _ _) (by assumption)
      | exact SimP.withChan (chanOp_pop _) (by assumption)
      | exact SimP.withChan (chanOp_set _) (by assumption)
      | exact SimP.setOutOfCpu (by assumption)
      | exact (SimP.withChan (chanOp_push _ _) (by assumption)).trans
          (SimP.setOutOfCpu (by assumption))
      | exact (SimP.withChan (chanOp_pop _) (by assumption)).trans
          (SimP.setOutOfCpu (by assumption))
      | exact (SimP.withChan (chanOp_set _) (by assumption)).trans
          (SimP.setOutOfCpu (by assumption))

/-- What the step theorem needs from a hook of `modelEvent`. -/
def HookSim (hook : Emu → Nat → Nat → Nat → List Nat → Except Err Emu) : Prop :=
  ∀ (e : Emu) (ti a b : Nat) (p : List Nat) (e' : Emu), hook e ti a b p = .ok e' → Sim e e'

/-- **Simulation lemma**: the handlers of one event perform nothing but channel
    operations on mirrored source channels (and changes the bay does not see). -/
theorem Sim.modelEvent {e e' : Emu} {ti m c v : Nat} {p : List Nat}
    {th mh : Emu → Nat → Nat → Nat → List Nat → Except Err Emu} (hth : HookSim th) (hmh : HookSim mh)
    (h : modelEvent e ti m c v p th mh = .ok e') : Sim e e' := by
  unfold Ovni.Emu.modelEvent at h
  simp only [bind, Except.bind, pure, Except.pure, throw, throwThe, MonadExceptOf.throw] at h
  repeat' split at h
  all_goals first | (cases h; done) | skip
  · exact Sim.ovniEvent (fun e ti v p e' h => hmh e ti c v p e' h) h
  · exact hth _ _ _ _ _ _ h
  · exact (SimP.tableEvent h).sim

end Ovni.Emu
