import OvniModel.Lemmas.SystemConflict

/-! The hierarchy of a successful `build` is exactly the union of the metadata
    (helper lemmas for C15). -/
namespace Ovni.Emu.System

theorem mem_thrKeys {l : List StreamMeta} {k : Option Str × Int × Int} :
    k ∈ thrKeys l ↔ ∃ s ∈ l, isThr s ∧ k = (s.tp.loom, s.tp.pid, s.tp.tid) := by
  unfold thrKeys
  rw [List.mem_flatMap]
  constructor
  · rintro ⟨t, ht, hk⟩
    obtain ⟨s, hs, rfl⟩ := List.mem_map.1 ht
    unfold thrKeysOf at hk
    split at hk
    · rename_i hp
      simp only [List.mem_singleton] at hk
      exact ⟨s, hs, hp, hk⟩
    · cases hk
  · rintro ⟨s, hs, ht, rfl⟩
    refine ⟨s.tp, List.mem_map.2 ⟨s, hs, rfl⟩, ?_⟩
    unfold isThr at ht
    simp [thrKeysOf, ht]

theorem finish_content {l0 : List StreamMeta} {sys : Sys} {h : Hier} (inv : Inv l0 sys)
    (hf : finish sys = .ok h) : Content l0 h := by
  have hl := finish_ok_looms hf
  have thr_mem : ∀ n pid tid, (some n, pid, tid) ∈ thrKeys l0 ↔
      ∃ t ∈ sys.threads, t.loom = n ∧ t.pid = pid ∧ t.tid = tid := by
    intro n pid tid
    rw [← inv.thrRows, List.mem_map]
    constructor
    · rintro ⟨t, ht, hk⟩
      simp only [tkey, Prod.mk.injEq, Option.some.injEq] at hk
      exact ⟨t, ht, hk.1, hk.2.1, hk.2.2⟩
    · rintro ⟨t, ht, h1, h2, h3⟩
      exact ⟨t, ht, by simp [tkey, h1, h2, h3]⟩
  refine ⟨?_, ?_, ?_, ?_, ?_, ?_, ?_⟩
  · intro n
    constructor
    · rintro ⟨l, hlm, rfl⟩
      obtain ⟨hn, _, _⟩ := hl.2 l hlm
      obtain ⟨t, ht, hte⟩ := inv.loomSrc _ hn
      have : (some l.name, t.pid, t.tid) ∈ thrKeys l0 := (thr_mem _ _ _).2 ⟨t, ht, hte, rfl, rfl⟩
      obtain ⟨s, hs, hthr, hk⟩ := mem_thrKeys.1 this
      simp only [Prod.mk.injEq] at hk
      exact ⟨s, hs, hthr, hk.1.symm⟩
    · rintro ⟨s, hs, hthr, hloom⟩
      obtain ⟨hn, _⟩ := thread_stream_in_tables inv hs hthr hloom
      obtain ⟨l, hlm, hmk, _⟩ := hl.1 n hn
      exact ⟨l, hlm, mkLoom_name hmk⟩
  · intro l hlm i p
    obtain ⟨_, hmk, _⟩ := hl.2 l hlm
    rw [mkLoom_cpus hmk]
    constructor
    · rintro ⟨c, hc, rfl, rfl⟩
      obtain ⟨hcm, hcl⟩ := mem_sortedCpus.1 hc
      have := (inv.cpus.sound c hcm).1
      rw [cpuFact, hcl] at this
      exact this
    · intro hfact
      have := inv.cpus.complete _ _ _ hfact
      exact ⟨_, mem_sortedCpus.2 ⟨this, rfl⟩, rfl, rfl⟩
  · intro l hlm
    obtain ⟨_, _, hie⟩ := hl.2 l hlm
    obtain ⟨_, _, h3, h4⟩ := initEndLoom_ok hie
    exact ⟨h4, h3⟩
  · intro l hlm pid
    obtain ⟨_, hmk, _⟩ := hl.2 l hlm
    constructor
    · rintro ⟨hp, hpm, rfl⟩
      obtain ⟨p, pm, pl, rfl⟩ := (mem_loom_procs hmk).1 hpm
      obtain ⟨t, ht, hte⟩ := inv.procSrc (pkey p) (List.mem_map.2 ⟨p, pm, rfl⟩)
      simp only [pkey, Prod.mk.injEq] at hte
      exact ⟨t.tid, (thr_mem _ _ _).2 ⟨t, ht, by rw [hte.1, pl], hte.2, rfl⟩⟩
    · rintro ⟨tid, hk⟩
      obtain ⟨t, ht, h1, h2, _⟩ := (thr_mem _ _ _).1 hk
      obtain ⟨p, pm, hpk⟩ := List.mem_map.1 (inv.thrProc t ht)
      simp only [pkey, Prod.mk.injEq] at hpk
      exact ⟨mkProc sys.threads p, (mem_loom_procs hmk).2 ⟨p, pm, by rw [hpk.1, h1], rfl⟩,
        by show p.pid = pid; rw [hpk.2, h2]⟩
  · intro l hlm hp hpm
    obtain ⟨_, hmk, hie⟩ := hl.2 l hlm
    obtain ⟨hpos, _, _, _⟩ := initEndLoom_ok hie
    have h0 := hpos hp hpm
    obtain ⟨p, pm, pl, rfl⟩ := (mem_loom_procs hmk).1 hpm
    rcases inv.procs.soundApp p pm with hz | ⟨hfact, _⟩
    · have : (mkProc sys.threads p).appid = p.appid := rfl
      omega
    · rw [pl] at hfact; exact hfact
  · intro l hlm hp hpm
    obtain ⟨_, hmk, _⟩ := hl.2 l hlm
    obtain ⟨p, pm, pl, rfl⟩ := (mem_loom_procs hmk).1 hpm
    rcases inv.procs.soundRank p pm with ⟨h1, h2⟩ | ⟨hfact, _⟩
    · left
      refine ⟨h1, h2, ?_⟩
      intro r k hfact
      obtain ⟨q, qm, q1, q2, q3, _, q5, _⟩ := inv.procs.completeRank _ _ _ _ hfact
      have := inv.procs.key_inj qm pm (by rw [q1, pl]) q2
      subst this
      omega
    · right; rw [pl] at hfact; exact hfact
  · intro l hlm hp hpm tid
    obtain ⟨_, hmk, _⟩ := hl.2 l hlm
    obtain ⟨p, pm, pl, rfl⟩ := (mem_loom_procs hmk).1 hpm
    rw [thr_mem]
    simp only [mkProc]
    constructor
    · rintro ⟨t, ht, rfl⟩
      have := List.mem_filter.1 (mem_sortBy.1 ht)
      simp only [decide_eq_true_eq] at this
      exact ⟨t, this.1, by rw [this.2.1, pl], this.2.2, rfl⟩
    · rintro ⟨t, ht, h1, h2, h3⟩
      refine ⟨t, mem_sortBy.2 (List.mem_filter.2 ⟨ht, ?_⟩), h3⟩
      simp only [decide_eq_true_eq]
      exact ⟨by rw [h1, pl], h2⟩

theorem Content.of_load {ss : List StreamMeta} {h : Hier} (c : Content (load ss) h) : Content ss h := by
  have tk : ∀ k, k ∈ thrKeys (load ss) ↔ k ∈ thrKeys ss := fun k => (thrKeys_load_perm ss).mem_iff
  have sm : ∀ s, s ∈ load ss ↔ s ∈ ss := fun s => (load_perm ss).mem_iff
  refine ⟨?_, ?_, c.cpuIndex, ?_, ?_, ?_, ?_⟩
  · intro n
    rw [c.looms n]
    constructor
    · rintro ⟨s, hs, h1⟩; exact ⟨s, (sm s).1 hs, h1⟩
    · rintro ⟨s, hs, h1⟩; exact ⟨s, (sm s).2 hs, h1⟩
  · intro l hl i p; rw [c.cpus l hl i p, mem_cpuFacts_load]
  · intro l hl pid
    rw [c.procs l hl pid]
    constructor
    · rintro ⟨tid, hk⟩; exact ⟨tid, (tk _).1 hk⟩
    · rintro ⟨tid, hk⟩; exact ⟨tid, (tk _).2 hk⟩
  · intro l hl p hp; exact mem_appFacts_load.1 (c.appid l hl p hp)
  · intro l hl p hp
    rcases c.rank l hl p hp with ⟨h1, h2, h3⟩ | h1
    · exact Or.inl ⟨h1, h2, fun r k hm => h3 r k (mem_rankFacts_load.2 hm)⟩
    · exact Or.inr (mem_rankFacts_load.1 h1)
  · intro l hl p hp tid; rw [c.threads l hl p hp tid, tk]

end Ovni.Emu.System
