import OvniModel.Rt.FsSpec

/-! Concrete small instances used by the C09 / C10 witnesses and non-vacuity
    examples: a toy JSON codec, the emulator configuration, and a conformant
    one-thread program `OHx OHe flush flush free fini`. -/
namespace Ovni.Rt.Fs.Witness
open Ovni.Rt Ovni.Rt.Fs

/-- `{ f b }` with f = 1 iff finished. -/
def wSer (m : Meta) : List Nat := [123, if m.finished then 1 else 0, m.body, 125]

def wParse : List Nat → Option Meta
  | [a, f, b, z] =>
    if a = 123 ∧ z = 125 then (if f = 1 then some ⟨true, b⟩ else if f = 0 then some ⟨false, b⟩ else none) else none
  | _ => none

def wC : Codec where
  ser := wSer
  parse := wParse
  parse_ser := by intro ⟨f, b⟩; cases f <;> simp [wSer, wParse]
  parse_prefix := by
    intro m c hp hne
    have hl := hp.length_le
    simp only [wSer, List.length_cons, List.length_nil] at hl
    rcases c with _ | ⟨a, _ | ⟨b, _ | ⟨c, _ | ⟨d, _ | ⟨e, r⟩⟩⟩⟩⟩
    · rfl
    · rfl
    · rfl
    · rfl
    · exfalso; apply hne
      exact List.IsPrefix.eq_of_length hp (by simp [wSer])
    · simp at hl

def wE : EmuCfg := ⟨[111, 118, 110, 105], 1⟩

def evOHx : List Nat := [15, 79, 72, 120] ++ le 8 1001 ++ List.replicate 16 0
def evOHe : List Nat := [0, 79, 72, 101] ++ le 8 1002
def evFo : List Nat := [0, 79, 70, 91] ++ le 8 1003
def evFc : List Nat := [0, 79, 70, 93] ++ le 8 1004

/-- init ; OHx ; OHe ; flush ; flush ; free — the second flush writes the
    markers of the first. -/
def wT : ThreadProg :=
  { tid := 7, hdr := streamHeader wE.magic wE.version, meta0 := 0,
    steps := [.io [evOHx ++ evOHe], .io [evFo ++ evFc]], free := true, metaF := 1 }

/-- OVNI_TMPDIR mode, readdir returns stream.json first (as ext4 and tmpfs do here). -/
def wJsonFirst : Prog := { tmpMode := true, nAnc := 0, order := [.dot, .dotdot, .f .json, .f .obs], threads := [wT] }

/-- OVNI_TMPDIR mode, stream.obs first. -/
def wObsFirst : Prog := { tmpMode := true, nAnc := 0, order := [.dot, .dotdot, .f .obs, .f .json], threads := [wT] }

def wDirect : Prog := { tmpMode := false, nAnc := 0, order := [], threads := [wT] }

/-- stdio had flushed the first 48 bytes (header, OHx, OHe) of the copy. -/
def wCut : Path → Nat := fun p => if p = .file .fin 7 .obs then 48 else 0

end Ovni.Rt.Fs.Witness
