import OvniModel.Lemmas.CoreBayView
import OvniModel.Lemmas.CoreBayJobs

/-
  C20 (second obligation), on the global bay model of C06: the ORDER in which
  track outputs enter the dirty list.  When every dirty channel has select
  callbacks only and is no mux's input (an event that wrote thread states /
  `th_running` but no raw model channel), the dirty phase appends, for each
  dirty channel in turn, the outputs of the muxes it selects, in callback
  order — i.e. in `mux_init` order.
-/
namespace Ovni.Emu
open Ovni.Generated

theorem Chan.set_dirty_of_dup {c c' : Chan} {v : Value} (hd : c.allowDup = true) (h : c.set v = .ok c') :
    c'.dirty = true := by
  unfold Chan.set at h
  split at h
  · cases h
  · split at h
    · cases h
    · split at h
      · rename_i hx; simp [hd] at hx
      · cases h; rfl

theorem nodup_not_mem_take {α} {l : List α} (h : l.Nodup) {k : Nat} {c : α} (hk : l[k]? = some c) :
    c ∉ l.take k := by
  intro hm
  obtain ⟨j, hj⟩ := List.mem_iff_getElem?.mp hm
  rw [List.getElem?_take] at hj
  split at hj
  · rename_i hjk
    have := (List.getElem?_inj (List.getElem?_eq_some_iff.mp hk).1 h).mp (hk.trans hj.symm)
    omega
  · cases hj

/-- After `cb_select` the output is on the dirty list. -/
theorem Bay.cbSelect_out_dirty {b b' : Bay} {mi : Nat} {m : Mux} (wf : b.WF) (hm : b.muxes[mi]? = some m)
    (h : b.cbSelect mi = .ok b') : m.out ∈ b'.dirty := by
  obtain ⟨m0, s, hm0, _, hj, hi, hw⟩ := Bay.cbSelect_ok h
  rw [hm] at hm0; cases hm0
  have wf' := wf.cbSelect h
  rw [wf'.dirtyIff]
  have hset := (Bay.write_chan_eq hw).1
  refine Chan.set_dirty_of_dup ?_ hset
  rw [Bay.reselect_chan]; exact wf.outDup mi m hm

theorem Bay.dirtyPhase_selectOnly {b bP : Bay} {L fuel : Nat} (wf : b.WF) (hl : b.Layered L)
    (hd : ∀ s ∈ b.dirty, s < L ∧ (∀ cb ∈ b.cbsOf s, ∃ mi, cb = .muxSelect mi) ∧
      (∀ (mi : Nat) (m : Mux) (i : Nat), b.muxes[mi]? = some m → m.inputs[i]? ≠ some (some s)))
    (h : b.dirtyPhase fuel 0 = .ok bP) :
    bP.muxes = b.muxes ∧ bP.dirty = b.dirty ++ b.dirty.flatMap b.selOuts := by
  let P : Bay → Nat → Prop := fun b' k =>
    b'.muxes = b.muxes ∧ (∀ s ∈ b.dirty, b'.cbsOf s = b.cbsOf s) ∧
    b'.dirty = b.dirty ++ (b.dirty.take k).flatMap b.selOuts
  have hout_ge : ∀ x, x ∈ b.dirty.flatMap b.selOuts → L ≤ x := by
    intro x hx
    obtain ⟨s, _, hx⟩ := List.mem_flatMap.mp hx
    obtain ⟨cb, _, hcb⟩ := List.mem_filterMap.mp hx
    cases cb with
    | muxInput _ _ => cases hcb
    | muxSelect mj =>
      simp only [Bay.outOfCb] at hcb
      cases hmj : b.muxes[mj]? with
      | none => rw [hmj] at hcb; cases hcb
      | some m' => rw [hmj] at hcb; cases hcb; exact (hl mj m' hmj).2.2.1
  have hstep : ∀ (b' : Bay) (k c : Nat) (b3 : Bay), b'.WF → P b' k → b'.dirty[k]? = some c →
      b'.propChan (b'.chanFuel c) c 0 = .ok b3 → P b3 (k + 1) := by
    intro b' k c b3 wf' ⟨p1, p2, p3⟩ hk hrun
    by_cases hkl : k < b.dirty.length
    · -- a channel written by the event
      have hc : b.dirty[k]? = some c := by
        rw [p3, List.getElem?_append_left hkl] at hk; exact hk
      have hcm : c ∈ b.dirty := List.mem_of_getElem? hc
      obtain ⟨hcL, hsel, hnin⟩ := hd c hcm
      have hcbs : b'.cbsOf c = b.cbsOf c := p2 c hcm
      obtain ⟨_, _, q1, q2, q3⟩ := Bay.propChan_rule c
        (fun b4 j => b4.muxes = b.muxes ∧ (∀ s ∈ b.dirty, b4.cbsOf s = b.cbsOf s) ∧
          b4.dirty = b'.dirty ++ ((b.cbsOf c).take j).filterMap b.outOfCb)
        (by
          intro b4 j cb b5 wf4 ⟨r1, r2, r3⟩ hcb hrun4 _
          rw [r2 c hcm] at hcb
          obtain ⟨mi, rfl⟩ := hsel cb (List.mem_of_getElem? hcb)
          obtain ⟨m', hm', hmux, _, hdd, _, _, hfix, _⟩ := Bay.runCb_frame wf4 hrun4
          simp only [Cb.mux] at hm'
          have hm0 : b.muxes[mi]? = some m' := r1 ▸ hm'
          refine ⟨hmux.trans r1, fun s hs => ?_, ?_⟩
          · rw [hfix s (fun i => (hd s hs).2.2 mi m' i hm0), r2 s hs]
          · have hin : m'.out ∈ b5.dirty := Bay.cbSelect_out_dirty wf4 hm' hrun4
            have hnot : m'.out ∉ b4.dirty := by
              rw [r3, p3]
              simp only [List.mem_append, not_or]
              refine ⟨⟨?_, ?_⟩, ?_⟩
              · intro hx; have := (hd _ hx).1; have := (hl mi m' hm0).2.2.1; omega
              · intro hx
                obtain ⟨s', hs', hx⟩ := List.mem_flatMap.mp hx
                obtain ⟨cb', hcb', ho⟩ := List.mem_filterMap.mp hx
                cases cb' with
                | muxInput _ _ => cases ho
                | muxSelect mj =>
                  simp only [Bay.outOfCb] at ho
                  cases hmj : b.muxes[mj]? with
                  | none => rw [hmj] at ho; cases ho
                  | some m2 =>
                    rw [hmj] at ho
                    simp only [Option.map_some, Option.some.injEq] at ho
                    have hji : mj = mi := by
                      apply Classical.byContradiction; intro hne
                      exact (hl mi m' hm0).2.2.2 mj m2 hmj hne ho
                    subst hji
                    obtain ⟨_, h1, h2⟩ := wf.selCbOnly s' mj hcb'
                    obtain ⟨_, h3, h4⟩ := wf.selCbOnly c mj (List.mem_of_getElem? hcb)
                    rw [h1] at h3; cases h3
                    have : s' = c := h2.symm.trans h4
                    subst this
                    exact nodup_not_mem_take wf.dirtyNodup hc hs'
              · intro hx
                obtain ⟨cb', hcb', ho⟩ := List.mem_filterMap.mp hx
                cases cb' with
                | muxInput _ _ => cases ho
                | muxSelect mj =>
                  simp only [Bay.outOfCb] at ho
                  cases hmj : b.muxes[mj]? with
                  | none => rw [hmj] at ho; cases ho
                  | some m2 =>
                    rw [hmj] at ho
                    simp only [Option.map_some, Option.some.injEq] at ho
                    have hji : mj = mi := by
                      apply Classical.byContradiction; intro hne
                      exact (hl mi m' hm0).2.2.2 mj m2 hmj hne ho
                    subst hji
                    exact nodup_not_mem_take (wf.cbsNodup c) hcb hcb'
            have hd5 : b5.dirty = b4.dirty ++ [m'.out] := by
              rcases hdd with e | e
              · rw [e] at hin; exact absurd hin hnot
              · exact e
            rw [hd5, r3, take_succ_of_get hcb, List.filterMap_append, List.append_assoc]
            simp [Bay.outOfCb, hm0])
        _ b' 0 b3 wf' ⟨p1, p2, by simp⟩ (Nat.zero_le _) hrun
      refine ⟨q1, q2, ?_⟩
      rw [q3, hcbs, List.take_length, take_succ_of_get hc, List.flatMap_append, p3, List.append_assoc]
      simp [Bay.selOuts]
    · -- an output appended during this phase: no callbacks
      have hcge : L ≤ c := by
        have hmem : c ∈ b'.dirty := List.mem_of_getElem? hk
        rw [p3, List.mem_append] at hmem
        rcases hmem with hm | hm
        · exfalso
          obtain ⟨j, hj⟩ := List.mem_iff_getElem?.mp hm
          have hjl := (List.getElem?_eq_some_iff.mp hj).1
          have : b'.dirty[j]? = some c := by rw [p3, List.getElem?_append_left hjl]; exact hj
          have := (List.getElem?_inj (List.getElem?_eq_some_iff.mp hk).1 wf'.dirtyNodup).mp (hk.trans this.symm)
          omega
        · exact hout_ge c (by
            obtain ⟨s, hs, hx⟩ := List.mem_flatMap.mp hm
            exact List.mem_flatMap.mpr ⟨s, List.mem_of_mem_take hs, hx⟩)
      have hempty : b'.cbsOf c = [] := by
        cases hcc : b'.cbsOf c with
        | nil => rfl
        | cons cb rest =>
          exfalso
          have hmem : cb ∈ b'.cbsOf c := by rw [hcc]; simp
          cases cb with
          | muxSelect mj =>
            obtain ⟨m2, h1, h2⟩ := wf'.selCbOnly c mj hmem
            have := (hl mj m2 (p1 ▸ h1)).1
            omega
          | muxInput mj i =>
            obtain ⟨m2, h1, h2⟩ := wf'.inCbOnly c mj i hmem
            have := (hl mj m2 (p1 ▸ h1)).2.1 i c h2
            omega
      have : b3 = b' := by
        unfold Bay.propChan at hrun
        simp only [hempty, List.getElem?_nil] at hrun
        cases hrun; rfl
      subst this
      refine ⟨p1, p2, ?_⟩
      rw [p3, List.take_of_length_le (by omega), List.take_of_length_le (by omega)]
  obtain ⟨_, r1, _, r3⟩ := Bay.dirtyPhase_rule P hstep fuel b 0 bP wf ⟨rfl, fun _ _ => rfl, by simp⟩
    (Nat.zero_le _) h
  refine ⟨r1, ?_⟩
  rw [r3, List.take_of_length_le]
  rw [r3]; simp

/-! ### thread-state and affinity events of the reference emulator -/

theorem Bay.Writes.dirty_sub {ok : Nat → Prop} {b b1 : Bay} (h : Bay.Writes ok b b1) :
    ∀ c ∈ b1.dirty, c ∈ b.dirty ∨ ok c := by
  induction h with
  | nil => intro c hc; exact Or.inl hc
  | @snoc b1 b2 c0 f _ hok _ hw ih =>
    intro c hc
    rcases Bay.write_dirty_cases hw with e | e
    · rw [e] at hc; exact ih c hc
    · rw [e] at hc
      rcases List.mem_append.mp hc with h | h
      · exact ih c h
      · simp only [List.mem_singleton] at h; subst h; exact Or.inr hok

theorem flatMap_congr' {α β} {f g : α → List β} : ∀ {l : List α}, (∀ a ∈ l, f a = g a) →
    l.flatMap f = l.flatMap g := by
  intro l
  induction l with
  | nil => intro _; rfl
  | cons a l ih =>
    intro h
    rw [List.flatMap_cons, List.flatMap_cons, h a (by simp), ih (fun x hx => h x (by simp [hx]))]

/-- A system source is no mux's input. -/
theorem Shape.Built.sys_not_input {σ : Shape} {p : Nat} {b : Bay} (hb : σ.Built p b) {s0 : Src}
    (hmem : s0 ∈ σ.addrs) (hsys : s0.isSys) (mi : Nat) (m : Mux) (i : Nat) (hm : b.muxes[mi]? = some m) :
    m.inputs[i]? ≠ some (some (σ.idx s0)) := by
  intro hin
  cases hb.isTrack hm with
  | th g k i' ms out hg hk hi _ =>
    match i, hin with
    | 0, hin =>
      simp only [List.getElem?_cons_zero, Option.some.injEq] at hin
      have := σ.idx_inj ((σ.mem_raw g k i').mpr ⟨hg, ms, hk, hi⟩) hmem hin
      subst this; exact hsys
    | _ + 1, hin => simp at hin
  | cpu c k i' ms out hc hk hi =>
    simp only [Shape.rawsOf, List.map_map, List.getElem?_map] at hin
    cases hr : (List.range σ.nT)[i]? with
    | none => rw [hr] at hin; cases hin
    | some g =>
      rw [hr] at hin
      simp only [Option.map_some, Function.comp, Option.some.injEq] at hin
      have hg : g < σ.nT := List.mem_range.mp (List.mem_of_getElem? hr)
      have := σ.idx_inj ((σ.mem_raw g k i').mpr ⟨hg, ms, hk, hi⟩) hmem hin
      subst this; exact hsys

/-- **Order of the track outputs on a thread-state / affinity event.**  For
    any emulator step that writes only system channels (`SimP Src.isSys`: the
    ovni `OH*` / `OA*` events), the dirty phase of `bay_propagate` appends to
    the dirty list, for each written channel in write order, the outputs of the
    muxes it selects in `mux_init` order — and these lists are strictly
    increasing in the output id. -/
theorem Inv.sys_event {e e' : Emu} {b0 b : Bay} (hc : e.shape.connect = .ok b0) (hs : Shaped e)
    (hi : Inv b0 e b) (hsim : SimP Src.isSys e e') :
    ∃ b1 bP bF em, Bay.Writes (e.shape.okP Src.isSys) b b1 ∧ Mirrors e' b1 ∧
      b1.dirtyPhase b1.chans.length 0 = .ok bP ∧ b1.propagate = .ok (bF, em) ∧
      Inv b0 e'.flushAll bF ∧ bP.WF ∧
      (∀ s ∈ b1.dirty, e.shape.okP Src.isSys s) ∧
      bP.dirty = b1.dirty ++ b1.dirty.flatMap b0.selOuts ∧
      (∀ s, (b0.selOuts s).Pairwise (· < ·)) := by
  obtain ⟨hs', hshape, hw⟩ := hsim hs
  obtain ⟨b1, hwP, hm1⟩ := hw b hi.mirrors
  have hw1 : Bay.Writes (· < e.shape.L) b b1 := hwP.mono (fun _ h => Shape.okP_lt h)
  obtain ⟨_, bF, em, hp, hinv⟩ := hi.step_core hc hs' hshape hw1 hm1
  obtain ⟨bP, b2, h1, _, _, _⟩ := Bay.propagate_ok hp
  have hb := Shape.connect_built hc
  obtain ⟨wf1, hcbs1, _, hmx1, _, _⟩ := hw1.inv hi.wf
  have hlay1 : b1.Layered e.shape.L := by
    have := hb.topo.layered
    unfold Bay.Layered at this ⊢; rw [hmx1, hi.muxes]; exact this
  have hdsub : ∀ s ∈ b1.dirty, e.shape.okP Src.isSys s := by
    intro s hsd
    rcases hwP.dirty_sub s hsd with h | h
    · rw [hi.clean.1] at h; cases h
    · exact h
  have hnin : ∀ s, e.shape.okP Src.isSys s → ∀ (mi : Nat) (m : Mux) (i : Nat), b0.muxes[mi]? = some m →
      m.inputs[i]? ≠ some (some s) := by
    rintro s ⟨s0, hmem, hsys, rfl⟩ mi m i hm
    exact hb.sys_not_input hmem hsys mi m i hm
  have hcbs : ∀ s, e.shape.okP Src.isSys s → b1.cbsOf s = b0.cbsOf s := by
    intro s hsys
    rw [Bay.cbsOf_congr hcbs1]; exact hi.selCbs s (hnin s hsys)
  have hsel : ∀ s, e.shape.okP Src.isSys s → b1.selOuts s = b0.selOuts s := by
    intro s hsys
    unfold Bay.selOuts
    rw [hcbs s hsys]
    apply filterMap_congr'
    intro cb _
    cases cb with
    | muxInput _ _ => rfl
    | muxSelect mi => simp only [Bay.outOfCb, hmx1, hi.muxes]
  obtain ⟨_, hdirty⟩ := Bay.dirtyPhase_selectOnly wf1 hlay1 (by
    intro s hsd
    have hsys := hdsub s hsd
    refine ⟨Shape.okP_lt hsys, ?_, fun mi m i hm => hnin s hsys mi m i (by rw [← hi.muxes, ← hmx1]; exact hm)⟩
    intro cb hcb
    cases cb with
    | muxSelect mi => exact ⟨mi, rfl⟩
    | muxInput mi i =>
      exfalso
      obtain ⟨m, hm, hin⟩ := wf1.inCbOnly s mi i hcb
      exact hnin s hsys mi m i (by rw [← hi.muxes, ← hmx1]; exact hm) hin) h1
  have wfP : bP.WF := (Bay.dirtyPhase_length wf1 h1).1
  refine ⟨b1, bP, bF, em, hwP, hm1, h1, hp, hinv, wfP, hdsub, ?_, hb.selAsc⟩
  rw [hdirty]
  congr 1
  exact flatMap_congr' (fun s hsd => hsel s (hdsub s hsd))

/-! ### positions in the dirty list -/

theorem idxOf_flatMap_block {α β} [DecidableEq β] (f : α → List β) (S : α) (x y : β) :
    ∀ (D : List α), S ∈ D → x ∈ f S → y ∈ f S → (∀ s ∈ D, x ∈ f s → s = S) → (∀ s ∈ D, y ∈ f s → s = S) →
      (f S).idxOf x < (f S).idxOf y → (D.flatMap f).idxOf x < (D.flatMap f).idxOf y := by
  intro D
  induction D with
  | nil => intro hS; cases hS
  | cons a D ih =>
    intro hS hx hy hxo hyo hlt
    rw [List.flatMap_cons, List.idxOf_append, List.idxOf_append]
    by_cases ha : a = S
    · subst ha; simp only [hx, hy, if_true]; exact hlt
    · have hxa : x ∉ f a := fun h => ha (hxo a (by simp) h)
      have hya : y ∉ f a := fun h => ha (hyo a (by simp) h)
      have hS' : S ∈ D := by
        rcases List.mem_cons.mp hS with h | h
        · exact absurd h.symm ha
        · exact h
      simp only [hxa, hya, if_false]
      have := ih hS' hx hy (fun s hs => hxo s (by simp [hs])) (fun s hs => hyo s (by simp [hs])) hlt
      omega

/-- An output on a select list belongs to a mux selected by that channel. -/
theorem Bay.selOuts_sel {b : Bay} {L : Nat} (wf : b.WF) (hl : b.Layered L) {s x mi : Nat} {m : Mux}
    (hx : x ∈ b.selOuts s) (hm : b.muxes[mi]? = some m) (ho : m.out = x) : m.sel = s := by
  obtain ⟨cb, hcb, hcbo⟩ := List.mem_filterMap.mp hx
  cases cb with
  | muxInput _ _ => cases hcbo
  | muxSelect mj =>
    simp only [Bay.outOfCb] at hcbo
    cases hmj : b.muxes[mj]? with
    | none => rw [hmj] at hcbo; cases hcbo
    | some m2 =>
      rw [hmj] at hcbo
      simp only [Option.map_some, Option.some.injEq] at hcbo
      have hji : mj = mi := by
        apply Classical.byContradiction; intro hne
        exact (hl mi m hm).2.2.2 mj m2 hmj hne (hcbo.trans ho.symm)
      subst hji
      obtain ⟨m3, h3, h4⟩ := wf.selCbOnly s mj hcb
      rw [hm] at h3; cases h3; exact h4

/-- **Channel-index order.**  In a dirty list of the form produced by a
    thread-state / affinity event (`Inv.sys_event`), the outputs of one CPU's
    tracks of one model appear in channel-index order: `model_cpu_connect`
    calls `mux_init` for channel 0, 1, 2, … of the CPU. -/
theorem Shape.Built.cpu_order {σ : Shape} {b0 : Bay} (hb : σ.Built σ.jobs.length b0) {D d : List Nat}
    (hd : d = D ++ D.flatMap b0.selOuts) (hD : ∀ s ∈ D, s < σ.L)
    {c k i i' : Nat} {m : ModelSpec} (hcl : c < σ.nC) (hk : σ.specs[k]? = some m) (hii : i < i')
    (hil : i' < m.nch) (hx : σ.cpuOut c k i ∈ d) (hy : σ.cpuOut c k i' ∈ d) :
    d.idxOf (σ.cpuOut c k i) < d.idxOf (σ.cpuOut c k i') := by
  have hjx : Job.cpu c k i ∈ σ.jobs := (σ.mem_jobs_cpu c k i).mpr ⟨hcl, m, hk, by omega⟩
  have hjy : Job.cpu c k i' ∈ σ.jobs := (σ.mem_jobs_cpu c k i').mpr ⟨hcl, m, hk, hil⟩
  have hlt : σ.cpuOut c k i < σ.cpuOut c k i' := σ.cpuOut_lt hjx hjy hii
  -- the two muxes
  have hmux : ∀ i0, Job.cpu c k i0 ∈ σ.jobs → ∃ (mi : Nat) (mx : Mux), b0.muxes[mi]? = some mx ∧
      mx.out = σ.cpuOut c k i0 ∧ mx.sel = σ.idx (.run c) := by
    intro i0 hj0
    have hj := σ.getElem?_job hj0
    have hjl : σ.jobs.idxOf (Job.cpu c k i0) < σ.jobs.length := List.idxOf_lt_length_iff.mpr hj0
    have hmo : σ.muxOf (Job.cpu c k i0) (σ.L + σ.jobs.idxOf (Job.cpu c k i0)) = some
        { sel := σ.idx (.run c), out := σ.cpuOut c k i0, kind := .byIndex,
          inputs := (σ.rawsOf k i0).map some, dflt := m.cpuDflt i0 } := by
      simp only [Shape.muxOf, hk]; rfl
    obtain ⟨mi, hmi⟩ := hb.mem_mux hjl hj hmo
    exact ⟨mi, _, hmi, rfl, rfl⟩
  obtain ⟨mix, mx, hmx, hox, hsx⟩ := hmux i hjx
  obtain ⟨miy, my, hmy, hoy, hsy⟩ := hmux i' hjy
  have hxL : σ.L ≤ σ.cpuOut c k i := by unfold Shape.cpuOut; omega
  have hyL : σ.L ≤ σ.cpuOut c k i' := by unfold Shape.cpuOut; omega
  have hxD : σ.cpuOut c k i ∉ D := fun h => by have := hD _ h; omega
  have hyD : σ.cpuOut c k i' ∉ D := fun h => by have := hD _ h; omega
  rw [hd] at hx hy ⊢
  have hxF : σ.cpuOut c k i ∈ D.flatMap b0.selOuts := by
    rcases List.mem_append.mp hx with h | h
    · exact absurd h hxD
    · exact h
  have hyF : σ.cpuOut c k i' ∈ D.flatMap b0.selOuts := by
    rcases List.mem_append.mp hy with h | h
    · exact absurd h hyD
    · exact h
  have hown : ∀ (x mi : Nat) (mx : Mux), b0.muxes[mi]? = some mx → mx.out = x → mx.sel = σ.idx (.run c) →
      ∀ s ∈ D, x ∈ b0.selOuts s → s = σ.idx (.run c) := by
    intro x mi mx hm ho hsel s _ hxs
    rw [← hsel]; exact (Bay.selOuts_sel hb.topo.wf hb.topo.layered hxs hm ho).symm
  obtain ⟨sx, hsxD, hxs⟩ := List.mem_flatMap.mp hxF
  have hsxS := hown _ mix mx hmx hox hsx sx hsxD hxs
  subst hsxS
  obtain ⟨sy, hsyD, hys⟩ := List.mem_flatMap.mp hyF
  have hsyS := hown _ miy my hmy hoy hsy sy hsyD hys
  rw [hsyS] at hys
  rw [List.idxOf_append, List.idxOf_append]
  simp only [hxD, hyD, if_false]
  have hblock := idxOf_lt_of_pairwise (R := (· < ·)) (fun a b h => by omega) _ (hb.selAsc (σ.idx (.run c)))
    hxs hys hlt
  have := idxOf_flatMap_block b0.selOuts (σ.idx (.run c)) _ _ D hsxD hxs hys
    (hown _ mix mx hmx hox hsx) (hown _ miy my hmy hoy hsy) hblock
  omega

end Ovni.Emu
