import OvniModel.Emu.Stream
import OvniModel.Lemmas.RtEvent

/-! Helper lemmas for the stream cursor (C12, C19). -/
set_option linter.unusedSimpArgs false
namespace Ovni.Emu.Stream
open Ovni.Rt (le unle le_length unle_le)

/-! ### wrap -/

theorem wrap32_id (x : Int) (h0 : -2147483648 ≤ x) (h1 : x < 2147483648) : wrap32 x = x := by
  unfold wrap32; omega

theorem wrap64_id (x : Int) (h0 : 0 ≤ x) (h1 : x < 9223372036854775808) : wrap64 x = x := by
  unfold wrap64; omega

theorem nibSize_le (f : Nat) : nibSize f ≤ 16 := by
  unfold nibSize; split <;> omega

/-! ### memory -/

theorem byteAt_app (g : Garbage) (pre rest : List Nat) (i : Nat) (h : i < rest.length) :
    byteAt g (pre ++ rest) ((pre.length : Int) + (i : Int)) = rest.getD i 0 := by
  unfold byteAt
  have h1 : (0 : Int) ≤ (pre.length : Int) + (i : Int) ∧
      (pre.length : Int) + (i : Int) < ((pre ++ rest).length : Int) := by
    rw [List.length_append]; omega
  rw [if_pos h1]
  have h2 : ((pre.length : Int) + (i : Int)).toNat = pre.length + i := by omega
  rw [h2, List.getD_eq_getElem?_getD, List.getElem?_append_right (by omega)]
  simp [List.getD_eq_getElem?_getD]

theorem byteAt_inb (g g' : Garbage) (buf : List Nat) (i : Int) (h0 : 0 ≤ i) (h1 : i < (buf.length : Int)) :
    byteAt g buf i = byteAt g' buf i := by
  unfold byteAt; rw [if_pos ⟨h0, h1⟩, if_pos ⟨h0, h1⟩]

theorem readLE_inb (g g' : Garbage) (buf : List Nat) (n : Nat) (off : Int) (h0 : 0 ≤ off)
    (h1 : off + (n : Int) ≤ (buf.length : Int)) : readLE g buf off n = readLE g' buf off n := by
  induction n generalizing off with
  | zero => rfl
  | succ n ih =>
    unfold readLE
    rw [byteAt_inb g g' buf off h0 (by omega), ih (off + 1) (by omega) (by omega)]

theorem readLE_app (g : Garbage) (pre rest : List Nat) (n k : Nat) (h : k + n ≤ rest.length) :
    readLE g (pre ++ rest) ((pre.length : Int) + (k : Int)) n = unle ((rest.drop k).take n) := by
  induction n generalizing k with
  | zero => simp [readLE, unle]
  | succ n ih =>
    unfold readLE
    rw [byteAt_app g pre rest k (by omega)]
    have h3 : (pre.length : Int) + (k : Int) + 1 = (pre.length : Int) + ((k + 1 : Nat) : Int) := by omega
    rw [h3, ih (k + 1) (by omega)]
    have hk : k < rest.length := by omega
    have h4 : (rest.drop k).take (n + 1) = rest[k] :: (rest.drop (k + 1)).take n := by
      rw [List.drop_eq_getElem_cons hk, List.take_succ_cons]
    rw [h4]
    simp [unle, List.getD_eq_getElem?_getD, List.getElem?_eq_getElem hk]

/-! ### a well-formed event inside the buffer -/

theorem mcv3 (l : List Nat) (h : l.length = 3) : ∃ a b c, l = [a, b, c] := by
  match l, h with
  | [a, b, c], _ => exact ⟨a, b, c, rfl⟩

theorem encode_length (e : SEv) (h : e.mcv.length = 3) : e.encode.length = 12 + e.body.length := by
  simp [SEv.encode, le_length, h]; omega

theorem flagsAt_ev (g : Garbage) (pre post : List Nat) (e : SEv) :
    flagsAt g (pre ++ (e.encode ++ post)) (pre.length : Int) = e.flags := by
  have := byteAt_app g pre (e.encode ++ post) 0 (by simp [SEv.encode])
  simpa [flagsAt, SEv.encode] using this

theorem clockAt_ev (g : Garbage) (pre post : List Nat) (e : SEv) (h3 : e.mcv.length = 3)
    (hc : e.clock < 9223372036854775808) :
    clockAt g (pre ++ (e.encode ++ post)) (pre.length : Int) = (e.clock : Int) := by
  obtain ⟨a, b, c, hm⟩ := mcv3 _ h3
  unfold clockAt
  have hl : 4 + 8 ≤ (e.encode ++ post).length := by
    simp [SEv.encode, le_length, hm]
  have : readLE g (pre ++ (e.encode ++ post)) ((pre.length : Int) + 4) 8 = _ :=
    readLE_app g pre (e.encode ++ post) 8 4 hl
  rw [this]
  have h2 : ((e.encode ++ post).drop 4).take 8 = le 8 e.clock := by
    simp only [SEv.encode, hm]
    simp only [List.cons_append, List.nil_append, List.drop_succ_cons, List.drop_zero, List.append_assoc]
    rw [List.take_append_of_le_length (by rw [le_length]; omega), List.take_of_length_le (by rw [le_length]; omega)]
  rw [h2, unle_le]
  have : e.clock % 256 ^ 8 = e.clock := Nat.mod_eq_of_lt (by omega)
  rw [this]
  exact wrap64_id _ (by omega) (by omega)

theorem jumboSizeAt_ev (g : Garbage) (pre post : List Nat) (e : SEv) (h3 : e.mcv.length = 3)
    (h4 : 4 ≤ e.body.length) :
    jumboSizeAt g (pre ++ (e.encode ++ post)) (pre.length : Int) = unle (e.body.take 4) := by
  obtain ⟨a, b, c, hm⟩ := mcv3 _ h3
  unfold jumboSizeAt
  have hl : 12 + 4 ≤ (e.encode ++ post).length := by
    simp [SEv.encode, le_length, hm]; omega
  have : readLE g (pre ++ (e.encode ++ post)) ((pre.length : Int) + 12) 4 = _ :=
    readLE_app g pre (e.encode ++ post) 4 12 hl
  rw [this]
  have h2 : (e.encode ++ post).drop 12 = e.body ++ post := by
    simp only [SEv.encode, hm]
    simp only [List.cons_append, List.nil_append, List.drop_succ_cons, List.append_assoc]
    rw [List.drop_append_of_le_length (by rw [le_length]; omega), List.drop_of_length_le (by rw [le_length]; omega)]
    rfl
  rw [h2, List.take_append_of_le_length h4]

/-- Everything `stream_step` learns about a well-formed event that is entirely
    inside the buffer: its size is the encoded length (no wrap), its clock is
    the stored one, and computing the size touches only the event itself. -/
theorem ev_facts (g : Garbage) (pre post : List Nat) (e : SEv) (hw : e.WF) :
    evSizeC g (pre ++ (e.encode ++ post)) (pre.length : Int) = (e.encode.length : Int) ∧
    clockAt g (pre ++ (e.encode ++ post)) (pre.length : Int) = (e.clock : Int) ∧
    12 ≤ e.encode.length ∧
    (∀ r ∈ evSizeReads g (pre ++ (e.encode ++ post)) (pre.length : Int),
        r.inBounds (pre ++ (e.encode ++ post)).length) ∧
    Fixed.HdrOk g (pre ++ (e.encode ++ post)) (pre.length : Int) := by
  obtain ⟨h3, hc, hb⟩ := hw
  have hlen := encode_length e h3
  have hf := flagsAt_ev g pre post e
  refine ⟨?_, clockAt_ev g pre post e h3 hc, by omega, ?_, ?_⟩
  · unfold evSizeC payloadSizeC
    rw [hf]
    by_cases hj : isJumboF e.flags = true
    · rw [if_pos hj] at hb
      rw [if_pos hj, jumboSizeAt_ev g pre post e h3 hb.1, hb.2.1]
      rw [wrap32_id (4 + ((e.body.length - 4 : Nat) : Int)) (by omega) (by omega),
        wrap32_id _ (by omega) (by omega)]
      omega
    · rw [if_neg hj] at hb
      rw [if_neg hj]
      have := nibSize_le e.flags
      rw [wrap32_id _ (by omega) (by omega)]
      omega
  · intro r hr
    unfold evSizeReads at hr
    rw [hf] at hr
    simp only [Read.inBounds, List.length_append]
    by_cases hj : isJumboF e.flags = true
    · rw [if_pos hj] at hb
      rw [if_pos hj] at hr
      simp only [List.mem_cons, List.not_mem_nil, or_false] at hr
      rcases hr with rfl | rfl <;> simp only <;> omega
    · rw [if_neg hj] at hr
      simp only [List.mem_cons, List.not_mem_nil, or_false] at hr
      subst hr; simp only; omega
  · unfold Fixed.HdrOk
    rw [hf]
    simp only [List.length_append]
    refine ⟨by omega, fun hj => ?_⟩
    rw [if_pos hj] at hb
    rw [jumboSizeAt_ev g pre post e h3 hb.1, hb.2.1]
    omega

/-! ### one call of `stream_step`, generic in the second half -/

abbrev Loader := Cur → Int → List Read → Res × Cur × List Read

/-- First half of `stream_step` with the second half as a parameter, so that
    the current and the repaired cursor share the walk lemmas. -/
def stepWith (ld : Loader) (g : Garbage) (buf : List Nat) (c : Cur) : Res × Cur × List Read :=
  if c.active = false then (.err .inactive, c, [])
  else
    let off1 := nextOff g buf c
    let r1 := if c.hasEv then evSizeReads g buf c.offset else []
    if c.hasEv = true ∧ off1 > (buf.length : Int) then (.err .exceeds, { c with offset := off1 }, r1)
    else if c.hasEv = true ∧ off1 = (buf.length : Int) then
      (.eof, { c with offset := off1, active := false, hasEv := false }, r1)
    else ld c off1 r1

theorem streamStep_eq (g : Garbage) (buf : List Nat) : streamStep g buf = stepWith (loadEv g buf) g buf := rfl

theorem Fixed.streamStep_eq (g : Garbage) (buf : List Nat) :
    Fixed.streamStep g buf = stepWith (Fixed.loadEv g buf) g buf := rfl

/-- A loader that behaves as the original one whenever the repaired guards pass. -/
def LdOk (g : Garbage) (buf : List Nat) (ld : Loader) : Prop :=
  ∀ c off r, Fixed.HdrOk g buf off → ld c off r = loadEv g buf c off r

theorem ldOk_cur (g : Garbage) (buf : List Nat) : LdOk g buf (loadEv g buf) := fun _ _ _ _ => rfl

theorem Fixed.loadEv_eq (g : Garbage) (buf : List Nat) (c : Cur) (off : Int) (r : List Read)
    (h : Fixed.HdrOk g buf off) : Fixed.loadEv g buf c off r = Stream.loadEv g buf c off r := by
  obtain ⟨h12, hj⟩ := h
  unfold Fixed.loadEv
  rw [if_neg (by omega)]
  by_cases j : isJumboF (flagsAt g buf off) = true
  · obtain ⟨h16, hs⟩ := hj j
    rw [if_neg (by intro ⟨_, h⟩; omega), if_neg (by intro ⟨_, h⟩; omega)]
  · rw [if_neg (by intro ⟨h, _⟩; exact j h), if_neg (by intro ⟨h, _⟩; exact j h)]

theorem ldOk_fixed (g : Garbage) (buf : List Nat) : LdOk g buf (Fixed.loadEv g buf) :=
  fun c off r h => Fixed.loadEv_eq g buf c off r h

/-- Cursor sitting on an event that starts at `off`. -/
def onEv (off : Nat) (lc : Nat) (u : Bool) : Cur :=
  { offset := (off : Int), hasEv := true, active := true, lastclock := (lc : Int), unsorted := u }

/-- The cursor right after `load_obs`. -/
def cur0 (u : Bool) : Cur := { offset := 8, hasEv := false, active := true, lastclock := 0, unsorted := u }

theorem loadEv_valid (g : Garbage) (pre post : List Nat) (e : SEv) (hw : e.WF) (c : Cur) (r1 : List Read)
    (hc : c.unsorted = false → c.lastclock ≤ (e.clock : Int)) :
    ∃ rd, loadEv g (pre ++ (e.encode ++ post)) c (pre.length : Int) r1 =
      (.ok, { c with offset := (pre.length : Int), hasEv := true, lastclock := (e.clock : Int) }, rd) := by
  obtain ⟨hs, hk, _, _, _⟩ := ev_facts g pre post e hw
  unfold loadEv
  rw [hs, hk]
  rw [if_neg (by simp only [List.length_append]; omega)]
  rw [if_neg (by intro ⟨hu, _, hl⟩; have := hc hu; omega)]
  exact ⟨_, rfl⟩

theorem loadEv_clock (g : Garbage) (pre post : List Nat) (e : SEv) (hw : e.WF) (c : Cur) (r1 : List Read)
    (hu : c.unsorted = false) (hh : c.hasEv = true) (hc : (e.clock : Int) < c.lastclock) :
    ∃ c' rd, loadEv g (pre ++ (e.encode ++ post)) c (pre.length : Int) r1 = (.err .clock, c', rd) := by
  obtain ⟨hs, hk, _, _, _⟩ := ev_facts g pre post e hw
  unfold loadEv
  rw [hs, hk]
  rw [if_neg (by simp only [List.length_append]; omega)]
  rw [if_pos ⟨hu, hh, hc⟩]
  exact ⟨_, _, rfl⟩

theorem length_header : header.length = 8 := by decide

/-- First call: `cur_ev == NULL`, the offset stays at 8. -/
theorem step_first (ld : Loader) (g : Garbage) (buf : List Nat) (u : Bool) :
    stepWith ld g buf (cur0 u) = ld (cur0 u) 8 [] := by
  simp [stepWith, cur0, nextOff]

/-- A later call with the cursor on a well-formed event followed by at least one more byte. -/
theorem step_on (ld : Loader) (g : Garbage) (pre post : List Nat) (e : SEv) (hw : e.WF) (lc : Nat) (u : Bool)
    (hp : post ≠ []) :
    stepWith ld g (pre ++ (e.encode ++ post)) (onEv pre.length lc u) =
      ld (onEv pre.length lc u) ((pre ++ e.encode).length : Int)
        (evSizeReads g (pre ++ (e.encode ++ post)) (pre.length : Int)) := by
  obtain ⟨hs, _, _, _, _⟩ := ev_facts g pre post e hw
  have hpl : 0 < post.length := List.length_pos_iff.mpr hp
  unfold stepWith
  simp only [onEv, nextOff, hs, if_true]
  rw [if_neg (by simp), if_neg (by simp only [List.length_append]; omega),
    if_neg (by simp only [List.length_append]; omega)]
  simp only [List.length_append, Int.natCast_add]

/-- The cursor on the last event: the next call reports the end of the stream. -/
theorem step_last (ld : Loader) (g : Garbage) (pre : List Nat) (e : SEv) (hw : e.WF) (lc : Nat) (u : Bool) :
    ∃ c' rd, stepWith ld g (pre ++ e.encode) (onEv pre.length lc u) = (.eof, c', rd) := by
  have hf := ev_facts g pre [] e hw
  simp only [List.append_nil] at hf
  obtain ⟨hs, _, _, _, _⟩ := hf
  unfold stepWith
  simp only [onEv, nextOff, hs, if_true]
  rw [if_neg (by simp), if_neg (by simp only [List.length_append]; omega)]
  have hx : True ∧ (pre.length : Int) + (e.encode.length : Int) = ((pre ++ e.encode).length : Int) :=
    ⟨trivial, by simp only [List.length_append]; omega⟩
  rw [if_pos hx]
  exact ⟨_, _, rfl⟩

/-- One successful step from a well-formed event to the next well-formed event. -/
theorem one_step (ld : Loader) (g : Garbage) (pre post : List Nat) (e e2 : SEv) (hw : e.WF) (hw2 : e2.WF)
    (lc : Nat) (u : Bool) (hld : LdOk g (pre ++ (e.encode ++ (e2.encode ++ post))) ld)
    (hc : u = false → lc ≤ e2.clock) :
    ∃ rd, stepWith ld g (pre ++ (e.encode ++ (e2.encode ++ post))) (onEv pre.length lc u) =
      (.ok, onEv (pre ++ e.encode).length e2.clock u, rd) := by
  rw [step_on ld g pre (e2.encode ++ post) e hw lc u (by simp [SEv.encode])]
  have hb : pre ++ (e.encode ++ (e2.encode ++ post)) = (pre ++ e.encode) ++ (e2.encode ++ post) := by
    simp only [List.append_assoc]
  have hok := (ev_facts g (pre ++ e.encode) post e2 hw2).2.2.2.2
  rw [hb] at hld ⊢
  rw [hld _ _ _ hok]
  obtain ⟨rd, h⟩ := loadEv_valid g (pre ++ e.encode) post e2 hw2 (onEv pre.length lc u)
    (evSizeReads g (pre ++ e.encode ++ (e2.encode ++ post)) (pre.length : Int))
    (by intro hu; simp only [onEv] at hu ⊢; have := hc hu; omega)
  exact ⟨rd, by rw [h]; rfl⟩

/-! ### walking over a run of well-formed events -/

theorem runWith_ok (step : Cur → Res × Cur × List Read) (fuel : Nat) (c c' : Cur) (rd : List Read)
    (h : step c = (.ok, c', rd)) : runWith step (fuel + 1) c = runWith step fuel c' := by
  simp [runWith, h]

theorem runWith_eof (step : Cur → Res × Cur × List Read) (fuel : Nat) (c c' : Cur) (rd : List Read)
    (h : step c = (.eof, c', rd)) : runWith step (fuel + 1) c = .eof := by
  simp [runWith, h]

theorem runWith_err (step : Cur → Res × Cur × List Read) (fuel : Nat) (c c' : Cur) (rd : List Read) (e : Err)
    (h : step c = (.err e, c', rd)) : runWith step (fuel + 1) c = .err e := by
  simp [runWith, h]

theorem encodeAll_cons (e : SEv) (l : List SEv) : encodeAll (e :: l) = e.encode ++ encodeAll l := by
  simp [encodeAll]

theorem encodeAll_append (a b : List SEv) : encodeAll (a ++ b) = encodeAll a ++ encodeAll b := by
  simp [encodeAll]

theorem encodeAll_nil : encodeAll [] = [] := rfl

/-- From the cursor on `e`, over the events `mid`, to the cursor on `e'`. -/
theorem walk (ld : Loader) (g : Garbage) (u : Bool) (e' : SEv) (post : List Nat) (he' : e'.WF) :
    ∀ (mid : List SEv) (buf pre : List Nat) (e : SEv) (fuel : Nat),
      LdOk g buf ld →
      buf = pre ++ (e.encode ++ (encodeAll mid ++ (e'.encode ++ post))) →
      e.WF → (∀ x ∈ mid, x.WF) → Sorted (e :: (mid ++ [e'])) →
      runWith (stepWith ld g buf) (mid.length + 1 + fuel) (onEv pre.length e.clock u) =
        runWith (stepWith ld g buf) fuel (onEv (pre ++ (e.encode ++ encodeAll mid)).length e'.clock u) := by
  intro mid
  induction mid with
  | nil =>
    intro buf pre e fuel hld hb hw _ hs
    subst hb
    simp only [encodeAll_nil, List.nil_append, List.append_nil] at hld ⊢
    have hc : e.clock ≤ e'.clock := by
      have := List.rel_of_pairwise_cons hs (List.mem_singleton.mpr rfl); exact this
    obtain ⟨rd, h⟩ := one_step ld g pre post e e' hw he' e.clock u hld (fun _ => hc)
    have : 0 + 1 + fuel = fuel + 1 := by omega
    rw [List.length_nil, this, runWith_ok _ fuel _ _ rd h]
  | cons m ms ih =>
    intro buf pre e fuel hld hb hw hmid hs
    have hwm : m.WF := hmid m (List.mem_cons_self)
    have hc : e.clock ≤ m.clock := List.rel_of_pairwise_cons hs (by simp)
    have hb2 : buf = pre ++ (e.encode ++ (m.encode ++ (encodeAll ms ++ (e'.encode ++ post)))) := by
      rw [hb, encodeAll_cons]; simp only [List.append_assoc]
    have hld2 := hld
    rw [hb2] at hld2
    obtain ⟨rd, h⟩ := one_step ld g pre (encodeAll ms ++ (e'.encode ++ post)) e m hw hwm e.clock u hld2 (fun _ => hc)
    rw [← hb2] at h
    have : (m :: ms).length + 1 + fuel = (ms.length + 1 + fuel) + 1 := by simp only [List.length_cons]; omega
    rw [this, runWith_ok _ _ _ _ rd h]
    have hs2 : Sorted (m :: (ms ++ [e'])) := (List.pairwise_cons.mp hs).2
    rw [ih buf (pre ++ e.encode) m fuel hld (by rw [hb2]; simp only [List.append_assoc]) hwm
      (fun x hx => hmid x (List.mem_cons_of_mem _ hx)) hs2]
    simp only [encodeAll_cons, List.append_assoc]

/-- From `load_obs` to the cursor on the last event of `init ++ [l]`. -/
theorem walk_to_last (ld : Loader) (g : Garbage) (u : Bool) (init : List SEv) (l : SEv) (post : List Nat)
    (buf : List Nat) (fuel : Nat) (hld : LdOk g buf ld)
    (hb : buf = header ++ (encodeAll init ++ (l.encode ++ post)))
    (hw : ∀ x ∈ init ++ [l], x.WF) (hs : Sorted (init ++ [l])) :
    runWith (stepWith ld g buf) (init.length + 1 + fuel) (cur0 u) =
      runWith (stepWith ld g buf) fuel (onEv (header ++ encodeAll init).length l.clock u) := by
  have hwl : l.WF := hw l (by simp)
  cases init with
  | nil =>
    simp only [encodeAll_nil, List.nil_append, List.append_nil] at hb ⊢
    have hok := (ev_facts g header post l hwl).2.2.2.2
    obtain ⟨rd, h⟩ := loadEv_valid g header post l hwl (cur0 u) []
      (by intro _; simp only [cur0]; omega)
    have h1 : stepWith ld g buf (cur0 u) = (.ok, onEv header.length l.clock u, rd) := by
      have h8 : ((header.length : Nat) : Int) = 8 := by decide
      rw [h8] at hok h
      rw [step_first, hld (cur0 u) 8 [] (by rw [hb]; exact hok), hb, h]
      simp [onEv, cur0, length_header]
    have : 0 + 1 + fuel = fuel + 1 := by omega
    rw [List.length_nil, this, runWith_ok _ fuel _ _ rd h1]
  | cons e0 mid =>
    have hw0 : e0.WF := hw e0 (by simp)
    have hb2 : buf = header ++ (e0.encode ++ (encodeAll mid ++ (l.encode ++ post))) := by
      rw [hb, encodeAll_cons]; simp only [List.append_assoc]
    have hok := (ev_facts g header (encodeAll mid ++ (l.encode ++ post)) e0 hw0).2.2.2.2
    obtain ⟨rd, h⟩ := loadEv_valid g header (encodeAll mid ++ (l.encode ++ post)) e0 hw0 (cur0 u) []
      (by intro _; simp only [cur0]; omega)
    have h1 : stepWith ld g buf (cur0 u) = (.ok, onEv header.length e0.clock u, rd) := by
      have h8 : ((header.length : Nat) : Int) = 8 := by decide
      rw [h8] at hok h
      rw [step_first, hld (cur0 u) 8 [] (by rw [hb2]; exact hok), hb2, h]
      simp [onEv, cur0, length_header]
    have : (e0 :: mid).length + 1 + fuel = (mid.length + 1 + fuel) + 1 := by
      simp only [List.length_cons]; omega
    rw [this, runWith_ok _ _ _ _ rd h1]
    rw [walk ld g u l post hwl mid buf header e0 fuel hld hb2 hw0
      (fun x hx => hw x (by simp [hx])) (by simpa using hs)]
    simp only [encodeAll_cons]

/-! ### more fuel does not change a finished run -/

theorem runWith_stable (step : Cur → Res × Cur × List Read) (k : Nat) :
    ∀ (fuel : Nat) (c : Cur), runWith step fuel c ≠ .running →
      runWith step (fuel + k) c = runWith step fuel c := by
  intro fuel
  induction fuel with
  | zero => intro c h; exact absurd rfl h
  | succ n ih =>
    intro c h
    have : n + 1 + k = (n + k) + 1 := by omega
    rw [this]
    unfold runWith at h ⊢
    split
    · rename_i c' rd heq
      rw [heq] at h
      exact ih c' h
    · rfl
    · rfl

/-- If from some fuel on the loop ends with an error, it never reports a clean end. -/
theorem never_eof (step : Cur → Res × Cur × List Read) (c : Cur) (N : Nat) (e : Err)
    (h : runWith step N c = .err e) : ∀ fuel, runWith step fuel c ≠ .eof := by
  intro fuel hf
  have h1 := runWith_stable step N fuel c (by rw [hf]; exact fun h => nomatch h)
  have h2 := runWith_stable step fuel N c (by rw [h]; exact fun h => nomatch h)
  rw [Nat.add_comm, h2, hf, h] at h1
  exact nomatch h1

/-! ### a truncated last event -/

theorem encode_drop12 (e : SEv) (h3 : e.mcv.length = 3) : e.encode.drop 12 = e.body := by
  obtain ⟨a, b, c, hm⟩ := mcv3 _ h3
  simp only [SEv.encode, hm]
  simp only [List.cons_append, List.nil_append, List.drop_succ_cons]
  rw [List.drop_append_of_le_length (by rw [le_length]; omega), List.drop_of_length_le (by rw [le_length]; omega)]
  rfl

theorem jumboSizeAt_trunc (g : Garbage) (pre : List Nat) (e : SEv) (h3 : e.mcv.length = 3) (r : Nat)
    (h16 : 16 ≤ r) (hr2 : r ≤ e.encode.length) :
    jumboSizeAt g (pre ++ e.encode.take r) (pre.length : Int) = unle (e.body.take 4) := by
  unfold jumboSizeAt
  have : readLE g (pre ++ e.encode.take r) ((pre.length : Int) + 12) 4 = _ :=
    readLE_app g pre (e.encode.take r) 4 12 (by rw [List.length_take]; omega)
  rw [this, List.drop_take, List.take_take, encode_drop12 e h3]
  have : min 4 (r - 12) = 4 := by omega
  rw [this]

/-- The size field of a truncated event is still the original one as long as
    the flags byte — and for a jumbo event the 4-byte size — survived. -/
theorem evSizeC_trunc (g : Garbage) (pre : List Nat) (e : SEv) (hw : e.WF) (r : Nat) (hr : 0 < r)
    (hj : isJumboF e.flags = true → 16 ≤ r) (hr2 : r ≤ e.encode.length) :
    evSizeC g (pre ++ e.encode.take r) (pre.length : Int) = (e.encode.length : Int) := by
  obtain ⟨h3, hc, hb⟩ := hw
  have hlen := encode_length e h3
  have hf : flagsAt g (pre ++ e.encode.take r) (pre.length : Int) = e.flags := by
    have := byteAt_app g pre (e.encode.take r) 0 (by rw [List.length_take]; omega)
    obtain ⟨r', rfl⟩ : ∃ r', r = r' + 1 := ⟨r - 1, by omega⟩
    simpa [flagsAt, SEv.encode] using this
  unfold evSizeC payloadSizeC
  rw [hf]
  by_cases j : isJumboF e.flags = true
  · rw [if_pos j] at hb
    have h16 := hj j
    rw [if_pos j, jumboSizeAt_trunc g pre e h3 r h16 hr2, hb.2.1]
    rw [wrap32_id (4 + ((e.body.length - 4 : Nat) : Int)) (by omega) (by omega),
      wrap32_id _ (by omega) (by omega)]
    omega
  · rw [if_neg j] at hb
    rw [if_neg j]
    have := nibSize_le e.flags
    rw [wrap32_id _ (by omega) (by omega)]
    omega

theorem loadEv_trunc (g : Garbage) (pre : List Nat) (e : SEv) (hw : e.WF) (r : Nat) (hr : 0 < r)
    (hj : isJumboF e.flags = true → 16 ≤ r) (hr2 : r < e.encode.length) (c : Cur) (r1 : List Read) :
    ∃ c' rd, loadEv g (pre ++ e.encode.take r) c (pre.length : Int) r1 = (.err .incomplete, c', rd) := by
  unfold loadEv
  rw [evSizeC_trunc g pre e hw r hr hj (by omega)]
  have hx : (pre.length : Int) + (e.encode.length : Int) > ((pre ++ e.encode.take r).length : Int) := by
    simp only [List.length_append, List.length_take]; omega
  rw [if_pos hx]
  exact ⟨_, _, rfl⟩

/-- The repaired loader refuses every strict prefix of a well-formed event,
    whatever lies beyond the end of the buffer. -/
theorem Fixed.loadEv_trunc (g : Garbage) (pre : List Nat) (e : SEv) (hw : e.WF) (r : Nat) (hr : 0 < r)
    (hr2 : r < e.encode.length) (c : Cur) (r1 : List Read) :
    ∃ c' rd, Fixed.loadEv g (pre ++ e.encode.take r) c (pre.length : Int) r1 = (.err .incomplete, c', rd) := by
  have hlen : ((pre ++ e.encode.take r).length : Int) = (pre.length : Int) + (r : Int) := by
    simp only [List.length_append, List.length_take]; omega
  unfold Fixed.loadEv
  by_cases h12 : r < 12
  · rw [if_pos (by omega)]; exact ⟨_, _, rfl⟩
  · rw [if_neg (by omega)]
    have hf : flagsAt g (pre ++ e.encode.take r) (pre.length : Int) = e.flags := by
      have := byteAt_app g pre (e.encode.take r) 0 (by rw [List.length_take]; omega)
      obtain ⟨r', rfl⟩ : ∃ r', r = r' + 1 := ⟨r - 1, by omega⟩
      simpa [flagsAt, SEv.encode] using this
    rw [hf]
    by_cases j : isJumboF e.flags = true
    · by_cases h16 : r < 16
      · rw [if_pos ⟨j, by omega⟩]; exact ⟨_, _, rfl⟩
      · rw [if_neg (by intro ⟨_, h⟩; omega)]
        have hb := hw.2.2
        rw [if_pos j] at hb
        rw [jumboSizeAt_trunc g pre e hw.1 r (by omega) (by omega), hb.2.1]
        rw [if_neg (by intro ⟨_, h⟩; omega)]
        exact Stream.loadEv_trunc g pre e hw r hr (fun _ => by omega) hr2 c r1
    · rw [if_neg (by intro ⟨h, _⟩; exact j h), if_neg (by intro ⟨h, _⟩; exact j h)]
      exact Stream.loadEv_trunc g pre e hw r hr (fun h => absurd h j) hr2 c r1

/-! ### whole-stream verdicts, generic in the loader -/

theorem header_eq : header = [111, 118, 110, 105, 1, 0, 0, 0] := by decide

theorem loadObs_header (rest : List Nat) (h : rest ≠ []) (u : Bool) :
    loadObs (header ++ rest) u = .ok (cur0 u) := by
  have hpos : 0 < rest.length := List.length_pos_iff.mpr h
  unfold loadObs
  rw [if_neg (by simp [header_eq]), if_neg (by simp [header_eq])]
  rw [if_neg (by simp [header_eq, Ovni.Generated.streamMagic, Ovni.Generated.streamVersion, unle])]
  simp [cur0, header_eq]; omega

theorem encode_ne_nil (e : SEv) : e.encode ≠ [] := by simp [SEv.encode]

theorem acceptsWith_false (step : Cur → Res × Cur × List Read) (rest : List Nat) (h : rest ≠ [])
    (N : Nat) (e : Err) (hN : runWith step N (cur0 false) = .err e) :
    ∀ fuel, acceptsWith step fuel (header ++ rest) = false := by
  intro fuel
  unfold acceptsWith
  rw [loadObs_header rest h]
  simp only [cur0, if_true]
  have := never_eof step (cur0 false) N e hN fuel
  simp only [cur0] at this
  simpa using this

/-- A valid stream is let through in `evs.length + 1` calls. -/
theorem accepts_valid_with (ld : Loader) (g : Garbage) (evs : List SEv) (hv : Valid evs)
    (hld : LdOk g (streamBytes evs) ld) :
    acceptsWith (stepWith ld g (streamBytes evs)) (evs.length + 1) (streamBytes evs) = true := by
  obtain ⟨hne, hw, hs⟩ := hv
  obtain ⟨init, l, rfl⟩ : ∃ init l, evs = init ++ [l] :=
    ⟨evs.dropLast, evs.getLast hne, (List.dropLast_concat_getLast hne).symm⟩
  have hb : streamBytes (init ++ [l]) = header ++ (encodeAll init ++ (l.encode ++ [])) := by
    simp [streamBytes, encodeAll_append, encodeAll]
  unfold acceptsWith
  rw [show streamBytes (init ++ [l]) = header ++ encodeAll (init ++ [l]) from rfl,
    loadObs_header _ (by simp [encodeAll_append, encodeAll, encode_ne_nil])]
  simp only [cur0, if_true]
  have hwk := walk_to_last ld g false init l [] (streamBytes (init ++ [l])) 1 hld hb hw hs
  have hb2 : streamBytes (init ++ [l]) = (header ++ encodeAll init) ++ l.encode := by
    rw [hb]; simp only [List.append_nil, List.append_assoc]
  obtain ⟨c', rd, hl⟩ := step_last ld g (header ++ encodeAll init) l (hw l (by simp)) l.clock false
  rw [← hb2] at hl
  have hlen : (init ++ [l]).length + 1 = init.length + 1 + 1 := by simp
  rw [show header ++ encodeAll (init ++ [l]) = streamBytes (init ++ [l]) from rfl, hlen]
  simp only [cur0] at hwk
  rw [hwk, runWith_eof _ 0 _ c' rd hl]
  rfl

/-- Truncation strictly inside the last event, for a loader that refuses the torn event. -/
theorem trunc_with (ld : Loader) (g : Garbage) (init : List SEv) (l : SEv) (r : Nat)
    (hv : Valid (init ++ [l])) (hr : 0 < r) (hr2 : r < l.encode.length)
    (hld : LdOk g (streamBytes init ++ l.encode.take r) ld)
    (hfin : ∀ (pre : List Nat) (c : Cur) (r1 : List Read),
      streamBytes init ++ l.encode.take r = pre ++ l.encode.take r →
      ∃ c' rd, ld c (pre.length : Int) r1 = (.err .incomplete, c', rd)) :
    ∀ fuel, acceptsWith (stepWith ld g (streamBytes init ++ l.encode.take r)) fuel
      (streamBytes init ++ l.encode.take r) = false := by
  obtain ⟨_, hw, hs⟩ := hv
  have htk : l.encode.take r ≠ [] := by
    intro h
    have := congrArg List.length h
    simp only [List.length_take, List.length_nil] at this
    omega
  have hb0 : streamBytes init ++ l.encode.take r = header ++ (encodeAll init ++ l.encode.take r) := by
    simp [streamBytes]
  rcases List.eq_nil_or_concat init with rfl | ⟨init', p, hcc⟩
  · -- the torn event is the first one
    have hb : streamBytes [] ++ l.encode.take r = header ++ l.encode.take r := by
      simp [streamBytes, encodeAll]
    obtain ⟨c', rd, h⟩ := hfin header (cur0 false) [] hb
    rw [hb] at hld ⊢
    refine acceptsWith_false _ _ htk 1 .incomplete ?_
    have : stepWith ld g (header ++ l.encode.take r) (cur0 false) = (.err .incomplete, c', rd) := by
      rw [step_first]; exact h
    exact runWith_err _ 0 _ c' rd _ this
  · rw [List.concat_eq_append] at hcc
    subst hcc
    have hb : streamBytes (init' ++ [p]) ++ l.encode.take r =
        header ++ (encodeAll init' ++ (p.encode ++ l.encode.take r)) := by
      simp [streamBytes, encodeAll_append, encodeAll]
    have hb2 : streamBytes (init' ++ [p]) ++ l.encode.take r =
        (header ++ encodeAll init') ++ (p.encode ++ l.encode.take r) := by
      rw [hb]; simp only [List.append_assoc]
    have hb3 : streamBytes (init' ++ [p]) ++ l.encode.take r =
        (header ++ encodeAll init' ++ p.encode) ++ l.encode.take r := by
      rw [hb]; simp only [List.append_assoc]
    have hwp : p.WF := hw p (by simp)
    have hw' : ∀ x ∈ init' ++ [p], x.WF := fun x hx => hw x (List.mem_append_left _ hx)
    have hs' : Sorted (init' ++ [p]) := by
      have : (init' ++ [p]).Sublist (init' ++ [p] ++ [l]) := List.sublist_append_left _ _
      exact List.Pairwise.sublist this hs
    have hwk := walk_to_last ld g false init' p (l.encode.take r) _ 1 hld hb hw' hs'
    have hst := step_on ld g (header ++ encodeAll init') (l.encode.take r) p hwp p.clock false htk
    rw [← hb2] at hst
    obtain ⟨c', rd, h⟩ := hfin (header ++ encodeAll init' ++ p.encode)
      (onEv (header ++ encodeAll init').length p.clock false)
      (evSizeReads g (streamBytes (init' ++ [p]) ++ l.encode.take r)
        ((header ++ encodeAll init').length : Int)) hb3
    rw [h] at hst
    have hN : runWith (stepWith ld g (streamBytes (init' ++ [p]) ++ l.encode.take r)) (init'.length + 1 + 1)
        (cur0 false) = .err .incomplete := by
      rw [hwk]; exact runWith_err _ 0 _ c' rd _ hst
    rw [hb0] at hN ⊢
    exact acceptsWith_false _ _ (by simp [htk]) _ _ hN

/-- Two adjacent events with different clocks exchanged. -/
theorem swap_with (ld : Loader) (g : Garbage) (pre : List SEv) (a b : SEv) (post : List SEv)
    (hv : Valid (pre ++ a :: b :: post)) (hne : a.clock ≠ b.clock)
    (hld : LdOk g (streamBytes (pre ++ b :: a :: post)) ld) :
    ∀ fuel, acceptsWith (stepWith ld g (streamBytes (pre ++ b :: a :: post))) fuel
      (streamBytes (pre ++ b :: a :: post)) = false := by
  obtain ⟨_, hw, hs⟩ := hv
  have hwa : a.WF := hw a (by simp)
  have hwb : b.WF := hw b (by simp)
  have hab : a.clock < b.clock := by
    have h1 : Sorted (a :: b :: post) := (List.pairwise_append.mp hs).2.1
    have := List.rel_of_pairwise_cons h1 (List.mem_cons_self)
    omega
  have hs' : Sorted (pre ++ [b]) := by
    have : (pre ++ [b]).Sublist (pre ++ a :: b :: post) := by
      apply List.Sublist.append_left
      exact List.Sublist.cons _ (List.Sublist.cons_cons _ (List.nil_sublist _))
    exact List.Pairwise.sublist this hs
  have hw' : ∀ x ∈ pre ++ [b], x.WF := fun x hx => hw x (by
    simp only [List.mem_append, List.mem_cons, List.not_mem_nil, or_false] at hx ⊢
    rcases hx with h | h
    · exact Or.inl h
    · exact Or.inr (Or.inr (Or.inl h)))
  have hb : streamBytes (pre ++ b :: a :: post) =
      header ++ (encodeAll pre ++ (b.encode ++ (a.encode ++ encodeAll post))) := by
    simp [streamBytes, encodeAll_append, encodeAll_cons]
  have hb2 : streamBytes (pre ++ b :: a :: post) =
      (header ++ encodeAll pre) ++ (b.encode ++ (a.encode ++ encodeAll post)) := by
    rw [hb]; simp only [List.append_assoc]
  have hb3 : streamBytes (pre ++ b :: a :: post) =
      (header ++ encodeAll pre ++ b.encode) ++ (a.encode ++ encodeAll post) := by
    rw [hb]; simp only [List.append_assoc]
  have hwk := walk_to_last ld g false pre b (a.encode ++ encodeAll post) _ 1 hld hb hw' hs'
  have hst := step_on ld g (header ++ encodeAll pre) (a.encode ++ encodeAll post) b hwb b.clock false
    (by simp [encode_ne_nil])
  have hok := (ev_facts g (header ++ encodeAll pre ++ b.encode) (encodeAll post) a hwa).2.2.2.2
  rw [← hb3] at hok
  rw [← hb2] at hst
  rw [hld _ _ _ hok] at hst
  have hck := fun r1 => loadEv_clock g (header ++ encodeAll pre ++ b.encode) (encodeAll post) a hwa
    (onEv (header ++ encodeAll pre).length b.clock false) r1 rfl rfl (by simp only [onEv]; omega)
  rw [← hb3] at hck
  obtain ⟨c', rd, hck⟩ := hck (evSizeReads g (streamBytes (pre ++ b :: a :: post))
      ((header ++ encodeAll pre).length : Int))
  rw [hck] at hst
  have hN : runWith (stepWith ld g (streamBytes (pre ++ b :: a :: post))) (pre.length + 1 + 1)
      (cur0 false) = .err .clock := by
    rw [hwk]; exact runWith_err _ 0 _ c' rd _ hst
  have hb0 : streamBytes (pre ++ b :: a :: post) = header ++ encodeAll (pre ++ b :: a :: post) := rfl
  rw [hb0] at hN ⊢
  exact acceptsWith_false _ _ (by simp [encodeAll_append, encodeAll_cons, encode_ne_nil]) _ _ hN

/-! ### header corruption -/

theorem acceptsWith_loadErr (step : Cur → Res × Cur × List Read) (fuel : Nat) (buf : List Nat) (e : LoadErr)
    (h : loadObs buf false = .error e) : acceptsWith step fuel buf = false := by
  unfold acceptsWith; rw [h]

/-- Any change of any of the 8 header bytes (to any value at all) is refused by `load_obs`. -/
theorem loadObs_set_header (rest : List Nat) (i : Nat) (hi : i < 8) (v : Nat)
    (hv : v ≠ (header ++ rest).getD i 0) (u : Bool) :
    ∃ e, loadObs ((header ++ rest).set i v) u = .error e := by
  have hcases : i = 0 ∨ i = 1 ∨ i = 2 ∨ i = 3 ∨ i = 4 ∨ i = 5 ∨ i = 6 ∨ i = 7 := by omega
  unfold loadObs
  rcases hcases with rfl | rfl | rfl | rfl | rfl | rfl | rfl | rfl <;>
    simp [header_eq, Ovni.Generated.streamMagic, Ovni.Generated.streamVersion, unle] at hv ⊢ <;>
    (split <;> first | exact ⟨_, rfl⟩ | (split <;> first | exact ⟨_, rfl⟩ | omega))

end Ovni.Emu.Stream
