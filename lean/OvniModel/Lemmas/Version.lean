import OvniModel.Version

namespace Ovni.Version

/-- Decimal rendering (ASCII codes), most significant digit first. -/
def dec (n : Nat) : Str :=
  if n < 10 then [n + 48] else dec (n / 10) ++ [n % 10 + 48]
decreasing_by omega

theorem digitsVal_append (acc : Nat) (xs : Str) (c : Nat) :
    digitsVal acc (xs ++ [c]) = digitsVal acc xs * 10 + digitVal c := by
  induction xs generalizing acc with
  | nil => rfl
  | cons x xs ih =>
    show digitsVal (acc * 10 + digitVal x) (xs ++ [c]) = _
    rw [ih]; rfl

theorem digitsVal_dec (n : Nat) : digitsVal 0 (dec n) = n := by
  induction n using Nat.strongRecOn with
  | _ n ih =>
    rw [dec]
    split
    · show 0 * 10 + (n + 48 - 48) = n
      omega
    · rw [digitsVal_append, ih (n / 10) (by omega)]
      show n / 10 * 10 + (n % 10 + 48 - 48) = n
      omega

theorem dec_ne_nil (n : Nat) : dec n ≠ [] := by
  rw [dec]; split <;> simp

theorem dec_all_digits (n : Nat) : ∀ c ∈ dec n, isDigit c = true := by
  induction n using Nat.strongRecOn with
  | _ n ih =>
    rw [dec]
    split
    · intro c hc
      simp at hc; subst hc; simp [isDigit]; omega
    · intro c hc
      simp at hc
      rcases hc with hc | hc
      · exact ih (n / 10) (by omega) c hc
      · subst hc; simp [isDigit]; omega

theorem dec_length_le (k n : Nat) (h : n < 10 ^ (k + 1)) : (dec n).length ≤ k + 1 := by
  induction k generalizing n with
  | zero =>
    rw [dec]; simp at h; simp [h]
  | succ k ih =>
    rw [dec]
    split
    · simp
    · have : n / 10 < 10 ^ (k + 1) := by
        rw [Nat.div_lt_iff_lt_mul (by omega)]
        rw [Nat.pow_succ] at h; exact h
      have := ih (n / 10) this
      simp; omega

theorem isDigit_iff (c : Nat) : isDigit c = true ↔ 48 ≤ c ∧ c ≤ 57 := by
  simp [isDigit]

theorem isSpace_iff (c : Nat) : isSpace c = true ↔ c = 32 ∨ c = 9 ∨ c = 10 ∨ c = 11 ∨ c = 12 ∨ c = 13 := by
  simp [isSpace, or_assoc]

theorem isDigit_not_space (c : Nat) (h : isDigit c = true) : isSpace c = false := by
  rw [isDigit_iff] at h
  cases hs : isSpace c with
  | false => rfl
  | true => rw [isSpace_iff] at hs; omega

theorem takeWhile_all {α} (p : α → Bool) (xs : List α) (h : ∀ x ∈ xs, p x = true) :
    xs.takeWhile p = xs := by
  induction xs with
  | nil => rfl
  | cons x xs ih =>
    rw [List.takeWhile_cons, h x (by simp)]
    simp only [if_true]
    rw [ih (fun y hy => h y (by simp [hy]))]

theorem dropWhile_all {α} (p : α → Bool) (xs : List α) (h : ∀ x ∈ xs, p x = true) :
    xs.dropWhile p = [] := by
  induction xs with
  | nil => rfl
  | cons x xs ih =>
    rw [List.dropWhile_cons, h x (by simp)]
    simp only [if_true]
    exact ih (fun y hy => h y (by simp [hy]))

theorem takeWhile_append_stop {α} (p : α → Bool) (xs : List α) (y : α) (ys : List α)
    (h : ∀ x ∈ xs, p x = true) (hy : p y = false) :
    (xs ++ y :: ys).takeWhile p = xs := by
  induction xs with
  | nil => simp [hy]
  | cons x xs ih =>
    rw [List.cons_append, List.takeWhile_cons, h x (by simp)]
    simp only [if_true]
    rw [ih (fun z hz => h z (by simp [hz]))]

theorem dropWhile_append_stop {α} (p : α → Bool) (xs : List α) (y : α) (ys : List α)
    (h : ∀ x ∈ xs, p x = true) (hy : p y = false) :
    (xs ++ y :: ys).dropWhile p = y :: ys := by
  induction xs with
  | nil => simp [hy]
  | cons x xs ih =>
    rw [List.cons_append, List.dropWhile_cons, h x (by simp)]
    simp only [if_true]
    exact ih (fun z hz => h z (by simp [hz]))

theorem dropWhile_head_false {α} (p : α → Bool) (x : α) (xs : List α) (h : p x = false) :
    (x :: xs).dropWhile p = x :: xs := by
  rw [List.dropWhile_cons, h]; simp

theorem castInt_small (n : Nat) (h : n < 2 ^ 31) : castInt (n : Int) = n := by
  unfold castInt
  have h1 : ((n : Int) % (2 ^ 32 : Int)) = n := by
    apply Int.emod_eq_of_lt <;> omega
  simp only [h1]
  split <;> omega

theorem fieldValue_small (n : Nat) (h : n < 2 ^ 31) : fieldValue false n = some n := by
  unfold fieldValue
  have hv' : ¬ n > longMax := by unfold longMax; omega
  simp only [Bool.not_false, Bool.true_and, Bool.false_and, Bool.or_false, decide_eq_true_eq, hv',
    if_false, Bool.false_eq_true]
  rw [castInt_small _ h]
  simp

/-- A string of digits denoting a value below 2^31 is accepted with that value. -/
theorem parseField_digits (ds : Str) (hne : ds ≠ []) (hd : ∀ c ∈ ds, isDigit c = true)
    (hv : digitsVal 0 ds < 2 ^ 31) : parseField ds = some (digitsVal 0 ds) := by
  obtain ⟨c, cs, rfl⟩ := List.exists_cons_of_ne_nil hne
  have hc := hd c (by simp)
  have hsp := isDigit_not_space c hc
  rw [isDigit_iff] at hc
  unfold parseField
  rw [dropWhile_head_false _ _ _ hsp]
  have e2 : stripSign (c :: cs) = (false, c :: cs) := by
    unfold stripSign
    split
    · rename_i r heq; cases heq; omega
    · rename_i r heq; cases heq; omega
    · rfl
  simp only [e2]
  rw [takeWhile_all isDigit _ hd, dropWhile_all isDigit _ hd]
  simp only [List.isEmpty_cons, List.isEmpty_nil, Bool.false_eq_true, if_false, Bool.not_true]
  exact fieldValue_small _ hv

theorem strtok_field (isDelim : Nat → Bool) (ds : Str) (d : Nat) (rest : Str) (hne : ds ≠ [])
    (hd : ∀ c ∈ ds, isDelim c = false) (hdel : isDelim d = true) :
    strtok isDelim (ds ++ d :: rest) = some (ds, rest) := by
  obtain ⟨c, cs, rfl⟩ := List.exists_cons_of_ne_nil hne
  have hc := hd c (by simp)
  unfold strtok
  rw [List.cons_append, dropWhile_head_false _ _ _ hc]
  have ht := takeWhile_append_stop (fun c => !isDelim c) (c :: cs) d rest
    (by intro x hx; simp [hd x hx]) (by simp [hdel])
  have hr := dropWhile_append_stop (fun c => !isDelim c) (c :: cs) d rest
    (by intro x hx; simp [hd x hx]) (by simp [hdel])
  rw [List.cons_append] at ht hr
  simp only [ht, hr]
  simp

theorem strtok_last (isDelim : Nat → Bool) (ds : Str) (hne : ds ≠ [])
    (hd : ∀ c ∈ ds, isDelim c = false) :
    strtok isDelim ds = some (ds, []) := by
  obtain ⟨c, cs, rfl⟩ := List.exists_cons_of_ne_nil hne
  have hc := hd c (by simp)
  unfold strtok
  rw [dropWhile_head_false _ _ _ hc]
  simp only
  rw [takeWhile_all (fun c => !isDelim c) _ (by intro x hx; simp [hd x hx]),
      dropWhile_all (fun c => !isDelim c) _ (by intro x hx; simp [hd x hx])]
  simp

end Ovni.Version
