import OvniModel.Lemmas.FsGlobal
set_option linter.unusedSimpArgs false

/-! Lemmas for the single-fault semantics (C10). -/
namespace Ovni.Rt.Fs

/-- What kind of call sits at each call site. -/
def SiteOk (c : Call) : Prop :=
  match c.site with
  | .mkdirPath => ∃ p, c.op = .mkdir p
  | .statPath => ∃ p, c.op = .stat p
  | .openStream => ∃ r t, c.op = .openW r t
  | .writeStream => ∃ r t d, c.op = .write r t d
  | .storeFopen => ∃ r t, c.op = .fopenW (.file r t .json)
  | .storeFputs => ∃ r t d, c.op = .fputs (.file r t .json) d
  | .storeFclose => ∃ r t, c.op = .fcloseW (.file r t .json)
  | .closeStream => ∃ r t l, c.op = .close r t l
  | .moveFopenSrc => ∃ p, c.op = .fopenR p
  | .moveFopenDst => ∃ t n, c.op = .fopenW (.file .fin t n)
  | .moveFread => ∃ t n k, c.op = .fread (.file .tmp t n) k
  | .moveFwrite => ∃ t n d, c.op = .fwrite (.file .fin t n) d
  | .moveFcloseOut => ∃ t n, c.op = .fcloseW (.file .fin t n)
  | .moveFcloseIn => ∃ p, c.op = .fcloseR p
  | .moveRemove => ∃ t n, c.op = .remove (.file .tmp t n)
  | .cleanRmdir => ∃ p, c.op = .rmdir p ∧ p.isLeaf = false
  | .moveOpendir | .moveReaddir | .moveClosedir => False   -- not in the code after the fix

theorem siteOk_mkpath (comps : List (Path × Bool)) : ∀ c ∈ mkpathCalls comps, SiteOk c := by
  intro c hc
  simp only [mkpathCalls, List.mem_flatMap] at hc
  obtain ⟨x, _, hc⟩ := hc
  split at hc
  · simp only [List.mem_cons, List.not_mem_nil, or_false] at hc
    rcases hc with rfl | rfl
    · exact ⟨_, rfl⟩
    · exact ⟨_, rfl⟩
  · simp only [List.mem_cons, List.not_mem_nil, or_false] at hc
    subst hc; exact ⟨_, rfl⟩

theorem siteOk_store (r : Root) (t : Nat) (js : List Nat) : ∀ c ∈ storeCalls r t js, SiteOk c := by
  intro c hc
  simp only [storeCalls, List.mem_cons, List.not_mem_nil, or_false] at hc
  rcases hc with rfl | rfl | rfl
  · exact ⟨_, _, rfl⟩
  · exact ⟨_, _, _, rfl⟩
  · exact ⟨_, _, rfl⟩

theorem siteOk_moveFile (g t : Nat) (n : FName) (cnt : List Nat) : ∀ c ∈ moveFileCalls g t n cnt, SiteOk c := by
  intro c hc
  simp only [moveFileCalls, List.mem_append, List.mem_cons, List.not_mem_nil, or_false, List.mem_flatMap] at hc
  rcases hc with (((rfl | rfl) | ⟨b, _, rfl | rfl⟩) | rfl | rfl | rfl | rfl)
  all_goals first | exact ⟨_, rfl⟩ | exact ⟨_, _, rfl⟩ | exact ⟨_, _, _, rfl⟩

theorem siteOk_thread (ser : Meta → List Nat) (p : Prog) (t : ThreadProg) : ∀ c ∈ threadCalls ser p t, SiteOk c := by
  intro c hc
  simp only [threadCalls, threadInitCalls, List.mem_append] at hc
  rcases hc with ((((h | h) | h) | h) | h) | h
  · exact siteOk_mkpath _ c h
  · split at h
    · exact siteOk_mkpath _ c h
    · cases h
  · simp only [List.mem_cons, List.not_mem_nil, or_false] at h
    rcases h with rfl | rfl
    · exact ⟨_, _, rfl⟩
    · exact ⟨_, _, _, rfl⟩
  · exact siteOk_store _ _ _ c h
  · simp only [List.mem_flatMap] at h
    obtain ⟨st, _, hc⟩ := h
    cases st with
    | io chunks =>
      simp only [stepCalls, List.mem_map] at hc
      obtain ⟨d, _, rfl⟩ := hc
      exact ⟨_, _, _, rfl⟩
    | attrFlush b => exact siteOk_store _ _ _ c hc
  · split at h
    · simp only [threadFreeCalls, List.mem_append] at h
      rcases h with (h | h) | h
      · exact siteOk_store _ _ _ c h
      · simp only [List.mem_cons, List.not_mem_nil, or_false] at h; subst h; exact ⟨_, _, _, rfl⟩
      · unfold relocCalls at h
        split at h
        · simp only [List.mem_append, List.mem_cons, List.not_mem_nil, or_false] at h
          rcases h with (h | h) | rfl
          · exact siteOk_moveFile _ _ _ _ c h
          · exact siteOk_moveFile _ _ _ _ c h
          · exact ⟨_, rfl, rfl⟩
        · cases h
    · cases h

theorem siteOk_calls (ser : Meta → List Nat) (p : Prog) : ∀ c ∈ calls ser p, SiteOk c := by
  intro c hc
  simp only [calls, List.mem_append, List.mem_flatMap] at hc
  rcases hc with (h | ⟨t, _, h⟩) | h
  · unfold procInitCalls at h
    split at h
    · rcases List.mem_append.mp h with h | h <;> exact siteOk_mkpath _ c h
    · exact siteOk_mkpath _ c h
  · exact siteOk_thread ser p t c h
  · unfold procFiniCalls at h
    split at h
    · simp only [List.mem_cons, List.not_mem_nil, or_false] at h
      rcases h with rfl | rfl | rfl <;> exact ⟨_, rfl, rfl⟩
    · cases h

/-! ### a short write followed by the write of the remainder -/

theorem effect_write_split (r : Root) (t : Nat) (d : List Nat) (n : Nat) (q : Path) (o : Option Node) :
    effect (.write r t (d.drop n)) q (effect (.write r t (d.take n)) q o) = effect (.write r t d) q o := by
  simp only [effect]
  by_cases h1 : q = .file r t .obs
  · simp only [h1, if_true]
    cases o with
    | none => rfl
    | some nd => cases nd <;> simp [addDisk, List.append_assoc]
  · simp only [h1, if_false]
    by_cases h2 : q = .ghost t
    · simp [h2, flushedOf, List.append_assoc]
    · simp [h2]

/-! ### the fault-free end of the run -/

theorem view_at_end (ser : Meta → List Nat) (p : Prog) (t : ThreadProg) (ht : t ∈ p.threads)
    (hnd : (p.threads.map (·.tid)).Nodup) :
    viewOf (run p.init (ops (calls ser p))) t.tid = vrun t.tid View.empty (ops (threadCalls ser p t)) := by
  obtain ⟨A, B, hsplit, hA, hB⟩ := calls_split ser p t ht hnd
  rw [viewOf_run, viewOf_init, hsplit, vrun_append, vrun_append, vrun_foreign hA, vrun_foreign hB]

end Ovni.Rt.Fs

namespace Ovni.Rt.Fs

theorem run_get_congr {s1 s2 : Fs} {q : Path} (hq : q.isLeaf = true) (h : s1.get q = s2.get q) (X : List FOp) :
    (run s1 X).get q = (run s2 X).get q := by
  rw [get_run _ _ hq, get_run _ _ hq, h]

theorem run_append (s : Fs) (a b : List FOp) : run s (a ++ b) = run (run s a) b := by
  simp [run, List.foldl_append]

theorem run_cons (s : Fs) (op : FOp) (r : List FOp) : run s (op :: r) = run (apply s op) r := rfl
theorem run_nil (s : Fs) : run s [] = s := rfl

/-- Skipping a call changes nothing at paths the call does not touch. -/
theorem get_skip {s : Fs} {q : Path} (hq : q.isLeaf = true) (op : FOp) (h : q ∉ touch op) (X : List FOp) :
    (run s X).get q = (run (apply s op) X).get q :=
  run_get_congr hq (by rw [get_apply _ _ hq, effect_of_not_touch h]) X

/-- A short write followed by the write of the remainder equals the write. -/
theorem get_short_write {s : Fs} {q : Path} (hq : q.isLeaf = true) (r : Root) (t : Nat) (d : List Nat) (n : Nat)
    (X : List FOp) :
    (run (apply s (.write r t (d.take n))) (.write r t (d.drop n) :: X)).get q
      = (run (apply s (.write r t d)) X).get q := by
  rw [run_cons]
  apply run_get_congr hq
  rw [get_apply _ _ hq, get_apply _ _ hq, get_apply _ _ hq, effect_write_split]

/-- The view restricted to what `NoLoss` reads. -/
theorem noLoss_congr {v v' : View} (h1 : v'.ot = v.ot) (h2 : v'.ofn = v.ofn) (h3 : v'.g = v.g) (h : NoLoss v) :
    NoLoss v' := by
  unfold NoLoss at h ⊢
  rw [h3]
  rcases h with h | ⟨r, d, pn, hr, hd⟩
  · exact Or.inl h
  · refine Or.inr ⟨r, d, pn, ?_, hd⟩
    cases r
    · simpa [View.o, h1] using hr
    · simpa [View.o, h2] using hr

/-- Two file systems that agree outside stream.json files have the same
    `NoLoss` views. -/
theorem noLoss_of_agree {s s' : Fs} (τ : Nat)
    (h : ∀ q, q.isLeaf = true → (∀ r t, q ≠ .file r t .json) → s'.get q = s.get q)
    (hn : NoLoss (viewOf s τ)) : NoLoss (viewOf s' τ) := by
  apply noLoss_congr _ _ _ hn
  · exact h _ rfl (by intro r t; simp)
  · exact h _ rfl (by intro r t; simp)
  · exact h _ rfl (by intro r t; simp)

end Ovni.Rt.Fs
