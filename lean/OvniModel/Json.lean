/-!
# parson (src/parson.c) as the emulator and libovni use it

A model of the vendored JSON library for the JSON that ovni metadata uses:

* `parse` — `json_parse_file_with_comments` / `json_parse_string_with_comments`:
  the text is a C string (cut at the first NUL), `/* */` and `//` comments are
  blanked by `remove_comments` (twice, with its own string tracking), then
  `parse_value(&s, 0)`; whatever follows the root value is **ignored**.
* getters — `json_object_get_value`, `json_object_dotget_value` and the typed
  getters (`json_value_get_number` = 0 for a non-number, …).
* `dotset` — `json_object_dotset_value` / `json_object_set_value`.
* `serializePretty` — `json_serialize_to_string_pretty`.

Strings and texts are lists of byte values (`List Nat`), as everywhere else.

What parson does, as transcribed (each point is exercised by the fixed corpus
of `checks/json_lib.py` against the real `src/parson.c`):

* **comments** — two passes of `remove_comments` (`/* */`, then `//` to end of
  line) that blank the comment and track strings with their own `in_string` /
  `escaped` flags: comment markers inside a string are kept; a `"` or a `/*`
  inside a *line* comment is seen by the first pass (which scans line comments as
  code) and hides or opens a block comment; an unterminated comment blanks only
  its start token.
* **white space** — `isspace` (space, `\t \n \v \f \r`).
* **strings** — `skip_quotes` to the closing quote, then `process_string`: the
  escapes `\" \\ \/ \b \f \n \r \t \uXXXX` (upper or lower case hex), surrogate
  pairs combined to 4-byte UTF-8, a lone or reversed surrogate refused, a raw byte
  below 0x20 refused, any other escape refused.  UTF-8 is **not** validated by the
  parser (bytes ≥ 0x80 pass through); it is validated by `json_value_init_string`
  (`validUtf8`), i.e. when libovni stores a string.  `\u0000` is accepted in a
  value (the string then has an embedded NUL: `getString` = what a `char *` reader
  sees, `getStringFull` = the stored bytes) and refused in a name.
* **numbers** — see below; leading zeros (`01`, `-00`, also `0e1`) and hexadecimal
  are refused by `is_decimal`, `-inf` / `-nan` by `json_value_init_number`; a `-`
  that starts no number converts nothing and yields **0 without consuming** (the
  document `-x` is the number 0; inside a container the next delimiter test fails).
* **literals** — `strncmp` with `true`, `false`, `null` (`nullx` = `null` then `x`).
* **nesting** — `parse_value(nesting)` fails for `nesting > MAX_NESTING` = 2048
  (2048 nested containers around a scalar are accepted, an *empty* container may
  sit one level deeper).
* **duplicate names** — `json_object_add` refuses a name that is already there:
  the whole parse fails.
* **after the root value** — nothing is checked: `{"a":1}}garbage` is accepted.
* **NUL** — the text ends at the first NUL byte (C string); an empty text fails.
* **BOM** — not skipped by `json_parse_string_with_comments` (only by `json_parse_string`).
* **dotted names** — split at every `.`; empty segments are names like any other.
* **serializer** — 4-space indentation, `": "`, every `/` written `\/`, control
  characters `\b \f \n \r \t` or `\u00xx` (lower case), bytes ≥ 0x80 raw, numbers
  `%1.17g`.

Numbers.  parson stores a `double` obtained from `strtod` after its own
`is_decimal` pre-check.  The model stores a number as the dyadic rational
`n / 2^k` (`Json.number n k`, `k = 0` or `n` odd) and follows `strtod`'s decimal
grammar exactly (optional `-`, digits with optional `.`, `.digits` after a sign,
optional exponent, the "no conversion" case of a lone `-`, hexadecimal floats,
`-inf` / `-nan`).  The *value* is modelled exactly whenever the decimal denotes
an integer of magnitude ≤ 2^53 or a dyadic fraction `q / 2^k` with `q` ≤ 2^53,
`k` ≤ 1000; every other spelling (`0.1`, `1e400`, `9007199254740993`) is kept as
`Json.numberX spelling` — the grammar (accept / reject) is still followed, only
the value is not computed — and `parse` then reports the third outcome
`Res.unsup` for the whole document (parson may even refuse such a document:
`ERANGE` overflow).  `-0` is identified with `0`.
-/
namespace Ovni.Json

/-- A JSON value as parson stores it.  Objects keep their members in insertion
    order (`names[]` / `values[]`), numbers are `n / 2^k`. -/
inductive Json where
  | null
  | bool (b : Bool)
  | number (n : Int) (k : Nat)
  /-- a number whose value the model does not compute; the consumed spelling is kept -/
  | numberX (spelling : List Nat)
  | string (s : List Nat)
  | array (items : List Json)
  | object (members : List (List Nat × Json))
deriving Repr, Inhabited

abbrev Members := List (List Nat × Json)

/-! ### decidable equality (the deriving handler does not do nested inductives) -/

mutual
def Json.beq : Json → Json → Bool
  | .null, .null => true
  | .bool a, .bool b => a == b
  | .number a i, .number b j => a == b && i == j
  | .numberX a, .numberX b => a == b
  | .string a, .string b => a == b
  | .array a, .array b => Json.beqList a b
  | .object a, .object b => Json.beqMembers a b
  | _, _ => false
def Json.beqList : List Json → List Json → Bool
  | [], [] => true
  | a :: as, b :: bs => Json.beq a b && Json.beqList as bs
  | _, _ => false
def Json.beqMembers : Members → Members → Bool
  | [], [] => true
  | (k, a) :: as, (l, b) :: bs => k == l && Json.beq a b && Json.beqMembers as bs
  | _, _ => false
end

/-- constructor index, to dispose of the mixed cases of `beq` at once -/
def Json.tag : Json → Nat
  | .null => 0 | .bool _ => 1 | .number _ _ => 2 | .numberX _ => 3 | .string _ => 4 | .array _ => 5 | .object _ => 6

theorem Json.beq_tag : ∀ (a b : Json), Json.beq a b = true → a.tag = b.tag := by
  intro a b h
  cases a <;> cases b <;> first | rfl | (simp [Json.beq] at h)

mutual
theorem Json.beq_eq : ∀ (a b : Json), Json.beq a b = true → a = b
  | .null, b, h => by
    have := Json.beq_tag _ _ h
    cases b <;> simp [Json.tag] at this
    rfl
  | .bool a, b, h => by
    have := Json.beq_tag _ _ h
    cases b <;> simp [Json.tag] at this
    simp only [Json.beq, beq_iff_eq] at h; rw [h]
  | .number a i, b, h => by
    have := Json.beq_tag _ _ h
    cases b <;> simp [Json.tag] at this
    simp only [Json.beq, Bool.and_eq_true, beq_iff_eq] at h; rw [h.1, h.2]
  | .numberX a, b, h => by
    have := Json.beq_tag _ _ h
    cases b <;> simp [Json.tag] at this
    simp only [Json.beq, beq_iff_eq] at h; rw [h]
  | .string a, b, h => by
    have := Json.beq_tag _ _ h
    cases b <;> simp [Json.tag] at this
    simp only [Json.beq, beq_iff_eq] at h; rw [h]
  | .array a, b, h => by
    have := Json.beq_tag _ _ h
    cases b <;> simp [Json.tag] at this
    rename_i b
    simp only [Json.beq] at h; rw [Json.beqList_eq a b h]
  | .object a, b, h => by
    have := Json.beq_tag _ _ h
    cases b <;> simp [Json.tag] at this
    rename_i b
    simp only [Json.beq] at h; rw [Json.beqMembers_eq a b h]
theorem Json.beqList_eq : ∀ (a b : List Json), Json.beqList a b = true → a = b
  | [], [], _ => rfl
  | a :: as, b :: bs, h => by
    simp only [Json.beqList, Bool.and_eq_true] at h
    rw [Json.beq_eq a b h.1, Json.beqList_eq as bs h.2]
  | [], _ :: _, h | _ :: _, [], h => by simp [Json.beqList] at h
theorem Json.beqMembers_eq : ∀ (a b : Members), Json.beqMembers a b = true → a = b
  | [], [], _ => rfl
  | (k, a) :: as, (l, b) :: bs, h => by
    simp only [Json.beqMembers, Bool.and_eq_true, beq_iff_eq] at h
    rw [h.1.1, Json.beq_eq a b h.1.2, Json.beqMembers_eq as bs h.2]
  | [], _ :: _, h | _ :: _, [], h => by simp [Json.beqMembers] at h
end

mutual
theorem Json.beq_refl : ∀ (a : Json), Json.beq a a = true
  | .null => rfl
  | .bool _ => by simp [Json.beq]
  | .number _ _ => by simp [Json.beq]
  | .numberX _ => by simp [Json.beq]
  | .string _ => by simp [Json.beq]
  | .array a => by simp only [Json.beq]; exact Json.beqList_refl a
  | .object a => by simp only [Json.beq]; exact Json.beqMembers_refl a
theorem Json.beqList_refl : ∀ (a : List Json), Json.beqList a a = true
  | [] => rfl
  | a :: as => by simp only [Json.beqList, Json.beq_refl a, Json.beqList_refl as, Bool.and_self]
theorem Json.beqMembers_refl : ∀ (a : Members), Json.beqMembers a a = true
  | [] => rfl
  | (k, a) :: as => by
    simp only [Json.beqMembers, Json.beq_refl a, Json.beqMembers_refl as, Bool.and_self, beq_self_eq_true]
end

instance : DecidableEq Json := fun a b =>
  if h : Json.beq a b = true then isTrue (Json.beq_eq a b h)
  else isFalse (fun e => h (e ▸ Json.beq_refl a))

/-- Outcome of the parser: a value, NULL (`fail`), a document holding a number
    whose value the model does not compute (`unsup`, produced by `parse` only),
    or not enough fuel (`oof`; never the case with the fuel `parse` supplies —
    `Props/Json.parse_total`). -/
inductive Res (α : Type) where
  | ok (a : α)
  | fail
  | unsup
  | oof
deriving Repr, DecidableEq

/-- sequencing: anything but `ok` is passed on -/
def Res.bind {α β : Type} : Res α → (α → Res β) → Res β
  | .ok a, g => g a
  | .fail, _ => .fail
  | .unsup, _ => .unsup
  | .oof, _ => .oof

/-! ### characters -/

/-- `isspace` in the C locale. -/
def isSpace (c : Nat) : Bool := c == 32 || (9 ≤ c && c ≤ 13)

def isDigit (c : Nat) : Bool := 48 ≤ c && c ≤ 57

/-- `SKIP_WHITESPACES`. -/
def skipWs (s : List Nat) : List Nat := s.dropWhile isSpace

/-- `hex_char_to_int`. -/
def hexVal (c : Nat) : Option Nat :=
  if 48 ≤ c ∧ c ≤ 57 then some (c - 48)
  else if 97 ≤ c ∧ c ≤ 102 then some (c - 87)
  else if 65 ≤ c ∧ c ≤ 70 then some (c - 55)
  else none

/-- `parse_utf16_hex`. -/
def hex4 (a b c d : Nat) : Option Nat :=
  match hexVal a, hexVal b, hexVal c, hexVal d with
  | some x1, some x2, some x3, some x4 => some (x1 * 4096 + x2 * 256 + x3 * 16 + x4)
  | _, _, _, _ => none

/-- The UTF-8 bytes `parse_utf16` writes for a code point (not a surrogate). -/
def utf8Enc (cp : Nat) : List Nat :=
  if cp < 0x80 then [cp]
  else if cp < 0x800 then [cp / 64 % 32 + 0xC0, cp % 64 + 0x80]
  else if cp < 0x10000 then [cp / 4096 % 16 + 0xE0, cp / 64 % 64 + 0x80, cp % 64 + 0x80]
  else [cp / 262144 % 8 + 0xF0, cp / 4096 % 64 + 0x80, cp / 64 % 64 + 0x80, cp % 64 + 0x80]

/-! ### the text handed to the parser -/

/-- A file's bytes as the C string parson sees (`read_file` NUL-terminates,
    `parson_strdup` stops at the first NUL). -/
def cstr (s : List Nat) : List Nat := s.takeWhile (· != 0)

/-- `strstr(s, tok) != NULL` for a non-empty token. -/
def hasTok (tok : List Nat) : List Nat → Bool
  | [] => false
  | c :: r => (tok.isPrefixOf (c :: r)) || hasTok tok r

/-- Where `remove_comments` is: in the code, or blanking a comment. -/
inductive CMode where
  | code
  /-- blanking the rest of the start token (`n` more characters), then the body -/
  | start (n : Nat)
  /-- blanking the body, looking for the end token -/
  | body
  /-- blanking the rest of the end token (`n` more characters) -/
  | tail (n : Nat)
deriving DecidableEq, Repr

/-- `remove_comments(string, start, end)` as a one-pass machine.  `inStr` /
    `esc` are the C flags `in_string` / `escaped`; a start token outside a
    string whose end token is missing blanks only the start token and stops
    (`if (!ptr) return;`). -/
def rcGo (st en : List Nat) : Bool → Bool → CMode → List Nat → List Nat
  | _, _, _, [] => []
  | inStr, esc, .code, c :: r =>
    if c = 92 ∧ esc = false then c :: rcGo st en inStr true .code r
    else if c = 34 ∧ esc = false then c :: rcGo st en (!inStr) false .code r
    else if inStr = false ∧ st.isPrefixOf (c :: r) = true then
      if hasTok en ((c :: r).drop st.length) then
        32 :: rcGo st en inStr false (if st.length ≤ 1 then .body else .start (st.length - 1)) r
      else
        (List.replicate st.length 32) ++ (c :: r).drop st.length
    else c :: rcGo st en inStr false .code r
  | inStr, _, .start n, _ :: r =>
    32 :: rcGo st en inStr false (if n ≤ 1 then .body else .start (n - 1)) r
  | inStr, _, .body, c :: r =>
    if en.isPrefixOf (c :: r) then
      32 :: rcGo st en inStr false (if en.length ≤ 1 then .code else .tail (en.length - 1)) r
    else 32 :: rcGo st en inStr false .body r
  | inStr, _, .tail n, _ :: r =>
    32 :: rcGo st en inStr false (if n ≤ 1 then .code else .tail (n - 1)) r

def removeComments (st en : List Nat) (s : List Nat) : List Nat := rcGo st en false false .code s

/-- The two passes of `json_parse_string_with_comments`. -/
def stripComments (s : List Nat) : List Nat :=
  removeComments [47, 47] [10] (removeComments [47, 42] [42, 47] s)

/-! ### strings -/

/-- `skip_quotes` on the text after the opening quote: the raw text between
    the quotes and what follows the closing quote. -/
def skipQuotes : List Nat → Option (List Nat × List Nat)
  | [] => none
  | c :: r =>
    if c = 34 then some ([], r)
    else if c = 92 then
      match r with
      | [] => none
      | d :: r' =>
        match skipQuotes r' with
        | none => none
        | some (i, t) => some (c :: d :: i, t)
    else
      match skipQuotes r with
      | none => none
      | some (i, t) => some (c :: i, t)

def consOpt (xs : List Nat) (o : Option (List Nat)) : Option (List Nat) :=
  match o with
  | none => none
  | some l => some (xs ++ l)

/-- `process_string` (with `parse_utf16`) on the raw text between the quotes. -/
def processString : List Nat → Option (List Nat)
  | [] => some []
  | c :: r =>
    if c = 92 then
      match r with
      | [] => none
      | e :: r' =>
        if e = 34 then consOpt [34] (processString r')
        else if e = 92 then consOpt [92] (processString r')
        else if e = 47 then consOpt [47] (processString r')
        else if e = 98 then consOpt [8] (processString r')
        else if e = 102 then consOpt [12] (processString r')
        else if e = 110 then consOpt [10] (processString r')
        else if e = 114 then consOpt [13] (processString r')
        else if e = 116 then consOpt [9] (processString r')
        else if e = 117 then
          match r' with
          | h1 :: h2 :: h3 :: h4 :: r2 =>
            match hex4 h1 h2 h3 h4 with
            | none => none
            | some cp =>
              if cp < 0xD800 ∨ 0xDFFF < cp then consOpt (utf8Enc cp) (processString r2)
              else if cp ≤ 0xDBFF then
                match r2 with
                | b :: u :: g1 :: g2 :: g3 :: g4 :: r3 =>
                  if b = 92 ∧ u = 117 then
                    match hex4 g1 g2 g3 g4 with
                    | none => none
                    | some tr =>
                      if 0xDC00 ≤ tr ∧ tr ≤ 0xDFFF then
                        consOpt (utf8Enc ((cp - 0xD800) % 1024 * 1024 + (tr - 0xDC00) % 1024 + 0x10000))
                          (processString r3)
                      else none
                  else none
                | _ => none
              else none
          | _ => none
        else none
    else if c < 32 then none
    else consOpt [c] (processString r)

/-- `get_quoted_string` on a text that starts with the opening quote. -/
def quotedString (s : List Nat) : Option (List Nat × List Nat) :=
  match s with
  | [] => none
  | q :: r =>
    if q = 34 then
      match skipQuotes r with
      | none => none
      | some (raw, rest) =>
        match processString raw with
        | none => none
        | some str => some (str, rest)
    else none

/-! ### numbers -/

def digitsVal (ds : List Nat) : Nat := ds.foldl (fun a d => a * 10 + (d - 48)) 0

def pow2_53 : Nat := 9007199254740992

/-- divide out factors of two, at most `k` of them -/
def norm2 : Nat → Nat → Nat × Nat
  | q, 0 => (q, 0)
  | q, k + 1 => if q % 2 = 0 then norm2 (q / 2) k else (q, k + 1)

/-- The value `m · 10^e10` of a decimal with `nd` mantissa digits as `n / 2^k`,
    when it is an integer ≤ 2^53 or such a dyadic fraction; `none` = not modelled. -/
def mkNum (neg : Bool) (m : Nat) (nd : Nat) (e10 : Int) : Option (Int × Nat) :=
  if m = 0 then some (0, 0)
  else
    match e10 with
    | .ofNat e =>
      if e > 16 then none
      else
        let v := m * 10 ^ e
        if v ≤ pow2_53 then some (if neg then -(v : Int) else (v : Int), 0) else none
    | .negSucc k' =>
      let k := k' + 1
      if k > 2 * nd + 2 then none
      else if m % 5 ^ k ≠ 0 then none
      else
        let (q, j) := norm2 (m / 5 ^ k) k
        if q ≤ pow2_53 ∧ j ≤ 1000 then some (if neg then -(q : Int) else (q : Int), j) else none

def lower (c : Nat) : Nat := if 65 ≤ c ∧ c ≤ 90 then c + 32 else c

/-- case-insensitive prefix test against a lower-case word -/
def prefixCI : List Nat → List Nat → Bool
  | [], _ => true
  | _ :: _, [] => false
  | w :: ws, c :: cs => lower c == w && prefixCI ws cs

/-- `strtod` would read a hexadecimal float: `0x` / `0X` followed by a hex digit
    or by `.` and a hex digit. -/
def isHexFloat (t : List Nat) : Bool :=
  match t with
  | 48 :: x :: h :: r =>
    (x == 120 || x == 88) &&
      ((hexVal h).isSome || (h == 46 && (match r with | g :: _ => (hexVal g).isSome | [] => false)))
  | _ => false

/-- The exponent part `strtod` accepts after the mantissa: `e`/`E`, an optional
    sign and at least one digit.  Returns the exponent and the rest. -/
def exponent (t : List Nat) : Int × List Nat :=
  match t with
  | e :: r =>
    if e = 101 ∨ e = 69 then
      match r with
      | s :: r' =>
        if s = 43 ∨ s = 45 then
          if (r'.takeWhile isDigit).isEmpty then (0, t)
          else
            let v : Int := digitsVal (r'.takeWhile isDigit)
            (if s = 45 then -v else v, r'.dropWhile isDigit)
        else if (r.takeWhile isDigit).isEmpty then (0, t)
        else ((digitsVal (r.takeWhile isDigit) : Nat), r.dropWhile isDigit)
      | [] => (0, t)
    else (0, t)
  | [] => (0, t)

/-- The characters that end a value inside a container: white space, `,`, `]`, `}`.
    None of them can be part of anything `strtod` reads. -/
def isStop (c : Nat) : Bool := isSpace c || c == 44 || c == 93 || c == 125

def notStop (c : Nat) : Bool := !isStop c

/-- The mantissa `strtod` reads: the digits before the point, the digits
    after it (the point itself is read even without digits after it), the rest. -/
def scanMantissa (t : List Nat) : List Nat × List Nat × List Nat :=
  match t.dropWhile isDigit with
  | d :: u =>
    if d = 46 then (t.takeWhile isDigit, u.takeWhile isDigit, u.dropWhile isDigit)
    else (t.takeWhile isDigit, [], d :: u)
  | [] => (t.takeWhile isDigit, [], [])

/-- `is_decimal` refuses a consumed text of `m` characters (not counting the
    sign) that starts with `0` not followed by `.` -/
def leadingZero (t : List Nat) (m : Nat) : Bool :=
  t.head? == some 48 && decide (m > 1) && t[1]? != some 46

/-- `numCore` after the sign: `s` is the whole text (what "no conversion"
    leaves unread), `t` the text after the optional `-`. -/
def numBody (neg : Bool) (s t : List Nat) : Res (Json × List Nat) :=
  if prefixCI [105, 110, 102] t || prefixCI [110, 97, 110] t then .fail      -- -inf / -nan: IS_NUMBER_INVALID
  else if isHexFloat t then .fail                                             -- consumed text fails is_decimal
  else
    match scanMantissa t with
    | (ip, fp, t2) =>
      if ip.isEmpty && fp.isEmpty then .ok (.number 0 0, s)                   -- no conversion: end = nptr, value 0
      else
        match exponent t2 with
        | (ex, t3) =>
          if leadingZero t (t.length - t3.length) then .fail                  -- is_decimal
          else
            match mkNum neg (digitsVal (ip ++ fp)) (ip.length + fp.length) (ex - (fp.length : Int)) with
            | some (n, k) => .ok (.number n k, t3)
            | none => .ok (.numberX (s.take (s.length - t3.length)), t3)   -- value not modelled: spelling kept

/-- `parse_number_value` on a text without stop characters: `strtod`, the
    `ERANGE`/`HUGE_VAL` test, `is_decimal` on the consumed text and
    `json_value_init_number` (NULL for inf/nan).  The text starts with `-` or a digit. -/
def numCore (s : List Nat) : Res (Json × List Nat) :=
  match s with
  | [] => numBody false s s
  | c :: t => if c = 45 then numBody true s t else numBody false s s

/-- `parse_number_value`.  What `strtod` reads ends at the latest before the
    first stop character (it is the longest prefix of number form, and no stop
    character occurs in one), so the text up to there decides. -/
def parseNumber (s : List Nat) : Res (Json × List Nat) :=
  (numCore (s.takeWhile notStop)).bind fun (v, r) => .ok (v, r ++ s.dropWhile notStop)

/-- `parse_string_value`, `parse_boolean_value`, `parse_number_value`,
    `parse_null_value` as `parse_value` dispatches to them on the first character. -/
def parseScalar (s : List Nat) : Res (Json × List Nat) :=
  match s with
  | [] => .fail
  | c :: r =>
    if c = 34 then                                    -- '"'
      match quotedString (c :: r) with
      | some (str, rest) => .ok (.string str, rest)
      | none => .fail
    else if c = 116 ∨ c = 102 then                    -- 't' 'f'
      if [116, 114, 117, 101].isPrefixOf (c :: r) then .ok (.bool true, (c :: r).drop 4)
      else if [102, 97, 108, 115, 101].isPrefixOf (c :: r) then .ok (.bool false, (c :: r).drop 5)
      else .fail
    else if c = 45 ∨ isDigit c then parseNumber (c :: r)
    else if c = 110 then                              -- 'n'
      if [110, 117, 108, 108].isPrefixOf (c :: r) then .ok (.null, (c :: r).drop 4) else .fail
    else .fail

/-! ### values -/

/-- `MAX_NESTING` -/
def maxNesting : Nat := 2048

mutual
/-- `parse_value(&s, nesting)` (with `parse_object_value` / `parse_array_value`
    up to their member loops).  The first argument is fuel: every call passes
    one less to the calls it makes (`Props/Json.parse_total`: the fuel `parse`
    supplies is never exhausted). -/
def parseValue : Nat → Nat → List Nat → Res (Json × List Nat)
  | 0, _, _ => .oof
  | f + 1, nesting, s =>
    if nesting > maxNesting then .fail
    else
      match skipWs s with
      | [] => .fail
      | c :: r =>
        if c = 123 then                                   -- '{'
          match skipWs r with
          | [] => .fail
          | d :: r' =>
            if d = 125 then .ok (.object [], r')
            else (parseMembers f (nesting + 1) (d :: r') []).bind fun (ms, rest) => .ok (.object ms, rest)
        else if c = 91 then                               -- '['
          match skipWs r with
          | [] => .fail
          | d :: r' =>
            if d = 93 then .ok (.array [], r')
            else (parseElems f (nesting + 1) (d :: r')).bind fun (vs, rest) => .ok (.array vs, rest)
        else parseScalar (c :: r)
/-- The `while (**string != '\0')` loop of `parse_object_value`, entered at a
    key; `seen` = the names already added (`json_object_add` refuses a
    duplicate name: the whole parse fails). -/
def parseMembers : Nat → Nat → List Nat → List (List Nat) → Res (Members × List Nat)
  | 0, _, _, _ => .oof
  | f + 1, nesting, s, seen =>
    match quotedString s with
    | none => .fail
    | some (key, r1) =>
      if key.contains 0 then .fail                        -- key_len != strlen(new_key)
      else
        match skipWs r1 with
        | [] => .fail
        | c :: r2 =>
          if c ≠ 58 then .fail
          else
            (parseValue f nesting r2).bind fun (v, r3) =>
              if seen.contains key then .fail
              else
                match skipWs r3 with
                | [] => .fail
                | d :: r4 =>
                  if d = 44 then
                    (parseMembers f nesting (skipWs r4) (key :: seen)).bind fun (ms, rest) => .ok ((key, v) :: ms, rest)
                  else if d = 125 then .ok ([(key, v)], r4)
                  else .fail
/-- The loop of `parse_array_value`. -/
def parseElems : Nat → Nat → List Nat → Res (List Json × List Nat)
  | 0, _, _ => .oof
  | f + 1, nesting, s =>
    match s with
    | [] => .fail
    | _ :: _ =>
      (parseValue f nesting s).bind fun (v, r) =>
        match skipWs r with
        | [] => .fail
        | d :: r2 =>
          if d = 44 then (parseElems f nesting (skipWs r2)).bind fun (vs, rest) => .ok (v :: vs, rest)
          else if d = 93 then .ok ([v], r2)
          else .fail
end

mutual
/-- no `numberX` inside: every number has its exact value -/
def Json.exact : Json → Bool
  | .numberX _ => false
  | .array vs => Json.exactList vs
  | .object ms => Json.exactMembers ms
  | _ => true
def Json.exactList : List Json → Bool
  | [] => true
  | v :: vs => Json.exact v && Json.exactList vs
def Json.exactMembers : Members → Bool
  | [] => true
  | (_, v) :: ms => Json.exact v && Json.exactMembers ms
end

/-- The text `parse_value` runs on. -/
def prepare (s : List Nat) : List Nat := stripComments (cstr s)

/-- `json_parse_file_with_comments` on a file with these bytes (also
    `json_parse_string_with_comments`).  The rest of the text after the root
    value is not looked at. -/
def parse (s : List Nat) : Res Json :=
  match parseValue (2 * (prepare s).length + 1) 0 (prepare s) with
  | .ok (v, _) => if v.exact then .ok v else .unsup
  | .fail => .fail
  | .unsup => .unsup
  | .oof => .fail

/-- `parse` with "unsupported" folded into failure. -/
def parse? (s : List Nat) : Option Json :=
  match parse s with
  | .ok v => some v
  | _ => none

/-! ### getters -/

/-- `json_object_getn_value`: the first member with that name. -/
def assoc (k : List Nat) : Members → Option Json
  | [] => none
  | (k', v) :: r => if k' = k then some v else assoc k r

/-- `json_object_get_value(json_value_get_object(v), name)`. -/
def Json.get? (j : Json) (k : List Nat) : Option Json :=
  match j with
  | .object ms => assoc k ms
  | _ => none

/-- The segments of a dotted name (`strchr(name, '.')`, repeatedly). -/
def splitDots : List Nat → List (List Nat)
  | [] => [[]]
  | c :: r =>
    if c = 46 then [] :: splitDots r
    else
      match splitDots r with
      | [] => [[c]]
      | seg :: segs => (c :: seg) :: segs

/-- `json_object_dotget_value` along the segments: every intermediate value
    must be an object. -/
def dotgetSegs (j : Json) : List (List Nat) → Option Json
  | [] => some j
  | k :: rest =>
    match j.get? k with
    | none => none
    | some v => dotgetSegs v rest

/-- `json_object_dotget_value(json_value_get_object(j), path)`. -/
def dotget (j : Json) (path : List Nat) : Option Json := dotgetSegs j (splitDots path)

/-- `json_value_get_number`: 0 unless a number. -/
def getNumber : Option Json → Int × Nat
  | some (.number n k) => (n, k)
  | _ => (0, 0)

/-- `(int) json_number(v)` for the numbers the model carries: truncation
    towards zero; outside `int` the x86-64 conversion gives `INT_MIN`. -/
def cInt (x : Int × Nat) : Int :=
  let q : Int := ((x.1.natAbs / 2 ^ x.2 : Nat) : Int)
  let t : Int := if x.1 < 0 then -q else q
  if -2147483648 ≤ t ∧ t ≤ 2147483647 then t else -2147483648

/-- `json_value_get_string` as a C string (`none` = NULL; an embedded NUL from
    `\u0000` ends what a `char *` reader sees). -/
def getString : Option Json → Option (List Nat)
  | some (.string s) => some (cstr s)
  | _ => none

/-- `json_value_get_string_len` and the bytes. -/
def getStringFull : Option Json → Option (List Nat)
  | some (.string s) => some s
  | _ => none

def getObject : Option Json → Option Members
  | some (.object ms) => some ms
  | _ => none

def getArray : Option Json → Option (List Json)
  | some (.array vs) => some vs
  | _ => none

/-- `json_value_get_boolean`: 1 / 0, -1 unless a boolean. -/
def getBoolean : Option Json → Int
  | some (.bool true) => 1
  | some (.bool false) => 0
  | _ => -1

/-! ### building (libovni side) -/

/-- `num_bytes_in_utf8_sequence` -/
def utf8Len (c : Nat) : Nat :=
  if c = 0xC0 ∨ c = 0xC1 ∨ c > 0xF4 ∨ c / 64 = 2 then 0
  else if c < 0x80 then 1
  else if c / 32 = 6 then 2
  else if c / 16 = 14 then 3
  else if c / 8 = 30 then 4
  else 0

def isCont (c : Nat) : Bool := c / 64 == 2

def cpOk (cp len : Nat) : Bool :=
  !((cp < 0x80 && len > 1) || (cp < 0x800 && len > 2) || (cp < 0x10000 && len > 3))
    && cp ≤ 0x10FFFF && !(0xD800 ≤ cp && cp ≤ 0xDFFF)

/-- `is_valid_utf8` / `verify_utf8_sequence` (what `json_value_init_string`
    demands of the strings libovni stores). -/
def validUtf8 : List Nat → Bool
  | [] => true
  | a :: r =>
    match utf8Len a, r with
    | 1, r => validUtf8 r
    | 2, b :: r' => isCont b && cpOk (a % 32 * 64 + b % 64) 2 && validUtf8 r'
    | 3, b :: c :: r' =>
      isCont b && isCont c && cpOk ((a % 16 * 64 + b % 64) * 64 + c % 64) 3 && validUtf8 r'
    | 4, b :: c :: d :: r' =>
      isCont b && isCont c && isCont d
        && cpOk (((a % 8 * 64 + b % 64) * 64 + c % 64) * 64 + d % 64) 4 && validUtf8 r'
    | _, _ => false

/-- `json_value_init_string`: NULL for invalid UTF-8. -/
def initString (s : List Nat) : Option Json := if validUtf8 s then some (.string s) else none

/-- `json_object_set_value`: overwrite the first member with that name, else append. -/
def setKey (k : List Nat) (v : Json) : Members → Members
  | [] => [(k, v)]
  | (k', v') :: r => if k' = k then (k', v) :: r else (k', v') :: setKey k v r

/-- `json_object_dotset_value` along the segments: an existing intermediate
    object is entered, an existing non-object makes the call fail, a missing one
    is created (appended after the recursive call succeeded). -/
def dotsetSegs (v : Json) : List (List Nat) → Members → Option Members
  | [], _ => none
  | k :: rest, ms =>
    match rest with
    | [] => some (setKey k v ms)
    | _ :: _ =>
      match assoc k ms with
      | some (.object sub) =>
        match dotsetSegs v rest sub with
        | some sub' => some (setKey k (.object sub') ms)
        | none => none
      | some _ => none
      | none =>
        match dotsetSegs v rest [] with
        | some sub' => some (ms ++ [(k, .object sub')])
        | none => none

/-- `json_object_dotset_value(json_value_get_object(j), path, v)`; `none` = JSONFailure. -/
def dotset (j : Json) (path : List Nat) (v : Json) : Option Json :=
  match j with
  | .object ms =>
    match dotsetSegs v (splitDots path) ms with
    | some ms' => some (.object ms')
    | none => none
  | _ => none

/-! ### serialization -/

def hexDigit (n : Nat) : Nat := if n < 10 then n + 48 else n + 87

/-- `json_serialize_string`'s switch for one byte (`parson_escape_slashes` = 1). -/
def escapeByte (c : Nat) : List Nat :=
  if c = 34 then [92, 34]
  else if c = 92 then [92, 92]
  else if c = 8 then [92, 98]
  else if c = 12 then [92, 102]
  else if c = 10 then [92, 110]
  else if c = 13 then [92, 114]
  else if c = 9 then [92, 116]
  else if c < 32 then [92, 117, 48, 48, hexDigit (c / 16), hexDigit (c % 16)]
  else if c = 47 then [92, 47]
  else [c]

def escape (s : List Nat) : List Nat := s.flatMap escapeByte

/-- `json_serialize_string` -/
def serString (s : List Nat) : List Nat := 34 :: (escape s ++ [34])

def natDecGo : Nat → Nat → List Nat
  | 0, n => [48 + n % 10]
  | f + 1, n => if n < 10 then [48 + n] else natDecGo f (n / 10) ++ [48 + n % 10]

/-- decimal digits of a natural number -/
def natDec (n : Nat) : List Nat := natDecGo n n

/-- `sprintf("%1.17g")` of the number: the digits of an integer (exact for
    |n| ≤ 2^53, where `%.17g` prints no exponent); for a dyadic fraction the
    exact finite decimal expansion (what `%.17g` prints whenever that expansion
    has at most 17 significant digits and the value is at least 1e-4). -/
def serNumber (n : Int) (k : Nat) : List Nat :=
  let a := n.natAbs
  let sign := if n < 0 then [45] else []
  if k = 0 then sign ++ natDec a
  else
    let fr := natDec (a % 2 ^ k * 5 ^ k)
    sign ++ natDec (a / 2 ^ k) ++ [46] ++ List.replicate (k - fr.length) 48 ++ fr

/-- `append_indent` -/
def indent (level : Nat) : List Nat := List.replicate (4 * level) 32

mutual
/-- `json_serialize_to_buffer_r(value, buf, level, is_pretty = 1, …)` -/
def ser : Json → Nat → List Nat
  | .null, _ => [110, 117, 108, 108]
  | .bool true, _ => [116, 114, 117, 101]
  | .bool false, _ => [102, 97, 108, 115, 101]
  | .number n k, _ => serNumber n k
  | .numberX _, _ => [48]          -- not modelled (`Writable` excludes it)
  | .string s, _ => serString s
  | .array [], _ => [91, 93]
  | .array (v :: vs), lvl => 91 :: 10 :: (serElems (v :: vs) lvl ++ (indent lvl ++ [93]))
  | .object [], _ => [123, 125]
  | .object (m :: ms), lvl => 123 :: 10 :: (serMembers (m :: ms) lvl ++ (indent lvl ++ [125]))
def serElems : List Json → Nat → List Nat
  | [], _ => []
  | v :: vs, lvl =>
    indent (lvl + 1) ++ (ser v (lvl + 1) ++ ((if vs.isEmpty then [10] else [44, 10]) ++ serElems vs lvl))
def serMembers : Members → Nat → List Nat
  | [], _ => []
  | (k, v) :: ms, lvl =>
    indent (lvl + 1) ++ (serString k ++ (58 :: 32 :: (ser v (lvl + 1)
      ++ ((if ms.isEmpty then [10] else [44, 10]) ++ serMembers ms lvl))))
end

/-- `json_serialize_to_string_pretty` (what `json_serialize_to_file_pretty` writes). -/
def serializePretty (j : Json) : List Nat := ser j 0

/-! ### the class of documents libovni writes -/

def strOk (s : List Nat) : Bool := s.all (· < 256)
def keyOk (s : List Nat) : Bool := s.all (fun c => 0 < c && c < 256)

def keysNodup : Members → Bool
  | [] => true
  | (k, _) :: r => !((r.map (·.1)).contains k) && keysNodup r

mutual
/-- `wr n j`: `j`, parsed at nesting `n`, stays within `MAX_NESTING`, has no
    duplicate names, names without NUL, byte strings, and integer numbers of
    magnitude at most 2^53. -/
def wr : Nat → Json → Bool
  | n, .null => n ≤ maxNesting
  | n, .bool _ => n ≤ maxNesting
  | n, .number v k => n ≤ maxNesting && k == 0 && v.natAbs ≤ pow2_53
  | _, .numberX _ => false
  | n, .string s => n ≤ maxNesting && strOk s
  | n, .array vs => n ≤ maxNesting && wrElems (n + 1) vs
  | n, .object ms => n ≤ maxNesting && keysNodup ms && wrMembers (n + 1) ms
def wrElems : Nat → List Json → Bool
  | _, [] => true
  | n, v :: vs => wr n v && wrElems n vs
def wrMembers : Nat → Members → Bool
  | _, [] => true
  | n, (k, v) :: ms => keyOk k && wr n v && wrMembers n ms
end

/-- The documents the round-trip theorems speak about. -/
def Writable (j : Json) : Prop := wr 0 j = true

instance (j : Json) : Decidable (Writable j) := inferInstanceAs (Decidable (wr 0 j = true))

end Ovni.Json
