import OvniModel.Generated.All

/-
  Model of src/include/version.h (version_parse, version_is_compatible),
  ovni_version_check_str (src/rt/ovni.c) and the model enabling logic of
  src/emu/model.c (should_enable, model_version_probe, model_probe, model_event).

  Strings are C strings: lists of characters without NUL.  `none` = NULL.
-/
namespace Ovni.Version

/-- C strings as lists of byte values (no NUL). -/
abbrev Str := List Nat

/-- `isspace` in the C locale. -/
def isSpace (c : Nat) : Bool :=
  c = 32 || c = 9 || c = 10 || c = 11 || c = 12 || c = 13

def isDigit (c : Nat) : Bool := 48 ≤ c && c ≤ 57

def digitVal (c : Nat) : Nat := c - 48

def cDot : Nat := 46
def cMinus : Nat := 45
def cPlus : Nat := 43

def isDot (c : Nat) : Bool := c = 46
def isDotDash (c : Nat) : Bool := c = 46 || c = 45

/-- `strtok_r(str, delim, &save)`: skip leading delimiters; `none` when the
    string is exhausted; otherwise the token and the saved rest (after the
    delimiter that ended the token, or empty). -/
def strtok (isDelim : Nat → Bool) (s : Str) : Option (Str × Str) :=
  let s' := s.dropWhile isDelim
  match s' with
  | [] => none
  | _ =>
    let tok := s'.takeWhile (fun c => !isDelim c)
    let rest := (s'.dropWhile (fun c => !isDelim c)).drop 1
    some (tok, rest)

/-- Accumulate decimal digits, most significant first. -/
def digitsVal (acc : Nat) : Str → Nat
  | [] => acc
  | c :: cs => digitsVal (acc * 10 + digitVal c) cs

def longMax : Nat := 2 ^ 63 - 1

/-- The C `(int)` cast of a `long` (two's complement truncation, GCC). -/
def castInt (v : Int) : Int :=
  let m := v % (2 ^ 32 : Int)
  if m ≥ 2 ^ 31 then m - 2 ^ 32 else m

/-- Optional sign accepted by `strtol`. -/
def stripSign : Str → Bool × Str
  | 45 :: r => (true, r)
  | 43 :: r => (false, r)
  | s => (false, s)

/-- Value check after the digits were isolated: ERANGE (LONG_MAX for positive,
    LONG_MIN = -(LONG_MAX+1) for negative), `(int)` cast, `v < 0`. -/
def fieldValue (neg : Bool) (n : Nat) : Option Nat :=
  if (!neg && n > longMax) || (neg && n > longMax + 1) then none
  else
    let v := castInt (if neg then -(n : Int) else (n : Int))
    if v < 0 then none else some v.toNat

/-- One numeric field: `strtol(num,&endptr,10)` followed by the three checks
    `errno != 0 || endptr == num || endptr[0] != '\0'` and `v < 0`.
    Returns the accepted value. -/
def parseField (num : Str) : Option Nat :=
  let sg := stripSign (num.dropWhile isSpace)
  let ds := sg.2.takeWhile isDigit
  let rest := sg.2.dropWhile isDigit
  if ds.isEmpty then none            -- endptr == num
  else if !rest.isEmpty then none    -- endptr[0] != '\0'
  else fieldValue sg.1 (digitsVal 0 ds)

structure Ver where
  major : Nat
  minor : Nat
  patch : Nat
deriving DecidableEq, Repr

/-- `version_parse` on a non-NULL string. -/
def parseStr (v : Str) : Option Ver :=
    if v.length ≥ 64 then none else
    match strtok isDot v with
    | none => none
    | some (t0, r0) =>
      match parseField t0 with
      | none => none
      | some a =>
        match strtok isDot r0 with
        | none => none
        | some (t1, r1) =>
          match parseField t1 with
          | none => none
          | some b =>
            match strtok isDotDash r1 with
            | none => none
            | some (t2, _) =>
              match parseField t2 with
              | none => none
              | some c => some ⟨a, b, c⟩

/-- `version_parse`. -/
def parse : Option Str → Option Ver
  | none => none
  | some v => parseStr v

/-- `version_is_compatible(want, have)`. -/
def compatible (want have_ : Ver) : Bool :=
  if want.major ≠ have_.major then false
  else if want.minor > have_.minor then false
  else true

/-- `ovni_version_check_str`: `true` = returns, `false` = die(). -/
def checkStr (libVersion : Str) (version : Option Str) : Bool :=
  match version with
  | none => false
  | some _ =>
    match parse version with
    | none => false
    | some p =>
      match parse (some libVersion) with
      | none => false
      | some e =>
        if p.major ≠ e.major then false
        else if p.minor > e.minor then false
        else true

/-! ### Emulator side: which models are enabled -/

/-- Per-thread view of `ovni.require`: `none` = the `ovni.require` object is
    missing; otherwise the optional version string required for the model at
    hand (absent key = `none`). -/
abbrev ThreadReq := Option (Option Str)

inductive Probe where
  | error          -- probe returned < 0: emulation aborts
  | disabled
  | enabled
deriving DecidableEq, Repr

/-- `should_enable` for one thread: -1 / 0 / 1. -/
def shouldEnable (have_ : Ver) (t : ThreadReq) : Probe :=
  match t with
  | none => .error
  | some none => .disabled
  | some (some s) =>
    match parse (some s) with
    | none => .error
    | some want => if compatible want have_ then .enabled else .error

/-- The loop of `model_version_probe` over all threads, given the already
    parsed provider version. -/
def probeLoop (have_ : Ver) (enable : Bool) : List ThreadReq → Probe
  | [] => if enable then .enabled else .disabled
  | t :: ts =>
    match shouldEnable have_ t with
    | .error => .error
    | .enabled => probeLoop have_ true ts
    | .disabled => probeLoop have_ enable ts

/-- `model_version_probe`. -/
def versionProbe (specVersion : Str) (threads : List ThreadReq) : Probe :=
  match parse (some specVersion) with
  | none => .error
  | some h => probeLoop h false threads

/-- The per-model step of `model_probe`: `none` = emulator aborts,
    `some b` = the model's `enabled` flag. -/
def modelEnabled (enableAll : Bool) (specVersion : Str) (threads : List ThreadReq)
    (alwaysOn : Bool := false) : Option Bool :=
  match versionProbe specVersion threads with
  | .error => none
  | .enabled => some true
  | .disabled => some (enableAll || alwaysOn)

/-- Per registered model: its character (`model_spec.model`, generated) and
    whether its `probe` function ends in an unconditional `return 1` (generated
    from the AST of `setup.c`: `Generated.Handlers.<m>.probeAlways`). -/
def probeFacts : List (Nat × Bool) :=
  [(Ovni.Generated.Ovni.modelChar, Ovni.Generated.Handlers.ovni.probeAlways),
   (Ovni.Generated.Nanos6.modelChar, Ovni.Generated.Handlers.nanos6.probeAlways),
   (Ovni.Generated.Nosv.modelChar, Ovni.Generated.Handlers.nosv.probeAlways),
   (Ovni.Generated.Nodes.modelChar, Ovni.Generated.Handlers.nodes.probeAlways),
   (Ovni.Generated.Tampi.modelChar, Ovni.Generated.Handlers.tampi.probeAlways),
   (Ovni.Generated.Mpi.modelChar, Ovni.Generated.Handlers.mpi.probeAlways),
   (Ovni.Generated.Kernel.modelChar, Ovni.Generated.Handlers.kernel.probeAlways),
   (Ovni.Generated.Openmp.modelChar, Ovni.Generated.Handlers.openmp.probeAlways)]

/-- `model_ovni_probe` ends with `return 1`: the base model is enabled whether
    or not a stream requires it (its requirement, when present, is still
    checked).  Derived from the generated probe facts (on the current tree:
    exactly the ovni model, `Props/Gen.lean: alwaysOn_hand`). -/
def alwaysOn (modelChar : Nat) : Bool := probeFacts.any (fun p => p.1 == modelChar && p.2)

/-- `model_event` gate: event of model index `i` is passed to the handler only
    if registered and enabled. -/
def eventGate (registered enabled : Bool) : Bool := registered && enabled

/-! ### Whole-trace gate (composition of the above, `model_probe` + `model_event`) -/

/-- `ovni.require` of one thread: `none` = object missing, else (model name, version) pairs. -/
abbrev Require := Option (List (Str × Str))

def reqFor (name : Str) : Require → ThreadReq
  | none => none
  | some kvs => some ((kvs.find? (fun kv => kv.1 == name)).map (·.2))

/-- For the registered models `(name, version, char)`: `none` when some probe
    aborts, else the list of enabled model characters. -/
def enabledSet (enableAll : Bool) (threads : List Require) :
    List (Str × Str × Nat) → Option (List Nat)
  | [] => some []
  | (name, ver, ch) :: ms =>
    match modelEnabled enableAll ver (threads.map (reqFor name)) (alwaysOn ch) with
    | none => none
    | some en =>
      match enabledSet enableAll threads ms with
      | none => none
      | some r => some (if en then ch :: r else r)

/-- Does the emulator get past probing and the enable gate for all events
    (given by their model character)? -/
def gateVerdict (enableAll : Bool) (models : List (Str × Str × Nat)) (threads : List Require)
    (evModels : List Nat) : Bool :=
  match enabledSet enableAll threads models with
  | none => false
  | some en => evModels.all (fun m => eventGate (models.any (fun x => x.2.2 == m)) (en.contains m))

end Ovni.Version
