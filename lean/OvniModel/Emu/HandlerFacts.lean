import OvniModel.Generated.Handlers

/-!
# Views of the generated handler facts

`Generated/Handlers.lean` is plain data regenerated from `/repo` on every run
(`tools/gen/gen_handlers.py`, clang AST of every `event.c` / `setup.c`).  The
functions below turn it into the values the models consume:
`Emu/Core.lean` (`ModelSpec.cats`, `stateReq`, `checkOutOfCpu`, `lintChan`,
`initVals`, `cpuDefault`, the kernel's table, the categories that go to the task
layer), `Emu/Dispatch.lean` (the category / value switches and the thread-state
guard of C18) and `Version.lean` (`alwaysOn`).

No hand-written constant of the handlers appears here: only the *reading* of
the facts (which guard means what, which callee means "table").
-/
namespace Ovni.Generated.Handlers

/-- `if (!emu->thread->is_running) return -1` on the way to the dispatch -/
def Facts.needsRunning (f : Facts) : Bool := f.guards.contains ("is_running", true)

/-- `if (!emu->thread->is_active) return -1` -/
def Facts.needsActive (f : Facts) : Bool := f.guards.contains ("is_active", true)

/-- `if (emu->thread->is_out_of_cpu) return -1` -/
def Facts.checkOutOfCpu (f : Facts) : Bool := f.guards.contains ("is_out_of_cpu", false)

/-- `ModelSpec.stateReq`: 0 none, 1 the thread must be running, 2 active
    (running implies active, so a handler with both guards needs running). -/
def Facts.stateReq (f : Facts) : Nat :=
  if f.needsRunning then 1 else if f.needsActive then 2 else 0

/-- the `switch (emu->ev->c)` of the handler -/
def Facts.catSwitch (f : Facts) : Option Switch :=
  f.switches.find? (fun s => s.fn == f.handler && s.on == "c")

/-- the `switch (emu->ev->v)` of function `fn` -/
def Facts.valSwitch (f : Facts) (fn : String) : Option Switch :=
  f.switches.find? (fun s => s.fn == fn && s.on == "v")

def Facts.catCases (f : Facts) : List Case :=
  match f.catSwitch with
  | some s => s.cases
  | none => []

/-- categories whose `case` calls one of `fns` -/
def Facts.catsCalling (f : Facts) (fns : List String) : List Nat :=
  (f.catCases.filter (fun c => fns.contains c.callee)).map (·.label)

/-- `ModelSpec.cats`: the categories routed to the function that indexes the
    event table; `none` when the handler has no category switch and indexes
    the table itself. -/
def Facts.tableCats (f : Facts) : Option (List Nat) :=
  if f.directTable then none else some (f.catsCalling f.tableFns)

/-- categories whose `case` calls a function with a value switch -/
def Facts.switchCats (f : Facts) : List Nat :=
  (f.catCases.filter (fun c => (f.valSwitch c.callee).isSome)).map (·.label)

/-- The explicit value switches as table rows `(category, value, channel,
    action, constant)`: the cases that are a `chan_push` / `chan_pop` /
    `chan_set` (action 1 / 2 / 3, as in the generated event tables) of
    `value_int64(constant)` on a known channel. -/
def Facts.switchRows (f : Facts) : List (Nat × Nat × Nat × Nat × Int) :=
  f.catCases.flatMap fun c =>
    match f.valSwitch c.callee with
    | none => []
    | some s => s.cases.filterMap fun k =>
        match k.chan with
        | some ch =>
          if k.chanOp != 0 && k.valKind == 1 then some (c.label, k.label, ch, k.chanOp, k.val) else none
        | none => none

/-- `(category, value, b)`: the case assigns `emu->thread->is_out_of_cpu = b` -/
def Facts.outOfCpuRows (f : Facts) : List (Nat × Nat × Bool) :=
  f.catCases.flatMap fun c =>
    match f.valSwitch c.callee with
    | none => []
    | some s => s.cases.filterMap fun k =>
        match k.outOfCpu with
        | some n => some (c.label, k.label, n != 0)
        | none => none

end Ovni.Generated.Handlers
