import OvniModel.Emu.Emit
import OvniModel.Emu.MarkEmu

/-
  The lines of thread.prv / cpu.prv exactly as `ovniemu` writes them, in file
  order (C13, text level).

  `View.records` says what every row SHOWS after an event; the lines the
  emulator really writes are those of the `BAY_CB_EMIT` callbacks (`cb_prv` =
  `emit`, pv/prv.c) that the second loop of `bay_propagate` calls in dirty-list
  order: more lines (first emission of a null, re-selected muxes, duplicates
  of `PRV_EMITDUP` / `PRV_SKIPDUPNULL` channels) and another order.  Here the
  whole patch bay of the emulator is built with the primitives of `Emu/Bay.lean`
  (the transcription of bay.c / mux.c / track.c), *including* the system
  channels of thread.c / cpu.c, in the order `emu_init` / `emu_connect`
  perform the registrations:

  * `system_connect`: per thread `thread_connect` (cpu, tid, state), per CPU
    `cpu_connect` (nrunning, pid, tid; `th_running` / `th_active` have no row);
  * `model_connect`: the enabled models by model id (`for i < MAX_MODELS`),
    each `model_thread_connect` (per thread, per channel `track_th_input_chan`)
    then `model_cpu_connect` (per CPU, per channel `connect_cpu`); the mark
    types inside `model_ovni_connect`, after the ovni model's own channel;
  * the connect-time `chan_set`s of the models (`initVals`) and the first
    `bay_propagate` of `emu_connect`.

  An event is decided by the reference emulator (`modelEvent`, Emu/Core.lean);
  the channels it wrote are copied into the bay in the order the C handlers
  write them (`evSrcs`: `thread_set_cpu` / `thread_set_state` / `cpu_update`
  call order of ovni/event.c), which is the order of the dirty list; then
  `Bay.propagateP` runs the mux callbacks and the emit callbacks.
-/
namespace Ovni.Emu
open Ovni.Generated

/-- `model_connect` order: by model id; the run-time groups (mark types) are
    connected by `model_ovni_connect`, i.e. right after the ovni model. -/
def insertByChar (s : ModelSpec) : List ModelSpec → List ModelSpec
  | [] => [s]
  | x :: xs => if s.char < x.char then s :: x :: xs else x :: insertByChar s xs

def sortByChar : List ModelSpec → List ModelSpec
  | [] => []
  | x :: xs => insertByChar x (sortByChar xs)

def connectOrder (enabled : List Nat) (extra : List ModelSpec) : List ModelSpec :=
  (sortByChar (allSpecs.filter (fun s => enabled.contains s.char))).flatMap fun s =>
    if s.char = Ovni.modelChar then s :: extra else [s]

/-- The channels the handlers write. -/
inductive XSrc where
  | thCpu (g : Nat) | thTid (g : Nat) | thState (g : Nat)
  | cNrun (c : Nat) | cPid (c : Nat) | cTid (c : Nat) | cThrun (c : Nat) | cThact (c : Nat)
  /-- raw channel `i` of the group with character `ch` of thread `g` -/
  | raw (g ch i : Nat)
deriving DecidableEq, Repr

/-- Layout of the bay (ids are names only). -/
structure XLayout where
  nT : Nat
  nC : Nat
  specs : List ModelSpec

def XLayout.rawBase (l : XLayout) : Nat := 3 * l.nT + 5 * l.nC

/-- offset of the raw channels of the group with character `ch` -/
def rawOff (nT : Nat) : List ModelSpec → Nat → Option (Nat × ModelSpec)
  | [], _ => none
  | s :: ss, ch =>
    if s.char = ch then some (0, s) else
    match rawOff nT ss ch with
    | some (o, m) => some (nT * s.nch + o, m)
    | none => none

def XLayout.id (l : XLayout) : XSrc → Nat
  | .thCpu g => 3 * g
  | .thTid g => 3 * g + 1
  | .thState g => 3 * g + 2
  | .cNrun c => 3 * l.nT + 5 * c
  | .cPid c => 3 * l.nT + 5 * c + 1
  | .cTid c => 3 * l.nT + 5 * c + 2
  | .cThrun c => 3 * l.nT + 5 * c + 3
  | .cThact c => 3 * l.nT + 5 * c + 4
  | .raw g ch i =>
    match rawOff l.nT l.specs ch with
    | some (o, m) => l.rawBase + o + g * m.nch + i
    | none => 0

/-- the source channels as `thread_init_end` / `cpu_init_end` / `init_chan` leave them -/
def XLayout.protos (l : XLayout) : List Chan :=
  ((List.range l.nT).flatMap fun _ => [({} : Chan), { ignoreDup := true }, {}]) ++
  ((List.range l.nC).flatMap fun _ => List.replicate 5 ({ ignoreDup := true } : Chan)) ++
  (l.specs.flatMap fun s => (List.range l.nT).flatMap fun _ => (List.range s.nch).map fun i =>
    ({ isStack := s.chanStack.getD i false, allowDup := s.chanDup.getD i false } : Chan))

def registerList (b : Bay) : List Chan → Bay
  | [] => b
  | c :: cs => registerList (b.register c).1 cs

/-- `thread_connect` / `cpu_connect`: the rows of the system channels. -/
def XLayout.sysRegs (l : XLayout) : List PrvReg :=
  ((List.range l.nT).flatMap fun g =>
    [⟨l.id (.thCpu g), 0, g + 1, prvThreadCpu, prvNext⟩,
     ⟨l.id (.thTid g), 0, g + 1, prvThreadTid, 0⟩,
     ⟨l.id (.thState g), 0, g + 1, prvThreadState, prvSkipDup⟩]) ++
  ((List.range l.nC).flatMap fun c =>
    [⟨l.id (.cNrun c), 1, c + 1, prvCpuNrun, prvZero⟩,
     ⟨l.id (.cPid c), 1, c + 1, prvCpuPid, 0⟩,
     ⟨l.id (.cTid c), 1, c + 1, prvCpuTid, 0⟩])

/-- `model_thread_connect` of one group: per thread, per channel the track and
    its registration in thread.prv (`connect_thread_prv`). -/
def connectThreads (l : XLayout) (s : ModelSpec) :
    List (Nat × Nat) → Bay → List PrvReg → Except Err (Bay × List PrvReg)
  | [], b, regs => .ok (b, regs)
  | (g, i) :: js, b, regs =>
    match b.trackThread (s.thTrack.getD i 0) (l.id (.thState g)) (l.id (.raw g s.char i)) with
    | .error e => .error e
    | .ok (b', out) =>
      match prvRegister b' regs ⟨out, 0, g + 1, s.pvtType.getD i 0, s.prvFlags.getD i 0⟩ with
      | .error e => .error e
      | .ok regs' => connectThreads l s js b' regs'

/-- `mux_set_default` of the CPU track of channel `i` -/
def xCpuDflt (s : ModelSpec) (i : Nat) : Value :=
  match s.cpuDefault.find? (·.1 == i) with
  | some (_, v) => .int v
  | none => .null

/-- `model_cpu_connect` of one group (`connect_cpu`, `connect_cpu_prv`). -/
def connectCpus (l : XLayout) (s : ModelSpec) :
    List (Nat × Nat) → Bay → List PrvReg → Except Err (Bay × List PrvReg)
  | [], b, regs => .ok (b, regs)
  | (c, i) :: js, b, regs =>
    if s.cpuTrack.getD i trackRun ≠ trackRun then .error .other else
    match b.trackCpu (l.id (.cThrun c)) ((List.range l.nT).map fun g => l.id (.raw g s.char i)) (xCpuDflt s i) with
    | .error e => .error e
    | .ok (b', out) =>
      match prvRegister b' regs ⟨out, 1, c + 1, s.pvtType.getD i 0, s.prvFlags.getD i 0⟩ with
      | .error e => .error e
      | .ok regs' => connectCpus l s js b' regs'

def pairs (n m : Nat) : List (Nat × Nat) := (List.range n).flatMap fun a => (List.range m).map fun i => (a, i)

def connectSpecs (l : XLayout) : List ModelSpec → Bay → List PrvReg → Except Err (Bay × List PrvReg)
  | [], b, regs => .ok (b, regs)
  | s :: ss, b, regs =>
    match connectThreads l s (pairs l.nT s.nch) b regs with
    | .error e => .error e
    | .ok (b1, r1) =>
      match connectCpus l s (pairs l.nC s.nch) b1 r1 with
      | .error e => .error e
      | .ok (b2, r2) => connectSpecs l ss b2 r2

/-- the connect-time `chan_set`s of `model_*_connect` -/
def initWrites (l : XLayout) : List (Nat × Value) :=
  l.specs.flatMap fun s => (List.range l.nT).flatMap fun g =>
    s.initVals.map fun iv => (l.id (.raw g s.char iv.1), Value.int iv.2)

def writeAll : List (Nat × Value) → Bay → Except Err Bay
  | [], b => .ok b
  | (c, v) :: ws, b =>
    match b.chanSet c v with
    | .error e => .error e
    | .ok b' => writeAll ws b'

/-- The emulator with its patch bay and the two Paraver files. -/
structure XEmu where
  /-- the emulator as `emu_init` created it (names, enabled models) -/
  emu0 : Emu
  emu : Emu
  lay : XLayout
  bay : Bay
  regs : List PrvReg
  /-- `last_value` of every registration -/
  lvs : List (Option Value)
  th : PrvFile
  cpu : PrvFile

def linesOf (file : Nat) (ls : List (Nat × PrvRec)) : List PrvRec :=
  (ls.map (·.2)).filter (·.file == file)

/-- `emu_init` + `emu_connect` (files opened with the row counts, all
    registrations, first `bay_propagate` at time 0). -/
def XEmu.init (e : Emu) : Except Err XEmu :=
  let l : XLayout := ⟨e.threads.length, e.cpus.length, connectOrder e.enabled e.extra⟩
  let b0 := registerList {} l.protos
  match connectSpecs l l.specs b0 l.sysRegs with
  | .error er => .error er
  | .ok (b1, regs) =>
    match writeAll (initWrites l) b1 with
    | .error er => .error er
    | .ok b2 =>
      match b2.propagateP regs (List.replicate regs.length none) with
      | .error er => .error er
      | .ok (b3, lvs, ls) =>
        .ok { emu0 := e, emu := e, lay := l, bay := b3, regs := regs, lvs := lvs,
              th := ({ nrows := l.nT } : PrvFile).writeAll (linesOf 0 ls),
              cpu := ({ nrows := l.nC } : PrvFile).writeAll (linesOf 1 ls) }

/-- the channel of the reference emulator behind a source -/
def Emu.xsrc (e : Emu) : XSrc → Option Chan
  | .thCpu g => e.threads[g]?.map (·.chCpu)
  | .thTid g => e.threads[g]?.map (·.chTid)
  | .thState g => e.threads[g]?.map (·.chState)
  | .cNrun c => e.cpus[c]?.map (·.chNrun)
  | .cPid c => e.cpus[c]?.map (·.chPid)
  | .cTid c => e.cpus[c]?.map (·.chTid)
  | .cThrun c => e.cpus[c]?.map (·.chThrun)
  | .cThact c => e.cpus[c]?.map (·.chThact)
  | .raw g ch i => match e.threads[g]? with
    | none => none
    | some t => match t.getChans ch with
      | none => none
      | some cs => cs[i]?

/-- `cpu_update` writes tid, pid, th_running, nrunning, th_active -/
def cpuSrcs (c : Option Nat) : List XSrc :=
  match c with
  | none => []
  | some c => [.cTid c, .cPid c, .cThrun c, .cNrun c, .cThact c]

def thCpuOf (e : Emu) (g : Nat) : Option Nat := (e.threads[g]?).bind (·.cpu)

/-- The channels the handler of the event may have written, in the order of the
    C code (ovni/event.c `pre_thread_*`, `pre_affinity_*`, `pre_flush`,
    mark.c `mark_event`; the table driven models write one raw channel). -/
def evSrcs (e e' : Emu) (ti m c v : Nat) : List XSrc :=
  if m = 79 then
    if c = 72 then
      if v = 120 then [.thCpu ti, .thState ti, .thTid ti] ++ cpuSrcs (thCpuOf e' ti)
      else if v = 101 then [.thState ti, .thTid ti] ++ cpuSrcs (thCpuOf e ti) ++ [.thCpu ti]
      else [.thState ti, .thTid ti] ++ cpuSrcs (thCpuOf e' ti)
    else if c = 65 then
      -- `cpu_migrate_thread` (remove, add) then `thread_migrate_cpu` of the thread that moved
      match (List.range e.threads.length).find? (fun g => thCpuOf e g ≠ thCpuOf e' g) with
      | none => []
      | some r => cpuSrcs (thCpuOf e r) ++ cpuSrcs (thCpuOf e' r) ++ [.thCpu r]
    else if c = 70 then [.raw ti 79 0]
    else if c = 77 then
      (List.range ((e.extra.find? (·.char == markGroup)).map (·.nch) |>.getD 0)).map (XSrc.raw ti markGroup)
    else []
  else
    match findSpec m with
    | some s => (List.range s.nch).map (XSrc.raw ti m)
    | none => []

/-- copy a written channel into the bay; a channel that became dirty joins the dirty list -/
def Bay.mirror (b : Bay) (id : Nat) (ch : Chan) : Bay :=
  { b with chans := b.chans.set id ch,
           dirty := if !(b.chan id).dirty && ch.dirty then b.dirty ++ [id] else b.dirty }

def mirrorAll (l : XLayout) (e' : Emu) : List XSrc → Bay → Bay
  | [], b => b
  | s :: ss, b =>
    match e'.xsrc s with
    | some ch => mirrorAll l e' ss (b.mirror (l.id s) ch)
    | none => mirrorAll l e' ss b

/-- One `emu_step`: `recorder_advance(dclock)`, `model_event`, `bay_propagate`
    (the lines are written at the new time). -/
def XEmu.step (x : XEmu) (dclock : Int) (ti m c v : Nat) (payload : List Nat)
    (taskHook markHook : Emu → Nat → Nat → Nat → List Nat → Except Err Emu) : Except Err XEmu :=
  match x.th.advance dclock, x.cpu.advance dclock with
  | .ok th, .ok cpu =>
    match modelEvent x.emu ti m c v payload taskHook markHook with
    | .error er => .error er
    | .ok e1 =>
      let b1 := mirrorAll x.lay e1 (evSrcs x.emu e1 ti m c v) x.bay
      match b1.propagateP x.regs x.lvs with
      | .error er => .error er
      | .ok (b2, lvs, ls) =>
        .ok { x with emu := e1.flushAll, bay := b2, lvs := lvs,
                     th := th.writeAll (linesOf 0 ls), cpu := cpu.writeAll (linesOf 1 ls) }
  | .error er, _ => .error er
  | _, .error er => .error er

end Ovni.Emu

namespace Ovni.Emu

/-- One event of a history: (dclock, thread, model, category, value, payload). -/
abbrev XEv := Int × Nat × Nat × Nat × Nat × List Nat

/-- `emu_step` along a history; the first refused event ends the emulation. -/
def XEmu.run (x : XEmu) (taskHook markHook : Emu → Nat → Nat → Nat → List Nat → Except Err Emu) :
    List XEv → Except Err XEmu
  | [] => .ok x
  | (t, ti, m, c, v, p) :: evs =>
    match x.step t ti m c v p taskHook markHook with
    | .error e => .error e
    | .ok x' => x'.run taskHook markHook evs

end Ovni.Emu
