import OvniModel.Emu.PvLines

/-
  The TEXT of the Paraver files (C13, text level): thread.prv / cpu.prv
  (pv/prv.c), thread.row / cpu.row (pv/prf.c), thread.pcf / cpu.pcf (pv/pcf.c
  filled by system.c, thread.c, cpu.c, model_pvt.c, ovni/mark.c, task.c).

  Text is a list of characters (every character the emulator prints is a
  byte; labels that come from the metadata are kept byte per character).
  Numbers are printed with `Nat.toDigits 10`, i.e. what `%d` / `%ld` /
  `%lld` / `PRIi64` print for values in range.
-/
namespace Ovni.Emu.PvText
open Ovni.Emu Ovni.Generated

abbrev Text := List Char

/-- `%d` / `%ld` of a non-negative value -/
def natDec (n : Nat) : Text := Nat.toDigits 10 n

/-- `%ld` / `%lld` / `%"PRIi64"` -/
def intDec : Int → Text
  | .ofNat n => natDec n
  | .negSucc n => '-' :: natDec (n + 1)

/-- `%0Wlld`: zero padding goes after the sign and never truncates -/
def intPad0 (w : Nat) : Int → Text
  | .ofNat n => List.replicate (w - (natDec n).length) '0' ++ natDec n
  | .negSucc n => '-' :: (List.replicate (w - 1 - (natDec (n + 1)).length) '0' ++ natDec (n + 1))

/-- `%-Wd`: left justified, blanks on the right, never truncates -/
def padRight (w : Nat) (t : Text) : Text := t ++ List.replicate (w - t.length) ' '

/-- `%Wd`: right justified -/
def padLeft (w : Nat) (t : Text) : Text := List.replicate (w - t.length) ' ' ++ t

/-! ### .prv (pv/prv.c) -/

/-- the literal pieces of the two format strings of prv.c -/
def litParaver : Text := "#Paraver (19/01/38 at 03:14):".toList
def litNs : Text := "_ns:0:1:1(".toList
def litHdrEnd : Text := ":1)".toList
def litRec : Text := "2:0:1:1:".toList

/-- `write_header`: `"#Paraver (19/01/38 at 03:14):%020lld_ns:0:1:1(%d:1)\n"` -/
def prvHeader (nrows : Nat) (duration : Int) : Text :=
  litParaver ++ intPad0 20 duration ++ litNs ++ natDec nrows ++ litHdrEnd ++ ['\n']

/-- `write_line`: `"2:0:1:1:%ld:%"PRIi64":%"PRIi64":%"PRIi64"\n"` with row,
    time, type, value.  A line of `PrvFile.lines` is (time, row, type, value). -/
def prvLine (l : Int × Nat × Nat × Int) : Text :=
  litRec ++ natDec l.2.1 ++ [':'] ++ intDec l.1 ++ [':'] ++ natDec l.2.2.1 ++ [':'] ++
    intDec l.2.2.2 ++ ['\n']

def prvBody (ls : List (Int × Nat × Nat × Int)) : Text := ls.flatMap prvLine

/-- The file as `prv_open_file` leaves it: the header with duration 0 ("fake
    header to allocate the space"). -/
def prvOpenText (nrows : Nat) : Text := prvHeader nrows 0

/-- The file while it is being written: placeholder header, then the lines. -/
def prvOpenedText (p : PrvFile) : Text := prvOpenText p.nrows ++ prvBody p.lines

/-- `fseek(f, 0, SEEK_SET)` + `fprintf`: overwrite the beginning of the file
    (the file grows when the new text is longer). -/
def overwrite (new old : Text) : Text := new ++ old.drop new.length

/-- `prv_close`: the header is written again over the old one with
    `prv->time` as duration. -/
def prvCloseText (p : PrvFile) : Text := overwrite (prvHeader p.nrows p.time) (prvOpenedText p)

/-- The closed file when the rewrite is exact (`close_is_prvText`, Props/C13Text). -/
def prvText (p : PrvFile) : Text := prvHeader p.nrows p.time ++ prvBody p.lines

/-! ### .row (pv/prf.c) -/

def maxPrfLabel : Nat := 512

structure Prf where
  /-- `prf->rows[i].set` / `.label` -/
  rows : List (Option Text)
deriving Repr

/-- `prf_open` -/
def Prf.open (nrows : Nat) : Prf := ⟨List.replicate nrows none⟩

/-- `prf_add`: "index out of bounds", "row already set", "label too long"
    (`snprintf(row->label, MAX_PRF_LABEL, …) >= MAX_PRF_LABEL`). -/
def Prf.add (p : Prf) (index : Nat) (label : Text) : Except Err Prf :=
  match p.rows[index]? with
  | none => .error .other
  | some (some _) => .error .other
  | some none =>
    if label.length ≥ maxPrfLabel then .error .other
    else .ok ⟨p.rows.set index (some label)⟩

/-- `"LEVEL NODE SIZE 1\n"`, `"hostname\n"`, `"\n"`, `"LEVEL THREAD SIZE %ld\n"` -/
def litRowNode : Text := "LEVEL NODE SIZE 1".toList
def litRowHost : Text := "hostname".toList
def litRowThread : Text := "LEVEL THREAD SIZE ".toList

def rowText (names : List Text) : Text :=
  litRowNode ++ ['\n'] ++ litRowHost ++ ['\n'] ++ ['\n'] ++ litRowThread ++ natDec names.length ++ ['\n'] ++
    names.flatMap (· ++ ['\n'])

/-- `prf_close`: "row not set" unless every row has a label. -/
def Prf.close (p : Prf) : Except Err Text :=
  match p.rows.mapM id with
  | none => .error .other
  | some names => .ok (rowText names)

/-- the loops of `system_connect`: `prf_add(prf, gindex, name)` for every
    thread / CPU in gindex order -/
def Prf.addFrom (p : Prf) (i : Nat) : List Text → Except Err Prf
  | [] => .ok p
  | nm :: r => match p.add i nm with
    | .error e => .error e
    | .ok p' => p'.addFrom (i + 1) r

/-- system.c `system_connect`: `"TH %d.%d"` with the application id of the
    thread's process and its TID. -/
def threadName (appid tid : Int) : Text := "TH ".toList ++ intDec appid ++ ['.'] ++ intDec tid

/-- cpu.c `set_name`: `"vCPU %zu.*"` / `" CPU %zu.%zu"` with the loom's global
    index and the physical id. -/
def cpuName (loom : Nat) (phyid : Nat) (virt : Bool) : Text :=
  if virt then "vCPU ".toList ++ natDec loom ++ ".*".toList
  else " CPU ".toList ++ natDec loom ++ ['.'] ++ natDec phyid

/-! ### .pcf (pv/pcf.c) -/

def maxPcfLabel : Nat := 512

structure PcfType where
  id : Nat
  label : Text
  /-- uthash keeps insertion order -/
  values : List (Int × Text) := []
deriving Repr, DecidableEq

/-- `struct pcf`: the types in insertion order -/
abbrev Pcf := List PcfType

/-- `pcf_add_type`: "PCF type already defined", "PCF type label too long" -/
def pcfAddType (p : Pcf) (id : Nat) (label : Text) : Except Err Pcf :=
  if p.any (·.id == id) then .error .other
  else if label.length ≥ maxPcfLabel then .error .other
  else .ok (p ++ [{ id := id, label := label }])

/-- `pcf_add_value` on the type with the given id: "PCF value already in
    type", "PCF value label too long" -/
def pcfAddValue (p : Pcf) (id : Nat) (v : Int) (label : Text) : Except Err Pcf :=
  match p.find? (·.id == id) with
  | none => .error .other
  | some t =>
    if t.values.any (·.1 == v) then .error .other
    else if label.length ≥ maxPcfLabel then .error .other
    else .ok (p.map fun x => if x.id == id then { x with values := x.values ++ [(v, label)] } else x)

def pcfAddValues (p : Pcf) (id : Nat) : List (Int × Text) → Except Err Pcf
  | [] => .ok p
  | (v, l) :: r => match pcfAddValue p id v l with
    | .error e => .error e
    | .ok p' => pcfAddValues p' id r

/-- `pcf_def_header` -/
def pcfHeader : Text :=
  ("DEFAULT_OPTIONS\n\nLEVEL               THREAD\nUNITS               NANOSEC\n" ++
   "LOOK_BACK           100\nSPEED               1\nFLAG_ICONS          ENABLED\n" ++
   "NUM_OF_STATE_COLORS 1000\nYMAX_SCALE          37\n\n\nDEFAULT_SEMANTIC\n\n" ++
   "THREAD_FUNC         State As Is\n").toList

/-- `pcf_def_palette` as (r, g, b) -/
def pcfPalette : List (Nat × Nat × Nat) :=
  [(0, 0, 0), (0, 130, 200), (217, 217, 217), (230, 25, 75), (60, 180, 75),
   (255, 225, 25), (245, 130, 48), (145, 30, 180), (70, 240, 240), (240, 50, 230), (210, 245, 60),
   (250, 190, 212), (0, 128, 128), (128, 128, 128), (220, 190, 255), (170, 110, 40), (255, 250, 200),
   (128, 0, 0), (170, 255, 195), (128, 128, 0), (255, 215, 180), (0, 0, 128), (0, 0, 255)]

/-- `write_colors`: `"%-3d {%3d, %3d, %3d}\n"` -/
def pcfColors : Text :=
  "\n\nSTATES_COLOR\n".toList ++
  pcfPalette.zipIdx.flatMap fun (c, i) =>
    padRight 3 (natDec i) ++ " {".toList ++ padLeft 3 (natDec c.1) ++ ", ".toList ++
      padLeft 3 (natDec c.2.1) ++ ", ".toList ++ padLeft 3 (natDec c.2.2) ++ "}\n".toList

def litEventType : Text := "EVENT_TYPE".toList
def litValues : Text := "VALUES".toList

/-- the line `"0 %-10d %s\n"` of a type -/
def pcfTypeLine (id : Nat) (label : Text) : Text :=
  ['0', ' '] ++ padRight 10 (natDec id) ++ [' '] ++ label ++ ['\n']

/-- `"%-4"PRIi64" %s\n"` -/
def pcfValueLine (v : Int × Text) : Text := padRight 4 (intDec v.1) ++ [' '] ++ v.2 ++ ['\n']

/-- `write_type` -/
def pcfTypeText (t : PcfType) : Text :=
  ['\n', '\n'] ++ litEventType ++ ['\n'] ++ pcfTypeLine t.id t.label ++ litValues ++ ['\n'] ++
    t.values.flatMap pcfValueLine

/-- `pcf_close` -/
def pcfText (p : Pcf) : Text := pcfHeader ++ pcfColors ++ p.flatMap pcfTypeText

/-! ### what the emulator puts in the two PCFs -/

/-- `pcf_suffix[track_mode]` of model_pvt.c -/
def pcfSuffix (mode : Nat) : String :=
  if mode = trackRun then "of the RUNNING thread" else if mode = trackAct then "of the ACTIVE thread" else ""

/-- Per model: the label prefixes, the value tables and the CPU types of the
    generated channel specs (`model_pvt_spec`). -/
structure PcfInfo where
  prefixes : List String
  labels : List (List (Int × String))
  cpuType : List Nat

def pcfInfo (ch : Nat) : Option PcfInfo :=
  if ch = Ovni.modelChar then some ⟨Ovni.pcfPrefix, Ovni.labels, Ovni.cpuPvtType⟩
  else if ch = Nanos6.modelChar then some ⟨Nanos6.pcfPrefix, Nanos6.labels, Nanos6.cpuPvtType⟩
  else if ch = Nosv.modelChar then some ⟨Nosv.pcfPrefix, Nosv.labels, Nosv.cpuPvtType⟩
  else if ch = Nodes.modelChar then some ⟨Nodes.pcfPrefix, Nodes.labels, Nodes.cpuPvtType⟩
  else if ch = Tampi.modelChar then some ⟨Tampi.pcfPrefix, Tampi.labels, Tampi.cpuPvtType⟩
  else if ch = Mpi.modelChar then some ⟨Mpi.pcfPrefix, Mpi.labels, Mpi.cpuPvtType⟩
  else if ch = Kernel.modelChar then some ⟨Kernel.pcfPrefix, Kernel.labels, Kernel.cpuPvtType⟩
  else if ch = Openmp.modelChar then some ⟨Openmp.pcfPrefix, Openmp.labels, Openmp.cpuPvtType⟩
  else none

/-- model_pvt.c `create_type` + `create_values` for channel `i`: label
    `"%s %s"` of prefix and suffix, then the value table (`(int) p->value`). -/
def pcfCreateType (p : Pcf) (type mode : Nat) (pre : String) (vals : List (Int × String)) : Except Err Pcf :=
  let label := pre.toList ++ [' '] ++ (pcfSuffix mode).toList
  if label.length ≥ maxPcfLabel then .error .other else
  match pcfAddType p type label with
  | .error e => .error e
  | .ok p' => pcfAddValues p' type (vals.map fun v => (v.1, v.2.toList))

/-- model_pvt.c `init_pcf` over the channels `is` -/
def pcfInitModel (types tracks : List Nat) (info : PcfInfo) : List Nat → Pcf → Except Err Pcf
  | [], p => .ok p
  | i :: is, p =>
    match pcfCreateType p (types.getD i 0) (tracks.getD i 0) (info.prefixes.getD i "") (info.labels.getD i []) with
    | .error e => .error e
    | .ok p' => pcfInitModel types tracks info is p'

/-- ovni/mark.c `init_pcf`: one type per mark type (100 + type, the title) with
    its labels in creation order. -/
def pcfInitMarks : List MarkType → Pcf → Except Err Pcf
  | [], p => .ok p
  | t :: ts, p =>
    match pcfAddType p (prvOvniMark + t.type.toNat) t.title.toList with
    | .error e => .error e
    | .ok p' =>
      match pcfAddValues p' (prvOvniMark + t.type.toNat) (t.labels.map fun v => (v.1, v.2.toList)) with
      | .error e => .error e
      | .ok p'' => pcfInitMarks ts p''

/-- `model_connect` for the PCF of one file (`cpu = false`: thread.pcf): the
    enabled models by model id, the mark types after the ovni model. -/
def pcfInitModels (cpu : Bool) (marks : List MarkType) : List ModelSpec → Pcf → Except Err Pcf
  | [], p => .ok p
  | s :: ss, p =>
    if s.char = markGroup then
      match pcfInitMarks marks p with
      | .error e => .error e
      | .ok p' => pcfInitModels cpu marks ss p'
    else
      match pcfInfo s.char with
      | none => .error .other
      | some info =>
        match pcfInitModel (if cpu then info.cpuType else s.pvtType) (if cpu then s.cpuTrack else s.thTrack)
                info (List.range s.nch) p with
        | .error e => .error e
        | .ok p' => pcfInitModels cpu marks ss p'

/-- thread.c `pvt_name` / `chan_type` in `enum thread_chan` order, `state_name` -/
def threadPcfTypes : List (Nat × String × List (Int × String)) :=
  [(prvThreadCpu, "Thread: CPU affinity", []),
   (prvThreadTid, "Thread: TID of the ACTIVE thread", []),
   (prvThreadState, "Thread: thread state",
     [(thStUnknown, "Unknown"), (thStRunning, "Running"), (thStPaused, "Paused"), (thStDead, "Dead"),
      (thStCooling, "Cooling"), (thStWarming, "Warming")])]

/-- cpu.c `pvt_name` / `chan_type` in `enum cpu_chan` order (`th_running` and
    `th_active` have type -1: skipped) -/
def cpuPcfTypes : List (Nat × String × List (Int × String)) :=
  [(prvCpuNrun, "CPU: Number of RUNNING threads", []),
   (prvCpuPid, "CPU: PID of the RUNNING thread", []),
   (prvCpuTid, "CPU: TID of the RUNNING thread", [])]

def pcfSysTypes : List (Nat × String × List (Int × String)) → Pcf → Except Err Pcf
  | [], p => .ok p
  | (ty, name, vals) :: r, p =>
    match pcfAddType p ty name.toList with
    | .error e => .error e
    | .ok p' =>
      match pcfAddValues p' ty (vals.map fun v => (v.1, v.2.toList)) with
      | .error e => .error e
      | .ok p'' => pcfSysTypes r p''

/-- The PCF type that shows the task type of a task model (`pvt_type[CH_TYPE]`). -/
def taskTypeOf (ch : Nat) : Option Nat :=
  if ch = Nosv.modelChar then Nosv.pvtType[Nosv.chanNames.idxOf "task_type"]?
  else if ch = Nanos6.modelChar then Nanos6.pvtType[Nanos6.chanNames.idxOf "task_type"]?
  else none

/-- task.c `task_create_pcf_types` for the task types (gid, label) of one
    process: an existing value must carry the same label ("collision"). -/
def pcfTaskTypes (p : Pcf) (id : Nat) : List (Int × Text) → Except Err Pcf
  | [] => .ok p
  | (gid, label) :: r =>
    match (p.find? (·.id == id)).bind (fun t => t.values.find? (·.1 == gid)) with
    | some (_, l) =>
      -- a different label falls through to `pcf_add_value`, which refuses the existing value
      if l = label then pcfTaskTypes p id r else .error .other
    | none =>
      match pcfAddValue p id gid label with
      | .error e => .error e
      | .ok p' => pcfTaskTypes p' id r

/-- `model_*_finish` → `finish_pvt`: per task model (by model id), per process
    (`sys->procs` order) its task types in creation order. -/
def pcfFinishTasks : List (Nat × List (List (Int × Text))) → Pcf → Except Err Pcf
  | [], p => .ok p
  | (ch, procs) :: r, p =>
    match taskTypeOf ch with
    | none => .error .other
    | some ty =>
      let rec go : List (List (Int × Text)) → Pcf → Except Err Pcf
        | [], p => .ok p
        | ts :: ps, p => match pcfTaskTypes p ty ts with
          | .error e => .error e
          | .ok p' => go ps p'
      match go procs p with
      | .error e => .error e
      | .ok p' => pcfFinishTasks r p'

/-- What the emulator needs to know beyond `Emu` to name things. -/
structure Names where
  /-- application id of the process of every thread (gindex order) -/
  appids : List Int
  /-- global index of the loom of every CPU and its physical id (gindex order) -/
  cpus : List (Nat × Nat)
  marks : List MarkType := []
  /-- task types per task model (model id order), per process: (gid, label) -/
  tasks : List (Nat × List (List (Int × Text))) := []

def cpuNames (e : Emu) (n : Names) : List Text :=
  e.cpus.mapIdx fun g c => let lp := n.cpus.getD g (c.loom, 0); cpuName lp.1 lp.2 c.virt

def threadNames (e : Emu) (n : Names) : List Text :=
  e.threads.mapIdx fun g t => threadName (n.appids.getD g 0) t.tid

/-- thread.pcf: `thread_create_pcf_types`, one affinity value per CPU
    (`cpu_add_to_pcf_type`: gindex + 1, the CPU's name), the models, the task
    types at finish. -/
def threadPcf (e : Emu) (n : Names) : Except Err Pcf :=
  match pcfSysTypes threadPcfTypes [] with
  | .error er => .error er
  | .ok p1 =>
    match pcfAddValues p1 prvThreadCpu ((cpuNames e n).mapIdx fun g nm => ((g : Int) + 1, nm)) with
    | .error er => .error er
    | .ok p2 =>
      match pcfInitModels false n.marks (connectOrder e.enabled e.extra) p2 with
      | .error er => .error er
      | .ok p3 => pcfFinishTasks n.tasks p3

/-- cpu.pcf: `cpu_create_pcf_types`, the models, the task types at finish. -/
def cpuPcf (e : Emu) (n : Names) : Except Err Pcf :=
  match pcfSysTypes cpuPcfTypes [] with
  | .error er => .error er
  | .ok p1 =>
    match pcfInitModels true n.marks (connectOrder e.enabled e.extra) p1 with
    | .error er => .error er
    | .ok p2 => pcfFinishTasks n.tasks p2

/-- thread.row / cpu.row: `system_connect` adds one name per thread / CPU at
    its gindex. -/
def rowFileOf (names : List Text) : Except Err Text :=
  match (Prf.open names.length).addFrom 0 names with
  | .error e => .error e
  | .ok p => p.close

/-- The six files of an accepted run. -/
structure Files where
  threadPrv : Text
  cpuPrv : Text
  threadPcf : Text
  cpuPcf : Text
  threadRow : Text
  cpuRow : Text

def files (x : XEmu) (n : Names) : Except Err Files :=
  match threadPcf x.emu0 n, cpuPcf x.emu0 n, rowFileOf (threadNames x.emu0 n), rowFileOf (cpuNames x.emu0 n) with
  | .ok tp, .ok cp, .ok tr, .ok cr =>
    .ok { threadPrv := prvCloseText x.th, cpuPrv := prvCloseText x.cpu,
          threadPcf := pcfText tp, cpuPcf := pcfText cp, threadRow := tr, cpuRow := cr }
  | _, _, _, _ => .error .other

/-! ### readers (the specification side of the round-trip theorems)

Independent of the writers above: split the text at newlines, read decimal
numbers with `Nat.ofDigitChars`. -/

/-- split at every newline (the piece after the last newline is kept, as `splitOn`) -/
def splitNl : Text → List Text
  | [] => [[]]
  | c :: cs =>
    if c = '\n' then [] :: splitNl cs
    else match splitNl cs with
      | l :: ls => (c :: l) :: ls
      | [] => [[c]]

/-- strip a literal prefix -/
def expect : Text → Text → Option Text
  | [], t => some t
  | _ :: _, [] => none
  | c :: cs, d :: ds => if c = d then expect cs ds else none

/-- a non-empty run of decimal digits -/
def readNat (t : Text) : Option (Nat × Text) :=
  let ds := t.takeWhile Char.isDigit
  if ds.isEmpty then none else some (Nat.ofDigitChars 10 ds 0, t.dropWhile Char.isDigit)

/-- optional minus sign, digits -/
def readInt : Text → Option (Int × Text)
  | '-' :: t => (readNat t).map fun nr => (-(nr.1 : Int), nr.2)
  | t => (readNat t).map fun nr => ((nr.1 : Int), nr.2)

/-- `#Paraver (…):<duration>_ns:0:1:1(<nrows>:1)` → (duration, nrows) -/
def parsePrvHeader (l : Text) : Option (Int × Nat) := do
  let r ← expect litParaver l
  let (d, r) ← readInt r
  let r ← expect litNs r
  let (n, r) ← readNat r
  let r ← expect litHdrEnd r
  if r.isEmpty then some (d, n) else none

/-- `2:0:1:1:<row>:<time>:<type>:<value>` → (time, row, type, value) -/
def parsePrvLine (l : Text) : Option (Int × Nat × Nat × Int) := do
  let r ← expect litRec l
  let (row, r) ← readNat r
  let r ← expect [':'] r
  let (time, r) ← readInt r
  let r ← expect [':'] r
  let (ty, r) ← readNat r
  let r ← expect [':'] r
  let (v, r) ← readInt r
  if r.isEmpty then some (time, row, ty, v) else none

/-- A .prv file: the header line, then one record per line, every line
    terminated by a newline. -/
def parsePrv (t : Text) : Option ((Int × Nat) × List (Int × Nat × Nat × Int)) :=
  match splitNl t with
  | [] => none
  | h :: rest =>
    match parsePrvHeader h with
    | none => none
    | some hd =>
      if rest.getLast? = some [] then (rest.dropLast.mapM parsePrvLine).map fun ls => (hd, ls)
      else none

/-- A .row file: the fixed NODE level, the THREAD level with its declared
    size, then the names, one per line → (declared size, names). -/
def parseRow (t : Text) : Option (Nat × List Text) :=
  match splitNl t with
  | l1 :: l2 :: l3 :: l4 :: rest =>
    if l1 = litRowNode ∧ l2 = litRowHost ∧ l3 = [] ∧ rest.getLast? = some [] then
      match expect litRowThread l4 with
      | none => none
      | some r => match readNat r with
        | some (n, []) => some (n, rest.dropLast)
        | _ => none
    else none
  | _ => none

/-- the type a `0 <id> <label>` line declares -/
def pcfTypeOfLine (l : Text) : Option Nat :=
  match expect ['0', ' '] l with
  | none => none
  | some r => match readNat r with
    | some (n, ' ' :: _) => some n
    | _ => none

/-- The event types a .pcf declares: every line after an `EVENT_TYPE` line
    that reads `0 <id> …`. -/
def pcfScan : List Text → List Nat
  | a :: b :: r =>
    (if a = litEventType then (pcfTypeOfLine b).toList else []) ++ pcfScan (b :: r)
  | _ => []

def pcfDeclared (t : Text) : List Nat := pcfScan (splitNl t)

/-! ### the whole event-type section of a .pcf read back

Again independent of the writer: the lines of the file, an `EVENT_TYPE` line
opens a block — `0 <id> <label>`, `VALUES`, then one `<value> <label>` line
per value up to the first blank line (or the end of the file).  Every other
line (the default options, the colours, the blank lines) is skipped.  The
reader is strict: a block that does not have this shape makes the whole file
unreadable (`none`). -/

/-- one `EVENT_TYPE` block as read: id, label, (value, label) lines -/
abbrev PcfBlock := Nat × Text × List (Int × Text)

instance : DecidableEq PcfBlock := inferInstanceAs (DecidableEq (Nat × Text × List (Int × Text)))

/-- What `%-Wd ` leaves between a number that took `used` characters and the
    label: the blanks that fill the `W` columns, then the separating blank.
    (Stripping *all* blanks would be wrong: the CPU names ` CPU 0.0` begin with
    one.) -/
def skipPad (w used : Nat) (t : Text) : Option Text := expect (List.replicate (w - used) ' ' ++ [' ']) t

/-- `0 <id> <label>` with the id left-justified in 10 columns → (id, label) -/
def parsePcfTypeLine (l : Text) : Option (Nat × Text) :=
  match expect ['0', ' '] l with
  | none => none
  | some r => match readNat r with
    | none => none
    | some (n, r') => (skipPad 10 (r.length - r'.length) r').map fun lab => (n, lab)

/-- `<value> <label>` with the value left-justified in 4 columns → (value, label) -/
def parsePcfValueLine (l : Text) : Option (Int × Text) :=
  match readInt l with
  | none => none
  | some (v, r) => (skipPad 4 (l.length - r.length) r).map fun lab => (v, lab)

/-- the value lines up to the first blank line (or the end of the file) -/
def pcfValueLines : List Text → Option (List (Int × Text))
  | [] => some []
  | l :: ls =>
    if l = [] then some []
    else match parsePcfValueLine l, pcfValueLines ls with
      | some v, some vs => some (v :: vs)
      | _, _ => none

/-- the lines after an `EVENT_TYPE` line → (id, label, values) -/
def parsePcfBlock : List Text → Option PcfBlock
  | tl :: vl :: r =>
    if vl = litValues then
      match parsePcfTypeLine tl, pcfValueLines r with
      | some (id, lab), some vs => some (id, lab, vs)
      | _, _ => none
    else none
  | _ => none

def parsePcfLines : List Text → Option (List PcfBlock)
  | [] => some []
  | l :: ls =>
    if l = litEventType then
      match parsePcfBlock ls, parsePcfLines ls with
      | some b, some bs => some (b :: bs)
      | _, _ => none
    else parsePcfLines ls

/-- **The event types of a .pcf text**: per `EVENT_TYPE` block, in file order,
    the type id, its label and the (value, label) lines under `VALUES`. -/
def parsePcfTypes (t : Text) : Option (List PcfBlock) := parsePcfLines (splitNl t)

/-- the values a .pcf text labels for a type (none if the text is unreadable) -/
def pcfValuesOf (t : Text) (type : Nat) : List Int :=
  match parsePcfTypes t with
  | none => []
  | some bs => (bs.filter (·.1 == type)).flatMap fun b => b.2.2.map (·.1)

end Ovni.Emu.PvText
