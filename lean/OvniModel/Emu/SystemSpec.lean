import OvniModel.Emu.System

/-!
  Vocabulary used to *state* the C15 theorems: the union of the metadata of a
  set of streams as fact lists (membership is what matters), "same union",
  and the absence of contradictions.  Nothing here is used by `build`.
-/
namespace Ovni.Emu.System

/-- The stream is a thread stream (`ovni.part = "thread"`); other streams are
    ignored by `create_system`. -/
def isThr (s : StreamMeta) : Prop := s.tp.part = some sThread
instance (s : StreamMeta) : Decidable (isThr s) := by unfold isThr; exact inferInstance

/-- Per-process facts `(loom, pid, app_id)` found in thread streams. -/
def appFactsOf (s : StreamMeta) : List (Str × Int × Int) :=
  if isThr s then
    match s.tp.loom, s.appId with
    | some n, some a => [(n, s.tp.pid, a)]
    | _, _ => []
  else []

def appFacts (l : List StreamMeta) : List (Str × Int × Int) := l.flatMap appFactsOf

/-- Per-process facts `(loom, pid, rank, nranks?)`; `ovni.nranks` without
    `ovni.rank` is never read by the emulator. -/
def rankFactsOf (s : StreamMeta) : List (Str × Int × Int × Option Int) :=
  if isThr s then
    match s.tp.loom, s.rank with
    | some n, some r => [(n, s.tp.pid, r, s.nranks)]
    | _, _ => []
  else []

def rankFacts (l : List StreamMeta) : List (Str × Int × Int × Option Int) := l.flatMap rankFactsOf

/-- Per-loom facts `(loom, some (index, phyid))`; `(loom, none)` records an
    empty `loom_cpus` array. -/
def cpuFactsOf (s : StreamMeta) : List (Str × Option (Int × Int)) :=
  if isThr s then
    match s.tp.loom, s.cpus with
    | some n, some [] => [(n, none)]
    | some n, some es => es.map fun e => (n, some e)
    | _, _ => []
  else []

def cpuFacts (l : List StreamMeta) : List (Str × Option (Int × Int)) := l.flatMap cpuFactsOf

/-- Keys `(loom, pid, tid)` of the thread streams, with multiplicity. -/
def thrKeysOf (t : ThreadPart) : List (Option Str × Int × Int) :=
  if t.part = some sThread then [(t.loom, t.pid, t.tid)] else []

def thrKeys (l : List StreamMeta) : List (Option Str × Int × Int) := (l.map (·.tp)).flatMap thrKeysOf

def SameSet {β : Type} (a b : List β) : Prop := a ⊆ b ∧ b ⊆ a

instance {β : Type} [DecidableEq β] (a b : List β) : Decidable (SameSet a b) := by
  unfold SameSet; exact inferInstance

/-- Two sets of streams carry the same union of metadata: the same threads
    (same directories, same per-thread attributes) and the same per-process and
    per-loom facts, wherever and however often they are written. -/
def SameUnion (ss ss' : List StreamMeta) : Prop :=
  (ss.map (·.tp)).Perm (ss'.map (·.tp)) ∧
  SameSet (appFacts ss) (appFacts ss') ∧
  SameSet (rankFacts ss) (rankFacts ss') ∧
  SameSet (cpuFacts ss) (cpuFacts ss')

instance (ss ss' : List StreamMeta) : Decidable (SameUnion ss ss') := by
  unfold SameUnion; exact inferInstance

/-- Distinct stream directories (always true for a trace on disk). -/
def RelpathsDistinct (ss : List StreamMeta) : Prop := (ss.map (·.tp.relpath)).Nodup

instance (ss : List StreamMeta) : Decidable (RelpathsDistinct ss) := by
  unfold RelpathsDistinct; exact inferInstance

/-! ### Absence of contradictions detectable while merging -/

def ThreadPartOK (t : ThreadPart) : Prop :=
  t.part ≠ none ∧
  (t.part = some sThread →
    (∃ n, t.loom = some n ∧ cSlash ∉ n ∧ n.length < pathMax) ∧ 0 < t.pid ∧ 0 < t.tid ∧ t.finished = 1)

def AppOK (F : List (Str × Int × Int)) : Prop :=
  (∀ n pid a, (n, pid, a) ∈ F → 0 < a) ∧
  (∀ n pid a b, (n, pid, a) ∈ F → (n, pid, b) ∈ F → a = b)

def RankOK (F : List (Str × Int × Int × Option Int)) : Prop :=
  (∀ n pid r k, (n, pid, r, k) ∈ F → ∃ nr, k = some nr ∧ 0 ≤ r ∧ r < nr) ∧
  (∀ n pid r k r' k', (n, pid, r, k) ∈ F → (n, pid, r', k') ∈ F → r = r' ∧ k = k')

def CpuOK (F : List (Str × Option (Int × Int))) : Prop :=
  (∀ n, (n, none) ∉ F) ∧
  (∀ n i p, (n, some (i, p)) ∈ F → 0 ≤ i ∧ 0 ≤ p) ∧
  (∀ n i i' p, (n, some (i, p)) ∈ F → (n, some (i', p)) ∈ F → i = i')

/-- No CPU index of a loom is bound to two physical ids. -/
def IndexOK (F : List (Str × Option (Int × Int))) : Prop :=
  ∀ n i p p', (n, some (i, p)) ∈ F → (n, some (i, p')) ∈ F → p = p'

/-- Everything `create_system` insists on, as a property of the union. -/
def CreateOK (l : List StreamMeta) : Prop :=
  (∀ s ∈ l, ThreadPartOK s.tp) ∧ (thrKeys l).Nodup ∧
  AppOK (appFacts l) ∧ RankOK (rankFacts l) ∧ CpuOK (cpuFacts l)

/-! ### The single contradictions named by the property -/

inductive Conflict (ss : List StreamMeta) : Prop where
  /-- two app ids for one process -/
  | appId (n : Str) (pid a b : Int) :
      (n, pid, a) ∈ appFacts ss → (n, pid, b) ∈ appFacts ss → a ≠ b → Conflict ss
  /-- two ranks for one process -/
  | rank (n : Str) (pid r r' : Int) (k k' : Option Int) :
      (n, pid, r, k) ∈ rankFacts ss → (n, pid, r', k') ∈ rankFacts ss → r ≠ r' → Conflict ss
  /-- two rank counts for one process -/
  | nranks (n : Str) (pid r r' : Int) (k k' : Option Int) :
      (n, pid, r, k) ∈ rankFacts ss → (n, pid, r', k') ∈ rankFacts ss → k ≠ k' → Conflict ss
  /-- one CPU index of a loom bound to two physical ids -/
  | indexTwoPhyids (n : Str) (i p p' : Int) :
      (n, some (i, p)) ∈ cpuFacts ss → (n, some (i, p')) ∈ cpuFacts ss → p ≠ p' → Conflict ss
  /-- one physical id of a loom bound to two CPU indices -/
  | phyidTwoIndexes (n : Str) (i i' p : Int) :
      (n, some (i, p)) ∈ cpuFacts ss → (n, some (i', p)) ∈ cpuFacts ss → i ≠ i' → Conflict ss
  /-- two thread streams with the same loom, pid and tid -/
  | dupTid : ¬ (thrKeys ss).Nodup → Conflict ss
  /-- a loom none of whose threads lists any CPU -/
  | missingCpus (s : StreamMeta) (n : Str) :
      s ∈ ss → isThr s → s.tp.loom = some n → (∀ e, (n, some e) ∉ cpuFacts ss) → Conflict ss
  /-- a process none of whose threads carries the app id -/
  | missingAppId (s : StreamMeta) (n : Str) :
      s ∈ ss → isThr s → s.tp.loom = some n → (∀ a, (n, s.tp.pid, a) ∉ appFacts ss) → Conflict ss

/-! ### The order the property demands -/

structure LoomOrdered (l : HLoom) : Prop where
  /-- processes by rank when the loom has ranks; `rankMin` is their minimum -/
  byRank : l.rankEnabled = true →
    l.procs.Pairwise (fun a b => a.rank ≤ b.rank) ∧
    (∀ p ∈ l.procs, 0 ≤ p.rank ∧ l.rankMin ≤ p.rank) ∧ ∃ p ∈ l.procs, p.rank = l.rankMin
  /-- else by pid (strictly: pids are distinct), and no process has a rank -/
  byPid : l.rankEnabled = false →
    l.procs.Pairwise (fun a b => a.pid < b.pid) ∧ ∀ p ∈ l.procs, p.rank < 0
  /-- threads by tid, strictly -/
  threads : ∀ p ∈ l.procs, p.threads.Pairwise (fun a b => a.tid < b.tid)
  /-- CPUs by physical id, strictly -/
  cpus : l.cpus.Pairwise (fun a b => a.phyid < b.phyid)

structure Ordered (h : Hier) : Prop where
  /-- looms are sorted by rank exactly when every loom has ranks -/
  criterion : h.sortByRank = true ↔ ∀ l ∈ h.looms, l.rankEnabled = true
  byRank : h.sortByRank = true → h.looms.Pairwise (fun a b => a.rankMin ≤ b.rankMin)
  byName : h.sortByRank = false → h.looms.Pairwise (fun a b => cmpStr a.name b.name = .lt)
  looms : ∀ l ∈ h.looms, LoomOrdered l

/-! ### Same union up to the names of the stream directories -/

/-- Everything in the thread part except the directory name (erased). -/
def ThreadPart.core (t : ThreadPart) : ThreadPart := { t with relpath := [] }

/-- Same union, the stream directories possibly named differently. -/
def SameUnionMod (ss ss' : List StreamMeta) : Prop :=
  (ss.map (·.tp.core)).Perm (ss'.map (·.tp.core)) ∧
  SameSet (appFacts ss) (appFacts ss') ∧
  SameSet (rankFacts ss) (rankFacts ss') ∧
  SameSet (cpuFacts ss) (cpuFacts ss')

instance (ss ss' : List StreamMeta) : Decidable (SameUnionMod ss ss') := by
  unfold SameUnionMod; exact inferInstance

/-- No rank is claimed by two different processes. -/
def RanksDistinct (ss : List StreamMeta) : Prop :=
  ∀ x ∈ rankFacts ss, ∀ y ∈ rankFacts ss, x.2.2.1 = y.2.2.1 → x.1 = y.1 ∧ x.2.1 = y.2.1

instance (ss : List StreamMeta) : Decidable (RanksDistinct ss) := by
  unfold RanksDistinct; exact inferInstance

/-! ### An explicit condition under which the code as it is cannot crash -/

/-- The CPU entries written for loom `n`, in the order `load_cpus` meets them
    (streams in load order, each list front to back). -/
def cpuSeq (l : List StreamMeta) (n : Str) : List (Int × Int) :=
  l.flatMap fun s => if isThr s ∧ s.tp.loom = some n then s.cpus.getD [] else []

/-- `seen` = the physical ids already in the loom.  An entry with a physical
    id not seen yet must carry an index that is not below the number of CPUs
    already known (then `loom_get_cpu` returns NULL without touching
    `cpus_array`), or a negative one (refused before the lookup). -/
def safeSeq : List Int → List (Int × Int) → Bool
  | _, [] => true
  | seen, (i, p) :: r =>
    if p ∈ seen then safeSeq seen r
    else decide ((seen.length : Int) ≤ i ∨ i < 0) && safeSeq (seen ++ [p]) r

/-- Every loom's CPU entries come in a safe order (decidable, independent of `build`). -/
def CpuOrderSafe (ss : List StreamMeta) : Prop :=
  (ss.all fun s => match s.tp.loom with
    | some n => safeSeq [] (cpuSeq (load ss) n)
    | none => true) = true

instance (ss : List StreamMeta) : Decidable (CpuOrderSafe ss) := by
  unfold CpuOrderSafe; exact inferInstance

/-! ### The hierarchy is the union -/

/-- What a successful `build` contains, in terms of the union. -/
structure Content (ss : List StreamMeta) (h : Hier) : Prop where
  /-- the looms are the loom names of the thread streams -/
  looms : ∀ n, (∃ l ∈ h.looms, l.name = n) ↔ ∃ s ∈ ss, isThr s ∧ s.tp.loom = some n
  /-- the CPUs of a loom are its CPU facts -/
  cpus : ∀ l ∈ h.looms, ∀ i p,
    (∃ c ∈ l.cpus, c.index = i ∧ c.phyid = p) ↔ (l.name, some (i, p)) ∈ cpuFacts ss
  /-- and their indices are exactly `0 .. ncpus-1` -/
  cpuIndex : ∀ l ∈ h.looms, (l.cpus.map (·.index)).Nodup ∧
    ∀ c ∈ l.cpus, 0 ≤ c.index ∧ c.index < (l.cpus.length : Int)
  /-- the processes of a loom are the (loom, pid) pairs of the thread streams -/
  procs : ∀ l ∈ h.looms, ∀ pid,
    (∃ p ∈ l.procs, p.pid = pid) ↔ ∃ tid, (some l.name, pid, tid) ∈ thrKeys ss
  /-- the app id of a process is the one written by its threads -/
  appid : ∀ l ∈ h.looms, ∀ p ∈ l.procs, (l.name, p.pid, p.appid) ∈ appFacts ss
  /-- rank and rank count are the ones written by its threads, or absent -/
  rank : ∀ l ∈ h.looms, ∀ p ∈ l.procs,
    (p.rank = -1 ∧ p.nranks = 0 ∧ ∀ r k, (l.name, p.pid, r, k) ∉ rankFacts ss) ∨
    (l.name, p.pid, p.rank, some p.nranks) ∈ rankFacts ss
  /-- the threads of a process are the thread streams with that (loom, pid) -/
  threads : ∀ l ∈ h.looms, ∀ p ∈ l.procs, ∀ tid,
    (∃ t ∈ p.threads, t.tid = tid) ↔ (some l.name, p.pid, tid) ∈ thrKeys ss

end Ovni.Emu.System
