/-!
# Model of `src/emu/sort.c` (the sort module behind the breakdown view)

Arrays are `List Int` (`int64_t` values; the model is unbounded, the C code
only compares and copies them).  Every definition names the C function / loop
it transcribes.  No Mathlib.
-/
namespace Ovni.Emu.Sort

/-- `arr[i]`.  An out-of-bounds read is undefined in C; it is unreachable under
    `sort_replace`'s documented precondition and reads `0` here so that the
    model is total. -/
def rd (a : List Int) (i : Nat) : Int := a.getD i 0

/-- `for (; arr[i] < old; i++) ;` (sort.c:49 and :62).  `fuel` bounds the scan
    to the array (`n - i`); the C loop has no bound and relies on `old ∈ arr`. -/
def skipLt (a : List Int) (old : Int) : Nat → Nat → Nat
  | 0, i => i
  | fuel + 1, i => if rd a i < old then skipLt a old fuel (i + 1) else i

/-- `for (; i < n - 1 && arr[i + 1] <= new; i++) arr[i] = arr[i + 1];`
    (sort.c:53-54).  Returns the array and the final `i`. -/
def shiftLeft (n : Nat) (new : Int) : Nat → List Int → Nat → List Int × Nat
  | 0, a, i => (a, i)
  | fuel + 1, a, i =>
    if i + 1 < n ∧ rd a (i + 1) ≤ new then
      shiftLeft n new fuel (a.set i (rd a (i + 1))) (i + 1)
    else (a, i)

/-- `for (; i > 0 && arr[i - 1] > new; i--) arr[i] = arr[i - 1];`
    (sort.c:66-67).  Structural on `i`. -/
def shiftRight (new : Int) : List Int → Nat → List Int × Nat
  | a, 0 => (a, 0)
  | a, i + 1 =>
    if rd a i > new then shiftRight new (a.set (i + 1) (rd a i)) i
    else (a, i + 1)

/-- `sort_replace(arr, n, old, new)` with `n = arr.length`.
    `none` = `die("old == new")`. -/
def sortReplace (arr : List Int) (old new : Int) : Option (List Int) :=
  let n := arr.length
  if old = new then none
  else if old < new then
    /- Quick jump to middle if less than old -/
    let m := n / 2
    let i0 := if rd arr m < old then m else 0
    /- Skip content until old -/
    let i1 := skipLt arr old (n - i0) i0
    /- Copy middle section replacing old -/
    let r := shiftLeft n new (n - i1) arr i1
    /- Place new -/
    some (r.1.set r.2 new)
  else
    /- Find old, must be found -/
    let i1 := skipLt arr old n 0
    /- Shift right to replace old -/
    let r := shiftRight new arr i1
    some (r.1.set r.2 new)

/-- `struct value` as far as the sort module and the muxes look at it
    (`VALUE_NULL`, `VALUE_INT64`, `VALUE_DOUBLE` with its bit pattern). -/
inductive Value where
  | null
  | int (i : Int)
  | dbl (bits : Int)
  deriving DecidableEq, Repr, Inhabited

/-- `int64_t new = 0; if (cur.type == VALUE_INT64) new = cur.i;` (sort.c:90-92) -/
def Value.toInt : Value → Int
  | .int i => i
  | _ => 0

/-- `struct sort`: `values`, `sorted`, `copied` and the current values of the
    `n` output channels (`chan_read(&sort->outputs[i])`; `NULL` until first
    written, because `chan_init` zeroes the channel). -/
structure State where
  n : Nat
  values : List Int
  sorted : List Int
  copied : Bool
  outs : List Value
  deriving Repr

/-- `sort_init`: `calloc`ed arrays, fresh output channels. -/
def init (n : Nat) : State :=
  ⟨n, List.replicate n 0, List.replicate n 0, false, List.replicate n .null⟩

/-- The output loop of `sort_cb_input` (sort.c:114-133), from output index `i`
    on: `val = value_int64(sorted[i])`; skipped if equal to the channel's
    current value, else `chan_set`.  Returns the new output values and the log
    of `chan_set` calls `(index, value)` in program order. -/
def writeLoop : Nat → List Int → List Value → List Value × List (Nat × Int)
  | _, [], outs => (outs, [])
  | _, _ :: _, [] => ([], [])
  | i, s :: ss, o :: os =>
    let r := writeLoop (i + 1) ss os
    if o = .int s then (o :: r.1, r.2) else (.int s :: r.1, (i, s) :: r.2)

/-- The recomputation of `sorted` in `sort_cb_input` (sort.c:106-112):
    `sort_replace` once `copied`, else `memcpy` + `qsort` (first call).
    `qs` is libc `qsort` with `cmp_int64` (a parameter: the theorems assume
    only that it returns a sorted permutation). -/
def nextSorted (qs : List Int → List Int) (st : State) (index : Nat) (new : Int) : List Int :=
  if st.copied then
    match sortReplace st.sorted (rd st.values index) new with
    | some a => a
    | none => st.sorted            -- unreachable: the caller checked old ≠ new
  else qs (st.values.set index new)

/-- `sort_cb_input` for input `index` whose channel now reads `cur`.
    Returns the new state and the writes performed on the output channels.
    An `index ≥ n` cannot be registered in C (`sort_set_input` indexes
    `inputs[n]`); it is ignored. -/
def cbInput (qs : List Int → List Int) (st : State) (index : Nat) (cur : Value) :
    State × List (Nat × Int) :=
  let new := cur.toInt
  let old := rd st.values index
  /- Nothing to do if no change -/
  if old = new ∨ st.n ≤ index then (st, [])
  else
    let sorted := nextSorted qs st index new
    let r := writeLoop 0 sorted st.outs
    ({ st with values := st.values.set index new, sorted := sorted, copied := true, outs := r.1 }, r.2)

/-- A history of input changes `(index, value read from the input channel)`. -/
def run (qs : List Int → List Int) (st : State) : List (Nat × Value) → State
  | [] => st
  | (i, v) :: evs => run qs (cbInput qs st i v).1 evs

/-- What the Paraver rows show: `NULL` is emitted as 0 (`PRV_ZERO`). -/
def rows (st : State) : List Int := st.outs.map Value.toInt

/-! ### Reference functions used by the specification -/

/-- Insert into a non-decreasing list, after the elements `≤ x`. -/
def insertSorted (x : Int) : List Int → List Int
  | [] => [x]
  | y :: ys => if y ≤ x then y :: insertSorted x ys else x :: y :: ys

/-- Insertion sort: the instance of `qsort` used by the executable driver. -/
def isort : List Int → List Int
  | [] => []
  | x :: xs => insertSorted x (isort xs)

/-- Non-decreasing. -/
abbrev Sorted (l : List Int) : Prop := l.Pairwise (· ≤ ·)

/-- The assumption on libc `qsort(…, cmp_int64)`. -/
def IsSort (qs : List Int → List Int) : Prop := ∀ l, Sorted (qs l) ∧ (qs l).Perm l

/-- The input values as the sort module defines them: input `i` holds the
    integer last set on it, `0` for `NULL`/non-integer and before any set. -/
def inputVals (n : Nat) (evs : List (Nat × Value)) : List Int :=
  evs.foldl (fun acc e => acc.set e.1 e.2.toInt) (List.replicate n 0)

end Ovni.Emu.Sort
