import OvniModel.Emu.Core

/-
  Derived timelines: what the thread and CPU rows show for every channel,
  as a function of the emulator state (the specification the tracking muxes
  of track.c / model_cpu.c are proved to implement, see C06), and the Paraver
  records an event produces (pv/prv.c `emit`).
-/
namespace Ovni.Emu
open Ovni.Generated

def trackHolds (mode : Nat) (s : ThState) : Bool :=
  mode = trackAny || (mode = trackRun && s.isRunning) || (mode = trackAct && s.isActive)

/-- Thread row view of channel `i` of model `m`. -/
def thView (t : Thread) (m : ModelSpec) (i : Nat) : Value :=
  match t.getChans m.char with
  | none => .null
  | some cs => if trackHolds (m.thTrack.getD i 0) t.state then (cs.getD i {}).cur else .null

/-- The thread selected by the CPU muxes: the value of the CPU's `th_running` channel. -/
def cpuSelected (e : Emu) (c : Cpu) : Option Thread :=
  match c.chThrun.cur with
  | .int g => if g < 0 then none else e.threads[g.toNat]?
  | .null => none

/-- CPU row view of channel `i` of model `m`: the raw value of the unique running thread. -/
def cpuView (e : Emu) (c : Cpu) (m : ModelSpec) (i : Nat) : Value :=
  match cpuSelected e c with
  | none => (match m.cpuDefault.find? (·.1 == i) with
    | some (_, v) => .int v
    | none => .null)
  | some t => match t.getChans m.char with
    | none => .null
    | some cs => (cs.getD i {}).cur

/-- A Paraver record: file (0 = thread.prv, 1 = cpu.prv), row (1-based), type, value. -/
structure PrvRec where
  file : Nat
  row : Nat
  type : Nat
  value : Int
deriving DecidableEq, Repr

/-- `emit` value conversion: null ↦ 0, `PRV_NEXT` adds one, 0 forbidden without `PRV_ZERO`. -/
def prvValue (flags : Nat) (v : Value) : Except Err Int :=
  match v with
  | .null => .ok 0
  | .int i =>
    let val := if (flags / prvNext) % 2 = 1 then i + 1 else i
    if (flags / prvZero) % 2 = 0 && val = 0 then .error .prvZero else .ok val

def emitRaw (file row type flags : Nat) (c : Chan) : Except Err (List PrvRec) :=
  if c.dirty then do
    let v ← prvValue flags c.cur
    pure [⟨file, row, type, v⟩]
  else pure []

def emitView (file row type flags : Nat) (old new : Value) : Except Err (List PrvRec) :=
  if old = new then pure [] else do
    let v ← prvValue flags new
    pure [⟨file, row, type, v⟩]

/-- concatenate the results of a list of emit attempts (first error wins) -/
def collect : List (Except Err (List PrvRec)) → Except Err (List PrvRec)
  | [] => .ok []
  | x :: xs => match x with
    | .error e => .error e
    | .ok r => match collect xs with
      | .error e => .error e
      | .ok rs => .ok (r ++ rs)

/-- records of one thread row -/
def threadRecords (specs : List ModelSpec) (told t : Thread) : Except Err (List PrvRec) :=
  let row := t.gindex + 1
  collect ([emitRaw 0 row prvThreadCpu prvNext t.chCpu,
            emitRaw 0 row prvThreadTid 0 t.chTid,
            emitRaw 0 row prvThreadState prvSkipDup t.chState] ++
    specs.flatMap fun m => (List.range m.nch).map fun i =>
      emitView 0 row (m.pvtType.getD i 0) (m.prvFlags.getD i 0) (thView told m i) (thView t m i))

/-- records of one CPU row -/
def cpuRecords (specs : List ModelSpec) (old new : Emu) (cold c : Cpu) : Except Err (List PrvRec) :=
  let row := c.gindex + 1
  collect ([emitRaw 1 row prvCpuPid 0 c.chPid,
            emitRaw 1 row prvCpuTid 0 c.chTid,
            emitRaw 1 row prvCpuNrun prvZero c.chNrun] ++
    specs.flatMap fun m => (List.range m.nch).map fun i =>
      emitView 1 row (m.pvtType.getD i 0) (m.prvFlags.getD i 0) (cpuView old cold m i) (cpuView new c m i))

/-- Records produced when the emulator goes from `old` (flushed) to `new`
    (after the handlers, before the flush). -/
def records (old new : Emu) : Except Err (List PrvRec) :=
  let specs := allSpecs.filter (fun s => new.enabled.contains s.char) ++ new.extra
  collect (new.threads.map (fun t => threadRecords specs (old.threads.getD t.gindex t) t) ++
           new.cpus.map (fun c => cpuRecords specs old new (old.cpus.getD c.gindex c) c))

/-- One emulation step: handlers, record emission, flush. -/
def stepEv (e : Emu) (ti m c v : Nat) (payload : List Nat)
    (taskHook markHook : Emu → Nat → Nat → Nat → List Nat → Except Err Emu) :
    Except Err (Emu × List PrvRec) := do
  let e1 ← modelEvent e ti m c v payload taskHook markHook
  let rs ← records e e1
  pure (e1.flushAll, rs)

end Ovni.Emu
