import OvniModel.Emu.View

/-
  Paraver writer (src/emu/pv/prv.c, prf.c, recorder.c): the clock guard of
  prv_advance, lines written at the current time, the header rewritten by
  prv_close with the last advanced time, and the .row file.
-/
namespace Ovni.Emu

structure PrvFile where
  nrows : Nat
  time : Int := 0
  /-- (time, row, type, value) in file order -/
  lines : List (Int × Nat × Nat × Int) := []
deriving Repr

/-- `prv_advance`: "cannot move to previous time". -/
def PrvFile.advance (p : PrvFile) (t : Int) : Except Err PrvFile :=
  if t < p.time then .error .other else .ok { p with time := t }

/-- `write_line`: always at the current `prv->time`. -/
def PrvFile.write (p : PrvFile) (r : PrvRec) : PrvFile :=
  { p with lines := p.lines ++ [(p.time, r.row, r.type, r.value)] }

def PrvFile.writeAll (p : PrvFile) (rs : List PrvRec) : PrvFile := rs.foldl PrvFile.write p

/-- `prv_close` header: duration and row count. -/
def PrvFile.header (p : PrvFile) : Int × Nat := (p.time, p.nrows)

/-- One emulator step as seen by one file: `recorder_advance(dclock)` then the
    records of that file (0 = thread.prv, 1 = cpu.prv). -/
def PrvFile.step (p : PrvFile) (file : Nat) (dclock : Int) (rs : List PrvRec) : Except Err PrvFile :=
  match p.advance dclock with
  | .error e => .error e
  | .ok p' => .ok (p'.writeAll (rs.filter (·.file == file)))

def PrvFile.run (p : PrvFile) (file : Nat) : List (Int × List PrvRec) → Except Err PrvFile
  | [] => .ok p
  | (t, rs) :: rest => match p.step file t rs with
    | .error e => .error e
    | .ok p' => p'.run file rest

/-- `prf_close`: one label per row, all rows set (`system_connect` adds one per
    thread / CPU by gindex). -/
def rowFile (labels : List String) : Nat × List String := (labels.length, labels)

/-- The channel groups of an emulator: enabled models plus the run-time groups. -/
def Emu.specs (e : Emu) : List ModelSpec :=
  allSpecs.filter (fun s => e.enabled.contains s.char) ++ e.extra

/-- Types declared in thread.pcf: the three thread types plus every channel
    type of every enabled model (`thread_create_pcf_types`, `init_pcf`) and of
    the mark types (`mark.c: init_pcf`). -/
def threadTypes (e : Emu) : List Nat :=
  [Generated.prvThreadCpu, Generated.prvThreadTid, Generated.prvThreadState] ++ e.specs.flatMap (·.pvtType)

def cpuTypes (e : Emu) : List Nat :=
  [Generated.prvCpuPid, Generated.prvCpuTid, Generated.prvCpuNrun] ++ e.specs.flatMap (·.pvtType)

end Ovni.Emu
