import OvniModel.Emu.Chan
import OvniModel.Emu.HandlerFacts
import OvniModel.Generated.All

/-
  Reference emulator core: threads, CPUs, the ovni model handlers
  (src/emu/ovni/event.c, thread.c, cpu.c), the table driven handlers of the
  other models (src/emu/*/event.c `simple` / `process_ev`) and
  `model_*_finish`.  One `step` = `model_event` + `bay_propagate`.

  Raw channels carry the C channel semantics (dirty / duplicate rules); the
  derived thread/CPU views are computed functionally (`View.lean`).
-/
namespace Ovni.Emu
open Ovni.Generated

inductive ThState where
  | unknown | running | paused | dead | cooling | warming
deriving DecidableEq, Repr

def ThState.code : ThState → Nat
  | .unknown => thStUnknown
  | .running => thStRunning
  | .paused => thStPaused
  | .dead => thStDead
  | .cooling => thStCooling
  | .warming => thStWarming

def ThState.isRunning (s : ThState) : Bool := s = .running
def ThState.isActive (s : ThState) : Bool := s = .running || s = .cooling || s = .warming

/-- Static description of a model's thread channels and handler.

    The handler fields (`cats`, `stateReq`, `checkOutOfCpu`, `lintChan`,
    `initVals`, `cpuDefault`, `taskCats`, `outOfCpu` and the kernel's table) are
    not written by hand: the eight models below read them from
    `Generated.Handlers` (clang AST of `event.c` / `setup.c`, regenerated on
    every run) through `Emu/HandlerFacts.lean`. -/
structure ModelSpec where
  char : Nat
  nch : Nat
  chanStack : List Bool
  chanDup : List Bool
  pvtType : List Nat
  prvFlags : List Nat
  thTrack : List Nat
  cpuTrack : List Nat
  /-- (category, value, channel, action, state value) -/
  table : List (Nat × Nat × Nat × Nat × Int)
  /-- categories routed to the table (`none` = every category) -/
  cats : Option (List Nat)
  /-- 0: none, 1: thread must be running, 2: thread must be active -/
  stateReq : Nat
  /-- reject when the thread is out of CPU (kernel model information) -/
  checkOutOfCpu : Bool
  /-- channel checked by `end_lint` -/
  lintChan : Option Nat
  /-- channels set at connect time (`model_*_connect`): (channel, value) -/
  initVals : List (Nat × Int) := []
  /-- default of the CPU mux when no thread is selected: (channel, value) -/
  cpuDefault : List (Nat × Int) := []
  /-- categories handed to the task layer (`pre_task` / `pre_type`) after the
      handler's thread-state guard -/
  taskCats : List Nat := []
  /-- `(category, value, b)`: the event also assigns `thread->is_out_of_cpu = b` -/
  outOfCpu : List (Nat × Nat × Bool) := []
deriving Repr

/-- first and second label of a channel's PCF value table -/
def labelVal (labels : List (List (Int × String))) (ch k : Nat) : Int :=
  match (labels.getD ch [])[k]? with
  | some (v, _) => v
  | none => 0

/-- the functions of nOS-V / Nanos6 `event.c` behind which the task layer sits -/
def taskFns : List String := ["pre_task", "pre_type"]

def specNosv : ModelSpec :=
  { char := Nosv.modelChar, nch := Nosv.nch, chanStack := Nosv.chanStack, chanDup := Nosv.chanDup,
    pvtType := Nosv.pvtType, prvFlags := Nosv.prvFlags, thTrack := Nosv.thTrack,
    cpuTrack := Nosv.cpuTrack, table := Nosv.table,
    cats := Handlers.nosv.tableCats, stateReq := Handlers.nosv.stateReq,
    checkOutOfCpu := Handlers.nosv.checkOutOfCpu, lintChan := Handlers.nosv.lintChan,
    -- model_nosv_connect: every thread starts Progressing; a CPU without running thread is Resting
    initVals := Handlers.nosv.initVals, cpuDefault := Handlers.nosv.cpuDefault,
    taskCats := Handlers.nosv.catsCalling taskFns }

def specNanos6 : ModelSpec :=
  { char := Nanos6.modelChar, nch := Nanos6.nch, chanStack := Nanos6.chanStack, chanDup := Nanos6.chanDup,
    pvtType := Nanos6.pvtType, prvFlags := Nanos6.prvFlags, thTrack := Nanos6.thTrack,
    cpuTrack := Nanos6.cpuTrack, table := Nanos6.table,
    cats := Handlers.nanos6.tableCats, stateReq := Handlers.nanos6.stateReq,
    checkOutOfCpu := Handlers.nanos6.checkOutOfCpu, lintChan := Handlers.nanos6.lintChan,
    initVals := Handlers.nanos6.initVals, cpuDefault := Handlers.nanos6.cpuDefault,
    taskCats := Handlers.nanos6.catsCalling taskFns }

def specNodes : ModelSpec :=
  { char := Nodes.modelChar, nch := Nodes.nch, chanStack := Nodes.chanStack, chanDup := Nodes.chanDup,
    pvtType := Nodes.pvtType, prvFlags := Nodes.prvFlags, thTrack := Nodes.thTrack,
    cpuTrack := Nodes.cpuTrack, table := Nodes.table,
    cats := Handlers.nodes.tableCats, stateReq := Handlers.nodes.stateReq,
    checkOutOfCpu := Handlers.nodes.checkOutOfCpu, lintChan := Handlers.nodes.lintChan,
    initVals := Handlers.nodes.initVals, cpuDefault := Handlers.nodes.cpuDefault,
    taskCats := Handlers.nodes.catsCalling taskFns }

def specTampi : ModelSpec :=
  { char := Tampi.modelChar, nch := Tampi.nch, chanStack := Tampi.chanStack, chanDup := Tampi.chanDup,
    pvtType := Tampi.pvtType, prvFlags := Tampi.prvFlags, thTrack := Tampi.thTrack,
    cpuTrack := Tampi.cpuTrack, table := Tampi.table,
    cats := Handlers.tampi.tableCats, stateReq := Handlers.tampi.stateReq,
    checkOutOfCpu := Handlers.tampi.checkOutOfCpu, lintChan := Handlers.tampi.lintChan,
    initVals := Handlers.tampi.initVals, cpuDefault := Handlers.tampi.cpuDefault,
    taskCats := Handlers.tampi.catsCalling taskFns }

def specMpi : ModelSpec :=
  { char := Mpi.modelChar, nch := Mpi.nch, chanStack := Mpi.chanStack, chanDup := Mpi.chanDup,
    pvtType := Mpi.pvtType, prvFlags := Mpi.prvFlags, thTrack := Mpi.thTrack,
    cpuTrack := Mpi.cpuTrack, table := Mpi.table,
    cats := Handlers.mpi.tableCats, stateReq := Handlers.mpi.stateReq,
    checkOutOfCpu := Handlers.mpi.checkOutOfCpu, lintChan := Handlers.mpi.lintChan,
    initVals := Handlers.mpi.initVals, cpuDefault := Handlers.mpi.cpuDefault,
    taskCats := Handlers.mpi.catsCalling taskFns }

def specOpenmp : ModelSpec :=
  { char := Openmp.modelChar, nch := Openmp.nch, chanStack := Openmp.chanStack, chanDup := Openmp.chanDup,
    pvtType := Openmp.pvtType, prvFlags := Openmp.prvFlags, thTrack := Openmp.thTrack,
    cpuTrack := Openmp.cpuTrack, table := Openmp.table,
    cats := Handlers.openmp.tableCats, stateReq := Handlers.openmp.stateReq,
    checkOutOfCpu := Handlers.openmp.checkOutOfCpu, lintChan := Handlers.openmp.lintChan,
    initVals := Handlers.openmp.initVals, cpuDefault := Handlers.openmp.cpuDefault,
    taskCats := Handlers.openmp.catsCalling taskFns }

/-- `ST_CSOUT` as the generated label table of the kernel model has it (the
    value `context_switch` pushes is generated too: `Props/Gen.lean` states
    that the two agree). -/
def kernelCsOut : Int := match Kernel.labels.head? with
  | some ((v, _) :: _) => v
  | _ => 3

/-- The kernel model has no event table: its two events are the cases of the
    value switch of `context_switch` (KCO push / KCI pop of ST_CSOUT on channel
    0, and the assignment of `is_out_of_cpu`), taken from the generated facts
    in table form. -/
def specKernel : ModelSpec :=
  { char := Kernel.modelChar, nch := Kernel.nch, chanStack := Kernel.chanStack, chanDup := Kernel.chanDup,
    pvtType := Kernel.pvtType, prvFlags := Kernel.prvFlags, thTrack := Kernel.thTrack,
    cpuTrack := Kernel.cpuTrack, table := Handlers.kernel.switchRows,
    cats := some Handlers.kernel.switchCats, stateReq := Handlers.kernel.stateReq,
    checkOutOfCpu := Handlers.kernel.checkOutOfCpu, lintChan := Handlers.kernel.lintChan,
    initVals := Handlers.kernel.initVals, cpuDefault := Handlers.kernel.cpuDefault,
    outOfCpu := Handlers.kernel.outOfCpuRows }

/-- The ovni model's own channel (flush); its events are handled explicitly
    (`ovniEvent`), so nothing is routed to a table. -/
def specOvni : ModelSpec :=
  { char := Ovni.modelChar, nch := Ovni.nch, chanStack := Ovni.chanStack, chanDup := Ovni.chanDup,
    pvtType := Ovni.pvtType, prvFlags := Ovni.prvFlags, thTrack := Ovni.thTrack,
    cpuTrack := Ovni.cpuTrack, table := [],
    cats := Handlers.ovni.tableCats, stateReq := Handlers.ovni.stateReq,
    checkOutOfCpu := Handlers.ovni.checkOutOfCpu, lintChan := Handlers.ovni.lintChan,
    initVals := Handlers.ovni.initVals, cpuDefault := Handlers.ovni.cpuDefault }

/-- Registration order of `models.c` (it fixes the row/type emission order only). -/
def allSpecs : List ModelSpec :=
  [specOvni, specNanos6, specNosv, specNodes, specTampi, specMpi, specKernel, specOpenmp]

def findSpec (ch : Nat) : Option ModelSpec := allSpecs.find? (·.char == ch)

/-- fresh raw channels of a model for one thread (`model_thread.c: init_chan`) -/
def ModelSpec.freshChans (m : ModelSpec) : List Chan :=
  (List.range m.nch).map fun i =>
    match m.initVals.find? (·.1 == i) with
    | some (_, v) =>
      -- set at connect and flushed by the initial bay_propagate
      { isStack := m.chanStack.getD i false, allowDup := m.chanDup.getD i false,
        vals := [.int v], last := .int v }
    | none => { isStack := m.chanStack.getD i false, allowDup := m.chanDup.getD i false }

structure Thread where
  gindex : Nat
  tid : Int
  pid : Int
  loom : Nat
  state : ThState := .unknown
  cpu : Option Nat := none
  outOfCpu : Bool := false
  chCpu : Chan := {}
  chTid : Chan := { ignoreDup := true }
  chState : Chan := {}
  /-- raw model channels, keyed by model character -/
  mch : List (Nat × List Chan) := []
deriving Repr

structure Cpu where
  gindex : Nat
  loom : Nat
  /-- index inside the loom (`-1` for the virtual CPU) -/
  index : Int
  virt : Bool
  /-- threads bound to the CPU, in `DL_APPEND` order -/
  threads : List Nat := []
  chNrun : Chan := { ignoreDup := true }
  chPid : Chan := { ignoreDup := true }
  chTid : Chan := { ignoreDup := true }
  chThrun : Chan := { ignoreDup := true }
  chThact : Chan := { ignoreDup := true }
deriving Repr

structure Emu where
  threads : List Thread
  cpus : List Cpu
  enabled : List Nat
  maxStack : Nat := maxChanStack
  lint : Bool := false
  /-- channel groups created at run time from the metadata (the mark types of
      ovni/mark.c), described like a model: char is a pseudo id -/
  extra : List ModelSpec := []
deriving Repr

/-! ### thread.c -/

/-- `thread_set_state` -/
def Thread.setState (t : Thread) (st : ThState) : Except Err Thread := do
  if t.cpu.isNone then throw .noCpu
  let cs ← t.chState.set (.int st.code)
  let ct ← t.chTid.set (if st.isActive then .int t.tid else .null)
  pure { t with state := st, chState := cs, chTid := ct }

/-- `thread_set_cpu` -/
def Thread.setCpu (t : Thread) (cpu : Nat) : Except Err Thread := do
  if t.cpu.isSome then throw .state
  let c ← t.chCpu.set (.int cpu)
  pure { t with cpu := some cpu, chCpu := c }

/-- `thread_unset_cpu` -/
def Thread.unsetCpu (t : Thread) : Except Err Thread := do
  if t.cpu.isNone then throw .noCpu
  let c ← t.chCpu.set .null
  pure { t with cpu := none, chCpu := c }

/-- `thread_migrate_cpu` -/
def Thread.migrateCpu (t : Thread) (cpu : Nat) : Except Err Thread := do
  if t.cpu.isNone then throw .noCpu
  let c ← t.chCpu.set (.int cpu)
  pure { t with cpu := some cpu, chCpu := c }

/-! ### cpu.c -/

/-- `cpu_update`: recount, oversubscription check, channel updates. -/
def cpuUpdate (threads : List Thread) (c : Cpu) : Except Err Cpu := do
  let bound := c.threads.filterMap (fun g => threads[g]?)
  let running := bound.filter (fun t => t.state = .running)
  let active := bound.filter (fun t => t.state.isActive)
  if running.length > 1 && !c.virt then throw .oversub
  let (tidv, pidv, gidv) : Value × Value × Value :=
    match running with
    | [t] => (.int t.tid, .int t.pid, .int t.gindex)
    | _ => (.null, .null, .null)
  let chTid ← c.chTid.set tidv
  let chPid ← c.chPid.set pidv
  let chThrun ← c.chThrun.set gidv
  let gact : Value := match active with
    | [t] => .int t.gindex
    | _ => .null
  let chNrun ← c.chNrun.set (.int running.length)
  let chThact ← c.chThact.set gact
  pure { c with chTid := chTid, chPid := chPid, chThrun := chThrun, chNrun := chNrun, chThact := chThact }

def Emu.setThread (e : Emu) (t : Thread) : Emu := { e with threads := e.threads.set t.gindex t }
def Emu.setCpu (e : Emu) (c : Cpu) : Emu := { e with cpus := e.cpus.set c.gindex c }

/-- `cpu_add_thread` (the thread's new state must already be stored in `e`). -/
def cpuAddThread (e : Emu) (ci : Nat) (ti : Nat) : Except Err Emu := do
  let some c := e.cpus[ci]? | throw .noCpu
  if c.threads.contains ti then throw .cpuList
  let c' ← cpuUpdate e.threads { c with threads := c.threads ++ [ti] }
  pure (e.setCpu c')

/-- `cpu_remove_thread` -/
def cpuRemoveThread (e : Emu) (ci : Nat) (ti : Nat) : Except Err Emu := do
  let some c := e.cpus[ci]? | throw .noCpu
  if !c.threads.contains ti then throw .cpuList
  let c' ← cpuUpdate e.threads { c with threads := c.threads.erase ti }
  pure (e.setCpu c')

/-- `cpu_update(th->cpu)` after a state change -/
def cpuRefresh (e : Emu) (ci : Nat) : Except Err Emu := do
  let some c := e.cpus[ci]? | throw .noCpu
  let c' ← cpuUpdate e.threads c
  pure (e.setCpu c')

/-- `loom_get_cpu(loom, index)` → gindex -/
def loomGetCpu (e : Emu) (loom : Nat) (index : Int) : Option Nat :=
  if index = -1 then (e.cpus.find? (fun c => c.loom = loom && c.virt)).map (·.gindex)
  else (e.cpus.find? (fun c => c.loom = loom && !c.virt && c.index = index)).map (·.gindex)

/-! ### payload accessors -/

def leNat : List Nat → Nat
  | [] => 0
  | b :: bs => b + 256 * leNat bs

def toSigned (bits : Nat) (v : Nat) : Int :=
  if v ≥ 2 ^ (bits - 1) then (v : Int) - (2 ^ bits : Nat) else v

def i32At (p : List Nat) (k : Nat) : Int := toSigned 32 (leNat ((p.drop (4 * k)).take 4))

/-! ### ovni/event.c -/

def preThreadExecute (e : Emu) (ti : Nat) (payload : List Nat) : Except Err Emu := do
  let some t := e.threads[ti]? | throw .other
  if t.state = .running then throw .state
  if payload.length < 4 then throw .payload
  let some ci := loomGetCpu e t.loom (i32At payload 0) | throw .noCpu
  let t1 ← t.setCpu ci
  let t2 ← t1.setState .running
  cpuAddThread (e.setThread t2) ci ti

def preThreadEnd (e : Emu) (ti : Nat) : Except Err Emu := do
  let some t := e.threads[ti]? | throw .other
  if t.state ≠ .running && t.state ≠ .cooling then throw .state
  let t1 ← t.setState .dead
  let some ci := t1.cpu | throw .noCpu
  let e1 ← cpuRemoveThread (e.setThread t1) ci ti
  let t2 ← t1.unsetCpu
  pure (e1.setThread t2)

/-- pause / resume / cool / warm: guard, `thread_set_state`, `cpu_update(th->cpu)` -/
def preThreadChange (e : Emu) (ti : Nat) (ok : ThState → Bool) (st : ThState) : Except Err Emu := do
  let some t := e.threads[ti]? | throw .other
  if !ok t.state then throw .state
  let t1 ← t.setState st
  let some ci := t1.cpu | throw .noCpu
  cpuRefresh (e.setThread t1) ci

def preThread (e : Emu) (ti : Nat) (v : Nat) (payload : List Nat) : Except Err Emu :=
  if v = 67 then pure e                                   -- 'C' create: only logged
  else if v = 120 then preThreadExecute e ti payload        -- 'x'
  else if v = 101 then preThreadEnd e ti                    -- 'e'
  else if v = 112 then preThreadChange e ti (fun s => s = .running || s = .cooling) .paused   -- 'p'
  else if v = 114 then preThreadChange e ti (fun s => s = .paused || s = .warming) .running   -- 'r'
  else if v = 99 then preThreadChange e ti (fun s => s = .running) .cooling                   -- 'c'
  else if v = 119 then preThreadChange e ti (fun s => s = .paused) .warming                   -- 'w'
  else throw .unknownEvent

/-- `cpu_migrate_thread` + `thread_migrate_cpu` -/
def migrate (e : Emu) (ti : Nat) (from_ to : Nat) : Except Err Emu := do
  let e1 ← cpuRemoveThread e from_ ti
  let e2 ← cpuAddThread e1 to ti
  let some t := e2.threads[ti]? | throw .other
  let t1 ← t.migrateCpu to
  pure (e2.setThread t1)

def preAffinitySet (e : Emu) (ti : Nat) (payload : List Nat) : Except Err Emu := do
  let some t := e.threads[ti]? | throw .other
  let some cur := t.cpu | throw .noCpu
  if !t.state.isActive then throw .state
  if payload.length ≠ 4 then throw .payload
  let some ci := loomGetCpu e t.loom (i32At payload 0) | throw .noCpu
  if cur = ci then pure e else migrate e ti cur ci

/-- `proc_find_thread` then `loom_find_thread` -/
def findRemote (e : Emu) (t : Thread) (tid : Int) : Option Thread :=
  match e.threads.find? (fun x => x.loom = t.loom && x.pid = t.pid && x.tid = tid) with
  | some x => some x
  | none => e.threads.find? (fun x => x.loom = t.loom && x.tid = tid)

def preAffinityRemote (e : Emu) (ti : Nat) (payload : List Nat) : Except Err Emu := do
  let some t := e.threads[ti]? | throw .other
  if payload.length ≠ 8 then throw .payload
  let some r := findRemote e t (i32At payload 1) | throw .state
  if r.state = .dead then throw .state
  if r.state = .unknown then throw .state
  let some cur := r.cpu | throw .noCpu
  let some ci := loomGetCpu e t.loom (i32At payload 0) | throw .noCpu
  migrate e r.gindex cur ci

def Thread.getChans (t : Thread) (m : Nat) : Option (List Chan) := (t.mch.find? (·.1 == m)).map (·.2)
def Thread.setChans (t : Thread) (m : Nat) (cs : List Chan) : Thread :=
  { t with mch := t.mch.map (fun x => if x.1 == m then (m, cs) else x) }

/-- apply `f` to channel `i` of model `m` of thread `ti` -/
def withChan (e : Emu) (ti m i : Nat) (f : Chan → Except Err Chan) : Except Err Emu := do
  let some t := e.threads[ti]? | throw .other
  let some cs := t.getChans m | throw .other
  let some c := cs[i]? | throw .other
  let c' ← f c
  pure (e.setThread (t.setChans m (cs.set i c')))

def preFlush (e : Emu) (ti : Nat) (v : Nat) : Except Err Emu :=
  if v = 91 then withChan e ti 79 0 (·.set (.int 1))
  else if v = 93 then withChan e ti 79 0 (·.set .null)
  else throw .unknownEvent

/-- Hook for the mark events (`OM*`, Emu/MarkEmu) — filled in by C17's model. -/
def ovniEvent (e : Emu) (ti : Nat) (c v : Nat) (payload : List Nat)
    (markHook : Emu → Nat → Nat → List Nat → Except Err Emu) : Except Err Emu := do
  let some t := e.threads[ti]? | throw .other
  if t.outOfCpu then throw .state
  if c = 72 then preThread e ti v payload            -- 'H'
  else if c = 65 then                                   -- 'A'
    (if v = 115 then preAffinitySet e ti payload
     else if v = 114 then preAffinityRemote e ti payload
     else throw .unknownEvent)
  else if c = 66 then pure e                            -- 'B' burst
  else if c = 67 then (if v = 110 then pure e else throw .unknownEvent)  -- 'C' n (legacy)
  else if c = 70 then preFlush e ti v                   -- 'F'
  else if c = 85 then pure e                            -- 'U'
  else if c = 77 then markHook e ti v payload           -- 'M'
  else throw .unknownEvent

/-! ### table driven models -/

/-- the thread-state guards at the top of `process_ev` -/
def stateGuard (m : ModelSpec) (t : Thread) : Except Err Unit := do
  if m.stateReq = 1 && !t.state.isRunning then throw .state
  if m.stateReq = 2 && !t.state.isActive then throw .state
  if m.checkOutOfCpu && t.outOfCpu then throw .state

def tableEvent (e : Emu) (ti : Nat) (m : ModelSpec) (c v : Nat) : Except Err Emu := do
  let some t := e.threads[ti]? | throw .other
  stateGuard m t
  match m.cats with
  | some cs => if !cs.contains c then throw .unknownEvent
  | none => pure ()
  match m.table.find? (fun r => r.1 == c && r.2.1 == v) with
  | none => throw .unknownEvent
  | some (_, _, ch, act, st) =>
    let e1 ←
      if act = 1 then withChan e ti m.char ch (Chan.push e.maxStack · (.int st))
      else if act = 2 then withChan e ti m.char ch (·.pop (.int st))
      else if act = 3 then withChan e ti m.char ch (·.set (.int st))
      else if act = 4 then pure e
      else throw .unknownEvent
    -- kernel: is_out_of_cpu follows KCO / KCI (set before the channel operation)
    match m.outOfCpu.find? (fun r => r.1 == c && r.2.1 == v) with
    | some (_, _, b) =>
      let some t1 := e1.threads[ti]? | throw .other
      pure (e1.setThread { t1 with outOfCpu := b })
    | none => pure e1

/-- `model_event` for one event of thread `ti`. `taskHook` handles the task
    categories of nOS-V / Nanos6 (Emu/Task), `markHook` the `OM*` events. -/
def modelEvent (e : Emu) (ti : Nat) (m c v : Nat) (payload : List Nat)
    (taskHook markHook : Emu → Nat → Nat → Nat → List Nat → Except Err Emu) : Except Err Emu := do
  let some spec := findSpec m | throw .notEnabled
  if !e.enabled.contains m then throw .notEnabled
  if m = 79 then ovniEvent e ti c v payload (fun e ti v p => markHook e ti c v p)
  else if spec.taskCats.contains c then
    -- 'T' / 'Y' of nOS-V ('V') and Nanos6 ('6'): state preconditions then the task layer
    (do
      let some t := e.threads[ti]? | throw .other
      stateGuard spec t
      taskHook e ti m c payload)
  else tableEvent e ti spec c v

/-- all channels of the emulator flushed (`bay_propagate`'s last phase) -/
def Emu.flushAll (e : Emu) : Emu :=
  { e with
    threads := e.threads.map fun t =>
      { t with chCpu := t.chCpu.flush, chTid := t.chTid.flush, chState := t.chState.flush,
               mch := t.mch.map fun x => (x.1, x.2.map Chan.flush) },
    cpus := e.cpus.map fun c =>
      { c with chNrun := c.chNrun.flush, chPid := c.chPid.flush, chTid := c.chTid.flush,
               chThrun := c.chThrun.flush, chThact := c.chThact.flush } }

/-- `end_lint` of the enabled models: some thread ends with a non-empty
    subsystem / function stack. -/
def lintOpen (e : Emu) : Bool :=
  allSpecs.any fun spec =>
    e.enabled.contains spec.char &&
    match spec.lintChan with
    | none => false
    | some i => e.threads.any fun t =>
        match t.getChans spec.char with
        | some cs => decide ((cs.getD i {}).vals.length > 0)
        | none => false

/-- `model_ovni_finish` (all threads dead) + the `end_lint` of every enabled model. -/
def finish (e : Emu) : Except Err Unit :=
  if e.threads.any (fun t => t.state ≠ .dead) then .error .finish
  else if e.lint && lintOpen e then .error .finish
  else .ok ()

/-- Build the initial emulator from the hierarchy. -/
def mkEmu (threads : List (Int × Int × Nat)) (cpus : List (Nat × Int × Bool)) (enabled : List Nat)
    (lint : Bool) (extra : List ModelSpec := []) : Emu :=
  let specs := allSpecs.filter (fun s => enabled.contains s.char) ++ extra
  { threads := threads.mapIdx fun g (tid, pid, loom) =>
      { gindex := g, tid := tid, pid := pid, loom := loom,
        mch := specs.map fun s => (s.char, s.freshChans) },
    cpus := cpus.mapIdx fun g (loom, index, virt) => { gindex := g, loom := loom, index := index, virt := virt },
    enabled := enabled, lint := lint, extra := extra }

end Ovni.Emu
