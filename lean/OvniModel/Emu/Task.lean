import OvniModel.Generated.Consts
import OvniModel.Generated.Nosv
import OvniModel.Generated.Nanos6
/-
  Model of src/emu/body.c + body.h and src/emu/task.c + task.h as pure values.

  Pointers become keys: a task is named by its id (the key of `task_info.tasks`),
  a body by the pair (task id, body id) (the key of `task->body_info.bodies`),
  a `struct body_stack` / `struct task_stack` by a natural number (in the
  emulator: the thread that owns it).  The hash tables (uthash) are finite maps,
  modelled as functions `Nat → Option _`; the doubly linked list `stack->top`
  is a `List` whose head is `stack->top`.

  Every guard of the C functions is one branch, in the same order, returning an
  error class.  The emulator aborts on the first error, so a failed operation
  returns no state (C leaves partial mutations behind, e.g. the freshly created
  body of a failed `task_execute`; nobody can observe them).
-/
namespace Ovni.Task

/-- `enum body_state` -/
inductive BodyState
  | created | running | paused | dead
  deriving DecidableEq, Repr, Inhabited

/-- `enum task_flags` (task.h), one Bool per bit. -/
structure TaskFlags where
  parallel : Bool   -- TASK_FLAG_PARALLEL      (1 << 0)
  resurrect : Bool  -- TASK_FLAG_RESURRECT     (1 << 1)
  pause : Bool      -- TASK_FLAG_PAUSE         (1 << 2)
  relax : Bool      -- TASK_FLAG_RELAX_NESTING (1 << 3)
  deriving DecidableEq, Repr, Inhabited

/-- `enum body_flags` (body.h), one Bool per bit. -/
structure BodyFlags where
  pause : Bool      -- BODY_FLAG_PAUSE         (1 << 0)
  resurrect : Bool  -- BODY_FLAG_RESURRECT     (1 << 1)
  relax : Bool      -- BODY_FLAG_RELAX_NESTING (1 << 2)
  deriving DecidableEq, Repr, Inhabited

def TaskFlags.ofNat (n : Nat) : TaskFlags :=
  ⟨n % 2 = 1, n / 2 % 2 = 1, n / 4 % 2 = 1, n / 8 % 2 = 1⟩

def TaskFlags.toNat (f : TaskFlags) : Nat :=
  (if f.parallel then 1 else 0) + (if f.resurrect then 2 else 0)
    + (if f.pause then 4 else 0) + (if f.relax then 8 else 0)

def BodyFlags.toNat (f : BodyFlags) : Nat :=
  (if f.pause then 1 else 0) + (if f.resurrect then 2 else 0) + (if f.relax then 4 else 0)

/-- The flag translation at the top of `create_body` (task.c). -/
def bodyFlagsOf (f : TaskFlags) : BodyFlags :=
  { relax := f.relax, resurrect := f.resurrect, pause := f.pause }

/-- `struct body` (private to body.c).  `stack` is `body->stack` (`none` = NULL). -/
structure Body where
  id : Nat
  flags : BodyFlags
  state : BodyState
  stack : Option Nat
  iteration : Nat
  deriving DecidableEq, Repr

/-- `struct task`; `type` is the pointer to the (immutable) `struct task_type`,
    kept as its id and gid. -/
structure Task where
  id : Nat
  typeId : Nat
  gid : Nat
  nbodies : Nat
  flags : TaskFlags
  deriving DecidableEq, Repr

/-- (task id, body id) -/
abbrev Ref := Nat × Nat

/-- One `struct task_info` (types and tasks of a process) with the bodies of
    its tasks, and all the `struct task_stack`s that run its tasks. -/
structure Sys where
  types : Nat → Option Nat            -- type id ↦ gid
  tasks : Nat → Option Task
  bodies : Nat → Nat → Option Body    -- task id ↦ body id ↦ body
  stacks : Nat → List Ref             -- head = `stack->top`

def Sys.init : Sys := ⟨fun _ => none, fun _ => none, fun _ _ => none, fun _ => []⟩

inductive Err
  -- task.c
  | taskExists | unknownType | typeExists | typeZero | labelTooLong
  | taskNull | notParallel | bodyNotFound
  -- body.c
  | bodyZero | bodyExists
  | noResurrect | execPaused | notCreated | stackSet | nestRunning
  | noPause | notRunning | notPaused | stackUnset | otherStack | notTop
  -- nosv/event.c, nanos6/event.c
  | taskNotFound | bodyIdZero | bodyIdNonzero | taskIdZero | gidZero | appidBad
  | chanDup | ssFull | ssEmpty | ssMismatch | switchNull | switchSame
  | notRunningOnBegin | wrongSs | payload
  deriving DecidableEq, Repr

/-! ### setters -/

def Sys.setType (σ : Sys) (ty gid : Nat) : Sys :=
  { σ with types := fun i => if i = ty then some gid else σ.types i }

def Sys.setTask (σ : Sys) (t : Nat) (T : Task) : Sys :=
  { σ with tasks := fun i => if i = t then some T else σ.tasks i }

def Sys.setBody (σ : Sys) (t b : Nat) (B : Body) : Sys :=
  { σ with bodies := fun i j => if i = t ∧ j = b then some B else σ.bodies i j }

def Sys.setStack (σ : Sys) (s : Nat) (l : List Ref) : Sys :=
  { σ with stacks := fun i => if i = s then l else σ.stacks i }

/-! ### body.c -/

/-- `body_get_top` / `task_get_top` -/
def Sys.top (σ : Sys) (s : Nat) : Option Ref := (σ.stacks s).head?

/-- `body_get_running` / `task_get_running`: the top body if its state is
    Running.  (The list holds keys, not pointers: a key without a body cannot
    occur, see `Inv`; it reads as "nothing running".) -/
def Sys.running (σ : Sys) (s : Nat) : Option (Ref × Body) :=
  match (σ.stacks s).head? with
  | none => none
  | some r =>
    match σ.bodies r.1 r.2 with
    | none => none
    | some B => if B.state = .running then some (r, B) else none

/-- The resurrection block at the top of `body_execute`. -/
def resurrect (B : Body) : Except Err Body :=
  if B.state = .dead then
    if B.flags.resurrect then .ok { B with state := .created, iteration := B.iteration + 1 }
    else .error .noResurrect
  else .ok B

/-- The nesting test of `body_execute`: `top = body_get_running(stack)`; a
    running top is tolerated only with `BODY_FLAG_RELAX_NESTING` (warning). -/
def nestGuard (σ : Sys) (s : Nat) : Except Err Unit :=
  match σ.running s with
  | none => .ok ()
  | some (_, top) => if top.flags.relax then .ok () else .error .nestRunning

/-- `body_execute(stack, body)`; `body` is the body stored at `(t, b)`. -/
def bodyExecute (σ : Sys) (s t b : Nat) (B : Body) : Except Err Sys :=
  match resurrect B with
  | .error e => .error e
  | .ok B =>
    if B.state = .paused then .error .execPaused
    else if B.state ≠ .created then .error .notCreated
    else if B.stack ≠ none then .error .stackSet
    else
      match nestGuard σ s with
      | .error e => .error e
      | .ok _ =>
        .ok ((σ.setBody t b { B with stack := some s, state := .running }).setStack s
              ((t, b) :: σ.stacks s))

/-- The four guards shared by `body_pause`, `body_resume` and `body_end` after
    the state test: `body->stack == NULL`, `body->stack != stack`,
    `stack->top != body`. -/
def onTop (σ : Sys) (s t b : Nat) (B : Body) : Except Err Unit :=
  match B.stack with
  | none => .error .stackUnset
  | some s' =>
    if s' ≠ s then .error .otherStack
    else if σ.top s ≠ some (t, b) then .error .notTop
    else .ok ()

/-- `body_pause(stack, body)` -/
def bodyPause (σ : Sys) (s t b : Nat) (B : Body) : Except Err Sys :=
  if !B.flags.pause then .error .noPause
  else if B.state ≠ .running then .error .notRunning
  else
    match onTop σ s t b B with
    | .error e => .error e
    | .ok _ => .ok (σ.setBody t b { B with state := .paused })

/-- `body_resume(stack, body)` -/
def bodyResume (σ : Sys) (s t b : Nat) (B : Body) : Except Err Sys :=
  if B.state ≠ .paused then .error .notPaused
  else
    match onTop σ s t b B with
    | .error e => .error e
    | .ok _ => .ok (σ.setBody t b { B with state := .running })

/-- `body_end(stack, body)`: `DL_DELETE(stack->top, body)` removes the body
    from the list (it is the head, by the guard). -/
def bodyEnd (σ : Sys) (s t b : Nat) (B : Body) : Except Err Sys :=
  if B.state ≠ .running then .error .notRunning
  else
    match onTop σ s t b B with
    | .error e => .error e
    | .ok _ =>
      .ok ((σ.setBody t b { B with state := .dead, stack := none }).setStack s
            ((σ.stacks s).erase (t, b)))

/-! ### task.c -/

/-- `task_type_create(info, type_id, label)`.  `gid` is
    `task_get_type_gid(label)` and `fits` says that the label fits in
    `MAX_PCF_LABEL` (both computed outside: string hashing is not modelled). -/
def taskTypeCreate (σ : Sys) (ty gid : Nat) (fits : Bool := true) : Except Err Sys :=
  if (σ.types ty).isSome then .error .typeExists
  else if ty = 0 then .error .typeZero
  else if !fits then .error .labelTooLong
  else .ok (σ.setType ty gid)

/-- `task_create(info, type_id, task_id, flags)` -/
def taskCreate (σ : Sys) (ty t : Nat) (f : TaskFlags) : Except Err Sys :=
  if (σ.tasks t).isSome then .error .taskExists
  else
    match σ.types ty with
    | none => .error .unknownType
    | some gid => .ok (σ.setTask t ⟨t, ty, gid, 0, f⟩)

/-- `create_body(task, body_id)` followed by `body_create`: the caller found no
    body with this id, so the "already exists" guard of `body_create` is dead. -/
def createBody (σ : Sys) (T : Task) (b : Nat) : Except Err (Sys × Body) :=
  if !T.flags.parallel ∧ T.nbodies > 0 then .error .notParallel
  else if b = 0 then .error .bodyZero
  else
    let B : Body := ⟨b, bodyFlagsOf T.flags, .created, none, 0⟩
    .ok ((σ.setBody T.id b B).setTask T.id { T with nbodies := T.nbodies + 1 }, B)

/-- `task_execute(stack, task, body_id)`; `none` = `task == NULL`. -/
def taskExecute (σ : Sys) (s : Nat) (task : Option Task) (b : Nat) : Except Err Sys :=
  match task with
  | none => .error .taskNull
  | some T =>
    match σ.bodies T.id b with
    | some B => bodyExecute σ s T.id b B
    | none =>
      match createBody σ T b with
      | .error e => .error e
      | .ok (σ', B) => bodyExecute σ' s T.id b B

/-- `task_pause(stack, task, body_id)` -/
def taskPause (σ : Sys) (s : Nat) (task : Option Task) (b : Nat) : Except Err Sys :=
  match task with
  | none => .error .taskNull
  | some T =>
    match σ.bodies T.id b with
    | none => .error .bodyNotFound
    | some B => bodyPause σ s T.id b B

/-- `task_resume(stack, task, body_id)` -/
def taskResume (σ : Sys) (s : Nat) (task : Option Task) (b : Nat) : Except Err Sys :=
  match task with
  | none => .error .taskNull
  | some T =>
    match σ.bodies T.id b with
    | none => .error .bodyNotFound
    | some B => bodyResume σ s T.id b B

/-- `task_end(stack, task, body_id)` -/
def taskEnd (σ : Sys) (s : Nat) (task : Option Task) (b : Nat) : Except Err Sys :=
  match task with
  | none => .error .taskNull
  | some T =>
    match σ.bodies T.id b with
    | none => .error .bodyNotFound
    | some B => bodyEnd σ s T.id b B

/-! ### histories over the task module (what the unit harness drives) -/

/-- One call of the task.h API; `t` is looked up with `task_find` first. -/
inductive Op
  | typeCreate (ty gid : Nat)
  | create (ty t : Nat) (f : TaskFlags)
  | exec (s t b : Nat)
  | pause (s t b : Nat)
  | resume (s t b : Nat)
  | end_ (s t b : Nat)
  deriving DecidableEq, Repr

def step (σ : Sys) : Op → Except Err Sys
  | .typeCreate ty gid => taskTypeCreate σ ty gid
  | .create ty t f => taskCreate σ ty t f
  | .exec s t b => taskExecute σ s (σ.tasks t) b
  | .pause s t b => taskPause σ s (σ.tasks t) b
  | .resume s t b => taskResume σ s (σ.tasks t) b
  | .end_ s t b => taskEnd σ s (σ.tasks t) b

/-- Run a history; stops at the first error like the emulator. -/
def run (σ : Sys) : List Op → Except Err Sys
  | [] => .ok σ
  | op :: ops =>
    match step σ op with
    | .error e => .error e
    | .ok σ' => run σ' ops

def accepts (σ : Sys) (ops : List Op) : Bool :=
  match run σ ops with
  | .ok _ => true
  | .error _ => false

/-! ## The callers: `update_task` of nosv/event.c and nanos6/event.c

  One process (`emu->proc`, its `task_info`, app id and rank) with its threads;
  thread `th` owns `task_stack` number `th` and the task channels.  Processes do
  not share anything here, so a trace with several processes is a family of
  independent `Emu` states (the driver keeps one per process). -/

inductive Model
  | nosv | nanos6
  deriving DecidableEq, Repr

/-- `emu->proc->appid` and `emu->proc->rank` (`-1` = no rank). -/
structure ProcInfo where
  appid : Int
  rank : Int
  deriving DecidableEq, Repr

/-- Channel properties and constants of one model: `chan_dup[]` of
    `<model>/setup.c` (regenerated from the source) and `ST_TASK_BODY`. -/
structure Cfg where
  dupTaskid : Bool
  dupType : Bool
  dupBodyid : Bool
  dupAppid : Bool
  dupRank : Bool
  dupSs : Bool
  stTaskBody : Int
  deriving DecidableEq, Repr

/-- nOS-V: channel order `bodyid, taskid, task_type, appid, subsystem, rank, idle`;
    `ST_TASK_BODY` ("Task: In body", 11; regenerated). -/
def Cfg.nosv : Cfg :=
  let d := Ovni.Generated.Nosv.chanDup
  ⟨d.getD 1 false, d.getD 2 false, d.getD 0 false, d.getD 3 false, d.getD 5 false, d.getD 4 false, Ovni.Generated.Nosv.stTaskBody⟩

/-- Nanos6: channel order `taskid, task_type, subsystem, rank, thread_type, idle`;
    no body id / app id channels; `ST_TASK_BODY` ("Task: Running body", 1; regenerated). -/
def Cfg.nanos6 : Cfg :=
  let d := Ovni.Generated.Nanos6.chanDup
  ⟨d.getD 0 false, d.getD 1 false, false, false, d.getD 3 false, d.getD 2 false, Ovni.Generated.Nanos6.stTaskBody⟩

def Model.cfg : Model → Cfg
  | .nosv => Cfg.nosv
  | .nanos6 => Cfg.nanos6

/-- The task channels of a thread; `none` = `value_null()`. -/
structure Chans where
  taskid : Option Int
  typ : Option Int
  bodyid : Option Int
  appid : Option Int
  rank : Option Int
  deriving DecidableEq, Repr

def Chans.null : Chans := ⟨none, none, none, none, none⟩

structure Emu where
  sys : Sys
  ch : Nat → Chans        -- per thread
  ss : Nat → List Int     -- per thread: subsystem channel stack, head = top

def Emu.init : Emu := ⟨Sys.init, fun _ => Chans.null, fun _ => []⟩

/-- `chan_set` on a single-valued channel that was flushed after the previous
    event (`last_value` = current value): refuses an equal value unless
    `CHAN_ALLOW_DUP`. -/
def chanSet (dup : Bool) (cur v : Option Int) : Except Err (Option Int) :=
  if !dup ∧ cur = v then .error .chanDup else .ok v

/-- `chan_push` on a stack channel (`last_value` = current top). -/
def ssPush (dup : Bool) (st : List Int) (v : Int) : Except Err (List Int) :=
  if !dup ∧ st.head? = some v then .error .chanDup
  else if st.length ≥ Ovni.Generated.maxChanStack then .error .ssFull
  else .ok (v :: st)

/-- `chan_pop(chan, expected)` -/
def ssPop (st : List Int) (v : Int) : Except Err (List Int) :=
  match st with
  | [] => .error .ssEmpty
  | x :: r => if x ≠ v then .error .ssMismatch else .ok r

/-- `task_get_running(stack)` together with `body_get_task(body)`. -/
def Sys.runningT (σ : Sys) (s : Nat) : Option (Task × Body) :=
  match σ.running s with
  | none => none
  | some (r, B) =>
    match σ.tasks r.1 with
    | none => none
    | some T => some (T, B)

/-- `chan_body_stopped` (nOS-V) / `chan_task_stopped` (Nanos6) -/
def chanStopped (m : Model) (P : ProcInfo) (c : Chans) : Except Err Chans :=
  let k := m.cfg
  match m with
  | .nosv => do
    let b ← chanSet k.dupBodyid c.bodyid none
    let t ← chanSet k.dupTaskid c.taskid none
    let y ← chanSet k.dupType c.typ none
    let a ← chanSet k.dupAppid c.appid none
    let r ← if P.rank ≥ 0 then chanSet k.dupRank c.rank none else .ok c.rank
    pure ⟨t, y, b, a, r⟩
  | .nanos6 => do
    let t ← chanSet k.dupTaskid c.taskid none
    let y ← chanSet k.dupType c.typ none
    let r ← if P.rank ≥ 0 then chanSet k.dupRank c.rank none else .ok c.rank
    pure ⟨t, y, c.bodyid, c.appid, r⟩

/-- The channel writes shared by `chan_body_running` and `chan_body_switch`
    (nOS-V), `chan_task_running` and `chan_task_switch` (Nanos6). -/
def chanShow (m : Model) (P : ProcInfo) (c : Chans) (T : Task) (B : Body) : Except Err Chans :=
  let k := m.cfg
  match m with
  | .nosv => do
    let b ← chanSet k.dupBodyid c.bodyid (some B.id)
    let t ← chanSet k.dupTaskid c.taskid (some T.id)
    let y ← chanSet k.dupType c.typ (some T.gid)
    let a ← chanSet k.dupAppid c.appid (some P.appid)
    let r ← if P.rank ≥ 0 then chanSet k.dupRank c.rank (some (P.rank + 1)) else .ok c.rank
    pure ⟨t, y, b, a, r⟩
  | .nanos6 => do
    let t ← chanSet k.dupTaskid c.taskid (some T.id)
    let y ← chanSet k.dupType c.typ (some T.gid)
    let r ← if P.rank ≥ 0 then chanSet k.dupRank c.rank (some (P.rank + 1)) else .ok c.rank
    pure ⟨t, y, c.bodyid, c.appid, r⟩

/-- `chan_body_running` / `chan_task_running` -/
def chanRunning (m : Model) (P : ProcInfo) (c : Chans) (next : Option (Task × Body)) :
    Except Err Chans :=
  match next with
  | none => .error .switchNull      -- C would dereference NULL; unreachable
  | some (T, B) =>
    if T.id = 0 then .error .taskIdZero
    else if T.gid = 0 then .error .gidZero
    else if m = .nosv ∧ P.appid ≤ 0 then .error .appidBad
    else chanShow m P c T B

/-- `bprev == bnext` (nOS-V, body pointers) / `prev == next` (Nanos6, task pointers) -/
def samePtr (m : Model) (Tp : Task) (Bp : Body) (T : Task) (B : Body) : Bool :=
  match m with
  | .nosv => Tp.id = T.id ∧ Bp.id = B.id
  | .nanos6 => Tp.id = T.id

/-- `chan_body_switch` (compares bodies) / `chan_task_switch` (compares tasks) -/
def chanSwitch (m : Model) (P : ProcInfo) (c : Chans) (prev next : Option (Task × Body)) :
    Except Err Chans :=
  match prev, next with
  | some (Tp, Bp), some (T, B) =>
    if samePtr m Tp Bp T B then .error .switchSame
    else if T.id = 0 then .error .taskIdZero
    else if T.gid = 0 then .error .gidZero
    else chanShow m P c T B
  | _, _ => .error .switchNull

/-- `emu->ev->v` of a `VT?` / `6T?` state event -/
inductive TaskEv
  | x | e | p | r
  deriving DecidableEq, Repr

/-- The value after `expand_transition_value` -/
inductive Tr
  | x | e | p | r | X | E
  deriving DecidableEq, Repr

/-- The body id rule of `update_task_state`: nOS-V takes it from the payload
    (`> 0` for parallel tasks, `0` otherwise, then 1 internally); Nanos6 always
    uses 1. -/
def bodyIdRule (m : Model) (T : Task) (bp : Nat) : Except Err Nat :=
  match m with
  | .nanos6 => .ok 1
  | .nosv =>
    if T.flags.parallel then (if bp = 0 then .error .bodyIdZero else .ok bp)
    else (if bp ≠ 0 then .error .bodyIdNonzero else .ok 1)

/-- `update_task_state` -/
def updateTaskState (m : Model) (σ : Sys) (th : Nat) (v : TaskEv) (t bp : Nat) : Except Err Sys :=
  match σ.tasks t with
  | none => .error .taskNotFound
  | some T =>
    match bodyIdRule m T bp with
    | .error e => .error e
    | .ok b =>
      match v with
      | .x => taskExecute σ th (some T) b
      | .e => taskEnd σ th (some T) b
      | .p => taskPause σ th (some T) b
      | .r => taskResume σ th (some T) b

/-- `update_task_ss_channel`: push `ST_TASK_BODY` on execute, pop it on end. -/
def updateSs (m : Model) (st : List Int) (v : TaskEv) : Except Err (List Int) :=
  match v with
  | .x => ssPush m.cfg.dupSs st m.cfg.stTaskBody
  | .e => ssPop st m.cfg.stTaskBody
  | _ => .ok st

/-- `expand_transition_value` -/
def expand (v : TaskEv) (wasRunning runsNow : Bool) : Tr :=
  match v with
  | .x => if wasRunning then .X else .x
  | .e => if runsNow then .E else .e
  | .p => .p
  | .r => .r

/-- `update_task_channels` -/
def updateChannels (m : Model) (P : ProcInfo) (c : Chans) (tr : Tr)
    (prev next : Option (Task × Body)) : Except Err Chans :=
  match tr with
  | .x | .r => chanRunning m P c next
  | .e | .p => chanStopped m P c
  | .X | .E => chanSwitch m P c prev next

/-- `enforce_task_rules` -/
def enforceRules (m : Model) (tr : Tr) (next : Option (Task × Body)) (st : List Int) :
    Except Err Unit :=
  if tr ≠ .x ∧ tr ≠ .X then .ok ()
  else
    match next with
    | none => .error .notRunningOnBegin
    | some (_, B) =>
      if B.state ≠ .running then .error .notRunningOnBegin
      else
        match st.head? with
        | some v => if v ≠ m.cfg.stTaskBody then .error .wrongSs else .ok ()
        | none => .ok ()

def updFn {α : Type} (f : Nat → α) (i : Nat) (x : α) : Nat → α := fun j => if j = i then x else f j

/-- `update_task` -/
def updateTask (m : Model) (P : ProcInfo) (ε : Emu) (th : Nat) (v : TaskEv) (t bp : Nat) :
    Except Err Emu := do
  let prev := ε.sys.runningT th
  let sys' ← updateTaskState m ε.sys th v t bp
  let next := sys'.runningT th
  let ss' ← updateSs m (ε.ss th) v
  let tr := expand v prev.isSome next.isSome
  let ch' ← updateChannels m P (ε.ch th) tr prev next
  enforceRules m tr next ss'
  pure { sys := sys', ch := updFn ε.ch th ch', ss := updFn ε.ss th ss' }

/-- Flags given by `create_task`: nOS-V `VTc` → resurrect + pause, `VTC` →
    parallel only; Nanos6 `6Tc` → pause + relaxed nesting. -/
def createFlags (m : Model) (par : Bool) : TaskFlags :=
  match m with
  | .nosv => if par then ⟨true, false, false, false⟩ else ⟨false, true, true, false⟩
  | .nanos6 => ⟨false, false, true, true⟩

/-- `PCF_RESERVED` (pv/pcf.h) -/
def pcfReserved : Nat := 1000

/-- The arithmetic of `task_get_type_gid` after the string hash `h`
    (`HASH_VALUE`, 32 bit): `gid += 666; gid &= 0x7FFFFFFF; if (gid < PCF_RESERVED) gid += PCF_RESERVED`. -/
def gidOf (h : Nat) : Nat :=
  let g := (h + 666) % 2 ^ 32 % 2 ^ 31
  if g < pcfReserved then g + pcfReserved else g

/-- Events of one process as the model handlers see them. -/
inductive Ev
  /-- `VYc` / `6Yc` (jumbo): type id, hash of the (defaulted) label, label fits -/
  | typeCreate (ty hash : Nat) (fits : Bool)
  /-- `VTc` (`par = false`), `VTC` (`par = true`), `6Tc` (`par = false`), old `6TC` (`par = true`, ignored) -/
  | taskCreate (par : Bool) (t ty : Nat)
  /-- `VTx VTe VTp VTr` with payload (task id, body id); `6Tx …` with payload task id -/
  | task (th : Nat) (v : TaskEv) (t bp : Nat)
  /-- any other event of the model that pushes / pops the subsystem channel of thread `th` -/
  | ssPush (th : Nat) (v : Int)
  | ssPop (th : Nat) (v : Int)
  deriving DecidableEq, Repr

/-- `pre_type`, `pre_task` (`create_task` / `update_task`) and `simple` -/
def Emu.step (m : Model) (P : ProcInfo) (ε : Emu) : Ev → Except Err Emu
  | .typeCreate ty h fits =>
    match taskTypeCreate ε.sys ty (gidOf h) fits with
    | .error e => .error e
    | .ok σ => .ok { ε with sys := σ }
  | .taskCreate par t ty =>
    if m = .nanos6 ∧ par then .ok ε
    else
      match taskCreate ε.sys ty t (createFlags m par) with
      | .error e => .error e
      | .ok σ => .ok { ε with sys := σ }
  | .task th v t bp => updateTask m P ε th v t bp
  | .ssPush th v =>
    match ssPush m.cfg.dupSs (ε.ss th) v with
    | .error e => .error e
    | .ok st => .ok { ε with ss := updFn ε.ss th st }
  | .ssPop th v =>
    match ssPop (ε.ss th) v with
    | .error e => .error e
    | .ok st => .ok { ε with ss := updFn ε.ss th st }

def Emu.run (m : Model) (P : ProcInfo) (ε : Emu) : List Ev → Except Err Emu
  | [] => .ok ε
  | ev :: evs =>
    match Emu.step m P ε ev with
    | .error e => .error e
    | .ok ε' => Emu.run m P ε' evs

/-- `end_lint` of the model's finish in linter mode (`ovniemu -l`): no thread
    may end with stacked subsystem states.  `ths` = the threads of the trace. -/
def Emu.lintOk (ε : Emu) (ths : List Nat) : Bool := ths.all fun th => (ε.ss th).isEmpty

end Ovni.Task
