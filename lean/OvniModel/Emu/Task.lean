/-
  Model of src/emu/body.c + body.h and src/emu/task.c + task.h as pure values.

  Pointers become keys: a task is named by its id (the key of `task_info.tasks`),
  a body by the pair (task id, body id) (the key of `task->body_info.bodies`),
  a `struct body_stack` / `struct task_stack` by a natural number (in the
  emulator: the thread that owns it).  The hash tables (uthash) are finite maps,
  modelled as functions `Nat → Option _`; the doubly linked list `stack->top`
  is a `List` whose head is `stack->top`.

  Every guard of the C functions is one branch, in the same order, returning an
  error class.  The emulator aborts on the first error, so a failed operation
  returns no state (C leaves partial mutations behind, e.g. the freshly created
  body of a failed `task_execute`; nobody can observe them).
-/
namespace Ovni.Task

/-- `enum body_state` -/
inductive BodyState
  | created | running | paused | dead
  deriving DecidableEq, Repr, Inhabited

/-- `enum task_flags` (task.h), one Bool per bit. -/
structure TaskFlags where
  parallel : Bool   -- TASK_FLAG_PARALLEL      (1 << 0)
  resurrect : Bool  -- TASK_FLAG_RESURRECT     (1 << 1)
  pause : Bool      -- TASK_FLAG_PAUSE         (1 << 2)
  relax : Bool      -- TASK_FLAG_RELAX_NESTING (1 << 3)
  deriving DecidableEq, Repr, Inhabited

/-- `enum body_flags` (body.h), one Bool per bit. -/
structure BodyFlags where
  pause : Bool      -- BODY_FLAG_PAUSE         (1 << 0)
  resurrect : Bool  -- BODY_FLAG_RESURRECT     (1 << 1)
  relax : Bool      -- BODY_FLAG_RELAX_NESTING (1 << 2)
  deriving DecidableEq, Repr, Inhabited

def TaskFlags.ofNat (n : Nat) : TaskFlags :=
  ⟨n % 2 = 1, n / 2 % 2 = 1, n / 4 % 2 = 1, n / 8 % 2 = 1⟩

def TaskFlags.toNat (f : TaskFlags) : Nat :=
  (if f.parallel then 1 else 0) + (if f.resurrect then 2 else 0)
    + (if f.pause then 4 else 0) + (if f.relax then 8 else 0)

def BodyFlags.toNat (f : BodyFlags) : Nat :=
  (if f.pause then 1 else 0) + (if f.resurrect then 2 else 0) + (if f.relax then 4 else 0)

/-- The flag translation at the top of `create_body` (task.c). -/
def bodyFlagsOf (f : TaskFlags) : BodyFlags :=
  { relax := f.relax, resurrect := f.resurrect, pause := f.pause }

/-- `struct body` (private to body.c).  `stack` is `body->stack` (`none` = NULL). -/
structure Body where
  id : Nat
  flags : BodyFlags
  state : BodyState
  stack : Option Nat
  iteration : Nat
  deriving DecidableEq, Repr

/-- `struct task`; `type` is the pointer to the (immutable) `struct task_type`,
    kept as its id and gid. -/
structure Task where
  id : Nat
  typeId : Nat
  gid : Nat
  nbodies : Nat
  flags : TaskFlags
  deriving DecidableEq, Repr

/-- (task id, body id) -/
abbrev Ref := Nat × Nat

/-- One `struct task_info` (types and tasks of a process) with the bodies of
    its tasks, and all the `struct task_stack`s that run its tasks. -/
structure Sys where
  types : Nat → Option Nat            -- type id ↦ gid
  tasks : Nat → Option Task
  bodies : Nat → Nat → Option Body    -- task id ↦ body id ↦ body
  stacks : Nat → List Ref             -- head = `stack->top`

def Sys.init : Sys := ⟨fun _ => none, fun _ => none, fun _ _ => none, fun _ => []⟩

inductive Err
  -- task.c
  | taskExists | unknownType | typeExists | typeZero | labelTooLong
  | taskNull | notParallel | bodyNotFound
  -- body.c
  | bodyZero | bodyExists
  | noResurrect | execPaused | notCreated | stackSet | nestRunning
  | noPause | notRunning | notPaused | stackUnset | otherStack | notTop
  -- nosv/event.c, nanos6/event.c
  | taskNotFound | bodyIdZero | bodyIdNonzero | taskIdZero | gidZero | appidBad
  | chanDup | ssFull | ssEmpty | ssMismatch | switchNull | switchSame
  | notRunningOnBegin | wrongSs | payload
  deriving DecidableEq, Repr

/-! ### setters -/

def Sys.setType (σ : Sys) (ty gid : Nat) : Sys :=
  { σ with types := fun i => if i = ty then some gid else σ.types i }

def Sys.setTask (σ : Sys) (t : Nat) (T : Task) : Sys :=
  { σ with tasks := fun i => if i = t then some T else σ.tasks i }

def Sys.setBody (σ : Sys) (t b : Nat) (B : Body) : Sys :=
  { σ with bodies := fun i j => if i = t ∧ j = b then some B else σ.bodies i j }

def Sys.setStack (σ : Sys) (s : Nat) (l : List Ref) : Sys :=
  { σ with stacks := fun i => if i = s then l else σ.stacks i }

/-! ### body.c -/

/-- `body_get_top` / `task_get_top` -/
def Sys.top (σ : Sys) (s : Nat) : Option Ref := (σ.stacks s).head?

/-- `body_get_running` / `task_get_running`: the top body if its state is
    Running.  (The list holds keys, not pointers: a key without a body cannot
    occur, see `Inv`; it reads as "nothing running".) -/
def Sys.running (σ : Sys) (s : Nat) : Option (Ref × Body) :=
  match (σ.stacks s).head? with
  | none => none
  | some r =>
    match σ.bodies r.1 r.2 with
    | none => none
    | some B => if B.state = .running then some (r, B) else none

/-- The resurrection block at the top of `body_execute`. -/
def resurrect (B : Body) : Except Err Body :=
  if B.state = .dead then
    if B.flags.resurrect then .ok { B with state := .created, iteration := B.iteration + 1 }
    else .error .noResurrect
  else .ok B

/-- The nesting test of `body_execute`: `top = body_get_running(stack)`; a
    running top is tolerated only with `BODY_FLAG_RELAX_NESTING` (warning). -/
def nestGuard (σ : Sys) (s : Nat) : Except Err Unit :=
  match σ.running s with
  | none => .ok ()
  | some (_, top) => if top.flags.relax then .ok () else .error .nestRunning

/-- `body_execute(stack, body)`; `body` is the body stored at `(t, b)`. -/
def bodyExecute (σ : Sys) (s t b : Nat) (B : Body) : Except Err Sys :=
  match resurrect B with
  | .error e => .error e
  | .ok B =>
    if B.state = .paused then .error .execPaused
    else if B.state ≠ .created then .error .notCreated
    else if B.stack ≠ none then .error .stackSet
    else
      match nestGuard σ s with
      | .error e => .error e
      | .ok _ =>
        .ok ((σ.setBody t b { B with stack := some s, state := .running }).setStack s
              ((t, b) :: σ.stacks s))

/-- The four guards shared by `body_pause`, `body_resume` and `body_end` after
    the state test: `body->stack == NULL`, `body->stack != stack`,
    `stack->top != body`. -/
def onTop (σ : Sys) (s t b : Nat) (B : Body) : Except Err Unit :=
  match B.stack with
  | none => .error .stackUnset
  | some s' =>
    if s' ≠ s then .error .otherStack
    else if σ.top s ≠ some (t, b) then .error .notTop
    else .ok ()

/-- `body_pause(stack, body)` -/
def bodyPause (σ : Sys) (s t b : Nat) (B : Body) : Except Err Sys :=
  if !B.flags.pause then .error .noPause
  else if B.state ≠ .running then .error .notRunning
  else
    match onTop σ s t b B with
    | .error e => .error e
    | .ok _ => .ok (σ.setBody t b { B with state := .paused })

/-- `body_resume(stack, body)` -/
def bodyResume (σ : Sys) (s t b : Nat) (B : Body) : Except Err Sys :=
  if B.state ≠ .paused then .error .notPaused
  else
    match onTop σ s t b B with
    | .error e => .error e
    | .ok _ => .ok (σ.setBody t b { B with state := .running })

/-- `body_end(stack, body)`: `DL_DELETE(stack->top, body)` removes the body
    from the list (it is the head, by the guard). -/
def bodyEnd (σ : Sys) (s t b : Nat) (B : Body) : Except Err Sys :=
  if B.state ≠ .running then .error .notRunning
  else
    match onTop σ s t b B with
    | .error e => .error e
    | .ok _ =>
      .ok ((σ.setBody t b { B with state := .dead, stack := none }).setStack s
            ((σ.stacks s).erase (t, b)))

/-! ### task.c -/

/-- `task_type_create(info, type_id, label)`.  `gid` is
    `task_get_type_gid(label)` and `fits` says that the label fits in
    `MAX_PCF_LABEL` (both computed outside: string hashing is not modelled). -/
def taskTypeCreate (σ : Sys) (ty gid : Nat) (fits : Bool := true) : Except Err Sys :=
  if (σ.types ty).isSome then .error .typeExists
  else if ty = 0 then .error .typeZero
  else if !fits then .error .labelTooLong
  else .ok (σ.setType ty gid)

/-- `task_create(info, type_id, task_id, flags)` -/
def taskCreate (σ : Sys) (ty t : Nat) (f : TaskFlags) : Except Err Sys :=
  if (σ.tasks t).isSome then .error .taskExists
  else
    match σ.types ty with
    | none => .error .unknownType
    | some gid => .ok (σ.setTask t ⟨t, ty, gid, 0, f⟩)

/-- `create_body(task, body_id)` followed by `body_create`: the caller found no
    body with this id, so the "already exists" guard of `body_create` is dead. -/
def createBody (σ : Sys) (T : Task) (b : Nat) : Except Err (Sys × Body) :=
  if !T.flags.parallel ∧ T.nbodies > 0 then .error .notParallel
  else if b = 0 then .error .bodyZero
  else
    let B : Body := ⟨b, bodyFlagsOf T.flags, .created, none, 0⟩
    .ok ((σ.setBody T.id b B).setTask T.id { T with nbodies := T.nbodies + 1 }, B)

/-- `task_execute(stack, task, body_id)`; `none` = `task == NULL`. -/
def taskExecute (σ : Sys) (s : Nat) (task : Option Task) (b : Nat) : Except Err Sys :=
  match task with
  | none => .error .taskNull
  | some T =>
    match σ.bodies T.id b with
    | some B => bodyExecute σ s T.id b B
    | none =>
      match createBody σ T b with
      | .error e => .error e
      | .ok (σ', B) => bodyExecute σ' s T.id b B

/-- `task_pause(stack, task, body_id)` -/
def taskPause (σ : Sys) (s : Nat) (task : Option Task) (b : Nat) : Except Err Sys :=
  match task with
  | none => .error .taskNull
  | some T =>
    match σ.bodies T.id b with
    | none => .error .bodyNotFound
    | some B => bodyPause σ s T.id b B

/-- `task_resume(stack, task, body_id)` -/
def taskResume (σ : Sys) (s : Nat) (task : Option Task) (b : Nat) : Except Err Sys :=
  match task with
  | none => .error .taskNull
  | some T =>
    match σ.bodies T.id b with
    | none => .error .bodyNotFound
    | some B => bodyResume σ s T.id b B

/-- `task_end(stack, task, body_id)` -/
def taskEnd (σ : Sys) (s : Nat) (task : Option Task) (b : Nat) : Except Err Sys :=
  match task with
  | none => .error .taskNull
  | some T =>
    match σ.bodies T.id b with
    | none => .error .bodyNotFound
    | some B => bodyEnd σ s T.id b B

/-! ### histories over the task module (what the unit harness drives) -/

/-- One call of the task.h API; `t` is looked up with `task_find` first. -/
inductive Op
  | typeCreate (ty gid : Nat)
  | create (ty t : Nat) (f : TaskFlags)
  | exec (s t b : Nat)
  | pause (s t b : Nat)
  | resume (s t b : Nat)
  | end_ (s t b : Nat)
  deriving DecidableEq, Repr

def step (σ : Sys) : Op → Except Err Sys
  | .typeCreate ty gid => taskTypeCreate σ ty gid
  | .create ty t f => taskCreate σ ty t f
  | .exec s t b => taskExecute σ s (σ.tasks t) b
  | .pause s t b => taskPause σ s (σ.tasks t) b
  | .resume s t b => taskResume σ s (σ.tasks t) b
  | .end_ s t b => taskEnd σ s (σ.tasks t) b

/-- Run a history; stops at the first error like the emulator. -/
def run (σ : Sys) : List Op → Except Err Sys
  | [] => .ok σ
  | op :: ops =>
    match step σ op with
    | .error e => .error e
    | .ok σ' => run σ' ops

def accepts (σ : Sys) (ops : List Op) : Bool :=
  match run σ ops with
  | .ok _ => true
  | .error _ => false

end Ovni.Task
