import OvniModel.Emu.Prv
import OvniModel.Emu.Bay

/-
  The emit side of the patch bay (src/emu/pv/prv.c `prv_register`, `cb_prv`,
  `emit`; src/emu/bay.c `bay_propagate`, second loop; src/emu/model_pvt.c
  `connect_thread_prv` / `connect_cpu_prv`).

  `prv_register(prv, row, type, bay, chan, flags)` allocates a `struct
  prv_chan` (row, type, flags, `last_value`, `last_value_set`) and adds
  `cb_prv` as a `BAY_CB_EMIT` callback of the channel.  `bay_propagate`, after
  the dirty phase, walks the dirty list again and calls the emit callbacks of
  every dirty channel; `cb_prv` = `emit`, which reads the channel, applies the
  duplicate rules and writes one line at the current time of the file
  (`PrvFile.write`, Emu/Prv.lean).

  The registrations are a table `List PrvReg` (a `prv_chan` is named by its
  position); the mutable part, `last_value` / `last_value_set` of every
  registration, is a `List (Option Value)` (`none` = `last_value_set == 0`).
-/
namespace Ovni.Emu
open Ovni.Generated

/-- flag test `flags & f` for a single-bit `f` (same arithmetic as `prvValue`) -/
def hasFlag (flags f : Nat) : Bool := (flags / f) % 2 = 1

/-- `struct prv_chan`, the part fixed by `prv_register`. -/
structure PrvReg where
  /-- bay id of `rchan->chan` -/
  chan : Nat
  /-- 0 = thread.prv, 1 = cpu.prv (`rchan->prv`) -/
  file : Nat
  /-- `row_base1` -/
  row : Nat
  type : Nat
  flags : Nat
deriving DecidableEq, Repr

/-- `check_flags`: EMITDUP, SKIPDUP and SKIPDUPNULL are mutually exclusive. -/
def checkFlags (flags : Nat) : Bool :=
  !(hasFlag flags prvEmitDup && hasFlag flags prvSkipDupNull) &&
  !(hasFlag flags prvEmitDup && hasFlag flags prvSkipDup) &&
  !(hasFlag flags prvSkipDup && hasFlag flags prvSkipDupNull)

/-- `prv_register`: the (row, type) of the file must be free, the flags
    consistent, the channel registered in the bay (`bay_add_cb`). -/
def prvRegister (b : Bay) (regs : List PrvReg) (r : PrvReg) : Except Err (List PrvReg) :=
  if regs.any (fun q => q.file = r.file && q.row = r.row && q.type = r.type) then .error .other
  else if !checkFlags r.flags then .error .other
  else if r.chan < b.chans.length then .ok (regs ++ [r]) else .error .other

/-- The line `write_line` produces for a registration and a converted value. -/
def PrvReg.line (r : PrvReg) (x : Int) : PrvRec := ⟨r.file, r.row, r.type, x⟩

/-- Tail of `emit`: value conversion (`PRV_NEXT`, "forbidden value 0" without
    `PRV_ZERO`) and `write_line`; `lv'` is `last_value` after the call. -/
def emitWrite (r : PrvReg) (lv' : Option Value) (v : Value) : Except Err (Option Value × List PrvRec) :=
  match prvValue r.flags v with
  | .error e => .error e
  | .ok x => .ok (lv', [r.line x])

/-- `emit(prv, rchan)`: `lv` is `last_value` (`none`: not set), `v` the value
    `chan_read` returns.  Result: the new `last_value` and the lines written.
    Without `PRV_EMITDUP` a duplicate (`last_value_set && value == last_value`)
    is skipped with `PRV_SKIPDUP`, skipped when null with `PRV_SKIPDUPNULL`, an
    error otherwise ("error duplicated value"); `last_value` is only updated
    without `PRV_EMITDUP`. -/
def emitOne (r : PrvReg) (lv : Option Value) (v : Value) : Except Err (Option Value × List PrvRec) :=
  if hasFlag r.flags prvEmitDup then emitWrite r lv v
  else if lv = some v then
    if hasFlag r.flags prvSkipDup then .ok (lv, [])
    else if hasFlag r.flags prvSkipDupNull then
      (if v = .null then .ok (lv, []) else emitWrite r (some v) v)
    else .error .other
  else emitWrite r (some v) v

/-- The `BAY_CB_EMIT` callbacks of channel `c`, in `bay_add_cb` (= registration) order. -/
def emitIdx (regs : List PrvReg) (c : Nat) : List Nat :=
  (List.range regs.length).filter fun j =>
    match regs[j]? with
    | some r => r.chan = c
    | none => false

/-- The callbacks the second loop of `bay_propagate` calls, in call order:
    dirty channels in dirty-list order, per channel in registration order. -/
def Bay.emitSeq (b : Bay) (regs : List PrvReg) : List Nat := b.dirty.flatMap (emitIdx regs)

/-- Run the emit callbacks `js` in order on bay `b` (the state after the dirty
    phase).  Lines are tagged with the registration that wrote them; the first
    failing callback aborts `bay_propagate`. -/
def emitWalk (regs : List PrvReg) (b : Bay) :
    List Nat → List (Option Value) → Except Err (List (Option Value) × List (Nat × PrvRec))
  | [], lvs => .ok (lvs, [])
  | j :: js, lvs =>
    match regs[j]? with
    | none => .error .other
    | some r =>
      match emitOne r (lvs.getD j none) (b.chan r.chan).cur with
      | .error e => .error e
      | .ok (lv', ls) =>
        match emitWalk regs b js (lvs.set j lv') with
        | .error e => .error e
        | .ok (lvs', ls') => .ok (lvs', ls.map (fun l => (j, l)) ++ ls')

/-- `bay_propagate` with the PRV callbacks: dirty phase, emit phase, flush.
    Returns the flushed bay, the new `last_value`s and the lines written (in
    file order). -/
def Bay.propagateP (b : Bay) (regs : List PrvReg) (lvs : List (Option Value)) :
    Except Err (Bay × List (Option Value) × List (Nat × PrvRec)) :=
  match b.dirtyPhase b.chans.length 0 with
  | .error e => .error e
  | .ok b1 =>
    match emitWalk regs b1 (b1.emitSeq regs) lvs with
    | .error e => .error e
    | .ok (lvs', ls) =>
      match Bay.flushList b1.dirty b1 with
      | .error e => .error e
      | .ok b2 => .ok ({ b2 with dirty := [] }, lvs', ls)

/-! ### what a Paraver row shows

`tvs[j]` is the value of the last line written for registration `j` (0 when
none was written: Paraver shows 0 = "no value" from the start).  A line is
*effective* when it changes what its row shows; the others repeat the current
value (they are legal Paraver and invisible in a timeline). -/

def effective (tvs : List Int) (x : Nat × PrvRec) : Bool := x.2.value != tvs.getD x.1 0

/-- the rows after the lines of one event -/
def tvStep (tvs : List Int) : List (Nat × PrvRec) → List Int
  | [] => tvs
  | x :: xs => tvStep (tvs.set x.1 x.2.value) xs

end Ovni.Emu

namespace Ovni.Emu
open Ovni.Generated

/-! ### `records` (View.lean) split into system rows and model rows

A thread / CPU row of `records` is three `emitRaw` records of system channels
(thread: cpu, tid, state; CPU: pid, tid, nrunning) followed by one `emitView`
per model channel.  The model part is what the tracking muxes feed. -/

def thSysList (t : Thread) : List (Except Err (List PrvRec)) :=
  [emitRaw 0 (t.gindex + 1) prvThreadCpu prvNext t.chCpu,
   emitRaw 0 (t.gindex + 1) prvThreadTid 0 t.chTid,
   emitRaw 0 (t.gindex + 1) prvThreadState prvSkipDup t.chState]

def thViewList (specs : List ModelSpec) (told t : Thread) : List (Except Err (List PrvRec)) :=
  specs.flatMap fun m => (List.range m.nch).map fun i =>
    emitView 0 (t.gindex + 1) (m.pvtType.getD i 0) (m.prvFlags.getD i 0) (thView told m i) (thView t m i)

def cpuSysList (c : Cpu) : List (Except Err (List PrvRec)) :=
  [emitRaw 1 (c.gindex + 1) prvCpuPid 0 c.chPid,
   emitRaw 1 (c.gindex + 1) prvCpuTid 0 c.chTid,
   emitRaw 1 (c.gindex + 1) prvCpuNrun prvZero c.chNrun]

def cpuViewList (specs : List ModelSpec) (old new : Emu) (cold c : Cpu) : List (Except Err (List PrvRec)) :=
  specs.flatMap fun m => (List.range m.nch).map fun i =>
    emitView 1 (c.gindex + 1) (m.pvtType.getD i 0) (m.prvFlags.getD i 0) (cpuView old cold m i) (cpuView new c m i)

/-- the system-row records of a step: dirty system channels of the new state -/
def sysRecords (new : Emu) : Except Err (List PrvRec) :=
  collect (new.threads.flatMap thSysList ++ new.cpus.flatMap cpuSysList)

/-- the model-row records of a step: every thread / CPU view that changed -/
def viewRecords (old new : Emu) : Except Err (List PrvRec) :=
  collect (new.threads.flatMap (fun t => thViewList new.specs (old.threads.getD t.gindex t) t) ++
           new.cpus.flatMap (fun c => cpuViewList new.specs old new (old.cpus.getD c.gindex c) c))

end Ovni.Emu

namespace Ovni.Emu
open Ovni.Generated

/-! ### the emit callbacks of the system channels

thread.c `thread_connect` / cpu.c `cpu_connect` register the thread's `cpu`
(`PRV_NEXT`), `tid`, state (`PRV_SKIPDUP`) and the CPU's `pid`, `tid`,
`nrunning` (`PRV_ZERO`) channels.  These channels live in the `Thread` / `Cpu`
records of the reference emulator, not in the `Bay` model (no mux reads them
except the state channel and `th_running`); their callback is `emitOne` on the
record's channel.  `last_value`s: one triple per thread / CPU. -/

abbrev Lv3 := Option Value × Option Value × Option Value

/-- `cb_prv` of a registered system channel when `bay_propagate` reaches it -/
def emitSys1 (r : PrvReg) (ch : Chan) (lv : Option Value) : Except Err (Option Value × List PrvRec) :=
  if ch.dirty then emitOne r lv ch.cur else .ok (lv, [])

def thSysEmit (t : Thread) (l : Lv3) : Except Err (Lv3 × List PrvRec) :=
  match emitSys1 ⟨0, 0, t.gindex + 1, prvThreadCpu, prvNext⟩ t.chCpu l.1 with
  | .error e => .error e
  | .ok (a, la) =>
    match emitSys1 ⟨0, 0, t.gindex + 1, prvThreadTid, 0⟩ t.chTid l.2.1 with
    | .error e => .error e
    | .ok (b, lb) =>
      match emitSys1 ⟨0, 0, t.gindex + 1, prvThreadState, prvSkipDup⟩ t.chState l.2.2 with
      | .error e => .error e
      | .ok (c, lc) => .ok ((a, b, c), la ++ (lb ++ (lc ++ [])))

def cpuSysEmit (x : Cpu) (l : Lv3) : Except Err (Lv3 × List PrvRec) :=
  match emitSys1 ⟨0, 1, x.gindex + 1, prvCpuPid, 0⟩ x.chPid l.1 with
  | .error e => .error e
  | .ok (a, la) =>
    match emitSys1 ⟨0, 1, x.gindex + 1, prvCpuTid, 0⟩ x.chTid l.2.1 with
    | .error e => .error e
    | .ok (b, lb) =>
      match emitSys1 ⟨0, 1, x.gindex + 1, prvCpuNrun, prvZero⟩ x.chNrun l.2.2 with
      | .error e => .error e
      | .ok (c, lc) => .ok ((a, b, c), la ++ (lb ++ (lc ++ [])))

/-- the callbacks of a list of rows, in row order (the call order is the
    dirty-list order; every callback only touches its own `last_value`) -/
def rowsEmit {α} (f : α → Lv3 → Except Err (Lv3 × List PrvRec)) : List α → List Lv3 → Except Err (List Lv3 × List PrvRec)
  | [], _ => .ok ([], [])
  | a :: as, ls =>
    match f a (ls.headD (none, none, none)) with
    | .error e => .error e
    | .ok (l', r) =>
      match rowsEmit f as ls.tail with
      | .error e => .error e
      | .ok (ls', rs) => .ok (l' :: ls', r ++ rs)

/-- all system-channel callbacks of one `bay_propagate`, on the channels of `e'` -/
def sysEmit (e' : Emu) (tl cl : List Lv3) : Except Err (List Lv3 × List Lv3 × List PrvRec) :=
  match rowsEmit thSysEmit e'.threads tl with
  | .error e => .error e
  | .ok (tl', r1) =>
    match rowsEmit cpuSysEmit e'.cpus cl with
    | .error e => .error e
    | .ok (cl', r2) => .ok (tl', cl', r1 ++ r2)

end Ovni.Emu
