import OvniModel.Emu.Sort
import OvniModel.Generated.Nosv
import OvniModel.Generated.Nanos6

/-!
# Model of the breakdown patch-bay (`src/emu/nosv/breakdown.c`,
# `src/emu/nanos6/breakdown.c`, with `mux.c` / `bay.c` / `chan.c` semantics)

Per physical CPU the emulator connects

```
 subsystem -+--> mux0 (select = subsystem, select_tr) --> tr --+
 task_type ----> (input 1)                                     +--> mux1 (select = idle, select_idle) --> tri --> sort input
 idle ---------------------------------------------------------+
```

The two files differ only in names and constants, so the model is
parametrised by `Consts`.  No Mathlib.
-/
namespace Ovni.Emu.Breakdown
open Ovni.Emu.Sort (Value)

/-- The three enum constants the select functions compare against. -/
structure Consts where
  taskBody : Int      -- ST_TASK_BODY
  unknownSs : Int     -- ST_UNKNOWN_SS
  progressing : Int   -- ST_PROGRESSING
  deriving Repr

/-- `nosv_priv.h` -/
def nosv : Consts := ⟨Ovni.Generated.Nosv.stTaskBody, Ovni.Generated.Nosv.stUnknownSs, Ovni.Generated.Nosv.stProgressing⟩
/-- `nanos6_priv.h` -/
def nanos6 : Consts := ⟨Ovni.Generated.Nanos6.stTaskBody, Ovni.Generated.Nanos6.stUnknownSs, Ovni.Generated.Nanos6.stProgressing⟩

/-- `struct mux` as observable: which input callback is enabled
    (`mux->selected` / `input->cb->enabled`; `none` = no input enabled, the
    state after `mux_init` and after a `NULL` selection) and the value last
    written to the output channel.  `evaluated` is ghost state: `cb_select`
    has run at least once. -/
structure Mux where
  selected : Option Nat
  out : Value
  evaluated : Bool
  deriving Repr, DecidableEq

/-- `mux_init` + `chan_init` of the output. -/
def Mux.init : Mux := ⟨none, .null, false⟩

/-- `cb_select` (mux.c:58-111) after `select_func` returned `choice`:
    enable that input, output := its current value, or `mux->def` if `NULL`. -/
def Mux.cbSelect (dflt : Value) (choice : Option Nat) (ins : List Value) : Mux :=
  match choice with
  | none => ⟨none, dflt, true⟩
  | some i => ⟨some i, ins.getD i .null, true⟩

/-- `cb_input` (mux.c:114-137) of input `i`; it is enabled only while selected. -/
def Mux.cbInput (m : Mux) (i : Nat) (v : Value) : Mux :=
  if m.selected = some i then { m with out := v } else m

/-- `select_tr` (breakdown.c:124-168). `value` is the select channel's value,
    `ins` the current values of input 0 (subsystem) and input 1 (task_type),
    read with `chan_read` *at selection time*.  `none` = `*input = NULL`. -/
def selectTr (k : Consts) (value : Value) (ins : List Value) : Option Nat :=
  let inBody0 : Bool := decide (value = .int k.taskBody)
  /- Only show task type if we have a task -/
  let inBody : Bool := if inBody0 then (if ins.getD 1 .null = .null then false else true) else false
  if !inBody then
    /- Only select ss if not NULL -/
    if ins.getD 0 .null = .null then none else some 0
  else some 1

/-- `select_idle` (breakdown.c:170-184). -/
def selectIdle (k : Consts) (value : Value) : Option Nat :=
  if value = .int k.progressing then some 0 else some 1

/-- The breakdown part of one physical CPU: current values of the three CPU
    track channels, the two muxes (`mux0.out` is channel `tr`, `mux1.out` is
    `tri`) and `seen`, the value of `tri` that `sort_cb_input` last read for
    this CPU. -/
structure Cpu where
  ss : Value
  tt : Value
  idle : Value
  mux0 : Mux
  mux1 : Mux
  seen : Value
  deriving Repr, DecidableEq

def Cpu.init : Cpu := ⟨.null, .null, .null, Mux.init, Mux.init, .null⟩

abbrev Cpu.tr (c : Cpu) : Value := c.mux0.out
abbrev Cpu.tri (c : Cpu) : Value := c.mux1.out

/-- The channels of one CPU's breakdown graph. -/
inductive Ch where
  | ss | tt | idle | tr | tri
  deriving DecidableEq, Repr

/-- The channels written from outside (outputs of the CPU track muxes). -/
inductive Src where
  | ss | tt | idle
  deriving DecidableEq, Repr

def Src.ch : Src → Ch
  | .ss => .ss | .tt => .tt | .idle => .idle

/-- `propagate_chan(bchan, BAY_CB_DIRTY)` for one dirty channel: run its
    enabled callbacks in list order.  Returns the new state and the channels
    `chan_set` by those callbacks.
    * `ss`: `mux0.cb_select` (registered by `mux_init`, always enabled), then
      input 0's `cb_input` if it is (now) enabled — it rewrites the same value;
    * `tt`: input 1's `cb_input` if enabled;
    * `idle`: `mux1.cb_select`, then input 1's `cb_input` if enabled (same value);
    * `tr`: `mux1` input 0's `cb_input` if enabled;
    * `tri`: `sort_cb_input` of this CPU. -/
def fire (k : Consts) (c : Cpu) : Ch → Cpu × List Ch
  | .ss =>
    let ins := [c.ss, c.tt]
    let m := (Mux.cbSelect (.int k.unknownSs) (selectTr k c.ss ins) ins).cbInput 0 c.ss
    ({ c with mux0 := m }, [.tr])
  | .tt =>
    if c.mux0.selected = some 1 then ({ c with mux0 := c.mux0.cbInput 1 c.tt }, [.tr]) else (c, [])
  | .idle =>
    let ins := [c.mux0.out, c.idle]
    let m := (Mux.cbSelect .null (selectIdle k c.idle) ins).cbInput 1 c.idle
    ({ c with mux1 := m }, [.tri])
  | .tr =>
    if c.mux1.selected = some 0 then ({ c with mux1 := c.mux1.cbInput 0 c.mux0.out }, [.tri]) else (c, [])
  | .tri => ({ c with seen := c.mux1.out }, [])

/-- `bay_propagate`'s dirty phase restricted to one CPU: walk the dirty list
    `todo` front to back; a `chan_set` on a channel that is not yet dirty
    appends it (`cb_chan_is_dirty`), one on a channel already dirty only
    updates its value (`CHAN_DIRTY_WRITE`): *its callbacks are not run again*.
    `dirty` = every channel put on the list so far.  Fuel 5 = number of
    channels (each is processed at most once). -/
def propagate (k : Consts) : Nat → List Ch → List Ch → Cpu → Cpu
  | 0, _, _, c => c
  | _ + 1, [], _, c => c
  | fuel + 1, ch :: rest, dirty, c =>
    let r := fire k c ch
    let new := r.2.filter (fun x => !dirty.contains x)
    propagate k fuel (rest ++ new) (dirty ++ new) r.1

/-- First occurrences, in order (a second `chan_set` on a dirty channel does
    not re-append it). -/
def dedup : List Src → List Src
  | [] => []
  | a :: l => a :: (dedup l).filter (fun x => x != a)

def Cpu.set (c : Cpu) : Src × Value → Cpu
  | (.ss, v) => { c with ss := v }
  | (.tt, v) => { c with tt := v }
  | (.idle, v) => { c with idle := v }

/-- One `bay_propagate` as seen by one CPU: the CPU channels in `sets` were
    `chan_set` (in that order; they are outputs of the CPU track muxes and all
    of them are written before any of them is processed, because they are
    appended behind the thread channels / the `th_running` select that wrote
    them), then the dirty list is walked. -/
def step (k : Consts) (c : Cpu) (sets : List (Src × Value)) : Cpu :=
  let order := (dedup (sets.map (·.1))).map Src.ch
  propagate k 5 order order (sets.foldl Cpu.set c)

/-! ### Specification (independent of the mux machinery) -/

/-- `tr`: the task type while in a task body with a task, else the subsystem,
    "Unknown subsystem" when there is none. -/
def trSpec (k : Consts) (ss tt : Value) : Value :=
  if ss = .int k.taskBody ∧ tt ≠ .null then tt
  else if ss = .null then .int k.unknownSs
  else ss

/-- `tri`: `tr` while progressing, else the idle state. -/
def triSpec (k : Consts) (tr idle : Value) : Value :=
  if idle = .int k.progressing then tr else idle

def spec (k : Consts) (ss tt idle : Value) : Value := triSpec k (trSpec k ss tt) idle

/-! ### The whole breakdown: `n` CPUs feeding the sort module -/

structure Sys where
  cpus : List Cpu
  sort : Sort.State
  deriving Repr

def Sys.init (n : Nat) : Sys := ⟨List.replicate n Cpu.init, Sort.init n⟩

/-- The global dirty phase: items are `(cpu, channel)`; processing `(i, tri)`
    also runs `sort_cb_input` for input `i`.  Returns the system and the
    output writes of the sort module in program order. -/
def propagateSys (k : Consts) (qs : List Int → List Int) :
    Nat → List (Nat × Ch) → List (Nat × Ch) → Sys → List (Nat × Int) → Sys × List (Nat × Int)
  | 0, _, _, s, w => (s, w)
  | _ + 1, [], _, s, w => (s, w)
  | fuel + 1, (i, ch) :: rest, dirty, s, w =>
    match s.cpus[i]? with
    | none => propagateSys k qs fuel rest dirty s w
    | some c =>
      let r := fire k c ch
      let new := (r.2.map (fun x => (i, x))).filter (fun x => !dirty.contains x)
      let cpus := s.cpus.set i r.1
      let (sort, w') :=
        if ch = .tri then
          let q := Sort.cbInput qs s.sort i r.1.mux1.out
          (q.1, w ++ q.2)
        else (s.sort, w)
      propagateSys k qs fuel (rest ++ new) (dirty ++ new) ⟨cpus, sort⟩ w'

def dedupItems : List (Nat × Src) → List (Nat × Src)
  | [] => []
  | a :: l => a :: (dedupItems l).filter (fun x => x != a)

/-- `chan_set` on one CPU channel. -/
def setOne (cs : List Cpu) (e : Nat × Src × Value) : List Cpu :=
  match cs[e.1]? with
  | some c => cs.set e.1 (c.set e.2)
  | none => cs

/-- One `bay_propagate` of the whole breakdown after the listed `chan_set`s. -/
def stepSys (k : Consts) (qs : List Int → List Int) (s : Sys) (sets : List (Nat × Src × Value)) :
    Sys × List (Nat × Int) :=
  let cpus := sets.foldl setOne s.cpus
  let order := (dedupItems (sets.map (fun e => (e.1, e.2.1)))).map (fun e => (e.1, e.2.ch))
  propagateSys k qs (5 * s.cpus.length) order order ⟨cpus, s.sort⟩ []

end Ovni.Emu.Breakdown
