import OvniModel.Rt.Event
import OvniModel.Generated.Consts
import OvniModel.Emu.Basic

/-!
# Byte-level stream cursor of the emulator and tools (C12, C19)

Transcription of `src/emu/stream.c` (`check_stream_header`, `load_stream_fd`,
`load_obs`, `stream_step`), `src/rt/ovni.c` (`ovni_payload_size`,
`ovni_ev_size`, with the C integer conversions) and `src/emu/emu_ev.c`
(`emu_ev`).

* The stream file is a `List Nat` of bytes; `size = buf.length`.
* Memory outside `[0,size)` is **not** part of the input: a read there returns
  whatever the parameter `g : Garbage` says (the theorems quantify over it).
* Every memory access the C code performs on the stream is recorded as a
  `(offset, length)` pair, *before* any bounds consideration, so that
  `reads_in_bounds` is a statement about the code and not about the model.
* `int` is 32 bit two's complement (`wrap32`; the `size_t → int` conversion of
  `ovni_payload_size` is implementation-defined = wrap on gcc/clang; the
  addition `(int) sizeof(header) + payload` overflows for 12 inputs, which is
  undefined behaviour: `evSizeOverflows` marks those and the value modelled is
  the wrapped one a non-sanitized build computes).  `int64_t` offsets are
  modelled as unbounded `Int` (an offset moves by less than 2^31 per step and
  starts at 8, so reaching ±2^63 needs more than 2^32 steps).
* `stream->clock_offset` is 0 here (set only from `clock-offsets.txt`, C03).

The namespace `Fixed` at the end holds the cursor with the minimal repair
(validate that the header — and the jumbo size field — lie inside the stream
and that the size cannot wrap, *before* using them).
-/
namespace Ovni.Emu.Stream
open Ovni.Rt (le unle)
open Ovni.Generated (streamMagic streamVersion)

/-! ### C integer conversions -/

/-- Conversion to `int` (32-bit two's complement wrap). -/
def wrap32 (x : Int) : Int := (x + 2147483648) % 4294967296 - 2147483648

/-- Conversion `uint64_t → int64_t`. -/
def wrap64 (x : Int) : Int := (x + 9223372036854775808) % 18446744073709551616 - 9223372036854775808

/-! ### Memory -/

/-- Contents of memory outside the stream buffer, by (signed) offset from `buf`. -/
abbrev Garbage := Int → Nat

/-- `buf[i]` as the C code sees it: inside the file the byte, outside whatever is there. -/
def byteAt (g : Garbage) (buf : List Nat) (i : Int) : Nat :=
  if 0 ≤ i ∧ i < (buf.length : Int) then buf.getD i.toNat 0 else g i

/-- Little-endian load of `n` bytes at `off`. -/
def readLE (g : Garbage) (buf : List Nat) (off : Int) : Nat → Nat
  | 0 => 0
  | n + 1 => byteAt g buf off + 256 * readLE g buf (off + 1) n

/-- A recorded memory access: offset from `buf` and length. -/
abbrev Read := Int × Nat

/-- The access lies inside the loaded stream. -/
def Read.inBounds (size : Nat) (r : Read) : Prop := 0 ≤ r.1 ∧ r.1 + (r.2 : Int) ≤ (size : Int)

instance (size : Nat) (r : Read) : Decidable (Read.inBounds size r) := by
  unfold Read.inBounds; exact inferInstance

/-! ### `ovni_payload_size`, `ovni_ev_size` on the event at offset `ev` -/

/-- `ev->header.flags & OVNI_EV_JUMBO` -/
def isJumboF (flags : Nat) : Bool := (flags / 16) % 2 = 1

/-- Non-jumbo payload size from the low nibble: 0 ↦ 0, n ↦ n+1. -/
def nibSize (flags : Nat) : Nat := if flags % 16 = 0 then 0 else flags % 16 + 1

def flagsAt (g : Garbage) (buf : List Nat) (ev : Int) : Nat := byteAt g buf ev

/-- `ev->payload.jumbo.size` (uint32 at byte 12 of the event). -/
def jumboSizeAt (g : Garbage) (buf : List Nat) (ev : Int) : Nat := readLE g buf (ev + 12) 4

/-- `ovni_payload_size`: jumbo ⇒ `(int) (sizeof(uint32_t) + (size_t) jumbo.size)`. -/
def payloadSizeC (g : Garbage) (buf : List Nat) (ev : Int) : Int :=
  if isJumboF (flagsAt g buf ev) then wrap32 (4 + (jumboSizeAt g buf ev : Int))
  else (nibSize (flagsAt g buf ev) : Int)

/-- `ovni_ev_size`: `(int) sizeof(ev->header) + ovni_payload_size(ev)` in `int`. -/
def evSizeC (g : Garbage) (buf : List Nat) (ev : Int) : Int :=
  wrap32 (12 + payloadSizeC g buf ev)

/-- The `int` addition in `ovni_ev_size` overflows (undefined behaviour;
    UBSan reports it, a plain build wraps to a negative size). -/
def evSizeOverflows (g : Garbage) (buf : List Nat) (ev : Int) : Prop :=
  12 + payloadSizeC g buf ev > 2147483647

/-- Memory touched by `ovni_ev_size(ev)`. -/
def evSizeReads (g : Garbage) (buf : List Nat) (ev : Int) : List Read :=
  if isJumboF (flagsAt g buf ev) then [(ev, 1), (ev + 12, 4)] else [(ev, 1)]

/-- `stream_evclock`: `(int64_t) ev->header.clock + clock_offset(=0)`. -/
def clockAt (g : Garbage) (buf : List Nat) (ev : Int) : Int := wrap64 (readLE g buf (ev + 4) 8)

/-! ### The cursor (`struct stream`) -/

structure Cur where
  /-- `stream->offset` -/
  offset : Int
  /-- `stream->cur_ev != NULL` (then `cur_ev == &buf[offset]`) -/
  hasEv : Bool
  active : Bool
  lastclock : Int
  unsorted : Bool
deriving DecidableEq, Repr

inductive LoadErr | empty | shortHeader | badHeader
deriving DecidableEq, Repr

/-- `load_stream_fd` + `check_stream_header` + the tail of `load_obs`.
    All accesses are to bytes 0..7 after `size ≥ 8` was checked.  The
    "impossible" branch `offset > size` is unreachable after the header check. -/
def loadObs (buf : List Nat) (unsorted : Bool) : Except LoadErr Cur :=
  if buf.length = 0 then .error .empty
  else if buf.length < 8 then .error .shortHeader
  else if buf.take 4 ≠ streamMagic ∨ unle ((buf.drop 4).take 4) ≠ streamVersion then .error .badHeader
  else .ok { offset := 8, hasEv := false, active := decide (8 < buf.length), lastclock := 0,
             unsorted := unsorted }

inductive Err
  | inactive | exceeds | incomplete | clock
  /-- only the repaired cursor: jumbo size that does not fit an `int` event size -/
  | jumbosize
deriving DecidableEq, Repr

inductive Res | ok | eof | err (e : Err)
deriving DecidableEq, Repr

/-- Offset of the event `stream_step` is about to load. -/
def nextOff (g : Garbage) (buf : List Nat) (c : Cur) : Int :=
  if c.hasEv then c.offset + evSizeC g buf c.offset else c.offset

/-- Second half of `stream_step`: load the event at `off1` (= the updated
    `stream->offset`), check that it fits and that the clock does not go back.
    `r1` = the accesses already made by this call. -/
def loadEv (g : Garbage) (buf : List Nat) (c : Cur) (off1 : Int) (r1 : List Read) :
    Res × Cur × List Read :=
  -- stream->cur_ev = (struct ovni_ev *) &stream->buf[stream->offset];
  let c1 := { c with offset := off1, hasEv := true }
  -- if (stream->offset + ovni_ev_size(stream->cur_ev) > stream->size)
  let r2 := r1 ++ evSizeReads g buf off1
  if off1 + evSizeC g buf off1 > (buf.length : Int) then (.err .incomplete, c1, r2)
  else
    -- int64_t clock = stream_evclock(stream, stream->cur_ev);
    let clock := clockAt g buf off1
    let r3 := r2 ++ [(off1 + 4, 8)]
    -- (the first event of a stream has no previous clock: `!first`)
    if c.unsorted = false ∧ c.hasEv = true ∧ clock < c.lastclock then (.err .clock, c1, r3)
    else (.ok, { c1 with lastclock := clock }, r3)

/-- `stream_step`, statement by statement.  Returns the result, the new
    cursor and the memory accesses of this call in program order. -/
def streamStep (g : Garbage) (buf : List Nat) (c : Cur) : Res × Cur × List Read :=
  if c.active = false then (.err .inactive, c, [])
  else
    -- if (stream->cur_ev != NULL) stream->offset += ovni_ev_size(stream->cur_ev);
    let off1 := nextOff g buf c
    let r1 := if c.hasEv then evSizeReads g buf c.offset else []
    if c.hasEv = true ∧ off1 > (buf.length : Int) then (.err .exceeds, { c with offset := off1 }, r1)
    else if c.hasEv = true ∧ off1 = (buf.length : Int) then
      (.eof, { c with offset := off1, active := false, hasEv := false }, r1)
    else loadEv g buf c off1 r1

/-! ### Driving the cursor to the end (what player/ovnidump/ovnitop/ovnisort do) -/

inductive Outcome
  | eof
  | err (e : Err)
  /-- fuel exhausted: the tool is still stepping -/
  | running
deriving DecidableEq, Repr

section Run
variable (step : Cur → Res × Cur × List Read)

/-- Call `step` until it stops returning 0, at most `fuel` times. -/
def runWith : Nat → Cur → Outcome
  | 0, _ => .running
  | fuel + 1, c =>
    match step c with
    | (.ok, c', _) => runWith fuel c'
    | (.eof, _, _) => .eof
    | (.err e, _, _) => .err e

/-- All memory accesses of that loop. -/
def readsWith : Nat → Cur → List Read
  | 0, _ => []
  | fuel + 1, c =>
    match step c with
    | (.ok, c', rd) => rd ++ readsWith fuel c'
    | (_, _, rd) => rd

/-- Number of events delivered (calls that returned 0). -/
def stepsWith : Nat → Cur → Nat
  | 0, _ => 0
  | fuel + 1, c =>
    match step c with
    | (.ok, c', _) => stepsWith fuel c' + 1
    | _ => 0

/-- Offsets of the delivered events, in order. -/
def offsetsWith : Nat → Cur → List Int
  | 0, _ => []
  | fuel + 1, c =>
    match step c with
    | (.ok, c', _) => c'.offset :: offsetsWith fuel c'
    | _ => []
end Run

def run (g : Garbage) (buf : List Nat) := runWith (streamStep g buf)
def runReads (g : Garbage) (buf : List Nat) := readsWith (streamStep g buf)
def runSteps (g : Garbage) (buf : List Nat) := stepsWith (streamStep g buf)
def runOffsets (g : Garbage) (buf : List Nat) := offsetsWith (streamStep g buf)

/-- The stream layer lets the whole stream through within `fuel` steps:
    header ok, every step ok, the last step ends exactly at `size`, clocks
    monotone (`unsorted = 0`, as in `ovniemu`).  A stream with a good header
    and no events is loaded as inactive and never stepped. -/
def acceptsWith (step : Cur → Res × Cur × List Read) (fuel : Nat) (buf : List Nat) : Bool :=
  match loadObs buf false with
  | .error _ => false
  | .ok c => if c.active then runWith step fuel c == .eof else true

def acceptsN (fuel : Nat) (g : Garbage) (buf : List Nat) : Bool :=
  acceptsWith (streamStep g buf) fuel buf

/-- Accepted = for some number of steps. -/
def Accepts (g : Garbage) (buf : List Nat) : Prop := ∃ fuel, acceptsN fuel g buf = true

/-! ### Well-formed streams (what a conformant runtime writes) -/

/-- One event of a stream as bytes: flags, MCV, clock (u64) and the bytes after
    the header (payload, or jumbo size field + jumbo data). -/
structure SEv where
  flags : Nat
  mcv : List Nat
  clock : Nat
  body : List Nat
deriving DecidableEq, Repr

def SEv.encode (e : SEv) : List Nat := e.flags :: e.mcv ++ (le 8 e.clock ++ e.body)

/-- Shape: 3 MCV bytes; clock below 2^63 (the emulator compares clocks as
    `int64_t`); non-jumbo: body length given by the nibble; jumbo: a 4-byte
    size field equal to the number of data bytes that follow, total event size
    representable (`< 2^31`). -/
def SEv.WF (e : SEv) : Prop :=
  e.mcv.length = 3 ∧ e.clock < 9223372036854775808 ∧
  (if isJumboF e.flags then
      4 ≤ e.body.length ∧ unle (e.body.take 4) = e.body.length - 4 ∧ e.body.length + 12 < 2147483648
   else e.body.length = nibSize e.flags)

instance (e : SEv) : Decidable e.WF := by unfold SEv.WF; exact inferInstance

def header : List Nat := streamMagic ++ le 4 streamVersion

def encodeAll (evs : List SEv) : List Nat := evs.flatMap SEv.encode

/-- The bytes of `stream.obs`. -/
def streamBytes (evs : List SEv) : List Nat := header ++ encodeAll evs

/-- Clocks never decrease. -/
def Sorted (l : List SEv) : Prop := l.Pairwise (fun a b => a.clock ≤ b.clock)

instance (l : List SEv) : Decidable (Sorted l) := by unfold Sorted; exact inferInstance

/-- A valid stream: at least one event, every event well-formed, clocks monotone. -/
def Valid (evs : List SEv) : Prop := evs ≠ [] ∧ (∀ e ∈ evs, e.WF) ∧ Sorted evs

instance (evs : List SEv) : Decidable (Valid evs) := by unfold Valid; exact inferInstance

/-! ### `emu_ev` (src/emu/emu_ev.c): the decoded event handed to the models -/

structure EmuEv where
  payloadSize : Nat     -- size_t
  hasPayload : Bool
  isJumbo : Bool
deriving DecidableEq, Repr

/-- `emu_ev(ev, oev, …)`: `ev` is `player->ev`, **reused** for every event of
    every stream; `is_jumbo` is written only in two of the three branches. -/
def emuEv (prev : EmuEv) (g : Garbage) (buf : List Nat) (off : Int) : EmuEv :=
  -- ev->payload_size = (size_t) ovni_payload_size(oev);
  let ps : Nat := (payloadSizeC g buf off % 18446744073709551616).toNat
  if ps > 0 then
    if isJumboF (flagsAt g buf off) then { payloadSize := ps, hasPayload := true, isJumbo := true }
    else { payloadSize := ps, hasPayload := true, isJumbo := prev.isJumbo }
  else { payloadSize := ps, hasPayload := false, isJumbo := false }

/-- The repaired `emu_ev`: `is_jumbo` assigned from the flags for every event. -/
def Fixed.emuEv (_prev : EmuEv) (g : Garbage) (buf : List Nat) (off : Int) : EmuEv :=
  let ps : Nat := (payloadSizeC g buf off % 18446744073709551616).toNat
  if ps > 0 then { payloadSize := ps, hasPayload := true, isJumbo := isJumboF (flagsAt g buf off) }
  else { payloadSize := ps, hasPayload := false, isJumbo := false }

/-! ### `print_arg` (src/emu/ev_spec.c) — ovnidump's decoder -/

/-- Accesses of `ev_spec_print` to the payload, relative to `ev->payload`, for
    an event whose declared arguments have `(offset, size)` = `args`:
    `memcpy(&data, &payload[arg->offset], sizeof(data))` for each `%{arg}`.
    `none` = `ev->payload == NULL` is dereferenced (payload size 0). -/
def printReads (args : List (Nat × Nat)) (ev : EmuEv) : Option (List (Nat × Nat)) :=
  if args = [] then some [] else
  if ev.hasPayload then some args else none

/-- What the declared signature needs: the end of its last argument. -/
def declaredSize (args : List (Nat × Nat)) : Nat := (args.map fun a => a.1 + a.2).foldl max 0

/-- Repaired printer: refuse (print the event as undecodable) when the stored
    payload is shorter than the declared one. -/
def Fixed.printReads (args : List (Nat × Nat)) (ev : EmuEv) : Option (List (Nat × Nat)) :=
  if ev.payloadSize < declaredSize args then some [] else some args

/-! ### The repaired cursor -/
namespace Fixed

/-- What the repaired `stream_step` establishes about the event at `off`
    before using any of its fields: the 12-byte header is inside the stream;
    for a jumbo event also the 4-byte size field, and the size is small enough
    for `ovni_ev_size` (an `int`) to be positive and exact. -/
def HdrOk (g : Garbage) (buf : List Nat) (off : Int) : Prop :=
  off + 12 ≤ (buf.length : Int) ∧
  (isJumboF (flagsAt g buf off) = true →
    off + 16 ≤ (buf.length : Int) ∧ (jumboSizeAt g buf off : Int) ≤ 2147483647 - 16)

instance (g : Garbage) (buf : List Nat) (off : Int) : Decidable (HdrOk g buf off) := by
  unfold HdrOk; exact inferInstance

/-- `stream_step` with the repair: three guards inserted between the
    end-of-stream test and the first use of the new event's header.
    ```c
    int64_t left = stream->size - stream->offset;
    if (left < (int64_t) sizeof(struct ovni_ev_header)) { err(incomplete); return -1; }
    stream->cur_ev = (struct ovni_ev *) &stream->buf[stream->offset];
    if (stream->cur_ev->header.flags & OVNI_EV_JUMBO) {
        if (left < (int64_t) (sizeof(struct ovni_ev_header) + sizeof(uint32_t))) { err(incomplete); return -1; }
        if (stream->cur_ev->payload.jumbo.size > (uint32_t) INT_MAX - 16) { err(jumbo too large); return -1; }
    }
    ``` -/
def loadEv (g : Garbage) (buf : List Nat) (c : Cur) (off1 : Int) (r1 : List Read) :
    Res × Cur × List Read :=
  -- NEW: the header must be inside the stream before it is read
  if (buf.length : Int) - off1 < 12 then (.err .incomplete, { c with offset := off1 }, r1)
  else
    let c1 := { c with offset := off1, hasEv := true }
    -- NEW: a jumbo event needs its size field inside the stream, and a size that fits
    if isJumboF (flagsAt g buf off1) = true ∧ (buf.length : Int) - off1 < 16 then
      (.err .incomplete, c1, r1 ++ [(off1, 1)])
    else if isJumboF (flagsAt g buf off1) = true ∧ (jumboSizeAt g buf off1 : Int) > 2147483647 - 16 then
      (.err .jumbosize, c1, r1 ++ [(off1, 1), (off1 + 12, 4)])
    else Stream.loadEv g buf c off1 r1

def streamStep (g : Garbage) (buf : List Nat) (c : Cur) : Res × Cur × List Read :=
  if c.active = false then (.err .inactive, c, [])
  else
    let off1 := nextOff g buf c
    let r1 := if c.hasEv then evSizeReads g buf c.offset else []
    if c.hasEv = true ∧ off1 > (buf.length : Int) then (.err .exceeds, { c with offset := off1 }, r1)
    else if c.hasEv = true ∧ off1 = (buf.length : Int) then
      (.eof, { c with offset := off1, active := false, hasEv := false }, r1)
    else loadEv g buf c off1 r1

def run (g : Garbage) (buf : List Nat) := runWith (streamStep g buf)
def runReads (g : Garbage) (buf : List Nat) := readsWith (streamStep g buf)
def runSteps (g : Garbage) (buf : List Nat) := stepsWith (streamStep g buf)

def acceptsN (fuel : Nat) (g : Garbage) (buf : List Nat) : Bool :=
  acceptsWith (streamStep g buf) fuel buf

def Accepts (g : Garbage) (buf : List Nat) : Prop := ∃ fuel, acceptsN fuel g buf = true

end Fixed

end Ovni.Emu.Stream
