/-!
# Event specifications: `src/emu/ev_spec.c` and `src/emu/model_evspec.c`

A transcription of

* `ev_spec_compile` / `parse_signature` / `parse_args` / `parse_arg` /
  `parse_type` — the signature grammar `MCV[+][(type name, ...)]`, the
  argument offsets and the payload size;
* `ev_spec_print` / `format_region` / `parse_printf_format` /
  `parse_arg_name` / `print_arg` — substitution of `%{name}` and `%fmt{name}`
  regions of a description by payload fields;
* `model_evspec_init` — compile every declaration of a model, refuse
  duplicated MCVs and a wrong model character.

C strings are lists of byte values (`Str`).  The generated `evlist` strings
are ASCII (the translator escapes everything else as `\xNN`, which Lean reads
back as the character with that code), so `ofString` yields exactly the C
bytes.  No Mathlib; every function is structurally recursive so `decide`
evaluates it.
-/
namespace Ovni.Emu.EvSpec

abbrev Str := List Nat

/-- The bytes of a Lean string (UTF-8; the generated strings are ASCII, so these
    are the bytes of the C string).  `toUTF8` is used rather than `toList`
    because the kernel evaluates it an order of magnitude faster. -/
def ofString (s : String) : Str := s.toUTF8.data.toList.map UInt8.toNat

/-- A C string ends at the first NUL. -/
def cstr (s : Str) : Str := s.takeWhile (· != 0)

/-! ## Argument types (`enum ev_arg_type`, `type_name`, `type_size`, `type_fmt`) -/

inductive ArgType | u8 | u16 | u32 | u64 | i8 | i16 | i32 | i64 | str
  deriving DecidableEq, Repr, Inhabited

namespace ArgType

/-- `enum ev_arg_type` order, which is the search order of `parse_type`. -/
def all : List ArgType := [u8, u16, u32, u64, i8, i16, i32, i64, str]

/-- `type_name[]` -/
def name : ArgType → Str
  | u8 => ofString "u8" | u16 => ofString "u16" | u32 => ofString "u32" | u64 => ofString "u64"
  | i8 => ofString "i8" | i16 => ofString "i16" | i32 => ofString "i32" | i64 => ofString "i64"
  | str => ofString "str"

/-- `type_size[]` (`str` is 0: "has to be computed"). -/
def size : ArgType → Nat
  | u8 => 1 | u16 => 2 | u32 => 4 | u64 => 8
  | i8 => 1 | i16 => 2 | i32 => 4 | i64 => 8
  | str => 0

def signed : ArgType → Bool
  | i8 | i16 | i32 | i64 => true
  | _ => false

/-- `type_fmt[]`: the `PRIu8 … PRId64` macros of glibc on x86-64 (LP64). -/
def defaultFmt : ArgType → Str
  | u8 | u16 | u32 => ofString "%u"
  | u64 => ofString "%lu"
  | i8 | i16 | i32 => ofString "%d"
  | i64 => ofString "%ld"
  | str => ofString "%s"

/-- numeric code used by the line protocol (the C enum value) -/
def code : ArgType → Nat
  | u8 => 0 | u16 => 1 | u32 => 2 | u64 => 3 | i8 => 4 | i16 => 5 | i32 => 6 | i64 => 7 | str => 8

end ArgType

/-- `struct ev_arg` -/
structure Arg where
  type : ArgType
  name : Str
  size : Nat
  offset : Nat
  deriving DecidableEq, Repr

/-- `struct ev_spec` (without the description, which is carried beside it). -/
structure Spec where
  m : Nat
  c : Nat
  v : Nat
  jumbo : Bool
  args : List Arg
  payloadSize : Nat
  deriving DecidableEq, Repr

def Spec.mcv (s : Spec) : Nat × Nat × Nat := (s.m, s.c, s.v)

/-! ## `ev_spec_compile` -/

inductive CompileErr
  | tooLong | tooShort | invalidMcv | missingJumboArgs | expectingParen
  | tooManyArgs | noType | noName | nameTooLong | unknownType | emptyArgs
  deriving DecidableEq, Repr

def CompileErr.tag : CompileErr → String
  | .tooLong => "too-long" | .tooShort => "too-short" | .invalidMcv => "invalid-mcv"
  | .missingJumboArgs => "missing-jumbo-args" | .expectingParen => "expecting-paren"
  | .tooManyArgs => "too-many-args" | .noType => "no-type" | .noName => "no-name"
  | .nameTooLong => "name-too-long" | .unknownType => "unknown-type" | .emptyArgs => "empty-args"

/-- The successive results of `strtok_r(s, delims, &save)`: the maximal runs of
    non-delimiter bytes (empty runs are skipped).  `cur` is the run being
    accumulated, reversed. -/
def tokensAux (isDelim : Nat → Bool) : Str → Str → List Str
  | [], cur => if cur.isEmpty then [] else [cur.reverse]
  | c :: r, cur =>
    if isDelim c then
      (if cur.isEmpty then tokensAux isDelim r [] else cur.reverse :: tokensAux isDelim r [])
    else tokensAux isDelim r (c :: cur)

def tokens (isDelim : Nat → Bool) (s : Str) : List Str := tokensAux isDelim s []

/-- `isgraph` in the C locale. -/
def isGraph (c : Nat) : Bool := 33 ≤ c && c ≤ 126

/-- `isalnum` in the C locale. -/
def isAlnum (c : Nat) : Bool := (48 ≤ c && c ≤ 57) || (65 ≤ c && c ≤ 90) || (97 ≤ c && c ≤ 122)

def MAX_ARGS : Nat := 16

/-- `parse_type`: first entry of `type_name` equal to the token. -/
def parseType (ty : Str) : Option ArgType := ArgType.all.find? (fun t => t.name == ty)

/-- `parse_arg`: one `type name` token; returns the extended argument list and
    the new payload size. -/
def parseArg (st : List Arg × Nat) (tok : Str) : Except CompileErr (List Arg × Nat) :=
  if st.1.length ≥ MAX_ARGS then .error .tooManyArgs else
  match tokens (· == 32) tok with
  | [] => .error .noType
  | [_] => .error .noName
  | ty :: nm :: _ =>
    if nm.length ≥ 64 then .error .nameTooLong else
    match parseType ty with
    | none => .error .unknownType
    | some t => .ok (st.1 ++ [{ type := t, name := nm, size := t.size, offset := st.2 }], st.2 + t.size)

/-- the `while (arg)` loop of `parse_args` -/
def parseArgList : List Str → List Arg × Nat → Except CompileErr (List Arg × Nat)
  | [], st => .ok st
  | tok :: r, st =>
    match parseArg st tok with
    | .error e => .error e
    | .ok st' => parseArgList r st'

/-- `parse_args`: `rest` is what follows the opening parenthesis. -/
def parseArgs (jumbo : Bool) (rest : Str) : Except CompileErr (List Arg × Nat) :=
  parseArgList (tokens (fun c => c == 44 || c == 41) rest) ([], if jumbo then 4 else 0)

/-- `parse_signature` -/
def parseSignature (sig : Str) : Except CompileErr Spec :=
  match sig with
  | m :: c :: v :: next =>
    if !(isGraph m && isGraph c && isGraph v) then .error .invalidMcv else
    let jumbo := next.head? == some 43
    let next := if jumbo then next.drop 1 else next
    match next with
    | [] => if jumbo then .error .missingJumboArgs
            else .ok { m, c, v, jumbo := false, args := [], payloadSize := 0 }
    | p :: rest =>
      if p != 40 then .error .expectingParen else
      match parseArgs jumbo rest with
      | .error e => .error e
      | .ok (args, psize) =>
        if args.isEmpty then .error .emptyArgs
        else .ok { m, c, v, jumbo, args, payloadSize := psize }
  | _ => .error .tooShort

/-- `ev_spec_compile` (the working copy is 256 bytes). -/
def compile (signature : Str) : Except CompileErr Spec :=
  let sig := cstr signature
  if sig.length ≥ 256 then .error .tooLong else parseSignature sig

/-- `ev_spec_find_arg`: first argument with that name. -/
def Spec.findArg (s : Spec) (name : Str) : Option Arg := s.args.find? (fun a => a.name == name)

/-! ## printf conversions used by `print_arg` (`snprintf(out, len, fmt, data)`)

Only the subset of `printf` that is well defined for the value that
`print_arg` passes is modelled: an optional `#` flag, a length modifier that
matches the promoted C type, and one of `d i u x X s`.  Anything else is
`badFormat` (in C: undefined behaviour or a different rendering) — no declared
event may use it (`print_total`). -/

inductive Conv
  | sdec                       -- %d %i
  | udec                       -- %u
  | hex (upper hash : Bool)    -- %x %X %#x %#X
  deriving DecidableEq, Repr

def digitChar (upper : Bool) (d : Nat) : Nat :=
  if d < 10 then 48 + d else (if upper then 55 else 87) + d

/-- digit values, most significant first (`fuel` bounds the recursion) -/
def digitsAux (b : Nat) : Nat → Nat → List Nat
  | 0, _ => []
  | fuel + 1, n => if n < b then [n] else digitsAux b fuel (n / b) ++ [n % b]

def digits (b n : Nat) : List Nat := digitsAux b (n + 1) n

def decStr (n : Nat) : Str := (digits 10 n).map (digitChar false)
def hexStr (upper : Bool) (n : Nat) : Str := (digits 16 n).map (digitChar upper)

/-- Length modifiers accepted for a type (what the promoted argument really
    is on LP64: `int`/`unsigned` for ≤ 32 bits, `long` for 64 bits). -/
def lenOk (t : ArgType) (len : Str) : Bool :=
  match t with
  | .u8 | .i8 => len == [] || len == ofString "hh"
  | .u16 | .i16 => len == [] || len == ofString "h"
  | .u32 | .i32 => len == []
  | .u64 | .i64 => len == ofString "l" || len == ofString "ll" || len == ofString "j"
  | .str => len == []

def isLenChar (c : Nat) : Bool := c == 104 || c == 108 || c == 106

/-- Parse `%[#]*[hlj]*<conv>` for a numeric argument of type `t`. -/
def convFor (fmt : Str) (t : ArgType) : Option Conv :=
  match fmt with
  | 37 :: r =>
    let hash := (r.takeWhile (· == 35)).length > 0
    let r := r.dropWhile (· == 35)
    let len := r.takeWhile isLenChar
    if !lenOk t len then none else
    match r.dropWhile isLenChar with
    | [cv] =>
      if t == .str then none
      else if cv == 100 || cv == 105 then (if t.signed && !hash then some .sdec else none)
      else if cv == 117 then (if !t.signed && !hash then some .udec else none)
      else if cv == 120 then (if !t.signed then some (.hex false hash) else none)
      else if cv == 88 then (if !t.signed then some (.hex true hash) else none)
      else none
    | _ => none
  | _ => none

/-- The text `snprintf` produces for the raw little-endian value `raw` of a
    `t`-typed field. -/
def renderNum (cv : Conv) (t : ArgType) (raw : Nat) : Str :=
  match cv with
  | .udec => decStr raw
  | .hex up hash => (if hash && raw != 0 then [48, if up then 88 else 120] else []) ++ hexStr up raw
  | .sdec =>
    if raw < 2 ^ (8 * t.size - 1) then decStr raw else 45 :: decStr (2 ^ (8 * t.size) - raw)

/-- little-endian value of a byte string (bytes taken modulo 256) -/
def leVal : Str → Nat
  | [] => 0
  | b :: r => b % 256 + 256 * leVal r

/-! ## `ev_spec_print` -/

inductive PrintErr
  | noBuffer | descTooLong | truncatedPct | fmtEnd | fmtTooLong | missingName | nameEnd
  | badName | nameTooLong | argNotFound | noSpaceArg | badFormat | shortPayload | unterminated
  | noPayload | payloadTooShort
  deriving DecidableEq, Repr

def PrintErr.tag : PrintErr → String
  | .noBuffer => "no-buffer" | .descTooLong => "desc-too-long" | .truncatedPct => "truncated-pct"
  | .fmtEnd => "fmt-end" | .fmtTooLong => "fmt-too-long" | .missingName => "missing-name"
  | .nameEnd => "name-end" | .badName => "bad-name" | .nameTooLong => "name-too-long"
  | .argNotFound => "arg-not-found" | .noSpaceArg => "no-space-arg" | .badFormat => "bad-format"
  | .shortPayload => "short-payload" | .unterminated => "unterminated"
  | .noPayload => "no-payload" | .payloadTooShort => "payload-too-short"

/-- What the scanner of a description reports, in input order:
    `open` = a `%` met in text (the `while` loop of `ev_spec_print` checks the
    room and enters `format_region`), `lit c` = a copied byte, `pct` = `%%`,
    `hole fmt name` = a complete `%fmt{name}` region (`fmt = none` when the
    format is inferred from the type). -/
inductive Seg
  | open
  | lit (c : Nat)
  | pct
  | hole (fmt : Option Str) (name : Str)
  deriving DecidableEq, Repr

/-- Where the cursor `c->in` is. `inFmt acc`: inside `parse_printf_format`, `acc`
    = bytes copied after the leading `%`; `inName fmt acc`: inside
    `parse_arg_name`. -/
inductive Mode
  | text
  | afterPct
  | inFmt (acc : Str)
  | inName (fmt : Option Str) (acc : Str)

/-- The control flow of `ev_spec_print` + `format_region` +
    `parse_printf_format` + `parse_arg_name` over the description, calling `f`
    where the C code writes to the output cursor.  Structural in the input. -/
def scan {σ : Type} (f : Seg → σ → Except PrintErr σ) : Mode → Str → σ → Except PrintErr σ
  | .text, [], s => .ok s
  | .text, c :: r, s =>
    if c == 37 then
      match f .open s with
      | .error e => .error e
      | .ok s' => scan f .afterPct r s'
    else
      match f (.lit c) s with
      | .error e => .error e
      | .ok s' => scan f .text r s'
  | .afterPct, [], _ => .error .truncatedPct
  | .afterPct, c :: r, s =>
    if c == 37 then
      match f .pct s with
      | .error e => .error e
      | .ok s' => scan f .text r s'
    else if c == 123 then scan f (.inName none []) r s
    else scan f (.inFmt [c]) r s
  | .inFmt _, [], _ => .error .fmtEnd
  | .inFmt acc, c :: r, s =>
    if c == 123 then scan f (.inName (some (37 :: acc)) []) r s
    else if 1 + acc.length ≥ 63 then .error .fmtTooLong
    else scan f (.inFmt (acc ++ [c])) r s
  | .inName _ _, [], _ => .error .nameEnd
  | .inName fmt acc, c :: r, s =>
    if c == 125 then
      (if acc.isEmpty then .error .missingName else
        match f (.hole fmt acc) s with
        | .error e => .error e
        | .ok s' => scan f .text r s')
    else if !isAlnum c then .error .badName
    else if acc.length ≥ 63 then .error .nameTooLong
    else scan f (.inName fmt (acc ++ [c])) r s

/-- `print_arg` without the room check: the text of one field.  Reading past
    the payload (undefined behaviour in C, property C19) is an error here. -/
def formatArg (a : Arg) (fmt : Str) (payload : Str) : Except PrintErr Str :=
  if a.type == .str then
    let rest := payload.drop a.offset
    if !rest.contains 0 then .error .unterminated
    else if fmt == ofString "%s" then .ok (rest.takeWhile (· != 0))
    else .error .badFormat
  else if a.offset + a.type.size > payload.length then .error .shortPayload
  else
    match convFor fmt a.type with
    | none => .error .badFormat
    | some cv => .ok (renderNum cv a.type (leVal ((payload.drop a.offset).take a.type.size)))

/-- The output cursor: bytes written so far and `c->len`. -/
abbrev Out := Str × Nat

/-- What `ev_spec_print`/`format_region`/`print_arg` do to the output cursor
    at each scanner event. -/
def emit (spec : Spec) (payload : Str) : Seg → Out → Except PrintErr Out
  | .open, (o, l) => if l == 0 then .error .descTooLong else .ok (o, l)
  | .lit c, (o, l) => if l == 0 then .error .descTooLong else .ok (o ++ [c], l - 1)
  | .pct, (o, l) => .ok (o ++ [37], l - 1)
  | .hole fmt name, (o, l) =>
    match spec.findArg name with
    | none => .error .argNotFound
    | some a =>
      match formatArg a (fmt.getD a.type.defaultFmt) payload with
      | .error e => .error e
      | .ok txt => if txt.length ≥ l then .error .noSpaceArg else .ok (o ++ txt, l - txt.length)

/-- `ev_spec_print(spec, ev, outbuf, outlen)`: the NUL-terminated text left in
    `outbuf`. `payload` = the bytes `ev->payload` points to (for a jumbo event
    that includes the 4-byte size); `ev->payload` is `NULL` exactly when there
    are none (`emu_ev`), and `ev->payload_size` is their number.  An event
    declared with arguments is refused when it was stored with fewer bytes
    than declared. -/
def print (spec : Spec) (desc : Str) (payload : Str) (outlen : Nat) : Except PrintErr Str :=
  if outlen == 0 then .error .noBuffer
  else if !spec.args.isEmpty && payload.isEmpty then .error .noPayload
  else if !spec.args.isEmpty && payload.length < spec.payloadSize then .error .payloadTooShort
  else
  match scan (emit spec payload) .text (cstr desc) ([], outlen - 1) with
  | .error e => .error e
  | .ok (o, _) => .ok o

/-! ## `model_evspec_init` -/

inductive InitErr
  | noEvents
  | compile (i : Nat) (e : CompileErr)
  | duplicate (i : Nat)
  | badModel (i : Nat)
  deriving DecidableEq, Repr

/-- A compiled declaration with its description. -/
abbrev Decl := Spec × Str

/-- the second `for` loop of `model_evspec_init`; `acc` = declarations already
    in the hash table (most recent first), `i` = index of the next one -/
def initLoop (modelChar : Nat) : List (Str × Str) → List Decl → Nat → Except InitErr (List Decl)
  | [], acc, _ => .ok acc.reverse
  | (sig, desc) :: r, acc, i =>
    match compile sig with
    | .error e => .error (.compile i e)
    | .ok s =>
      if acc.any (fun d => d.1.mcv == s.mcv) then .error (.duplicate i)
      else if s.m != modelChar then .error (.badModel i)
      else initLoop modelChar r ((s, desc) :: acc) (i + 1)

/-- `model_evspec_init`: the compiled declarations in `evlist` order. -/
def evspecInit (modelChar : Nat) (evlist : List (Str × Str)) : Except InitErr (List Decl) :=
  if evlist.isEmpty then .error .noEvents else initLoop modelChar evlist [] 0

/-- `model_evspec_find` -/
def findDecl (decls : List Decl) (mcv : Nat × Nat × Nat) : Option Decl :=
  decls.find? (fun d => d.1.mcv == mcv)

/-! ## Specification side (used by the statements of C18)

Independent of the output-cursor bookkeeping of `ev_spec_print`: what the
printed text *should* be. -/

/-- The scanner events of a description (`none` if it is not well formed). -/
def segsOf (desc : Str) : Except PrintErr (List Seg) :=
  scan (fun g acc => .ok (acc ++ [g])) .text (cstr desc) []

def Spec.hasStr (s : Spec) : Bool := s.args.any (fun a => a.type == .str)

/-- The limit the emulator puts on a task-type label (`MAX_PCF_LABEL`; longer
    labels are refused by `task_type_create`). -/
def MAX_LABEL : Nat := 512

/-- **A payload of the declared shape**: exactly `payload_size` bytes (for a
    jumbo event that includes the 4-byte size field), followed — when the
    declaration has a `str` argument — by a NUL-terminated string shorter than
    `MAX_LABEL`. -/
def Shape (s : Spec) (p : Str) : Prop :=
  if s.hasStr then
    ∃ lbl : Str, p.length = s.payloadSize + lbl.length + 1 ∧ p.drop s.payloadSize = lbl ++ [0] ∧
      (∀ b ∈ lbl, b ≠ 0) ∧ lbl.length < MAX_LABEL
  else p.length = s.payloadSize

/-- The text that stands for the field `name` under format `fmt`. -/
def fieldText (s : Spec) (p : Str) (fmt : Option Str) (name : Str) : Option Str :=
  match s.findArg name with
  | none => none
  | some a =>
    match formatArg a (fmt.getD a.type.defaultFmt) p with
    | .ok t => some t
    | .error _ => none

def segText (s : Spec) (p : Str) : Seg → Option Str
  | .open => some []
  | .lit c => some [c]
  | .pct => some [37]
  | .hole fmt name => fieldText s p fmt name

def joinTexts (s : Spec) (p : Str) : List Seg → Option Str
  | [] => some []
  | g :: r =>
    match segText s p g, joinTexts s p r with
    | some a, some b => some (a ++ b)
    | _, _ => none

/-- **The description with the payload fields substituted**: literal text
    copied, `%%` → `%`, each `%fmt{name}` replaced by the rendering of the
    field called `name`. -/
def substitute (s : Spec) (desc : Str) (p : Str) : Option Str :=
  match segsOf desc with
  | .ok segs => joinTexts s p segs
  | .error _ => none

/-- running offsets of a list of sizes starting at `base` -/
def runningOffsets : Nat → List Nat → List Nat
  | _, [] => []
  | base, sz :: r => base :: runningOffsets (base + sz) r

/-- The fields are laid out in declaration order without gaps, after the
    4-byte size of a jumbo event, and `payload_size` is where they end. -/
def layoutOk (s : Spec) : Bool :=
  let base := if s.jumbo then 4 else 0
  s.args.map (·.offset) == runningOffsets base (s.args.map (·.type.size)) &&
  s.args.all (fun a => a.size == a.type.size) &&
  s.payloadSize == base + (s.args.map (·.type.size)).sum

end Ovni.Emu.EvSpec
