/-! Small shared instances for the emulator models. -/
deriving instance DecidableEq for Except
