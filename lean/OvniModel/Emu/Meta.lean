import OvniModel.Generated.Consts
import OvniModel.Emu.Basic
import OvniModel.Version

/-!
# Metadata and model gates of the emulator, as decision logic (C12)

What `ovniemu` demands from each `stream.json` before and while emulating,
over an **abstract record of what the parson getters return** (JSON parsing is
assumed, DESIGN §4).  Mirrors, in the order the emulator applies them:
`stream.c:load_json/check_version`, `system.c:is_thread_stream`,
`loom.c:loom_name/loom_init_begin`, `proc.c:proc_stream_get_pid/load_appid`,
`thread.c:thread_stream_get_tid/thread_load_metadata`,
`system.c:report_libovni_version`, `loom.c:loom_init_end`,
`proc.c:proc_init_end`, `model.c:should_enable/model_event`,
and the payload-size guards of `ovni/event.c` and `ovni/mark.c`.
-/
namespace Ovni.Emu.Meta

/-- One `stream.json` as seen through the getters. -/
structure Meta where
  /-- `json_parse_file_with_comments` ≠ NULL and the root is an object -/
  parsed : Bool := true
  /-- `json_object_get_value(meta,"version")`: `none` = missing, else `(int) json_number(v)` (0 if not a number) -/
  version : Option Int
  /-- `json_object_dotget_string(meta,"ovni.part")` (`none`: missing or not a string) -/
  part : Option String
  loom : Option String
  /-- `(int) json_object_dotget_number(...)`: 0 when missing or not a number -/
  pid : Int
  tid : Int
  /-- `json_object_dotget_value(meta,"ovni.app_id")` → `(int) json_number` -/
  appId : Option Int
  /-- `json_object_dotget_number(meta,"ovni.finished") == 1` -/
  finished : Bool
  /-- `json_object_dotget_object(meta,"ovni.require") != NULL` -/
  hasRequire : Bool
  /-- models (by model char) with a compatible requirement in `ovni.require` (parsing/compat: C14) -/
  requires : List Nat
  /-- the string-valued entries of `ovni.require`: (model name, version string) as
      `json_object_get_string(require, spec->name)` returns them -/
  reqs : List (List Nat × List Nat) := []
  /-- `ovni.lib.version` and `ovni.lib.commit` are strings -/
  hasLib : Bool := true
  /-- `ovni.loom_cpus`: `none` = absent or not an array, else the `(index, phyid)` list -/
  cpus : Option (List (Int × Int))
deriving Repr

inductive Cls
  | json | version | part | loom | pid | appid | tid | finished | lib | cpus | require
  | unknownStream | modelUnregistered | modelDisabled | payload
  /-- `model_version_probe` < 0: unparsable or incompatible model version in some thread -/
  | reqVersion
deriving DecidableEq, Repr

/-- Per-stream checks up to `create_thread` (only for `part = "thread"`; any
    other string makes the stream "unknown": it is kept but has no thread). -/
def checkStream (m : Meta) : Except Cls Bool :=
  if m.parsed = false then .error .json
  else if m.version ≠ some (Ovni.Generated.metadataVersion : Int) then .error .version   -- missing or different
  else if m.part = none then .error .part
  else if m.part ≠ some "thread" then .ok false      -- warn("ignoring unknown stream")
  else if m.loom = none then .error .loom
  else if '/' ∈ (m.loom.getD "").toList then .error .loom
  else if m.cpus = some [] then .error .cpus           -- load_cpus: empty array
  else if m.pid ≤ 0 then .error .pid                   -- == 0, or (int) pid < 0
  else if (∃ a, m.appId = some a ∧ a ≤ 0) then .error .appid
  else if m.tid ≤ 0 then .error .tid
  else if m.finished = false then .error .finished
  else .ok true

/-- Trace-level checks after all streams were merged (`system_init`):
    every loom has at least one physical CPU, every process an app id, every
    thread the libovni version, and every thread a `require` object. -/
def checkTrace (ms : List Meta) : Except Cls Unit :=
  match ms.mapM checkStream with
  | .error e => .error e
  | .ok flags =>
    let ths := (ms.zip flags).filter (·.2) |>.map (·.1)
    if ths.any (fun t => !(ths.any fun s => s.loom = t.loom ∧ (s.cpus.getD []) ≠ [])) then .error .cpus
    else if ths.any (fun t => !(ths.any fun s => s.loom = t.loom ∧ s.pid = t.pid ∧ s.appId.isSome)) then .error .appid
    else if ths.any (fun t => !t.hasLib) then .error .lib
    else if ths.any (fun t => !t.hasRequire) then .error .require
    else .ok ()

/-- `ovni.require` of a thread as `model.c:should_enable` sees it. -/
def Meta.require (m : Meta) : Ovni.Version.Require := if m.hasRequire then some m.reqs else none

/-- Models (by char) that this thread requires with a parsable, compatible
    version (`should_enable` = 1), computed by the version model of C14. -/
def Meta.compatReqs (models : List (List Nat × List Nat × Nat)) (m : Meta) : List Nat :=
  models.filterMap fun (name, ver, ch) =>
    match Ovni.Version.parse (some ver) with
    | none => none
    | some h => if Ovni.Version.shouldEnable h (Ovni.Version.reqFor name m.require) = .enabled then some ch else none

/-- `model_probe` at `emu_init`: the version probe of every registered model
    runs over **all** threads; one unparsable or incompatible requirement (or a
    missing `ovni.require` object) in any thread aborts the emulation. -/
def versionGate (models : List (List Nat × List Nat × Nat)) (ths : List Meta) : Except Cls Unit :=
  match Ovni.Version.enabledSet false (ths.map (·.require)) models with
  | none => .error .reqVersion
  | some _ => .ok ()

/-- `model_event` gate: the model char must be registered and enabled.  The
    ovni model ('O' = 79) is always enabled (`model_ovni_probe` returns 1);
    every other model only if some thread requires it. -/
def modelGate (registered : List Nat) (ths : List Meta) (m : Nat) : Except Cls Unit :=
  if m ∉ registered then .error .modelUnregistered
  else if m = 79 ∨ ths.any (fun t => m ∈ t.requires) then .ok ()
  else .error .modelDisabled

/-- Events whose handler compares `emu->ev->payload_size` before touching the
    payload: `OHx` (≥ 4), `OAs` (= 4), `OAr` (= 8), `OM[ OM] OM=` (= 12).
    `none`: the handler has no size guard. -/
def sizeGuard (mcv : Nat × Nat × Nat) : Option (Nat → Bool) :=
  match mcv with
  | (79, 72, 120) => some (fun n => 4 ≤ n)          -- OHx
  | (79, 65, 115) => some (fun n => n = 4)          -- OAs
  | (79, 65, 114) => some (fun n => n = 8)          -- OAr
  | (79, 77, 91) => some (fun n => n = 12)          -- OM[
  | (79, 77, 93) => some (fun n => n = 12)          -- OM]
  | (79, 77, 61) => some (fun n => n = 12)          -- OM=
  | _ => none

def payloadGate (mcv : Nat × Nat × Nat) (payloadSize : Nat) : Except Cls Unit :=
  match sizeGuard mcv with
  | some ok => if ok payloadSize then .ok () else .error .payload
  | none => .ok ()

end Ovni.Emu.Meta
