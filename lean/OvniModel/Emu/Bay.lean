import OvniModel.Emu.Chan
import OvniModel.Generated.Consts

/-
  The patch bay and the muxes (src/emu/bay.c, mux.c, track.c, thread.c
  `thread_select_*`): the MECHANISM that derives the thread and CPU rows.

  Channels are addressed by their registration index.  The bay keeps, per
  channel, the ordered list of ENABLED dirty-phase callbacks
  (`bchan->cb[BAY_CB_DIRTY]`, `DL_APPEND` / `DL_DELETE`), and the dirty list
  (`bay->dirty`), which grows while `bay_propagate` walks it.

  Not modelled: channel names / the uthash table (ids are fresh by
  construction), `bay->state` (only READY/PROPAGATING writes occur here; emit
  callbacks never write), `bay_chan.is_dirty` (it is never set to 1 in bay.c,
  so the guards that read it are dead code), VALUE_DOUBLE.
-/
namespace Ovni.Emu
open Ovni.Generated

/-- `mux->select_func` -/
inductive SelKind where
  /-- `NULL`: `default_select`, the select value is the input index -/
  | byIndex
  /-- `thread_select_running` -/
  | thRunning
  /-- `thread_select_active` -/
  | thActive
deriving DecidableEq, Repr

/-- A dirty-phase callback (`struct bay_cb` with `func` = `cb_select` / `cb_input`). -/
inductive Cb where
  | muxSelect (m : Nat)
  | muxInput (m i : Nat)
deriving DecidableEq, Repr

/-- `struct mux`, the part fixed at connect time (`mux->selected` lives in `Bay.selected`). -/
structure Mux where
  sel : Nat
  out : Nat
  kind : SelKind
  /-- `mux->inputs[i].chan` (`none` = not set yet); the length is `ninputs` -/
  inputs : List (Option Nat)
  /-- `mux->def` -/
  dflt : Value := .null
deriving Repr

/-- `struct bay` with its channels and the muxes connected to it. -/
structure Bay where
  chans : List Chan := []
  /-- enabled `BAY_CB_DIRTY` callbacks of every channel, in list order -/
  cbs : List (List Cb) := []
  /-- the channel has a `BAY_CB_EMIT` callback (it only reads the channel) -/
  emits : List Bool := []
  muxes : List Mux := []
  /-- `mux->selected` of every mux (`none` = -1).  `mux_init` leaves it 0
      (memset), not -1. -/
  selected : List (Option Nat) := []
  /-- `bay->dirty` -/
  dirty : List Nat := []
  maxStack : Nat := maxChanStack
deriving Repr

def Bay.chan (b : Bay) (c : Nat) : Chan := b.chans.getD c {}
def Bay.cbsOf (b : Bay) (c : Nat) : List Cb := b.cbs.getD c []
def Bay.selOf (b : Bay) (mi : Nat) : Option Nat := b.selected.getD mi none

/-- `chan_init` + `bay_register`: returns the new channel's id. -/
def Bay.register (b : Bay) (c : Chan) : Bay × Nat :=
  ({ b with chans := b.chans ++ [c], cbs := b.cbs ++ [[]], emits := b.emits ++ [false] }, b.chans.length)

/-- `bay_add_cb(bay, BAY_CB_EMIT, chan, …, 1)` -/
def Bay.addEmit (b : Bay) (c : Nat) : Except Err Bay :=
  if c < b.chans.length then .ok { b with emits := b.emits.set c true } else .error .other

/-- A channel write (`chan_set` / `chan_push` / `chan_pop`) followed by
    `set_dirty`: when the channel *becomes* dirty its dirty callback
    (`cb_chan_is_dirty`) appends it to the bay's dirty list. -/
def Bay.write (b : Bay) (c : Nat) (f : Chan → Except Err Chan) : Except Err Bay :=
  match b.chans[c]? with
  | none => .error .other
  | some ch =>
    match f ch with
    | .error e => .error e
    | .ok ch' =>
      .ok { b with chans := b.chans.set c ch',
                   dirty := if !ch.dirty && ch'.dirty then b.dirty ++ [c] else b.dirty }

def Bay.chanSet (b : Bay) (c : Nat) (v : Value) : Except Err Bay := b.write c (·.set v)
def Bay.chanPush (b : Bay) (c : Nat) (v : Value) : Except Err Bay := b.write c (Chan.push b.maxStack · v)
def Bay.chanPop (b : Bay) (c : Nat) (v : Value) : Except Err Bay := b.write c (·.pop v)

/-- `bay_enable_cb`: no-op when already enabled, else `DL_APPEND`. -/
def Bay.enableCb (b : Bay) (c : Nat) (cb : Cb) : Bay :=
  if cb ∈ b.cbsOf c then b else { b with cbs := b.cbs.set c (b.cbsOf c ++ [cb]) }

/-- `bay_disable_cb`: no-op when not enabled, else `DL_DELETE`. -/
def Bay.disableCb (b : Bay) (c : Nat) (cb : Cb) : Bay :=
  { b with cbs := b.cbs.set c ((b.cbsOf c).erase cb) }

def Bay.setSelected (b : Bay) (mi : Nat) (s : Option Nat) : Bay :=
  { b with selected := b.selected.set mi s }

/-- `mux_init`: the output becomes DIRTY_WRITE + ALLOW_DUP, the select
    callback is always enabled.  Returns the mux id. -/
def Bay.muxInit (b : Bay) (sel out : Nat) (kind : SelKind) (ninputs : Nat) : Except Err (Bay × Nat) :=
  match b.chans[out]?, b.chans[sel]? with
  | some oc, some _ =>
    if oc.isStack then .error .chanType
    else if sel = out then .error .other
    else
      let mi := b.muxes.length
      let b1 : Bay :=
        { b with chans := b.chans.set out { oc with dirtyWrite := true, allowDup := true },
                 muxes := b.muxes ++ [{ sel := sel, out := out, kind := kind,
                                        inputs := List.replicate ninputs none }],
                 selected := b.selected ++ [some 0] }
      .ok (b1.enableCb sel (.muxSelect mi), mi)
  | _, _ => .error .other

/-- `mux_set_input` (the callback is created disabled). -/
def Bay.muxSetInput (b : Bay) (mi i c : Nat) : Except Err Bay :=
  match b.muxes[mi]? with
  | none => .error .other
  | some m =>
    if c = m.out then .error .other
    else match m.inputs[i]? with
      | some none =>
        if c < b.chans.length then
          .ok { b with muxes := b.muxes.set mi { m with inputs := m.inputs.set i (some c) } }
        else .error .other
      | _ => .error .other

/-- `mux_set_default` -/
def Bay.muxSetDefault (b : Bay) (mi : Nat) (v : Value) : Except Err Bay :=
  match b.muxes[mi]? with
  | none => .error .other
  | some m => .ok { b with muxes := b.muxes.set mi { m with dflt := v } }

/-- `(enum thread_state) value.i`: conversion of the int64 to the enum's
    (unsigned 32-bit) underlying type. -/
def stateOfInt (s : Int) : Int := s % 4294967296

/-- `select_input`: `default_select`, `thread_select_running`, `thread_select_active`. -/
def Mux.selectInput (m : Mux) (v : Value) : Except Err (Option Nat) :=
  match v with
  | .null => .ok none
  | .int s =>
    match m.kind with
    | .byIndex =>
      if s < 0 ∨ s ≥ (m.inputs.length : Int) then .error .other else .ok (some s.toNat)
    | .thRunning =>
      if m.inputs.length ≠ 1 then .error .other
      else .ok (if stateOfInt s = thStRunning then some 0 else none)
    | .thActive =>
      if m.inputs.length ≠ 1 then .error .other
      else .ok (if stateOfInt s = thStRunning ∨ stateOfInt s = thStCooling ∨ stateOfInt s = thStWarming
                then some 0 else none)

/-- "Clear previous selected input" of `cb_select`. -/
def Bay.clearSelected (b : Bay) (mi : Nat) (m : Mux) : Except Err Bay :=
  match b.selOf mi with
  | none => .ok b
  | some j =>
    match m.inputs[j]? with
    | some (some ic) => .ok ((b.disableCb ic (.muxInput mi j)).setSelected mi none)
    | _ => .error .other      -- C: NULL callback dereferenced

/-- `cb_select`: runs when the select channel of mux `mi` is propagated. -/
def Bay.cbSelect (b : Bay) (mi : Nat) : Except Err Bay :=
  match b.muxes[mi]? with
  | none => .error .other
  | some m =>
    let v := (b.chan m.sel).cur
    match b.clearSelected mi m with
    | .error e => .error e
    | .ok b1 =>
      match m.selectInput v with
      | .error e => .error e
      | .ok none => b1.write m.out (·.set m.dflt)
      | .ok (some i) =>
        match m.inputs[i]? with
        | some (some ic) =>
          let b2 := (b1.enableCb ic (.muxInput mi i)).setSelected mi (some i)
          b2.write m.out (·.set (b2.chan ic).cur)
        | _ => .error .other  -- C: NULL callback dereferenced

/-- `cb_input`: runs when the (enabled) input `i` of mux `mi` is propagated. -/
def Bay.cbInput (b : Bay) (mi i : Nat) : Except Err Bay :=
  match b.muxes[mi]? with
  | none => .error .other
  | some m =>
    match m.inputs[i]? with
    | some (some ic) => b.write m.out (·.set (b.chan ic).cur)
    | _ => .error .other

def Bay.runCb (b : Bay) : Cb → Except Err Bay
  | .muxSelect m => b.cbSelect m
  | .muxInput m i => b.cbInput m i

/-- `propagate_chan(bchan, BAY_CB_DIRTY)`: `DL_FOREACH` over the channel's
    callback list.  The list is re-read after every callback (the C loop
    follows `cur->next` after the call), position `j` is where `cur` sits. -/
def Bay.propChan : Nat → Bay → Nat → Nat → Except Err Bay
  | fuel, b, c, j =>
    match (b.cbsOf c)[j]? with
    | none => .ok b
    | some cb =>
      match fuel with
      | 0 => .error .other
      | fuel + 1 =>
        match b.runCb cb with
        | .error e => .error e
        | .ok b' => Bay.propChan fuel b' c ((b'.cbsOf c).idxOf cb + 1)

/-- Fuel for one channel: every select callback on the list may append one
    input callback to the list being walked (only when a mux uses its own
    select channel as an input); otherwise the list does not change. -/
def Bay.chanFuel (b : Bay) (c : Nat) : Nat := 2 * (b.cbsOf c).length + 1

/-- First loop of `bay_propagate`: the dirty list is walked by position `k`
    while callbacks append to it. -/
def Bay.dirtyPhase : Nat → Bay → Nat → Except Err Bay
  | fuel, b, k =>
    match b.dirty[k]? with
    | none => .ok b
    | some c =>
      match fuel with
      | 0 => .error .other
      | fuel + 1 =>
        match b.propChan (b.chanFuel c) c 0 with
        | .error e => .error e
        | .ok b' => Bay.dirtyPhase fuel b' (k + 1)

/-- Second loop: the emit callbacks see each dirty channel once, in dirty-list order. -/
def Bay.emitPhase (b : Bay) : List (Nat × Value) :=
  b.dirty.filterMap fun c => if b.emits.getD c false then some (c, (b.chan c).cur) else none

/-- Third loop: `chan_flush` of every channel of the dirty list. -/
def Bay.flushList : List Nat → Bay → Except Err Bay
  | [], b => .ok b
  | c :: cs, b =>
    match b.chans[c]? with
    | none => .error .other
    | some ch =>
      if ch.dirty then Bay.flushList cs { b with chans := b.chans.set c ch.flush }
      else .error .other     -- "channel is not dirty"

/-- `bay_propagate`.  The dirty list holds distinct channels, so it never gets
    longer than the channel table: that is the fuel. -/
def Bay.propagate (b : Bay) : Except Err (Bay × List (Nat × Value)) :=
  match b.dirtyPhase b.chans.length 0 with
  | .error e => .error e
  | .ok b1 =>
    match Bay.flushList b1.dirty b1 with
    | .error e => .error e
    | .ok b2 => .ok ({ b2 with dirty := [] }, b1.emitPhase)

/-! ### track.c -/

/-- `track_connect_thread` for one channel (`track_th_input_chan`): mode ANY
    aliases the input; RUN / ACT create the output channel and a one-input mux
    selected by the thread state channel.  Returns the output channel id. -/
def Bay.trackThread (b : Bay) (mode sel inp : Nat) : Except Err (Bay × Nat) :=
  -- track_init registers the (single) output channel whatever the mode
  let (b0, out) := b.register {}
  if mode = trackAny then .ok (b0, inp)
  else
    let kind? : Option SelKind :=
      if mode = trackRun then some .thRunning else if mode = trackAct then some .thActive else none
    match kind? with
    | none => .error .other
    | some kind =>
      match b0.muxInit sel out kind 1 with
      | .error e => .error e
      | .ok (b1, mi) =>
        match b1.muxSetInput mi 0 inp with
        | .error e => .error e
        | .ok b2 => .ok (b2, out)

/-! ### model_cpu.c -/

/-- The `track_set_input` loop of `connect_cpu`: input `i`, `i+1`, … = the given channels. -/
def Bay.setInputs (b : Bay) (mi : Nat) : Nat → List Nat → Except Err Bay
  | _, [] => .ok b
  | i, c :: cs =>
    match b.muxSetInput mi i c with
    | .error e => .error e
    | .ok b' => Bay.setInputs b' mi (i + 1) cs

/-- `connect_cpu` for one model channel of one CPU (`track_init`,
    `track_set_select(track, th_running, NULL, nthreads)`, one `track_set_input`
    per thread with its RAW channel at index gindex, `mux_set_default`).
    Returns the output channel id. -/
def Bay.trackCpu (b : Bay) (sel : Nat) (raws : List Nat) (dflt : Value) : Except Err (Bay × Nat) :=
  let (b0, out) := b.register {}
  match b0.muxInit sel out .byIndex raws.length with
  | .error e => .error e
  | .ok (b1, mi) =>
    match b1.setInputs mi 0 raws with
    | .error e => .error e
    | .ok b2 =>
      match b2.muxSetDefault mi dflt with
      | .error e => .error e
      | .ok b3 => .ok (b3, out)

end Ovni.Emu
