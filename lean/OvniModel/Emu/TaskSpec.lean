import OvniModel.Emu.Task
/-
  Specification of the task life-cycle, written from the property text, the
  documentation (doc/user/emulation/nosv.md, fig/body-model.dot) and task.h —
  not from the control flow of body.c.

  The abstract state knows, for each body that has ever run, the phase it is in
  (a body that never ran is in the diagram's *Created* state and is simply
  absent), and for each thread the stack of bodies it is executing.  There is
  no `body->stack` back pointer, no body counter, no iteration number.

    Created ──▶ Running ──▶ Dead
                 ▲  │         │ only with the resurrect flag
          Paused ◀──┘ ◀───────┘
                 (pause flag)
-/
namespace Ovni.Task.Spec
open Ovni.Task

inductive Phase
  | running | paused | dead
  deriving DecidableEq, Repr

structure Abs where
  types : Nat → Bool                 -- known task types
  flags : Nat → Option TaskFlags     -- created tasks
  phase : Nat → Nat → Option Phase   -- bodies that ran at least once
  stack : Nat → List Ref             -- per thread, head = top

def Abs.init : Abs := ⟨fun _ => false, fun _ => none, fun _ _ => none, fun _ => []⟩

def Abs.addType (a : Abs) (ty : Nat) : Abs :=
  { a with types := fun i => if i = ty then true else a.types i }

def Abs.addTask (a : Abs) (t : Nat) (f : TaskFlags) : Abs :=
  { a with flags := fun i => if i = t then some f else a.flags i }

def Abs.setPhase (a : Abs) (t b : Nat) (p : Phase) : Abs :=
  { a with phase := fun i j => if i = t ∧ j = b then some p else a.phase i j }

def Abs.setStack (a : Abs) (s : Nat) (l : List Ref) : Abs :=
  { a with stack := fun i => if i = s then l else a.stack i }

/-- The body on top of thread `s` is `(t, b)`. -/
def Abs.isTop (a : Abs) (s t b : Nat) : Prop := (a.stack s).head? = some (t, b)

/-- A new body may start on thread `s`: nothing is running there (the stack is
    empty or its top is paused), unless the task on top relaxes the nesting rule. -/
def Abs.canStart (a : Abs) (s : Nat) : Prop :=
  ∀ t b, a.isTop s t b → a.phase t b = some .running →
    ∃ f, a.flags t = some f ∧ f.relax = true

/-- One legal step. -/
inductive Step : Abs → Op → Abs → Prop
  /-- a new type: fresh non-zero id -/
  | typeCreate {a : Abs} {ty gid : Nat} :
      ty ≠ 0 → a.types ty = false →
      Step a (.typeCreate ty gid) (a.addType ty)
  /-- a new task: fresh id, known type -/
  | create {a : Abs} {ty t : Nat} {f : TaskFlags} :
      a.flags t = none → a.types ty = true →
      Step a (.create ty t f) (a.addTask t f)
  /-- Created → Running: first run of body `b ≠ 0` of an existing task; a task
      that is not parallel has no other body -/
  | execFirst {a : Abs} {s t b : Nat} {f : TaskFlags} :
      a.flags t = some f → b ≠ 0 → a.phase t b = none →
      (f.parallel = false → ∀ b', a.phase t b' = none) →
      a.canStart s →
      Step a (.exec s t b) ((a.setPhase t b .running).setStack s ((t, b) :: a.stack s))
  /-- Dead → Running: only resurrectable tasks -/
  | execAgain {a : Abs} {s t b : Nat} {f : TaskFlags} :
      a.flags t = some f → a.phase t b = some .dead → f.resurrect = true →
      a.canStart s →
      Step a (.exec s t b) ((a.setPhase t b .running).setStack s ((t, b) :: a.stack s))
  /-- Running → Paused: only the top of this thread's stack, only with the pause flag -/
  | pause {a : Abs} {s t b : Nat} {f : TaskFlags} :
      a.flags t = some f → f.pause = true →
      a.phase t b = some .running → a.isTop s t b →
      Step a (.pause s t b) (a.setPhase t b .paused)
  /-- Paused → Running: only the top of this thread's stack -/
  | resume {a : Abs} {s t b : Nat} :
      a.phase t b = some .paused → a.isTop s t b →
      Step a (.resume s t b) (a.setPhase t b .running)
  /-- Running → Dead: only the top of this thread's stack, which is popped -/
  | end_ {a : Abs} {s t b : Nat} :
      a.phase t b = some .running → a.isTop s t b →
      Step a (.end_ s t b) ((a.setPhase t b .dead).setStack s (a.stack s).tail)

/-- Every step of the history is legal, starting from `a`. -/
inductive Legal : Abs → List Op → Prop
  | nil {a : Abs} : Legal a []
  | cons {a a' : Abs} {op : Op} {ops : List Op} : Step a op a' → Legal a' ops → Legal a (op :: ops)

/-! ### Event level (nOS-V `VT?`/`VY?`, Nanos6 `6T?`/`6Y?`)

  The life-cycle above, plus what the event encoding and the subsystem view add:
  which body an event names, which flags a created task has, task id 0 cannot
  be shown, and the thread's subsystem stack receives "running body" when a
  body starts and gives it back when the body ends (so a body cannot start if
  the stack refuses the push, nor end if something else is on top). -/

structure EAbs where
  a : Abs
  ss : Nat → List Int

def EAbs.init : EAbs := ⟨Abs.init, fun _ => []⟩

/-- The body named by a state event: nOS-V parallel tasks name it in the
    payload (non-zero), other nOS-V tasks must say 0 and have the single body 1;
    Nanos6 tasks have the single body 1. -/
def namedBody (m : Model) (f : TaskFlags) (bp : Nat) : Option Nat :=
  match m with
  | .nanos6 => some 1
  | .nosv => if f.parallel then (if bp = 0 then none else some bp) else (if bp = 0 then some 1 else none)

/-- The subsystem channel accepts pushing `v`: room left, and no immediate
    repetition unless the model allows duplicates on that channel. -/
def pushOk (m : Model) (st : List Int) (v : Int) : Prop :=
  (m.cfg.dupSs = true ∨ st.head? ≠ some v) ∧ st.length < Ovni.Generated.maxChanStack

inductive EStep (m : Model) : EAbs → Ev → EAbs → Prop
  | typeCreate {e : EAbs} {ty h : Nat} {a' : Abs} :
      Step e.a (.typeCreate ty (gidOf h)) a' →
      EStep m e (.typeCreate ty h true) ⟨a', e.ss⟩
  | taskCreate {e : EAbs} {par : Bool} {t ty : Nat} {a' : Abs} :
      ¬(m = .nanos6 ∧ par = true) →
      Step e.a (.create ty t (createFlags m par)) a' →
      EStep m e (.taskCreate par t ty) ⟨a', e.ss⟩
  /-- the old Nanos6 `6TC` is ignored -/
  | oldCreate {e : EAbs} {t ty : Nat} :
      m = .nanos6 → EStep m e (.taskCreate true t ty) e
  | exec {e : EAbs} {th t bp b : Nat} {f : TaskFlags} {a' : Abs} :
      e.a.flags t = some f → namedBody m f bp = some b →
      Step e.a (.exec th t b) a' → t ≠ 0 → pushOk m (e.ss th) m.cfg.stTaskBody →
      EStep m e (.task th .x t bp) ⟨a', updFn e.ss th (m.cfg.stTaskBody :: e.ss th)⟩
  | end_ {e : EAbs} {th t bp b : Nat} {f : TaskFlags} {a' : Abs} {rest : List Int} :
      e.a.flags t = some f → namedBody m f bp = some b →
      Step e.a (.end_ th t b) a' → e.ss th = m.cfg.stTaskBody :: rest →
      EStep m e (.task th .e t bp) ⟨a', updFn e.ss th rest⟩
  | pause {e : EAbs} {th t bp b : Nat} {f : TaskFlags} {a' : Abs} :
      e.a.flags t = some f → namedBody m f bp = some b →
      Step e.a (.pause th t b) a' →
      EStep m e (.task th .p t bp) ⟨a', e.ss⟩
  | resume {e : EAbs} {th t bp b : Nat} {f : TaskFlags} {a' : Abs} :
      e.a.flags t = some f → namedBody m f bp = some b →
      Step e.a (.resume th t b) a' →
      EStep m e (.task th .r t bp) ⟨a', e.ss⟩
  | ssPush {e : EAbs} {th : Nat} {v : Int} :
      pushOk m (e.ss th) v →
      EStep m e (.ssPush th v) ⟨e.a, updFn e.ss th (v :: e.ss th)⟩
  | ssPop {e : EAbs} {th : Nat} {v : Int} {rest : List Int} :
      e.ss th = v :: rest →
      EStep m e (.ssPop th v) ⟨e.a, updFn e.ss th rest⟩

inductive ELegal (m : Model) : EAbs → List Ev → Prop
  | nil {e : EAbs} : ELegal m e []
  | cons {e e' : EAbs} {ev : Ev} {evs : List Ev} :
      EStep m e ev e' → ELegal m e' evs → ELegal m e (ev :: evs)

end Ovni.Task.Spec
