import OvniModel.Generated.All
import OvniModel.Emu.HandlerFacts
import OvniModel.Emu.EvSpec

/-!
# Which event codes each model's handler recognises

Transcription of the dispatch part of `src/emu/<model>/event.c`:
`model_<m>_event` (model character check), `process_ev` (thread-state guard,
`switch` on the category), then either `simple()` (lookup in the
`ss_table`/`fn_table`, regenerated from the C source as `Generated.<M>.table`)
or an explicit `switch` on the value (`pre_thread`, `pre_affinity`, `pre_cpu`,
`pre_flush`, `mark_event`, `pre_task`, `pre_type`, `context_switch`).

"Recognised" = the handler does not fail with its *unknown event / category /
value* error.  Whether the event is then legal (payload size, thread and
subsystem state, task life-cycle) is the business of other properties; here the
context is permissive (`stateGuard` holds and the payload has the declared shape).

The `switch` statements are represented as data (`Disp`) so that one lemma
("a dispatcher accepts exactly its keys") serves the eight models.

The data itself is **not written here**: `disp` and `stateGuard` are computed
from `Generated.Handlers` (the `case` labels of every category / value switch,
the function each case calls, the guards before the switch — read off clang's
AST of `/repo`'s current `event.c` on every run).  The values that used to be
hand-written are kept in `Props/Gen.lean` and proved equal to the derived ones.
-/
namespace Ovni.Emu.Dispatch
open Ovni.Emu.EvSpec

inductive ModelId | ovni | nanos6 | nosv | nodes | tampi | mpi | kernel | openmp
  deriving DecidableEq, Repr

namespace ModelId

def all : List ModelId := [ovni, nanos6, nosv, nodes, tampi, mpi, kernel, openmp]

/-- the model's directory / name in `ovnievents` -/
def name : ModelId → String
  | ovni => "ovni" | nanos6 => "nanos6" | nosv => "nosv" | nodes => "nodes"
  | tampi => "tampi" | mpi => "mpi" | kernel => "kernel" | openmp => "openmp"

def ofName (s : String) : Option ModelId := all.find? (fun m => m.name == s)

/-- `model_spec.model` (generated) -/
def char : ModelId → Nat
  | ovni => Ovni.Generated.Ovni.modelChar
  | nanos6 => Ovni.Generated.Nanos6.modelChar
  | nosv => Ovni.Generated.Nosv.modelChar
  | nodes => Ovni.Generated.Nodes.modelChar
  | tampi => Ovni.Generated.Tampi.modelChar
  | mpi => Ovni.Generated.Mpi.modelChar
  | kernel => Ovni.Generated.Kernel.modelChar
  | openmp => Ovni.Generated.Openmp.modelChar

/-- `model_evlist[]` (generated): (signature, description) -/
def evlistS : ModelId → List (String × String)
  | ovni => Ovni.Generated.Ovni.evlist
  | nanos6 => Ovni.Generated.Nanos6.evlist
  | nosv => Ovni.Generated.Nosv.evlist
  | nodes => Ovni.Generated.Nodes.evlist
  | tampi => Ovni.Generated.Tampi.evlist
  | mpi => Ovni.Generated.Mpi.evlist
  | kernel => Ovni.Generated.Kernel.evlist
  | openmp => Ovni.Generated.Openmp.evlist

def evlist (M : ModelId) : List (Str × Str) := M.evlistS.map (fun p => (ofString p.1, ofString p.2))

/-- `ss_table` / `fn_table` rows (generated; empty for the switch-only models) -/
def table : ModelId → List (Nat × Nat × Nat × Nat × Int)
  | ovni => Ovni.Generated.Ovni.table
  | nanos6 => Ovni.Generated.Nanos6.table
  | nosv => Ovni.Generated.Nosv.table
  | nodes => Ovni.Generated.Nodes.table
  | tampi => Ovni.Generated.Tampi.table
  | mpi => Ovni.Generated.Mpi.table
  | kernel => Ovni.Generated.Kernel.table
  | openmp => Ovni.Generated.Openmp.table

end ModelId

/-- Codes for which `simple()` (or the table lookup in `process_ev`) does not
    end in its final `else`: the action is `PUSH`, `POP`, `SET` or `IGN`
    (generated action 1‥4; 0 = a row with an action the handler does not
    know; rows that are all zero are not generated). -/
def tableKeys (t : List (Nat × Nat × Nat × Nat × Int)) : List (Nat × Nat) :=
  (t.filter (fun r => r.2.2.2.1 != 0)).map (fun r => (r.1, r.2.1))

/-- One `case` of the category `switch`. -/
inductive Rule
  | any                    -- every value accepted (value byte not inspected)
  | vals (vs : List Nat)   -- an inner `switch` on the value
  | tab                    -- `return simple(emu)`
  deriving DecidableEq, Repr

/-- A handler's dispatch: the `case`s of the category switch in source order
    (first match), and what `default:` does — `dflt = true` for the handlers
    that have no category switch at all and index the table directly. -/
structure Disp where
  cats : List (Nat × Rule)
  dflt : Bool
  deriving DecidableEq, Repr

def chars (s : String) : List Nat := ofString s

def catsTab (s : String) : List (Nat × Rule) := (chars s).map (fun c => (c, Rule.tab))

/-- the generated facts of each handler -/
def ModelId.facts : ModelId → Ovni.Generated.Handlers.Facts
  | .ovni => Ovni.Generated.Handlers.ovni
  | .nanos6 => Ovni.Generated.Handlers.nanos6
  | .nosv => Ovni.Generated.Handlers.nosv
  | .nodes => Ovni.Generated.Handlers.nodes
  | .tampi => Ovni.Generated.Handlers.tampi
  | .mpi => Ovni.Generated.Handlers.mpi
  | .kernel => Ovni.Generated.Handlers.kernel
  | .openmp => Ovni.Generated.Handlers.openmp

/-- What one `case` of the category switch does with the value byte: the
    function it calls indexes the event table (`tab`), has a `switch` on the
    value or starts with `if (v != 'x') return -1` (`vals`), or never looks at
    the value (`any`: `pre_burst`, the bare `return 0` of `OU*`). -/
def ruleOf (f : Ovni.Generated.Handlers.Facts) (c : Ovni.Generated.Handlers.Case) : Rule :=
  if f.tableFns.contains c.callee then .tab
  else match f.valSwitch c.callee with
    | some s => .vals (s.cases.map (·.label))
    | none =>
      match f.valueTests.lookup c.callee with
      | some vs => .vals vs
      | none => .any

/-- The dispatch described by the generated facts of a handler. -/
def dispOf (f : Ovni.Generated.Handlers.Facts) : Disp :=
  match f.catSwitch with
  | some s => { cats := s.cases.map (fun c => (c.label, ruleOf f c)), dflt := false }
  | none => { cats := [], dflt := f.directTable }

/-- The dispatch of each model, as `event.c` has it now. -/
def disp (M : ModelId) : Disp := dispOf M.facts

/-- Does the dispatcher reach a handler that knows `(c, v)`? -/
def Disp.accepts (d : Disp) (keys : List (Nat × Nat)) (c v : Nat) : Bool :=
  match d.cats.lookup c with
  | some .any => true
  | some (.vals vs) => vs.contains v
  | some .tab => keys.contains (c, v)
  | none => d.dflt && keys.contains (c, v)

/-- **The handler recognises this code**: `model_<M>_event` on an event
    `(m, c, v)` does not fail with an unknown-event class error. -/
def handled (M : ModelId) (m c v : Nat) : Bool :=
  m == M.char && (disp M).accepts (tableKeys M.table) c v

/-! ### Thread-state guards at the top of `process_ev` -/

structure Ctx where
  active : Bool      -- thread->is_active  (running, cooling or warming)
  running : Bool     -- thread->is_running
  outOfCpu : Bool    -- thread->is_out_of_cpu (between KCO and KCI)

/-- The thread-state guard each handler evaluates before dispatching (the
    `if (…) return -1` tests on `emu->thread` found before the switch). -/
def stateGuardOf (f : Ovni.Generated.Handlers.Facts) (x : Ctx) : Bool :=
  (!f.needsRunning || x.running) && (!f.needsActive || x.active) && (!f.checkOutOfCpu || !x.outOfCpu)

def stateGuard (M : ModelId) (x : Ctx) : Bool := stateGuardOf M.facts x

/-- a running thread that is on its CPU -/
def permissive : Ctx := { active := true, running := true, outOfCpu := false }

/-- the whole verdict of the dispatch part in a context -/
def handledIn (x : Ctx) (M : ModelId) (m c v : Nat) : Bool := stateGuard M x && handled M m c v

/-! ### The declared catalogue -/

/-- `model_evspec_init` on the generated `evlist`. -/
def initResult (M : ModelId) : Except InitErr (List Decl) := evspecInit M.char M.evlist

/-- compiled declarations (empty if the model would not register) -/
def decls (M : ModelId) : List Decl :=
  match initResult M with
  | .ok l => l
  | .error _ => []

def declaredMcv (M : ModelId) : List (Nat × Nat × Nat) := (decls M).map (·.1.mcv)

/-- **The tools list this code** (`ovnievents`; `ovnidump` finds a description). -/
def declared (M : ModelId) (m c v : Nat) : Bool := (declaredMcv M).contains (m, c, v)

/-! ### Enumerated exceptions to "handled ↔ declared" -/

/-- Categories whose value byte the handler never looks at: `OB*`, `OU*`. -/
def wildCats : ModelId → List Nat
  | .ovni => [66, 85]
  | _ => []

/-- Undeclared codes that are still accepted, with a warning, for old traces:
    `6TC`.  (`OCn` is also ignored with a warning and `VHa`/`VHA` are `IGN`
    rows, but those three *are* declared.) -/
def legacy : ModelId → List (Nat × Nat)
  | .nanos6 => [(84, 67)]
  | _ => []

def isException (M : ModelId) (m c v : Nat) : Bool :=
  m == M.char && ((wildCats M).contains c || (legacy M).contains (c, v))

/-! ### Finite key set of a dispatcher (for the table theorems) -/

/-- categories dispatched to an `any` rule (first match) -/
def Disp.wild (d : Disp) : List Nat :=
  (d.cats.map (·.1)).filter (fun c => d.cats.lookup c == some Rule.any)

def Disp.candidates (d : Disp) (keys : List (Nat × Nat)) : List (Nat × Nat) :=
  (d.cats.flatMap fun cr =>
    match cr.2 with
    | .vals vs => vs.map (fun v => (cr.1, v))
    | _ => []) ++ keys

/-- the accepted codes outside the wildcard categories -/
def Disp.finiteKeys (d : Disp) (keys : List (Nat × Nat)) : List (Nat × Nat) :=
  (d.candidates keys).filter (fun k => d.accepts keys k.1 k.2 && !(d.cats.lookup k.1 == some Rule.any))

end Ovni.Emu.Dispatch
