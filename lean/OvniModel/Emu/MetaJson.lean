import OvniModel.Emu.Meta
import OvniModel.Json

/-!
# `Emu.Meta.Meta` computed from the bytes of a `stream.json`

`Emu/Meta.lean` decides over "what the parson getters return"; here that record
is obtained from the parson model (`OvniModel/Json.lean`): `parse` =
`json_parse_file_with_comments`, then exactly the getters the emulator calls
(`stream.c:load_json/check_version`, `system.c:is_thread_stream`,
`loom.c:loom_name/load_cpus`, `proc.c`, `thread.c`, `model.c:should_enable`).
-/
namespace Ovni.Emu.Meta
open Ovni.Json

def str (s : String) : List Nat := s.toList.map Char.toNat

def toStr (bs : List Nat) : String := String.ofList (bs.map Char.ofNat)

/-- `check_version`: with the `(int)` cast (before `fix: 482cd61`) the number is
    truncated; without it only an integral number can equal the expected one
    (anything else is reported as the mismatching value 0). -/
def versionOf (cast : Bool) (v : Option Json) : Option Int :=
  match v with
  | none => none
  | some x =>
    let n := getNumber (some x)
    if cast then some (cInt n) else if n.2 = 0 then some n.1 else some 0

/-- one element of `ovni.loom_cpus` as `load_cpus` reads it -/
def cpuOf (j : Json) : Int × Int :=
  (cInt (getNumber (j.get? (str "index"))), cInt (getNumber (j.get? (str "phyid"))))

/-- the string-valued, non-empty-named entries of `ovni.require` as C strings -/
def reqsOf (ms : Members) : List (List Nat × List Nat) :=
  ms.filterMap fun (k, v) =>
    match v with
    | .string s => if k.isEmpty then none else some (k, cstr s)
    | _ => none

/-- The getters of the emulator applied to a parsed root value. -/
def metaOfJson (cast : Bool) (root : Json) : Meta :=
  match root with
  | .object _ =>
    let g := fun (p : String) => dotget root (str p)
    { parsed := true
      version := versionOf cast (root.get? (str "version"))
      part := (getString (g "ovni.part")).map toStr
      loom := (getString (g "ovni.loom")).map toStr
      pid := cInt (getNumber (g "ovni.pid"))
      tid := cInt (getNumber (g "ovni.tid"))
      appId := (g "ovni.app_id").map fun v => cInt (getNumber (some v))
      finished := getNumber (g "ovni.finished") == (1, 0)
      hasRequire := (getObject (g "ovni.require")).isSome
      requires := []
      reqs := match getObject (g "ovni.require") with | some ms => reqsOf ms | none => []
      hasLib := (getString (g "ovni.lib.version")).isSome && (getString (g "ovni.lib.commit")).isSome
      cpus := (getArray (g "ovni.loom_cpus")).map fun vs => vs.map cpuOf }
  | _ => { parsed := false, version := none, part := none, loom := none, pid := 0, tid := 0, appId := none,
           finished := false, hasRequire := false, requires := [], cpus := none }

/-- `load_json` on the bytes of a `stream.json`: `none` = the document holds a
    number whose value the parson model does not compute. -/
def metaOfText (cast : Bool) (bytes : List Nat) : Option Meta :=
  match parse bytes with
  | .ok j => some (metaOfJson cast j)
  | .unsup => none
  | _ => some (metaOfJson cast .null)

end Ovni.Emu.Meta
