/-!
# Model of `src/include/heap.h` (intrusive pointer-based binary max-heap)

The C heap is a complete binary tree of `heap_node_t {parent,left,right}` with
a `size`; nodes are addressed by their 1-based index: the moves from the root
to node `n` are the bits of `n` below its leading one, most significant first
(`heap_get_move`).  Exchanging a node with its parent by pointer surgery moves
the two *elements* and leaves the shape alone, so the model is a value tree
with the same shape, the same comparisons in the same order (ties break
identically) and the element stored at each position.

Only `cmp(a, b) > 0` is ever inspected by the C code, so the comparison is the
parameter `gt : α → α → Bool` (`gt a b = (cmp(a, b) > 0)`).

`none` results stand for the C `die()` calls and for dereferencing a missing
node (undefined behaviour in C); `Lemmas/Heap.lean` proves them unreachable
under the shape invariant.
-/
namespace Ovni.Heap

inductive Tree (α : Type) where
  | nil : Tree α
  | node (l : Tree α) (x : α) (r : Tree α) : Tree α
  deriving Repr

/-- `heap_head_t`: root pointer and element count. -/
structure Heap (α : Type) where
  root : Tree α
  size : Nat

/-- `heap_init` -/
def Heap.empty {α : Type} : Heap α := ⟨.nil, 0⟩

/-- `heap_get_move`: one move towards node `n` (`false` = left, `true` =
    right) and the index relative to the chosen child.
    `shift = 8*sizeof(size_t) - clz(n) - 1 = ⌊log2 n⌋`. -/
def getMove (n : Nat) : Nat × Bool :=
  let shift := Nat.log2 n
  let base := 2 ^ shift
  let aux := n - base / 2
  if aux < base then (aux, false) else (aux - base / 2, true)

/-- The `while (node != 1)` loop of `heap_get`: the list of moves from the
    root to node `n`.  The fuel is the loop bound (`n` iterations suffice,
    `pathFuel_fuel`). -/
def pathFuel : Nat → Nat → List Bool
  | 0, _ => []
  | f + 1, n => if n = 1 then [] else (getMove n).2 :: pathFuel f (getMove n).1

/-- Moves from the root to node `n` (`n ≥ 1`). -/
def path (n : Nat) : List Bool := pathFuel n n

variable {α : Type}

def Tree.rootVal : Tree α → Option α
  | .nil => none
  | .node _ x _ => some x

/-- `heap_get` given the moves: the subtree rooted at the addressed node
    (`nil` if the walk falls off the tree: a NULL dereference in C). -/
def getAt : List Bool → Tree α → Tree α
  | [], t => t
  | _ :: _, .nil => .nil
  | false :: p, .node l _ _ => getAt p l
  | true :: p, .node _ _ r => getAt p r

/-- One iteration of the bubble-up loop of `heap_insert` seen from the parent
    `y` whose child subtree `c'` was just rebuilt: if the new element `x` is
    still moving (`fl`, then it is the root of `c'`) and `cmp(x, y) > 0`, the
    two exchange places; otherwise the loop has stopped for good.  Returns
    the child subtree, the element at the parent position and the flag. -/
def bubble (gt : α → α → Bool) (x : α) (c' : Tree α) (fl : Bool) (y : α) : Tree α × α × Bool :=
  match c', fl && gt x y with
  | .node cl _ cr, true => (.node cl y cr, x, true)
  | _, _ => (c', y, false)

/-- `heap_insert` below the root: walk the moves, hang the new element at the
    end (which must be a free slot, else `die`), then on the way back perform
    the bubble-up loop `while (parent && cmp(node, parent) > 0)`.  The Boolean
    says "the new element is the root of the returned subtree and the loop is
    still running". -/
def insAt (gt : α → α → Bool) (x : α) : List Bool → Tree α → Option (Tree α × Bool)
  | [], .nil => some (.node .nil x .nil, true)
  | [], .node _ _ _ => none
  | _ :: _, .nil => none
  | false :: p, .node l y r =>
    match insAt gt x p l with
    | none => none
    | some (l', fl) =>
      let b := bubble gt x l' fl y
      some (.node b.1 b.2.1 r, b.2.2)
  | true :: p, .node l y r =>
    match insAt gt x p r with
    | none => none
    | some (r', fl) =>
      let b := bubble gt x r' fl y
      some (.node l b.2.1 b.1, b.2.2)

/-- `heap_insert`.  With a non-empty heap the parent is node `size/2` (after
    the increment) and the side is the parity of the new size. -/
def insert (gt : α → α → Bool) (h : Heap α) (x : α) : Option (Heap α) :=
  let n := h.size + 1
  match h.root with
  | .nil => some ⟨.node .nil x .nil, n⟩
  | t =>
    if n / 2 = 0 then none else
    match insAt gt x (path (n / 2) ++ [decide (n % 2 = 1)]) t with
    | some (t', _) => some ⟨t', n⟩
    | none => none

/-- `heap_max_heapify(a)` where `a` holds `x` and has the children of the
    given node: float `x` down.  `largest` starts as `a`; the left child wins
    only if strictly greater, the right child only if strictly greater than
    the current largest (so on ties: the parent, then the left child). -/
def sift (gt : α → α → Bool) : Tree α → α → Tree α
  | .nil, _ => .nil
  | .node l _ r, x =>
    match l.rootVal, r.rootVal with
    | none, none => .node l x r
    | some lx, none => if gt lx x then .node (sift gt l x) lx r else .node l x r
    | none, some rx => if gt rx x then .node l rx (sift gt r x) else .node l x r
    | some lx, some rx =>
      if gt lx x then
        if gt rx lx then .node l rx (sift gt r x) else .node (sift gt l x) lx r
      else
        if gt rx x then .node l rx (sift gt r x) else .node l x r

/-- Detach the node reached by the moves; it must exist and (when it is not a
    child of the root, see `popMax`) be a leaf.  Returns the element and the
    remaining tree. -/
def removeLeaf : List Bool → Tree α → Option (α × Tree α)
  | _, .nil => none
  | [], .node .nil x .nil => some (x, .nil)
  | [], .node _ _ _ => none
  | false :: p, .node l y r =>
    match removeLeaf p l with
    | some (x, l') => some (x, .node l' y r)
    | none => none
  | true :: p, .node l y r =>
    match removeLeaf p r with
    | some (x, r') => some (x, .node l y r')
    | none => none

/-- `heap_pop_max`.  Result: the maximum (`none` for an empty heap, C returns
    NULL) and the new heap; outer `none` = `die`/undefined behaviour.
    `change = heap_get(size)`; when `change` is a child of the root the C code
    does not insist on it being a leaf: it keeps `change`'s child on the other
    side and overwrites the one on the side it links the old sibling. -/
def popMax (gt : α → α → Bool) (h : Heap α) : Option (Option α × Heap α) :=
  match h.root with
  | .nil => some (none, h)
  | .node l m r =>
    if h.size = 0 then none else
    match path h.size with
    | [] => some (some m, ⟨.nil, h.size - 1⟩)
    | [false] =>
      match l with
      | .nil => none
      | .node cl c _ => some (some m, ⟨sift gt (.node cl c r) c, h.size - 1⟩)
    | [true] =>
      match r with
      | .nil => none
      | .node _ c cr => some (some m, ⟨sift gt (.node l c cr) c, h.size - 1⟩)
    | p =>
      match removeLeaf p (.node l m r) with
      | some (c, t') => some (some m, ⟨sift gt t' c, h.size - 1⟩)
      | none => none

/-- Pre-order listing (element, then left, then right). -/
def Tree.toList : Tree α → List α
  | .nil => []
  | .node l x r => x :: (l.toList ++ r.toList)

/-- Pre-order dump with explicit `none` for missing children, so that the
    shape is part of the canonical form (used by the correspondence). -/
def Tree.dump : Tree α → List (Option α)
  | .nil => [none]
  | .node l x r => some x :: (l.dump ++ r.dump)

def Tree.map {β : Type} (f : α → β) : Tree α → Tree β
  | .nil => .nil
  | .node l x r => .node (l.map f) (f x) (r.map f)

end Ovni.Heap
